(* Diamond.v — commutation of independent steps of the runtime model (C03).
   Two enabled choices with disjoint movers and disjoint footprints commute: either order is
   possible and the two resulting configurations have the SAME process table and the SAME channel
   table (Leibniz equality, thanks to gmap and the per-process identifier namespaces) and outputs
   that are permutations of each other.  The theorem is proved once, on *moves* (RuntimeFacts.v),
   and covers `Run`/`Run` (all modes), `Rendezvous`/`Run`, `Rendezvous`/`Rendezvous` (synchronous
   modes) and `Control`; the asynchronous and synchronous statements asked for in DESIGN.md are
   corollaries.  In asynchronous mode a sender and a receiver on the same channel are never both
   enabled (`async_send_recv_exclusive`). *)
From stdpp Require Import gmap strings sorting.
Require Import Grits.Base Grits.ModeDefs Grits.Modes Grits.STypes Grits.Forms Grits.Subst Grits.TcDeps Grits.Expand.
Require Import Grits.Runtime Grits.RuntimeFootprint Grits.proofs.RuntimeFacts.

(* ------------------------------------------------------------------ equivalence of configurations *)
Definition cfg_equiv (c d : config) : Prop :=
  procs c = procs d /\ chans c = chans d /\ out c ≡ₚ out d.

Global Instance cfg_equiv_equivalence : Equivalence cfg_equiv.
Proof.
  split.
  - intros c. split; [done|split; done].
  - intros c d (H1 & H2 & H3). split; [by symmetry|split; by symmetry].
  - intros c d e (H1 & H2 & H3) (H4 & H5 & H6). split; [congruence|]. split; [congruence|]. by etrans.
Qed.

Lemma cfg_equiv_labels c d : cfg_equiv c d -> labels c ≡ₚ labels d.
Proof. intros (_ & _ & H). unfold labels. by rewrite H. Qed.

(* ------------------------------------------------------------------ independence of two choices *)
Definition indep (md : exec_mode) (D : tenv) (c : config) (a b : choice) : Prop :=
  movers a ## movers b /\
  footprint_ch md D c a ## footprint_ch md D c b /\
  (forall k, k ∈ closes md D c a ++ closes md D c b -> is_Some (chans c !! k)).

Lemma indep_sym md D c a b : indep md D c a b -> indep md D c b a.
Proof. intros (H1 & H2 & H3). split; [set_solver|]. split; [set_solver|]. intros k Hk. apply H3. set_solver. Qed.

Global Instance touches_dec mv r : Decision (touches mv r).
Proof. unfold touches. apply _. Defined.

Lemma proc_upd_comm mva mvb r x :
  (forall r, touches mva r -> ~ touches mvb r) ->
  proc_upd mvb r (proc_upd mva r x) = proc_upd mva r (proc_upd mvb r x).
Proof.
  intros Hd. destruct (decide (touches mva r)) as [Ha|Ha].
  - rewrite !(proc_upd_id mvb) by auto. done.
  - rewrite !(proc_upd_id mva) by auto. done.
Qed.

Lemma chan_upd_comm mva mvb k x :
  (forall k, k ∈ writes mva -> k ∉ writes mvb) ->
  chan_upd (mv_put mvb) (e_newch (mv_eff mvb)) (e_close (mv_eff mvb)) k
    (chan_upd (mv_put mva) (e_newch (mv_eff mva)) (e_close (mv_eff mva)) k x) =
  chan_upd (mv_put mva) (e_newch (mv_eff mva)) (e_close (mv_eff mva)) k
    (chan_upd (mv_put mvb) (e_newch (mv_eff mvb)) (e_close (mv_eff mvb)) k x).
Proof.
  intros Hd. destruct (decide (k ∈ writes mva)) as [Ha|Ha].
  - rewrite !(chan_upd_id (mv_put mvb)) by (apply Hd, Ha). done.
  - rewrite !(chan_upd_id (mv_put mva)) by done. done.
Qed.

Section Commute.
Context (md : exec_mode) (D : tenv) (c : config) (a b : choice) (mva mvb : move).
Hypothesis Hns : ns_ok c.
Hypothesis Hwa : move_wf md D c a mva.
Hypothesis Hwb : move_wf md D c b mvb.
Hypothesis Hind : indep md D c a b.

Lemma mover_exists ch mv q : move_wf md D c ch mv -> q ∈ movers ch -> is_Some (procs c !! q).
Proof.
  intros Hw Hq. apply (mwf_movers _ _ _ _ _ Hw) in Hq as [->|Hk].
  - rewrite (mwf_self _ _ _ _ _ Hw). by eexists.
  - by apply (mwf_kill _ _ _ _ _ Hw).
Qed.

Lemma touches_cases ch mv r : move_wf md D c ch mv -> touches mv r ->
  (r ∈ movers ch /\ is_Some (procs c !! r)) \/
  exists n, r = mv_self mv ++ [n] /\ (pr_next (mv_proc mv) <= n)%nat.
Proof.
  intros Hw [->|[Hk|Hs]].
  - left. assert (mv_self mv ∈ movers ch) by (apply (mwf_movers _ _ _ _ _ Hw); by left).
    split; [done|]. by eapply mover_exists.
  - left. assert (r ∈ movers ch) by (apply (mwf_movers _ _ _ _ _ Hw); by right).
    split; [done|]. by eapply mover_exists.
  - right. apply mv_spawned_fresh; [apply (mwf_eff _ _ _ _ _ Hw)|done].
Qed.

Lemma self_in_movers ch mv : move_wf md D c ch mv -> mv_self mv ∈ movers ch.
Proof. intros Hw. apply (mwf_movers _ _ _ _ _ Hw). by left. Qed.
End Commute.

Lemma touches_disjoint md D c a b mva mvb :
  ns_ok c -> move_wf md D c a mva -> move_wf md D c b mvb -> movers a ## movers b ->
  forall r, touches mva r -> ~ touches mvb r.
Proof.
  intros Hns Hwa Hwb Hmov r Ha Hb.
  pose proof (self_in_movers md D c a mva Hwa) as Hsa. pose proof (self_in_movers md D c b mvb Hwb) as Hsb.
  apply (touches_cases md D c a mva r Hwa) in Ha. apply (touches_cases md D c b mvb r Hwb) in Hb.
  destruct Ha as [[Ha Hea]|(n & -> & Hn)], Hb as [[Hb Heb]|(m & E & Hm)].
  - exact (Hmov r Ha Hb).
  - eapply ns_ok_not_fresh_pid; [exact Hns|apply (mwf_self _ _ _ _ _ Hwb)|exact Hea|exact Hm|exact E].
  - eapply ns_ok_not_fresh_pid; [exact Hns|apply (mwf_self _ _ _ _ _ Hwa)|exact Heb|exact Hn|done].
  - apply app_inj_tail in E as [E _]. rewrite E in Hsa. exact (Hmov _ Hsa Hsb).
Qed.

Lemma footprint_exists md D c ch mv k :
  move_wf md D c ch mv -> (forall k, k ∈ closes md D c ch -> is_Some (chans c !! k)) ->
  k ∈ footprint_ch md D c ch -> is_Some (chans c !! k).
Proof.
  intros Hw Hcl Hk. unfold footprint_ch in Hk. apply elem_of_app in Hk as [Hk|Hk]; [|by apply Hcl].
  by apply (mwf_reads _ _ _ _ _ Hw).
Qed.

Lemma writes_disjoint md D c a b mva mvb :
  ns_ok c -> move_wf md D c a mva -> move_wf md D c b mvb -> indep md D c a b ->
  forall k, k ∈ writes mva -> k ∉ writes mvb.
Proof.
  intros Hns Hwa Hwb (Hmov & Hfp & Hex) k Ha Hb.
  pose proof (self_in_movers md D c a mva Hwa) as Hsa. pose proof (self_in_movers md D c b mvb Hwb) as Hsb.
  apply (writes_footprint _ _ _ _ _ _ Hwa) in Ha. apply (writes_footprint _ _ _ _ _ _ Hwb) in Hb.
  assert (Hexa : forall k, k ∈ footprint_ch md D c a -> is_Some (chans c !! k)).
  { intros k' Hk'. eapply footprint_exists; [exact Hwa| |exact Hk']. intros. apply Hex. set_solver. }
  assert (Hexb : forall k, k ∈ footprint_ch md D c b -> is_Some (chans c !! k)).
  { intros k' Hk'. eapply footprint_exists; [exact Hwb| |exact Hk']. intros. apply Hex. set_solver. }
  destruct Ha as [Ha|(n & -> & Hn)], Hb as [Hb|(m & E & Hm)].
  - exact (Hfp k Ha Hb).
  - eapply ns_ok_not_fresh_cid; [exact Hns|apply (mwf_self _ _ _ _ _ Hwb)|by apply Hexa|exact Hm|exact E].
  - eapply ns_ok_not_fresh_cid; [exact Hns|apply (mwf_self _ _ _ _ _ Hwa)|by apply Hexb|exact Hn|done].
  - apply app_inj_tail in E as [E _]. rewrite E in Hsa. exact (Hmov _ Hsa Hsb).
Qed.

(* the two orders of applying two independent moves *)
Lemma moves_commute md D c a b mva mvb :
  ns_ok c -> move_wf md D c a mva -> move_wf md D c b mvb -> indep md D c a b ->
  cfg_equiv (apply_move (apply_move c mva) mvb) (apply_move (apply_move c mvb) mva).
Proof.
  intros Hns Hwa Hwb Hind. split; [|split].
  - apply map_eq. intros r. rewrite !procs_apply_move_lookup. apply proc_upd_comm.
    eapply touches_disjoint; eauto. apply Hind.
  - apply map_eq. intros k. rewrite !chans_apply_move. apply chan_upd_comm.
    eapply writes_disjoint; eauto.
  - rewrite !out_apply_move. rewrite !app_assoc. apply Permutation_app_tail, Permutation_app_comm.
Qed.

(* ------------------------------------------------------------------ the diamond *)
Lemma step_SStep_move md D F c ch c' :
  step md D F c ch = SStep c' -> exists mv, move_of md D F c ch = MMove mv /\ c' = apply_move c mv.
Proof.
  rewrite step_move. destruct (move_of md D F c ch) as [| |mv]; try discriminate. intros [= <-]. eauto.
Qed.

Lemma indep_frame md D F c a b mva mvb :
  ns_ok c -> move_of md D F c a = MMove mva -> move_of md D F c b = MMove mvb -> indep md D c a b ->
  move_of md D F (apply_move c mva) b = MMove mvb.
Proof.
  intros Hns Ea Eb (Hmov & Hfp & Hex).
  apply move_of_wf in Eb as Hwb.
  rewrite <- Eb. eapply (step_frame_other md D F c a (apply_move c mva) b); [done| |done| |].
  - rewrite step_move, Ea. done.
  - intros q Hq. by eapply mover_exists.
  - intros k Hk. split; [by apply (mwf_reads _ _ _ _ _ Hwb)|]. unfold footprint_ch in Hfp. set_solver.
Qed.

Theorem diamond md D F c a b c1 c2 :
  ns_ok c -> indep md D c a b ->
  step md D F c a = SStep c1 -> step md D F c b = SStep c2 ->
  exists d1 d2, step md D F c1 b = SStep d1 /\ step md D F c2 a = SStep d2 /\ cfg_equiv d1 d2.
Proof.
  intros Hns Hind Ha Hb.
  apply step_SStep_move in Ha as (mva & Ea & ->). apply step_SStep_move in Hb as (mvb & Eb & ->).
  exists (apply_move (apply_move c mva) mvb), (apply_move (apply_move c mvb) mva).
  split; [|split].
  - rewrite step_move, (indep_frame md D F c a b mva mvb); done.
  - rewrite step_move, (indep_frame md D F c b a mvb mva); try done. by apply indep_sym.
  - eapply moves_commute; eauto using move_of_wf.
Qed.

(* independence is stable under the other step (used by the confluence argument only through
   the invariant, but stated here because it is what "footprint" means) *)

(* ------------------------------------------------------------------ asynchronous mode *)
(* provider and client of a channel, one sending and one receiving: never both enabled, because
   the one-place buffer is either empty or full *)
Theorem async_send_recv_exclusive D F c p q pp qq k m c1 c2 :
  procs c !! p = Some pp -> procs c !! q = Some qq ->
  action_of Async D pp = ASend k m -> action_of Async D qq = ARecv k ->
  step Async D F c (Run p) = SStep c1 -> step Async D F c (Run q) = SStep c2 -> False.
Proof.
  intros Hp Hq Hap Haq. cbn [step]. rewrite Hp, Hq, Hap, Haq.
  destruct (chans c !! k) as [[buf cl]|]; [|discriminate]. cbn [ch_closed ch_buf].
  destruct cl; [discriminate|]. destruct buf; discriminate.
Qed.

(* the statement of DESIGN.md for the asynchronous mode *)
Theorem diamond_async D F c p q c1 c2 :
  p ≠ q -> ns_ok c ->
  step Async D F c (Run p) = SStep c1 -> step Async D F c (Run q) = SStep c2 ->
  footprint Async D c p ## footprint Async D c q ->
  (forall k, k ∈ closes Async D c (Run p) ++ closes Async D c (Run q) -> is_Some (chans c !! k)) ->
  exists d1 d2, step Async D F c1 (Run q) = SStep d1 /\ step Async D F c2 (Run p) = SStep d2 /\ cfg_equiv d1 d2.
Proof.
  intros Hpq Hns Hp Hq Hfp Hex. eapply diamond; eauto. split; [|split]; [|done|done]. cbn.
  intros x Hx Hy. apply elem_of_list_singleton in Hx, Hy. congruence.
Qed.

(* ------------------------------------------------------------------ synchronous mode *)
Theorem diamond_sync_rendezvous D F c s1 r1 s2 r2 c1 c2 :
  ns_ok c -> {[s1; r1]} ## ({[s2; r2]} : gset pid) ->
  step Sync D F c (Rendezvous s1 r1) = SStep c1 -> step Sync D F c (Rendezvous s2 r2) = SStep c2 ->
  footprint_ch Sync D c (Rendezvous s1 r1) ## footprint_ch Sync D c (Rendezvous s2 r2) ->
  (forall k, k ∈ closes Sync D c (Rendezvous s1 r1) ++ closes Sync D c (Rendezvous s2 r2) -> is_Some (chans c !! k)) ->
  exists d1 d2, step Sync D F c1 (Rendezvous s2 r2) = SStep d1 /\ step Sync D F c2 (Rendezvous s1 r1) = SStep d2 /\
                cfg_equiv d1 d2.
Proof.
  intros Hns Hd H1 H2 Hfp Hex. eapply diamond; eauto. split; [|split]; [|done|done]. cbn.
  intros x Hx Hy. apply (Hd x); set_solver.
Qed.

Theorem diamond_sync_rendezvous_run D F c s r p c1 c2 :
  ns_ok c -> p ≠ s -> p ≠ r ->
  step Sync D F c (Rendezvous s r) = SStep c1 -> step Sync D F c (Run p) = SStep c2 ->
  footprint_ch Sync D c (Rendezvous s r) ## footprint Sync D c p ->
  (forall k, k ∈ closes Sync D c (Rendezvous s r) ++ closes Sync D c (Run p) -> is_Some (chans c !! k)) ->
  exists d1 d2, step Sync D F c1 (Run p) = SStep d1 /\ step Sync D F c2 (Rendezvous s r) = SStep d2 /\ cfg_equiv d1 d2.
Proof.
  intros Hns Hs Hr H1 H2 Hfp Hex. eapply diamond; eauto. split; [|split]; [|done|done]. cbn.
  intros x Hx Hy. apply elem_of_list_singleton in Hy as ->.
  apply elem_of_cons in Hx as [->|Hx]; [done|]. apply elem_of_list_singleton in Hx as ->. done.
Qed.

(* ------------------------------------------------------------------ run-time errors are stable *)
(* a choice that is a run-time error stays the same run-time error after an independent step: the
   side condition for the `I_err` hypothesis of Determinism.v *)
Definition indep_read (md : exec_mode) (D : tenv) (c : config) (a b : choice) : Prop :=
  movers a ## movers b /\
  (forall q, q ∈ movers a -> is_Some (procs c !! q)) /\
  (forall k, k ∈ reads md D c a -> is_Some (chans c !! k) /\ k ∉ footprint_ch md D c b).

Theorem error_stable md D F c a b w e c' :
  ns_ok c -> indep_read md D c a b ->
  step md D F c a = SError w e -> step md D F c b = SStep c' -> step md D F c' a = SError w e.
Proof.
  intros Hns (Hmov & Hex & Hrd) Ha Hb.
  assert (Hm : move_of md D F c' a = move_of md D F c a).
  { eapply (step_frame_other md D F c b c' a Hns Hb); [|done|done].
    intros x Hx Hy. exact (Hmov x Hy Hx). }
  rewrite step_move in Ha |- *. rewrite Hm. by destruct (move_of md D F c a).
Qed.

(* ------------------------------------------------------------------ a local sufficient condition *)
(* "Topo + Dual", in the form the diamond uses them, for the asynchronous mode: among the next
   actions of the live processes every channel has at most one sender and at most one receiver
   (a sender and a receiver on the same channel are allowed: they are never both enabled), and the
   providers a process closes on a forward request exist and are touched by nobody else. *)
Definition is_send_on (a : action) (k : cid) : Prop := exists m, a = ASend k m.
Definition is_recv_on (a : action) (k : cid) : Prop := a = ARecv k.

Definition async_discipline (D : tenv) (c : config) : Prop :=
  forall p q pp qq, p ≠ q -> procs c !! p = Some pp -> procs c !! q = Some qq ->
    (forall k, ~ (is_send_on (action_of Async D pp) k /\ is_send_on (action_of Async D qq) k)) /\
    (forall k, ~ (is_recv_on (action_of Async D pp) k /\ is_recv_on (action_of Async D qq) k)) /\
    closes Async D c (Run p) ## footprint Async D c q /\
    (forall k, k ∈ closes Async D c (Run p) -> is_Some (chans c !! k)).

Theorem async_discipline_indep D F c a b c1 c2 :
  async_discipline D c -> a ≠ b ->
  step Async D F c a = SStep c1 -> step Async D F c b = SStep c2 -> indep Async D c a b.
Proof.
  intros Hd Hab Ha Hb.
  destruct a as [p|s r|f t]; [|by cbn in Ha|by cbn in Ha]. destruct b as [q|s r|f t]; [|by cbn in Hb|by cbn in Hb].
  assert (Hpq : p ≠ q) by congruence.
  destruct (procs c !! p) as [pp|] eqn:Ep; [|by cbn in Ha; rewrite Ep in Ha].
  destruct (procs c !! q) as [qq|] eqn:Eq; [|by cbn in Hb; rewrite Eq in Hb].
  destruct (Hd p q pp qq Hpq Ep Eq) as (Hss & Hrr & Hcp & Hep).
  destruct (Hd q p qq pp (not_eq_sym Hpq) Eq Ep) as (_ & _ & Hcq & Heq).
  split; [|split].
  - cbn. intros x Hx Hy. apply elem_of_list_singleton in Hx, Hy. congruence.
  - unfold footprint_ch. intros k Hk1 Hk2. apply elem_of_app in Hk1 as [Hk1|Hk1].
    + apply elem_of_app in Hk2 as [Hk2|Hk2].
      * (* both act on k *)
        cbn [reads] in Hk1, Hk2. rewrite Ep in Hk1. rewrite Eq in Hk2.
        destruct (action_of Async D pp) as [| |k1 m1|k1| |k1 pv1|w1] eqn:Eap; cbn in Hk1; try by apply elem_of_nil in Hk1.
        all: destruct (action_of Async D qq) as [| |k2 m2|k2| |k2 pv2|w2] eqn:Eaq; cbn in Hk2; try by apply elem_of_nil in Hk2.
        all: apply elem_of_list_singleton in Hk1 as ->; apply elem_of_list_singleton in Hk2 as ->.
        -- apply (Hss k2). split; eexists; eauto. 
        -- eapply (async_send_recv_exclusive D F c p q pp qq k2 m1); eauto.
        -- eapply (async_send_recv_exclusive D F c q p qq pp k2 m2); eauto.
        -- apply (Hrr k2). by split.
      * apply (Hcq k Hk2). unfold footprint, footprint_ch. apply elem_of_app. by left.
    + apply (Hcp k Hk1). exact Hk2.
  - intros k Hk. apply elem_of_app in Hk as [Hk|Hk]; [by apply Hep|by apply Heq].
Qed.
