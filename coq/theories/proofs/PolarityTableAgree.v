(* proofs/PolarityTableAgree.v — the model's polarity / mode projections equal what the code computes. *)
Require Import Grits.Base Grits.ModeDefs Grits.Modes Grits.STypes Grits.PolarityDefs
  Grits.gen.PolarityTable Grits.GenPolarityChecks.

Lemma polarity_table_agrees : polarity_agree_b = true.
Proof. vm_compute. reflexivity. Qed.

Lemma polarity_head_only : forall t, pol_result_of (polarity_of t) = polarity_by_kind (kind_of t).
Proof. destruct t; reflexivity. Qed.

(* hence: for EVERY type, the model's polarity is the one the real method returned on the dumped
   value with the same head constructor *)
Lemma polarity_of_is_dumped : forall t,
  exists t' p m w c, In (t', p, m, w, c) polarity_tbl /\ kind_of t' = kind_of t /\
                     pol_result_eqb (pol_result_of (polarity_of t)) p = true.
Proof.
  intro t.
  assert (H : forall k, existsb (fun '(t', p, _, _, _) =>
              tkind_eqb (kind_of t') k && pol_result_eqb (polarity_by_kind k) p) polarity_tbl = true)
    by (intro k; destruct k; vm_compute; reflexivity).
  specialize (H (kind_of t)). apply existsb_exists in H.
  destruct H as [[[[[t' p] m] w] c] [Hin Hb]].
  apply andb_prop in Hb. destruct Hb as [Hk Hp].
  exists t', p, m, w, c. split; [exact Hin|]. split.
  - destruct (kind_of t'), (kind_of t); simpl in Hk; congruence.
  - rewrite polarity_head_only. exact Hp.
Qed.
