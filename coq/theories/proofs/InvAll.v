(* InvAll.v — the Topo invariant for ALL typed configurations (not only the core fragment), in the two
   polarized modes: typed + Topo + affine bodies + namespace hygiene, and three auxiliary facts that
   the steps outside the core fragment need:
     * the provider channels of a process (of a forward request) are pairwise different (ProvsOk),
     * the provider of a droppable forward is referenced by nobody (DropUnref),
     * droppable forwards occur only as whole bodies (the interpreter makes them; the parser never
       does): NoFd.
   `invx_step_async` dispatches on the action to the per-rule lemmas of TopoStep / TopoStepExt /
   TopoFinish / TopoDup. *)
From stdpp Require Import gmap strings.
Require Import Grits.Base Grits.ModeDefs Grits.Modes Grits.STypes Grits.Forms Grits.Subst Grits.TcDeps Grits.Expand
               Grits.Runtime Grits.RuntimeFootprint Grits.spec.RtTyping Grits.spec.Topo Grits.spec.Linear.
Require Import Grits.proofs.RtSubst Grits.proofs.StepErrors Grits.proofs.RtSafety Grits.proofs.TopoLin
               Grits.proofs.RuntimeFacts Grits.proofs.TopoStep Grits.proofs.TopoStepExt Grits.proofs.TopoFinish
               Grits.proofs.DupSubst Grits.proofs.LinChan Grits.proofs.TopoDup.

(* ------------------------------------------------------------------ no droppable forward inside a term *)
Fixpoint nofd (f : form) : bool :=
  match f with
  | FRecv _ _ _ k | FWait _ k | FShift _ _ k | FPrint _ k | FDrop _ k | FSplit _ _ _ k => nofd k
  | FCase _ bs => nofd_brs bs
  | FNew _ b k => nofd b && nofd k
  | FFwd _ _ d => negb d
  | _ => true
  end
with nofd_brs (b : branches) : bool :=
  match b with BrNil => true | BrCons _ _ k r => nofd k && nofd_brs r end.

Definition is_dfwd (f : form) : bool := match f with FFwd _ _ true => true | _ => false end.
Definition nofd_top (f : form) : bool := is_dfwd f || nofd f.

Lemma nofd_subst_mut old new :
  (forall f, nofd (subst old new f) = nofd f) /\ (forall b, nofd_brs (subst_brs old new b) = nofd_brs b).
Proof.
  apply form_branches_ind; simpl; intros; auto;
    repeat match goal with |- context [if ?c then _ else _] => destruct c end; congruence.
Qed.
Lemma nofd_subst old new f : nofd (subst old new f) = nofd f.
Proof. apply nofd_subst_mut. Qed.
Lemma nofd_find l bs pay K : find_branch l bs = Some (pay, K) -> nofd_brs bs = true -> nofd K = true.
Proof.
  induction bs as [|l' p' k' r IH]; simpl; [discriminate|]. rewrite andb_true_iff. destruct (String.eqb l' l).
  - intros [= -> ->]. tauto.
  - intros H [_ H']. auto.
Qed.
Lemma nofd_not_dfwd f : nofd f = true -> is_dfwd f = false.
Proof. destruct f; simpl; auto. by destruct droppable. Qed.
Lemma nofd_sub_all : forall ps ar b, nofd (sub_all ps ar b) = nofd b.
Proof. induction ps as [|q ps IH]; intros [|a ar] b; simpl; auto. by rewrite IH, nofd_subst. Qed.
Lemma nofd_subst_col fns : forall rows i b, nofd (subst_col fns rows i b) = nofd b.
Proof.
  induction fns as [|fn fr IH]; intros [|row rr] i b; simpl; auto. rewrite IH. destruct (nth_error row i); [apply nofd_subst|done].
Qed.
Definition nofd_funs (Fs : list fundef) : Prop := Forall (fun fd => nofd (fn_body fd) = true) Fs.
Lemma nofd_call_body Fs fn args b : nofd_funs Fs -> call_body Fs fn args = Some b -> nofd b = true.
Proof.
  intros HFc. rewrite call_body_unfold. destruct (get_function Fs fn (length args)) as [fd|] eqn:Hg; [|discriminate].
  apply get_function_In in Hg. unfold nofd_funs in HFc. rewrite Forall_forall in HFc. specialize (HFc fd Hg).
  cbn zeta. destruct (fn_explicit fd); repeat case_match; intros [= <-]; rewrite nofd_sub_all, ?nofd_subst; done.
Qed.

(* ------------------------------------------------------------------ the objects after an effect *)
Lemma apply_effect_objs c0 p pp e o' : obj_in (apply_effect c0 p pp e) o' ->
  match o' with
  | OProc q v => (q = p /\ exists pp1, e_after e = Continue pp1 /\ pr_provs v = pr_provs pp1 /\ pr_body0 v = pr_body0 pp1)
                 \/ (exists s n, In s (e_spawn e) /\ v = mk_spawned s /\ q = p ++ [n])
                 \/ (q <> p /\ procs c0 !! q = Some v)
  | OMsg k m => obj_in c0 (OMsg k m)
  end.
Proof.
  rewrite apply_effect_eq. destruct o' as [q v|k m]; cbn.
  - unfold procs_after. intros H.
    assert (Hu : forall x, (spawned p (eff_next0 pp e) (e_spawn e) ∪ procs c0) !! q = Some x ->
              (exists s n, In s (e_spawn e) /\ x = mk_spawned s /\ q = p ++ [n]) \/ procs c0 !! q = Some x).
    { intros x Hx. apply lookup_union_Some_raw in Hx as [Hx|[_ Hx]]; [left|by right].
      apply spawned_lookup_iff in Hx as (i & s & Hs & -> & ->). exists s, (eff_next0 pp e + i)%nat.
      split; [apply elem_In; eapply elem_of_list_lookup_2; eauto|done]. }
    destruct (e_after e) as [pp1|] eqn:Ea.
    + apply lookup_insert_Some in H as [[<- <-]|[Hne H]]; [left; split; [done|]; exists pp1; done|].
      right. destruct (Hu _ H) as [?|?]; [by left|right; split; [congruence|done]].
    + apply lookup_delete_Some in H as [Hne H]. right. destruct (Hu _ H) as [?|?]; [by left|right; split; [congruence|done]].
  - intros (st' & H & Hbuf). rewrite close_all_lookup in H.
    assert (Hx : exists st0, new_all (e_newch e) (chans c0) !! k = Some st0 /\ ch_buf st0 = Some m).
    { destruct (decide (k ∈ e_close e)); [|eauto]. destruct (new_all (e_newch e) (chans c0) !! k) as [st0|] eqn:E0; [|discriminate].
      cbn in H. injection H as <-. cbn in Hbuf. eauto. }
    destruct Hx as (st0 & H0 & Hb0). rewrite new_all_lookup in H0. destruct (decide (k ∈ e_newch e)); [injection H0 as <-; discriminate|].
    exists st0. done.
Qed.

(* references only move: an old (typed) channel referred to after the step was referred to before *)
Definition RM (Δ : gmap cid sty) (c c' : config) : Prop :=
  forall o' j, obj_in c' o' -> j ∈ refs o' -> is_Some (Δ !! j) -> exists o, obj_in c o /\ j ∈ refs o.

Lemma rm_effect Δ c c0 p pp e (R : cid -> Prop) :
  (forall o, obj_in c0 o -> obj_in c o) ->
  (forall j, R j -> exists o, obj_in c o /\ j ∈ refs o) ->
  (forall pp1, e_after e = Continue pp1 -> forall j, j ∈ form_chans (pr_body0 pp1) -> R j \/ Δ !! j = None) ->
  (forall s, In s (e_spawn e) -> forall j, j ∈ form_chans (sp_body s) -> R j \/ Δ !! j = None) ->
  RM Δ c (apply_effect c0 p pp e).
Proof.
  intros Hsub HR Hcont Hsp o' j Ho' Hj HΔ. apply apply_effect_objs in Ho'. destruct o' as [q v|k m].
  - destruct Ho' as [(-> & pp1 & Ea & _ & Hb)|[(s & n & Hs & -> & ->)|[_ Ho]]].
    + cbn in Hj. rewrite Hb in Hj. destruct (Hcont pp1 Ea j Hj) as [H|H]; [by apply HR|]. rewrite H in HΔ. by destruct HΔ.
    + cbn in Hj. destruct (Hsp s Hs j Hj) as [H|H]; [by apply HR|]. rewrite H in HΔ. by destruct HΔ.
    + exists (OProc q v). split; [apply Hsub; exact Ho|done].
  - exists (OMsg k m). split; [by apply Hsub|done].
Qed.

Definition DropUnref (c : config) : Prop :=
  forall p pp, procs c !! p = Some pp -> is_dfwd (pr_body0 pp) = true ->
  length (pr_provs pp) = 1%nat /\ forall j o, j ∈ cids_of (pr_provs pp) -> obj_in c o -> j ∉ refs o.
Definition NoFd (c : config) : Prop := forall p pp, procs c !! p = Some pp -> nofd_top (pr_body0 pp) = true.
Definition ProvsOk (c : config) : Prop :=
  (forall p pp, procs c !! p = Some pp -> NoDup (cids_of (pr_provs pp))) /\
  (forall k st m, chans c !! k = Some st -> ch_buf st = Some m -> m_rule m = RFWD -> NoDup (cids_of (m_provs m))).

Section All.
Variable D : tenv.
Variable F : list fundef.
Variable teq : sty -> sty -> Prop.
Hypothesis Hteq : teq_laws D teq.
Hypothesis HF : funs_typed D F teq.
Hypothesis HFa : funs_aff F.
Hypothesis HFn : nofd_funs F.

Lemma dropunref_step Δ c c' :
  cfg_typed D F teq Δ c -> DropUnref c -> RM Δ c c' ->
  (forall q v, procs c' !! q = Some v -> is_dfwd (pr_body0 v) = true ->
     procs c !! q = Some v \/ (length (pr_provs v) = 1%nat /\ forall j o', j ∈ cids_of (pr_provs v) -> obj_in c' o' -> j ∉ refs o')) ->
  DropUnref c'.
Proof.
  intros Hc Hd Hrm Hnew q v Hq Hdf. destruct (Hnew q v Hq Hdf) as [Hold|Hfresh]; [|exact Hfresh].
  split; [by destruct (Hd q v Hold Hdf)|]. intros j o' Hj Ho' Hjr.
  destruct (ct_procs D F teq Δ c Hc q v Hold) as (s & rs & _ & Hprovs & _). rewrite Forall_forall in Hprovs.
  assert (HΔ : is_Some (Δ !! j)).
  { unfold cids_of in Hj. apply elem_In, in_flat_map in Hj as (n & Hn & Hjn). destruct (Hprovs n Hn) as (c0 & t' & Hc0 & Ht' & _).
    rewrite Hc0 in Hjn. destruct Hjn as [<-|[]]. eauto. }
  destruct (Hrm o' j Ho' Hjr HΔ) as (o & Ho & Hjo). destruct (Hd q v Hold Hdf) as [_ H]. exact (H j o Hj Ho Hjo).
Qed.

(* everything but Topo, for a step that applies an effect: the continuation and the spawned processes
   are affine, have distinct providers, contain no droppable forward (or are one, on fresh providers,
   and then the effect mentions old channels only); R: the channels the new bodies may mention
   (those of the acting process and of the consumed message) *)
Definition old_only (Δ : gmap cid sty) (e : effect) : Prop :=
  (forall pp1, e_after e = Continue pp1 -> forall i, i ∈ form_chans (pr_body0 pp1) -> is_Some (Δ !! i)) /\
  (forall s, In s (e_spawn e) -> forall i, i ∈ form_chans (sp_body s) -> is_Some (Δ !! i)).

Lemma rest_of_effect Δ c c0 p pp e (R : cid -> Prop) :
  cfg_typed D F teq Δ c -> LinCfg c -> ProvsOk c -> DropUnref c -> NoFd c ->
  (forall o, obj_in c0 o -> obj_in c o) -> (forall q v, procs c0 !! q = Some v -> procs c !! q = Some v) ->
  (forall j, R j -> exists o, obj_in c o /\ j ∈ refs o) ->
  (forall pp1, e_after e = Continue pp1 ->
     affr None (pr_body0 pp1) /\ NoDup (cids_of (pr_provs pp1)) /\ nofd (pr_body0 pp1) = true /\
     forall j, j ∈ form_chans (pr_body0 pp1) -> R j \/ Δ !! j = None) ->
  (forall s, In s (e_spawn e) ->
     affr None (sp_body s) /\ NoDup (cids_of (sp_provs s)) /\
     (forall j, j ∈ form_chans (sp_body s) -> R j \/ Δ !! j = None) /\
     (nofd (sp_body s) = true \/
      (is_dfwd (sp_body s) = true /\ length (sp_provs s) = 1%nat /\ (forall j, j ∈ cids_of (sp_provs s) -> Δ !! j = None) /\ old_only Δ e))) ->
  let c' := apply_effect c0 p pp e in
  LinCfg c' /\ ProvsOk c' /\ DropUnref c' /\ NoFd c'.
Proof.
  intros Hc Hl [Hpv1 Hpv2] Hd Hnf Hsub Hsubp HR Hcont Hsp c'.
  assert (Hrm : RM Δ c c').
  { apply (rm_effect Δ c c0 p pp e R); auto.
    - intros pp1 Ea. by destruct (Hcont pp1 Ea) as (_ & _ & _ & H).
    - intros s Hs. by destruct (Hsp s Hs) as (_ & _ & H & _). }
  assert (Hmsgs : forall k st m, chans c' !! k = Some st -> ch_buf st = Some m -> exists st0, chans c !! k = Some st0 /\ ch_buf st0 = Some m).
  { intros k st m Hk Hb. assert (Ho : obj_in c' (OMsg k m)) by (exists st; done). apply apply_effect_objs in Ho. by apply Hsub in Ho. }
  assert (Hprocs : forall q v, procs c' !! q = Some v -> obj_in c' (OProc q v)) by done.
  split; [|split; [|split]].
  - split.
    + intros q v Hq. pose proof (apply_effect_objs c0 p pp e (OProc q v) Hq) as [(-> & pp1 & Ea & _ & Hb)|[(s & n & Hs & -> & ->)|[_ Ho]]].
      * rewrite Hb. by destruct (Hcont pp1 Ea).
      * cbn. by destruct (Hsp s Hs).
      * exact (lc_procs c Hl q v (Hsubp q v Ho)).
    + intros k st m Hk Hb. destruct (Hmsgs k st m Hk Hb) as (st0 & H0 & Hb0). exact (lc_msgs c Hl k st0 m H0 Hb0).
  - split.
    + intros q v Hq. pose proof (apply_effect_objs c0 p pp e (OProc q v) Hq) as [(-> & pp1 & Ea & Hp & _)|[(s & n & Hs & -> & ->)|[_ Ho]]].
      * rewrite Hp. by destruct (Hcont pp1 Ea) as (_ & H & _).
      * cbn. by destruct (Hsp s Hs) as (_ & H & _).
      * exact (Hpv1 q v (Hsubp q v Ho)).
    + intros k st m Hk Hb. destruct (Hmsgs k st m Hk Hb) as (st0 & H0 & Hb0). exact (Hpv2 k st0 m H0 Hb0).
  - apply (dropunref_step Δ c c' Hc Hd Hrm). intros q v Hq Hdf.
    pose proof (apply_effect_objs c0 p pp e (OProc q v) Hq) as [(-> & pp1 & Ea & _ & Hb)|[(s & n & Hs & -> & ->)|[_ Ho]]].
    + exfalso. rewrite Hb in Hdf. destruct (Hcont pp1 Ea) as (_ & _ & Hn & _). rewrite (nofd_not_dfwd _ Hn) in Hdf. discriminate.
    + right. cbn in Hdf. destruct (Hsp s Hs) as (_ & _ & _ & [Hn|(_ & Hlen & Hfr & Hold1 & Hold2)]); [rewrite (nofd_not_dfwd _ Hn) in Hdf; discriminate|].
      split; [exact Hlen|]. intros j o' Hj Ho' Hjr. cbn in Hj. specialize (Hfr j Hj).
      apply apply_effect_objs in Ho'. destruct o' as [q' v'|k' m'].
      * destruct Ho' as [(-> & pp1 & Ea & _ & Hb)|[(s' & n' & Hs' & -> & ->)|[_ Ho]]].
        -- cbn in Hjr. rewrite Hb in Hjr. destruct (Hold1 pp1 Ea j Hjr) as [? E]. congruence.
        -- cbn in Hjr. destruct (Hold2 s' Hs' j Hjr) as [? E]. congruence.
        -- apply (proj1 (eq_None_not_Some _) Hfr). eapply (obj_chans_typed D F teq Δ c (OProc q' v')); eauto.
      * apply (proj1 (eq_None_not_Some _) Hfr). eapply (obj_chans_typed D F teq Δ c (OMsg k' m')); eauto.
    + left. by apply Hsubp.
  - intros q v Hq. pose proof (apply_effect_objs c0 p pp e (OProc q v) Hq) as [(-> & pp1 & Ea & _ & Hb)|[(s & n & Hs & -> & ->)|[_ Ho]]].
    + rewrite Hb. destruct (Hcont pp1 Ea) as (_ & _ & Hn & _). unfold nofd_top. by rewrite Hn, orb_true_r.
    + cbn. destruct (Hsp s Hs) as (_ & _ & _ & [Hn|(Hdf & _)]); unfold nofd_top; [by rewrite Hn, orb_true_r|by rewrite Hdf].
    + exact (Hnf q v (Hsubp q v Ho)).
Qed.

Lemma affr_fwd_leaf a b d : chan a = None -> is_self a = true -> affr None (FFwd a b d).
Proof.
  intros Hc Hs. split; [|exact I]. simpl. constructor; [|constructor].
  unfold uname at 1. rewrite Hc. unfold prov_ref. rewrite Hs. simpl.
  unfold uname. destruct (chan b); [repeat constructor; simpl; tauto|]. destruct (prov_ref None b); repeat constructor; simpl; tauto.
Qed.

Definition Rest (c' : config) : Prop := Topo c' /\ LinCfg c' /\ ProvsOk c' /\ DropUnref c' /\ NoFd c'.

Lemma step_internal c p pp e : procs c !! p = Some pp -> action_of Async D pp = AInternal ->
  internal_effect Async F p pp = EOk e -> step Async D F c (Run p) = SStep (apply_effect c p pp e).
Proof. intros Hp Ea He. cbn [step]. rewrite Hp, Ea, He. reflexivity. Qed.

Lemma invx_internal Δ c p pp e :
  cfg_typed D F teq Δ c -> Topo c -> LinCfg c -> ns_ok c -> ProvsOk c -> DropUnref c -> NoFd c ->
  procs c !! p = Some pp -> action_of Async D pp = AInternal -> internal_effect Async F p pp = EOk e ->
  Rest (apply_effect c p pp e).
Proof.
  intros Hc Ht Hl Hns Hpv Hd Hnf Hp Ea He.
  pose proof (step_internal c p pp e Hp Ea He) as Hstep.
  destruct (ct_procs D F teq Δ c Hc p pp Hp) as (s & rs & Hne & Hprovs & Hty).
  assert (Hm : multi pp = false).
  { destruct (multi pp) eqn:E; [|done]. exfalso. pose proof (action_internal_form _ _ _ Ea) as Hf. unfold action_of in Ea.
    destruct (pr_body0 pp); try done; simpl in Ea;
      repeat match type of Ea with (if ?b then _ else _) = _ => destruct b end; unfold internal in Ea; rewrite ?E in Ea; discriminate. }
  destruct (single_provs pp Hne Hm) as [n0 Hn0].
  pose proof (lc_procs c Hl p pp Hp) as Hlinp. pose proof (Hnf p pp Hp) as Hnfp. pose proof (proj1 Hpv p pp Hp) as Hndp.
  pose proof (action_internal_form _ _ _ Ea) as Hform.
  destruct pp as [provs body nx]. cbn [pr_body0 pr_provs pr_next] in *. subst provs.
  assert (Hsame : forall o, obj_in c o -> obj_in c o) by auto.
  assert (Hsamep : forall q v, procs c !! q = Some v -> procs c !! q = Some v) by auto.
  assert (HR : forall j, j ∈ form_chans body -> exists o, obj_in c o /\ j ∈ refs o).
  { intros j Hj. exists (OProc p (Proc [n0] body nx)). split; [exact Hp|exact Hj]. }
  assert (HkΔ : forall a, (nx <= a)%nat -> Δ !! (p ++ [a]) = None).
  { intros a Ha. apply (ct_fresh D F teq Δ c Hc p _ a [] Hp). cbn. lia. }
  unfold internal_effect in He. cbn [pr_body0] in He.
  destruct body as [| | | |x b k0| | | |x y fr k0|fn args pt| | |cl k0|l k0]; try done.
  - (* cut *)
    unfold fresh_chan in He. cbn [pr_next pr_provs pr_body0 cids_of flat_map chan app] in He. injection He as <-.
    set (kn := p ++ [nx]). set (cn := mkName (ident x) false (pol x) (nty x) (Some kn)).
    inversion Hty as [| | | | | | | |? ? ? ? x' b' k' A Hbx Hsx Hb Hk0| | | | | | | | | | |]; subst.
    destruct (fresh_facts D F teq Δ c p n0 _ nx Hc Hns Hp) as [Hfr Hkp].
    destruct (Hfr nx (le_n _)) as (HkΔn & Hkc & _ & Hfro). destruct (Hfr (S nx + 1)%nat ltac:(lia)) as (_ & _ & Hchild & _).
    simpl in Hlinp. destruct Hlinp as (Hpaths & Hlb & Hlk).
    unfold nofd_top in Hnfp. simpl in Hnfp. apply andb_true_iff in Hnfp as [Hnb Hnk].
    assert (Hkn0 : ~ In kn (form_chans k0)).
    { intros Hin. apply (proj1 (eq_None_not_Some _) HkΔn). exact (form_chans_typed D F teq Δ _ _ _ _ _ kn Hk0 Hin). }
    assert (Hpb : forall i, i ∈ form_chans (subst x cn k0) -> i ∈ form_chans (FNew x b k0) \/ i = kn).
    { intros i Hi. apply elem_In in Hi. apply form_chans_subst in Hi as [Hi|Hi].
      - left. apply elem_In. simpl. apply in_app_iff. by right.
      - right. cbn in Hi. by destruct Hi as [<-|[]]. }
    split.
    + unfold set_body. cbn [pr_provs pr_body0 pr_next]. rewrite apply_spawn_effect. cbn [length].
      apply (topo_spawn c p (Proc [n0] (FNew x b k0) nx) [kn] [cn] (p ++ [(S nx + 1)%nat]) b (subst x cn k0)); try done.
      * intros k1 Hk1. apply elem_of_list_singleton in Hk1 as ->. exact Hkc.
      * apply child_ne.
      * intros k1 o Hk1 Ho. apply elem_of_list_singleton in Hk1 as ->. by apply Hfro.
      * intros i Hi. apply elem_In. simpl. apply in_app_iff. left. by apply elem_In.
      * intros i Hi. destruct (Hpb i Hi) as [H| ->]; [by left|right; set_solver].
      * intros i Hib Hip. apply elem_In in Hib. destruct (Hpb i Hip) as [Hi| ->].
        -- apply elem_In in Hip. apply form_chans_subst in Hip as [Hip|Hip].
           ++ rewrite Forall_forall in Hpaths.
              destruct (proj1 chans_path_mut b None i Hib) as (pb1 & Hpb1 & Hk1).
              destruct (proj1 chans_path_mut k0 None i Hip) as (pk1 & Hpk1 & Hk2).
              eapply (dup_app pb1 (rmv [x] pk1)); [apply Hpaths, in_crossk; exists pb1, (rmv [x] pk1); split; [done|split; [apply in_map_iff; eauto|done]]|exact Hk1|by apply rmv_chan].
           ++ cbn in Hip. destruct Hip as [<-|[]]. apply (proj1 (eq_None_not_Some _) HkΔn). exact (form_chans_typed D F teq Δ _ _ _ _ _ kn Hb Hib).
        -- apply (proj1 (eq_None_not_Some _) HkΔn). exact (form_chans_typed D F teq Δ _ _ _ _ _ kn Hb Hib).
    + apply (rest_of_effect Δ c c p _ _ (fun j => j ∈ form_chans (FNew x b k0))); auto.
      * intros pp1 [= <-]. cbn. split.
        { apply (affr_subst D F teq Hteq Δ ∅ None (rs ∖ {[ident x]}) s k0 x cn kn A (proj1 Hbx) eq_refl);
            [discriminate|set_solver|exact Hk0|exact Hkn0|exact Hlk]. }
        split; [exact Hndp|]. split; [by rewrite nofd_subst|].
        intros j Hj. destruct (Hpb j Hj) as [H| ->]; [by left|right; exact HkΔn].
      * intros s0 [<-|[]]. cbn [sp_body sp_provs]. split; [exact Hlb|]. split; [cbn; repeat constructor; simpl; tauto|].
        split; [|by left]. intros j Hj. left. simpl. set_solver.
  - (* split *)
    unfold fresh_chan in He. cbn [pr_next pr_provs pr_body0 chan] in He. injection He as <-.
    set (k1 := p ++ [nx]). set (k2 := p ++ [S nx]).
    set (c1 := mkName (ident x) false (pol fr) (nty fr) (Some k1)). set (c2 := mkName (ident y) false (pol fr) (nty fr) (Some k2)).
    inversion Hty as [| | | | | | | | | | | | | | | | | | ? ? ? ? x' y' fr' k' T Hcl Hbx Hby Hxy Hsx Hsy Hk0|]; subst.
    destruct Hcl as (Hself & _ & Hch). destruct (chan fr) as [kfr|] eqn:Efr; [|destruct Hch as [_ (t' & H0 & _)]; by rewrite lookup_empty in H0].
    destruct Hch as (t' & HΔfr & _).
    pose proof (HkΔ nx (le_n _)) as HkΔ1. pose proof (HkΔ (S nx) ltac:(lia)) as HkΔ2. fold k1 in HkΔ1. fold k2 in HkΔ2.
    simpl in Hlinp. destruct Hlinp as (Hpaths & Hlk). unfold nofd_top in Hnfp. simpl in Hnfp.
    assert (Hk10 : ~ In k1 (form_chans k0)).
    { intros Hin. apply (proj1 (eq_None_not_Some _) HkΔ1). exact (form_chans_typed D F teq Δ _ _ _ _ _ k1 Hk0 Hin). }
    assert (Hk20 : ~ In k2 (form_chans k0)).
    { intros Hin. apply (proj1 (eq_None_not_Some _) HkΔ2). exact (form_chans_typed D F teq Δ _ _ _ _ _ k2 Hk0 Hin). }
    assert (Hk12 : k1 <> k2) by (unfold k1, k2; intros E; apply app_inv_head in E; injection E as E; lia).
    assert (Hpb : forall i, i ∈ form_chans (subst y c2 (subst x c1 k0)) -> i ∈ form_chans k0 \/ i = k1 \/ i = k2).
    { intros i Hi. apply elem_In in Hi. apply form_chans_subst in Hi as [Hi|Hi].
      - apply form_chans_subst in Hi as [Hi|Hi]; [left; by apply elem_In|]. right. left. cbn in Hi. by destruct Hi as [<-|[]].
      - right. right. cbn in Hi. by destruct Hi as [<-|[]]. }
    split.
    + eapply (topo_split_step D F teq Hteq Δ c p n0 x y fr k0 nx Async); eauto.
    + apply (rest_of_effect Δ c c p _ _ (fun j => j ∈ form_chans (FSplit x y fr k0))); auto.
      * intros pp1 [= <-]. cbn. split.
        { set (Δ2 := <[k1 := T]> Δ).
          assert (Hsub2 : Δ ⊆ Δ2) by (by apply insert_subseteq).
          assert (Hk0' : typed D F teq Δ2 (<[ident x := T]> (<[ident y := T]> ∅)) None (rs ∖ {[ident x]} ∖ {[ident y]}) s k0).
          { rewrite insert_commute by done. eapply typed_weaken; eauto. }
          assert (Hf1 : typed D F teq Δ2 (<[ident y := T]> ∅) None (rs ∖ {[ident x]} ∖ {[ident y]}) s (subst x c1 k0)).
          { eapply (typed_subst D F teq Hteq Δ2 _ None _ s k0 x c1 T); [apply Hbx| |discriminate|set_solver|exact Hk0'].
            split; [done|]. exists k1, T. split; [done|]. split; [unfold Δ2; apply lookup_insert|apply (teq_refl _ _ Hteq)]. }
          apply (affr_subst D F teq Hteq Δ2 ∅ None (rs ∖ {[ident x]} ∖ {[ident y]}) s (subst x c1 k0) y c2 k2 T (proj1 Hby) eq_refl);
            [discriminate|set_solver|exact Hf1| |].
          - intros Hin. apply form_chans_subst in Hin as [Hin|Hin]; [contradiction|]. cbn in Hin. destruct Hin as [E|[]]. congruence.
          - apply (affr_subst D F teq Hteq Δ2 (<[ident y := T]> ∅) None (rs ∖ {[ident x]} ∖ {[ident y]}) s k0 x c1 k1 T (proj1 Hbx) eq_refl);
              [discriminate|set_solver|exact Hk0'|exact Hk10|exact Hlk]. }
        split; [exact Hndp|]. split; [by rewrite !nofd_subst|].
        intros j Hj. destruct (Hpb j Hj) as [H|[-> | ->]]; [left; simpl; set_solver|by right|by right].
      * intros s0 [<-|[]]. cbn [sp_body sp_provs]. split; [by apply affr_fwd_leaf|]. split.
        { cbn. repeat constructor; simpl; [intros [E|[]]; congruence|tauto]. }
        split; [|by left]. intros j Hj. left. simpl in Hj |- *. unfold name_chans in Hj at 1. simpl in Hj. set_solver.
  - (* call *)
    destruct (call_body F fn args) as [b|] eqn:Ecb; [|done]. injection He as <-.
    destruct (call_affr D F teq Hteq HF Δ rs s fn args pt b Hty HFa Hlinp Ecb) as [Hab Hcb]. split.
    + unfold no_eff. rewrite apply_cont_effect. cbn [pr_provs pr_body0 set_body rev map app].
      apply (topo_cont c p (Proc [n0] (FCall fn args pt) nx)); try done. intros i Hi. apply elem_In. apply Hcb. by apply elem_In.
    + apply (rest_of_effect Δ c c p _ _ (fun j => j ∈ form_chans (FCall fn args pt))); auto.
      * intros pp1 [= <-]. cbn. split; [exact Hab|]. split; [exact Hndp|]. split; [eapply nofd_call_body; eauto|].
        intros j Hj. left. apply elem_In. apply Hcb. by apply elem_In.
      * intros s0 [].
  - (* drop *)
    unfold droppable_fwd, fresh_chan in He. cbn [pr_next pr_provs pr_body0 chan] in He. injection He as <-. split.
    + eapply (topo_drop_step D F teq Hteq Δ c p n0 cl k0 nx Async); eauto. by apply affr_aff.
    + inversion Hty as [| | | | | | | | | | | | ? ? ? ? c0 k' T Hcl Hk0| | | | | | |]; subst.
      destruct Hcl as (Hself & _ & Hch). destruct (chan cl) as [kcl|] eqn:Ecl; [|destruct Hch as [_ (t' & H0 & _)]; by rewrite lookup_empty in H0].
      destruct Hch as (t' & HΔcl & _).
      apply (rest_of_effect Δ c c p _ _ (fun j => j ∈ form_chans (FDrop cl k0))); auto.
      * intros pp1 [= <-]. cbn. split; [simpl in Hlinp; tauto|]. split; [exact Hndp|]. split; [exact Hnfp|].
        intros j Hj. left. simpl. set_solver.
      * intros s0 [<-|[]]. cbn [sp_body sp_provs]. split; [by apply affr_fwd_leaf|]. split; [cbn; repeat constructor; simpl; tauto|].
        assert (Hfw : forall j, j ∈ form_chans (FFwd (mkName (ident cl) true (pol cl) (nty cl) None) cl true) -> j = kcl).
        { intros j. simpl. unfold name_chans. simpl. rewrite Ecl. set_solver. }
        split; [intros j Hj; left; apply Hfw in Hj as ->; simpl; unfold name_chans; rewrite Ecl; set_solver|].
        right. split; [done|]. split; [done|]. split.
        -- intros j Hj. cbn in Hj. apply elem_of_list_singleton in Hj as ->. apply HkΔ. lia.
        -- split.
           ++ intros pp1 [= <-] i Hi. cbn in Hi. apply elem_In in Hi. exact (form_chans_typed D F teq Δ _ _ _ _ _ i Hk0 Hi).
           ++ intros s1 [<-|[]] i Hi. cbn [sp_body] in Hi. apply Hfw in Hi as ->. eauto.
  - (* print *)
    injection He as <-. split.
    + rewrite apply_cont_effect. cbn [pr_provs pr_body0 set_body]. apply (topo_cont c p (Proc [n0] (FPrint l k0) nx)); done.
    + apply (rest_of_effect Δ c c p _ _ (fun j => j ∈ form_chans (FPrint l k0))); auto.
      * intros pp1 [= <-]. cbn. split; [simpl in Hlinp; tauto|]. split; [exact Hndp|]. split; [exact Hnfp|]. intros j Hj. by left.
      * intros s0 [].
Qed.

(* ------------------------------------------------------------------ DUP *)
Lemma drow_nth p pp f fn i : (i < length (pr_provs pp))%nat ->
  nth_error (drow p pp f fn) i = Some (mkName (ident fn) false (pol fn) (nty fn) (Some (dkn p pp f i))).
Proof.
  intros Hi. unfold drow. rewrite nth_error_map. rewrite (nth_error_nth' _ 0%nat) by (by rewrite seq_length).
  rewrite seq_nth by done. reflexivity.
Qed.

Lemma colchans_rows p pp i : (i < length (pr_provs pp))%nat -> forall (l : list name) k,
  colchans (imap (fun f => drow p pp (k + f)) l) i = map (fun f => dkn p pp f i) (seq k (length l)).
Proof.
  intros Hi. induction l as [|a l IH]; intros k; [reflexivity|]. rewrite imap_cons. unfold colchans. cbn [flat_map length seq map].
  rewrite Nat.add_0_r, (drow_nth p pp k a i Hi). cbn [name_chans chan app]. f_equal.
  rewrite <- (IH (S k)). unfold colchans. f_equal. apply imap_ext. intros f x _. cbn. f_equal. lia.
Qed.

Lemma in_dss p pp fns cb s0 : In s0 (dss p pp fns cb) ->
  (exists i pr, pr_provs pp !! i = Some pr /\ s0 = Spawn [pr] (cb i)) \/
  (exists f fn, fns !! f = Some fn /\ s0 = Spawn (drow p pp f fn) (dfw fn)).
Proof.
  unfold dss. rewrite in_app_iff. intros [H|H]; apply elem_In, elem_of_lookup_imap in H as (i & x & -> & Hx); eauto.
Qed.

Lemma step_dup c p pp e : procs c !! p = Some pp -> action_of Async D pp = ADup ->
  dup_effect p pp = EOk e -> step Async D F c (Run p) = SStep (apply_effect c p pp e).
Proof. intros Hp Ea He. cbn [step]. rewrite Hp, Ea, He. reflexivity. Qed.

Lemma invx_dup Δ c p pp e :
  cfg_typed D F teq Δ c -> Topo c -> LinCfg c -> ns_ok c -> ProvsOk c -> DropUnref c -> NoFd c ->
  procs c !! p = Some pp -> action_of Async D pp = ADup -> dup_effect p pp = EOk e ->
  Rest (apply_effect c p pp e).
Proof.
  intros Hc Ht Hl Hns Hpv Hd Hnf Hp Ea He.
  pose proof (step_dup c p pp e Hp Ea He) as Hstep.
  destruct (ct_procs D F teq Δ c Hc p pp Hp) as (s & rs & Hne & Hprovs & Hty).
  pose proof (lc_procs c Hl p pp Hp) as Hlinp. pose proof (Hnf p pp Hp) as Hnfp. pose proof (proj1 Hpv p pp Hp) as Hndp.
  assert (Hmulti : (1 < length (pr_provs pp))%nat) by (apply action_dup_multi in Ea; unfold multi in Ea; by apply Nat.ltb_lt in Ea).
  assert (Hn1 : length (pr_provs pp) <> 1%nat) by lia.
  assert (Hnofd : nofd (pr_body0 pp) = true).
  { unfold nofd_top in Hnfp. apply orb_true_iff in Hnfp as [Hdf|H]; [|done]. destruct (Hd p pp Hp Hdf) as [H1 _]. lia. }
  assert (Hwfn : wfn (pr_body0 pp) = true) by (eapply typed_wfn; eauto).
  assert (HkΔ : forall a, (pr_next pp <= a)%nat -> Δ !! (p ++ [a]) = None).
  { intros a Ha. apply (ct_fresh D F teq Δ c Hc p _ a [] Hp). lia. }
  assert (Hdkn : forall f i, Δ !! dkn p pp f i = None) by (intros f i; unfold dkn; apply HkΔ; lia).
  split; [eapply (topo_dup_step D F teq Δ c p pp Async); eauto|].
  rewrite (dup_effect_eq p pp Hn1) in He. injection He as <-.
  set (fns := free_names (pr_body0 pp)). set (rows := imap (drow p pp) fns).
  assert (Hfns : Forall (fun fn => is_Some (chan fn)) fns).
  { rewrite Forall_forall. intros fn Hfn. destruct (free_names_closed D F teq Δ rs s _ fn Hty Hfn) as [t Ht'].
    destruct (chan_ty_chan _ _ _ _ Ht') as (kc & Hkc & _). eauto. }
  apply (rest_of_effect Δ c c p _ _ (fun j => j ∈ form_chans (pr_body0 pp))); auto.
  - intros j Hj. exists (OProc p pp). split; [exact Hp|exact Hj].
  - intros pp1 E. discriminate.
  - intros s0 Hs0. cbn [e_spawn] in Hs0. apply in_dss in Hs0 as [(i & pr & Hpr & ->)|(f & fn & Hfn & ->)]; cbn [sp_body sp_provs].
    + pose proof (lookup_lt_Some _ _ _ Hpr) as Hi.
      assert (Hrows : Forall (fun row => exists c0, nth_error row i = Some c0 /\ is_self c0 = false /\ is_Some (chan c0)) rows).
      { rewrite Forall_forall. intros row Hrow. apply elem_In, elem_of_lookup_imap in Hrow as (f & fn & -> & _).
        rewrite (drow_nth p pp f fn i Hi). eexists. split; [reflexivity|]. split; [done|]. cbn. eauto. }
      assert (Hcol : colchans rows i = map (fun f => dkn p pp f i) (seq 0 (length fns))) by (exact (colchans_rows p pp i Hi fns 0)).
      destruct (affr_subst_col fns rows (pr_body0 pp) i Hwfn Hlinp Hfns Hrows) as [Haff _].
      { unfold rows. by rewrite imap_length. }
      { rewrite Hcol. apply FinFun.Injective_map_NoDup; [|apply seq_NoDup]. intros f1 f2 E. by apply (dkn_inj p pp f1 i f2 i Hi Hi) in E as [-> _]. }
      { intros k Hk Hkb. rewrite Hcol in Hk. apply in_map_iff in Hk as (f & <- & _).
        apply (proj1 (eq_None_not_Some _) (Hdkn f i)). exact (form_chans_typed D F teq Δ _ _ _ _ _ _ Hty Hkb). }
      split; [exact Haff|]. split.
      { cbn. destruct (chan pr); repeat constructor; simpl; tauto. }
      split.
      { intros j Hj. right. apply elem_In in Hj.
        destruct (subst_col_fresh rows (pr_body0 pp) i j Hwfn) as (f & row & c0 & Hrow & Hc0 & Hjc); try done.
        - rewrite Forall_forall in Hrows |- *. intros row Hrow. destruct (Hrows row Hrow) as (c0 & H1 & H2 & _). eauto.
        - unfold rows. by rewrite imap_length.
        - unfold rows in Hrow. rewrite list_lookup_imap in Hrow. destruct (fns !! f) as [fn|] eqn:Efn; [|discriminate]. injection Hrow as <-.
          rewrite (drow_nth p pp f fn i Hi) in Hc0. injection Hc0 as <-. cbn in Hjc. destruct Hjc as [<-|[]]. apply Hdkn. }
      left. by rewrite nofd_subst_col.
    + split; [by apply affr_fwd_leaf|]. split.
      { rewrite cids_drow. apply FinFun.Injective_map_NoDup; [|apply seq_NoDup]. intros i1 i2 E. unfold dkn in E. apply app_inv_head in E. injection E as E. lia. }
      split; [|by left]. intros j Hj. left. simpl in Hj. unfold name_chans in Hj at 1. simpl in Hj.
      apply elem_In. eapply free_names_chans; [apply elem_In; eapply elem_of_list_lookup_2; eauto|]. apply elem_In. set_solver.
Qed.

(* ------------------------------------------------------------------ send *)
Lemma send_msg_facts pp k m : action_of Async D pp = ASend k m ->
  (m_rule m = RGC -> is_dfwd (pr_body0 pp) = true) /\ (m_rule m = RFWD -> m_provs m = pr_provs pp).
Proof.
  intros Ha. unfold action_of in Ha.
  destruct (pr_body0 pp) as [to pay cont|pay cont from k0|to l cont|from bs|x b k0|c0|c0 k0|to from d|x y from k0|fn args pt|to cont|x from k0|c0 k0|l k0] eqn:Eb;
    simpl in Ha;
    repeat match type of Ha with
           | (if ?b then _ else _) = _ => destruct b eqn:?
           | match ?x with _ => _ end = _ => destruct x eqn:?
           end;
    try discriminate;
    try (unfold internal in Ha; destruct (multi pp); discriminate);
    try (unfold recv_on in Ha; repeat match type of Ha with
           | (if ?b then _ else _) = _ => destruct b
           | match ?x with _ => _ end = _ => destruct x
           end; discriminate);
    try (unfold send_on in Ha; destruct (multi pp); [discriminate|];
         repeat match type of Ha with match ?x with _ => _ end = _ => destruct x end; try discriminate;
         injection Ha as <- <-; split; discriminate).
  all: injection Ha as <- <-; destruct d; split; intros H; try discriminate; reflexivity.
Qed.

Lemma invx_send Δ c p pp k m st :
  cfg_typed D F teq Δ c -> Topo c -> LinCfg c -> ns_ok c -> ProvsOk c -> DropUnref c -> NoFd c ->
  procs c !! p = Some pp -> action_of Async D pp = ASend k m ->
  chans c !! k = Some st -> ch_closed st = false -> ch_buf st = None ->
  Rest (del_proc (put_msg c k st (Some m)) p).
Proof.
  intros Hc Ht Hl Hns Hpv Hd Hnf Hp Ea Hk Hcl Hb.
  destruct (ct_procs D F teq Δ c Hc p pp Hp) as (s & rs & Hne & Hprovs & Hty).
  destruct (send_msg_facts pp k m Ea) as [Hgc Hfw].
  destruct (send_objs D pp k m Hne Ea) as (Hrefs & _).
  set (c' := del_proc (put_msg c k st (Some m)) p).
  destruct (topo_send_gc D c p pp k m st Ht Hl Hp Hne Ea) as [Ht' Hl']; try done.
  { destruct (rule_eqb (m_rule m) RGC) eqn:E.
    - apply rule_eqb_eq in E. right. intros j o2 Hj Ho2. destruct (Hd p pp Hp (Hgc E)) as [_ H]. by apply H.
    - left. intros E'. rewrite E' in E. discriminate. }
  assert (Hobj' : forall o', obj_in c' o' -> obj_in c o' \/ o' = OMsg k m).
  { intros [r rr|k' m'] Ho'; unfold c', del_proc, put_msg in Ho'; cbn in Ho'.
    - apply lookup_delete_Some in Ho' as [_ H]. by left.
    - destruct Ho' as (st' & H & Hbuf). apply lookup_insert_Some in H as [[<- <-]|[Hne' H]].
      + cbn in Hbuf. injection Hbuf as <-. by right.
      + left. by exists st'. }
  split; [exact Ht'|]. split; [exact Hl'|]. split; [|split].
  - split.
    + intros q v Hq. unfold c' in Hq. cbn in Hq. apply lookup_delete_Some in Hq as [_ Hq]. exact (proj1 Hpv q v Hq).
    + intros k' st' m' Hk' Hb' Hr. unfold c' in Hk'. cbn in Hk'. apply lookup_insert_Some in Hk' as [[<- <-]|[_ Hk']].
      * cbn in Hb'. injection Hb' as <-. rewrite (Hfw Hr). exact (proj1 Hpv p pp Hp).
      * exact (proj2 Hpv k' st' m' Hk' Hb' Hr).
  - apply (dropunref_step Δ c c' Hc Hd).
    + intros o' j Ho' Hj _. destruct (Hobj' o' Ho') as [Ho| ->]; [eauto|]. exists (OProc p pp). split; [exact Hp|]. by apply Hrefs.
    + intros q v Hq _. left. unfold c' in Hq. cbn in Hq. by apply lookup_delete_Some in Hq as [_ Hq].
  - intros q v Hq. unfold c' in Hq. cbn in Hq. apply lookup_delete_Some in Hq as [_ Hq]. exact (Hnf q v Hq).
Qed.

(* ------------------------------------------------------------------ receive *)
Lemma find_branch_chans l bs pay K j : find_branch l bs = Some (pay, K) -> In j (form_chans K) -> In j (brs_chans bs).
Proof.
  induction bs as [|l' p' k' r IH]; simpl; [discriminate|]. destruct (String.eqb l' l).
  - intros [= -> ->] H. apply in_app_iff. by left.
  - intros H H'. apply in_app_iff. right. auto.
Qed.

Lemma new_self_chans id : name_chans (new_self id) = [].
Proof. reflexivity. Qed.

Lemma on_message_facts p pp k m e :
  on_message p pp m = EOk e -> m_rule m <> RGC -> is_dfwd (pr_body0 pp) = false ->
  (is_fwd_body pp = true -> m_rule m <> RFWD) -> nofd (pr_body0 pp) = true ->
  exists pp1 cl, e = Eff (Continue pp1) [] [] cl [] /\
    (pr_provs pp1 = pr_provs pp \/ (m_rule m = RFWD /\ pr_provs pp1 = m_provs m) \/ (exists n, pr_provs pp1 = [n])) /\
    nofd (pr_body0 pp1) = true /\
    forall j, In j (form_chans (pr_body0 pp1)) -> In j (form_chans (pr_body0 pp)) \/ j ∈ refs (OMsg k m).
Proof.
  intros He Hgc Hdf Hfw Hnf. unfold on_message in He. fold (is_fwd_body pp) in He.
  destruct (rule_eqb (m_rule m) RFWD && negb (is_fwd_body pp)) eqn:E1.
  { apply andb_true_iff in E1 as [E1 _]. apply rule_eqb_eq in E1. injection He as <-.
    eexists _, _. split; [reflexivity|]. cbn. split; [right; left; done|]. split; [done|]. intros j Hj. by left. }
  destruct (rule_eqb (m_rule m) RGC && negb (is_fwd_body pp)) eqn:E2.
  { apply andb_true_iff in E2 as [E2 _]. apply rule_eqb_eq in E2. contradiction. }
  unfold is_fwd_body in Hfw.
  destruct (pr_body0 pp) as [to pay cont|pay cont from k0|to l cont|from bs|x b k0|c0|c0 k0|to from d|x y from k0|fn args pt|to cont|x from k0|c0 k0|l k0] eqn:Eb;
    try discriminate; simpl in Hnf.
  - (* FRecv *)
    destruct (is_self from); [destruct (rule_eqb (m_rule m) RRCV) eqn:Er|destruct (rule_eqb (m_rule m) RSND) eqn:Er]; try discriminate;
      apply rule_eqb_eq in Er; injection He as <-; (eexists _, _; split; [reflexivity|]); cbn [pr_provs pr_body0 set_provs_body set_body];
      (split; [eauto|]); (split; [by rewrite !nofd_subst|]); intros j Hj;
      repeat (apply form_chans_subst in Hj as [Hj|Hj]); rewrite ?new_self_chans in Hj; try (by destruct Hj);
      cbn [refs form_chans]; rewrite Er; rewrite ?in_app_iff; try (left; tauto); right; apply elem_In; simpl; rewrite ?in_app_iff; tauto.
  - (* FCase *)
    destruct (is_self from); [destruct (rule_eqb (m_rule m) RBRA) eqn:Er|destruct (rule_eqb (m_rule m) RSEL) eqn:Er]; try discriminate;
      apply rule_eqb_eq in Er; destruct (find_branch (m_label m) bs) as [[pay K]|] eqn:Efb; try discriminate; injection He as <-;
      (eexists _, _; split; [reflexivity|]); cbn [pr_provs pr_body0 set_provs_body set_body];
      (split; [eauto|]); (split; [rewrite !nofd_subst; eapply nofd_find; eauto|]); intros j Hj;
      repeat (apply form_chans_subst in Hj as [Hj|Hj]); rewrite ?new_self_chans in Hj; try (by destruct Hj);
      cbn [refs form_chans]; rewrite Er; rewrite ?in_app_iff;
      try (left; right; eapply find_branch_chans; eauto; fail); right; apply elem_In; simpl; rewrite ?in_app_iff; tauto.
  - (* FWait *)
    destruct (rule_eqb (m_rule m) RCLS); try discriminate. injection He as <-.
    eexists _, _. split; [reflexivity|]. cbn. split; [eauto|]. split; [done|]. intros j Hj. left. rewrite in_app_iff. tauto.
  - (* FFwd *)
    destruct d; [discriminate|].
    destruct (m_rule m) eqn:Er; try discriminate;
      try (injection He as <-; (eexists _, _; split; [reflexivity|]); cbn [pr_provs pr_body0 set_provs_body set_body];
           (split; [eauto|]); (split; [done|]); intros j Hj; cbn [refs form_chans] in *; rewrite ?Er; rewrite ?in_app_iff in *;
           destruct Hj as [Hj|Hj]; [left; tauto|right; apply elem_In; rewrite ?in_app_iff; tauto]; fail).
    + (* RCLS *) injection He as <-. eexists _, _. split; [reflexivity|]. cbn. split; [eauto|]. split; [done|]. intros j Hj. left. rewrite in_app_iff. tauto.
    + (* RFWD *) exfalso. by apply Hfw.
  - (* FShift *)
    destruct (is_self from); [destruct (rule_eqb (m_rule m) RSHF) eqn:Er|destruct (rule_eqb (m_rule m) RCST) eqn:Er]; try discriminate;
      apply rule_eqb_eq in Er; injection He as <-; (eexists _, _; split; [reflexivity|]); cbn [pr_provs pr_body0 set_provs_body set_body];
      (split; [eauto|]); (split; [by rewrite !nofd_subst|]); intros j Hj;
      repeat (apply form_chans_subst in Hj as [Hj|Hj]); rewrite ?new_self_chans in Hj; try (by destruct Hj);
      cbn [refs form_chans]; rewrite Er; rewrite ?in_app_iff; try (left; tauto); right; apply elem_In; simpl; rewrite ?in_app_iff; tauto.
Qed.

Lemma recv_body pp k : action_of Async D pp = ARecv k -> is_fwd_body pp = false -> recv_form (pr_body0 pp).
Proof.
  intros Ha Hf. unfold action_of in Ha. unfold is_fwd_body in Hf.
  destruct (pr_body0 pp) eqn:Eb; simpl; try done; simpl in Ha;
    repeat match type of Ha with
           | (if ?b then _ else _) = _ => destruct b eqn:?
           | match ?x with _ => _ end = _ => destruct x eqn:?
           end;
    try discriminate;
    try (unfold internal in Ha; destruct (multi pp); discriminate);
    try (unfold send_on in Ha; destruct (multi pp); [discriminate|]; repeat match type of Ha with match ?x with _ => _ end = _ => destruct x end; discriminate).
Qed.

Lemma fwd_recv_chan pp to from d k : pr_body0 pp = FFwd to from d -> action_of Async D pp = ARecv k -> chan from = Some k.
Proof.
  intros Eb Ha. unfold action_of in Ha. rewrite Eb in Ha. simpl in Ha.
  repeat match type of Ha with
         | (if ?b then _ else _) = _ => destruct b eqn:?
         | match ?x with _ => _ end = _ => destruct x eqn:?
         end; try discriminate. by injection Ha as ->.
Qed.

Lemma put_none_objs c k st o : obj_in (put_msg c k st None) o -> obj_in c o.
Proof.
  destruct o as [q v|k' m']; cbn; [done|]. intros (st' & H & Hb). apply lookup_insert_Some in H as [[<- <-]|[_ H]]; [discriminate|].
  by exists st'.
Qed.

Lemma invx_recv Δ c p pp k st m e :
  cfg_typed D F teq Δ c -> Topo c -> LinCfg c -> ns_ok c -> ProvsOk c -> DropUnref c -> NoFd c ->
  procs c !! p = Some pp -> action_of Async D pp = ARecv k ->
  chans c !! k = Some st -> ch_buf st = Some m -> ch_closed st = false ->
  on_message p pp m = EOk e -> Rest (apply_effect (put_msg c k st None) p pp e).
Proof.
  intros Hc Ht Hl Hns Hpv Hd Hnf Hp Ea Hk Hb Hcl He.
  pose proof (ct_procs D F teq Δ c Hc p pp Hp) as Hpt. destruct Hpt as (s & rs & Hne & Hprovs & Hty).
  pose proof (lc_procs c Hl p pp Hp) as Hlinp. pose proof (Hnf p pp Hp) as Hnfp. pose proof (proj1 Hpv p pp Hp) as Hndp.
  pose proof (ct_msgs D F teq Δ c Hc k st m Hk Hb) as Hmt.
  assert (Hmsg : obj_in c (OMsg k m)) by (exists st; done).
  pose proof (typed_action D F teq Hteq HF Δ pp (ct_procs D F teq Δ c Hc p pp Hp)) as Hv. rewrite Ea in Hv.
  inversion Hv as [|k' Hk' Hside Hrecv| |]; subst. destruct Hside as (T & HT & Hside).
  pose proof Hmt as Hmt2. eapply msg_pol in Hmt2 as (T' & HT' & Hpol); eauto. rewrite HT in HT'. injection HT' as <-.
  set (R := fun j => j ∈ form_chans (pr_body0 pp) \/ j ∈ refs (OMsg k m)).
  assert (HR : forall j, R j -> exists o, obj_in c o /\ j ∈ refs o).
  { intros j [Hj|Hj]; [exists (OProc p pp)|exists (OMsg k m)]; done. }
  assert (HkΔ : forall a, (pr_next pp <= a)%nat -> Δ !! (p ++ [a]) = None).
  { intros a Ha. apply (ct_fresh D F teq Δ c Hc p _ a [] Hp). lia. }
  assert (Hdrop : forall cls ss cs p2, droppable_fwds p pp cls = (ss, cs, p2) ->
            (forall cl j, In cl cls -> In j (name_chans cl) -> R j /\ is_Some (Δ !! j)) ->
            forall s0, In s0 ss ->
              affr None (sp_body s0) /\ NoDup (cids_of (sp_provs s0)) /\
              (forall j, j ∈ form_chans (sp_body s0) -> R j \/ Δ !! j = None) /\
              (nofd (sp_body s0) = true \/
               (is_dfwd (sp_body s0) = true /\ length (sp_provs s0) = 1%nat /\ (forall j, j ∈ cids_of (sp_provs s0) -> Δ !! j = None) /\
                old_only Δ (Eff Finish ss cs [] [])))).
  { intros cls ss cs p2 Ed Hcls. rewrite droppable_fwds_eq in Ed. injection Ed as <- <- <-.
    assert (Hchs : forall i cl j, cls !! i = Some cl -> j ∈ form_chans (sp_body (dspawn p (pr_next pp) i cl)) -> In j (name_chans cl)).
    { intros i cl j _ Hj. cbn in Hj. unfold name_chans in Hj at 1. simpl in Hj. by apply elem_In. }
    intros s0 Hs0. apply elem_In, elem_of_lookup_imap in Hs0 as (i & cl & -> & Hcli).
    assert (Hin : In cl cls) by (apply elem_In; eapply elem_of_list_lookup_2; eauto).
    split; [by apply affr_fwd_leaf|]. split; [cbn; repeat constructor; simpl; tauto|]. split.
    - intros j Hj. left. eapply Hcls; eauto.
    - right. split; [done|]. split; [done|]. split.
      + intros j Hj. cbn in Hj. apply elem_of_list_singleton in Hj as ->. apply HkΔ. lia.
      + split; [intros pp1 E; discriminate|]. intros s1 Hs1 j Hj. cbn [e_spawn] in Hs1.
        apply elem_In, elem_of_lookup_imap in Hs1 as (i1 & cl1 & -> & Hcl1).
        eapply Hcls; [apply elem_In; eapply elem_of_list_lookup_2; eauto|eapply Hchs; eauto]. }
  destruct (is_dfwd (pr_body0 pp)) eqn:Edf.
  - (* a droppable forward receives: the message is dropped *)
    destruct (pr_body0 pp) as [| | | | | | |to from d| | | | | |] eqn:Eb; try discriminate. destruct d; [|discriminate].
    pose proof (fwd_recv_chan pp to from true k Eb Ea) as Hfrom.
    assert (Hkb : k ∈ form_chans (pr_body0 pp)) by (rewrite Eb; simpl; unfold name_chans at 2; rewrite Hfrom; set_solver).
    assert (Hpos : is_pos_rule (m_rule m) = true).
    { destruct (is_pos_rule (m_rule m)) eqn:E; [done|]. exfalso. destruct Hside as [[Hown _]|[_ Hp']].
      - eapply (topo_ne c (OProc p pp) k k); eauto. cbn. by apply own_chan_provides.
      - eapply (pol_unique D); eauto. }
    pose proof Hmt as Hmt3. eapply pos_msg_refs in Hmt3 as [Hrefs Hprov]; eauto.
    split.
    + eapply (topo_dropfwd_recv D F teq Hteq Δ c p pp to from k st m e); eauto.
      intros j o2 Hj Ho2. destruct (Hd p pp Hp) as [_ H]; [by rewrite Eb|]. by apply H.
    + unfold on_message in He. rewrite Eb in He. cbn [negb] in He. rewrite !andb_false_r in He.
      fold (carried m) in He. destruct (droppable_fwds p pp (carried m)) as [[ss cs] p2] eqn:Ed. injection He as <-.
      apply (rest_of_effect Δ c (put_msg c k st None) p _ _ R); auto.
      * apply put_none_objs.
      * intros pp1 E. discriminate.
      * apply (Hdrop (carried m) ss cs p2 Ed). intros cl j Hcli Hj.
        assert (Hjr : j ∈ refs (OMsg k m)).
        { rewrite <- Hrefs, <- carried_chans. apply elem_In. apply in_flat_map. eauto. }
        split; [by right|]. eapply (obj_chans_typed D F teq Δ c (OMsg k m)); eauto.
  - destruct (rule_eqb (m_rule m) RGC) eqn:Egc.
    + (* a GC request *)
      apply rule_eqb_eq in Egc. destruct (is_fwd_body pp) eqn:Ef.
      { exfalso. unfold on_message in He. fold (is_fwd_body pp) in He. rewrite Ef, Egc in He. cbn [rule_eqb negb andb] in He.
        unfold is_fwd_body in Ef. destruct (pr_body0 pp) as [| | | | | | |to from d| | | | | |]; try discriminate.
        destruct d; discriminate. }
      pose proof (recv_body pp k Ea Ef) as Hform.
      assert (Hprov : cids_of (pr_provs pp) = [k]).
      { destruct (recv_view_of D pp k Hne Ea) as [n Hn Hcn _|Hcl'].
        - rewrite Hn. cbn. by rewrite Hcn.
        - exfalso. assert (E : OProc p pp = OMsg k m); [|discriminate].
          eapply (topo_ref_unique c Ht _ _ k); eauto; [cbn; by apply elem_In|cbn; rewrite Egc; set_solver]. }
      split.
      * eapply (topo_gc_recv D F teq Hteq Δ c p pp k st m e); eauto.
      * unfold on_message in He. fold (is_fwd_body pp) in He. rewrite Ef, Egc in He. cbn [rule_eqb negb andb] in He.
        destruct (droppable_fwds p pp (free_names (pr_body0 pp))) as [[ss cs] p2] eqn:Ed. injection He as <-.
        apply (rest_of_effect Δ c (put_msg c k st None) p _ _ R); auto.
        -- apply put_none_objs.
        -- intros pp1 E. discriminate.
        -- apply (Hdrop (free_names (pr_body0 pp)) ss cs p2 Ed). intros cl j Hcl' Hj.
           assert (Hjb : In j (form_chans (pr_body0 pp))) by (eapply free_names_chans; eauto).
           split; [left; by apply elem_In|]. exact (form_chans_typed D F teq Δ _ _ _ _ _ j Hty Hjb).
    + (* the other messages *)
      assert (Hgc : m_rule m <> RGC) by (intros E; rewrite E in Egc; discriminate).
      assert (Hfwr : is_fwd_body pp = true -> m_rule m <> RFWD).
      { intros Ef Hr. unfold is_fwd_body in Ef. destruct (pr_body0 pp) as [| | | | | | |to from d| | | | | |] eqn:Eb; try discriminate.
        pose proof (fwd_recv_chan pp to from d k Eb Ea) as Hfrom.
        destruct Hside as [[Hown _]|[_ Hpos]].
        - destruct Hown as (n & Hn & Hcn). assert (E : OProc p pp = OMsg k m); [|discriminate].
          eapply (topo_ref_unique c Ht _ _ k); eauto; [|cbn; rewrite Hr; set_solver].
          cbn. rewrite Eb. simpl. unfold name_chans at 2. rewrite Hfrom. set_solver.
        - rewrite Hr in Hpol. simpl in Hpol. eapply (pol_unique D); eauto. }
      assert (Hcr : core_recv pp m).
      { split; [done|]. destruct (pr_body0 pp) as [| | | | | | |to from d| | | | | |] eqn:Eb; try done.
        split; [destruct d; [discriminate|done]|]. apply Hfwr. unfold is_fwd_body. by rewrite Eb. }
      assert (Hnofd : nofd (pr_body0 pp) = true) by (unfold nofd_top in Hnfp; rewrite Edf in Hnfp; exact Hnfp).
      destruct (lin_recv_step D F teq Hteq HF Δ c p pp k st m e Hc Ht Hl Hp Ea Hk Hb He Hcr) as (pp1 & cl & -> & Haf1).
      destruct (on_message_facts p pp k m _ He Hgc Edf Hfwr Hnofd) as (pp1' & cl' & E & Hprovs1 & Hnofd1 & Hch1). injection E as <- <-.
      split; [eapply (topo_recv_step D F teq Hteq HF c p pp k st m); eauto|].
      apply (rest_of_effect Δ c (put_msg c k st None) p _ _ R); auto.
      * apply put_none_objs.
      * intros pp2 [= <-]. split; [exact Haf1|]. split.
        { destruct Hprovs1 as [->|[[Hr ->]|[n ->]]]; [exact Hndp|exact (proj2 Hpv k st m Hk Hb Hr)|].
          cbn. destruct (chan n); repeat constructor; simpl; tauto. }
        split; [exact Hnofd1|]. intros j Hj. apply elem_In in Hj. left. destruct (Hch1 j Hj) as [H|H]; [left; by apply elem_In|by right].
      * intros s0 [].
Qed.

Record InvX (c : config) : Prop := {
  ix_typed : exists Δ, cfg_typed D F teq Δ c;
  ix_topo : Topo c;
  ix_lin : LinCfg c;
  ix_ns : ns_ok c;
  ix_provs : ProvsOk c;
  ix_drop : DropUnref c;
  ix_nofd : NoFd c
}.

Theorem invx_step_async c ch c' : InvX c -> step Async D F c ch = SStep c' -> InvX c'.
Proof.
  intros [[Δ Hc] Ht Hl Hns Hpv Hd Hnf] Hs.
  assert (Hcu : closed_unused D Async c) by (intros self p0 k st; eapply topo_closed_unused; eauto).
  destruct (preservation_md D F teq Hteq HF Async Δ c ch c' eq_refl Hc Hcu Hs) as (Δ' & _ & Hc').
  pose proof (ns_ok_step _ _ _ _ _ _ Hns Hs) as Hns'.
  assert (Hgoal : Rest c'); [|destruct Hgoal as (H1 & H2 & H3 & H4 & H5); split; eauto].
  clear Hc' Hns' Δ'.
  destruct ch as [p|s0 r0|f0 t0]; [|by cbn in Hs|by cbn in Hs]. cbn [step] in Hs.
  destruct (procs c !! p) as [pp|] eqn:Hp; [|done].
  destruct (action_of Async D pp) as [| |k m|k| |k pv|w] eqn:Ea; try done.
  - destruct (dup_effect p pp) as [e|] eqn:He; [|done]. cbn [eff_step] in Hs. injection Hs as <-. eapply invx_dup; eauto.
  - destruct (internal_effect Async F p pp) as [e|] eqn:He; [|done]. cbn [eff_step] in Hs. injection Hs as <-. eapply invx_internal; eauto.
  - destruct (chans c !! k) as [st|] eqn:Hk; [|done]. destruct (ch_closed st) eqn:Hcl; [done|].
    destruct (ch_buf st) eqn:Hb; [done|]. injection Hs as <-. eapply invx_send; eauto.
  - destruct (chans c !! k) as [st|] eqn:Hk; [|done].
    assert (Hcl : ch_closed st = false) by (eapply Hcu; eauto).
    destruct (ch_buf st) as [m|] eqn:Hb; [|by rewrite Hcl in Hs].
    destruct (on_message p pp m) as [e|] eqn:He; [|done]. cbn [eff_step] in Hs. injection Hs as <-. eapply invx_recv; eauto.
Qed.
End All.
