(* proofs/RenameTypes.v — C14, type level: every function of package `types` that the checker uses
   (TcDeps.v, Infer.v) commutes with a renaming of type names and labels that is injective.
   EqualType keys its memo by PRINTED types; that the printed keys of the renamed run collide exactly
   when the original keys do is the hypothesis `Hkey` of this file (stated on types whose names and
   labels satisfy the abstract predicates okT / okL; proofs/RenameKeys.v discharges it for
   identifier-shaped names). *)
Require Import Grits.Base Grits.ModeDefs Grits.Modes Grits.STypes Grits.Forms Grits.Infer Grits.TcDeps
               Grits.spec.Rename Grits.proofs.TcEnv Grits.proofs.TcInferFuel Grits.proofs.TcEqFuel.

Global Arguments rn_tenv : simpl never.

Definition omap {A B} (h : A -> B) (o : outcome A) : outcome B :=
  match o with Ok a => Ok (h a) | Panic w => Panic w | Hang w => Hang w end.

Lemma omap_obind {A B C} (h : B -> C) (o : outcome A) (k : A -> outcome B) :
  omap h (obind o k) = obind o (fun a => omap h (k a)).
Proof. destruct o; reflexivity. Qed.
Lemma obind_omap {A B C} (h : A -> B) (o : outcome A) (k : B -> outcome C) :
  obind (omap h o) k = obind o (fun a => k (h a)).
Proof. destruct o; reflexivity. Qed.
Lemma omap_id {A} (o : outcome A) : omap (fun x => x) o = o.
Proof. destruct o; reflexivity. Qed.

(* ---------------------------------------------------------------- strings and association lists *)
Section Inj.
Variable f : string -> string.
Hypothesis Hf : injective f.

Lemma eqb_inj x y : String.eqb (f x) (f y) = String.eqb x y.
Proof.
  destruct (String.eqb_spec x y) as [->|N]; [apply String.eqb_refl|].
  apply String.eqb_neq. intro E. apply N, Hf, E.
Qed.
Lemma str_mem_inj x l : str_mem (f x) (map f l) = str_mem x l.
Proof. induction l as [|y l IH]; cbn; [reflexivity|]. now rewrite eqb_inj, IH. Qed.
Lemma has_dup_inj l : has_dup (map f l) = has_dup l.
Proof. induction l as [|y l IH]; cbn; [reflexivity|]. now rewrite str_mem_inj, IH. Qed.

Definition kvmap {V W} (h : V -> W) (m : list (string * V)) : list (string * W) :=
  map (fun kv => (f (fst kv), h (snd kv))) m.

Lemma alookup_inj {V W} (h : V -> W) k m : alookup (f k) (kvmap h m) = option_map h (alookup k m).
Proof. induction m as [|[k' v] m IH]; cbn; [reflexivity|]. rewrite eqb_inj. destruct (String.eqb k k'); auto. Qed.
Lemma aremove_inj {V W} (h : V -> W) k m : aremove (f k) (kvmap h m) = kvmap h (aremove k m).
Proof.
  unfold kvmap. induction m as [|[k' v] m IH]; cbn; [reflexivity|]. rewrite eqb_inj.
  destruct (String.eqb k k'); cbn; now rewrite IH.
Qed.
Lemma aset_inj {V W} (h : V -> W) k v m : aset (f k) (h v) (kvmap h m) = kvmap h (aset k v m).
Proof. unfold aset. rewrite aremove_inj. reflexivity. Qed.
Lemma amem_inj {V W} (h : V -> W) k m : amem (f k) (kvmap h m) = amem k m.
Proof. unfold amem. rewrite alookup_inj. destruct (alookup k m); reflexivity. Qed.
End Inj.

(* ---------------------------------------------------------------- types *)
(* types all of whose type names satisfy okT, labels okL, modes (of every node, shifts included) okM,
   and — if NE — whose choices have at least one branch *)
Fixpoint okt (okT okL : string -> Prop) (okM : mode -> Prop) (NE : Prop) (t : sty) : Prop :=
  match t with
  | TName x m => okT x /\ okM m
  | TUnit m => okM m
  | TTensor a b m | TLolli a b m => okM m /\ okt okT okL okM NE a /\ okt okT okL okM NE b
  | TPlus bs m | TWith bs m => okM m /\ (NE -> brs_len bs <> 0%nat) /\ okbrs okT okL okM NE bs
  | TUp f t a | TDown f t a => okM f /\ okM t /\ okt okT okL okM NE a
  end
with okbrs (okT okL : string -> Prop) (okM : mode -> Prop) (NE : Prop) (b : brs) : Prop :=
  match b with BNil => True | BCons l a rest => okL l /\ okt okT okL okM NE a /\ okbrs okT okL okM NE rest end.

Section Types.
Variable r : renaming.
Hypothesis Ht : injective (rt r).
Hypothesis Hl : injective (rl r).

Notation rs := (rn_sty r).
Notation rb := (rn_brs r).
Notation rD := (rn_tenv r).

Lemma brs_len_rn b : brs_len (rb b) = brs_len b.
Proof. induction b; cbn; auto. Qed.
Lemma brs_labels_rn b : brs_labels (rb b) = map (rl r) (brs_labels b).
Proof. induction b; cbn; f_equal; auto. Qed.
Lemma find_br_rn l b : find_br (rl r l) (rb b) = option_map rs (find_br l b).
Proof. induction b as [|l' a b IH]; cbn; [reflexivity|]. rewrite (eqb_inj _ Hl). destruct (String.eqb l l'); auto. Qed.
Lemma mode_of_rn t : mode_of (rs t) = mode_of t.
Proof. destruct t; reflexivity. Qed.
Lemma is_name_rn t : is_name (rs t) = is_name t.
Proof. destruct t; reflexivity. Qed.
Lemma same_ctor_rn s t : same_ctor (rs s) (rs t) = same_ctor s t.
Proof. destruct s, t; reflexivity. Qed.
Lemma polarity_of_rn t : polarity_of (rs t) = polarity_of t.
Proof. destruct t; reflexivity. Qed.
Lemma tsize_rn : (forall t, tsize (rs t) = tsize t) /\ (forall b, bsize (rb b) = bsize b).
Proof. apply sty_brs_ind; intros; cbn; auto. Qed.
Lemma tsize_rn1 t : tsize (rs t) = tsize t. Proof. apply tsize_rn. Qed.
Lemma env_size_rn D : env_size (rD D) = env_size D.
Proof. unfold env_size, rn_tenv. induction D as [|d D IH]; cbn; [reflexivity|]. rewrite tsize_rn1. f_equal. apply IH. Qed.
Lemma length_rD D : length (rD D) = length D.
Proof. apply map_length. Qed.

Lemma tlookup_rn D x : tlookup (rD D) (rt r x) = option_map (rn_tdef r) (tlookup D x).
Proof.
  unfold rn_tenv. induction D as [|d D IH]; cbn; [reflexivity|]. rewrite IH.
  destruct (tlookup D x); cbn; [reflexivity|]. rewrite (eqb_inj _ Ht). destruct (String.eqb x (td_name d)); reflexivity.
Qed.

Lemma unfold_f_rn fuel D t : unfold_f fuel (rD D) (rs t) = omap (option_map rs) (unfold_f fuel D t).
Proof.
  revert t; induction fuel as [|fuel IH]; intros t; cbn; [reflexivity|].
  destruct t; cbn; try reflexivity.
  rewrite tlookup_rn. destruct (tlookup D x); cbn; [apply IH | reflexivity].
Qed.
Lemma unfold_rn D t : unfold (rD D) (rs t) = omap (option_map rs) (unfold D t).
Proof. unfold unfold. rewrite length_rD. apply unfold_f_rn. Qed.

Lemma check_labels_rn D :
  (forall t, check_labels (rD D) (rs t) = check_labels D t) /\
  (forall b seen, check_labels_brs (rD D) (map (rl r) seen) (rb b) = check_labels_brs D seen b).
Proof.
  apply sty_brs_ind; intros; cbn; auto.
  - rewrite tlookup_rn. destruct (tlookup D x); reflexivity.
  - now rewrite H, H0.
  - now rewrite H, H0.
  - apply (H []).
  - apply (H []).
  - rewrite (str_mem_inj _ Hl), H. f_equal. apply (H0 (l :: seen)).
Qed.

Lemma check_modes_rn D :
  (forall t cur, check_modes (rD D) cur (rs t) = check_modes D cur t) /\
  (forall b cur, check_modes_brs (rD D) cur (rb b) = check_modes_brs D cur b).
Proof.
  apply sty_brs_ind; intros; cbn; auto; rewrite ?H, ?H0; auto.
  rewrite tlookup_rn. destruct (tlookup D x); reflexivity.
Qed.

Lemma check_wf_rn D t : check_wf (rD D) (rs t) = check_wf D t.
Proof. unfold check_wf. rewrite mode_of_rn. now rewrite (proj1 (check_labels_rn D)), (proj1 (check_modes_rn D)). Qed.

Lemma contractive_f_rn fuel D : forall seen t,
  contractive_f fuel (rD D) (map (rt r) seen) (rs t) = contractive_f fuel D seen t.
Proof.
  induction fuel as [|fuel IH]; intros seen t; cbn; [reflexivity|].
  destruct t; cbn; try reflexivity.
  rewrite (str_mem_inj _ Ht). destruct (str_mem x seen); [reflexivity|].
  rewrite tlookup_rn. destruct (tlookup D x); cbn; [apply (IH (x :: seen)) | reflexivity].
Qed.
Lemma contractive_rn D t : contractive (rD D) (rs t) = contractive D t.
Proof. unfold contractive. rewrite length_rD. apply (contractive_f_rn _ D []). Qed.

Lemma sanity_typedefs_rn D : sanity_typedefs (rD D) = sanity_typedefs D.
Proof.
  unfold sanity_typedefs.
  replace (map td_name (rD D)) with (map (rt r) (map td_name D)) by (unfold rn_tenv; rewrite !map_map; reflexivity).
  rewrite (has_dup_inj _ Ht). destruct (has_dup (map td_name D)); [reflexivity|].
  assert (E1 : forall l, forallb (fun d => check_wf (rD D) (td_body d) && mode_eqb (mode_of (td_body d)) (td_mode d)) (map (rn_tdef r) l)
                 = forallb (fun d => check_wf D (td_body d) && mode_eqb (mode_of (td_body d)) (td_mode d)) l).
  { induction l as [|d l IH]; cbn; [reflexivity|]. now rewrite check_wf_rn, mode_of_rn, IH. }
  unfold rn_tenv at 2. rewrite E1.
  match goal with |- context [negb ?b] => destruct b end; cbn [negb]; [|reflexivity].
  unfold rn_tenv at 3.
  assert (E2 : forall l,
    (fix go (l : tenv) : outcome bool :=
       match l with
       | [] => Ok true
       | d :: r0 => do c <- contractive (rD D) (td_body d);
                    if c then (if check_wf (rD D) (td_body d) then go r0 else Ok false) else Ok false
       end) (map (rn_tdef r) l) =
    (fix go (l : tenv) : outcome bool :=
       match l with
       | [] => Ok true
       | d :: r0 => do c <- contractive D (td_body d);
                    if c then (if check_wf D (td_body d) then go r0 else Ok false) else Ok false
       end) l).
  { induction l as [|d l IH]; [reflexivity|]. cbn [map rn_tdef td_body].
    rewrite contractive_rn, check_wf_rn. destruct (contractive D (td_body d)) as [[|]| |]; cbn [obind]; auto.
    destruct (check_wf D (td_body d)); auto. }
  apply E2.
Qed.

Lemma sanity_types_rn D ts : sanity_types (rD D) (map rs ts) = sanity_types D ts.
Proof. unfold sanity_types. induction ts as [|t ts IH]; cbn; [reflexivity|]. now rewrite check_wf_rn, IH. Qed.

(* ---------- mode inference ---------- *)
Definition rn_used (p : mode * list string) : mode * list string := (fst p, map (rt r) (snd p)).

Lemma infer_rn D : forall fuel,
  (forall t used, infer fuel (rD D) (rs t) (map (rt r) used) = omap rn_used (infer fuel D t used)) /\
  (forall b used, infer_brs fuel (rD D) (rb b) (map (rt r) used) = infer_brs fuel D b used).
Proof.
  induction fuel as [|fuel [IH1 IH2]]; [split; intros; reflexivity|].
  split.
  - intros t used. destruct t; cbn [infer rn_sty]; try reflexivity.
    + destruct (negb (is_unset m)); [reflexivity|]. rewrite tlookup_rn.
      destruct (tlookup D x); cbn [option_map]; [|reflexivity].
      rewrite (str_mem_inj _ Ht). destruct (negb (str_mem x used)); [|reflexivity].
      apply (IH1 (td_body t) (x :: used)).
    + destruct (negb (is_unset m)); [reflexivity|]. rewrite !IH1.
      destruct (infer fuel D t1 used) as [[lm u1]| |]; cbn; auto.
      destruct (infer fuel D t2 used) as [[rm u2]| |]; cbn; auto.
    + destruct (negb (is_unset m)); [reflexivity|]. rewrite !IH1.
      destruct (infer fuel D t1 used) as [[lm u1]| |]; cbn; auto.
      destruct (infer fuel D t2 used) as [[rm u2]| |]; cbn; auto.
    + destruct (negb (is_unset m)); [reflexivity|]. rewrite IH2.
      destruct (infer_brs fuel D bs used); reflexivity.
    + destruct (negb (is_unset m)); [reflexivity|]. rewrite IH2.
      destruct (infer_brs fuel D bs used); reflexivity.
  - intros b used. destruct b; cbn [infer_brs rn_brs]; [reflexivity|].
    rewrite IH1, IH2. destruct (infer fuel D a used) as [[m u]| |]; cbn; auto.
Qed.

Lemma infer_fuel_rn D t : infer_fuel (rD D) (rs t) = infer_fuel D t.
Proof. unfold infer_fuel. now rewrite length_rD, env_size_rn, tsize_rn1. Qed.

Lemma assign_rn D :
  (forall t cur, assign (rD D) cur (rs t) = rs (assign D cur t)) /\
  (forall b cur, assign_brs (rD D) cur (rb b) = rb (assign_brs D cur b)).
Proof.
  apply sty_brs_ind; intros; cbn [assign assign_brs rn_sty rn_brs]; rewrite ?H, ?H0; auto.
  - destruct (negb (is_unset m)); [reflexivity|]. rewrite tlookup_rn. destruct (tlookup D x); reflexivity.
  - destruct (is_unset m); reflexivity.
Qed.

Lemma add_missing_rn D t : add_missing (rD D) (rs t) = omap rs (add_missing D t).
Proof.
  unfold add_missing. rewrite infer_fuel_rn.
  change (@nil string) with (map (rt r) []) at 1. rewrite (proj1 (infer_rn D (infer_fuel D t)) t []).
  destruct (infer (infer_fuel D t) D t []) as [[m u]| |]; cbn; auto.
  now rewrite (proj1 (assign_rn D)).
Qed.

(* ---------------------------------------------------------------- EqualType *)
Variable okT okL : string -> Prop.
Variable okM : mode -> Prop.
Variable NE : Prop.
Notation okt := (okt okT okL okM NE).
Notation okbrs := (okbrs okT okL okM NE).

Definition okD (D : tenv) : Prop := forall d, In d D -> okt (td_body d).

Hypothesis Hkey : forall s t s' t', okt s -> okt t -> okt s' -> okt t' ->
  (eq_key (rs s) (rs t) = eq_key (rs s') (rs t') <-> eq_key s t = eq_key s' t').

Definition okpairs (L : list (sty * sty)) : Prop := Forall (fun p => okt (fst p) /\ okt (snd p)) L.
Definition keys (L : list (sty * sty)) : list string := map (fun p => eq_key (fst p) (snd p)) L.
Definition keys' (L : list (sty * sty)) : list string := map (fun p => eq_key (rs (fst p)) (rs (snd p))) L.

Lemma str_mem_keys s t L : okt s -> okt t -> okpairs L ->
  str_mem (eq_key (rs s) (rs t)) (keys' L) = str_mem (eq_key s t) (keys L).
Proof.
  intros Hs Ht0. unfold keys, keys'. induction 1 as [|[a b] L [Ha Hb] _ IH]; [reflexivity|].
  cbn [map str_mem fst snd]. rewrite IH. f_equal.
  cbn [fst snd] in Ha, Hb. destruct (Hkey s t a b Hs Ht0 Ha Hb) as [H1 H2].
  destruct (String.eqb_spec (eq_key s t) (eq_key a b)) as [E|N].
  - apply String.eqb_eq. auto.
  - apply String.eqb_neq. intro E. auto.
Qed.

Lemma okt_find_br l b a : okbrs b -> find_br l b = Some a -> okt a.
Proof.
  induction b as [|l' a' b IH]; cbn; [discriminate|]. intros (_ & Ha & Hb).
  destruct (String.eqb l l'); [intros E; inversion E; subst; auto | auto].
Qed.
Lemma okt_tlookup D x d : okD D -> tlookup D x = Some d -> okt (td_body d).
Proof. intros HD H. apply HD. apply (tlookup_some _ _ _ H). Qed.

(* the result of a run on the original types, transported to the renamed ones *)
Definition eq_sim (L : list (sty * sty)) (o : TcDeps.eres) (o' : TcDeps.eres) : Prop :=
  match o with
  | Ok (b, M) => exists L', M = keys L' /\ okpairs L' /\ o' = Ok (b, keys' L')
  | Panic w => o' = Panic w
  | Hang w => o' = Hang w
  end.

Lemma eq_sim_ret b L : okpairs L -> eq_sim L (Ok (b, keys L)) (Ok (b, keys' L)).
Proof. intros H. exists L. auto. Qed.

Lemma eq_sim_bind L (X X' : TcDeps.eres) (Y Y' : list string -> TcDeps.eres) :
  eq_sim L X X' ->
  (forall L1, okpairs L1 -> eq_sim L1 (Y (keys L1)) (Y' (keys' L1))) ->
  eq_sim L (do (r1, M1) <- X; if r1 then Y M1 else Ok (false, M1))
           (do (r1, M1) <- X'; if r1 then Y' M1 else Ok (false, M1)).
Proof.
  intros HX HY. destruct X as [[b M]| |]; cbn in HX.
  - destruct HX as (L1 & -> & Hok & ->). cbn [obind]. destruct b.
    + specialize (HY L1 Hok). destruct (Y (keys L1)) as [[b2 M2]| |]; cbn in *; auto.
    + exists L1. auto.
  - subst X'. reflexivity.
  - subst X'. reflexivity.
Qed.

Section EqD.
Variable D : tenv.
Hypothesis HD : okD D.

Lemma eq_brs_rn (go go' : sty -> sty -> list string -> TcDeps.eres) cs :
  okbrs cs ->
  (forall a a' L, okt a -> okt a' -> okpairs L -> eq_sim L (go a a' (keys L)) (go' (rs a) (rs a') (keys' L))) ->
  forall bs L, okbrs bs -> okpairs L ->
  eq_sim L (eq_brs_with go cs bs (keys L)) (eq_brs_with go' (rb cs) (rb bs) (keys' L)).
Proof.
  intros Hcs Hgo. induction bs as [|l a bs IH]; intros L Hbs HL; cbn [eq_brs_with rn_brs].
  - apply eq_sim_ret; auto.
  - destruct Hbs as (_ & Ha & Hbs). rewrite find_br_rn.
    destruct (find_br l cs) as [a'|] eqn:Ef; cbn [option_map]; [|apply eq_sim_ret; auto].
    apply eq_sim_bind.
    + apply Hgo; auto. apply (okt_find_br l cs a' Hcs Ef).
    + intros L1 H1. apply IH; auto.
Qed.

Lemma eq_ty_rn : forall k n s t L, okt s -> okt t -> okpairs L ->
  eq_sim L (eq_ty k D n s t (keys L)) (eq_ty k (rD D) n (rs s) (rs t) (keys' L)).
Proof.
  induction k as [|k' IHk]; [intros; reflexivity|].
  induction n as [|n' IHn]; [intros; reflexivity|].
  intros s t L Hs Ht0 HL. rewrite !eq_ty_unfold. cbv zeta.
  rewrite same_ctor_rn, !is_name_rn.
  destruct (negb (same_ctor s t) && negb (is_name s) && negb (is_name t)); [apply eq_sim_ret; auto|].
  destruct (is_name s || is_name t) eqn:En.
  - rewrite str_mem_keys by auto.
    destruct (str_mem (eq_key s t) (keys L)); [apply eq_sim_ret; auto|].
    assert (Hexp : forall s' t', okt s' -> okt t' ->
              eq_sim L (eq_ty k' D (S (tsize s' + tsize t')) s' t' (eq_key s t :: keys L))
                       (eq_ty k' (rD D) (S (tsize (rs s') + tsize (rs t'))) (rs s') (rs t') (eq_key (rs s) (rs t) :: keys' L))).
    { intros s' t' Hs' Ht'. rewrite !tsize_rn1.
      specialize (IHk (S (tsize s' + tsize t')) s' t' ((s, t) :: L) Hs' Ht').
      cbn [keys keys' map fst snd] in IHk.
      assert (HL' : okpairs ((s, t) :: L)) by (constructor; auto).
      exact (IHk HL'). }
    destruct s, t; cbn [is_name orb] in En; try discriminate En; cbn [rn_sty];
      rewrite ?tlookup_rn, ?(eqb_inj _ Ht);
      repeat match goal with
      | |- context [String.eqb ?a ?b] => destruct (String.eqb a b); [apply eq_sim_ret; auto|]
      | |- context [tlookup D ?x] =>
        let E := fresh "E" in destruct (tlookup D x) eqn:E; cbn [option_map]; [apply (okt_tlookup _ _ _ HD) in E|]
      end;
      try (apply eq_sim_ret; auto; fail);
      try (match goal with |- eq_sim _ (eq_ty _ _ _ ?a ?b _) _ => apply (Hexp a b); cbn [okt]; auto end; fail).
  - destruct s, t; cbn [is_name orb] in En; try discriminate En; cbn [rn_sty]; try (apply eq_sim_ret; auto; fail);
      cbn [RenameTypes.okt] in Hs, Ht0; decompose [and] Hs; decompose [and] Ht0; clear Hs Ht0;
      rewrite ?brs_len_rn;
      repeat match goal with
      | |- eq_sim _ (if ?c then _ else _) _ => destruct c; try (apply eq_sim_ret; auto; fail)
      end;
      try (match goal with
           | |- eq_sim _ (obind _ ?F) (obind _ ?G) =>
             match F with context [eq_ty ?k1 ?D1 ?n1 ?a1 ?b1] =>
             match G with context [eq_ty ?k2 ?D2 ?n2 ?a2 ?b2] =>
               apply (eq_sim_bind L _ _ (fun M => eq_ty k1 D1 n1 a1 b1 M) (fun M => eq_ty k2 D2 n2 a2 b2 M))
             end end
           end; [apply IHn; auto | intros L1 HL1; apply IHn; auto]; fail);
      try (apply eq_brs_rn; auto; intros; apply IHn; auto; fail);
      try (apply IHn; auto; fail).
Qed.
End EqD.

Lemma eq_fuel_rn D s t : eq_fuel (rD D) (rs s) (rs t) = eq_fuel D s t.
Proof. unfold eq_fuel. now rewrite env_size_rn, !tsize_rn1. Qed.

Lemma equal_type_rn D s t : okD D -> okt s -> okt t -> equal_type (rD D) (rs s) (rs t) = equal_type D s t.
Proof.
  intros HD Hs Ht0. unfold equal_type. rewrite eq_fuel_rn, !tsize_rn1.
  pose proof (eq_ty_rn D HD (eq_fuel D s t) (S (tsize s + tsize t)) s t [] Hs Ht0 (Forall_nil _)) as H.
  unfold eq_sim in H. change (keys []) with (@nil string) in H. change (keys' []) with (@nil string) in H.
  destruct (eq_ty (eq_fuel D s t) D (S (tsize s + tsize t)) s t []) as [[b M]| |].
  - destruct H as (L' & _ & _ & ->). reflexivity.
  - now rewrite H.
  - now rewrite H.
Qed.

(* closure of okt under what the checker does with types *)
Lemma okt_unfold_f D : okD D -> forall fuel t u, okt t -> unfold_f fuel D t = Ok (Some u) -> okt u.
Proof.
  intros HD. induction fuel as [|fuel IH]; intros t u Hok H; cbn in H; [discriminate|].
  destruct t; try (inversion H; subst; exact Hok).
  destruct (tlookup D x) eqn:E; [|discriminate]. eapply IH; [|exact H]. eapply okt_tlookup; eauto.
Qed.
Lemma okt_unfold D t u : okD D -> okt t -> unfold D t = Ok (Some u) -> okt u.
Proof. intros HD Hok H. eapply okt_unfold_f; eauto. Qed.

End Types.

(* raw types (modes not yet inferred / checked): okM := True; checked types: every mode proper *)
Definition anym : mode -> Prop := fun _ => True.
Definition pm : mode -> Prop := fun m => proper m = true.

Section Raise.
Variable okT okL : string -> Prop.
Variable NE : Prop.
Notation okr := (okt okT okL anym NE).
Notation okrb := (okbrs okT okL anym NE).
Notation okp := (okt okT okL pm NE).
Notation okpb := (okbrs okT okL pm NE).

Lemma okr_assign D :
  (forall t cur, okr t -> okr (assign D cur t)) /\ (forall b cur, okrb b -> okrb (assign_brs D cur b)).
Proof.
  assert (Hlen : forall b cur, brs_len (assign_brs D cur b) = brs_len b) by (induction b; intros; cbn; auto).
  apply sty_brs_ind; intros; cbn [assign assign_brs okt okbrs] in *; unfold anym in *; auto;
    repeat match goal with H : _ /\ _ |- _ => destruct H end; repeat split; auto; try (rewrite Hlen; auto).
  - destruct (negb (is_unset m)); cbn [okt]; [tauto|]. destruct (tlookup D x); cbn [okt]; tauto.
  - destruct (is_unset m); exact I.
Qed.
Lemma okr_add_missing D t t' : okr t -> add_missing D t = Ok t' -> okr t'.
Proof.
  unfold add_missing. intros Hok H. destruct (infer _ D t []) as [[m u]| |]; cbn in H; try discriminate.
  inversion H; subst. apply (proj1 (okr_assign D)); auto.
Qed.

Lemma okp_okr : (forall t, okp t -> okr t) /\ (forall b, okpb b -> okrb b).
Proof. apply sty_brs_ind; intros; cbn [okt okbrs] in *; unfold anym; tauto. Qed.

(* CheckTypeWellFormedness checks that every mode is one of the four proper ones *)
Lemma okr_check_modes D :
  (forall t cur, okr t -> check_modes D cur t = true -> okp t) /\
  (forall b cur, okrb b -> check_modes_brs D cur b = true -> okpb b).
Proof.
  apply sty_brs_ind; intros; cbn [check_modes check_modes_brs okt okbrs] in *; unfold pm, mode_ok in *;
    rewrite ?andb_true_iff in *;
    repeat match goal with H : _ /\ _ |- _ => destruct H end; repeat split; eauto.
Qed.
Lemma okr_check_wf D t : okr t -> check_wf D t = true -> okp t.
Proof. unfold check_wf. intros H E. apply andb_prop in E. destruct E as [_ E]. eapply (proj1 (okr_check_modes D)); eauto. Qed.
End Raise.
