(* proofs/TcUnfold.v — the cut case of Tc.tc_form restated without the match on the body (the two
   right-hand sides are the text of the FNew case of tc_form; the equations hold by computation). *)
Require Import Grits.Base Grits.ModeDefs Grits.Modes Grits.STypes Grits.Forms Grits.Subst Grits.Infer
               Grits.TcDeps Grits.Expand Grits.Tc.

Section Unfold.
Variable D : tenv.
Variable Sg : sigma.

Definition tc_new_call (g : ctx) (shadow : option name) (pty : option sty) (x : name)
           (fn : string) (args : list name) (o : option sty) (k : form) : tcr form :=
  let body := FCall fn args o in
  tdo _ <- guard (negb (is_provider x shadow)) "you cannot assign self to a new channel";
  let reused := ctx_has g (ident x) in
  let body_fn := free_names body in
  tdo _ <- guard (negb (negb reused && name_in_names x body_fn)) "cannot use the new name in the spawned process";
  tdo _ <- guard (negb (reused && negb (name_in_names x body_fn))) "name is reassigned before being used";
  tdo _ <- guard (negb (has_continuation body)) "cannot determine variable context splitting";
  tdo (gl, gr0) <- split_gamma D g args [];
  let gr := if reused then aset (ident x) (nty x) gr0 else gr0 in
  match sig_lookup Sg fn with
  | None => TErr "function is undefined"
  | Some sg =>
    tdo fty <- unfold_opt D (fs_type sg);
    tdo _ <- (match nty x with
              | None => TOk tt
              | Some xt =>
                tdo xt1 <- lift (add_missing D xt);
                tdo _ <- guard (check_wf D xt1) "invalid type for the new name";
                tdo e <- equal_opt D (Some xt1) fty;
                if e then TOk tt else match fty with Some _ => TErr "annotation differs from the type the function provides" | None => TPanic "nil in message" end
              end);
    tdo _ <- indep_all (map snd gl) fty;
    tdo body' <- tc_form D Sg gl (Some x) fty body;
    let gr1 := aset (ident x) fty gr in
    tdo k' <- tc_form D Sg gr1 shadow pty k;
    let x' := set_nty x fty in
    tdo _ <- indep_one fty pty;
    tdo _ <- check_pols [x'];
    TOk (FNew x' body' k')
  end.

Definition tc_new_ax (g : ctx) (shadow : option name) (pty : option sty) (x : name) (body k : form) : tcr form :=
  tdo _ <- guard (negb (is_provider x shadow)) "you cannot assign self to a new channel";
  let reused := ctx_has g (ident x) in
  let body_fn := free_names body in
  tdo _ <- guard (negb (negb reused && name_in_names x body_fn)) "cannot use the new name in the spawned process";
  tdo _ <- guard (negb (reused && negb (name_in_names x body_fn))) "name is reassigned before being used";
  tdo _ <- guard (negb (has_continuation body)) "cannot determine variable context splitting";
  tdo (gl, gr0) <- split_gamma D g body_fn [];
  let gr := if reused then aset (ident x) (nty x) gr0 else gr0 in
  match nty x with
  | None => TErr "expected an explicit type"
  | Some xt =>
    tdo xt1 <- lift (add_missing D xt);
    tdo _ <- guard (check_wf D xt1) "invalid type for the new name";
    tdo xt2 <- unfold_opt D (Some xt1);
    tdo _ <- indep_all (map snd gl) xt2;
    tdo _ <- indep_one xt2 pty;
    let x1 := set_nty x xt2 in
    tdo body' <- tc_form D Sg gl (Some x1) xt2 body;
    tdo xt3 <- unfold_opt D xt2;
    let x2 := set_nty x xt3 in
    let gr1 := aset (ident x) xt3 gr in
    tdo _ <- check_pols [x2];
    tdo k' <- tc_form D Sg gr1 shadow pty k;
    TOk (FNew x2 body' k')
  end.

Lemma tc_new_call_eq g sh pty x fn args o k :
  tc_form D Sg g sh pty (FNew x (FCall fn args o) k) = tc_new_call g sh pty x fn args o k.
Proof. reflexivity. Qed.

Lemma tc_new_ax_eq g sh pty x body k : (forall fn args o, body <> FCall fn args o) ->
  tc_form D Sg g sh pty (FNew x body k) = tc_new_ax g sh pty x body k.
Proof. intros N. destruct body; try reflexivity. destruct (N _ _ _ eq_refl). Qed.

Lemma tc_brsR_cons g bs seen l pay k r :
  tc_branches_provider D Sg g bs seen (BrCons l pay k r) =
    (tdo _ <- guard (negb (str_mem l seen)) "label is duplicated";
     match find_br l bs with
     | None => TErr "branch does not match the type"
     | Some bt =>
       tdo _ <- guard (negb (ctx_has g (ident pay))) "variable name already defined";
       tdo bt' <- unfold_opt D (Some bt);
       let pay' := set_nty pay bt' in
       tdo _ <- check_pols [pay'];
       tdo k' <- tc_form D Sg g (Some pay') (Some bt) k;
       tdo (r', seen') <- tc_branches_provider D Sg g bs (l :: seen) r;
       TOk (BrCons l pay' k' r', seen')
     end).
Proof. reflexivity. Qed.

Lemma tc_brsL_cons g sh pty bs seen l pay k r :
  tc_branches_client D Sg g sh pty bs seen (BrCons l pay k r) =
    (tdo _ <- guard (negb (str_mem l seen)) "label is duplicated";
     match find_br l bs with
     | None => TErr "case does not match the type"
     | Some bt =>
       tdo _ <- guard (negb (is_provider pay sh)) "you cannot assign self to a new channel";
       tdo _ <- guard (negb (ctx_has g (ident pay))) "variable name already defined";
       let g1 := aset (ident pay) (Some bt) g in
       tdo bt' <- unfold_opt D (Some bt);
       let pay' := set_nty pay bt' in
       tdo _ <- check_pols [pay'];
       tdo k' <- tc_form D Sg g1 sh pty k;
       tdo (r', seen') <- tc_branches_client D Sg g sh pty bs (l :: seen) r;
       TOk (BrCons l pay' k' r', seen')
     end).
Proof. reflexivity. Qed.

Lemma tc_case_eq g shadow pty from brs :
  tc_form D Sg g shadow pty (FCase from brs) =
    (if is_provider from shadow then
      tdo pty' <- unfold_opt D pty;
      match as_with pty' with
      | None => type_mismatch pty' "expected a branching type"
      | Some (bs, m) =>
        tdo (brs', seen) <- tc_branches_provider D Sg g bs [] brs;
        tdo _ <- guard (negb (Nat.ltb (length seen) (brs_len bs))) "some labels are not pattern matched";
        let from' := set_nty from pty' in
        tdo _ <- check_pols [from'];
        TOk (FCase from' brs')
      end
    else
      tdo (ct, g1) <- consume from g;
      tdo ct' <- unfold_opt D ct;
      match as_plus ct' with
      | None => type_mismatch ct' "expected a select type"
      | Some (bs, m) =>
        tdo (brs', seen) <- tc_branches_client D Sg g1 shadow pty bs [] brs;
        tdo _ <- guard (negb (Nat.ltb (length seen) (brs_len bs))) "some labels are not pattern matched";
        let from' := set_nty from ct' in
        tdo _ <- check_pols [from'];
        TOk (FCase from' brs')
      end).
Proof. reflexivity. Qed.

Lemma call_or_not (body : form) :
  (exists fn args o, body = FCall fn args o) \/ (forall fn args o, body <> FCall fn args o).
Proof. destruct body; try (right; intros; discriminate). left. eauto. Qed.
End Unfold.
