(* HostProofs.v — isolation of runs within one host (C19). *)
From stdpp Require Import gmap.
Require Import Grits.Base Grits.Expand Grits.TcTop Grits.Runtime Grits.Host.

Section Host.
Variable pick : nat -> nat -> nat.
Variable fuel : nat.

Lemma leftover_prints_nothing l : snd (leftover_step l) = [].
Proof. destruct l; reflexivity. Qed.

Lemma host_step_leftovers_output who h : h_output (host_step_leftovers who h) = h_output h.
Proof.
  revert h. induction who as [|i who IH]; intros h; [reflexivity|].
  cbn [host_step_leftovers fold_left]. fold (host_step_leftovers who).
  etransitivity; [apply IH|].
  destruct (nth_error (h_left h) i) as [l|]; [|reflexivity].
  destruct l; cbn; rewrite ?app_nil_r; reflexivity.
Qed.

(* the outcome of a program run in ANY host state, after ANY activity of leftovers, is its outcome alone *)
Theorem host_run_outcome who h s : fst (host_run pick fuel who h s) = outcome_alone pick fuel s.
Proof. unfold host_run, outcome_alone. destruct (run_alone pick fuel s). reflexivity. Qed.

Lemma host_runs_outcomes h hist :
  fst (host_runs pick fuel h hist) = map (fun ws => outcome_alone pick fuel (snd ws)) hist.
Proof.
  revert h. induction hist as [|[who s] r IH]; intros h; [reflexivity|].
  cbn [host_runs map snd].
  pose proof (host_run_outcome who h s) as Ho.
  destruct (host_run pick fuel who h s) as [o h1]. cbn in Ho. subst o.
  specialize (IH h1). destruct (host_runs pick fuel h1 r) as [os h2]. cbn in IH. cbn. rewrite IH. reflexivity.
Qed.

(* C19: for all histories (accepted, rejected and unparseable programs in any order, repeated), all
   initial host states and all interleavings of leftover goroutines: the i-th outcome is the
   outcome of the i-th program alone in a fresh host *)
Theorem isolated h hist i ws :
  nth_error hist i = Some ws ->
  nth_error (fst (host_runs pick fuel h hist)) i = Some (fst (host_run pick fuel [] fresh_host (snd ws))).
Proof.
  intros H. rewrite host_runs_outcomes, nth_error_map, H. cbn. rewrite host_run_outcome. reflexivity.
Qed.

(* what the host has printed is exactly the concatenation of what each program printed: leftovers
   of earlier runs contribute nothing *)
Definition printed (o : outcome1) : list string := match o with ORan l | ORuntimeError l => l | _ => [] end.

Theorem host_output h hist :
  h_output (snd (host_runs pick fuel h hist)) =
  h_output h ++ concat (map (fun ws => printed (outcome_alone pick fuel (snd ws))) hist).
Proof.
  revert h. induction hist as [|[who s] r IH]; intros h; cbn [host_runs map concat snd].
  - rewrite app_nil_r. reflexivity.
  - unfold host_run at 1. unfold outcome_alone at 1.
    destruct (run_alone pick fuel s) as [o ls] eqn:E. cbn [fst].
    specialize (IH {| h_left := h_left (host_step_leftovers who h) ++ ls;
                      h_output := h_output (host_step_leftovers who h) ++ match o with ORan l | ORuntimeError l => l | _ => [] end |}).
    destruct (host_runs pick fuel _ r) as [os h2]. cbn [snd] in *. rewrite IH. cbn [h_output].
    rewrite host_step_leftovers_output, <- app_assoc. reflexivity.
Qed.
End Host.
