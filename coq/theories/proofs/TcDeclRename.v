(* proofs/TcDeclRename.v — C14: the typechecker and PER-DECLARATION renamings.  If q is p with every
   function (body and parameters) and every process body renamed by its OWN injective identifier map
   (types, labels, function names, process names and assumed names kept), then the checker accepts q
   iff it accepts p, and the annotated program it returns for q is the per-declaration renamed
   annotated program of p (C14Alpha.decl_renamed) — the premise of run_decl_alpha.
   New ingredients: (1) the checker reads a signature only through its name, its type and the TYPES
   of its parameters (`tc_form_sg`); (2) the preliminary checks read a process body only through the
   identifiers of its free names, which are process / assumed names and hence fixed. *)
Require Import Grits.Base Grits.ModeDefs Grits.Modes Grits.STypes Grits.Forms Grits.Subst Grits.Infer
               Grits.TcDeps Grits.Expand Grits.Tc Grits.TcTop
               Grits.proofs.TcInv Grits.proofs.TcTotal Grits.proofs.PermTc.

(* ---------------------------------------------------------------- (1) signatures up to parameter identifiers *)
Definition sgrel (s1 s2 : fsig) : Prop :=
  fs_name s2 = fs_name s1 /\ fs_type s2 = fs_type s1 /\ map nty (fs_params s2) = map nty (fs_params s1).
Definition sgeq (Sg Sg' : sigma) : Prop :=
  forall fn, match sig_lookup Sg fn, sig_lookup Sg' fn with
             | Some s1, Some s2 => sgrel s1 s2
             | None, None => True
             | _, _ => False
             end.

Section SgExt.
Variable D : tenv.

Lemma tc_args_nty : forall args ps ps' g, map nty ps' = map nty ps -> tc_args D g args ps' = tc_args D g args ps.
Proof.
  induction args as [|a args IH]; intros ps ps' g E; [reflexivity|].
  destruct ps as [|p ps], ps' as [|p' ps']; cbn [map] in E; try discriminate; [reflexivity|].
  inversion E as [[E1 E2]]. cbn [tc_args]. rewrite E1. rewrite (IH ps ps' _ E2) || idtac.
  destruct (consume a g) as [[ft g1]| | |]; cbn [tbind]; try reflexivity.
  destruct (equal_opt D ft (nty p)) as [e| | |]; cbn [tbind]; try reflexivity.
  destruct (if e then TOk tt else _) as [[]| | |]; cbn [tbind]; try reflexivity.
  destruct (unfold_opt D ft); cbn [tbind]; try reflexivity.
  destruct (check_pols _); cbn [tbind]; try reflexivity.
  now rewrite (IH ps ps' g1 E2).
Qed.

Variables Sg Sg' : sigma.
Hypothesis HSg : sgeq Sg Sg'.

Ltac ext_step :=
  cbv zeta;
  match goal with
  | |- ?a = ?a => reflexivity
  | |- tbind (match ?x with _ => _ end) _ = tbind (match ?x with _ => _ end) _ => destruct x
  | |- tbind (tbind _ _) _ = _ => rewrite !tbind_assoc
  | |- tbind (tc_form _ _ _ _ _ _) _ = tbind _ _ => apply tbind_ext; [solve [auto] | intros ?]
  | |- tbind (tc_branches_provider _ _ _ _ _ _) _ = tbind _ _ => apply tbind_ext; [solve [auto] | intros ?]
  | |- tbind (tc_branches_client _ _ _ _ _ _ _ _) _ = tbind _ _ => apply tbind_ext; [solve [auto] | intros ?]
  | |- tbind _ _ = tbind _ _ => apply tbind_ext; [reflexivity | intros ?]
  | |- match ?x with _ => _ end = match ?x with _ => _ end => destruct x
  | |- (if ?b then _ else _) = (if ?b then _ else _) => destruct b
  | |- (let '(_, _) := ?x in _) = (let '(_, _) := ?x in _) => destruct x
  | |- type_mismatch _ _ = type_mismatch _ _ => reflexivity
  end.

Definition G_form (f : form) : Prop := forall g sh pty, tc_form D Sg g sh pty f = tc_form D Sg' g sh pty f.
Definition G_brs (b : branches) : Prop :=
  (forall g bs seen, tc_branches_provider D Sg g bs seen b = tc_branches_provider D Sg' g bs seen b) /\
  (forall g sh pty bs seen, tc_branches_client D Sg g sh pty bs seen b = tc_branches_client D Sg' g sh pty bs seen b).

Ltac look fn :=
  let Hs := fresh "Hs" in
  pose proof (HSg fn) as Hs;
  destruct (sig_lookup Sg fn) as [sg|], (sig_lookup Sg' fn) as [sg'|]; try contradiction; [destruct Hs as (En & Et & Ep)|].

Theorem tc_form_sg : (forall f, G_form f) /\ (forall b, G_brs b).
Proof.
  apply form_branches_ind; unfold G_form, G_brs; intros.
  - cbn [tc_form]. repeat ext_step.
  - cbn [tc_form]. repeat ext_step.
  - cbn [tc_form]. repeat ext_step.
  - rewrite !tc_form_case_eq. destruct H as [H1 H2]. repeat ext_step.
  - cbn [tc_form]. do 4 ext_step. destruct body; repeat ext_step.
    look f; [rewrite Et; repeat ext_step | reflexivity].
  - cbn [tc_form]. repeat ext_step.
  - cbn [tc_form]. repeat ext_step.
  - cbn [tc_form]. repeat ext_step.
  - cbn [tc_form]. repeat ext_step.
  - cbn [tc_form]. look f; [|reflexivity].
    assert (El : length (fs_params sg') = length (fs_params sg)) by (apply (f_equal (@length _)) in Ep; now rewrite !map_length in Ep).
    rewrite Et, El. repeat ext_step; rewrite (tc_args_nty _ _ _ _ Ep); repeat ext_step.
  - cbn [tc_form]. repeat ext_step.
  - cbn [tc_form]. repeat ext_step.
  - cbn [tc_form]. repeat ext_step.
  - cbn [tc_form]. repeat ext_step.
  - split; intros; reflexivity.
  - destruct H0 as [H1 H2]. split; intros.
    + rewrite !tc_branches_provider_cons. repeat ext_step.
    + rewrite !tc_branches_client_cons. repeat ext_step.
Qed.
End SgExt.
