(* proofs/NameOpsAgree.v — the translation of Name.Initialized / Equal / Substitute of /repo/process/name.go
   made on THIS run (gen/NameOps.v, by `probe nameops`) means Subst.initialized / name_equal / name_subst. *)
Require Import Grits.Base Grits.ModeDefs Grits.STypes Grits.Forms Grits.Subst Grits.NameIR Grits.gen.NameOps.

Lemma nameops_fields : name_fields = expected_name_fields.
Proof. reflexivity. Qed.
Lemma nameops_init_wf : name_init_ok name_ops = true.
Proof. reflexivity. Qed.
Lemma nameops_subst_wf : name_subst_ok name_ops = true.
Proof. vm_compute. reflexivity. Qed.

Lemma nameops_initialized_agrees : forall n, ir_initialized name_ops n = initialized n.
Proof. intros n. reflexivity. Qed.

Lemma nameops_equal_agrees : forall a b, ir_name_equal name_ops a b = name_equal a b.
Proof.
  intros a b. unfold ir_name_equal, name_equal, initialized. cbn -[chan_eqb String.eqb].
  destruct (chan a), (chan b); reflexivity.
Qed.

Lemma nameops_subst_agrees : forall old new n, ir_name_subst name_ops old new n = name_subst old new n.
Proof.
  intros old new n. unfold ir_name_subst, name_subst, initialized. cbn -[chan_eqb String.eqb].
  destruct n as [i s p t c], old as [i' s' p' t' c'], new as [i'' s'' p'' t'' c'']. cbn -[chan_eqb String.eqb].
  destruct c, c'; cbn -[cid_eqb String.eqb nset]; try reflexivity.
  - destruct (cid_eqb _ _); [|reflexivity].
    destruct (String.eqb i'' ""); reflexivity.
Qed.
