(* proofs/OracleProofs.v — the boolean oracles of spec/Oracle.v decide the Prop-level statements, and the
   checker model never accepts a program that an oracle flags. *)
Require Import Grits.Base Grits.ModeDefs Grits.Modes Grits.STypes Grits.Forms Grits.Subst Grits.Infer
               Grits.TcDeps Grits.Expand Grits.Tc Grits.TcTop Grits.spec.Linear Grits.spec.Sequents Grits.spec.Indep Grits.spec.Oracle
               Grits.proofs.TcInv Grits.proofs.LinearProofs Grits.proofs.LinearTop Grits.proofs.IndepTop.

Lemma all_eq_iff c l : all_eq c l = true <-> AllEq c l.
Proof.
  unfold all_eq, AllEq. rewrite forallb_forall, Forall_forall. split; intros H x Hx.
  - symmetry. apply Nat.eqb_eq. auto.
  - apply Nat.eqb_eq. symmetry. auto.
Qed.
Lemma fresh_b_iff live n : fresh_b live n = true <-> fresh live n.
Proof. unfold fresh_b, fresh. apply negb_true_iff. Qed.
Lemma differ_b_iff a b : differ_b a b = true <-> differ a b.
Proof. unfold differ_b, differ. rewrite negb_true_iff. apply String.eqb_neq. Qed.
Lemma not_prov_iff sh n : negb (prov_ref sh n) = true <-> not_prov sh n.
Proof. unfold not_prov. apply negb_true_iff. Qed.

Ltac refl_tac :=
  cbn [bound_once_b bound_once bound_once_bp_b bound_once_bp bound_once_bc_b bound_once_bc
       binders_fresh_b binders_fresh binders_fresh_bp_b binders_fresh_bp binders_fresh_bc_b binders_fresh_bc];
  repeat match goal with |- context [if ?b then _ else _] => destruct b end;
  rewrite ?andb_true_iff, ?all_eq_iff, ?fresh_b_iff, ?differ_b_iff, ?not_prov_iff; unfold once.

Lemma bound_once_b_iff :
  (forall f sh, bound_once_b sh f = true <-> bound_once sh f) /\
  (forall bs, (bound_once_bp_b bs = true <-> bound_once_bp bs) /\
              (forall sh, bound_once_bc_b sh bs = true <-> bound_once_bc sh bs)).
Proof.
  apply form_branches_ind; intros; try (cbn; split; auto; fail).
  - refl_tac. all: rewrite ?H. all: tauto.
  - destruct H as (Hp & Hc). refl_tac; [apply Hp|apply Hc].
  - refl_tac. all: rewrite ?H, ?H0. all: tauto.
  - refl_tac. apply H.
  - refl_tac. all: rewrite ?H. all: tauto.
  - refl_tac. all: rewrite ?H. all: tauto.
  - refl_tac. apply H.
  - refl_tac. apply H.
  - split; [|intros sh]; cbn; split; auto.
  - destruct H0 as (Hp & Hc). split; [|intros sh]; refl_tac. all: rewrite ?H, ?Hp, ?Hc. all: tauto.
Qed.

Lemma binders_fresh_b_iff :
  (forall f live sh, binders_fresh_b live sh f = true <-> binders_fresh live sh f) /\
  (forall bs, (forall live, binders_fresh_bp_b live bs = true <-> binders_fresh_bp live bs) /\
              (forall live sh, binders_fresh_bc_b live sh bs = true <-> binders_fresh_bc live sh bs)).
Proof.
  apply form_branches_ind; intros; try (cbn; split; auto; fail).
  - refl_tac. all: rewrite ?H. all: tauto.
  - destruct H as (Hp & Hc). refl_tac; [apply Hp|apply Hc].
  - refl_tac. all: rewrite ?H, ?H0. all: tauto.
  - refl_tac. apply H.
  - refl_tac. all: rewrite ?H. all: tauto.
  - refl_tac. all: rewrite ?H. all: tauto.
  - refl_tac. apply H.
  - refl_tac. apply H.
  - split; intros; cbn; split; auto.
  - destruct H0 as (Hp & Hc). split; intros; refl_tac. all: rewrite ?H, ?Hp, ?Hc. all: tauto.
Qed.

Lemma occ_other sh x n : ident n <> x -> occ sh x n = 0.
Proof. unfold occ. intros H. destruct (prov_ref sh n); auto. destruct (String.eqb_spec (ident n) x); congruence. Qed.

Lemma str_mem_cons_false x y l : str_mem x (y :: l) = false -> y <> x /\ str_mem x l = false.
Proof. cbn. intros H. apply orb_false_iff in H. destruct H as (H1 & H2). split; auto. apply String.eqb_neq in H1. congruence. Qed.
Lemma str_mem_app_false x a b : str_mem x (a ++ b) = false -> str_mem x a = false /\ str_mem x b = false.
Proof. rewrite str_mem_app. apply orb_false_iff. Qed.

Lemma never_addl0 l : AllEq 0 l -> AllEq 0 (addl 0 l).
Proof. intros H. apply (AllEq_addl 0 0 l H). Qed.
Lemma never_hide bs x l : AllEq 0 l -> AllEq 0 (hide bs x l).
Proof. intros H. apply AllEq_hide; auto. Qed.

Lemma uses_unmentioned :
  (forall f sh x, str_mem x (mentioned f) = false -> never (uses sh x f)) /\
  (forall bs, (forall x, str_mem x (mentioned_brs bs) = false -> never (uses_bp x bs)) /\
              (forall sh x, str_mem x (mentioned_brs bs) = false -> never (uses_bc sh x bs))).
Proof.
  apply form_branches_ind; intros; cbn [mentioned mentioned_brs uses uses_bp uses_bc] in *;
    repeat match goal with
    | H : str_mem _ (_ :: _) = false |- _ => apply str_mem_cons_false in H; destruct H
    | H : str_mem _ (_ ++ _) = false |- _ => apply str_mem_app_false in H; destruct H
    end;
    rewrite ?occ_other by auto; unfold never in *.
  - apply AllEq_one.
  - destruct (prov_ref sh from); [apply never_hide; auto|]. apply never_addl0, never_hide; auto.
  - apply AllEq_one.
  - destruct H as (Hp & Hc). destruct (prov_ref sh from); [apply Hp; auto|]. apply never_addl0, Hc; auto.
  - apply (AllEq_cross 0 0); auto. apply never_hide; auto.
  - apply AllEq_one.
  - apply never_addl0; auto.
  - apply AllEq_one.
  - apply never_addl0, never_hide; auto.
  - assert (E : sum_occ sh x args = 0).
    { induction args as [|a r IH]; cbn in *; auto.
      apply orb_false_iff in H. destruct H as (H1 & H2). apply String.eqb_neq in H1.
      rewrite occ_other by congruence. now apply IH. }
    rewrite E. apply AllEq_one.
  - apply AllEq_one.
  - destruct (prov_ref sh from); [auto|]. apply never_addl0, never_hide; auto.
  - apply never_addl0; auto.
  - auto.
  - split; intros; apply AllEq_nil.
  - destruct H0 as (Hp & Hc). split; intros; cbn [mentioned_brs] in *;
      repeat match goal with
      | H : str_mem _ (_ :: _) = false |- _ => apply str_mem_cons_false in H; destruct H
      | H : str_mem _ (_ ++ _) = false |- _ => apply str_mem_app_false in H; destruct H
      end; apply AllEq_app; auto. apply never_hide; auto.
Qed.

Lemma linear_names_b_iff names sh f : linear_names_b names sh f = true <-> LinearNames names sh f.
Proof.
  unfold linear_names_b, LinearNames. rewrite !andb_true_iff, !forallb_forall.
  rewrite (proj1 bound_once_b_iff), (proj1 binders_fresh_b_iff).
  split.
  - intros (((A & B) & C) & E). repeat split; auto.
    + intros x Hx. apply all_eq_iff, A. clear -Hx. induction names; cbn in *; try discriminate.
      apply orb_true_iff in Hx. destruct Hx as [Hx|Hx]; [left; apply String.eqb_eq in Hx; auto|right; auto].
    + intros x Hx. destruct (str_mem x (mentioned f)) eqn:Em.
      * assert (Hin : In x (mentioned f)).
        { clear -Em. induction (mentioned f); cbn in *; try discriminate.
          apply orb_true_iff in Em. destruct Em as [Em|Em]; [left; apply String.eqb_eq in Em; auto|right; auto]. }
        specialize (B x Hin). rewrite Hx in B. cbn in B. now apply all_eq_iff.
      * now apply (proj1 uses_unmentioned).
  - intros (A & B & C & E). repeat split; auto.
    + intros x Hx. apply all_eq_iff, A. clear -Hx. induction names; cbn in *; [contradiction|].
      destruct Hx as [->|Hx]; [now rewrite String.eqb_refl|]. rewrite IHnames; auto. apply orb_true_r.
    + intros x Hx. destruct (str_mem x names) eqn:En; auto. cbn. now apply all_eq_iff, B.
Qed.

Lemma contractable_b_iff D t : contractable_b D t = true <-> contractable_type D t.
Proof.
  unfold contractable_b, contractable_type. split.
  - destruct t as [t0|]; try discriminate. destruct (add_missing D t0) eqn:E; try discriminate. eauto.
  - intros (t0 & t1 & -> & E & H). now rewrite E.
Qed.

Lemma linear_program_b_iff p : linear_program_b p = true <-> LinearProgram p.
Proof.
  unfold linear_program_b, LinearProgram. rewrite !andb_true_iff, !forallb_forall.
  split.
  - intros ((A & B) & C). split; [|split].
    + intros fd0 Hin0. apply linear_names_b_iff; auto.
    + intros pd0 Hin0. apply linear_names_b_iff; auto.
    + intros pd0 Hin0 Hl. specialize (C pd0 Hin0). apply Nat.ltb_lt in Hl. rewrite Hl in C. cbn in C. now apply contractable_b_iff.
  - intros (A & B & C). split; [split|].
    + intros fd0 Hin0. apply linear_names_b_iff; auto.
    + intros pd0 Hin0. apply linear_names_b_iff; auto.
    + intros pd0 Hin0. destruct (Nat.ltb_spec 1 (length (pr_providers pd0))); cbn; auto. apply contractable_b_iff; auto.
Qed.

(* the checker model never accepts a program that the C05 oracle flags *)
Theorem lin_oracle_agrees p p' : uninit_prog p = true -> typecheck p = Accept p' -> linear_program_b p = true.
Proof. intros Hu H. apply linear_program_b_iff. eapply tc_linear; eauto. Qed.

(* ---------- C06 ---------- *)
Lemma alookup_in_fst {V} x (g : list (string * V)) v : alookup x g = Some v -> In x (map fst g).
Proof.
  induction g as [|[k w] r IH]; cbn; try discriminate. destruct (String.eqb_spec x k); subst; auto.
Qed.

Lemma independent_b_iff s : independent_b s = true <-> independent s.
Proof.
  unfold independent_b, independent. destruct (sq_ty s) as [t|].
  - rewrite forallb_forall. split.
    + intros H. exists t. split; auto. intros x tx Hx. specialize (H x (alookup_in_fst _ _ _ Hx)).
      rewrite Hx in H. destruct tx as [t'|]; try discriminate. eauto.
    + intros (t0 & E & H) k Hk. inversion E; subst t0. destruct (alookup k (sq_ctx s)) as [tx|] eqn:El; auto.
      destruct (H _ _ El) as (t' & -> & Hd). exact Hd.
  - split; [discriminate|]. intros (t & E & _). discriminate.
Qed.

Lemma shift_legal_b_iff D s : shift_legal_b D s = true <-> shift_legal D s.
Proof.
  unfold shift_legal_b, shift_legal. destruct (sq_form s); try (split; auto; fail);
    repeat match goal with |- context [match ?x with _ => _ end] => destruct x end;
    try (split; auto; fail); reflexivity.
Qed.

Lemma drop_split_legal_b_iff s : drop_split_legal_b s = true <-> drop_split_legal s.
Proof.
  unfold drop_split_legal_b, drop_split_legal. destruct (sq_form s); try (split; auto; fail).
  - destruct (alookup (ident from) (sq_ctx s)) as [[t|]|]; split; try discriminate; eauto;
      try (intros (t0 & E & _); discriminate). intros (t0 & E & H). inversion E; subst; auto.
  - destruct (alookup (ident c) (sq_ctx s)) as [[t|]|]; split; try discriminate; eauto;
      try (intros (t0 & E & _); discriminate). intros (t0 & E & H). inversion E; subst; auto.
Qed.

Lemma forallb_Forall {A} (p : A -> bool) (P : A -> Prop) l : (forall a, p a = true <-> P a) -> forallb p l = true <-> Forall P l.
Proof. intros H. rewrite forallb_forall, Forall_forall. split; intros G x Hx; apply H; auto. Qed.

Lemma existsb_false_forall {A} (p : A -> bool) l : existsb p l = false <-> forall a, In a l -> p a = false.
Proof.
  induction l as [|x r IH]; cbn; [split; auto; intros _ a []|].
  rewrite orb_false_iff, IH. split.
  - intros (H1 & H2) a [<-|Ha]; auto.
  - intros H. split; auto.
Qed.

(* the checker model never accepts a program that the C06 oracle flags (other than the K1 shape) *)
Theorem ind_oracle_agrees p p' : typecheck p = Accept p' ->
  indep_program_v p = IndepOk \/ exists n, indep_program_v p = IndepK1 n.
Proof.
  intros H. destruct (tc_indep_program p p' H) as (_ & _ & HF & HP).
  unfold indep_program_v, completed. rewrite H.
  match goal with |- context [if ?b then _ else _] => assert (E1 : b = false) end.
  { apply existsb_false_forall. intros [f f'] Hin. cbn [fst snd]. apply negb_false_iff.
    apply (forallb_Forall _ (fun s => independent s /\ shift_legal (p_types p) s)); [|exact (HF _ _ Hin)].
    intros s. rewrite andb_true_iff, independent_b_iff, shift_legal_b_iff. tauto. }
  rewrite E1.
  match goal with |- context [if ?b then _ else _] => assert (E2 : b = false) end.
  { apply existsb_false_forall. intros [q q'] Hin. cbn [fst snd]. apply negb_false_iff.
    apply (forallb_Forall _ (fun s => (sq_spawned s = true -> independent s) /\ shift_legal (p_types p) s)); [|exact (proj1 (HP _ _ Hin))].
    intros s. rewrite andb_true_iff, orb_true_iff, negb_true_iff, independent_b_iff, shift_legal_b_iff.
    destruct (sq_spawned s); intuition congruence. }
  rewrite E2.
  match goal with |- context [if ?b then _ else _] => assert (E3 : b = false) end.
  { apply existsb_false_forall. intros [q q'] Hin. cbn [fst snd].
    destruct (independent_b (proc_root p' q q')) eqn:Er; auto. rewrite andb_true_l. apply negb_false_iff.
    apply (forallb_Forall _ independent); [apply independent_b_iff|].
    apply (proj2 (HP _ _ Hin)). now apply independent_b_iff. }
  rewrite E3.
  match goal with |- context [match ?n with O => _ | S _ => _ end] => destruct n; eauto end.
Qed.

Theorem drop_split_oracle_agrees p p' : typecheck p = Accept p' ->
  drop_split_program_b p = true.
Proof.
  intros H. destruct (tc_drop_split_program p p' H) as (HF & HP).
  unfold drop_split_program_b, completed. rewrite H. apply andb_true_iff. split; apply forallb_forall.
  - intros [f f'] Hin. cbn [fst snd]. apply (forallb_Forall _ drop_split_legal); [apply drop_split_legal_b_iff|auto].
  - intros [q q'] Hin. cbn [fst snd]. apply (forallb_Forall _ drop_split_legal); [apply drop_split_legal_b_iff|auto].
Qed.
