(* RtProgress.v — C02 (every form; asynchronous mode first, synchronous mode at the end of the file).
   In a typed configuration that satisfies Topo and is quiescent:
     (1) every remaining process is blocked in a receive on ITS OWN provider channel, of negative
         type, whose buffer is empty and open: it is poised, waiting for a client — nobody is blocked
         sending, nobody waits for a provider (descending into the forest always reaches somebody
         who can act);
     (2) every message left in a buffer is positive (a result nobody has consumed yet);
     (3) if every channel provided by a remaining process, or by a remaining message that carries
         channels, is referenced by some client object, then no process remains at all (ascending
         the forest from a remaining process ends at a root that has no client).
   Hence the survivors of an asynchronous run are exactly: poised negative providers whose chain of
   clients ends at a top-level channel nobody uses (either a poised top-level provider, or a
   top-level result that carries their channel and is never consumed). *)
From stdpp Require Import gmap strings.
Require Import Grits.Base Grits.ModeDefs Grits.Modes Grits.STypes Grits.Forms Grits.Subst Grits.TcDeps Grits.Expand
               Grits.Runtime Grits.spec.RtTyping Grits.spec.Topo Grits.proofs.RtSubst Grits.proofs.RtEffect
               Grits.proofs.StepErrors Grits.proofs.RtSafety.

(* a channel with somebody behind it: a live provider, or a buffered message carrying channels *)
Definition alive (c : config) (k : cid) : Prop :=
  (exists self p, procs c !! self = Some p /\ k ∈ cids_of (pr_provs p)) \/
  (exists st m, chans c !! k = Some st /\ ch_buf st = Some m /\ refs (OMsg k m) <> []).

(* the survivors of a synchronous run: a process alive at quiescence is blocked on ITS OWN provider
   channel, either receiving (negative type: poised) or SENDING a positive message (offering a result
   nobody takes); and if every channel provided by a survivor is referenced by a client then nobody
   survives *)
Definition progress_sync_statement (D : tenv) (F : list fundef) (teq : sty -> sty -> Prop) : Prop :=
  forall Δ c, cfg_typed D F teq Δ c -> Topo c -> buffers_empty c -> quiescent Sync D F c ->
    (forall self p, procs c !! self = Some p ->
       exists k, own_chan p k /\
         (action_of Sync D p = ARecv k \/ exists m, action_of Sync D p = ASend k m /\ is_pos_rule (m_rule m) = true)) /\
    ((forall k, (exists self p, procs c !! self = Some p /\ k ∈ cids_of (pr_provs p)) ->
                exists o, obj_in c o /\ k ∈ refs o) -> procs c = ∅).

Section RtProgress.
Variable D : tenv.
Variable F : list fundef.
Variable teq : sty -> sty -> Prop.
Hypothesis Hteq : teq_laws D teq.
Hypothesis HF : funs_typed D F teq.

Local Notation cfg_typed := (cfg_typed D F teq).
Local Notation msg_typed := (msg_typed D teq).
Local Notation proc_typed := (proc_typed D F teq).
Local Notation pol_of_ty := (pol_of_ty D).

Local Notation pol_unique := (pol_unique D).
Local Notation msg_pol := (msg_pol D teq).

Lemma neg_msg_refs k m : is_pos_rule (m_rule m) = false -> k ∈ refs (OMsg k m).
Proof. simpl. destruct (m_rule m); simpl; try discriminate; intros _; set_solver. Qed.
Lemma pos_msg_provides k m : is_pos_rule (m_rule m) = true -> provides (OMsg k m) = [k].
Proof. simpl. destruct (m_rule m); simpl; try discriminate; reflexivity. Qed.

Lemma provides_exists Δ p : proc_typed Δ p -> exists k, k ∈ cids_of (pr_provs p).
Proof.
  intros [s [rs [Hne [Hp _]]]]. destruct (pr_provs p) as [|n r]; [contradiction|].
  inversion Hp as [|? ? [c [t [Hc _]]] _]; subst. exists c. simpl. rewrite Hc. set_solver.
Qed.

Section Quiescent.
Variables (Δ : gmap cid sty) (c : config).
Hypothesis Hc : cfg_typed Δ c.
Hypothesis Ht : Topo c.
Hypothesis Hq : quiescent Async D F c.

(* (L) nobody is stuck for a local reason *)
Lemma blocked_in_recv self p : procs c !! self = Some p ->
  exists k st, action_of Async D p = ARecv k /\ recv_side D Δ p k /\
               chans c !! k = Some st /\ ch_buf st = None /\ ch_closed st = false.
Proof.
  intros Ep. pose proof Hc as [Hp Hm Hd Hf].
  pose proof (Hq (Run self)) as Hs. simpl in Hs. rewrite Ep in Hs.
  pose proof (typed_action D F teq Hteq HF Δ p (Hp _ _ Ep)) as Hv.
  pose proof (topo_closed_unused Async D c eq_refl Ht) as Hcl.
  remember (action_of Async D p) as a eqn:Ea. symmetry in Ea.
  destruct Hv as [k m Hmsg Hside|k Hk Hside Hrecv|Hint|Hdup].
  4: { exfalso. destruct (Hdup self (ns_fresh_free Δ c self p Hf Ep)) as [e [Δ' [He _]]].
       rewrite He in Hs. discriminate. }
  - (* a sender is never blocked *)
    exfalso. destruct (Hd k) as [st Hst]; [destruct Hmsg as [T [HT _]]; eauto|]. rewrite Hst in Hs.
    rewrite (Hcl self p k st Ep (or_intror (ex_intro _ m Ea)) Hst) in Hs.
    destruct (ch_buf st) as [m'|] eqn:Eb; [|discriminate].
    pose proof (Hm _ _ _ Hst Eb) as Hmsg'.
    destruct (msg_pol _ _ _ Hmsg) as [T [HT Hpol]]. destruct (msg_pol _ _ _ Hmsg') as [T' [HT' Hpol']].
    rewrite HT in HT'. injection HT' as <-.
    assert (Hin' : obj_in c (OMsg k m')) by (exists st; auto).
    destruct Hside as [[Hown Hpos]|[Hbody Hneg]].
    + rewrite Hpos in Hpol. destruct (is_pos_rule (m_rule m')) eqn:Epos'; [|exfalso; eapply pol_unique; eauto].
      assert (E : OProc self p = OMsg k m').
      { apply (topo_prov_unique c Ht _ _ k); auto; [apply own_chan_provides; auto|].
        rewrite pos_msg_provides by auto. set_solver. }
      discriminate.
    + rewrite Hneg in Hpol. destruct (is_pos_rule (m_rule m')) eqn:Epos'; [exfalso; eapply pol_unique; eauto|].
      assert (E : OProc self p = OMsg k m').
      { apply (topo_ref_unique c Ht _ _ k); auto. apply neg_msg_refs; auto. }
      discriminate.
  - destruct (Hd k Hk) as [st Hst]. rewrite Hst in Hs.
    destruct (ch_buf st) as [m|] eqn:Eb.
    + exfalso. destruct (Hrecv self m (ns_fresh_free Δ c self p Hf Ep) (Hm _ _ _ Hst Eb)) as [e [Δ' [He _]]].
      rewrite He in Hs. discriminate.
    + exists k, st. repeat split; auto. apply (Hcl self p k st Ep (or_introl Ea) Hst).
  - exfalso. destruct (Hint self (ns_fresh_free Δ c self p Hf Ep)) as [e [Δ' [He _]]].
    rewrite He in Hs. discriminate.
Qed.

(* somebody waits for the provider side of j to act *)
Definition needs (j : cid) : Prop :=
  (exists self p T, procs c !! self = Some p /\ action_of Async D p = ARecv j /\
                    Δ !! j = Some T /\ pol_of_ty T Pos) \/
  (exists st m, chans c !! j = Some st /\ ch_buf st = Some m /\ is_pos_rule (m_rule m) = false).

Lemma needs_ref j : needs j -> is_Some (chans c !! j) /\ exists o, obj_in c o /\ j ∈ refs o.
Proof.
  intros [[self [p [T [Ep [Ea [HT Hpos]]]]]]|[st [m [Hst [Eb Hneg]]]]].
  - destruct (blocked_in_recv self p Ep) as [k [st [Ea' [[T' [HT' Hside]] [Hst _]]]]].
    rewrite Ea in Ea'. injection Ea' as <-. rewrite HT in HT'. injection HT' as <-.
    split; [eauto|]. exists (OProc self p). split; auto.
    destruct Hside as [[_ Hn]|[Hb _]]; [exfalso; eapply pol_unique; eauto|exact Hb].
  - split; [eauto|]. exists (OMsg j m). split; [exists st; auto|apply neg_msg_refs; auto].
Qed.

(* descending: the provider side of a channel that somebody waits for always can act *)
Lemma no_needs : forall j, ~ needs j.
Proof.
  destruct (topo_rank c Ht) as [rk [M [HM Hrk]]].
  assert (H : forall n j, (M - rk j < n)%nat -> ~ needs j).
  { induction n as [|n IH]; intros j Hn Hneeds; [lia|].
    destruct (needs_ref j Hneeds) as [Hdom [o [Ho Hj]]].
    pose proof (HM j Hdom) as HjM.
    destruct (topo_ref_prov c Ht o j Ho Hj) as [o' [Ho' Hprov]].
    destruct o' as [s' q|k' m'].
    - (* the provider is a process: it is blocked in a receive *)
      simpl in Ho'. destruct (blocked_in_recv s' q Ho') as [w [stw [Eaw [[Tw [HTw Hside]] [Hstw [Ebw _]]]]]].
      destruct Hside as [[Hown Hneg]|[Hbody Hpos]].
      + (* on its own channel j *)
        assert (j = w) by (eapply own_chan_only; eauto). subst w.
        destruct Hneeds as [[self [p [T [Ep [Ea [HT Hpos]]]]]]|[st [m [Hst [Eb _]]]]].
        * rewrite HT in HTw. injection HTw as <-. eapply pol_unique; eauto.
        * rewrite Hst in Hstw. injection Hstw as <-. congruence.
      + (* on a client channel, deeper in the forest *)
        apply (IH w).
        * assert (rk j < rk w)%nat by (apply (Hrk (OProc s' q)); auto).
          assert (rk w <= M)%nat by (apply HM; eauto). lia.
        * left. exists s', q, Tw. auto.
    - (* the provider is a message *)
      destruct Ho' as [st' [Hst' Eb']].
      destruct (is_pos_rule (m_rule m')) eqn:Epos.
      + rewrite pos_msg_provides in Hprov by auto. apply elem_of_list_singleton in Hprov. subst k'.
        destruct Hneeds as [[self [p [T [Ep [Ea [HT Hpos]]]]]]|[st [m [Hst [Eb Hneg]]]]].
        * destruct (blocked_in_recv self p Ep) as [k [st [Ea' [_ [Hst [Eb _]]]]]].
          rewrite Ea in Ea'. injection Ea' as <-. rewrite Hst in Hst'. injection Hst' as <-. congruence.
        * rewrite Hst in Hst'. injection Hst' as <-. rewrite Eb in Eb'. injection Eb' as <-. congruence.
      + apply (IH k').
        * assert (rk j < rk k')%nat.
          { apply (Hrk (OMsg k' m')); [exists st'; auto|auto|apply neg_msg_refs; auto]. }
          assert (rk k' <= M)%nat by (apply HM; eauto). lia.
        * right. exists st', m'. auto. }
  intros j. apply (H (S (M - rk j))). lia.
Qed.

(* (1) every remaining process is poised on its own, negative, provider channel *)
Lemma blocked_on_own self p : procs c !! self = Some p ->
  exists k st T, action_of Async D p = ARecv k /\ own_chan p k /\ Δ !! k = Some T /\ pol_of_ty T Neg /\
                 chans c !! k = Some st /\ ch_buf st = None /\ ch_closed st = false.
Proof.
  intros Ep. destruct (blocked_in_recv self p Ep) as [k [st [Ea [[T [HT Hside]] [Hst [Eb Hcl]]]]]].
  destruct Hside as [[Hown Hneg]|[Hbody Hpos]].
  - exists k, st, T. repeat split; auto.
  - exfalso. apply (no_needs k). left. exists self, p, T. auto.
Qed.

(* (2) every remaining message is positive *)
Lemma buffered_positive k st m : chans c !! k = Some st -> ch_buf st = Some m -> is_pos_rule (m_rule m) = true.
Proof.
  intros Hst Eb. destruct (is_pos_rule (m_rule m)) eqn:E; auto. exfalso.
  apply (no_needs k). right. exists st, m. auto.
Qed.

(* (3) ascending: a remaining object has an ancestor that nobody refers to *)
Lemma no_alive : (forall k, alive c k -> exists o, obj_in c o /\ k ∈ refs o) -> forall k, ~ alive c k.
Proof.
  intros Hroots. destruct (topo_rank c Ht) as [rk [M [HM Hrk]]].
  assert (H : forall n k, (rk k < n)%nat -> ~ alive c k).
  { induction n as [|n IH]; intros k Hn Hal; [lia|].
    destruct (Hroots k Hal) as [o [Ho Hk]].
    destruct o as [s q|j m].
    - simpl in Ho. destruct (provides_exists Δ q (ct_procs _ _ _ _ _ Hc _ _ Ho)) as [kq Hkq].
      apply (IH kq).
      + assert (rk kq < rk k)%nat by (apply (Hrk (OProc s q)); auto). lia.
      + left. exists s, q. auto.
    - destruct Ho as [st [Hst Eb]].
      pose proof (buffered_positive j st m Hst Eb) as Hpos.
      apply (IH j).
      + assert (rk j < rk k)%nat.
        { apply (Hrk (OMsg j m)); [exists st; auto| |auto]. rewrite pos_msg_provides by auto. set_solver. }
        lia.
      + right. exists st, m. split; auto. split; auto. intros E. rewrite E in Hk. set_solver. }
  intros k. apply (H (S (rk k))). lia.
Qed.

End Quiescent.

Theorem progress_partial Δ c :
  cfg_typed Δ c -> Topo c -> quiescent Async D F c ->
  (forall self p, procs c !! self = Some p ->
     exists k st T, action_of Async D p = ARecv k /\ own_chan p k /\ Δ !! k = Some T /\ pol_of_ty T Neg /\
                    chans c !! k = Some st /\ ch_buf st = None /\ ch_closed st = false) /\
  (forall k st m, chans c !! k = Some st -> ch_buf st = Some m -> is_pos_rule (m_rule m) = true) /\
  ((forall k, alive c k -> exists o, obj_in c o /\ k ∈ refs o) -> procs c = ∅).
Proof.
  intros Hc Ht Hq. split; [|split].
  - intros self p Ep. eapply blocked_on_own; eauto.
  - intros k st m. eapply buffered_positive; eauto.
  - intros Hroots. apply map_empty. intros self.
    destruct (procs c !! self) as [p|] eqn:Ep; auto. exfalso.
    destruct (provides_exists Δ p (ct_procs _ _ _ _ _ Hc _ _ Ep)) as [k Hk].
    apply (no_alive Δ c Hc Ht Hq Hroots k). left. exists self, p. auto.
Qed.

(* ------------------------------------------------------------------ synchronous mode *)
Section QuiescentSync.
Variables (Δ : gmap cid sty) (c : config).
Hypothesis Hc : cfg_typed Δ c.
Hypothesis Ht : Topo c.
Hypothesis Hbe : buffers_empty c.
Hypothesis Hq : quiescent Sync D F c.

Lemma no_msg_objects k m : ~ obj_in c (OMsg k m).
Proof. intros [st [Hst Eb]]. rewrite (Hbe k st Hst) in Eb. discriminate. Qed.

(* every remaining process is blocked in a send or a receive on an open channel *)
Lemma sync_blocked self p : procs c !! self = Some p ->
  (exists k m, action_of Sync D p = ASend k m /\ msg_typed Δ k m /\ send_side p k m) \/
  (exists k, action_of Sync D p = ARecv k /\ recv_side D Δ p k /\
             forall r m, ns_free Δ r p -> msg_typed Δ k m -> exists e, on_message r p m = EOk e).
Proof.
  intros Ep. pose proof Hc as [Hp Hm Hd Hf].
  pose proof (Hq (Run self)) as Hs. simpl in Hs. rewrite Ep in Hs.
  pose proof (typed_action_md D F teq Hteq HF Sync Δ p eq_refl (Hp _ _ Ep)) as Hv.
  remember (action_of Sync D p) as a eqn:Ea. symmetry in Ea.
  destruct Hv as [k m Hmsg Hside|k Hk Hside Hrecv|Hint|Hdup].
  4: { exfalso. destruct (Hdup self (ns_fresh_free Δ c self p Hf Ep)) as [e [Δ' [He _]]].
       rewrite He in Hs. discriminate. }
  - left. eauto.
  - right. exists k. split; auto. split; auto. intros r m Hfr Hmsg.
    destruct (Hrecv r m Hfr Hmsg) as [e [Δ' [He _]]]. eauto.
  - exfalso. destruct (Hint self (ns_fresh_free Δ c self p Hf Ep)) as [e [Δ' [He _]]].
    rewrite (internal_effect_polarized F Sync self p eq_refl) in Hs. rewrite He in Hs. discriminate.
Qed.

Lemma acts_open self p k : procs c !! self = Some p ->
  (action_of Sync D p = ARecv k \/ exists m, action_of Sync D p = ASend k m) ->
  exists st, chans c !! k = Some st /\ ch_closed st = false.
Proof.
  intros Ep Ha. pose proof Hc as [Hp Hm Hd Hf].
  assert (Hk : is_Some (Δ !! k)).
  { pose proof (typed_action_md D F teq Hteq HF Sync Δ p eq_refl (Hp _ _ Ep)) as Hv.
    destruct Ha as [Ha|[m Ha]]; rewrite Ha in Hv; inversion Hv; subst; auto.
    match goal with H : msg_typed _ _ _ |- _ => destruct H as [T [HT _]]; eauto end. }
  destruct (Hd k Hk) as [st Hst]. exists st. split; auto.
  eapply (topo_closed_unused Sync D c eq_refl Ht); eauto.
Qed.

(* a sender and a receiver on the same open channel can meet *)
Lemma rendezvous_enabled s r ps pr k m :
  s <> r -> procs c !! s = Some ps -> procs c !! r = Some pr ->
  action_of Sync D ps = ASend k m -> action_of Sync D pr = ARecv k ->
  msg_typed Δ k m -> (forall r' m', ns_free Δ r' pr -> msg_typed Δ k m' -> exists e, on_message r' pr m' = EOk e) -> False.
Proof.
  intros Hne Eps Epr Has Har Hmsg Hrecv.
  destruct (acts_open r pr k Epr (or_introl Har)) as [st [Hst Hcl]].
  pose proof (Hq (Rendezvous s r)) as Hs. simpl in Hs.
  rewrite bool_decide_eq_false_2 in Hs by auto. rewrite Eps, Epr, Has, Har in Hs.
  rewrite bool_decide_eq_true_2 in Hs by auto. rewrite Hst, Hcl in Hs.
  destruct (Hrecv r m (ns_fresh_free Δ c r pr (ct_fresh _ _ _ _ _ Hc) Epr) Hmsg) as [e He]. rewrite He in Hs. discriminate.
Qed.

(* somebody acts on j as its client *)
Definition needs_sync (j : cid) : Prop :=
  exists self p, procs c !! self = Some p /\ j ∈ form_chans (pr_body0 p) /\
    ((exists T, action_of Sync D p = ARecv j /\ Δ !! j = Some T /\ pol_of_ty T Pos /\
                forall r m, ns_free Δ r p -> msg_typed Δ j m -> exists e, on_message r p m = EOk e) \/
     (exists m, action_of Sync D p = ASend j m /\ msg_typed Δ j m /\ is_pos_rule (m_rule m) = false)).

Lemma no_needs_sync : forall j, ~ needs_sync j.
Proof.
  destruct (topo_rank c Ht) as [rk [M [HM Hrk]]].
  assert (H : forall n j, (M - rk j < n)%nat -> ~ needs_sync j).
  { induction n as [|n IH]; intros j Hn [self [p [Ep [Hj Hact]]]]; [lia|].
    assert (Hdom : is_Some (chans c !! j)).
    { destruct Hact as [[T [Ha _]]|[m [Ha _]]].
      - destruct (acts_open self p j Ep (or_introl Ha)) as [st [Hst _]]. eauto.
      - destruct (acts_open self p j Ep (or_intror (ex_intro _ m Ha))) as [st [Hst _]]. eauto. }
    pose proof (HM j Hdom) as HjM.
    destruct (topo_ref_prov c Ht (OProc self p) j Ep Hj) as [o' [Ho' Hprov]].
    destruct o' as [s' q|k' m']; [|exfalso; eapply no_msg_objects; eauto].
    simpl in Ho'.
    assert (Hne : s' <> self).
    { intros ->. rewrite Ep in Ho'. injection Ho' as <-.
      assert (rk j < rk j)%nat by (apply (Hrk (OProc self p)); auto). lia. }
    destruct (sync_blocked s' q Ho') as [[w [mq [Eaq [Hmq Hside]]]]|[w [Eaq [[Tw [HTw Hside]] Hrq]]]].
    - (* the provider sends *)
      destruct Hside as [[Hown Hpos]|[Hbody Hneg]].
      + assert (j = w) by (eapply own_chan_only; eauto). subst w.
        destruct Hact as [[T [Ha [HT [Hpol Hrp]]]]|[m [Ha [Hm Hneg]]]].
        * eapply (rendezvous_enabled s' self q p j mq); eauto.
        * destruct (msg_pol _ _ _ Hm) as [T1 [HT1 Hp1]]. destruct (msg_pol _ _ _ Hmq) as [T2 [HT2 Hp2]].
          rewrite HT1 in HT2. injection HT2 as <-. rewrite Hneg in Hp1. rewrite Hpos in Hp2.
          eapply pol_unique; eauto.
      + apply (IH w).
        * assert (rk j < rk w)%nat by (apply (Hrk (OProc s' q)); auto).
          assert (rk w <= M)%nat.
          { apply HM. destruct (acts_open s' q w Ho' (or_intror (ex_intro _ mq Eaq))) as [st [Hst _]]. eauto. }
          lia.
        * exists s', q. split; auto. split; auto. right. exists mq. auto.
    - (* the provider receives *)
      destruct Hside as [[Hown Hneg]|[Hbody Hpos]].
      + assert (j = w) by (eapply own_chan_only; eauto). subst w.
        destruct Hact as [[T [Ha [HT [Hpol Hrp]]]]|[m [Ha [Hm Hnegm]]]].
        * rewrite HT in HTw. injection HTw as <-. eapply pol_unique; eauto.
        * eapply (rendezvous_enabled self s' p q j m); eauto.
      + apply (IH w).
        * assert (rk j < rk w)%nat by (apply (Hrk (OProc s' q)); auto).
          assert (rk w <= M)%nat.
          { apply HM. destruct (acts_open s' q w Ho' (or_introl Eaq)) as [st [Hst _]]. eauto. }
          lia.
        * exists s', q. split; auto. split; auto. left. exists Tw. auto. }
  intros j. apply (H (S (M - rk j))). lia.
Qed.

Lemma sync_on_own self p : procs c !! self = Some p ->
  exists k, own_chan p k /\
    (action_of Sync D p = ARecv k \/ exists m, action_of Sync D p = ASend k m /\ is_pos_rule (m_rule m) = true).
Proof.
  intros Ep. destruct (sync_blocked self p Ep) as [[k [m [Ea [Hm Hside]]]]|[k [Ea [[T [HT Hside]] Hr]]]].
  - destruct Hside as [[Hown Hpos]|[Hbody Hneg]]; [exists k; split; auto; right; eauto|].
    exfalso. apply (no_needs_sync k). exists self, p. split; auto. split; auto. right. eauto.
  - destruct Hside as [[Hown Hneg]|[Hbody Hpos]]; [exists k; split; auto|].
    exfalso. apply (no_needs_sync k). exists self, p. split; auto. split; auto. left. exists T. auto.
Qed.

Lemma no_alive_sync :
  (forall k, (exists self p, procs c !! self = Some p /\ k ∈ cids_of (pr_provs p)) -> exists o, obj_in c o /\ k ∈ refs o) ->
  forall k, ~ exists self p, procs c !! self = Some p /\ k ∈ cids_of (pr_provs p).
Proof.
  intros Hroots. destruct (topo_rank c Ht) as [rk [M [HM Hrk]]].
  assert (H : forall n k, (rk k < n)%nat -> ~ exists self p, procs c !! self = Some p /\ k ∈ cids_of (pr_provs p)).
  { induction n as [|n IH]; intros k Hn Hal; [lia|].
    destruct (Hroots k Hal) as [o [Ho Hk]].
    destruct o as [s q|j m]; [|exfalso; eapply no_msg_objects; eauto].
    simpl in Ho. destruct (provides_exists Δ q (ct_procs _ _ _ _ _ Hc _ _ Ho)) as [kq Hkq].
    apply (IH kq).
    - assert (rk kq < rk k)%nat by (apply (Hrk (OProc s q)); auto). lia.
    - exists s, q. auto. }
  intros k. apply (H (S (rk k))). lia.
Qed.

End QuiescentSync.

Theorem progress_sync_partial : progress_sync_statement D F teq.
Proof.
  intros Δ c Hc Ht Hbe Hq. split.
  - intros self p Ep. eapply sync_on_own; eauto.
  - intros Hroots. apply map_empty. intros self.
    destruct (procs c !! self) as [p|] eqn:Ep; auto. exfalso.
    destruct (provides_exists Δ p (ct_procs _ _ _ _ _ Hc _ _ Ep)) as [k Hk].
    apply (no_alive_sync Δ c Hc Ht Hbe Hroots k). exists self, p. auto.
Qed.

End RtProgress.
