(* proofs/TypingCompleteTop.v — C07, completeness at the level of programs:
   ProgOK p -> exists p', typecheck p = Accept p'. *)
Require Import Grits.Base Grits.ModeDefs Grits.Modes Grits.STypes Grits.Forms Grits.Subst Grits.Infer
               Grits.TcDeps Grits.Expand Grits.Tc Grits.TcTop Grits.spec.Typing Grits.proofs.TcLemmas
               Grits.proofs.TcUnfold Grits.proofs.UseMap Grits.proofs.TypingSound Grits.proofs.TypingSoundTop
               Grits.proofs.TypingComplete.

Ltac rwc := repeat (
  cbn [tbind lift guard negb orb andb add_missing_opt];
  match goal with
  | H : ?l = _ |- context [?l] => rewrite H
  end).

(* ---------------------------------------------------------------- elaboration of names *)
Lemma amn_complete D ns ns' : Forall2 (elab_name D) ns ns' ->
  forallb has_ty ns = true /\ add_missing_names D ns = TOk ns'.
Proof.
  induction 1 as [|n n' r r' [t [t' [Nt [AM ->]]]] _ [IH1 IH2]]; cbn [forallb add_missing_names]; auto.
  unfold has_ty at 1. rewrite Nt, IH1, IH2. cbn. rewrite AM. auto.
Qed.

Lemma types_of_wf_conv D ns : Forall (typed_name_ok D) ns -> forallb (check_wf D) (types_of ns) = true.
Proof.
  intros F. apply forallb_forall. intros t Ht. unfold types_of in Ht. apply in_flat_map in Ht.
  destruct Ht as [n [Hn Ht]]. rewrite Forall_forall in F. destruct (F _ Hn) as [t0 [Nt Wt]].
  rewrite Nt in Ht. destruct Ht as [<-|[]]. exact Wt.
Qed.

Lemma indep_all_names D (ps : list name) h : Forall (typed_name_ok D) ps ->
  (forall p tp, In p ps -> nty p = Some tp -> down (mode_of tp) (mode_of h) = true) ->
  indep_all (map nty ps) (Some h) = TOk tt.
Proof.
  induction ps as [|p r IH]; intros F G; cbn [map indep_all]; auto.
  inversion F as [|p0 r0 [tp [Np Wp]] Fr]; subst. rewrite Np.
  rewrite (proj2 (indep_one_sound tp h)); [|apply (G p); cbn; auto]. cbn [tbind].
  apply IH; auto. intros q tq Hq. apply G. now right.
Qed.

(* ---------------------------------------------------------------- functions *)
Lemma prelim_funs_complete D : forall fs fs' seen, Forall2 (elab_fun D) fs fs' -> Forall (fun_sig_ok D) fs' ->
  NoDup (map fn_name fs) -> (forall x, In x (map fn_name fs) -> ~ In x seen) ->
  prelim_funs D fs seen = TOk fs'.
Proof.
  induction fs as [|f r IH]; intros fs' seen F2 FS ND Dj; inversion F2 as [|f0 f' r0 r' EF F2r]; subst.
  - reflexivity.
  - inversion FS as [|f1 r1 [NDp [Tp [t1 [Ft1 [Wt1 In1]]]]] FSr]; subst.
    destruct EF as [t [t' [ps' [Ft [AM [EN ->]]]]]]. cbn in *. inversion Ft1; subst t1.
    inversion ND as [|n0 l0 Nn Nr]; subst.
    destruct (amn_complete _ _ _ EN) as [HT AN].
    assert (M : str_mem (fn_name f) seen = false) by (apply str_mem_false, Dj; now left).
    assert (U : all_names_unique (fn_params f) = true).
    { unfold all_names_unique. apply negb_true_iff, has_dup_NoDup. now rewrite <- (elab_names_idents _ _ _ EN). }
    assert (ST : sanity_types D ([t'] ++ types_of ps') = true).
    { cbn. rewrite Wt1. cbn. now apply types_of_wf_conv. }
    pose proof (indep_all_names _ _ _ Tp In1) as IA.
    assert (IHr : prelim_funs D r (fn_name f :: seen) = TOk r').
    { apply IH; auto. intros x Hx [<-|Hs]; [tauto|]. apply (Dj x); cbn; auto. }
    cbn [prelim_funs]. fold has_ty. rwc. reflexivity.
Qed.

Lemma make_sigma_complete D (HD : wf_env D) : forall fs Sg, Forall2 (sig_of D) fs Sg -> make_sigma D fs = TOk Sg.
Proof.
  induction 1 as [|f s r r' [E1 [E2 [t [h [Ft [Hh E3]]]]]] _ IH]; cbn [make_sigma]; auto.
  rewrite Ft. cbn [unfold_opt]. rewrite (proj2 (unfold_spec _ _ _) Hh). cbn [lift tbind]. rewrite IH. cbn [tbind].
  destruct s. cbn in *. subst. reflexivity.
Qed.

(* ---------------------------------------------------------------- processes *)
Lemma prelim_procs_types_complete D : forall ps ps' A P, Forall2 (elab_proc D) ps ps' -> Forall (proc_sig_ok D) ps' ->
  NoDup (uses_of ps') -> (forall k, In k (uses_of ps') -> avail A P k) ->
  exists A' P', prelim_procs_types D ps A P = TOk (ps', A') /\ uses_ok A P A' P' (uses_of ps') /\
                (NoDup (map fst A) -> NoDup (map fst A')).
Proof.
  induction ps as [|p r IH]; intros ps' A P F2 PS ND Av; inversion F2 as [|p0 p' r0 r' EP F2r]; subst.
  - exists A, P. split; [reflexivity|]. split; [apply uses_ok_nil|auto].
  - inversion PS as [|p1 r1 [t1 [Pt1 [Wt1 C1]]] PSr]; subst.
    destruct EP as [t [t' [Pt [AM ->]]]]. cbn in Pt1. inversion Pt1; subst t1.
    unfold uses_of in ND, Av. cbn [flat_map] in ND, Av. fold (uses_of r') in ND, Av.
    change (proc_uses {| pr_body := pr_body p; pr_providers := pr_providers p; pr_type := Some t' |})
      with (names_first_only (free_names (pr_body p)) (pr_providers p)) in ND, Av.
    apply nodup_app_inv in ND. destruct ND as [N1 [N2 D12]].
    destruct (use_free_names_complete _ A P N1) as [A1 [P1 U1]].
    { intros k Hk. apply Av. apply in_app_iff. now left. }
    pose proof (use_free_names_sound _ _ _ _ _ U1) as UO1.
    destruct (IH r' A1 P1 F2r PSr N2) as [A2 [P2 [E2 [UO2 NK]]]].
    { intros k Hk. destruct UO1 as [_ [_ [_ [c1 _]]]].
      assert (NI : ~ In k (map ident (names_first_only (free_names (pr_body p)) (pr_providers p))))
        by (intros Hi; exact (D12 _ Hi Hk)).
      destruct (c1 _ NI) as [Ea Ep]. unfold avail. rewrite Ea, Ep. apply Av. apply in_app_iff. now right. }
    exists A2, P2. split; [|split].
    + cbn [prelim_procs_types]. rewrite Pt. cbn [guard tbind add_missing_opt]. rewrite AM. cbn [lift tbind].
      assert (ST : sanity_types D [t'] = true) by (cbn; now rewrite Wt1).
      rewrite ST. cbn [guard tbind].
      assert (CT : negb ((1 <? length (pr_providers p))%nat && negb (contr (mode_of t'))) = true).
      { destruct (1 <? length (pr_providers p))%nat eqn:L; auto. apply Nat.ltb_lt in L.
        cbn in C1. rewrite (C1 L). reflexivity. }
      rewrite CT. cbn [guard tbind]. rewrite U1. cbn [tbind]. rewrite E2. reflexivity.
    + unfold uses_of. cbn [flat_map]. eapply uses_ok_app; eauto.
    + intros NA. apply NK. eapply use_free_names_nodup; eauto.
Qed.

Lemma elab_procs_uses D ps ps' : Forall2 (elab_proc D) ps ps' -> uses_of ps' = uses_of ps.
Proof.
  induction 1 as [|p p' r r' E _ IH]; auto.
  destruct E as [t [t' [_ [_ ->]]]]. unfold uses_of in *. cbn [flat_map]. now rewrite IH.
Qed.

Lemma Forall2_In_l {A B} (R : A -> B -> Prop) l1 l2 x : Forall2 R l1 l2 -> In x l1 -> exists y, In y l2 /\ R x y.
Proof.
  induction 1 as [|a b r r' Rab _ IH]; cbn; [tauto|]. intros [<-|H]; [eauto|].
  destruct (IH H) as [y [Hy Ry]]. eauto.
Qed.

Lemma prelim_procs_complete D ps0 as0 ps assumed :
  Forall2 (elab_proc D) ps0 ps -> Forall2 (elab_name D) as0 assumed -> procs_prelim_ok D ps assumed ->
  prelim_procs D ps0 as0 = TOk (ps, assumed).
Proof.
  intros EP EN [PS NA TA NP DJ U1 U2 U3 AC PN].
  pose proof (elab_names_idents _ _ _ EN) as EI.
  pose proof (elab_procs_providers _ _ _ EP) as EPr.
  destruct (amn_complete _ _ _ EN) as [HT AN].
  assert (A0 : map (fun n : name => (ident n, true)) assumed = map (fun x => (x, true)) (map ident assumed))
    by (now rewrite map_map).
  destruct (prelim_procs_types_complete D ps0 ps (map (fun n : name => (ident n, true)) assumed)
              (map (fun x => (x, true)) (all_providers ps0)) EP PS U1) as [A' [P' [E [UO NK]]]].
  { intros k Hk. rewrite A0. destruct (in_dec string_dec k (map ident assumed)) as [I|I].
    - left. now apply alookup_const_in.
    - right. split; [now apply alookup_const_notin|]. apply alookup_const_in.
      rewrite <- EPr. destruct (U2 _ Hk); tauto. }
  unfold prelim_procs.
  assert (G1 : all_names_unique as0 = true).
  { unfold all_names_unique. apply negb_true_iff, has_dup_NoDup. now rewrite <- EI. }
  assert (G2 : sanity_types D (types_of assumed) = true) by now apply types_of_wf_conv.
  assert (G3 : providers_unique ps0 [] = true).
  { apply providers_unique_spec. rewrite <- EPr. split; auto. }
  assert (G4 : negb (existsb (fun x => str_mem x (map ident as0)) (flat_map (fun p => map ident (pr_providers p)) ps0)) = true).
  { apply negb_true_iff, existsb_false_forall. intros x Hx. apply str_mem_false. rewrite <- EI. apply DJ.
    rewrite EPr. exact Hx. }
  assert (G5 : negb (existsb snd A') = true).
  { apply negb_true_iff, existsb_false_forall. intros [k v] Hkv. cbn. destruct v; auto. exfalso.
    assert (NK0 : NoDup (map fst (map (fun n : name => (ident n, true)) assumed))).
    { rewrite map_map. cbn. exact NA. }
    pose proof (In_alookup _ _ _ (NK NK0) Hkv) as L.
    destruct UO as [_ [_ [ub [uc _]]]].
    destruct (in_dec string_dec k (uses_of ps)) as [I|I].
    - apply (ub _ I). now left.
    - destruct (uc _ I) as [Ea _]. rewrite L, A0 in Ea.
      destruct (in_dec string_dec k (map ident assumed)) as [J|J].
      + apply I, U3, J.
      + rewrite (alookup_const_notin _ _ J) in Ea. discriminate. }
  assert (G6 : procs_acyclic ps0 = true).
  { rewrite procs_acyclic_eq, <- (deps_acyclic_shape _ _ (elab_procs_shape _ _ _ EP)). exact AC. }
  assert (G7 : providers_not_self ps0 = true).
  { apply providers_not_self_spec. intros p0 n Hp0 Hn.
    destruct (Forall2_In_l _ _ _ _ (elab_procs_shape _ _ _ EP) Hp0) as [p1 [Hp1 [_ Ep]]]. rewrite <- Ep in Hn. eapply PN; eauto. }
  fold has_ty. unfold all_providers in E. rwc. reflexivity.
Qed.

Section WithTeq.
Variable teq : tenv -> sty -> sty -> Prop.
Hypothesis equal_complete : forall D, sanity_typedefs D = Ok true -> forall s t,
  check_wf D s = true -> check_wf D t = true -> teq D s t -> equal_type D s t = Ok true.

Lemma FunOK_sig D Sg f : FunOK teq D Sg f -> fun_sig_ok D f.
Proof. intros [N T [t [Ft [Wt [I _]]]]]. repeat split; auto. exists t. auto. Qed.
Lemma ProcOK_sig D Sg all assumed p : ProcOK teq D Sg all assumed p -> proc_sig_ok D p.
Proof. intros [[t [Pt [Wt [C _]]]]]. exists t. auto. Qed.

Lemma tc_funs_complete D Sg (SD : sanity_typedefs D = Ok true) (HSg : wf_sigma D Sg) : forall fs,
  Forall (FunOK teq D Sg) fs -> exists fs', tc_funs D Sg fs = TOk fs'.
Proof.
  pose proof (sanity_wf_env _ SD) as HD.
  induction fs as [|f r IH]; intros F; cbn [tc_funs]; [eauto|].
  inversion F as [|f0 r0 [N T [t [Ft [Wt [I Ty]]]]] Fr]; subst.
  destruct (IH Fr) as [r' Er].
  destruct (tc_form_complete teq D Sg HD (equal_complete D SD) HSg _ _ _ _ Ty (make_ctx_wf _ _ T) Wt) as [b Eb].
  rewrite Ft. unfold ctx_of_names in Eb. unfold make_ctx. rewrite Eb. cbn [tbind]. rewrite Er. cbn [tbind]. eauto.
Qed.

Lemma tc_procs_complete D Sg (SD : sanity_typedefs D = Ok true) (HSg : wf_sigma D Sg) all assumed :
  Forall (proc_sig_ok D) all -> Forall (typed_name_ok D) assumed ->
  forall ps, Forall (ProcOK teq D Sg all assumed) ps -> exists ps', tc_procs D Sg all assumed ps = TOk ps'.
Proof.
  intros PA TA. pose proof (sanity_wf_env _ SD) as HD.
  induction ps as [|p r IH]; intros F; cbn [tc_procs]; [eauto|].
  inversion F as [|p0 r0 [[t [Pt [Wt [C Ty]]]]] Fr]; subst.
  destruct (IH Fr) as [r' Er].
  assert (Wc : wf_ctx D (proc_ctx all assumed p)).
  { change (proc_ctx all assumed p) with (make_ctx (free_name_types p all assumed)).
    apply make_ctx_wf. now apply free_name_types_typed. }
  destruct (tc_form_complete teq D Sg HD (equal_complete D SD) HSg _ _ _ _ Ty Wc Wt) as [b Eb].
  rewrite Pt. change (make_ctx (free_name_types p all assumed)) with (proc_ctx all assumed p).
  rewrite Eb. cbn [tbind]. rewrite Er. cbn [tbind]. eauto.
Qed.

Theorem tc_program_complete p : ProgOK teq p -> exists p', tc_program p = TOk p'.
Proof.
  intros [pe [[ET [EF [EP EA]]] [SD NF [Sg [SO [FO PO]]] NA TA NP DJ U1 U2 U3 AC PN]]].
  rewrite ET in *. pose proof (sanity_wf_env _ SD) as HD.
  assert (FS : Forall (fun_sig_ok (p_types p)) (p_funs pe)).
  { rewrite Forall_forall in *. intros f Hf. eapply FunOK_sig; eauto. }
  assert (PS : Forall (proc_sig_ok (p_types p)) (p_procs pe)).
  { rewrite Forall_forall in *. intros q Hq. eapply ProcOK_sig; eauto. }
  pose proof (sigma_wf _ HD _ _ FS SO) as WS.
  assert (E1 : prelim_funs (p_types p) (p_funs p) [] = TOk (p_funs pe)).
  { apply prelim_funs_complete; auto. now rewrite <- (elab_funs_names _ _ _ EF). }
  assert (E2 : prelim_procs (p_types p) (p_procs p) (p_assumed p) = TOk (p_procs pe, p_assumed pe)).
  { apply prelim_procs_complete; auto. constructor; auto. }
  pose proof (make_sigma_complete _ HD _ _ SO) as E3.
  destruct (tc_funs_complete _ _ SD WS _ FO) as [fs' E4].
  destruct (tc_procs_complete _ _ SD WS _ _ PS TA _ PO) as [ps' E5].
  unfold tc_program. rewrite SD. cbn [lift tbind guard]. rewrite E1. cbn [tbind]. rewrite E2. cbn [tbind].
  rewrite E3. cbn [tbind]. rewrite E4. cbn [tbind]. rewrite E5. cbn [tbind]. eauto.
Qed.

Theorem tc_complete p : ProgOK teq p -> exists p', typecheck p = Accept p'.
Proof.
  intros H. destruct (tc_program_complete _ H) as [p' E]. exists p'. unfold typecheck. now rewrite E.
Qed.
End WithTeq.
