(* LRCertInst.v — the certificate generated for the CURRENT tables passes the checker.
   Kept in its own file: recompiled only when gen/LRTables.v or gen/LRCert.v change. *)
Require Import Grits.Base Grits.Tokens Grits.gen.LRTables Grits.gen.LRCert Grits.LR Grits.proofs.LRCheck.
Local Open Scope Z_scope.

(* cost bound of one shift: a shift raises Phi by at most 2 * maxW *)
Definition certC : Z := 2 * maxW + 1.

Lemma cert_ok : check_cert tE wIn wTop certC = true.
Proof. vm_compute. reflexivity. Qed.

(* the constants of the bound are small: Expand.lr_fuel n = 64 * (n + 2) is above C * n + Phi [0] + 1 *)
Lemma cert_small : (certC <=? 64) && (nthZ wTop 0 + 1 <=? 128) = true.
Proof. vm_compute. reflexivity. Qed.
