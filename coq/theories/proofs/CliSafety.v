(* CliSafety.v — the last conjunct of C18's exit_zero_iff ("the run did not die") discharged by type safety (C01)
   for closed, checked programs run in the asynchronous polarized mode (the CLI's default). *)
From stdpp Require Import gmap strings.
Require Import Grits.Base Grits.STypes Grits.Forms Grits.Expand Grits.Tc Grits.TcTop Grits.Runtime Grits.Cli
               Grits.spec.Topo Grits.proofs.RtSafety Grits.proofs.RtTheorems Grits.proofs.RtTcSyn Grits.proofs.RtTheoremsTc Grits.proofs.RtTheoremsFinal Grits.proofs.CliProofs.

Lemma cli_checked_async_exits_zero pick fuel f s p p' :
  parse_string s = POk p -> typecheck_on f = true -> typecheck p = Accept p' ->
  run_mode f = Some Async ->
  in_fragment p' ->
  topo_runs p' ->
  co_exit (cli pick fuel f (Some s)) = 0 /\ co_trace (cli pick fuel f (Some s)) = false /\ co_diags (cli pick fuel f (Some s)) = 0.
Proof.
  intros Hp Ht Hc Hm Hf Htopo. unfold cli. rewrite Hp, Ht, Hc.
  destruct (execute_on f); [|cbn; auto].
  rewrite Hm. unfold cli_run.
  pose proof (safety_parsed_partial s p p' Async Hp Hc Hf Htopo eq_refl fuel pick) as Hsafe.
  destruct (exec_run fuel pick Async (p_types p') (p_funs p') (init_config p')) as [c|c who e|c] eqn:E; cbn; auto.
  exfalso. exact (Hsafe c who e eq_refl).
Qed.

(* the same for whichever mode the flags select (--sync is the non-polarized mode), by C01's theorem for the three modes *)
Lemma cli_checked_exits_zero pick fuel f s p p' md :
  parse_string s = POk p -> typecheck_on f = true -> typecheck p = Accept p' ->
  run_mode f = Some md ->
  in_fragment p' ->
  (forall c, RtSafety.reachable (p_types p') (p_funs p') md (init_config p') c -> Topo c) ->
  co_exit (cli pick fuel f (Some s)) = 0 /\ co_trace (cli pick fuel f (Some s)) = false /\ co_diags (cli pick fuel f (Some s)) = 0.
Proof.
  intros Hp Ht Hc Hm Hf Htopo. unfold cli. rewrite Hp, Ht, Hc.
  destruct (execute_on f); [|cbn; auto].
  rewrite Hm. unfold cli_run.
  pose proof (safety_all_modes_parsed_partial s p p' md Hp Hc Hf Htopo fuel pick) as Hsafe.
  destruct (exec_run fuel pick md (p_types p') (p_funs p') (init_config p')) as [c|c who e|c] eqn:E; cbn; auto.
  exfalso. exact (Hsafe c who e eq_refl).
Qed.

(* final form: no premise beyond parsed, checked, closed (C01's safety_all_modes_parsed) *)
Lemma cli_checked_closed_exits_zero pick fuel f s p p' md :
  parse_string s = POk p -> typecheck_on f = true -> typecheck p = Accept p' ->
  run_mode f = Some md -> in_fragment p' ->
  co_exit (cli pick fuel f (Some s)) = 0 /\ co_trace (cli pick fuel f (Some s)) = false /\ co_diags (cli pick fuel f (Some s)) = 0.
Proof.
  intros Hp Ht Hc Hm Hf. unfold cli. rewrite Hp, Ht, Hc.
  destruct (execute_on f); [|cbn; auto].
  rewrite Hm. unfold cli_run.
  pose proof (safety_all_modes_parsed s p p' md Hp Hc Hf fuel pick) as Hsafe.
  destruct (exec_run fuel pick md (p_types p') (p_funs p') (init_config p')) as [c|c who e|c] eqn:E; cbn; auto.
  exfalso. exact (Hsafe c who e eq_refl).
Qed.
