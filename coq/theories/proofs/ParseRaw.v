(* ParseRaw.v — every program the parser returns satisfies RtTcSyn.raw_ok: names carry no channel; a name
   that is not `self` has a non-empty identifier (a LABEL lexeme); `self` names carry "" or — after
   expandProcesses — the identifier of the explicit provider of their function, outside binders of
   it; binders, parameters and provider names are LABELs or the keyword; a process has a provider.
   Route, as proofs/ParseSynOk.v: proofs/LRInvariant.v instantiated with a predicate on semantic
   values (one case analysis over the 75 actions of Actions.v), then expandProcesses. *)
From stdpp Require Import gmap strings.
Require Import Grits.Base Grits.ModeDefs Grits.Modes Grits.STypes Grits.Forms Grits.Subst Grits.Infer
               Grits.Tokens Grits.Scan Grits.gen.LRTables Grits.gen.LRCert Grits.LR Grits.Actions Grits.Expand
               Grits.Equal Grits.EqualWF Grits.spec.SynOk
               Grits.proofs.ScanProofs Grits.proofs.ScanLabels
               Grits.proofs.LRCheck Grits.proofs.LRProof Grits.proofs.LRCertInst
               Grits.proofs.LRSound Grits.proofs.LRSoundInst Grits.proofs.LRInvariant Grits.proofs.ActionsTyped
               Grits.proofs.ParseSynOk Grits.spec.RtTyping Grits.proofs.RtTcSyn.
Local Open Scope Z_scope.

(* ---------------------------------------------------------------- before expansion: every name is a LABEL or the keyword *)
Fixpoint pre_form (f : form) : bool :=
  match f with
  | FSend a b c => bd_ok a && bd_ok b && bd_ok c
  | FRecv p c fr k => bd_ok p && bd_ok c && bd_ok fr && pre_form k
  | FSel a _ c => bd_ok a && bd_ok c
  | FCase fr bs => bd_ok fr && pre_brs bs
  | FNew x b k => bd_ok x && pre_form b && pre_form k
  | FClose c => bd_ok c
  | FWait c k => bd_ok c && pre_form k
  | FFwd a b _ => bd_ok a && bd_ok b
  | FSplit x y fr k => bd_ok x && bd_ok y && bd_ok fr && pre_form k
  | FCall _ args _ => forallb bd_ok args
  | FCast a c => bd_ok a && bd_ok c
  | FShift x fr k => bd_ok x && bd_ok fr && pre_form k
  | FDrop c k => bd_ok c && pre_form k
  | FPrint _ k => pre_form k
  end
with pre_brs (b : Forms.branches) : bool :=
  match b with
  | BrNil => true
  | BrCons _ p k r => bd_ok p && pre_form k && pre_brs r
  end.

Definition ep_ok (ep : name) : bool :=
  match chan ep with Some _ => false | None => is_self ep && negb (String.eqb (ident ep) "") end.

Definition stmt_raw (s : stmt) : bool :=
  match s with
  | SProc provs _ body => negb (length provs =? 0)%nat && forallb bd_ok provs && pre_form body
  | SFun f => forallb bd_ok (fn_params f) && pre_form (fn_body f) &&
              match fn_explicit f with Some ep => ep_ok ep | None => true end
  | _ => true
  end.

Definition LABELZ : Z := lex1 (tok_code LABEL).
(* the nonterminal `names` (provider names of prc[...]) : non-empty *)
Definition NAMESZ : Z := lhs 35.

Definition rawv (sym : Z) (v : sval) : bool :=
  match v with
  | VTok s => if sym =? LABELZ then negb (String.eqb s "") else true
  | VStmts l => forallb stmt_raw l
  | VStmt s => stmt_raw s
  | VForm f => pre_form f
  | VName n => bd_ok n
  | VNames l => forallb bd_ok l && (if sym =? NAMESZ then negb (length l =? 0)%nat else true)
  | VBranches b => pre_brs b
  | _ => true
  end.

Definition G (sym : Z) (v : sval) : Prop := shape_of v = sym_shape sym /\ rawv sym v = true.

Fixpoint raws (syms : list Z) (vals : list sval) : bool :=
  match syms, vals with
  | [], [] => true
  | s :: ss, v :: vs => rawv s v && raws ss vs
  | _, _ => false
  end.

Lemma Forall2_G syms vals : Forall2 G syms vals ->
  map shape_of vals = map sym_shape syms /\ raws syms vals = true.
Proof.
  induction 1 as [|s v ss vs [Hs Hg] _ [IH1 IH2]]; [split; reflexivity|].
  cbn. rewrite Hs, IH1, Hg, IH2. split; reflexivity.
Qed.

Lemma pre_brs_snoc bs l n k : pre_brs (br_snoc bs l n k) = pre_brs bs && (bd_ok n && pre_form k).
Proof.
  induction bs as [|l' p' k' r IH]; cbn [br_snoc pre_brs].
  - rewrite andb_true_r. reflexivity.
  - rewrite IH. rewrite !andb_assoc. reflexivity.
Qed.

Lemma bd_ok_plain x : negb (String.eqb x "") = true -> bd_ok (plain_name x) = true.
Proof. intros H. unfold bd_ok, plain_name. simpl. exact H. Qed.
Lemma bd_ok_typed x t : negb (String.eqb x "") = true -> bd_ok (typed_name x t) = true.
Proof. intros H. unfold bd_ok, typed_name. simpl. exact H. Qed.
Lemma bd_ok_set_pol n p : bd_ok (set_pol n p) = bd_ok n.
Proof. reflexivity. Qed.
Lemma bd_ok_selfname : bd_ok self_name = true.
Proof. reflexivity. Qed.

Ltac split_ands :=
  repeat match goal with
         | H : _ && _ = true |- _ => apply andb_true_iff in H; destruct H
         | H : (if ?a =? ?b then _ else _) = true |- _ => progress (vm_compute (a =? b) in H)
         | H : true = true |- _ => clear H
         | H : (if true then ?a else _) = true |- _ => change (a = true) in H
         | H : (if false then _ else true) = true |- _ => clear H
         end.

(* every semantic action keeps the predicate *)
Lemma reduce_raw : forall p vals, 0 < p < 76 ->
  map shape_of vals = map sym_shape (g_rhs p) -> raws (g_rhs p) vals = true ->
  forall nv, reduce_action p vals = Some nv -> rawv (lhs p) nv = true.
Proof.
  intros p vals Hp Hs Hg nv Hnv. apply prod_range in Hp. cbn [seq map Z.of_nat Pos.of_succ_nat Pos.succ] in Hp.
  repeat (destruct Hp as [<- | Hp];
          [ match type of Hs with _ = map sym_shape (g_rhs ?q) =>
              let r := eval vm_compute in (map sym_shape (g_rhs q)) in
              change (map sym_shape (g_rhs q)) with r in Hs;
              let r2 := eval vm_compute in (g_rhs q) in
              change (g_rhs q) with r2 in Hg;
              let l := eval vm_compute in (lhs q) in
              change (lhs q) with l
            end;
            peel Hs; cbn [raws rawv] in Hg; split_ands;
            cbn in Hnv; inversion Hnv; subst nv; clear Hnv;
            cbn [rawv stmt_raw pre_form pre_brs forallb fn_params fn_body fn_explicit length Nat.eqb negb];
            rewrite ?pre_brs_snoc, ?bd_ok_set_pol, ?bd_ok_selfname;
            repeat match goal with
                   | H : negb (String.eqb ?x "") = true |- context [bd_ok (plain_name ?x)] => rewrite (bd_ok_plain x H)
                   | H : negb (String.eqb ?x "") = true |- context [bd_ok (typed_name ?x ?t)] => rewrite (bd_ok_typed x t H)
                   end;
            unfold ep_ok; cbn [chan is_self ident andb];
            repeat match goal with
                   | H : ?x = true |- context [?x] => rewrite H
                   end;
            cbn [andb negb];
            try match goal with |- context [if ?a =? ?b then _ else _] => vm_compute (a =? b) end;
            cbn [andb negb length Nat.eqb]; try reflexivity; try assumption
          | ]).
  contradiction.
Qed.

Lemma G_reduce : forall p vals nv, 0 < p < lenZ tR2 -> Forall2 G (grhs p) vals ->
  reduce_action p vals = Some nv -> G (lhs p) nv.
Proof.
  intros p vals nv Hp HF Hra. rewrite tR2_len in Hp.
  destruct (Forall2_G _ _ HF) as [Hs Hg]. change (grhs p) with (g_rhs p) in Hs, Hg.
  destruct (reduce_typed p vals Hp Hs) as [nv' [Hra' [Hsh _]]].
  rewrite Hra in Hra'. inversion Hra'; subst nv'. split; [exact Hsh|].
  exact (reduce_raw p vals Hp Hs Hg nv Hra).
Qed.

Lemma ident_ok_nonempty x : ident_ok x = true -> negb (String.eqb x "") = true.
Proof. unfold ident_ok. intros H. apply andb_true_iff in H. destruct H as [H _]. apply andb_true_iff in H. tauto. Qed.

Lemma G_token : forall tv, label_tok_ok tv -> G (tokz tv) (tok_val tv).
Proof.
  intros [k lx] Hl. unfold G, tokz, tok_val. cbn [fst snd shape_of rawv]. split.
  - destruct k; reflexivity.
  - destruct (lex1 (tok_code k) =? LABELZ) eqn:E; [|reflexivity].
    apply ident_ok_nonempty. apply Hl. cbn [fst]. destruct k; try reflexivity; discriminate E.
Qed.

Theorem parse_statements_raw : forall s l, parse_statements s = POk l -> forallb stmt_raw l = true.
Proof.
  intros s l H. unfold parse_statements in H.
  destruct (scan_all s) as [toks|] eqn:Hs; [|discriminate].
  unfold parse_tokens in H.
  destruct (run sval tok_val reduce_action (lr_fuel (length toks)) [(0, VUnit)] toks) as [v | | p |] eqn:Hrun; try discriminate.
  destruct (has_illegal toks); [discriminate|].
  destruct v; try discriminate. inversion H; subst l0.
  assert (Hin : input_ok sval tok_val G toks).
  { unfold input_ok. eapply Forall_impl; [|exact (scan_all_labels _ _ Hs)]. intros tv. apply G_token. }
  destruct (parse_inv sval tok_val reduce_action G G_reduce _ _ _ _ Hin Hrun) as [_ Hg].
  exact Hg.
Qed.
Local Close Scope Z_scope.

(* ---------------------------------------------------------------- expandProcesses *)
(* a form of LABELs and keywords satisfies syn_form for every set that contains "" *)
Lemma bd_nm rs n : "" ∈ rs -> bd_ok n = true -> nm_ok rs n = true.
Proof.
  intros Hrs. unfold bd_ok, nm_ok. destruct (chan n); [discriminate|]. destruct (is_self n); auto.
  intros H. apply String.eqb_eq in H. rewrite H. apply bool_decide_eq_true. exact Hrs.
Qed.
Lemma under_empty rs x : "" ∈ rs -> "" ∈ under rs x.
Proof. unfold under. set_solver. Qed.

Lemma pre_syn :
  (forall f rs, "" ∈ rs -> pre_form f = true -> syn_form rs f = true) /\
  (forall b rs, "" ∈ rs -> pre_brs b = true -> syn_brs rs b = true).
Proof.
  apply form_branches_ind; intros; simpl in *;
    repeat match goal with H : _ && _ = true |- _ => apply andb_true_iff in H; destruct H end;
    repeat (apply andb_true_iff; split); auto using bd_nm, under_empty.
  match goal with H : forallb _ _ = true |- _ => rewrite forallb_forall in H end.
  apply forallb_forall. intros n Hn. apply bd_nm; auto.
Qed.

(* substituting a LABEL / the keyword for itself (single-provider processes) *)
Lemma name_subst_same p n : bd_ok p = true -> bd_ok n = true -> bd_ok (name_subst p p n) = true.
Proof.
  intros Hp Hn. unfold name_subst, initialized. rewrite (bd_ok_chan _ Hp), (bd_ok_chan _ Hn). simpl.
  destruct (String.eqb (ident n) (ident p)); auto.
  unfold bd_ok in *. simpl. destruct (chan p); [discriminate|]. exact Hp.
Qed.
Lemma pre_subst_same p : bd_ok p = true ->
  (forall f, pre_form f = true -> pre_form (subst p p f) = true) /\
  (forall b, pre_brs b = true -> pre_brs (subst_brs p p b) = true).
Proof.
  intros Hp. apply form_branches_ind; intros; simpl in *;
    repeat match goal with H : _ && _ = true |- _ => apply andb_true_iff in H; destruct H end;
    repeat (apply andb_true_iff; split); auto using name_subst_same;
    try (match goal with |- pre_form (if ?c then _ else _) = true => destruct c end; auto; fail).
  match goal with H : forallb _ _ = true |- _ => rewrite forallb_forall in H end.
  apply forallb_forall. intros n Hn. apply in_map_iff in Hn. destruct Hn as [m [<- Hm]]. apply name_subst_same; auto.
Qed.

(* substituting the explicit provider of a function for the LABELs spelled like it *)
Section Explicit.
Variable ep : name.
Hypothesis Hep : ep_ok ep = true.
Let x := ident ep.

Lemma ep_facts : chan ep = None /\ is_self ep = true /\ x <> "".
Proof.
  unfold ep_ok in Hep. destruct (chan ep); [discriminate|]. apply andb_true_iff in Hep. destruct Hep as [H1 H2].
  split; auto. split; auto. intros E. unfold x in E. rewrite E in H2. discriminate.
Qed.

Lemma name_subst_ep rs n : "" ∈ rs -> x ∈ rs -> bd_ok n = true ->
  nm_ok rs (name_subst ep ep n) = true /\ nu x (name_subst ep ep n) = true.
Proof.
  intros H0 Hx Hn. destruct ep_facts as [Hc [Hs Hne]].
  unfold name_subst, initialized. rewrite Hc, (bd_ok_chan _ Hn). simpl.
  destruct (String.eqb (ident n) (ident ep)) eqn:E.
  - unfold nm_ok, nu. simpl. rewrite Hs. simpl. split; auto. apply bool_decide_eq_true. exact Hx.
  - split; [apply bd_nm; auto|]. unfold nu. fold x in E. rewrite E. apply orb_true_r.
Qed.

Lemma name_equal_ep b : bd_ok b = true -> name_equal b ep = String.eqb (ident b) x.
Proof.
  intros Hb. destruct ep_facts as [Hc _]. unfold name_equal, initialized. rewrite Hc, (bd_ok_chan _ Hb). simpl.
  apply andb_true_r.
Qed.

Lemma under_keep rs b : x ∈ rs -> String.eqb (ident b) x = false -> x ∈ under rs b.
Proof. intros Hx E. apply String.eqb_neq in E. unfold under. set_solver. Qed.

Ltac prep :=
  simpl in *;
  repeat match goal with H : _ && _ = true |- _ => apply andb_true_iff in H; destruct H end;
  repeat match goal with
         | Hb : bd_ok ?b = true |- context [name_equal ?b ep] => rewrite (name_equal_ep b Hb)
         end.
Ltac fin := split; repeat (apply andb_true_iff; split); auto; try (apply orb_true_iff; right; auto; fail).
Ltac nm n := let A := fresh "Hm" in let B := fresh "Hu" in
  match goal with rs : gset string |- _ => destruct (name_subst_ep rs n) as [A B]; auto end.

Lemma subst_ep :
  (forall f rs, "" ∈ rs -> x ∈ rs -> pre_form f = true ->
     syn_form rs (subst ep ep f) = true /\ nouse x (subst ep ep f) = true) /\
  (forall b rs, "" ∈ rs -> x ∈ rs -> pre_brs b = true ->
     syn_brs rs (subst_brs ep ep b) = true /\ nouse_brs x (subst_brs ep ep b) = true).
Proof.
  apply form_branches_ind.
  - intros a b c rs H0 Hx Hp. prep. nm a. nm b. nm c. fin.
  - intros p c fr k IH rs H0 Hx Hp. prep. nm fr.
    destruct (String.eqb (ident p) x) eqn:E1; simpl.
    { fin. apply (proj1 pre_syn); auto using under_empty. }
    destruct (String.eqb (ident c) x) eqn:E2; simpl.
    { fin. apply (proj1 pre_syn); auto using under_empty. }
    destruct (IH (under (under rs p) c)) as [? ?]; auto using under_empty, under_keep. fin.
  - intros a l c rs H0 Hx Hp. prep. nm a. nm c. fin.
  - intros fr bs IH rs H0 Hx Hp. prep. nm fr. destruct (IH rs) as [? ?]; auto. fin.
  - intros y b IHb k IHk rs H0 Hx Hp. prep. destruct (IHb rs) as [? ?]; auto.
    destruct (String.eqb (ident y) x) eqn:E1; simpl.
    { fin. apply (proj1 pre_syn); auto using under_empty. }
    destruct (IHk (under rs y)) as [? ?]; auto using under_empty, under_keep. fin.
  - intros c rs H0 Hx Hp. prep. nm c.
  - intros c k IH rs H0 Hx Hp. prep. nm c. destruct (IH rs) as [? ?]; auto. fin.
  - intros a b d rs H0 Hx Hp. prep. nm a. nm b. fin.
  - intros y1 y2 fr k IH rs H0 Hx Hp. prep. nm fr.
    destruct (String.eqb (ident y1) x) eqn:E1; simpl.
    { fin. apply (proj1 pre_syn); auto using under_empty. }
    destruct (String.eqb (ident y2) x) eqn:E2; simpl.
    { fin. apply (proj1 pre_syn); auto using under_empty. }
    destruct (IH (under (under rs y1) y2)) as [? ?]; auto using under_empty, under_keep. fin.
  - intros fn args pt rs H0 Hx Hp. simpl in *. rewrite forallb_forall in Hp.
    split; apply forallb_forall; intros n Hn; apply in_map_iff in Hn; destruct Hn as [m [<- Hm]];
      destruct (name_subst_ep rs m) as [? ?]; auto.
  - intros a c rs H0 Hx Hp. prep. nm a. nm c. fin.
  - intros y fr k IH rs H0 Hx Hp. prep. nm fr.
    destruct (String.eqb (ident y) x) eqn:E1; simpl.
    { fin. apply (proj1 pre_syn); auto using under_empty. }
    destruct (IH (under rs y)) as [? ?]; auto using under_empty, under_keep. fin.
  - intros c k IH rs H0 Hx Hp. prep. nm c. destruct (IH rs) as [? ?]; auto. fin.
  - intros l k IH rs H0 Hx Hp. simpl in *. apply IH; auto.
  - intros rs H0 Hx Hp. simpl. auto.
  - intros l p k IHk r IHr rs H0 Hx Hp. prep. destruct (IHr rs) as [? ?]; auto.
    destruct (String.eqb (ident p) x) eqn:E1; simpl.
    { fin. apply (proj1 pre_syn); auto using under_empty. }
    destruct (IHk (under rs p)) as [? ?]; auto using under_empty, under_keep. fin.
Qed.
End Explicit.

Lemma expand_fun_raw f : stmt_raw (SFun f) = true -> fun_raw (expand_fun f) = true.
Proof.
  cbn [stmt_raw]. intros H. apply andb_true_iff in H. destruct H as [H He]. apply andb_true_iff in H. destruct H as [Hp Hb].
  unfold expand_fun, fun_raw, fun_rs. destruct (fn_explicit f) as [ep|] eqn:E; cbn [fn_params fn_body fn_explicit]; rewrite ?E.
  - destruct (subst_ep ep He) as [S _]. destruct (S (fn_body f) {[ ""; ident ep ]}) as [S1 S2]; auto; try set_solver.
    rewrite Hp, S1, S2. destruct (ep_facts ep He) as [-> _]. reflexivity.
  - rewrite Hp. simpl. apply (proj1 pre_syn); auto. set_solver.
Qed.

Lemma bd_pv x : bd_ok x = true -> pv_ok x = true.
Proof.
  unfold bd_ok, pv_ok. destruct (chan x); [discriminate|]. destruct (is_self x); auto.
Qed.

Lemma forallb_snoc' {A} (P : A -> bool) l x : forallb P (l ++ [x]) = forallb P l && P x.
Proof. rewrite forallb_app. cbn. rewrite andb_true_r. reflexivity. Qed.

Lemma expand1_raw : forall l procs assumed funs tys procs' assumed' funs' tys',
  forallb stmt_raw l = true -> forallb proc_raw procs = true -> forallb fun_raw funs = true ->
  Expand.expand1 l procs assumed funs tys = POk (procs', assumed', funs', tys') ->
  forallb proc_raw procs' = true /\ forallb fun_raw funs' = true.
Proof.
  induction l as [|s r IH]; intros procs assumed funs tys procs' assumed' funs' tys' Hl Hp Hf H.
  - cbn in H. inversion H; subst. auto.
  - cbn [forallb] in Hl. apply andb_true_iff in Hl. destruct Hl as [Hs Hr]. cbn [Expand.expand1] in H.
    destruct s as [provs ty body | f | x t | ns | fname].
    + cbn [stmt_raw] in Hs. apply andb_true_iff in Hs. destruct Hs as [Hs Hb]. apply andb_true_iff in Hs. destruct Hs as [Hne Hpv].
      assert (Hgo : forall pd, proc_raw pd = true ->
                Expand.expand1 r (procs ++ [pd]) assumed funs tys = POk (procs', assumed', funs', tys') ->
                forallb proc_raw procs' = true /\ forallb fun_raw funs' = true).
      { intros pd Hpd Hq. eapply IH; [exact Hr | | exact Hf | exact Hq]. rewrite forallb_snoc', Hp, Hpd. reflexivity. }
      assert (Hpvs : forallb pv_ok provs = true).
      { rewrite forallb_forall in Hpv. apply forallb_forall. intros n Hn. apply bd_pv; auto. }
      assert (Hsb : syn_form {[ "" ]} body = true) by (apply (proj1 pre_syn); auto; set_solver).
      destruct provs as [|p [|q ps]].
      * discriminate Hne.
      * eapply Hgo; [|exact H]. unfold proc_raw; cbn [pr_providers pr_body]. rewrite Hpvs. simpl.
        apply (proj1 pre_syn); [set_solver|]. apply (proj1 (pre_subst_same p ltac:(simpl in Hpv; apply andb_true_iff in Hpv; tauto))). exact Hb.
      * (match type of H with context [if ?c then _ else _] => destruct c; [discriminate|] | _ => idtac end).
        eapply Hgo; [|exact H]. unfold proc_raw; cbn [pr_providers pr_body]. rewrite Hpvs, Hsb. reflexivity.
    + eapply IH; [exact Hr | exact Hp | | exact H]. rewrite forallb_snoc', Hf, (expand_fun_raw f Hs). reflexivity.
    + eapply IH; [exact Hr | exact Hp | exact Hf | exact H].
    + eapply IH; [exact Hr | exact Hp | exact Hf | exact H].
    + eapply IH; [exact Hr | exact Hp | exact Hf | exact H].
Qed.

Lemma expand_exec_raw : forall l funs count procs procs',
  forallb proc_raw procs = true -> expand_exec l funs count procs = POk procs' -> forallb proc_raw procs' = true.
Proof.
  induction l as [|s r IH]; intros funs count procs procs' Hp H.
  - cbn in H. inversion H; subst. exact Hp.
  - cbn [expand_exec] in H. destruct s as [provs ty body | f | x t | ns | fname];
      try (eapply IH; [exact Hp | exact H]).
    destruct (get_function funs fname 0) as [fd|] eqn:Eg; [|discriminate].
    eapply IH; [|exact H]. rewrite forallb_snoc', Hp. reflexivity.
Qed.

Theorem expand_raw : forall l p, forallb stmt_raw l = true -> expand l = POk p -> raw_ok p = true.
Proof.
  intros l p Hl H. unfold expand in H.
  destruct (Expand.expand1 l [] [] [] []) as [[[[procs assumed] funs] tys]| | |] eqn:E1; try discriminate.
  destruct (expand_exec l funs 0 procs) as [procs'| | |] eqn:E2; try discriminate.
  destruct (set_modality_typedefs tys) as [tys'| |] eqn:E3; try discriminate.
  inversion H; subst p.
  destruct (expand1_raw l [] [] [] [] _ _ _ _ Hl eq_refl eq_refl E1) as [Hp Hf].
  pose proof (expand_exec_raw _ _ _ _ _ Hp E2) as Hp'.
  unfold raw_ok. cbn [p_funs p_procs]. rewrite Hf, Hp'. reflexivity.
Qed.

(* the parser only produces programs whose names are LABELs and keywords as RtTcSyn.raw_ok says *)
Theorem parse_raw_ok : forall s p, parse_string s = POk p -> raw_ok p = true.
Proof.
  intros s p H. unfold parse_string in H.
  destruct (parse_statements s) as [l| | |] eqn:Hp; try discriminate.
  exact (expand_raw l p (parse_statements_raw s l Hp) H).
Qed.
