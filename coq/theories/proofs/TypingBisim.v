(* proofs/TypingBisim.v — C07 closed with C08: the typechecker model accepts a program exactly when
   it is derivable in the declarative system whose type agreement is BISIMILARITY of the infinite
   unfoldings (spec/TypEq.v), for every program whose types are syntactically what the parser produces
   (spec/SynOk.prog_syn_ok: names and labels are LABEL lexemes, choices non-empty — the condition under
   which EqualType's printed memo keys are unambiguous). *)
Require Import Grits.Base Grits.ModeDefs Grits.Modes Grits.STypes Grits.Forms Grits.TcDeps Grits.Tc Grits.TcTop
               Grits.EqualWF Grits.spec.SynOk Grits.spec.Typing Grits.proofs.TeqMono Grits.proofs.TypingVerdict.
Require Grits.spec.TypEq Grits.proofs.EqualProofs Grits.proofs.EqualWFSanity.

Definition teq_bisim : tenv -> sty -> sty -> Prop := TypEq.Bisim.

(* the bridge from the typechecker's conditions to the hypotheses of C08 *)
Lemma good_wf_ty D t : good D t -> EqualWF.wf_ty D t = true.
Proof. intros [W S]. now apply EqualWFSanity.check_wf_ty. Qed.
Lemma sane_wf_env D : sanity_typedefs D = Ok true -> env_syn D = true -> EqualWF.wf_env D = true.
Proof. intros S E. now apply EqualWFSanity.sanity_wf_env. Qed.

Lemma alg_iff_bisim D : sanity_typedefs D = Ok true -> env_syn D = true ->
  forall s t, good D s -> good D t -> (teq_alg D s t <-> teq_bisim D s t).
Proof.
  intros S E s t Gs Gt. unfold teq_alg, teq_bisim.
  exact (proj1 (EqualProofs.equal_type_iff D s t (sane_wf_env D S E) (good_wf_ty D s Gs) (good_wf_ty D t Gt))).
Qed.

Theorem progok_alg_iff_bisim p : prog_syn_ok p = true -> (ProgOK teq_alg p <-> ProgOK teq_bisim p).
Proof.
  intros S. split; apply ProgOK_mono; auto; intros D SD SE s t Gs Gt H; now apply (alg_iff_bisim D SD SE s t Gs Gt).
Qed.

Theorem tc_verdict_bisim p : prog_syn_ok p = true -> (accepts p <-> ProgOK teq_bisim p).
Proof. intros S. rewrite tc_verdict_alg. now apply progok_alg_iff_bisim. Qed.

Theorem tc_sound_bisim p p' : prog_syn_ok p = true -> typecheck p = Accept p' -> ProgOK teq_bisim p.
Proof. intros S H. apply (tc_verdict_bisim p S). now exists p'. Qed.

Theorem tc_complete_bisim p : prog_syn_ok p = true -> ProgOK teq_bisim p -> exists p', typecheck p = Accept p'.
Proof. intros S H. now apply (tc_verdict_bisim p S). Qed.

Corollary well_typed_not_rejected_bisim p : prog_syn_ok p = true -> ProgOK teq_bisim p ->
  typecheck p <> Reject /\ (forall w, typecheck p <> RejectInternal w) /\ (forall w, typecheck p <> Diverge w).
Proof.
  intros S OK. destruct (tc_complete_bisim p S OK) as [p' E]. rewrite E. repeat split; intros; discriminate.
Qed.
