(* DeterminismNPCfree.v — determinism of the non-polarized mode for CONTRACTION-FREE programs (no split in
   the source, one provider name per process; forwards and drop allowed): parse ok, accepted, closed,
   cfree_src_b => all runs of the mode agree on completion and on the printed multiset. *)
From stdpp Require Import gmap strings sorting.
Require Import Grits.Base Grits.ModeDefs Grits.Modes Grits.STypes Grits.Forms Grits.Subst Grits.TcDeps Grits.Expand
               Grits.Tc Grits.TcTop Grits.spec.SynOk Grits.Runtime Grits.RuntimeFootprint
               Grits.spec.RtTyping Grits.spec.Topo Grits.proofs.RtSafety Grits.proofs.RtInit Grits.proofs.RtTheorems
               Grits.proofs.RtTcSyn Grits.proofs.RtTcBisim Grits.proofs.ParseSynOk Grits.proofs.ParseRaw Grits.proofs.RtTheoremsTc Grits.proofs.SrcAll.
Require Import Grits.proofs.RuntimeFacts Grits.proofs.Diamond Grits.proofs.Determinism Grits.proofs.AsyncSync
               Grits.proofs.TopoStep Grits.proofs.TcShape Grits.proofs.TcShapeTop Grits.proofs.InitForest Grits.proofs.InitAccept
               Grits.proofs.InvAll Grits.proofs.DeterminismAll Grits.proofs.NPCfree Grits.proofs.NPJoinA Grits.proofs.NPDeterminism.

Lemma cfree_erase_mut :
  (forall f, cfree (erase_form f) = cfree f) /\ (forall b, cfree_brs (erase_brs b) = cfree_brs b).
Proof. apply form_branches_ind; simpl; intros; congruence. Qed.
Lemma cfree_erase_eq f g : erase_form f = erase_form g -> cfree f = cfree g.
Proof. intros E. rewrite <- (proj1 cfree_erase_mut f), E. apply cfree_erase_mut. Qed.
Lemma fold_sub_cfree l : forall b, cfree (fold_sub l b) = cfree b.
Proof.
  induction l as [|[[old new] ot] l IH]; intros b; [reflexivity|].
  change (fold_sub ((old, new, ot) :: l) b) with (fold_sub l (subst old new b)). by rewrite IH, cfree_subst.
Qed.

(* the source test: no split in any body, one provider name per process *)
Definition cfree_src_b (p : program) : bool :=
  forallb (fun fd => cfree (fn_body fd)) (p_funs p) &&
  forallb (fun pd => cfree (pr_body pd) && match pr_providers pd with [_] => true | _ => false end) (p_procs p).

Lemma init_cf p p' : typecheck p = Accept p' -> cfree_src_b p = true ->
  cfree_funs (p_funs p') /\ CF (init_config p').
Proof.
  intros Ha Hpl. destruct (typecheck_erase p p' Ha) as (Sf & Sp & _).
  unfold cfree_src_b in Hpl. apply andb_true_iff in Hpl as [Hpf Hpp]. rewrite forallb_forall in Hpf, Hpp. split.
  - unfold cfree_funs. rewrite Forall_forall. intros fd' Hfd'.
    destruct (TypingSoundTop.Forall2_In_r _ _ _ _ Sf Hfd') as (fd & Hfd & E). rewrite (cfree_erase_eq _ _ E). by apply Hpf.
  - intros q pq Hq. apply RtInit.init_config_procs in Hq. destruct Hq as (i & pr' & Hi & _ & ->). cbn.
    destruct (Forall2_lookup_both _ _ _ _ _ Sp Hi) as (pd & Hpd & E & Epv).
    assert (Hin : In pd (p_procs p)) by (apply elem_of_list_In; eapply elem_of_list_lookup_2; eauto).
    specialize (Hpp pd Hin). apply andb_true_iff in Hpp as [H1 H2]. split.
    + unfold init_body. rewrite (init_pairs_tops p').
      change (fold_left _ (map _ (tops p')) (pr_body pr')) with (fold_sub (tops p') (pr_body pr')).
      by rewrite fold_sub_cfree, (cfree_erase_eq _ _ E).
    + rewrite Epv. destruct (pr_providers pd) as [|n [|]]; try discriminate. simpl. eauto.
Qed.

Theorem determinism_np_cfree txt p p' pick1 pick2 f1 f2 t1 :
  parse_string txt = POk p -> typecheck p = Accept p' -> in_fragment p' -> cfree_src_b p = true ->
  exec_run f1 pick1 NP (p_types p') (p_funs p') (init_config p') = RQuiescent t1 -> (f1 <= f2)%nat ->
  exists t2, exec_run f2 pick2 NP (p_types p') (p_funs p') (init_config p') = RQuiescent t2 /\
             cfg_equiv t2 t1 /\ labels t2 ≡ₚ labels t1.
Proof.
  intros Hp Ha Hf Hcf.
  pose proof (parse_syn_ok _ _ Hp) as PS. pose proof (parse_raw_ok _ _ Hp) as RS.
  destruct (init_invx p p' Ha Hf PS RS (all_src_parsed txt p p' Hp Ha)) as (HFa & HFn & HI).
  destruct (init_cf p p' Ha Hcf) as [HFc Hc].
  pose proof (tc_annotations_typed_rt p p' Ha PS RS Hf) as Hst.
  apply (determinism_np_cfree_cfg (p_types p') (p_funs p') (teq_rt (p_types p')) (teq_rt_laws _) (proj1 Hst) HFa HFn HFc).
  split; [exact HI|]. split; [apply bufs_empty_init|exact Hc].
Qed.

Definition np_cfree_text (txt : string) : bool :=
  match parse_string txt with
  | POk p => match typecheck p with
             | Accept p' => RtStaticCheck.in_fragment_b p' && cfree_src_b p
             | _ => false
             end
  | _ => false
  end.

(* non-vacuity: a drop program and a9's core example (with a forwarded call) are contraction-free *)
Example example_np_cfree : np_cfree_text example_drop_text = true /\ np_cfree_text example_text = true.
Proof. vm_compute. auto. Qed.
