(* CliProofs.v — the gatekeeping theorems about Cli.cli, for all flag vectors, file contents,
   schedules and fuels. *)
From stdpp Require Import gmap.
Require Import Grits.Base Grits.STypes Grits.Forms Grits.Expand Grits.Tc Grits.TcTop Grits.Runtime Grits.Cli.

Section Cli.
Variable pick : nat -> nat -> nat.
Variable fuel : nat.

Lemma cli_run_ran md p : co_ran (cli_run pick fuel md p) = true.
Proof. unfold cli_run. destruct (exec_run _ _ _ _ _ _); reflexivity. Qed.

Lemma cli_run_exit md p : co_exit (cli_run pick fuel md p) = 0 \/ (co_exit (cli_run pick fuel md p) = 2 /\ co_trace (cli_run pick fuel md p) = true).
Proof. unfold cli_run. destruct (exec_run _ _ _ _ _ _); cbn; auto. Qed.

(* nothing runs unless parsing succeeded and typechecking succeeded or was switched off *)
Theorem runs_only_if_ok f file :
  co_ran (cli pick fuel f file) = true ->
  parse_ok file = true /\ (typecheck_on f = false \/ tc_ok file = true) /\ execute_on f = true.
Proof.
  unfold cli, parse_ok, tc_ok. destruct file as [s|]; [|discriminate].
  destruct (parse_string s) as [p| | |]; try discriminate.
  destruct (typecheck_on f) eqn:Et.
  - destruct (typecheck p) as [p'| | |]; try discriminate.
    destruct (execute_on f); [|discriminate]. intros _. auto.
  - destruct (execute_on f); [|discriminate]. intros _. auto.
Qed.

Theorem noexecute_never_runs f file :
  fl_noexecute f = true -> co_ran (cli pick fuel f file) = false /\ co_labels (cli pick fuel f file) = [].
Proof.
  intros H. unfold cli, execute_on. rewrite H. cbn.
  destruct file as [s|]; [|auto]. destruct (parse_string s); auto.
  destruct (typecheck_on f); [destruct (typecheck a)|]; auto.
Qed.

(* a syntax or type error: one diagnostic, no program output, non-zero status, nothing ran *)
Theorem error_is_reported f file :
  parse_panics file = false ->
  (parse_ok file = false \/ (typecheck_on f = true /\ tc_ok file = false)) ->
  let o := cli pick fuel f file in
  co_exit o = 1 /\ co_diags o = 1 /\ co_labels o = [] /\ co_ran o = false /\ co_trace o = false.
Proof.
  unfold cli, parse_ok, tc_ok, parse_panics. destruct file as [s|]; [|cbn; auto].
  destruct (parse_string s) as [p| | |]; cbn; intros Hp H; try discriminate; auto.
  destruct H as [H|[Ht H]]; [discriminate|]. rewrite Ht.
  destruct (typecheck p); cbn; try discriminate; auto.
Qed.

(* exit status 0 iff parsing succeeded, typechecking succeeded or was skipped, and the run (if
   any) did not die: the last conjunct is discharged by type safety (C01) for closed, checked
   programs; for open or unchecked programs it can fail (known finding F19). *)
Theorem exit_zero_iff f file :
  let o := cli pick fuel f file in
  co_exit o = 0 <->
  (parse_ok file = true /\ (typecheck_on f = false \/ tc_ok file = true) /\ co_trace o = false).
Proof.
  unfold cli, parse_ok, tc_ok. destruct file as [s|]; [|cbn; split; [discriminate | intros [? _]; discriminate]].
  destruct (parse_string s) as [p| | |]; cbn; try (split; [discriminate | intros [? _]; discriminate]).
  assert (Hrun : forall md q, co_exit (cli_run pick fuel md q) = 0 <-> co_trace (cli_run pick fuel md q) = false).
  { intros md q. unfold cli_run. destruct (exec_run _ _ _ _ _ _); cbn; split; auto; discriminate. }
  destruct (typecheck_on f) eqn:Et.
  - destruct (typecheck p) as [p'| | |]; cbn; try (split; [discriminate | intros [_ [[?|?] _]]; discriminate]).
    destruct (execute_on f); [destruct (run_mode f)|]; cbn; rewrite ?Hrun; intuition.
  - destruct (execute_on f); [destruct (run_mode f)|]; cbn; rewrite ?Hrun; intuition.
Qed.

(* no `> label` line when the status is 1 *)
Theorem no_output_on_failure f file :
  co_exit (cli pick fuel f file) = 1 -> co_labels (cli pick fuel f file) = [].
Proof.
  unfold cli. destruct file as [s|]; [|reflexivity].
  destruct (parse_string s) as [p| | |]; cbn; try reflexivity; try discriminate.
  assert (Hrun : forall md q, co_exit (cli_run pick fuel md q) = 1 -> co_labels (cli_run pick fuel md q) = []).
  { intros md q. unfold cli_run. destruct (exec_run _ _ _ _ _ _); cbn; discriminate. }
  destruct (typecheck_on f); [destruct (typecheck p)|]; cbn; try reflexivity;
    destruct (execute_on f); try reflexivity; destruct (run_mode f); cbn; auto; discriminate.
Qed.

(* the process dies with a panic trace only through a run-time error of the interpreter (or a
   panicking semantic action of the parser, which C11 excludes) *)
Theorem trace_only_from_runtime f file :
  co_trace (cli pick fuel f file) = true -> parse_panics file = true \/ co_ran (cli pick fuel f file) = true.
Proof.
  unfold cli, parse_panics. destruct file as [s|]; [|discriminate].
  destruct (parse_string s) as [p| | |]; cbn; try discriminate; auto.
  assert (Hrun : forall md q, co_ran (cli_run pick fuel md q) = true) by (intros; apply cli_run_ran).
  destruct (typecheck_on f); [destruct (typecheck p)|]; cbn; try discriminate;
    destruct (execute_on f); cbn; try discriminate; destruct (run_mode f); cbn; try discriminate; auto.
Qed.
End Cli.
