(* proofs/RenameAlpha.v — C14 (c): renamings of BOUND channel names that are NOT one injective map
   for the whole program: every declaration (function / process body) is renamed by its OWN injective
   map, so that two declarations may use the same identifier for different things and one identifier
   of the source may become different identifiers in different declarations (the renamings the
   generator lib/vlib/proggen_mut.py produces).
   `crel`: two configurations are related if every process body of the second is the image of the
   corresponding body of the first under SOME injective identifier map, up to the identifiers of
   initialised and self names (RenameSimT.v).  `step_rel`: related TYPED configurations take related
   steps under every choice in every mode (a call switches to the callee's map; spawned processes
   inherit the spawner's map).  Hence equal outputs along lock-step runs. *)
From stdpp Require Import pmap gmap strings.
Require Import Grits.Base Grits.ModeDefs Grits.Modes Grits.STypes Grits.Forms Grits.Subst Grits.TcDeps Grits.Expand.
Require Import Grits.Runtime Grits.spec.Rename Grits.spec.RtTyping Grits.proofs.RtSubst Grits.proofs.RtSafety
               Grits.proofs.RenameTypes Grits.proofs.RenameSubst Grits.proofs.RenameRun Grits.proofs.RenameSimT.

Definition crn (c : string -> string) : renaming := Ren c (fun x => x) (fun x => x) (fun x => x) (fun x => x).
Definition okc (c : string -> string) : Prop := injective c /\ c "" = "".

Lemma crn_sty c : (forall t, rn_sty (crn c) t = t) /\ (forall b, rn_brs (crn c) b = b).
Proof. apply sty_brs_ind; intros; cbn [rn_sty rn_brs crn rt rl]; congruence. Qed.
Lemma crn_osty c t : rn_osty (crn c) t = t.
Proof. destruct t; cbn; [f_equal; apply crn_sty | reflexivity]. Qed.
Lemma crn_tenv c D : rn_tenv (crn c) D = D.
Proof.
  unfold rn_tenv. induction D as [|d D IH]; cbn [map]; [reflexivity|]. rewrite IH. f_equal.
  destruct d; unfold rn_tdef; cbn. f_equal. apply crn_sty.
Qed.
Lemma crn_name c n : rn_name (crn c) n = mkName (c (ident n)) (is_self n) (pol n) (nty n) (chan n).
Proof. unfold rn_name. now rewrite crn_osty. Qed.

(* erasure commutes with an identifier renaming that fixes "" *)
Lemma nn'_rn c n : c "" = "" -> nn' (rn_name (crn c) n) = rn_name (crn c) (nn' n).
Proof.
  intros H0. rewrite !crn_name. unfold nn', initialized. cbn [chan is_self ident pol nty].
  destruct (match chan n with Some _ => true | None => false end || is_self n); cbn [ident is_self pol nty chan]; [now rewrite H0 | reflexivity].
Qed.
Lemma nf'_rn c : c "" = "" ->
  (forall f, nf' (rn_form (crn c) f) = rn_form (crn c) (nf' f)) /\
  (forall b, nbs' (rn_branches (crn c) b) = rn_branches (crn c) (nbs' b)).
Proof.
  intros H0. apply form_branches_ind; intros; cbn [nf' nbs' rn_form rn_branches]; rewrite ?(nn'_rn c _ H0), ?H, ?H1, ?H2; try reflexivity.
  f_equal. rewrite !map_map. apply map_ext. intros a. now apply nn'_rn.
Qed.
Lemma np'_rn c p : c "" = "" -> np' (rn_proc (crn c) p) = rn_proc (crn c) (np' p).
Proof.
  intros H0. unfold np', rn_proc. cbn. rewrite (proj1 (nf'_rn c H0)), !map_map. f_equal.
  apply map_ext. intros a. now apply nn'_rn.
Qed.
Lemma nspawn'_rn c s0 : c "" = "" -> nspawn' (rn_spawn (crn c) s0) = rn_spawn (crn c) (nspawn' s0).
Proof.
  intros H0. unfold nspawn', rn_spawn. cbn. rewrite (proj1 (nf'_rn c H0)), !map_map. f_equal.
  apply map_ext. intros a. now apply nn'_rn.
Qed.
Lemma neff'_rn c e : c "" = "" -> neff' (rn_eff (crn c) e) = rn_eff (crn c) (neff' e).
Proof.
  intros H0. unfold neff', rn_eff. cbn [e_after e_spawn e_newch e_close e_out crn rp]. f_equal.
  - destruct (e_after e); cbn; [now rewrite np'_rn | reflexivity].
  - rewrite !map_map. apply map_ext. intros a. now apply nspawn'_rn.
Qed.
Lemma neres'_rn c x : c "" = "" -> neres' (rn_eres (crn c) x) = rn_eres (crn c) (neres' x).
Proof. intros H0. destruct x; cbn; [now rewrite neff'_rn | reflexivity]. Qed.

(* names whose identifier does not survive erasure anyway *)
Definition good (n : name) : Prop := initialized n = true \/ is_self n = true \/ ident n = "".
Lemma good_rn c n : c "" = "" -> good n -> nn' (rn_name (crn c) n) = nn' n.
Proof.
  intros H0 Hg. rewrite crn_name. destruct n as [i s0 p0 t0 [k|]]; unfold good, nn', initialized in *; cbn [chan is_self ident pol nty orb] in *;
    [reflexivity|]. destruct s0; [reflexivity|]. destruct Hg as [Hg|[Hg|Hg]]; try discriminate. subst. now rewrite H0.
Qed.
Definition mjf (m : msg) : Prop := good (m_c1 m) /\ good (m_c2 m) /\ Forall good (m_provs m).
Lemma mjf_rn c m : c "" = "" -> mjf m -> nm' (rn_msg (crn c) m) = nm' m.
Proof.
  intros H0 (G1 & G2 & G3). unfold nm', rn_msg. cbn [m_rule m_c1 m_c2 m_provs m_label crn rl].
  rewrite (good_rn c _ H0 G1), (good_rn c _ H0 G2). f_equal.
  - rewrite map_map. apply map_ext_in. intros a Ha. apply good_rn; auto. rewrite List.Forall_forall in G3. auto.
  - destruct (m_rule m); reflexivity.
Qed.
Lemma good_nn' n : good n -> good (nn' n).
Proof. unfold good. rewrite nn'_initialized, nn'_is_self. intros [H|[H|H]]; auto. right; right. unfold nn'. destruct (initialized n || is_self n); cbn; auto. Qed.

Lemma good_exact c n : c "" = "" -> good n -> rn_name (crn c) (nn' n) = nn' n.
Proof.
  intros H0 Hg. rewrite crn_name. destruct n as [i s0 p0 t0 [k|]]; unfold good, nn', initialized in *; cbn [chan is_self ident pol nty orb] in *;
    [now rewrite H0|]. destruct s0; cbn [ident is_self pol nty chan]; [now rewrite H0|]. destruct Hg as [Hg|[Hg|Hg]]; try discriminate. subst. now rewrite H0.
Qed.
Lemma mjf_exact c m : c "" = "" -> mjf m -> rn_msg (crn c) (nm' m) = nm' m.
Proof.
  intros H0 (G1 & G2 & G3). unfold nm', rn_msg. cbn [m_rule m_c1 m_c2 m_provs m_label crn rl].
  rewrite (good_exact c _ H0 G1), (good_exact c _ H0 G2). f_equal.
  - rewrite map_map. apply map_ext_in. intros a Ha. apply good_exact; auto. rewrite List.Forall_forall in G3. auto.
  - destruct (m_rule m); reflexivity.
Qed.
Lemma idinj : injective (fun x : string => x). Proof. intros x y E; exact E. Qed.

(* ---------------------------------------------------------------- relations *)
Definition prel (p p' : proc) : Prop := exists c, okc c /\ np' p' = rn_proc (crn c) (np' p).
Definition frel (fd fd' : fundef) : Prop := exists c, okc c /\ fd' = rn_fundef (crn c) fd.
Definition srel (s0 s0' : spawn) : Prop := exists c, okc c /\ nspawn' s0' = rn_spawn (crn c) (nspawn' s0).
Definition arel (a a' : after) : Prop :=
  match a, a' with Continue p, Continue p' => prel p p' | Finish, Finish => True | _, _ => False end.
Definition erel (e e' : effect) : Prop :=
  arel (e_after e) (e_after e') /\ Forall2 srel (e_spawn e) (e_spawn e') /\
  e_newch e = e_newch e' /\ e_close e = e_close e' /\ e_out e = e_out e'.
Definition rrel (x x' : Runtime.eres) : Prop :=
  match x, x' with EOk e, EOk e' => erel e e' | EErr w, EErr w' => w = w' | _, _ => False end.

Lemma Forall2_map_eq_rel {A B} (g : A -> B) (h : A -> B) (R : A -> A -> Prop) :
  (forall a a', h a' = g a -> R a a') -> forall l l', map h l' = map g l -> Forall2 R l l'.
Proof.
  intros HR. induction l as [|a l IH]; intros [|a' l'] E; cbn in E; try discriminate; [constructor|].
  inversion E. constructor; auto.
Qed.

Lemma rrel_intro c x x' : okc c -> neres' x' = neres' (rn_eres (crn c) x) -> rrel x x'.
Proof.
  intros [Hi H0] E. rewrite (neres'_rn c x H0) in E.
  destruct x as [e|w], x' as [e'|w']; cbn [neres' rn_eres rrel] in *; try discriminate; [|congruence].
  assert (E' : neff' e' = rn_eff (crn c) (neff' e)) by congruence. clear E.
  unfold neff', rn_eff in E'. cbn [e_after e_spawn e_newch e_close e_out crn rp] in E'. inversion E' as [[E1 E2 E3 E4 E5]].
  rewrite map_id in E5. repeat split; auto.
  - destruct (e_after e) as [p|], (e_after e') as [p'|]; cbn in E1 |- *; try discriminate; [|exact I].
    exists c. split; [split; assumption|]. congruence.
  - rewrite map_map in E2. revert E2. apply (Forall2_map_eq_rel (fun s0 => rn_spawn (crn c) (nspawn' s0)) nspawn').
    intros a a' Ea. exists c. split; [split; assumption | exact Ea].
Qed.

Lemma get_function_rel_gen : forall G G', Forall2 frel G G' -> forall fn n,
  match get_function G fn n with
  | Some fd => exists fd', get_function G' fn n = Some fd' /\ frel fd fd'
  | None => get_function G' fn n = None
  end.
Proof.
  induction 1 as [|fd fd' l l' (c & Hc & ->) _ IH]; intros fn n; cbn [get_function]; [reflexivity|].
  cbn [rn_fundef fn_name fn_params crn rf]. rewrite map_length.
  destruct (String.eqb (fn_name fd) fn && _); [|apply IH].
  eexists. split; [reflexivity|]. exists c. auto.
Qed.

Section Rel.
Variable D : tenv.
Variables F F' : list fundef.
Variable teq : sty -> sty -> Prop.
Hypothesis HF : funs_typed D F teq.
Hypothesis HF' : funs_typed D F' teq.
Hypothesis FR : Forall2 frel F F'.
Local Notation typedF := (typed D F teq).
Local Notation typedF' := (typed D F' teq).

(* ---------- receiving ---------- *)
Lemma on_message_rel Δ Δ' rs s rs' s' self p p' m m' :
  prel p p' -> typedF Δ ∅ None rs s (pr_body0 p) -> typedF' Δ' ∅ None rs' s' (pr_body0 p') ->
  mok m -> mok m' -> mjf m -> nm' m' = nm' m ->
  rrel (on_message self p m) (on_message self p' m').
Proof.
  intros (c & [Hi H0] & Ep) Hty Hty' Hm Hm' Hj Em. apply (rrel_intro c); [split; assumption|].
  rewrite <- (on_message_T D F' teq Δ' rs' s' self p' m' Hty' Hm'), Ep, Em, <- (mjf_exact c m H0 Hj).
  rewrite (on_message_rn (crn c) Hi H0 idinj), !neres'_rn by assumption.
  now rewrite (on_message_T D F teq Δ rs s self p m Hty Hm).
Qed.

(* ---------- duplicating ---------- *)
Lemma dup_effect_rel Δ Δ' rs s rs' s' self p p' :
  prel p p' -> typedF Δ ∅ None rs s (pr_body0 p) -> typedF' Δ' ∅ None rs' s' (pr_body0 p') ->
  rrel (dup_effect self p) (dup_effect self p').
Proof.
  intros (c & [Hi H0] & Ep) Hty Hty'. apply (rrel_intro c); [split; assumption|].
  rewrite <- (dup_effect_T D F' teq Δ' rs' s' self p' Hty'), Ep.
  rewrite (dup_effect_rn (crn c) Hi H0), !neres'_rn by assumption.
  now rewrite (dup_effect_T D F teq Δ rs s self p Hty).
Qed.

(* ---------- calls ---------- *)
Lemma get_function_cond : forall (G : list fundef) fn n fd, get_function G fn n = Some fd ->
  String.eqb (fn_name fd) fn && ((length (fn_params fd) =? n)%nat || (S (length (fn_params fd)) =? n)%nat) = true.
Proof.
  induction G as [|d G IH]; intros fn n fd; cbn [get_function]; [discriminate|].
  destruct (String.eqb (fn_name d) fn && _) eqn:E; [intros H; inversion H; subst; exact E | apply IH].
Qed.
Lemma call_body_found G fn args fd : get_function G fn (length args) = Some fd -> call_body G fn args = call_body [fd] fn args.
Proof.
  intros E. unfold call_body. rewrite E. cbn [get_function]. now rewrite (get_function_cond _ _ _ _ E).
Qed.
Lemma get_function_rel fn n :
  match get_function F fn n with
  | Some fd => exists fd', get_function F' fn n = Some fd' /\ frel fd fd'
  | None => get_function F' fn n = None
  end.
Proof. apply get_function_rel_gen, FR. Qed.

Lemma uself_rn c n : uself (rn_name (crn c) n) = uself n.
Proof. reflexivity. Qed.
Lemma call_shape_rn c fd args : call_shape fd args -> call_shape (rn_fundef (crn c) fd) (map (rn_name (crn c)) args).
Proof.
  unfold call_shape. cbn [rn_fundef fn_params]. rewrite !map_length. intros [[H1 H2]|(a0 & rest & -> & H1 & H2)].
  - left. split; [exact H1|]. apply List.Forall_forall. intros a Ha. apply in_map_iff in Ha. destruct Ha as (b & <- & Hb).
    rewrite List.Forall_forall in H2. rewrite uself_rn. apply H2, Hb.
  - right. exists (rn_name (crn c) a0), (map (rn_name (crn c)) rest). rewrite map_length. repeat split; auto.
    apply List.Forall_forall. intros a Ha. apply in_map_iff in Ha. destruct Ha as (b & <- & Hb).
    rewrite List.Forall_forall in H2. rewrite uself_rn. apply H2, Hb.
Qed.

(* the arguments of a call at the head of a running body are channels, or `self` *)
Lemma call_args_good Δ rs s fn args pt : typedF Δ ∅ None rs s (FCall fn args pt) -> Forall good args.
Proof.
  intros Hty. inversion Hty as [| | | | | | | | | | | | | ? ? ? ? ? ? ? fd tf0 Eg Etf0 Hteq0 Hargs | | | | | |]; subst.
  assert (G : forall l ps, args_ok teq Δ ∅ None l ps -> Forall good l).
  { induction 1 as [|a q l l' (t & _ & Hs & _ & Hc) _ IHl]; constructor; auto. left. unfold initialized.
    destruct (chan a); [reflexivity|]. destruct Hc as [_ (t' & Hl & _)]. rewrite lookup_empty in Hl. discriminate. }
  destruct Hargs as [[_ Ha]|(a0 & rest & -> & _ & Hp0 & Ha)]; [eapply G; eauto|].
  constructor; [|eapply G; eauto]. right; left. eapply prov_none; eauto.
Qed.

Lemma call_rel Δ Δ' rs s rs' s' fn args pt fn' args' pt' :
  typedF Δ ∅ None rs s (FCall fn args pt) -> typedF' Δ' ∅ None rs' s' (FCall fn' args' pt') ->
  fn' = fn -> map nn' args' = map nn' args ->
  match call_body F fn args with
  | Some b => exists b' c, okc c /\ call_body F' fn' args' = Some b' /\ nf' b' = rn_form (crn c) (nf' b)
  | None => call_body F' fn' args' = None
  end.
Proof.
  intros Hty Hty' -> Ea.
  assert (Hlen : length args' = length args) by (apply (f_equal (@length _)) in Ea; now rewrite !map_length in Ea).
  destruct (typed_call_shape D F teq _ _ _ _ _ _ _ _ Hty) as (fd & Eg & Hs).
  pose proof (get_function_rel fn (length args)) as G. rewrite Eg in G. destruct G as (fd' & Eg' & (c & [Hi H0] & ->)).
  destruct (typed_call_shape D F' teq _ _ _ _ _ _ _ _ Hty') as (fd2 & Eg2 & Hs2).
  rewrite Hlen, Eg' in Eg2. inversion Eg2; subst fd2. clear Eg2.
  assert (Hok' : fun_ok D F' teq (rn_fundef (crn c) fd)).
  { pose proof HF' as H. unfold funs_typed in H. rewrite List.Forall_forall in H. apply H. eapply get_function_in; eauto. }
  pose proof (call_args_good _ _ _ _ _ _ Hty) as Hg.
  assert (E1 : option_map nf' (call_body F' fn args') = option_map (fun b => rn_form (crn c) (nf' b)) (call_body F fn args)).
  { rewrite <- (call_body_T0 D teq F' F' fn args' _ ltac:(rewrite Hlen; exact Eg') Hok' Hs2).
    rewrite Ea.
    assert (E2 : map nn' args = map nn' (map (rn_name (crn c)) args)).
    { rewrite map_map. apply map_ext_in. intros a Ha. symmetry. apply good_rn; auto. rewrite List.Forall_forall in Hg. auto. }
    rewrite E2.
    rewrite (call_body_T0 D teq F' F' fn (map (rn_name (crn c)) args) _ ltac:(rewrite map_length; exact Eg') Hok' (call_shape_rn c fd args Hs)).
    rewrite (call_body_found F' fn (map (rn_name (crn c)) args) _ ltac:(rewrite map_length; exact Eg')).
    pose proof (call_body_rn (crn c) Hi H0 idinj [fd] fn args) as Ecb. cbn [crn rf map] in Ecb. fold (crn c) in Ecb.
    rewrite Ecb, <- (call_body_found F fn args fd Eg).
    destruct (call_body F fn args); cbn [option_map]; [|reflexivity]. now rewrite (proj1 (nf'_rn c H0)). }
  destruct (call_body F fn args) as [b|]; cbn [option_map] in E1.
  - destruct (call_body F' fn args') as [b'|]; [|discriminate]. exists b', c. split; [split; assumption|]. split; [reflexivity|].
    cbn in E1. congruence.
  - destruct (call_body F' fn args'); [discriminate | reflexivity].
Qed.

(* ---------- internal transitions ---------- *)
Definition is_call (f : form) : bool := match f with FCall _ _ _ => true | _ => false end.
Lemma internal_noF md G G' self p : is_call (pr_body0 p) = false -> internal_effect md G self p = internal_effect md G' self p.
Proof. unfold internal_effect. destruct (pr_body0 p); try reflexivity. discriminate. Qed.
Lemma is_call_nf' f : is_call (nf' f) = is_call f. Proof. destruct f; reflexivity. Qed.
Lemma is_call_rn r f : is_call (rn_form r f) = is_call f. Proof. destruct f; reflexivity. Qed.

Lemma good_list_exact c l : c "" = "" -> Forall good l -> map (rn_name (crn c)) (map nn' l) = map nn' l.
Proof.
  intros H0 Hg. rewrite map_map. apply map_ext_in. intros a Ha. apply good_exact; auto. rewrite List.Forall_forall in Hg. auto.
Qed.

Lemma internal_effect_rel Δ Δ' rs s rs' s' md self p p' :
  prel p p' -> typedF Δ ∅ None rs s (pr_body0 p) -> typedF' Δ' ∅ None rs' s' (pr_body0 p') ->
  Forall good (pr_provs p) ->
  rrel (internal_effect md F self p) (internal_effect md F' self p').
Proof.
  intros (c & [Hi H0] & Ep) Hty Hty' Hgp.
  destruct (is_call (pr_body0 p)) eqn:Ec.
  - (* call: the continuation is the callee's body under the callee's map *)
    destruct (pr_body0 p) as [| | | | | | | | |fn args pt| | | |] eqn:Eb; try discriminate Ec.
    assert (Eb' : nf' (pr_body0 p') = rn_form (crn c) (nf' (FCall fn args pt))).
    { apply (f_equal pr_body0) in Ep. cbn [np' rn_proc pr_body0] in Ep. now rewrite Eb in Ep. }
    cbn [nf' rn_form crn rf] in Eb'. fold (crn c) in Eb'.
    destruct (pr_body0 p') as [| | | | | | | | |fn' args' pt'| | | |] eqn:Eb2; try discriminate Eb'.
    cbn [nf'] in Eb'. inversion Eb' as [[E1 E2 E3]].
    rewrite (good_list_exact c args H0 (call_args_good _ _ _ _ _ _ Hty)) in E2.
    pose proof (call_rel _ _ _ _ _ _ _ _ _ _ _ _ Hty Hty' E1 E2) as Hc.
    unfold internal_effect. rewrite Eb, Eb2.
    destruct (call_body F fn args) as [b|].
    + destruct Hc as (b' & cg & [Hig H0g] & -> & Enb). cbn [rrel]. unfold erel, no_eff. cbn [e_after e_spawn e_newch e_close e_out arel].
      repeat split; auto. exists cg. split; [split; assumption|].
      unfold np', rn_proc, set_body. cbn [pr_provs pr_body0 pr_next]. rewrite Enb.
      pose proof (f_equal pr_provs Ep) as Epr. pose proof (f_equal pr_next Ep) as Enx. cbn [np' rn_proc pr_provs pr_next] in Epr, Enx.
      rewrite (good_list_exact c _ H0 Hgp) in Epr. rewrite Epr, Enx, (good_list_exact cg _ H0g Hgp). reflexivity.
    + rewrite Hc. reflexivity.
  - apply (rrel_intro c); [split; assumption|].
    rewrite <- (internal_effect_T D F' teq HF' md Δ' rs' s' self p' Hty'), Ep.
    rewrite (internal_noF md F' (map (rn_fundef (crn c)) F) self (rn_proc (crn c) (np' p)))
      by (cbn [rn_proc pr_body0 np']; now rewrite is_call_rn, is_call_nf').
    rewrite (internal_effect_rn (crn c) Hi H0 idinj), !neres'_rn by assumption.
    now rewrite (internal_effect_T D F teq HF md Δ rs s self p Hty).
Qed.

(* ---------------------------------------------------------------- configurations *)
Definition orel {A} (R : A -> A -> Prop) (o o' : option A) : Prop :=
  match o, o' with Some a, Some b => R a b | None, None => True | _, _ => False end.
Definition mrel (m m' : msg) : Prop := nm' m' = nm' m /\ mjf m /\ mjf m'.
Definition chrel (st st' : chan_st) : Prop := ch_closed st = ch_closed st' /\ orel mrel (ch_buf st) (ch_buf st').
Definition crel (c c' : config) : Prop :=
  (forall q, orel prel (procs c !! q) (procs c' !! q)) /\
  (forall k, orel chrel (chans c !! k) (chans c' !! k)) /\ out c = out c'.
Definition srrel (x x' : sres) : Prop :=
  match x, x' with
  | SNotEnabled, SNotEnabled => True
  | SStep d, SStep d' => crel d d'
  | SError w e, SError w' e' => w = w' /\ e = e'
  | _, _ => False
  end.

Lemma prel_next p p' : prel p p' -> pr_next p = pr_next p'.
Proof. intros (c & _ & E). apply (f_equal pr_next) in E. cbn in E. congruence. Qed.
Lemma prel_set_next p p' n : prel p p' -> prel (Proc (pr_provs p) (pr_body0 p) n) (Proc (pr_provs p') (pr_body0 p') n).
Proof.
  intros (c & Hc & E). exists c. split; [exact Hc|]. unfold np', rn_proc in *. cbn [pr_provs pr_body0 pr_next] in *. inversion E. congruence.
Qed.
Lemma srel_proc s0 s0' : srel s0 s0' -> prel (Proc (sp_provs s0) (sp_body s0) 0) (Proc (sp_provs s0') (sp_body s0') 0).
Proof.
  intros (c & Hc & E). exists c. split; [exact Hc|]. unfold nspawn', rn_spawn, np', rn_proc in *. cbn [sp_provs sp_body pr_provs pr_body0 pr_next] in *.
  inversion E. congruence.
Qed.

Lemma orel_insert {A} (R : A -> A -> Prop) (m m' : gmap (list nat) A) i x x' :
  (forall q, orel R (m !! q) (m' !! q)) -> R x x' -> forall q, orel R (<[i := x]> m !! q) (<[i := x']> m' !! q).
Proof. intros H Hx q. destruct (decide (i = q)) as [->|N]; [rewrite !lookup_insert; exact Hx | rewrite !lookup_insert_ne by assumption; apply H]. Qed.
Lemma orel_delete {A} (R : A -> A -> Prop) (m m' : gmap (list nat) A) i :
  (forall q, orel R (m !! q) (m' !! q)) -> forall q, orel R (delete i m !! q) (delete i m' !! q).
Proof. intros H q. destruct (decide (i = q)) as [->|N]; [rewrite !lookup_delete; exact I | rewrite !lookup_delete_ne by assumption; apply H]. Qed.

Lemma add_spawns_rel self : forall ss ss' next m m', Forall2 srel ss ss' ->
  (forall q, orel prel (m !! q) (m' !! q)) ->
  (forall q, orel prel (fst (add_spawns self next ss m) !! q) (fst (add_spawns self next ss' m') !! q)) /\
  snd (add_spawns self next ss m) = snd (add_spawns self next ss' m').
Proof.
  intros ss ss' next m m' H. revert next m m'. induction H as [|s0 s0' l l' Hs _ IH]; intros next m m' Hm; cbn [add_spawns]; [auto|].
  apply IH. apply orel_insert; [exact Hm | apply srel_proc, Hs].
Qed.

Lemma apply_effect_rel c c' self p p' e e' : crel c c' -> erel e e' -> pr_next p = pr_next p' ->
  crel (apply_effect c self p e) (apply_effect c' self p' e').
Proof.
  intros (Hp & Hch & Ho) (Ha & Hs & Hn & Hcl & Hout) Hnx. unfold apply_effect.
  assert (Eb : match e_after e with Continue p1 => pr_next p1 | Finish => pr_next p end =
               match e_after e' with Continue p1 => pr_next p1 | Finish => pr_next p' end).
  { destruct (e_after e), (e_after e'); cbn in Ha; try contradiction; [apply prel_next, Ha | exact Hnx]. }
  rewrite Eb, <- Hn.
  destruct (add_spawns_rel self _ _ (match e_after e' with Continue p1 => pr_next p1 | Finish => pr_next p' end + length (e_newch e))%nat _ _ Hs Hp) as [Hpm Hnext].
  destruct (add_spawns self _ (e_spawn e) (procs c)) as [pm next1]. destruct (add_spawns self _ (e_spawn e') (procs c')) as [pm' next1'].
  cbn [fst snd] in *. subst next1'. split; [|split]; cbn [procs chans out].
  - destruct (e_after e) as [p1|], (e_after e') as [p1'|]; cbn in Ha; try contradiction.
    + apply orel_insert; [exact Hpm | apply prel_set_next, Ha].
    + apply orel_delete, Hpm.
  - rewrite <- Hcl. clear Hcl.
    assert (H1 : forall l k, orel chrel (foldr (fun ch m => <[ch := empty_chan]> m) (chans c) l !! k)
                                     (foldr (fun ch m => <[ch := empty_chan]> m) (chans c') l !! k)).
    { induction l as [|ch l IH]; cbn [foldr]; [exact Hch|]. apply orel_insert; [exact IH|]. split; [reflexivity | exact I]. }
    specialize (H1 (e_newch e)).
    revert H1. generalize (foldr (fun ch m => <[ch := empty_chan]> m) (chans c) (e_newch e)) (foldr (fun ch m => <[ch := empty_chan]> m) (chans c') (e_newch e)).
    intros cm cm' H1. generalize (e_close e). intros cl. induction cl as [|ch l IH]; cbn [foldr]; [exact H1|].
    pose proof (IH ch) as Hc0.
    destruct (foldr _ cm l !! ch) as [st|] eqn:E1, (foldr _ cm' l !! ch) as [st'|] eqn:E2; cbn in Hc0; try contradiction; [|exact IH].
    apply orel_insert; [exact IH|]. destruct Hc0 as [_ Hb]. split; [reflexivity | exact Hb].
  - now rewrite Ho, Hout.
Qed.

Lemma eff_step_rel c c' self p p' x x' : crel c c' -> rrel x x' -> pr_next p = pr_next p' ->
  srrel (eff_step c self p x) (eff_step c' self p' x').
Proof.
  intros Hc Hx Hn. destruct x as [e|w], x' as [e'|w']; cbn in Hx; try contradiction; cbn [eff_step srrel].
  - now apply apply_effect_rel.
  - auto.
Qed.

(* ---------------------------------------------------------------- what a process does next *)
Lemma nm'_rn c m : c "" = "" -> nm' (rn_msg (crn c) m) = rn_msg (crn c) (nm' m).
Proof.
  intros H0. unfold nm', rn_msg. cbn [m_rule m_c1 m_c2 m_provs m_label]. rewrite !(nn'_rn c _ H0). f_equal.
  rewrite !map_map. apply map_ext. intros a. now apply nn'_rn.
Qed.
Lemma naction'_rn c a : c "" = "" -> naction' (rn_action (crn c) a) = rn_action (crn c) (naction' a).
Proof.
  intros H0. destruct a; cbn [naction' rn_action]; try reflexivity; [now rewrite nm'_rn|].
  f_equal. rewrite !map_map. apply map_ext. intros a. now apply nn'_rn.
Qed.

Lemma action_rel c md p p' : okc c -> np' p' = rn_proc (crn c) (np' p) ->
  naction' (action_of md D p') = rn_action (crn c) (naction' (action_of md D p)).
Proof.
  intros [Hi H0] Ep. rewrite <- (action_of_T D md p'), Ep.
  pose proof (action_of_rn (crn c) H0 idinj md D (np' p)) as E. rewrite crn_tenv in E. rewrite E.
  now rewrite (action_of_T D md p).
Qed.

Lemma action_cases c a a' : naction' a' = rn_action (crn c) (naction' a) ->
  match a with
  | ADup => a' = ADup | AInternal => a' = AInternal | ANever => a' = ANever
  | ARecv k => a' = ARecv k | AErr w => a' = AErr w
  | ASend k m => exists m', a' = ASend k m' /\ nm' m' = rn_msg (crn c) (nm' m)
  | ACtrl k ps => exists ps', a' = ACtrl k ps' /\ map nn' ps' = map (rn_name (crn c)) (map nn' ps)
  end.
Proof.
  destruct a, a'; cbn [naction' rn_action]; intros E; try discriminate; try (inversion E; subst; eauto; fail).
  assert (c0 = c1 /\ nm' m0 = rn_msg (crn c) (nm' m)) as [-> Em] by (split; congruence). eauto.
Qed.

Lemma client_good Δ n t : client_ty teq Δ ∅ None n t -> good n.
Proof.
  intros (_ & _ & Hc). left. unfold initialized. destruct (chan n); [reflexivity|].
  destruct Hc as [_ (t' & Hl & _)]. rewrite lookup_empty in Hl. discriminate.
Qed.
Lemma prov_good rs n : prov_name None rs n -> good n.
Proof. intros H. right; left. eapply prov_none; eauto. Qed.
Lemma good_zero : good zero_name. Proof. right; right; reflexivity. Qed.
Lemma good_init n : initialized n = true -> good n. Proof. left; assumption. Qed.

Lemma action_mjf (G : list fundef) md Δ rs s p k m : typed D G teq Δ ∅ None rs s (pr_body0 p) ->
  Forall (fun n => initialized n = true) (pr_provs p) -> action_of md D p = ASend k m -> mjf m.
Proof.
  intros Hty Hpr. assert (Hs : good (self_name_of p)).
  { unfold self_name_of, prov0. destruct (pr_provs p) as [|n l]; cbn; [apply good_zero|]. inversion Hpr; subst. now apply good_init. }
  assert (Hps : Forall good (pr_provs p)) by (eapply List.Forall_impl; [|exact Hpr]; intros; now apply good_init).
  unfold action_of, send_on, recv_on, internal. destruct (pr_body0 p) eqn:Eb;
    inversion Hty; subst;
    repeat match goal with
    | |- context [if ?b then _ else _] => destruct b
    | |- context [match ?x with _ => _ end] => destruct x
    end; intros E; try discriminate E; inversion E; subst; unfold mjf; cbn [m_c1 m_c2 m_provs];
    repeat split; eauto using client_good, prov_good, good_zero, Forall_nil.
Qed.
Lemma action_ctrl_good md p k ps : Forall (fun n => initialized n = true) (pr_provs p) -> action_of md D p = ACtrl k ps -> Forall good ps.
Proof.
  intros Hpr. assert (Hps : Forall good (pr_provs p)) by (eapply List.Forall_impl; [|exact Hpr]; intros; now apply good_init).
  unfold action_of, send_on, recv_on, internal. destruct (pr_body0 p);
    repeat match goal with
    | |- context [if ?b then _ else _] => destruct b
    | |- context [match ?x with _ => _ end] => destruct x
    end; intros E; try discriminate E; inversion E; subst; exact Hps.
Qed.

Lemma prel_provs p p' : prel p p' -> Forall good (pr_provs p) -> map nn' (pr_provs p') = map nn' (pr_provs p).
Proof.
  intros (c & [Hi H0] & Ep) Hg. apply (f_equal pr_provs) in Ep. cbn [np' rn_proc pr_provs] in Ep.
  now rewrite (good_list_exact c _ H0 Hg) in Ep.
Qed.
Lemma prel_is_call p p' : prel p p' -> is_call (pr_body0 p') = is_call (pr_body0 p).
Proof.
  intros (c & _ & Ep). apply (f_equal pr_body0) in Ep. cbn [np' rn_proc pr_body0] in Ep.
  rewrite <- (is_call_nf' (pr_body0 p')), Ep, is_call_rn. apply is_call_nf'.
Qed.
Lemma map_nn'_self_chan l l' : map nn' l' = map nn' l ->
  match head l' with Some n => chan n | None => None end = match head l with Some n => chan n | None => None end.
Proof.
  destruct l as [|a l], l' as [|a' l']; cbn [map head]; intros E; try discriminate; [reflexivity|].
  assert (E1 : nn' a' = nn' a) by congruence. rewrite <- (nn'_chan a'), E1. apply nn'_chan.
Qed.

(* ---------------------------------------------------------------- one step *)
Lemma crel_put c c' k st st' m m' : crel c c' -> ch_closed st = ch_closed st' -> orel mrel m m' ->
  crel (put_msg c k st m) (put_msg c' k st' m').
Proof.
  intros (Hp & Hch & Ho) Hcl Hm. split; [|split]; cbn [put_msg procs chans out]; auto.
  apply orel_insert; [exact Hch|]. split; [exact Hcl | exact Hm].
Qed.
Lemma crel_del c c' q : crel c c' -> crel (del_proc c q) (del_proc c' q).
Proof. intros (Hp & Hch & Ho). split; [|split]; cbn [del_proc procs chans out]; auto. now apply orel_delete. Qed.

Lemma mjf_zero : mjf zero_msg.
Proof. repeat split; try apply good_zero. constructor. Qed.

Lemma self_chan_rel p p' : prel p p' -> Forall good (pr_provs p) -> self_chan p' = self_chan p.
Proof. intros H Hg. unfold self_chan, prov0. apply map_nn'_self_chan. now apply prel_provs. Qed.

Lemma polls_rel md c p p' : okc c -> np' p' = rn_proc (crn c) (np' p) -> polls_control md D p' = polls_control md D p.
Proof.
  intros Hc Ep. unfold polls_control. pose proof (action_cases c _ _ (action_rel c md p p' Hc Ep)) as Ha.
  assert (Hcall : is_call (pr_body0 p') = is_call (pr_body0 p)) by (apply prel_is_call; exists c; auto).
  destruct (action_of md D p); try (rewrite Ha; reflexivity).
  - rewrite Ha. destruct (pr_body0 p), (pr_body0 p'); try discriminate Hcall; reflexivity.
  - destruct Ha as (m' & -> & _). reflexivity.
  - destruct Ha as (ps' & -> & _). reflexivity.
Qed.

Theorem step_rel md Δ Δ' c c' ch : cfg_typed D F teq Δ c -> cfg_typed D F' teq Δ' c' -> crel c c' ->
  srrel (Runtime.step md D F c ch) (Runtime.step md D F' c' ch).
Proof.
  intros [Hprocs Hmsgs _ _] [Hprocs' Hmsgs' _ _] Hcr. pose proof Hcr as (Hp & Hch & Ho).
  unfold Runtime.step. destruct ch as [self|s0 r0|f0 t0].
  - (* one process runs *)
    pose proof (Hp self) as Hps. destruct (procs c !! self) as [p|] eqn:Ep, (procs c' !! self) as [p'|] eqn:Ep'; cbn in Hps; try contradiction; [|exact I].
    destruct (proc_facts D F teq Δ p (Hprocs _ _ Ep)) as [(rs & s & Hty) Hpr].
    destruct (proc_facts D F' teq Δ' p' (Hprocs' _ _ Ep')) as [(rs' & s' & Hty') Hpr'].
    assert (Hgp : Forall good (pr_provs p)) by (eapply List.Forall_impl; [|exact Hpr]; intros; now apply good_init).
    pose proof (prel_next _ _ Hps) as Hnx. destruct Hps as (cc & Hcc & Epp). pose proof Hcc as [Hi H0].
    assert (Hps : prel p p') by (exists cc; auto).
    pose proof (action_cases cc _ _ (action_rel cc md p p' Hcc Epp)) as Ha.
    destruct (action_of md D p) as [| |k m|k| |k provs|w] eqn:Ea.
    + rewrite Ha. apply eff_step_rel; auto. eapply dup_effect_rel; eauto.
    + rewrite Ha. apply eff_step_rel; auto. eapply internal_effect_rel; eauto.
    + destruct Ha as (m' & Ea' & Em). rewrite Ea'.
      pose proof (action_mjf F md Δ rs s p k m Hty Hpr Ea) as Hj. pose proof (action_mjf F' md Δ' rs' s' p' k m' Hty' Hpr' Ea') as Hj'.
      rewrite (mjf_exact cc m H0 Hj) in Em.
      pose proof (Hch k) as Hk. destruct (chans c !! k) as [st|], (chans c' !! k) as [st'|]; cbn in Hk; try contradiction; [|cbn; auto].
      destruct Hk as [Hcl Hb]. rewrite <- Hcl. destruct (ch_closed st) eqn:Ecl; [cbn; auto|].
      destruct md; try (destruct (ch_buf st), (ch_buf st'); cbn in Hb; try contradiction; exact I).
      destruct (ch_buf st), (ch_buf st'); cbn in Hb; try contradiction; [exact I|].
      cbn [srrel]. apply crel_del. apply crel_put; auto; [congruence|]. cbn [orel]. split; [exact Em | split; assumption].
    + rewrite Ha. pose proof (Hch k) as Hk. destruct (chans c !! k) as [st|] eqn:Ek, (chans c' !! k) as [st'|] eqn:Ek'; cbn in Hk; try contradiction; [|cbn; auto].
      destruct Hk as [Hcl Hb]. rewrite <- Hcl.
      destruct (ch_buf st) as [m|] eqn:Eb, (ch_buf st') as [m'|] eqn:Eb'; cbn in Hb; try contradiction.
      * destruct Hb as (Em & Hj & Hj'). apply eff_step_rel; auto; [apply crel_put; auto; exact I|].
        eapply on_message_rel; eauto; eapply msg_typed_mok; eauto.
      * destruct (ch_closed st) eqn:Ecl; [|exact I]. apply eff_step_rel; auto.
        eapply on_message_rel; eauto using mok_zero, mjf_zero.
    + rewrite Ha. exact I.
    + destruct Ha as (ps' & -> & _). exact I.
    + rewrite Ha. cbn. auto.
  - (* rendezvous *)
    destruct md; [exact I| |].
    all: destruct (bool_decide (s0 = r0)); [exact I|];
      pose proof (Hp s0) as Hs; pose proof (Hp r0) as Hr;
      destruct (procs c !! s0) as [ps|] eqn:Es, (procs c' !! s0) as [ps'|] eqn:Es'; cbn in Hs; try contradiction; [|exact I];
      destruct (procs c !! r0) as [pr|] eqn:Er, (procs c' !! r0) as [pr'|] eqn:Er'; cbn in Hr; try contradiction; [|exact I];
      destruct (proc_facts D F teq Δ ps (Hprocs _ _ Es)) as [(rs1 & s1 & Hty1) Hpr1];
      destruct (proc_facts D F' teq Δ' ps' (Hprocs' _ _ Es')) as [(rs1' & s1' & Hty1') Hpr1'];
      destruct (proc_facts D F teq Δ pr (Hprocs _ _ Er)) as [(rs2 & s2 & Hty2) Hpr2];
      destruct (proc_facts D F' teq Δ' pr' (Hprocs' _ _ Er')) as [(rs2' & s2' & Hty2') Hpr2'];
      pose proof (prel_next _ _ Hr) as Hnx;
      pose proof Hs as (cs & Hcs & Eps); pose proof Hr as (cr & Hcr0 & Epr);
      match goal with |- context [action_of ?mm D ps] =>
        pose proof (action_cases cs _ _ (action_rel cs mm ps ps' Hcs Eps)) as Ha1;
        pose proof (action_cases cr _ _ (action_rel cr mm pr pr' Hcr0 Epr)) as Ha2 end;
      destruct (action_of _ D ps) as [| |k m|k| |k provs|w] eqn:Ea1;
        try (rewrite Ha1; exact I); try (destruct Ha1 as (? & -> & _); exact I);
      destruct Ha1 as (m' & Ea1' & Em); rewrite Ea1';
      destruct (action_of _ D pr) as [| |k2 m2|k2| |k2 provs2|w2] eqn:Ea2;
        try (rewrite Ha2; exact I); try (destruct Ha2 as (? & -> & _); exact I);
      rewrite Ha2;
      destruct (bool_decide (k = k2)); [|exact I];
      pose proof (Hch k) as Hk; destruct (chans c !! k) as [st|], (chans c' !! k) as [st'|]; cbn in Hk; try contradiction; [|exact I];
      destruct Hk as [Hcl _]; rewrite <- Hcl; destruct (ch_closed st); [exact I|];
      pose proof (action_mjf F _ Δ rs1 s1 ps k m Hty1 Hpr1 Ea1) as Hj;
      rewrite (mjf_exact cs m (proj2 Hcs) Hj) in Em;
      apply eff_step_rel; auto; [apply crel_del; auto|];
      eapply (on_message_rel _ _ _ _ _ _ r0 pr pr' m m' Hr Hty2 Hty2');
        [eapply action_mok; [exact Hty1 | exact Hpr1 | exact Ea1]
        |eapply action_mok; [exact Hty1' | exact Hpr1' | exact Ea1']
        |exact Hj | exact Em].
  - (* control (NP) *)
    destruct (negb (is_np md) || bool_decide (f0 = t0)); [exact I|].
    pose proof (Hp f0) as Hf; pose proof (Hp t0) as Ht.
    destruct (procs c !! f0) as [pf|] eqn:Ef, (procs c' !! f0) as [pf'|] eqn:Ef'; cbn in Hf; try contradiction; [|exact I].
    destruct (procs c !! t0) as [pt|] eqn:Et, (procs c' !! t0) as [pt'|] eqn:Et'; cbn in Ht; try contradiction; [|exact I].
    destruct (proc_facts D F teq Δ pf (Hprocs _ _ Ef)) as [_ Hprf].
    destruct (proc_facts D F teq Δ pt (Hprocs _ _ Et)) as [_ Hprt].
    assert (Hgt : Forall good (pr_provs pt)) by (eapply List.Forall_impl; [|exact Hprt]; intros; now apply good_init).
    pose proof (prel_next _ _ Ht) as Hnx.
    pose proof Hf as (cf & Hcf & Epf). pose proof Ht as (ct & Hct & Ept).
    pose proof (action_cases cf _ _ (action_rel cf md pf pf' Hcf Epf)) as Ha.
    rewrite (self_chan_rel pt pt' Ht Hgt), (polls_rel md ct pt pt' Hct Ept).
    destruct (action_of md D pf) as [| |k m|k| |k provs|w] eqn:Ea; try (rewrite Ha; exact I); try (destruct Ha as (? & -> & _); exact I).
    destruct Ha as (ps' & -> & Eps).
    destruct (self_chan pt) as [k'|]; [|exact I].
    destruct (bool_decide (k = k') && polls_control md D pt); [|exact I].
    cbn [srrel]. apply apply_effect_rel; auto; [apply crel_del; auto|].
    pose proof (action_ctrl_good md pf k provs Hprf Ea) as Hgp.
    rewrite (good_list_exact cf provs (proj2 Hcf) Hgp) in Eps.
    pose proof (prel_provs pt pt' Ht Hgt) as Ept2.
    unfold erel. cbn [e_after e_spawn e_newch e_close e_out arel]. repeat split; auto.
    + exists ct. split; [exact Hct|]. unfold np', rn_proc, set_provs_body. cbn [pr_provs pr_body0 pr_next].
      pose proof (f_equal pr_body0 Ept) as Eb. pose proof (f_equal pr_next Ept) as En. cbn [np' rn_proc pr_body0 pr_next] in Eb, En.
      rewrite Eb, En. f_equal.
      assert (Etl : map nn' (tl (pr_provs pt')) = map nn' (tl (pr_provs pt))).
      { destruct (pr_provs pt), (pr_provs pt'); cbn in Ept2 |- *; try discriminate; [reflexivity|]. congruence. }
      rewrite (good_list_exact ct (provs ++ tl (pr_provs pt)) (proj2 Hct)).
      * now rewrite !map_app, Eps, Etl.
      * apply Forall_app_2; [exact Hgp|]. destruct (pr_provs pt); [constructor|]. inversion Hgt; auto.
    + unfold cids_of. destruct (pr_provs pt) as [|a l], (pr_provs pt') as [|a' l']; cbn in Ept2 |- *; try discriminate; [reflexivity|].
      assert (E1 : nn' a' = nn' a) by congruence. rewrite <- (nn'_chan a'), E1, nn'_chan. reflexivity.
Qed.

(* ---------------------------------------------------------------- runs *)
Lemma pids_rel c c' : crel c c' -> pids c' = pids c.
Proof.
  intros (Hp & _ & _). unfold pids.
  assert (E : (fun _ => tt) <$> procs c' = (fun _ => tt) <$> procs c).
  { apply map_eq. intros q. rewrite !lookup_fmap. specialize (Hp q).
    destruct (procs c !! q), (procs c' !! q); cbn in *; try contradiction; reflexivity. }
  apply (f_equal (fun m => map fst (map_to_list m))) in E. rewrite !gmap_to_list_fmap in E.
  change (prod_map id (fun _ : proc => tt) <$> ?l) with (map (prod_map id (fun _ : proc => tt)) l) in E.
  rewrite !map_map in E. exact E.
Qed.

Lemma enabled_rel md Δ Δ' c c' : cfg_typed D F teq Δ c -> cfg_typed D F' teq Δ' c' -> crel c c' ->
  enabled md D F' c' = enabled md D F c.
Proof.
  intros H1 H2 Hc. unfold enabled, candidates. rewrite (pids_rel c c' Hc). apply filter_ext. intros ch.
  pose proof (step_rel md Δ Δ' c c' ch H1 H2 Hc) as Hs.
  destruct (Runtime.step md D F c ch), (Runtime.step md D F' c' ch); cbn in Hs; try contradiction; reflexivity.
Qed.

Section Runs.
Variable md : exec_mode.
Variables I I' : config -> Prop.
Hypothesis I_typed : forall c, I c -> exists Δ, cfg_typed D F teq Δ c.
Hypothesis I_step : forall c ch d, I c -> Runtime.step md D F c ch = SStep d -> I d.
Hypothesis I'_typed : forall c, I' c -> exists Δ, cfg_typed D F' teq Δ c.
Hypothesis I'_step : forall c ch d, I' c -> Runtime.step md D F' c ch = SStep d -> I' d.

Theorem run_rel pick : forall fuel c c', I c -> I' c' -> crel c c' ->
  kind_of (exec_run fuel pick md D F' c') = kind_of (exec_run fuel pick md D F c) /\
  crel (final_cfg (exec_run fuel pick md D F c)) (final_cfg (exec_run fuel pick md D F' c')).
Proof.
  induction fuel as [|fuel IH]; intros c c' Hi Hi' Hc; cbn [exec_run]; [split; [reflexivity | exact Hc]|].
  destruct (I_typed c Hi) as [Δ Ht]. destruct (I'_typed c' Hi') as [Δ' Ht'].
  rewrite (enabled_rel md Δ Δ' c c' Ht Ht' Hc).
  destruct (enabled md D F c) as [|e0 es]; [split; [reflexivity | exact Hc]|].
  set (ch := nth (pick (S fuel) (S (length es)) mod S (length es)) (e0 :: es) e0).
  pose proof (step_rel md Δ Δ' c c' ch Ht Ht' Hc) as Hs.
  destruct (Runtime.step md D F c ch) as [|d|w e] eqn:E1, (Runtime.step md D F' c' ch) as [|d'|w' e'] eqn:E2; cbn in Hs; try contradiction.
  - split; [reflexivity | exact Hc].
  - apply IH; eauto.
  - destruct Hs as [-> ->]. split; [reflexivity | exact Hc].
Qed.

Corollary run_rel_labels pick fuel c c' : I c -> I' c' -> crel c c' ->
  kind_of (exec_run fuel pick md D F' c') = kind_of (exec_run fuel pick md D F c) /\
  labels (final_cfg (exec_run fuel pick md D F' c')) = labels (final_cfg (exec_run fuel pick md D F c)) /\
  pids (final_cfg (exec_run fuel pick md D F' c')) = pids (final_cfg (exec_run fuel pick md D F c)).
Proof.
  intros Hi Hi' Hc. destruct (run_rel pick fuel c c' Hi Hi' Hc) as [H1 H2]. split; [exact H1|]. split.
  - unfold labels. destruct H2 as (_ & _ & Ho). now rewrite Ho.
  - now apply pids_rel.
Qed.
End Runs.
End Rel.
