(* ScanCover.v — C12, scanner part: nothing of the text is dropped or reinterpreted.
   The scanner model is instrumented (without changing its outputs) to return, for every call of
   Scan, the span of bytes it consumed; the spans laid end to end are the input, and every span is
   either trivia (whitespace + a comment) or whitespace + a spelling of the token produced. *)
Require Import Grits.Base Grits.Tokens Grits.gen.ScanTables Grits.Scan Grits.spec.ScanSpec Grits.proofs.ScanProofs.

Local Notation slen := String.length.

(* ---- the instrumented scanner ---- *)
(* the bytes of s in front of its suffix rest *)
Definition span_of (s rest : string) : string := substring 0 (slen s - slen rest) s.

Definition scan1x (s : string) : scan_res * string :=
  let r := scan1 s in (r, span_of s (res_rest r)).

Fixpoint scan_items_f (fuel : nat) (s : string) : option (list item * string) :=
  match fuel with
  | O => None
  | S f =>
    let '(r, sp) := scan1x s in
    match r with
    | Skip rest => match scan_items_f f rest with
                   | Some (l, u) => Some (ITrivia sp :: l, u)
                   | None => None
                   end
    | Tok k lx rest =>
      match k with
      | T_EOF | T_ILLEGAL => Some ([IToken k lx sp], rest)
      | _ => match scan_items_f f rest with
             | Some (l, u) => Some (IToken k lx sp :: l, u)
             | None => None
             end
      end
    end
  end.
(* items + the part of the text the scanner never looked at (non-empty only after an ILLEGAL token) *)
Definition scan_items (s : string) : option (list item * string) := scan_items_f (S (slen s)) s.

(* agreement with the model proper: same tokens *)
Lemma scan_items_agree : forall fuel s,
  match scan_items_f fuel s with
  | Some (l, _) => scan_all_f fuel s = Tokens (items_tokens l)
  | None => scan_all_f fuel s = ScanHang
  end.
Proof.
  induction fuel as [|f IH]; intros s; [reflexivity|].
  cbn [scan_items_f scan_all_f]. unfold scan1x.
  destruct (scan1 s) as [k lx rest | rest]; cbn [res_rest].
  - specialize (IH rest).
    destruct k; try reflexivity;
      (destruct (scan_items_f f rest) as [[l u]|]; rewrite IH; reflexivity).
  - specialize (IH rest). destruct (scan_items_f f rest) as [[l u]|]; exact IH.
Qed.

Theorem scan_items_tokens : forall s, exists l u, scan_items s = Some (l, u) /\ scan_all s = Tokens (items_tokens l).
Proof.
  intros s. pose proof (scan_items_agree (S (slen s)) s) as H. unfold scan_items.
  destruct (scan_items_f (S (slen s)) s) as [[l u]|].
  - exists l, u. split; [reflexivity | exact H].
  - exfalso. exact (scan_total s H).
Qed.

(* ---- strings ---- *)
Lemma append_assoc a b c : (a ^^ b) ^^ c = a ^^ b ^^ c.
Proof. induction a as [|x a IH]; cbn; [reflexivity | rewrite IH; reflexivity]. Qed.
Lemma append_nil_r a : a ^^ "" = a.
Proof. induction a as [|x a IH]; cbn; [reflexivity | rewrite IH; reflexivity]. Qed.
Lemma append_len a b : slen (a ^^ b) = (slen a + slen b)%nat.
Proof. induction a as [|x a IH]; cbn; [reflexivity | rewrite IH; reflexivity]. Qed.

Lemma span_of_app p rest : span_of (p ^^ rest) rest = p.
Proof.
  unfold span_of. rewrite append_len. replace (slen p + slen rest - slen rest)%nat with (slen p) by lia.
  induction p as [|c p IH]; cbn.
  - destruct rest; reflexivity.
  - rewrite IH. reflexivity.
Qed.

Lemma code_eq c n : (code c =? n)%nat = true -> c = ascii_of_nat n.
Proof. intros H. apply Nat.eqb_eq in H. unfold code in H. rewrite <- H. symmetry. apply ascii_nat_embedding. Qed.

(* ---- the skipping functions consume what the specification says ---- *)
Lemma skip_ws_spec s : exists ws, s = ws ^^ skip_ws s /\ all_ws ws = true.
Proof.
  induction s as [|c r [ws [H1 H2]]]; [exists ""; split; reflexivity|].
  cbn [skip_ws]. destruct (is_ws c) eqn:E.
  - exists (String c ws). cbn. rewrite <- H1, E, H2. split; reflexivity.
  - exists "". split; reflexivity.
Qed.

Lemma skip_eol_spec s : exists b, s = b ^^ skip_eol s /\
  ((exists b0, b = b0 ^^ String (ascii_of_nat 10) "" /\ no_nl b0 = true) \/ (no_nl b = true /\ skip_eol s = "")).
Proof.
  induction s as [|c r [b [H1 H2]]]; [exists ""; split; [reflexivity | right; split; reflexivity]|].
  cbn [skip_eol]. destruct (code c =? 10)%nat eqn:E.
  - exists (String c ""). split; [reflexivity|]. left. exists "". apply code_eq in E. subst c. split; reflexivity.
  - exists (String c b). split; [cbn; rewrite <- H1; reflexivity|].
    destruct H2 as [[b0 [Hb Hn]] | [Hn He]].
    + left. exists (String c b0). subst b. split; [reflexivity|]. cbn. rewrite E, Hn. reflexivity.
    + right. split; [cbn; rewrite E, Hn; reflexivity | exact He].
Qed.

Lemma skip_comment_spec s : forall ps, exists b, s = b ^^ skip_comment ps s /\
  (closes_at_end ps b = true \/ (never_closes ps b = true /\ skip_comment ps s = "")).
Proof.
  induction s as [|c r IH]; intros ps; [exists ""; split; [reflexivity | right; split; reflexivity]|].
  cbn [skip_comment]. destruct (ps && (code c =? 47)%nat) eqn:E.
  - exists (String c ""). split; [reflexivity|]. left. cbn. rewrite E. reflexivity.
  - destruct (IH (code c =? 42)%nat) as [b [H1 H2]].
    exists (String c b). split; [cbn; rewrite <- H1; reflexivity|].
    cbn [closes_at_end never_closes]. rewrite E. exact H2.
Qed.

Lemma take_label_spec s : s = fst (take_label s) ^^ snd (take_label s) /\ all_lab (fst (take_label s)) = true.
Proof.
  induction s as [|c r [H1 H2]]; [split; reflexivity|].
  cbn [take_label]. destruct (is_lab c) eqn:E; [|split; reflexivity].
  destruct (take_label r) as [l rest]. cbn [fst snd] in *. split; [rewrite H1 at 1; reflexivity|].
  cbn. rewrite E, H2. reflexivity.
Qed.

(* the keyword table never yields a code-0 token *)
Lemma alookup_In {V} k (m : list (string * V)) v : alookup k m = Some v -> In (k, v) m.
Proof.
  induction m as [|[k' v'] m IH]; cbn; [discriminate|].
  destruct (String.eqb k k') eqn:E; intros H.
  - apply String.eqb_eq in E. inversion H; subst. left. reflexivity.
  - right. apply IH. exact H.
Qed.
Lemma keyword_not_code0 w : keyword w <> T_EOF /\ keyword w <> T_ILLEGAL.
Proof.
  assert (H : forallb (fun p => negb (tk_eqb (snd p) T_EOF) && negb (tk_eqb (snd p) T_ILLEGAL)) keyword_tbl = true)
    by (vm_compute; reflexivity).
  unfold keyword. destruct (alookup w keyword_tbl) as [k|] eqn:E; [|split; discriminate].
  apply alookup_In in E. rewrite forallb_forall in H. specialize (H _ E). cbn [snd] in H.
  apply andb_true_iff in H. destruct H as [H1 H2].
  split; intro Hk; subst k; discriminate.
Qed.

(* ---- one call of Scan ---- *)
Definition res_ok (r : scan_res) (body : string) : Prop :=
  match r with
  | Tok k lx rest => spells k lx body /\ (k = T_EOF -> rest = "")
  | Skip rest => line_comment body rest \/ block_comment body rest
  end.

Ltac neq_eof := let H := fresh in intros H; discriminate H.

Lemma scan1_body_spec s : exists body, s = body ^^ res_rest (scan1_body s) /\ res_ok (scan1_body s) body.
Proof.
  destruct s as [|c r].
  { exists "". split; [reflexivity|]. split; [constructor | reflexivity]. }
  unfold scan1_body. destruct (single_char c) as [k|] eqn:Esc.
  { exists (String c ""). split; [reflexivity|]. split; [apply SpSingle; exact Esc|].
    intros ->. exfalso. unfold single_char in Esc.
    repeat match type of Esc with match ?n with _ => _ end = _ => destruct n; try discriminate end. }
  rewrite special_match.
  destruct r as [|d r']; cbn [peek is_char].
  - (* last byte of the input *)
    rewrite !andb_false_r. cbn [take_label].
    destruct (is_special c).
    + repeat match goal with |- context [if ?b then _ else _] => destruct b eqn:? end;
        repeat match goal with H : (code c =? _)%nat = true |- _ => apply code_eq in H; subst c end;
        (eexists (String _ ""); split; [reflexivity|]);
        (split; [ first [ apply SpFixed; cbn; tauto | apply SpIllegal1 ] | neq_eof ]).
    + exists (String c ""). split; [destruct (is_lab c); reflexivity|].
      destruct (is_lab c) eqn:El; cbn.
      * split; [apply SpWord; [discriminate | cbn; rewrite El; reflexivity] | intros H; exfalso; exact (proj1 (keyword_not_code0 _) H)].
      * split; [apply SpIllegal1 | neq_eof].
  - (* at least two bytes *)
    destruct ((code c =? 47)%nat && (code d =? 47)%nat) eqn:Ell.
    { apply andb_true_iff in Ell. destruct Ell as [E1 E2]. apply code_eq in E1, E2. subst c d.
      destruct (skip_eol_spec r') as [b [H1 H2]].
      exists ("//" ^^ b). split; [cbn; rewrite <- H1; reflexivity|].
      left. cbn [res_rest]. destruct H2 as [[b0 [Hb Hn]] | [Hn He]].
      - exists b0. split; [exact Hn|]. left. subst b. reflexivity.
      - exists b. split; [exact Hn|]. right. split; [reflexivity | exact He]. }
    destruct ((code c =? 47)%nat && (code d =? 42)%nat) eqn:Ebl.
    { apply andb_true_iff in Ebl. destruct Ebl as [E1 E2]. apply code_eq in E1, E2. subst c d.
      destruct (skip_comment_spec r' false) as [b [H1 H2]].
      exists ("/*" ^^ b). split; [cbn; rewrite <- H1; reflexivity|].
      right. exists b. split; [reflexivity | exact H2]. }
    pose proof (take_label_spec (String d r')) as [Hl1 Hl2].
    destruct (is_special c) eqn:Esp.
    + destruct (code c =? 61)%nat eqn:E61.
      { apply code_eq in E61; subst c. destruct (code d =? 62)%nat eqn:E2.
        - apply code_eq in E2; subst d. exists "=>". split; [reflexivity|]. split; [apply SpFixed; cbn; tauto | neq_eof].
        - exists "=". split; [reflexivity|]. split; [apply SpFixed; cbn; tauto | neq_eof]. }
      destruct (code c =? 60)%nat eqn:E60.
      { apply code_eq in E60; subst c. destruct (code d =? 45)%nat eqn:E2.
        - apply code_eq in E2; subst d. exists "<-". split; [reflexivity|]. split; [apply SpFixed; cbn; tauto | neq_eof].
        - exists "<". split; [reflexivity|]. split; [apply SpFixed; cbn; tauto | neq_eof]. }
      destruct (code c =? 45)%nat eqn:E45.
      { apply code_eq in E45; subst c. destruct (code d =? 42)%nat eqn:E2.
        - apply code_eq in E2; subst d. exists "-*". split; [reflexivity|]. split; [apply SpFixed; cbn; tauto | neq_eof].
        - destruct (code d =? 111)%nat eqn:E3.
          + apply code_eq in E3; subst d. exists "-o". split; [reflexivity|]. split; [apply SpFixed; cbn; tauto | neq_eof].
          + exists "-". split; [reflexivity|]. split; [apply SpFixed; cbn; tauto | neq_eof]. }
      destruct (code c =? 49)%nat eqn:E49.
      { apply code_eq in E49; subst c. destruct (is_lab d) eqn:Eld.
        - destruct (take_label (String d r')) as [l rest]. cbn [fst snd] in *.
          exists (String (ascii_of_nat 49) l). split; [cbn [String.append res_rest]; rewrite <- Hl1; reflexivity|].
          split; [apply SpWord; [discriminate | cbn [all_lab]; rewrite Hl2; reflexivity]|].
          intros H; exfalso; exact (proj1 (keyword_not_code0 _) H).
        - exists "1". split; [reflexivity|]. split; [apply SpFixed; cbn; tauto | neq_eof]. }
      destruct (code c =? 92)%nat eqn:E92.
      { destruct (code d =? 47)%nat eqn:E2.
        - apply code_eq in E92, E2; subst c d. exists "\/". split; [reflexivity|]. split; [apply SpFixed; cbn; tauto | neq_eof].
        - exists (String c (String d "")). split; [reflexivity|].
          split; [apply SpIllegal2; left; apply Nat.eqb_eq; exact E92 | neq_eof]. }
      assert (E47 : (code c =? 47)%nat = true).
      { unfold is_special in Esp. rewrite E61, E60, E45, E49, E92 in Esp. cbn in Esp.
        rewrite orb_false_r in Esp. exact Esp. }
      destruct (code d =? 92)%nat eqn:E2.
      * apply code_eq in E47, E2; subst c d. exists "/\". split; [reflexivity|]. split; [apply SpUp | neq_eof].
      * exists (String c (String d "")). split; [reflexivity|].
        split; [apply SpIllegal2; right; apply Nat.eqb_eq; exact E47 | neq_eof].
    + destruct (is_lab c) eqn:El.
      * destruct (take_label (String d r')) as [l rest]. cbn [fst snd] in *.
        exists (String c l). split; [cbn [String.append res_rest]; rewrite <- Hl1; reflexivity|].
        split; [apply SpWord; [discriminate | cbn [all_lab]; rewrite El, Hl2; reflexivity]|].
        intros H; exfalso; exact (proj1 (keyword_not_code0 _) H).
      * exists (String c ""). split; [reflexivity|]. split; [apply SpIllegal1 | neq_eof].
Qed.

Lemma strip_ws_skip s : strip_ws s = skip_ws s.
Proof. destruct s; reflexivity. Qed.

Lemma scan1_spec s : exists ws body,
  s = ws ^^ body ^^ res_rest (scan1 s) /\ all_ws ws = true /\ res_ok (scan1 s) body.
Proof.
  rewrite scan1_unfold, strip_ws_skip.
  destruct (skip_ws_spec s) as [ws [H1 H2]].
  destruct (scan1_body_spec (skip_ws s)) as [body [H3 H4]].
  exists ws, body. split; [rewrite <- H3; exact H1|]. split; assumption.
Qed.

(* the instrumented step returns exactly the bytes in front of the rest *)
Lemma scan1x_span s : s = snd (scan1x s) ^^ res_rest (fst (scan1x s)).
Proof.
  unfold scan1x. cbn [fst snd]. destruct (scan1_spec s) as [ws [body [H1 _]]].
  rewrite <- append_assoc in H1. rewrite H1 at 2. rewrite span_of_app. exact H1.
Qed.

(* ---- the whole text ---- *)
Theorem scan_covers_f : forall fuel s l u, scan_items_f fuel s = Some (l, u) ->
  s = items_cover l u /\ items_ok l u.
Proof.
  induction fuel as [|f IH]; intros s l u H; [discriminate|].
  cbn [scan_items_f] in H. unfold scan1x in H.
  destruct (scan1_spec s) as [ws [body [H1 [H2 H3]]]].
  assert (Hsp : span_of s (res_rest (scan1 s)) = ws ^^ body).
  { rewrite <- append_assoc in H1. rewrite H1 at 1. apply span_of_app. }
  rewrite Hsp in H.
  destruct (scan1 s) as [k lx rest | rest]; cbn [res_rest res_ok] in *.
  - destruct H3 as [Hs Heof].
    assert (Hlast : (k = T_EOF \/ k = T_ILLEGAL) -> Some ([IToken k lx (ws ^^ body)], rest) = Some (l, u) ->
                    s = items_cover l u /\ items_ok l u).
    { intros _ Hq. inversion Hq; subst l u. cbn. split; [rewrite append_assoc; exact H1|].
      split; [|exact I]. exists ws, body. auto. }
    assert (Hmore : match scan_items_f f rest with Some (l0, u0) => Some (IToken k lx (ws ^^ body) :: l0, u0) | None => None end = Some (l, u) ->
                    s = items_cover l u /\ items_ok l u).
    { intros Hq. destruct (scan_items_f f rest) as [[l0 u0]|] eqn:E; [|discriminate].
      inversion Hq; subst l u. destruct (IH _ _ _ E) as [Hc Hok]. cbn.
      split; [rewrite append_assoc, <- Hc; exact H1|]. split; [|exact Hok].
      exists ws, body. rewrite <- Hc. auto. }
    destruct k; first [ apply Hmore; exact H | apply Hlast; [tauto | exact H] ].
  - destruct (scan_items_f f rest) as [[l0 u0]|] eqn:E; [|discriminate].
    inversion H; subst l u. destruct (IH _ _ _ E) as [Hc Hok]. cbn.
    split; [rewrite append_assoc, <- Hc; exact H1|]. split; [|exact Hok].
    exists ws, body. rewrite <- Hc. auto.
Qed.

(* C12, scanner: the input is the concatenation of the spans consumed (plus the part after an
   ILLEGAL token, where the scanner stops and the parse is rejected); every span is well-formed *)
Theorem scan_covers : forall s l u, scan_items s = Some (l, u) -> s = items_cover l u /\ items_ok l u.
Proof. intros s l u. apply scan_covers_f. Qed.

(* shape of the token list: exactly one code-0 token, at the end *)
Definition code0 (k : tk) : bool := match k with T_EOF | T_ILLEGAL => true | _ => false end.

Lemma scan_all_shape : forall fuel s toks, scan_all_f fuel s = Tokens toks ->
  exists init k lx, toks = init ++ [(k, lx)] /\ code0 k = true /\ Forall (fun tv => code0 (fst tv) = false) init.
Proof.
  induction fuel as [|f IH]; intros s toks H; [discriminate|].
  cbn [scan_all_f] in H. destruct (scan1 s) as [k lx rest | rest]; [|eapply IH; exact H].
  assert (Hmore : code0 k = false -> match scan_all_f f rest with Tokens l => Tokens ((k, lx) :: l) | ScanHang => ScanHang end = Tokens toks ->
     exists init k0 lx0, toks = init ++ [(k0, lx0)] /\ code0 k0 = true /\ Forall (fun tv => code0 (fst tv) = false) init).
  { intros Hk Hq. destruct (scan_all_f f rest) as [l0|] eqn:E; [|discriminate]. inversion Hq; subst toks.
    destruct (IH _ _ E) as [init [k0 [lx0 [H1 [H2 H3]]]]]. subst l0.
    exists ((k, lx) :: init), k0, lx0. split; [reflexivity|]. split; [exact H2|]. constructor; [exact Hk | exact H3]. }
  destruct k; first [ apply Hmore; [reflexivity | exact H]
                    | inversion H; subst toks; eexists [], _, _; split; [reflexivity|]; split; [reflexivity | constructor] ].
Qed.

(* when the last token is the end-of-input token, nothing of the text is left unscanned *)
Lemma scan_items_eof_rest : forall fuel s l u, scan_items_f fuel s = Some (l, u) ->
  forall init lx, items_tokens l = init ++ [(T_EOF, lx)] -> Forall (fun tv => code0 (fst tv) = false) init -> u = "".
Proof.
  induction fuel as [|f IH]; intros s l u H init lx Ht Hinit; [discriminate|].
  cbn [scan_items_f] in H. unfold scan1x in H.
  destruct (scan1_spec s) as [ws [body [_ [_ H3]]]].
  destruct (scan1 s) as [k lx0 rest | rest]; cbn [res_rest res_ok] in *.
  - destruct H3 as [_ Heof].
    assert (Hmore : code0 k = false -> match scan_items_f f rest with Some (l0, u0) => Some (IToken k lx0 (span_of s rest) :: l0, u0) | None => None end = Some (l, u) -> u = "").
    { intros Hk Hq. destruct (scan_items_f f rest) as [[l0 u0]|] eqn:E; [|discriminate]. inversion Hq; subst l u.
      cbn [items_tokens] in Ht. destruct init as [|tv init'].
      - cbn in Ht. inversion Ht as [[Hk' Hl]]. subst k. discriminate.
      - cbn in Ht. inversion Ht as [[Htv Hl]]. inversion Hinit; subst. eapply IH; eauto. }
    destruct k; try (apply Hmore; [reflexivity | exact H]).
    + inversion H; subst l u. apply Heof. reflexivity.
    + inversion H; subst l u. cbn in Ht. destruct init as [|tv [|tv2 init']]; cbn in Ht; inversion Ht.
  - destruct (scan_items_f f rest) as [[l0 u0]|] eqn:E; [|discriminate]. inversion H; subst l u.
    cbn [items_tokens] in Ht. eapply IH; eauto.
Qed.

(* ---- read count (C11): one call of Scan reads every byte of its span once, re-reads at most two
   bytes it had put back (the byte ending a whitespace run, the byte ending a token) and probes the
   end of the input at most once: reads <= |span| + 3 per call *)
Definition scan_reads (l : list item) : nat := fold_right (fun i acc => slen (item_span i) + 3 + acc)%nat O l.

Lemma items_cover_len l u : (slen (items_cover l u) = fold_right (fun i acc => slen (item_span i) + acc) (slen u) l)%nat.
Proof. induction l as [|i r IH]; cbn; [reflexivity|]. rewrite append_len, IH. reflexivity. Qed.

Lemma scan_items_count : forall fuel s l u, scan_items_f fuel s = Some (l, u) -> (length l <= scan_iters_f fuel s)%nat.
Proof.
  induction fuel as [|f IH]; intros s l u H; [discriminate|].
  cbn [scan_items_f scan_iters_f] in *. unfold scan1x in H.
  destruct (scan1 s) as [k lx rest | rest]; cbn [res_rest] in *.
  - destruct k; try (inversion H; subst; cbn; lia);
      (destruct (scan_items_f f rest) as [[l0 u0]|] eqn:E; [|discriminate]; inversion H; subst;
       specialize (IH _ _ _ E); cbn [length]; lia).
  - destruct (scan_items_f f rest) as [[l0 u0]|] eqn:E; [|discriminate]. inversion H; subst.
    specialize (IH _ _ _ E). cbn [length]. lia.
Qed.

Theorem scan_reads_linear : forall s l u, scan_items s = Some (l, u) -> (scan_reads l <= 4 * slen s + 3)%nat.
Proof.
  intros s l u H. pose proof (scan_items_count _ _ _ _ H) as Hc.
  pose proof (scan_iters_f_bound (S (slen s)) s) as Hb.
  destruct (scan_covers _ _ _ H) as [Hcov _].
  assert (Hlen : slen s = fold_right (fun i acc => slen (item_span i) + acc)%nat (slen u) l) by (rewrite Hcov at 1; apply items_cover_len).
  assert (Hsum : forall l0 n, (scan_reads l0 + n = fold_right (fun i acc => slen (item_span i) + acc) n l0 + 3 * length l0)%nat).
  { induction l0 as [|i r IHr]; intros n; cbn; [lia|]. specialize (IHr n). unfold scan_reads in IHr. lia. }
  specialize (Hsum l (slen u)). lia.
Qed.
