(* proofs/RenameTc.v — C14, verdict half on the EXECUTABLE checker (Tc.v / TcTop.v):
   `tc_form`, the preliminary checks and `tc_program` commute with a renaming r whose four maps
   (channel identifiers, function names, type names, choice labels) are injective and whose
   channel map fixes "" — the result of checking the renamed program is the renamed result
   (same verdict, same error class, renamed annotated program).
   The only hypothesis besides injectivity is `Hkey` (EqualType's printed memo keys of renamed types
   collide exactly when the original keys do, on types whose names satisfy okT/okL); the invariant
   "every type in play has okT/okL names" is threaded through the checker here. *)
Require Import Grits.Base Grits.ModeDefs Grits.Modes Grits.STypes Grits.Forms Grits.Subst Grits.Infer
               Grits.TcDeps Grits.Expand Grits.Tc Grits.TcTop
               Grits.spec.Rename Grits.proofs.TcInv Grits.proofs.TcTotal Grits.proofs.PermTc Grits.proofs.RenameTypes Grits.proofs.RenameSubst.

Definition tmap {A B} (h : A -> B) (x : tcr A) : tcr B :=
  match x with TOk a => TOk (h a) | TErr w => TErr w | TPanic w => TPanic w | THang w => THang w end.

Lemma sim_bind {A A' B B'} (h : A -> A') (hb : B -> B') (x : tcr A) (x' : tcr A') k k' :
  x' = tmap h x -> (forall a, x = TOk a -> k' (h a) = tmap hb (k a)) ->
  tbind x' k' = tmap hb (tbind x k).
Proof. intros -> H. destruct x; cbn; auto. Qed.

Lemma tmap_id {A} (x : tcr A) : tmap (fun a => a) x = x.
Proof. destruct x; reflexivity. Qed.
Lemma lift_omap {A B} (h : A -> B) (o : outcome A) : lift (omap h o) = tmap h (lift o).
Proof. destruct o; reflexivity. Qed.

Definition rn_fsig (r : renaming) (s : fsig) : fsig :=
  {| fs_name := rf r (fs_name s); fs_params := map (rn_name r) (fs_params s); fs_type := rn_osty r (fs_type s) |}.
Definition rn_sigma (r : renaming) (Sg : sigma) : sigma := map (rn_fsig r) Sg.
Global Arguments rn_sigma : simpl never.

Definition okot (okT okL : string -> Prop) (okM : mode -> Prop) (NE : Prop) (t : option sty) : Prop :=
  match t with Some t => okt okT okL okM NE t | None => True end.
(* the only annotation of a form the checker reads is that of the new name of a cut; it is a RAW type
   (modes not yet inferred): anym *)
Fixpoint okform (okT okL : string -> Prop) (NE : Prop) (f : form) : Prop :=
  match f with
  | FRecv _ _ _ k | FWait _ k | FSplit _ _ _ k | FShift _ _ k | FDrop _ k | FPrint _ k => okform okT okL NE k
  | FCase _ bs => okbranches okT okL NE bs
  | FNew x b k => okot okT okL anym NE (nty x) /\ okform okT okL NE b /\ okform okT okL NE k
  | _ => True
  end
with okbranches (okT okL : string -> Prop) (NE : Prop) (b : branches) : Prop :=
  match b with BrNil => True | BrCons _ _ k rest => okform okT okL NE k /\ okbranches okT okL NE rest end.

Section Tc.
Variable r : renaming.
Hypothesis Hc : injective (rc r).
Hypothesis Hc0 : rc r "" = "".
Hypothesis Hf : injective (rf r).
Hypothesis Ht : injective (rt r).
Hypothesis Hl : injective (rl r).
Variable okT okL : string -> Prop.
Variable NE : Prop.
Hypothesis Hkey : forall s t s' t', okt okT okL pm NE s -> okt okT okL pm NE t -> okt okT okL pm NE s' -> okt okT okL pm NE t' ->
  (eq_key (rn_sty r s) (rn_sty r t) = eq_key (rn_sty r s') (rn_sty r t') <-> eq_key s t = eq_key s' t').

Notation rs := (rn_sty r).
Notation rb := (rn_brs r).
Notation rO := (rn_osty r).
Notation rD := (rn_tenv r).
Notation rN := (rn_name r).
Notation rF := (rn_form r).
Notation rB := (rn_branches r).
Notation rC := (kvmap (rc r) (rn_osty r)).
Notation rSg := (rn_sigma r).
Notation okt := (okt okT okL pm NE).
Notation okr := (RenameTypes.okt okT okL anym NE).
Notation okbrs := (okbrs okT okL pm NE).
Notation okot := (okot okT okL pm NE).
Notation okotr := (RenameTc.okot okT okL anym NE).
Notation okform := (okform okT okL NE).
Notation okbranches := (okbranches okT okL NE).
Notation okD := (okD okT okL pm NE).
Notation okDr := (RenameTypes.okD okT okL anym NE).

Definition okctx (g : ctx) : Prop := Forall (fun kv => okot (snd kv)) g.
Definition oknames (ns : list name) : Prop := Forall (fun n => okot (nty n)) ns.
Definition oksig (s : fsig) : Prop := okot (fs_type s) /\ oknames (fs_params s).
Definition oksigma (Sg : sigma) : Prop := Forall oksig Sg.

(* the relation between the shadow (explicit provider name) of the two runs: only its identifier is read *)
Definition shrel (sh' sh : option name) : Prop :=
  match sh', sh with
  | Some a', Some a => ident a' = rc r (ident a)
  | None, None => True
  | _, _ => False
  end.

(* ---------- ok bookkeeping ---------- *)
Lemma okctx_nil : okctx []. Proof. constructor. Qed.
Lemma okctx_aremove k g : okctx g -> okctx (aremove k g).
Proof. induction 1 as [|[k' v] g Hv _ IH]; cbn; [constructor|]. destruct (String.eqb k k'); auto. constructor; auto. Qed.
Lemma okctx_aset k t g : okot t -> okctx g -> okctx (aset k t g).
Proof. intros Ht0 Hg. constructor; [exact Ht0 | apply okctx_aremove, Hg]. Qed.
Lemma okctx_alookup k g t : okctx g -> alookup k g = Some t -> okot t.
Proof.
  induction 1 as [|[k' v] g Hv _ IH]; cbn; [discriminate|].
  destruct (String.eqb k k'); [intros E; inversion E; subst; exact Hv | exact IH].
Qed.
Lemma okctx_snd g : okctx g -> Forall okot (map snd g).
Proof. induction 1; cbn; constructor; auto. Qed.

Lemma okot_unfold D t u : okD D -> okot t -> unfold_opt D t = TOk u -> okot u.
Proof.
  intros HD Ht0 H. destruct t as [t|]; cbn [unfold_opt] in H; [|inversion H; exact I].
  destruct (unfold D t) as [[u'|]| |] eqn:E; cbn [lift] in H; inversion H; subst; cbn [okot]; [|exact I].
  eapply okt_unfold; eauto.
Qed.

(* ---------- elementary commutations ---------- *)
Lemma unfold_opt_sim D t' t : t' = rO t -> unfold_opt (rD D) t' = tmap rO (unfold_opt D t).
Proof.
  intros ->. destruct t as [t|]; cbn [rn_osty option_map unfold_opt]; [|reflexivity].
  rewrite (unfold_rn r Ht). apply lift_omap.
Qed.

Lemma equal_opt_sim D a' b' a b : a' = rO a -> b' = rO b -> okD D -> okot a -> okot b ->
  equal_opt (rD D) a' b' = tmap (fun e => e) (equal_opt D a b).
Proof.
  intros -> -> HD Ha Hb. rewrite tmap_id.
  destruct a as [a|], b as [b|]; cbn [rn_osty option_map equal_opt].
  - rewrite (equal_type_rn r Ht Hl okT okL pm NE Hkey D a b HD Ha Hb). destruct a; reflexivity.
  - destruct a; reflexivity.
  - destruct b; reflexivity.
  - reflexivity.
Qed.

Lemma guard_sim b' b w : b' = b -> guard b' w = tmap (fun u => u) (guard b w).
Proof. intros ->. now rewrite tmap_id. Qed.

Lemma type_mismatch_sim {A B} (h : A -> B) t' t w : t' = rO t -> @type_mismatch B t' w = tmap h (@type_mismatch A t w).
Proof. intros ->. destruct t; reflexivity. Qed.

Lemma linear_gamma_sim g : linear_gamma (rC g) = tmap (fun u => u) (linear_gamma g).
Proof. destruct g; reflexivity. Qed.

Lemma need_sim t' t w : t' = rO t -> need t' w = tmap rs (need t w).
Proof. intros ->. destruct t; reflexivity. Qed.

Definition rn3 (p : sty * sty * mode) : sty * sty * mode := let '(a, b, m) := p in (rs a, rs b, m).
Definition rnb2 (p : brs * mode) : brs * mode := let '(b, m) := p in (rb b, m).
Definition rnm3 (p : mode * mode * sty) : mode * mode * sty := let '(f, t, a) := p in (f, t, rs a).
Lemma as_tensor_rn t : as_tensor (rO t) = option_map rn3 (as_tensor t).
Proof. destruct t as [[]|]; reflexivity. Qed.
Lemma as_lolli_rn t : as_lolli (rO t) = option_map rn3 (as_lolli t).
Proof. destruct t as [[]|]; reflexivity. Qed.
Lemma as_plus_rn t : as_plus (rO t) = option_map rnb2 (as_plus t).
Proof. destruct t as [[]|]; reflexivity. Qed.
Lemma as_with_rn t : as_with (rO t) = option_map rnb2 (as_with t).
Proof. destruct t as [[]|]; reflexivity. Qed.
Lemma as_up_rn t : as_up (rO t) = option_map rnm3 (as_up t).
Proof. destruct t as [[]|]; reflexivity. Qed.
Lemma as_down_rn t : as_down (rO t) = option_map rnm3 (as_down t).
Proof. destruct t as [[]|]; reflexivity. Qed.
Lemma is_unit_rn t : is_unit (rO t) = is_unit t.
Proof. destruct t as [[]|]; reflexivity. Qed.

Lemma is_provider_sim n sh' sh : shrel sh' sh -> is_provider (rN n) sh' = is_provider n sh.
Proof.
  unfold is_provider, shrel. cbn [rn_name is_self ident]. intros H. f_equal.
  destruct sh' as [a'|], sh as [a|]; try contradiction; [|reflexivity]. rewrite H. apply (eqb_inj _ Hc).
Qed.
Lemma shadow_eqb_sim n sh' sh : shrel sh' sh ->
  match sh' with Some s => String.eqb (ident s) (ident (rN n)) | None => false end =
  match sh with Some s => String.eqb (ident s) (ident n) | None => false end.
Proof.
  unfold shrel. intros H. destruct sh' as [a'|], sh as [a|]; try contradiction; [|reflexivity].
  rewrite H. cbn [rn_name ident]. apply (eqb_inj _ Hc).
Qed.

Definition rn_tc (p : option sty * ctx) : option sty * ctx := (rO (fst p), rC (snd p)).
Definition rn_co (p : option (option sty) * ctx) : option (option sty) * ctx := (option_map rO (fst p), rC (snd p)).

Lemma consume_sim n g : consume (rN n) (rC g) = tmap rn_tc (consume n g).
Proof.
  unfold consume. cbn [rn_name is_self ident]. destruct (is_self n); [reflexivity|].
  rewrite (alookup_inj _ Hc). destruct (alookup (ident n) g); cbn [option_map tmap]; [|reflexivity].
  unfold rn_tc. cbn [fst snd]. now rewrite (aremove_inj _ Hc).
Qed.
Lemma consume_opt_rn n g : consume_opt (rN n) (rC g) = rn_co (consume_opt n g).
Proof.
  unfold consume_opt. cbn [rn_name is_self ident]. destruct (is_self n); [reflexivity|].
  rewrite (alookup_inj _ Hc). destruct (alookup (ident n) g); cbn [option_map]; [|reflexivity].
  unfold rn_co. cbn [fst snd option_map]. now rewrite (aremove_inj _ Hc).
Qed.
Lemma consume_maybe_self_sim n sh' sh g p' p : shrel sh' sh -> p' = rO p ->
  consume_maybe_self (rN n) sh' (rC g) p' = tmap rn_tc (consume_maybe_self n sh g p).
Proof.
  intros Hs ->. unfold consume_maybe_self. rewrite (shadow_eqb_sim n _ _ Hs).
  cbn [rn_name is_self ident]. destruct (is_self n); [reflexivity|].
  destruct (match sh with Some s => String.eqb (ident s) (ident n) | None => false end); [reflexivity|].
  rewrite (alookup_inj _ Hc). destruct (alookup (ident n) g); cbn [option_map tmap]; [|reflexivity].
  unfold rn_tc. cbn [fst snd]. now rewrite (aremove_inj _ Hc).
Qed.
Lemma consume_maybe_self_opt_rn n sh' sh g p' p : shrel sh' sh -> p' = rO p ->
  consume_maybe_self_opt (rN n) sh' (rC g) p' = rn_co (consume_maybe_self_opt n sh g p).
Proof.
  intros Hs ->. unfold consume_maybe_self_opt. rewrite (shadow_eqb_sim n _ _ Hs).
  cbn [rn_name is_self ident]. destruct (is_self n); [reflexivity|].
  destruct (match sh with Some s => String.eqb (ident s) (ident n) | None => false end); [reflexivity|].
  rewrite (alookup_inj _ Hc). destruct (alookup (ident n) g); cbn [option_map]; [|reflexivity].
  unfold rn_co. cbn [fst snd option_map]. now rewrite (aremove_inj _ Hc).
Qed.

Lemma ctx_has_rn g x : ctx_has (rC g) (rc r x) = ctx_has g x.
Proof. unfold ctx_has. apply (amem_inj _ Hc). Qed.
Lemma aset_rn x t g : aset (rc r x) (rO t) (rC g) = rC (aset x t g).
Proof. apply (aset_inj _ Hc). Qed.

(* polarities: only `pol` and `nty` of a name are read *)
Definition polrel (n' n : name) : Prop := pol n' = pol n /\ nty n' = rO (nty n).
Lemma pol_valid_sim n' n : polrel n' n -> pol_valid n' = pol_valid n.
Proof.
  intros [H1 H2]. unfold pol_valid. rewrite H1, H2. destruct (pol n); [|reflexivity].
  destruct (nty n) as [t|]; cbn [rn_osty option_map]; [|reflexivity]. now rewrite polarity_of_rn.
Qed.
Lemma check_pols_sim l' l : Forall2 polrel l' l -> check_pols l' = tmap (fun u => u) (check_pols l).
Proof.
  rewrite tmap_id. induction 1 as [|n' n l' l H _ IH]; cbn [check_pols]; [reflexivity|].
  rewrite (pol_valid_sim _ _ H). destruct (pol_valid n) as [[|]| | |]; cbn [tbind]; auto.
Qed.

Lemma indep_one_sim a' b' a b : a' = rO a -> b' = rO b -> indep_one a' b' = tmap (fun u => u) (indep_one a b).
Proof.
  intros -> ->. rewrite tmap_id. unfold indep_one.
  destruct a as [a|]; cbn [rn_osty option_map need tbind]; [|reflexivity].
  destruct b as [b|]; cbn [rn_osty option_map need tbind]; [|reflexivity].
  now rewrite !mode_of_rn.
Qed.
Lemma indep_all_sim ls b' b : b' = rO b -> indep_all (map rO ls) b' = tmap (fun u => u) (indep_all ls b).
Proof.
  intros ->. rewrite tmap_id. induction ls as [|l ls IH]; cbn [map indep_all]; [reflexivity|].
  rewrite (indep_one_sim _ _ l b eq_refl eq_refl), tmap_id. destruct (indep_one l b); cbn [tbind]; auto.
Qed.
Lemma map_snd_rC g : map snd (rC g) = map rO (map snd g).
Proof. unfold kvmap. rewrite !map_map. reflexivity. Qed.

Definition rn_cc (p : ctx * ctx) : ctx * ctx := (rC (fst p), rC (snd p)).
Lemma split_gamma_sim D : forall ns g acc,
  split_gamma (rD D) (rC g) (map rN ns) (rC acc) = tmap rn_cc (split_gamma D g ns acc).
Proof.
  induction ns as [|n ns IH]; intros g acc; cbn [map split_gamma]; [reflexivity|].
  change (is_self (rN n)) with (is_self n). destruct (is_self n); [apply IH|].
  rewrite consume_opt_rn. destruct (consume_opt n g) as [[t|] g1]; cbn [rn_co fst snd option_map]; [|reflexivity].
  apply (sim_bind rO rn_cc).
  - apply unfold_opt_sim. reflexivity.
  - intros t' _. change (ident (rN n)) with (rc r (ident n)). rewrite aset_rn. apply IH.
Qed.
Lemma okctx_split D : okD D -> forall ns g acc gl gr, okctx g -> okctx acc ->
  split_gamma D g ns acc = TOk (gl, gr) -> okctx gl /\ okctx gr.
Proof.
  intros HD. induction ns as [|n ns IH]; intros g acc gl gr Hg Ha H; cbn [split_gamma] in H.
  - inversion H; subst; auto.
  - destruct (is_self n); [exact (IH _ _ _ _ Hg Ha H)|].
    destruct (consume_opt n g) as [[t|] g1] eqn:E; cbv iota in H; [|discriminate H].
    apply consume_opt_some in E. destruct E as (_ & El & ->).
    apply tbind_ok in H. destruct H as (t' & Eu & H).
    eapply IH; [| |exact H].
    + apply okctx_aremove, Hg.
    + apply okctx_aset; [|exact Ha]. apply (okot_unfold D t t' HD); [|exact Eu].
      eapply okctx_alookup; [exact Hg | exact El].
Qed.

Lemma name_in_names_rn c l : name_in_names (rN c) (map rN l) = name_in_names c l.
Proof. unfold name_in_names. induction l as [|x l IH]; cbn [map existsb]; [reflexivity|]. now rewrite (name_equal_rn r Hc), IH. Qed.

Lemma sig_lookup_rn Sg fn : sig_lookup (rSg Sg) (rf r fn) = option_map (rn_fsig r) (sig_lookup Sg fn).
Proof.
  unfold rn_sigma. induction Sg as [|s Sg IH]; cbn [map sig_lookup]; [reflexivity|]. rewrite IH.
  destruct (sig_lookup Sg fn); cbn [option_map]; [reflexivity|]. cbn [rn_fsig fs_name]. rewrite (eqb_inj _ Hf).
  destruct (String.eqb fn (fs_name s)); reflexivity.
Qed.
Lemma oksigma_lookup Sg fn s : oksigma Sg -> sig_lookup Sg fn = Some s -> oksig s.
Proof.
  induction 1 as [|s0 Sg H0 _ IH]; cbn [sig_lookup]; [discriminate|].
  destruct (sig_lookup Sg fn); [intros E; inversion E; subst; auto|].
  destruct (String.eqb fn (fs_name s0)); [intros E; inversion E; subst; auto | discriminate].
Qed.

(* ---------- tactics ---------- *)
Ltac solve_rO :=
  match goal with
  | |- Some (rn_sty r ?a) = rn_osty r _ => exact (eq_refl (rn_osty r (Some a)))
  | |- None = rn_osty r _ => exact (eq_refl (rn_osty r None))
  | |- rn_osty r ?a = rn_osty r _ => reflexivity
  | |- _ => reflexivity
  end.

Ltac inv_as H := first
  [ apply as_tensor_inv in H | apply as_lolli_inv in H | apply as_plus_inv in H | apply as_with_inv in H
  | apply as_up_inv in H | apply as_down_inv in H ].


(* ---------- forward facts ---------- *)
Lemma okt_as_tensor t a b m : okot t -> as_tensor t = Some (a, b, m) -> okt a /\ okt b.
Proof. intros H E. apply as_tensor_inv in E. subst t. exact (proj2 H). Qed.
Lemma okt_as_lolli t a b m : okot t -> as_lolli t = Some (a, b, m) -> okt a /\ okt b.
Proof. intros H E. apply as_lolli_inv in E. subst t. exact (proj2 H). Qed.
Lemma okt_as_plus t bs m : okot t -> as_plus t = Some (bs, m) -> okbrs bs.
Proof. intros H E. apply as_plus_inv in E. subst t. exact (proj2 (proj2 H)). Qed.
Lemma okt_as_with t bs m : okot t -> as_with t = Some (bs, m) -> okbrs bs.
Proof. intros H E. apply as_with_inv in E. subst t. exact (proj2 (proj2 H)). Qed.
Lemma okt_as_up t f to a : okot t -> as_up t = Some (f, to, a) -> okt a.
Proof. intros H E. apply as_up_inv in E. subst t. exact (proj2 (proj2 H)). Qed.
Lemma okt_as_down t f to a : okot t -> as_down t = Some (f, to, a) -> okt a.
Proof. intros H E. apply as_down_inv in E. subst t. exact (proj2 (proj2 H)). Qed.

Lemma ok_consume n g t g1 : okctx g -> consume n g = TOk (t, g1) -> okot t /\ okctx g1.
Proof.
  intros Hg E. apply consume_ok in E. destruct E as (_ & El & ->). split.
  - eapply okctx_alookup; eauto.
  - apply okctx_aremove, Hg.
Qed.
Lemma ok_consume_opt n g fl g1 : okctx g -> consume_opt n g = (fl, g1) ->
  okot (match fl with Some t => t | None => None end) /\ okctx g1.
Proof.
  intros Hg E. destruct fl as [t|].
  - apply consume_opt_some in E. destruct E as (_ & El & ->). split; [eapply okctx_alookup; eauto | apply okctx_aremove, Hg].
  - apply consume_opt_none in E. subst. split; [exact I | exact Hg].
Qed.
Lemma ok_consume_ms n sh g p t g1 : okctx g -> okot p -> consume_maybe_self n sh g p = TOk (t, g1) -> okot t /\ okctx g1.
Proof.
  unfold consume_maybe_self. intros Hg Hp E.
  destruct (is_self n); [inversion E; subst; auto|].
  destruct (match sh with Some s => String.eqb (ident s) (ident n) | None => false end); [inversion E; subst; auto|].
  destruct (alookup (ident n) g) eqn:El; inversion E; subst. split; [eapply okctx_alookup; eauto | apply okctx_aremove, Hg].
Qed.
Lemma ok_consume_ms_opt n sh g p fl g1 : okctx g -> okot p -> consume_maybe_self_opt n sh g p = (fl, g1) ->
  okot (match fl with Some t => t | None => None end) /\ okctx g1.
Proof.
  unfold consume_maybe_self_opt. intros Hg Hp E.
  destruct (is_self n); [inversion E; subst; auto|].
  destruct (match sh with Some s => String.eqb (ident s) (ident n) | None => false end); [inversion E; subst; auto|].
  destruct (alookup (ident n) g) eqn:El; inversion E; subst; [|split; [exact I | exact Hg]].
  split; [eapply okctx_alookup; eauto | apply okctx_aremove, Hg].
Qed.
Lemma ok_need t w a : okot t -> need t w = TOk a -> okt a.
Proof. intros H E. apply need_ok in E. subst t. exact H. Qed.
Lemma ok_add_missing D t a : okr t -> lift (add_missing D t) = TOk a -> okr a.
Proof. intros H E. apply lift_ok in E. eapply okr_add_missing; eauto. Qed.
Lemma ok_guard_wf D a w u : okr a -> guard (check_wf D a) w = TOk u -> okt a.
Proof. intros H E. apply guard_ok in E. eapply okr_check_wf; eauto. Qed.
Lemma okctx_aset_aset k t w g : okot t -> okctx g -> okctx (aset k t (aset k w g)).
Proof. intros H1 H2. rewrite aset_aset. apply okctx_aset; assumption. Qed.

(* ---------------------------------------------------------------- the forms *)
Section Forms.
Variable D : tenv.
Variable Sg : sigma.
Hypothesis HD : okD D.
Hypothesis HSg : oksigma Sg.

Definition P_form (f : form) : Prop :=
  forall g sh' sh pty' pty, shrel sh' sh -> pty' = rO pty -> okctx g -> okot pty -> okform f ->
  tc_form (rD D) (rSg Sg) (rC g) sh' pty' (rF f) = tmap rF (tc_form D Sg g sh pty f).

Definition rn_bs (p : branches * list string) : branches * list string := (rB (fst p), map (rl r) (snd p)).
Definition P_brs (b : branches) : Prop :=
  (forall g bs seen, okctx g -> okbrs bs -> okbranches b ->
     tc_branches_provider (rD D) (rSg Sg) (rC g) (rb bs) (map (rl r) seen) (rB b) =
     tmap rn_bs (tc_branches_provider D Sg g bs seen b)) /\
  (forall g sh' sh pty' pty bs seen, shrel sh' sh -> pty' = rO pty -> okctx g -> okot pty -> okbrs bs -> okbranches b ->
     tc_branches_client (rD D) (rSg Sg) (rC g) sh' pty' (rb bs) (map (rl r) seen) (rB b) =
     tmap rn_bs (tc_branches_client D Sg g sh pty bs seen b)).

Ltac ok :=
  cbn [okot RenameTypes.okt fst snd] in *;
  first
  [ assumption | exact I
  | match goal with
    | |- okctx (aset ?k _ (aset ?k _ _)) => apply okctx_aset_aset; ok
    | |- okctx (aset _ _ _) => apply okctx_aset; ok
    | |- okctx (aremove _ _) => apply okctx_aremove; ok
    | |- okctx [] => apply okctx_nil
    | H : _ /\ _ |- _ => destruct H; ok
    end ].

(* derive the ok-facts an equation gives *)
Ltac learn E :=
  try match type of E with
  | unfold_opt D ?t = TOk ?u =>
    let H := fresh "Hok" in assert (H : okot u) by (apply (okot_unfold D t u HD); [ok | exact E])
  | consume ?n ?g = TOk (?t, ?g1) =>
    let H := fresh "Hok" in assert (H : okot t /\ okctx g1) by (apply (ok_consume n g t g1); [ok | exact E]); destruct H
  | consume_maybe_self ?n ?sh ?g ?p = TOk (?t, ?g1) =>
    let H := fresh "Hok" in assert (H : okot t /\ okctx g1) by (apply (ok_consume_ms n sh g p t g1); [ok | ok | exact E]); destruct H
  | consume_opt ?n ?g = (?fl, ?g1) =>
    let H := fresh "Hok" in
    assert (H : okot (match fl with Some t => t | None => None end) /\ okctx g1) by (apply (ok_consume_opt n g fl g1); [ok | exact E]); destruct H
  | consume_maybe_self_opt ?n ?sh ?g ?p = (?fl, ?g1) =>
    let H := fresh "Hok" in
    assert (H : okot (match fl with Some t => t | None => None end) /\ okctx g1) by (apply (ok_consume_ms_opt n sh g p fl g1); [ok | ok | exact E]); destruct H
  | need ?t ?w = TOk ?a =>
    let H := fresh "Hok" in assert (H : okt a) by (apply (ok_need t w a); [ok | exact E])
  | lift (add_missing D ?t) = TOk ?a =>
    let H := fresh "Hok" in assert (H : okr a) by (apply (ok_add_missing D t a); [ok | exact E])
  | guard (check_wf D ?a) ?w = TOk ?u =>
    match goal with
    | Hr : okr a |- _ => let H := fresh "Hok" in assert (H : okt a) by (exact (ok_guard_wf D a w u Hr E))
    end
  | split_gamma D ?g ?ns [] = TOk (?gl, ?gr) =>
    let H := fresh "Hok" in assert (H : okctx gl /\ okctx gr) by (apply (okctx_split D HD ns g [] gl gr); [ok | apply okctx_nil | exact E]); destruct H
  | as_tensor ?t = Some (?a, ?b, ?m) =>
    let H := fresh "Hok" in assert (H : okt a /\ okt b) by (apply (okt_as_tensor t a b m); [ok | exact E]); destruct H
  | as_lolli ?t = Some (?a, ?b, ?m) =>
    let H := fresh "Hok" in assert (H : okt a /\ okt b) by (apply (okt_as_lolli t a b m); [ok | exact E]); destruct H
  | as_plus ?t = Some (?bs, ?m) =>
    let H := fresh "Hok" in assert (H : okbrs bs) by (apply (okt_as_plus t bs m); [ok | exact E])
  | as_with ?t = Some (?bs, ?m) =>
    let H := fresh "Hok" in assert (H : okbrs bs) by (apply (okt_as_with t bs m); [ok | exact E])
  | as_up ?t = Some (?f, ?to, ?a) =>
    let H := fresh "Hok" in assert (H : okt a) by (apply (okt_as_up t f to a); [ok | exact E])
  | as_down ?t = Some (?f, ?to, ?a) =>
    let H := fresh "Hok" in assert (H : okt a) by (apply (okt_as_down t f to a); [ok | exact E])
  | find_br ?l ?bs = Some ?a =>
    let H := fresh "Hok" in assert (H : okt a) by (apply (okt_find_br okT okL pm NE l bs a); [ok | exact E])
  end.

Ltac polrels := repeat (first [apply Forall2_nil | apply Forall2_cons]); split; reflexivity.

Ltac boolnorm Hsh :=
  cbn [rn_name ident is_self];
  rewrite ?(is_provider_sim _ _ _ Hsh), ?is_unit_rn, ?ctx_has_rn, ?(name_equal_rn r Hc), ?mode_of_rn,
          ?(str_mem_inj _ Hl), ?brs_len_rn, ?(has_continuation_rn r), ?name_in_names_rn, ?map_length, ?(check_wf_rn r Ht Hl).

Ltac okf :=
  cbn [RenameTc.okform RenameTc.okbranches] in *;
  first [assumption | exact I | match goal with H : _ /\ _ |- _ => destruct H; okf end].

Ltac sim1 Hsh :=
  match goal with
  | |- _ = tmap _ (unfold_opt _ _) => apply unfold_opt_sim; solve_rO
  | |- _ = tmap _ (equal_opt _ _ _) => apply equal_opt_sim; [solve_rO | solve_rO | exact HD | ok | ok]
  | |- _ = tmap _ (guard _ _) => apply guard_sim; boolnorm Hsh; reflexivity
  | |- _ = tmap _ (consume _ _) => apply consume_sim
  | |- _ = tmap _ (consume_maybe_self _ _ _ _) => apply consume_maybe_self_sim; [exact Hsh | solve_rO]
  | |- _ = tmap _ (check_pols _) => apply check_pols_sim; polrels
  | |- _ = tmap _ (linear_gamma _) => apply linear_gamma_sim
  | |- _ = tmap _ (need _ _) => apply need_sim; solve_rO
  | |- _ = tmap _ (lift (down_o _ _)) => rewrite ?mode_of_rn; symmetry; apply tmap_id
  | |- _ = tmap _ (lift (up_o _ _)) => rewrite ?mode_of_rn; symmetry; apply tmap_id
  | |- _ = tmap _ (lift (polarity_of _)) => rewrite polarity_of_rn; symmetry; apply tmap_id
  | |- _ = tmap _ (lift (add_missing _ _)) => rewrite (add_missing_rn r Ht), lift_omap; reflexivity
  | |- _ = tmap _ (indep_all _ _) => rewrite ?map_snd_rC; apply indep_all_sim; solve_rO
  | |- _ = tmap _ (indep_one _ _) => apply indep_one_sim; solve_rO
  | |- _ = tmap _ (split_gamma D ?g ?ns []) => apply (split_gamma_sim D ns g [])
  | IH : P_brs ?b |- _ = tmap _ (tc_branches_provider D Sg _ _ _ ?b) =>
    try change (@nil string) with (map (rl r) []);
    repeat match goal with |- context [rl r ?l :: map (rl r) ?s] => change (rl r l :: map (rl r) s) with (map (rl r) (l :: s)) end;
    apply (proj1 IH); [ok | ok | okf]
  | IH : P_brs ?b |- _ = tmap _ (tc_branches_client D Sg _ _ _ _ _ ?b) =>
    try change (@nil string) with (map (rl r) []);
    repeat match goal with |- context [rl r ?l :: map (rl r) ?s] => change (rl r l :: map (rl r) s) with (map (rl r) (l :: s)) end;
    apply (proj2 IH); [exact Hsh | solve_rO | ok | ok | ok | okf]
  | IH : P_form ?k |- _ = tmap _ (tc_form D Sg _ _ _ ?k) =>
    cbn [rn_name ident nty];
    repeat match goal with |- context [aset (rc r ?x) (Some (rn_sty r ?a)) (rC ?g)] =>
             change (aset (rc r x) (Some (rn_sty r a)) (rC g)) with (aset (rc r x) (rO (Some a)) (rC g)) end;
    rewrite ?aset_rn;
    apply IH; [first [exact Hsh | exact eq_refl | exact I] | solve_rO | ok | ok | okf]
  | |- _ = tmap ?h (if ?e then TOk tt else _) =>
    unify h (fun u : unit => u); destruct e; [reflexivity|];
    first [ apply type_mismatch_sim; solve_rO
          | repeat match goal with
                   | |- context [match rn_osty r ?x with _ => _ end] => destruct x; cbn [rn_osty option_map]
                   | |- context [match ?x with _ => _ end] => destruct x
                   end; reflexivity ]
  end.

Ltac post E :=
  repeat match goal with p : (_ * _)%type |- _ => destruct p end;
  repeat match goal with u : unit |- _ => destruct u end;
  cbn [rn_tc rn_co rn_cc rn_bs fst snd] in *;
  learn E.

Ltac step Hsh :=
  cbv zeta beta;
  match goal with
  | |- tbind _ _ = tmap _ (tbind _ _) =>
    let E := fresh "E" in eapply sim_bind; [sim1 Hsh | intros ? E; post E]
  | |- type_mismatch _ _ = tmap _ (type_mismatch _ _) => apply type_mismatch_sim; solve_rO
  | |- match as_tensor (rO ?t) with _ => _ end = _ =>
    let E := fresh "E" in rewrite as_tensor_rn; destruct (as_tensor t) as [[[? ?] ?]|] eqn:E; cbn [option_map rn3]; learn E
  | |- match as_lolli (rO ?t) with _ => _ end = _ =>
    let E := fresh "E" in rewrite as_lolli_rn; destruct (as_lolli t) as [[[? ?] ?]|] eqn:E; cbn [option_map rn3]; learn E
  | |- match as_plus (rO ?t) with _ => _ end = _ =>
    let E := fresh "E" in rewrite as_plus_rn; destruct (as_plus t) as [[? ?]|] eqn:E; cbn [option_map rnb2]; learn E
  | |- match as_with (rO ?t) with _ => _ end = _ =>
    let E := fresh "E" in rewrite as_with_rn; destruct (as_with t) as [[? ?]|] eqn:E; cbn [option_map rnb2]; learn E
  | |- match as_up (rO ?t) with _ => _ end = _ =>
    let E := fresh "E" in rewrite as_up_rn; destruct (as_up t) as [[[? ?] ?]|] eqn:E; cbn [option_map rnm3]; learn E
  | |- match as_down (rO ?t) with _ => _ end = _ =>
    let E := fresh "E" in rewrite as_down_rn; destruct (as_down t) as [[[? ?] ?]|] eqn:E; cbn [option_map rnm3]; learn E
  | |- match find_br (rl r ?l) (rb ?bs) with _ => _ end = _ =>
    let E := fresh "E" in rewrite (find_br_rn r Hl); destruct (find_br l bs) eqn:E; cbn [option_map]; learn E
  | |- (let '(_, _) := consume_opt (rN ?n) (rC ?g) in _) = _ =>
    let E := fresh "E" in rewrite consume_opt_rn; destruct (consume_opt n g) as [[[?|]|] ?] eqn:E; cbn [rn_co fst snd option_map]; learn E
  | |- (let '(_, _) := consume_maybe_self_opt (rN ?n) _ (rC ?g) _ in _) = tmap _ (let '(_, _) := consume_maybe_self_opt _ ?sh _ ?p in _) =>
    let E := fresh "E" in rewrite (consume_maybe_self_opt_rn n _ sh g _ p Hsh) by solve_rO;
    destruct (consume_maybe_self_opt n sh g p) as [[[?|]|] ?] eqn:E; cbn [rn_co fst snd option_map]; learn E
  | |- (if _ then _ else _) = tmap _ (if ?b then _ else _) =>
    boolnorm Hsh; destruct b eqn:?
  | |- match rn_osty r ?t with _ => _ end = tmap _ (match ?t with _ => _ end) =>
    let E := fresh "E" in destruct t eqn:E; cbn [rn_osty option_map]
  | |- TErr _ = tmap _ (TErr _) => reflexivity
  | |- TPanic _ = tmap _ (TPanic _) => reflexivity
  | |- TOk _ = tmap _ (TOk _) => reflexivity
  end.

Lemma tc_close_rn c : P_form (FClose c).
Proof.
  intros g sh' sh pty' pty Hsh -> Hg Hp Hfm. cbn [tc_form rn_form].
  repeat step Hsh.
Qed.

Lemma tc_send_rn a b c : P_form (FSend a b c).
Proof.
  intros g sh' sh pty' pty Hsh -> Hg Hp Hfm. cbn [tc_form rn_form].
  repeat step Hsh.
Qed.

Ltac start := intros g sh' sh pty' pty Hsh -> Hg Hp Hfm; cbn [tc_form rn_form].

Lemma tc_sel_rn a l c : P_form (FSel a l c).
Proof. start. repeat step Hsh. Qed.
Lemma tc_fwd_rn a b d : P_form (FFwd a b d).
Proof. start. repeat step Hsh. Qed.
Lemma tc_cast_rn a c : P_form (FCast a c).
Proof. start. repeat step Hsh. Qed.
Lemma tc_wait_rn c k : P_form k -> P_form (FWait c k).
Proof. intros IH. start. repeat step Hsh. Qed.
Lemma tc_drop_rn c k : P_form k -> P_form (FDrop c k).
Proof. intros IH. start. repeat step Hsh. Qed.
Lemma tc_print_rn l k : P_form k -> P_form (FPrint l k).
Proof. intros IH. start. repeat step Hsh. Qed.
Lemma tc_recv_rn p c fr k : P_form k -> P_form (FRecv p c fr k).
Proof. intros IH. start. repeat step Hsh. Qed.
Lemma tc_shift_rn x fr k : P_form k -> P_form (FShift x fr k).
Proof. intros IH. start. repeat step Hsh. Qed.
Lemma tc_split_rn x y fr k : P_form k -> P_form (FSplit x y fr k).
Proof. intros IH. start. repeat step Hsh. Qed.

Lemma tc_case_rn fr bs : P_brs bs -> P_form (FCase fr bs).
Proof.
  intros IH. intros g sh' sh pty' pty Hsh -> Hg Hp Hfm. cbn [rn_form]. rewrite !tc_form_case_eq.
  repeat step Hsh.
Qed.

Lemma tc_brnil_rn : P_brs BrNil.
Proof. split; intros; reflexivity. Qed.

Lemma tc_brcons_rn l pay k rest : P_form k -> P_brs rest -> P_brs (BrCons l pay k rest).
Proof.
  intros IHk IH. split.
  - intros g bs seen Hg Hbs Hfm. cbn [rn_branches]. rewrite !tc_branches_provider_cons.
    assert (Hsh : shrel None None) by exact I.
    repeat step Hsh.
  - intros g sh' sh pty' pty bs seen Hsh -> Hg Hp Hbs Hfm. cbn [rn_branches]. rewrite !tc_branches_client_cons.
    repeat step Hsh.
Qed.

Definition rn_lg (p : list name * ctx) : list name * ctx := (map rN (fst p), rC (snd p)).

Lemma tc_args_sim : forall args params g, okctx g -> oknames params ->
  tc_args (rD D) (rC g) (map rN args) (map rN params) = tmap rn_lg (tc_args D g args params).
Proof.
  assert (Hsh : shrel None None) by exact I.
  induction args as [|a args IH]; intros params g Hg Hps; [reflexivity|].
  destruct params as [|p params]; [reflexivity|].
  inversion Hps as [|? ? Hp1 Hp2]; subst.
  cbn [map tc_args]. change (nty (rN p)) with (rO (nty p)).
  repeat step Hsh.
  eapply sim_bind; [apply IH; [ok | exact Hp2] | intros [? ?] _].
  reflexivity.
Qed.

Lemma tc_call_rn fn args pt : P_form (FCall fn args pt).
Proof.
  start. rewrite sig_lookup_rn. destruct (sig_lookup Sg fn) as [sg|] eqn:Esg; cbn [option_map]; [|reflexivity].
  destruct (oksigma_lookup _ _ _ HSg Esg) as [Hst Hsp].
  cbn [rn_fsig fs_params fs_type]. rewrite !map_length.
  destruct (S (length (fs_params sg)) =? length args)%nat.
  - destruct args as [|a0 rest]; [reflexivity|]. cbn [map].
    eapply sim_bind; [apply guard_sim; change (is_self (rN a0)) with (is_self a0); rewrite (shadow_eqb_sim a0 _ _ Hsh); reflexivity | intros [] _].
    repeat step Hsh.
    eapply sim_bind; [apply tc_args_sim; [ok | exact Hsp] | intros [? ?] _].
    cbn [rn_lg fst snd]. repeat step Hsh.
  - destruct (length (fs_params sg) =? length args)%nat; [|reflexivity].
    repeat step Hsh.
    eapply sim_bind; [apply tc_args_sim; [ok | exact Hsp] | intros [? ?] _].
    cbn [rn_lg fst snd]. repeat step Hsh.
Qed.

Lemma tc_new_rn x body k : P_form body -> P_form k -> P_form (FNew x body k).
Proof.
  intros IHb IHk. start.
  rewrite (free_names_rn1 r Hc).
  cbn [okform] in Hfm. destruct Hfm as (Hx & Hfb & Hfk).
  assert (Eb : ctx_has (rC g) (ident (rN x)) = ctx_has g (ident x)) by apply ctx_has_rn.
  revert Eb. generalize (ctx_has (rC g) (ident (rN x))). intros b' ->.
  change (nty (rN x)) with (rO (nty x)).
  do 4 step Hsh.
  destruct (ctx_has g (ident x)) eqn:Er;
  destruct body; cbn [rn_form has_continuation negb] in *; try discriminate.
  all: try (repeat step Hsh; fail).
  all: step Hsh; rewrite sig_lookup_rn; destruct (sig_lookup Sg f) as [sg|] eqn:Esg; cbn [option_map]; [|reflexivity];
    destruct (oksigma_lookup _ _ _ HSg Esg) as [Hst Hsp]; cbn [rn_fsig fs_type];
    step Hsh;
    (eapply (sim_bind (fun u : unit => u));
     [ destruct (nty x) eqn:En; cbn [rn_osty option_map]; [repeat step Hsh | reflexivity]
     | intros [] _ ]);
    repeat step Hsh.
  all: reflexivity.
Qed.

Theorem tc_form_rn : (forall f, P_form f) /\ (forall b, P_brs b).
Proof.
  apply form_branches_ind; intros.
  - apply tc_send_rn.
  - apply tc_recv_rn; auto.
  - apply tc_sel_rn.
  - apply tc_case_rn; auto.
  - apply tc_new_rn; auto.
  - apply tc_close_rn.
  - apply tc_wait_rn; auto.
  - apply tc_fwd_rn.
  - apply tc_split_rn; auto.
  - apply tc_call_rn.
  - apply tc_cast_rn.
  - apply tc_shift_rn; auto.
  - apply tc_drop_rn; auto.
  - apply tc_print_rn; auto.
  - apply tc_brnil_rn.
  - apply tc_brcons_rn; auto.
Qed.


End Forms.

(* ---------------------------------------------------------------- the top level (TcTop.v) *)
(* two levels: what the parser hands over (raw: modes not yet inferred) and what the preliminary checks
   let through (every mode proper: CheckTypeWellFormedness) *)
Definition oknamesr (ns : list name) : Prop := Forall (fun n => okotr (nty n)) ns.
Definition okfunr (f : fundef) : Prop := okotr (fn_type f) /\ oknamesr (fn_params f) /\ okform (fn_body f).
Definition okprocr (p : procdef) : Prop := okotr (pr_type p) /\ okform (pr_body p).
Definition okprog (p : program) : Prop :=
  okDr (p_types p) /\ Forall okfunr (p_funs p) /\ Forall okprocr (p_procs p) /\ oknamesr (p_assumed p).
Definition okfun (f : fundef) : Prop := okot (fn_type f) /\ oknames (fn_params f) /\ okform (fn_body f).
Definition okproc (p : procdef) : Prop := okot (pr_type p) /\ okform (pr_body p).

Lemma okot_raise D t : okotr t -> sanity_types D (match t with Some t => [t] | None => [] end) = true -> okot t.
Proof.
  destruct t as [t|]; cbn [RenameTc.okot sanity_types forallb]; [|auto]. intros H E. rewrite andb_true_r in E.
  eapply okr_check_wf; eauto.
Qed.
Lemma oknames_raise D ns : oknamesr ns -> sanity_types D (types_of ns) = true -> oknames ns.
Proof.
  unfold sanity_types, types_of. induction 1 as [|n ns Hn _ IH]; cbn [flat_map]; intros E; [constructor|].
  rewrite forallb_app in E. apply andb_prop in E. destruct E as [E1 E2]. constructor; [|apply IH, E2].
  destruct (nty n) as [t|]; cbn [RenameTc.okot forallb] in *; [|exact I]. rewrite andb_true_r in E1.
  eapply okr_check_wf; eauto.
Qed.
Lemma okD_raise D : okDr D -> sanity_typedefs D = Ok true -> okD D.
Proof.
  intros H E d Hd. apply PermTc.sanity_ok_iff in E. destruct E as [_ E]. rewrite Forall_forall in E.
  destruct (E d Hd) as (Hw & _). eapply okr_check_wf; [apply H, Hd | exact Hw].
Qed.

Lemma map_ident_rn l : map ident (map rN l) = map (rc r) (map ident l).
Proof. rewrite !map_map. reflexivity. Qed.
Lemma all_names_unique_rn l : all_names_unique (map rN l) = all_names_unique l.
Proof. unfold all_names_unique. now rewrite map_ident_rn, (has_dup_inj _ Hc). Qed.

Lemma add_missing_opt_sim D t : add_missing_opt (rD D) (rO t) = tmap rO (add_missing_opt D t).
Proof.
  destruct t as [t|]; cbn [rn_osty option_map add_missing_opt]; [|reflexivity].
  rewrite (add_missing_rn r Ht), lift_omap. destruct (lift (add_missing D t)); reflexivity.
Qed.
Lemma ok_add_missing_opt D t t' : okotr t -> add_missing_opt D t = TOk t' -> okotr t'.
Proof.
  destruct t as [t|]; cbn [add_missing_opt]; intros H E; [|inversion E; exact I].
  apply tbind_ok in E. destruct E as (a & E & E'). inversion E'; subst. eapply ok_add_missing; eauto.
Qed.
Lemma add_missing_names_sim D ns : add_missing_names (rD D) (map rN ns) = tmap (map rN) (add_missing_names D ns).
Proof.
  induction ns as [|n ns IH]; cbn [map add_missing_names]; [reflexivity|].
  change (nty (rN n)) with (rO (nty n)).
  eapply sim_bind; [apply add_missing_opt_sim | intros t _].
  eapply sim_bind; [apply IH | intros ns' _]. reflexivity.
Qed.
Lemma ok_add_missing_names D ns ns' : oknamesr ns -> add_missing_names D ns = TOk ns' -> oknamesr ns'.
Proof.
  revert ns'. induction ns as [|n ns IH]; cbn [add_missing_names]; intros ns' H E; [inversion E; constructor|].
  inversion H as [|? ? H1 H2]; subst.
  apply tbind_ok in E. destruct E as (t & Et & E). apply tbind_ok in E. destruct E as (l & El & E). inversion E; subst.
  constructor; [|apply IH; auto]. cbn [set_nty nty]. eapply ok_add_missing_opt; eauto.
Qed.
Lemma add_missing_names_shape D ns ns' : add_missing_names D ns = TOk ns' -> map ident ns' = map ident ns.
Proof.
  revert ns'. induction ns as [|n ns IH]; cbn [add_missing_names]; intros ns' E; [inversion E; reflexivity|].
  apply tbind_ok in E. destruct E as (t & Et & E). apply tbind_ok in E. destruct E as (l & El & E). inversion E; subst.
  cbn [map]. f_equal. apply IH, El.
Qed.
Lemma types_of_rn ns : types_of (map rN ns) = map rs (types_of ns).
Proof.
  unfold types_of. induction ns as [|n ns IH]; cbn [map flat_map]; [reflexivity|].
  change (nty (rN n)) with (rO (nty n)). destruct (nty n); cbn [rn_osty option_map app map]; now rewrite IH.
Qed.

Definition ot_list (t : option sty) : list sty := match t with Some t => [t] | None => [] end.
Lemma ot_list_rn t : ot_list (rO t) = map rs (ot_list t).
Proof. destruct t; reflexivity. Qed.

Lemma forallb_hasty_rn ns :
  forallb (fun p => match nty p with Some _ => true | None => false end) (map rN ns) =
  forallb (fun p => match nty p with Some _ => true | None => false end) ns.
Proof. induction ns as [|n ns IH]; cbn [map forallb]; [reflexivity|]. rewrite IH. change (nty (rN n)) with (rO (nty n)). destruct (nty n); reflexivity. Qed.

Lemma prelim_funs_sim D : forall fs seen,
  prelim_funs (rD D) (map (rn_fundef r) fs) (map (rf r) seen) = tmap (map (rn_fundef r)) (prelim_funs D fs seen).
Proof.
  induction fs as [|f fs IH]; intros seen; cbn [map prelim_funs]; [reflexivity|].
  cbn [rn_fundef fn_name fn_params fn_type fn_body fn_explicit].
  eapply sim_bind; [apply guard_sim; now rewrite (str_mem_inj _ Hf) | intros [] _].
  eapply sim_bind; [apply guard_sim; destruct (fn_type f); reflexivity | intros [] _].
  eapply sim_bind; [apply guard_sim; apply forallb_hasty_rn | intros [] _].
  eapply sim_bind; [apply guard_sim; apply all_names_unique_rn | intros [] _].
  eapply sim_bind; [apply add_missing_opt_sim | intros ft _].
  eapply sim_bind; [apply add_missing_names_sim | intros ps _].
  eapply sim_bind; [apply guard_sim | intros [] _].
  { change (match rO ft with Some t => [t] | None => [] end) with (ot_list (rO ft)).
    rewrite ot_list_rn, types_of_rn, <- map_app. apply (sanity_types_rn r Ht Hl). }
  eapply sim_bind; [|intros [] _].
  { replace (map nty (map rN ps)) with (map rO (map nty ps)) by (rewrite !map_map; reflexivity).
    apply indep_all_sim. reflexivity. }
  eapply sim_bind; [apply (IH (fn_name f :: seen)) | intros r' _]. reflexivity.
Qed.

Lemma ok_prelim_funs D : forall fs seen fs', Forall okfunr fs -> prelim_funs D fs seen = TOk fs' -> Forall okfun fs'.
Proof.
  induction fs as [|f fs IH]; cbn [prelim_funs]; intros seen fs' H E; [inversion E; constructor|].
  inversion H as [|? ? (H1 & H2 & H3) H4]; subst.
  apply tbind_ok in E; destruct E as (? & _ & E). apply tbind_ok in E; destruct E as (? & _ & E).
  apply tbind_ok in E; destruct E as (? & _ & E). apply tbind_ok in E; destruct E as (? & _ & E).
  apply tbind_ok in E; destruct E as (ft & Eft & E). apply tbind_ok in E; destruct E as (ps & Eps & E).
  apply tbind_ok in E; destruct E as (? & Eg & E). apply tbind_ok in E; destruct E as (? & _ & E).
  apply tbind_ok in E; destruct E as (r' & Er & E). inversion E; subst.
  constructor; [|eapply IH; eauto].
  apply guard_ok in Eg. unfold sanity_types in Eg. rewrite forallb_app in Eg. apply andb_prop in Eg. destruct Eg as [Eg1 Eg2].
  repeat split; cbn [fn_type fn_params fn_body]; auto.
  - eapply okot_raise; [eapply ok_add_missing_opt; eauto | exact Eg1].
  - eapply oknames_raise; [eapply ok_add_missing_names; eauto | exact Eg2].
Qed.

(* ---------- processes ---------- *)
Lemma names_first_only_rn a b : names_first_only (map rN a) (map rN b) = map rN (names_first_only a b).
Proof.
  unfold names_first_only. rewrite map_ident_rn. induction a as [|n a IH]; cbn [map filter]; [reflexivity|].
  change (ident (rN n)) with (rc r (ident n)). rewrite (str_mem_inj _ Hc).
  destruct (negb (str_mem (ident n) (map ident b))); cbn [map]; now rewrite IH.
Qed.

Notation rU := (kvmap (rc r) (fun b : bool => b)).
Definition rn_uu (p : usemap * usemap) : usemap * usemap := (rU (fst p), rU (snd p)).
Lemma use_free_names_sim : forall fns a p,
  use_free_names (map rN fns) (rU a) (rU p) = tmap rn_uu (use_free_names fns a p).
Proof.
  induction fns as [|fn fns IH]; intros a p; cbn [map use_free_names]; [reflexivity|].
  change (ident (rN fn)) with (rc r (ident fn)). rewrite !(alookup_inj _ Hc).
  destruct (alookup (ident fn) a) as [[|]|]; cbn [option_map]; try reflexivity.
  - rewrite (aset_inj _ Hc (fun b : bool => b)). apply IH.
  - destruct (alookup (ident fn) p) as [[|]|]; cbn [option_map]; try reflexivity.
    rewrite (aset_inj _ Hc (fun b : bool => b)). apply IH.
Qed.

Definition rn_pu (p : list procdef * usemap) : list procdef * usemap := (map (rn_procdef r) (fst p), rU (snd p)).
Lemma prelim_procs_types_sim D : forall ps a p,
  prelim_procs_types (rD D) (map (rn_procdef r) ps) (rU a) (rU p) = tmap rn_pu (prelim_procs_types D ps a p).
Proof.
  induction ps as [|q ps IH]; intros a p; cbn [map prelim_procs_types]; [reflexivity|].
  cbn [rn_procdef pr_type pr_providers pr_body].
  eapply sim_bind; [apply guard_sim; destruct (pr_type q); reflexivity | intros [] _].
  eapply sim_bind; [apply add_missing_opt_sim | intros pt _].
  eapply sim_bind; [apply guard_sim | intros [] _].
  { change (match rO pt with Some t => [t] | None => [] end) with (ot_list (rO pt)).
    rewrite ot_list_rn. apply (sanity_types_rn r Ht Hl). }
  eapply sim_bind; [apply guard_sim | intros [] _].
  { rewrite map_length. destruct pt; cbn [rn_osty option_map]; rewrite ?mode_of_rn; reflexivity. }
  rewrite (free_names_rn1 r Hc), names_first_only_rn.
  eapply sim_bind; [apply use_free_names_sim | intros [a' p'] _]. cbn [rn_uu fst snd].
  eapply sim_bind; [apply IH | intros [r' a''] _]. reflexivity.
Qed.
Lemma ok_prelim_procs_types D : forall ps a p ps' a', Forall okprocr ps ->
  prelim_procs_types D ps a p = TOk (ps', a') -> Forall okproc ps'.
Proof.
  induction ps as [|q ps IH]; cbn [prelim_procs_types]; intros a p ps' a' H E; [inversion E; constructor|].
  inversion H as [|? ? (H1 & H2) H4]; subst.
  apply tbind_ok in E; destruct E as (? & _ & E). apply tbind_ok in E; destruct E as (pt & Ept & E).
  apply tbind_ok in E; destruct E as (? & Eg & E). apply guard_ok in Eg.
  tinv E. inversion E; subst.
  constructor; [|eapply IH; eauto]. split; cbn [pr_type pr_body]; auto.
  eapply okot_raise; [eapply ok_add_missing_opt; eauto | exact Eg].
Qed.

Lemma providers_unique_rn : forall ps seen,
  providers_unique (map (rn_procdef r) ps) (map (rc r) seen) = providers_unique ps seen.
Proof.
  induction ps as [|q ps IH]; intros seen; cbn [map providers_unique]; [reflexivity|].
  cbn [rn_procdef pr_providers]. rewrite all_names_unique_rn. f_equal; [f_equal|].
  - f_equal. induction (pr_providers q) as [|n l IHl]; cbn [map existsb]; [reflexivity|].
    change (ident (rN n)) with (rc r (ident n)). now rewrite (str_mem_inj _ Hc), IHl.
  - rewrite map_ident_rn, <- map_app. apply IH.
Qed.

Lemma allp_rn ps : flat_map (fun p => map ident (pr_providers p)) (map (rn_procdef r) ps) =
                   map (rc r) (flat_map (fun p => map ident (pr_providers p)) ps).
Proof.
  induction ps as [|q ps IH]; cbn [map flat_map]; [reflexivity|].
  cbn [rn_procdef pr_providers]. now rewrite map_ident_rn, IH, map_app.
Qed.

(* the acyclicity test of the 'uses' relation among processes (F29) only compares identifiers *)
Lemma provider_index_rn ps x : provider_index (map (rn_procdef r) ps) (rc r x) = provider_index ps x.
Proof.
  unfold provider_index. generalize 0%nat as i. generalize (@None nat) as acc.
  induction ps as [|q ps IH]; intros acc i; cbn [map]; [reflexivity|].
  cbn [rn_procdef pr_providers]. rewrite map_ident_rn, (str_mem_inj _ Hc). apply IH.
Qed.
Lemma proc_uses_rn ps p : proc_uses (map (rn_procdef r) ps) (rn_procdef r p) = proc_uses ps p.
Proof.
  unfold proc_uses. cbn [rn_procdef pr_body pr_providers]. rewrite (free_names_rn1 r Hc), names_first_only_rn.
  induction (names_first_only (free_names (pr_body p)) (pr_providers p)) as [|n l IH]; cbn [map flat_map]; [reflexivity|].
  change (ident (rN n)) with (rc r (ident n)). now rewrite provider_index_rn, IH.
Qed.
Lemma procs_acyclic_rn ps : procs_acyclic (map (rn_procdef r) ps) = procs_acyclic ps.
Proof.
  unfold procs_acyclic. rewrite map_length, map_map.
  replace (map (fun x => proc_uses (map (rn_procdef r) ps) (rn_procdef r x)) ps) with (map (proc_uses ps) ps)
    by (apply map_ext; intros; symmetry; apply proc_uses_rn).
  reflexivity.
Qed.

(* F31: `self` is not the name of a process — the test reads is_self and whether the identifier is "" *)
Lemma providers_not_self_rn ps : providers_not_self (map (rn_procdef r) ps) = providers_not_self ps.
Proof.
  unfold providers_not_self. induction ps as [|q ps IH]; cbn [map forallb]; [reflexivity|]. rewrite IH. f_equal.
  cbn [rn_procdef pr_providers]. induction (pr_providers q) as [|n l IHl]; cbn [map forallb]; [reflexivity|].
  rewrite IHl. f_equal. cbn [rn_name is_self ident]. f_equal. f_equal.
  rewrite <- Hc0 at 1. apply (eqb_inj _ Hc).
Qed.

Definition rn_pn (p : list procdef * list name) : list procdef * list name := (map (rn_procdef r) (fst p), map rN (snd p)).
Lemma prelim_procs_sim D ps assumed :
  prelim_procs (rD D) (map (rn_procdef r) ps) (map rN assumed) = tmap rn_pn (prelim_procs D ps assumed).
Proof.
  unfold prelim_procs.
  eapply sim_bind; [apply guard_sim; apply all_names_unique_rn | intros [] _].
  eapply sim_bind; [apply guard_sim; apply forallb_hasty_rn | intros [] _].
  eapply sim_bind; [apply add_missing_names_sim | intros assumed' _].
  eapply sim_bind; [apply guard_sim; rewrite types_of_rn; apply (sanity_types_rn r Ht Hl) | intros [] _].
  eapply sim_bind; [apply guard_sim; apply (providers_unique_rn ps []) | intros [] _].
  rewrite allp_rn.
  eapply sim_bind; [apply guard_sim | intros [] _].
  { rewrite map_ident_rn. f_equal. induction (flat_map (fun p => map ident (pr_providers p)) ps) as [|x l IHl]; cbn [map existsb]; [reflexivity|].
    now rewrite (str_mem_inj _ Hc), IHl. }
  eapply sim_bind; [|intros [ps' remaining] _].
  { replace (map (fun n => (ident n, true)) (map rN assumed')) with (rU (map (fun n => (ident n, true)) assumed'))
      by (unfold kvmap; rewrite !map_map; reflexivity).
    replace (map (fun x => (x, true)) (map (rc r) (flat_map (fun p => map ident (pr_providers p)) ps)))
      with (rU (map (fun x => (x, true)) (flat_map (fun p => map ident (pr_providers p)) ps)))
      by (unfold kvmap; rewrite !map_map; reflexivity).
    apply prelim_procs_types_sim. }
  cbn [rn_pu fst snd].
  eapply sim_bind; [apply guard_sim | intros [] _].
  { f_equal. unfold kvmap. induction remaining as [|[k v] l IHl]; cbn [map existsb snd]; [reflexivity|]. now rewrite IHl. }
  eapply sim_bind; [apply guard_sim; apply procs_acyclic_rn | intros [] _].
  eapply sim_bind; [apply guard_sim; apply providers_not_self_rn | intros [] _].
  reflexivity.
Qed.
Lemma ok_prelim_procs D ps assumed ps' assumed' : Forall okprocr ps -> oknamesr assumed ->
  prelim_procs D ps assumed = TOk (ps', assumed') -> Forall okproc ps' /\ oknames assumed'.
Proof.
  unfold prelim_procs. intros Hps Ha E.
  apply tbind_ok in E; destruct E as (? & _ & E). apply tbind_ok in E; destruct E as (? & _ & E).
  apply tbind_ok in E; destruct E as (as' & Eas & E). apply tbind_ok in E; destruct E as (? & Eg & E). apply guard_ok in Eg.
  tinv E. inversion E; subst. split.
  - eapply ok_prelim_procs_types; eauto.
  - eapply oknames_raise; [eapply ok_add_missing_names; eauto | exact Eg].
Qed.

(* ---------- sigma, contexts, drivers ---------- *)
Lemma make_sigma_sim D fs : make_sigma (rD D) (map (rn_fundef r) fs) = tmap rSg (make_sigma D fs).
Proof.
  induction fs as [|f fs IH]; cbn [map make_sigma]; [reflexivity|].
  cbn [rn_fundef fn_type fn_name fn_params].
  eapply sim_bind; [apply unfold_opt_sim; reflexivity | intros t _].
  eapply sim_bind; [apply IH | intros r' _]. reflexivity.
Qed.
Lemma ok_make_sigma D fs Sg : okD D -> Forall okfun fs -> make_sigma D fs = TOk Sg -> oksigma Sg.
Proof.
  intros HD. revert Sg. induction fs as [|f fs IH]; cbn [make_sigma]; intros Sg H E; [inversion E; constructor|].
  inversion H as [|? ? (H1 & H2 & H3) H4]; subst.
  repeat (apply tbind_ok in E; destruct E as (? & ? & E)). inversion E; subst.
  constructor; [|apply IH; auto]. split; cbn [fs_type fs_params]; auto. eapply okot_unfold; eauto.
Qed.

Lemma make_ctx_rn ns : make_ctx (map rN ns) = rC (make_ctx ns).
Proof.
  unfold make_ctx. change (@nil (string * option sty)) with (rC []) at 1. generalize (@nil (string * option sty)) as g.
  induction ns as [|n ns IH]; intros g; cbn [map fold_left]; [reflexivity|].
  change (ident (rN n)) with (rc r (ident n)). change (nty (rN n)) with (rO (nty n)). rewrite aset_rn. apply IH.
Qed.
Lemma ok_make_ctx ns : oknames ns -> okctx (make_ctx ns).
Proof.
  unfold make_ctx. assert (H0 : okctx []) by constructor. revert H0. generalize (@nil (string * option sty)) as g.
  induction ns as [|n ns IH]; intros g Hg H; cbn [fold_left]; [exact Hg|].
  inversion H; subst. apply IH; auto. apply okctx_aset; auto.
Qed.

Lemma tc_funs_sim D Sg : okD D -> oksigma Sg -> forall fs, Forall okfun fs ->
  tc_funs (rD D) (rSg Sg) (map (rn_fundef r) fs) = tmap (map (rn_fundef r)) (tc_funs D Sg fs).
Proof.
  intros HD HSg. induction fs as [|f fs IH]; intros H; cbn [map tc_funs]; [reflexivity|].
  inversion H as [|? ? (H1 & H2 & H3) H4]; subst.
  cbn [rn_fundef fn_params fn_type fn_body fn_name fn_explicit]. rewrite make_ctx_rn.
  eapply sim_bind; [|intros b _].
  { apply (proj1 (tc_form_rn D Sg HD HSg)); auto; [exact I | apply ok_make_ctx; auto]. }
  eapply sim_bind; [apply IH; auto | intros r' _]. reflexivity.
Qed.

(* getFreeNameTypes *)
Notation rV := (kvmap (rc r) rN).
Lemma available_names_rn ps assumed :
  available_names (map (rn_procdef r) ps) (map rN assumed) = rV (available_names ps assumed).
Proof.
  unfold available_names.
  assert (E1 : flat_map (fun p => map (fun n => (ident n, set_nty n (pr_type p))) (pr_providers p)) (map (rn_procdef r) ps) =
               rV (flat_map (fun p => map (fun n => (ident n, set_nty n (pr_type p))) (pr_providers p)) ps)).
  { unfold kvmap. induction ps as [|q ps IH]; cbn [map flat_map]; [reflexivity|].
    rewrite IH, map_app. f_equal. cbn [rn_procdef pr_providers pr_type]. rewrite !map_map. reflexivity. }
  rewrite E1.
  assert (E2 : forall l m, fold_left (fun m kv => aset (fst kv) (snd kv) m) (rV l) (rV m) =
                           rV (fold_left (fun m (kv : string * name) => aset (fst kv) (snd kv) m) l m)).
  { induction l as [|[k v] l IH]; intros m; cbn [kvmap map fold_left fst snd]; [reflexivity|].
    rewrite (aset_inj _ Hc rN). apply IH. }
  change (@nil (string * name)) with (rV []) at 1. rewrite E2.
  generalize (fold_left (fun m (kv : string * name) => aset (fst kv) (snd kv) m)
     (flat_map (fun p => map (fun n => (ident n, set_nty n (pr_type p))) (pr_providers p)) ps) []) as m.
  induction assumed as [|a l IH]; intros m; cbn [map fold_left]; [reflexivity|].
  change (ident (rN a)) with (rc r (ident a)). rewrite (aset_inj _ Hc rN). apply IH.
Qed.

Lemma free_name_types_rn p ps assumed :
  free_name_types (rn_procdef r p) (map (rn_procdef r) ps) (map rN assumed) = map rN (free_name_types p ps assumed).
Proof.
  unfold free_name_types. rewrite available_names_rn. cbn [rn_procdef pr_body pr_providers].
  rewrite (free_names_rn1 r Hc), names_first_only_rn.
  induction (names_first_only (free_names (pr_body p)) (pr_providers p)) as [|n l IH]; cbn [map flat_map]; [reflexivity|].
  change (ident (rN n)) with (rc r (ident n)). rewrite (alookup_inj _ Hc rN), IH, map_app. f_equal.
  destruct (alookup (ident n) (available_names ps assumed)); reflexivity.
Qed.

Definition okvals (m : list (string * name)) : Prop := Forall (fun kv => okot (nty (snd kv))) m.
Lemma okvals_aremove k m : okvals m -> okvals (aremove k m).
Proof. induction 1 as [|[k' v] m Hv _ IH]; cbn; [constructor|]. destruct (String.eqb k k'); auto. constructor; auto. Qed.
Lemma okvals_alookup k m v : okvals m -> alookup k m = Some v -> okot (nty v).
Proof.
  induction 1 as [|[k' v'] m Hv _ IH]; cbn; [discriminate|].
  destruct (String.eqb k k'); [intros E; inversion E; subst; exact Hv | exact IH].
Qed.
Lemma ok_available ps assumed : Forall okproc ps -> oknames assumed -> okvals (available_names ps assumed).
Proof.
  intros Hps Ha. unfold available_names.
  assert (H1 : okvals (flat_map (fun p => map (fun n => (ident n, set_nty n (pr_type p))) (pr_providers p)) ps)).
  { induction Hps as [|q ps (Hq & _) _ IH]; cbn [flat_map]; [constructor|]. apply Forall_app. split; [|exact IH].
    induction (pr_providers q); cbn [map]; constructor; auto. }
  assert (H2 : forall l m, okvals l -> okvals m -> okvals (fold_left (fun m (kv : string * name) => aset (fst kv) (snd kv) m) l m)).
  { induction l as [|[k v] l IH]; intros m Hl0 Hm; cbn [fold_left fst snd]; [exact Hm|].
    inversion Hl0; subst. apply IH; auto. constructor; [assumption | apply okvals_aremove, Hm]. }
  specialize (H2 _ [] H1 (Forall_nil _)).
  revert H2. generalize (fold_left (fun m (kv : string * name) => aset (fst kv) (snd kv) m)
     (flat_map (fun p => map (fun n => (ident n, set_nty n (pr_type p))) (pr_providers p)) ps) []) as m.
  induction Ha as [|a l Ha0 _ IH]; intros m Hm; cbn [fold_left]; [exact Hm|].
  apply IH. constructor; [exact Ha0 | apply okvals_aremove, Hm].
Qed.
Lemma ok_free_name_types p ps assumed : Forall okproc ps -> oknames assumed -> oknames (free_name_types p ps assumed).
Proof.
  intros Hps Ha. unfold free_name_types. pose proof (ok_available ps assumed Hps Ha) as Hv.
  induction (names_first_only (free_names (pr_body p)) (pr_providers p)) as [|n l IH]; cbn [flat_map]; [constructor|].
  apply Forall_app. split; [|exact IH].
  destruct (alookup (ident n) (available_names ps assumed)) eqn:E; [|constructor].
  constructor; [|constructor]. eapply okvals_alookup; eauto.
Qed.

Lemma tc_procs_sim D Sg all assumed : okD D -> oksigma Sg -> Forall okproc all -> oknames assumed ->
  forall ps, Forall okproc ps ->
  tc_procs (rD D) (rSg Sg) (map (rn_procdef r) all) (map rN assumed) (map (rn_procdef r) ps) =
  tmap (map (rn_procdef r)) (tc_procs D Sg all assumed ps).
Proof.
  intros HD HSg Hall Ha. induction ps as [|p ps IH]; intros H; cbn [map tc_procs]; [reflexivity|].
  inversion H as [|? ? (H1 & H2) H4]; subst.
  rewrite free_name_types_rn, make_ctx_rn. cbn [rn_procdef pr_type pr_body pr_providers].
  eapply sim_bind; [|intros b _].
  { apply (proj1 (tc_form_rn D Sg HD HSg)); auto; [exact I | apply ok_make_ctx, ok_free_name_types; auto]. }
  eapply sim_bind; [apply IH; auto | intros r' _]. reflexivity.
Qed.

Theorem tc_program_rn p : okprog p -> tc_program (rn_program r p) = tmap (rn_program r) (tc_program p).
Proof.
  intros (HDr & Hfs & Hps & Ha). unfold tc_program. cbn [rn_program p_types p_funs p_procs p_assumed].
  rewrite (sanity_typedefs_rn r Ht Hl).
  eapply (sim_bind (fun b : bool => b)); [symmetry; apply tmap_id | intros okd Es].
  eapply sim_bind; [apply guard_sim; reflexivity | intros [] Eg].
  apply guard_ok in Eg. subst okd. apply lift_ok in Es. pose proof (okD_raise _ HDr Es) as HD.
  change (@nil string) with (map (rf r) []).
  eapply sim_bind; [apply prelim_funs_sim | intros fs E1].
  pose proof (ok_prelim_funs _ _ _ _ Hfs E1) as Hfs'.
  eapply sim_bind; [apply prelim_procs_sim | intros [ps assumed] E2].
  destruct (ok_prelim_procs _ _ _ _ _ Hps Ha E2) as [Hps' Ha'].
  cbn [rn_pn fst snd].
  eapply sim_bind; [apply make_sigma_sim | intros Sg E3].
  pose proof (ok_make_sigma _ _ _ HD Hfs' E3) as HSg.
  eapply sim_bind; [apply tc_funs_sim; auto | intros fs' _].
  eapply sim_bind; [apply tc_procs_sim; auto | intros ps' _].
  reflexivity.
Qed.

Definition rn_verdict (v : verdict) : verdict :=
  match v with Accept p => Accept (rn_program r p) | other => other end.

Theorem typecheck_rn p : okprog p -> typecheck (rn_program r p) = rn_verdict (typecheck p).
Proof. intros H. unfold typecheck. rewrite (tc_program_rn p H). destruct (tc_program p); reflexivity. Qed.

End Tc.
