(* TopoStepExt.v — Topo is preserved by the steps OUTSIDE the core fragment that create forwards:
   `drop c; k` (spawns a droppable forward on a fresh channel) and `<x,y> <- split c; k` (spawns a
   forward providing the two fresh channels), for a typed configuration whose acting process has
   one provider and an affine body.  Both are instances of `topo_spawn`: the acting process hands
   some of its client channels to a new child that provides fresh channels. *)
From stdpp Require Import gmap strings.
Require Import Grits.Base Grits.ModeDefs Grits.Modes Grits.STypes Grits.Forms Grits.Subst Grits.TcDeps Grits.Expand
               Grits.Runtime Grits.RuntimeFootprint Grits.spec.RtTyping Grits.spec.Topo.
Require Import Grits.proofs.RtSubst Grits.proofs.StepErrors Grits.proofs.RtSafety Grits.proofs.TopoLin
               Grits.proofs.RuntimeFacts Grits.proofs.TopoStep.

Lemma topo_spawn c p pp kns cns child cb pb nx o' :
  Topo c -> procs c !! p = Some pp -> cids_of cns = kns ->
  (forall kn, kn ∈ kns -> chans c !! kn = None) -> procs c !! child = None -> child <> p ->
  (forall kn o, kn ∈ kns -> obj_in c o -> kn ∉ provides o /\ kn ∉ refs o) ->
  (exists kp, cids_of (pr_provs pp) = [kp] /\ is_Some (chans c !! kp)) ->
  (forall i, i ∈ form_chans cb -> i ∈ form_chans (pr_body0 pp)) ->
  (forall i, i ∈ form_chans pb -> i ∈ form_chans (pr_body0 pp) \/ i ∈ kns) ->
  (forall i, i ∈ form_chans cb -> i ∈ form_chans pb -> False) ->
  Topo (Cfg (<[p := Proc (pr_provs pp) pb nx]> (<[child := Proc cns cb 0]> (procs c)))
            (new_all kns (chans c)) o').
Proof.
  intros Ht Hp Hcn Hkn Hch Hcp Hfr (kp & Hkp & Hkpe) Hcb Hpb Hdisj.
  set (P' := Proc (pr_provs pp) pb nx). set (C' := Proc cns cb 0).
  set (c' := Cfg (<[p := P']> (<[child := C']> (procs c))) (new_all kns (chans c)) o').
  assert (Hobj' : forall ob, obj_in c' ob ->
            match ob with
            | OProc r rr => (r = p /\ rr = P') \/ (r = child /\ rr = C') \/ (r <> p /\ r <> child /\ procs c !! r = Some rr)
            | OMsg k' m' => k' ∉ kns /\ obj_in c (OMsg k' m')
            end).
  { intros [r rr|k' m']; unfold c'; cbn.
    - intros H. apply lookup_insert_Some in H as [[<- <-]|[Hn H]]; [by left|right].
      apply lookup_insert_Some in H as [[<- <-]|[Hn' H]]; [by left|right]. split; [congruence|]. split; [congruence|done].
    - intros (st' & H & Hbuf). rewrite new_all_lookup in H. destruct (decide (k' ∈ kns)); [injection H as <-; discriminate|].
      split; [done|]. by exists st'. }
  assert (HCp : provides (OProc child C') = kns) by done.
  assert (HPp : provides (OProc p P') = cids_of (pr_provs pp)) by done.
  assert (HCr : refs (OProc child C') = form_chans cb) by done.
  assert (HPr : refs (OProc p P') = form_chans pb) by done.
  assert (HinY : forall o, o ∈ [OProc p P'; OProc child C'] <-> o = OProc p P' \/ o = OProc child C').
  { intros o. rewrite elem_of_cons, elem_of_list_singleton. tauto. }
  apply (topo_rewrite c c' [OProc p pp] [OProc p P'; OProc child C'] (fun k => k ∈ kns)); try done.
  - intros o Ho. apply elem_of_list_singleton in Ho as ->. exact Hp.
  - intros [r rr|k' m'] Ho.
    + destruct (decide (r = p)) as [->|Hn]; [left|right].
      * cbn in Ho. rewrite Hp in Ho. injection Ho as <-. by apply elem_of_list_singleton.
      * intros H. apply elem_of_list_singleton in H. congruence.
    + right. intros H. apply elem_of_list_singleton in H. discriminate.
  - intros ob Ho'. specialize (Hobj' ob Ho'). destruct ob as [r rr|k' m'].
    + destruct Hobj' as [[-> ->]|[[-> ->]|(Hn & Hn' & H)]]; [right; apply HinY; by left|right; apply HinY; by right|].
      left. split; [exact H|]. intros Hx. apply elem_of_list_singleton in Hx. congruence.
    + destruct Hobj' as [_ H]. left. split; [exact H|]. intros Hx. apply elem_of_list_singleton in Hx. discriminate.
  - intros [r rr|k' m'] Ho Hx; unfold c'; cbn.
    + cbn in Ho. assert (r <> p).
      { intros ->. apply Hx. apply elem_of_list_singleton. rewrite Hp in Ho. by injection Ho as <-. }
      assert (r <> child) by (intros ->; congruence).
      by rewrite !lookup_insert_ne.
    + destruct Ho as (st' & H & Hbuf). exists st'. split; [|done]. rewrite new_all_lookup.
      rewrite decide_False; [done|]. intros Hin. rewrite (Hkn _ Hin) in H. discriminate.
  - intros ob Ho'. apply HinY in Ho' as [->| ->]; unfold c'; cbn.
    + apply lookup_insert.
    + rewrite lookup_insert_ne by done. apply lookup_insert.
  - intros ob j Ho' Hj. apply HinY in Ho' as [->| ->].
    + rewrite HPp in Hj. left. exists (OProc p pp). split; [by apply elem_of_list_singleton|done].
    + rewrite HCp in Hj. by right.
  - intros ob j Ho' Hj. apply HinY in Ho' as [->| ->]; [rewrite HPr in Hj|rewrite HCr in Hj].
    + destruct (Hpb j Hj) as [H|H]; [left|by right]. exists (OProc p pp). split; [by apply elem_of_list_singleton|done].
    + left. exists (OProc p pp). split; [by apply elem_of_list_singleton|]. by apply Hcb.
  - intros o1 o2 j H1 H2 Hj1 Hj2. apply HinY in H1 as [->| ->], H2 as [->| ->]; try done; exfalso.
    + rewrite HPp in Hj1. rewrite HCp in Hj2. destruct (Hfr j (OProc p pp) Hj2 Hp) as [H _]. by apply H.
    + rewrite HPp in Hj2. rewrite HCp in Hj1. destruct (Hfr j (OProc p pp) Hj1 Hp) as [H _]. by apply H.
  - intros o1 o2 j H1 H2 Hj1 Hj2. apply HinY in H1 as [->| ->], H2 as [->| ->]; try done; exfalso.
    + rewrite HPr in Hj1. rewrite HCr in Hj2. eauto.
    + rewrite HPr in Hj2. rewrite HCr in Hj1. eauto.
  - intros o j Ho Hj. apply elem_of_list_singleton in Ho as ->. left. exists (OProc p P').
    split; [apply HinY; by left|done].
  - intros ob j Ho' Hj Hjk. exists (OProc child C'). split; [apply HinY; by right|]. by rewrite HCp.
  - intros k' st' Hk' Hcl'. unfold c' in Hk'. cbn in Hk'. rewrite new_all_lookup in Hk'.
    destruct (decide (k' ∈ kns)); [injection Hk' as <-; discriminate|]. left. exists st'. done.
  - intros rk M [Hb Hr].
    exists (fun j => if decide (j ∈ kns) then (2 * rk kp + 1)%nat else (2 * rk j)%nat), (2 * M + 1)%nat. split.
    + intros j Hj. unfold c' in Hj. cbn in Hj. rewrite new_all_lookup in Hj. destruct (decide (j ∈ kns)) as [Hin|Hn].
      * specialize (Hb kp Hkpe). lia.
      * specialize (Hb j Hj). lia.
    + assert (Hkpn : kp ∉ kns) by (intros Hin; rewrite (Hkn _ Hin) in Hkpe; by destruct Hkpe).
      assert (Hold : forall o k1 j, obj_in c o -> k1 ∈ provides o -> j ∈ refs o ->
                ((if decide (k1 ∈ kns) then 2 * rk kp + 1 else 2 * rk k1) < (if decide (j ∈ kns) then 2 * rk kp + 1 else 2 * rk j))%nat).
      { intros o k1 j Ho Hk1 Hj.
        rewrite decide_False by (intros Hin; by destruct (Hfr _ o Hin Ho)).
        rewrite decide_False by (intros Hin; by destruct (Hfr _ o Hin Ho)).
        specialize (Hr o k1 j Ho Hk1 Hj). lia. }
      intros ob k1 j Ho' Hk1 Hj. specialize (Hobj' ob Ho'). destruct ob as [r rr|k' m'].
      * destruct Hobj' as [[-> ->]|[[-> ->]|(_ & _ & H)]]; [| |eapply (Hold (OProc r rr)); eauto].
        -- rewrite HPp in Hk1. rewrite HPr in Hj. rewrite Hkp in Hk1. apply elem_of_list_singleton in Hk1 as ->.
           rewrite decide_False by done. destruct (Hpb j Hj) as [H|H].
           ++ rewrite decide_False by (intros Hin; destruct (Hfr _ (OProc p pp) Hin Hp) as [_ Hf]; by apply Hf).
              assert (rk kp < rk j)%nat; [|lia]. eapply (Hr (OProc p pp)); eauto. cbn. rewrite Hkp. set_solver.
           ++ rewrite decide_True by done. lia.
        -- rewrite HCp in Hk1. rewrite HCr in Hj.
           rewrite decide_True by done. apply Hcb in Hj.
           rewrite decide_False by (intros Hin; destruct (Hfr _ (OProc p pp) Hin Hp) as [_ Hf]; by apply Hf).
           assert (rk kp < rk j)%nat; [|lia]. eapply (Hr (OProc p pp)); eauto. cbn. rewrite Hkp. set_solver.
      * destruct Hobj' as [_ H]. eapply (Hold (OMsg k' m')); eauto.
Qed.

Lemma apply_spawn_effect c p pp provs B' nx' cns b kns :
  apply_effect c p pp (Eff (Continue (Proc provs B' nx')) [Spawn cns b] kns [] []) =
  Cfg (<[p := Proc provs B' (nx' + length kns + 1)]> (<[p ++ [(nx' + length kns)%nat] := Proc cns b 0]> (procs c)))
      (new_all kns (chans c)) (out c).
Proof.
  rewrite apply_effect_eq. cbn [e_close e_newch e_spawn e_after e_out close_all foldr].
  unfold procs_after, eff_next1, eff_next0, eff_base. cbn [e_after e_newch e_spawn length pr_next pr_provs pr_body0].
  rewrite spawned_cons. unfold spawned. cbn [add_spawns fst]. rewrite (left_id_L ∅ (∪)).
  rewrite <- insert_union_singleton_l. reflexivity.
Qed.

Section StepExt.
Variable D : tenv.
Variable F : list fundef.
Variable teq : sty -> sty -> Prop.
Hypothesis Hteq : teq_laws D teq.

(* the common part: a typed process with one provider, its fresh names *)
Lemma fresh_facts Δ c p n0 body nx :
  cfg_typed D F teq Δ c -> ns_ok c -> procs c !! p = Some (Proc [n0] body nx) ->
  (forall j, (nx <= j)%nat -> Δ !! (p ++ [j]) = None /\ chans c !! (p ++ [j]) = None /\ procs c !! (p ++ [j]) = None /\
                              forall o, obj_in c o -> p ++ [j] ∉ provides o /\ p ++ [j] ∉ refs o) /\
  (exists kp, cids_of [n0] = [kp] /\ is_Some (chans c !! kp)).
Proof.
  intros Hc Hns Hp. destruct (ct_procs D F teq Δ c Hc p _ Hp) as (s & rs & Hne & Hprovs & Hty).
  cbn [pr_provs pr_body0] in *. split.
  - intros j Hj.
    assert (HkΔ : Δ !! (p ++ [j]) = None) by (apply (ct_fresh D F teq Δ c Hc p _ j [] Hp); cbn; lia).
    split; [exact HkΔ|]. split; [|split].
    + destruct (chans c !! (p ++ [j])) eqn:E; [|done]. exfalso.
      eapply (ns_ok_not_fresh_cid c p _ (p ++ [j]) j Hns Hp); [by eexists|cbn; lia|done].
    + destruct (procs c !! (p ++ [j])) eqn:E; [|done]. exfalso.
      eapply (ns_ok_not_fresh_pid c p _ (p ++ [j]) j Hns Hp); [by eexists|cbn; lia|done].
    + intros o Ho. split; intros Hk.
      * apply (proj1 (eq_None_not_Some _) HkΔ). exact (obj_chans_typed D F teq Δ c o _ Hc Ho (or_introl Hk)).
      * apply (proj1 (eq_None_not_Some _) HkΔ). exact (obj_chans_typed D F teq Δ c o _ Hc Ho (or_intror Hk)).
  - apply Forall_inv in Hprovs. destruct Hprovs as (c0 & t' & Hc0 & Ht' & _). exists c0. cbn. rewrite Hc0.
    split; [done|]. apply (ct_dom D F teq Δ c Hc). eauto.
Qed.

Lemma child_ne (p : pid) j : p ++ [j] <> p.
Proof. intros E. apply (f_equal length) in E. rewrite app_length in E. cbn in E. lia. Qed.

(* ------------------------------------------------------------------ drop c; k *)
Theorem topo_drop_step Δ c p n0 cl k0 nx md c' :
  cfg_typed D F teq Δ c -> Topo c -> ns_ok c ->
  procs c !! p = Some (Proc [n0] (FDrop cl k0) nx) -> aff None (FDrop cl k0) -> is_np md = false ->
  step md D F c (Run p) = SStep c' -> Topo c'.
Proof.
  intros Hc Ht Hns Hp Haff Hnp Hs.
  destruct (ct_procs D F teq Δ c Hc p _ Hp) as (s & rs & Hne & Hprovs & Hty). cbn [pr_provs pr_body0] in *.
  inversion Hty as [| | | | | | | | | | | | ? ? ? ? c0 k' T Hcl Hk0| | | | | | |]; subst.
  destruct Hcl as (Hself & _ & Hch). destruct (chan cl) as [kcl|] eqn:Ecl; [|destruct Hch as [_ (t' & H0 & _)]; by rewrite lookup_empty in H0].
  cbn [step] in Hs. rewrite Hp in Hs. unfold action_of in Hs. cbn [pr_body0] in Hs. rewrite Hself in Hs.
  unfold internal, multi in Hs. cbn [pr_provs length] in Hs. cbn in Hs. unfold internal_effect in Hs. cbn [pr_body0] in Hs.
  rewrite Hnp in Hs. unfold droppable_fwd, fresh_chan in Hs. cbn [pr_next pr_provs pr_body0 eff_step chan set_body] in Hs.
  injection Hs as <-. unfold set_body. cbn [pr_provs pr_body0 pr_next]. rewrite apply_spawn_effect. cbn [length].
  destruct (fresh_facts Δ c p n0 _ nx Hc Hns Hp) as [Hfr Hkp].
  destruct (Hfr nx (le_n _)) as (HkΔ & Hkc & _ & Hfro). destruct (Hfr (S nx + 1)%nat ltac:(lia)) as (_ & _ & Hchild & _).
  set (kn := p ++ [nx]).
  set (cn := mkName (ident cl) false (pol cl) (nty cl) (Some kn)).
  set (fw := FFwd (mkName (ident cl) true (pol cl) (nty cl) None) cl true).
  assert (Hfw : forall i, i ∈ form_chans fw <-> i = kcl).
  { intros i. unfold fw. simpl. unfold name_chans. simpl. rewrite Ecl. set_solver. }
  apply (topo_spawn c p (Proc [n0] (FDrop cl k0) nx) [kn] [cn] (p ++ [(S nx + 1)%nat]) fw k0); try done.
  - intros k1 Hk1. apply elem_of_list_singleton in Hk1 as ->. exact Hkc.
  - apply child_ne.
  - intros k1 o Hk1 Ho. apply elem_of_list_singleton in Hk1 as ->. by apply Hfro.
  - intros i Hi. apply Hfw in Hi as ->. cbn [pr_body0 form_chans]. unfold name_chans. rewrite Ecl. set_solver.
  - intros i Hi. left. cbn [pr_body0 form_chans]. set_solver.
  - intros i Hi Hi'. apply Hfw in Hi as ->.
    unfold aff in Haff. simpl in Haff. rewrite Forall_forall in Haff. apply elem_In in Hi'.
    destruct (proj1 chans_path_mut k0 None kcl Hi') as (pk & Hpk & Hk).
    assert (Hnd : NoDup (uname None cl ++ pk)) by (apply Haff; apply in_map_iff; eauto).
    unfold uname in Hnd. rewrite Ecl in Hnd. simpl in Hnd. inversion Hnd; subst. contradiction.
Qed.

(* ------------------------------------------------------------------ <x,y> <- split c; k *)
Theorem topo_split_step Δ c p n0 x y fr k0 nx md c' :
  cfg_typed D F teq Δ c -> Topo c -> ns_ok c ->
  procs c !! p = Some (Proc [n0] (FSplit x y fr k0) nx) -> aff None (FSplit x y fr k0) ->
  step md D F c (Run p) = SStep c' -> Topo c'.
Proof.
  intros Hc Ht Hns Hp Haff Hs.
  destruct (ct_procs D F teq Δ c Hc p _ Hp) as (s & rs & Hne & Hprovs & Hty). cbn [pr_provs pr_body0] in *.
  inversion Hty as [| | | | | | | | | | | | | | | | | | ? ? ? ? x' y' fr' k' T Hcl Hbx Hby Hxy Hsx Hsy Hk0|]; subst.
  destruct Hcl as (Hself & _ & Hch). destruct (chan fr) as [kfr|] eqn:Efr; [|destruct Hch as [_ (t' & H0 & _)]; by rewrite lookup_empty in H0].
  cbn [step] in Hs. rewrite Hp in Hs. unfold action_of in Hs. cbn [pr_body0] in Hs. rewrite Hself in Hs.
  unfold internal, multi in Hs. cbn [pr_provs length] in Hs. cbn in Hs. unfold internal_effect in Hs. cbn [pr_body0] in Hs.
  unfold fresh_chan in Hs. cbn [pr_next pr_provs pr_body0 eff_step chan set_body cids_of flat_map app] in Hs.
  injection Hs as <-. unfold set_body. cbn [pr_provs pr_body0 pr_next].
  destruct (fresh_facts Δ c p n0 _ nx Hc Hns Hp) as [Hfr Hkp].
  destruct (Hfr nx (le_n _)) as (HkΔ1 & Hkc1 & _ & Hfro1). destruct (Hfr (S nx) ltac:(lia)) as (HkΔ2 & Hkc2 & _ & Hfro2).
  destruct (Hfr (S (S (nx + 2))) ltac:(lia)) as (_ & _ & Hchild & _).
  set (k1 := p ++ [nx]). set (k2 := p ++ [S nx]).
  set (c1 := mkName (ident x) false (pol fr) (nty fr) (Some k1)).
  set (c2 := mkName (ident y) false (pol fr) (nty fr) (Some k2)).
  set (fw := FFwd (mkName (ident fr) true (pol fr) (nty fr) None) fr false).
  assert (Hfw : forall i, i ∈ form_chans fw <-> i = kfr).
  { intros i. unfold fw. simpl. unfold name_chans. simpl. rewrite Efr. set_solver. }
  assert (Hpb : forall i, i ∈ form_chans (subst y c2 (subst x c1 k0)) -> i ∈ form_chans k0 \/ i ∈ [k1; k2]).
  { intros i Hi. apply elem_In in Hi. apply form_chans_subst in Hi as [Hi|Hi].
    - apply form_chans_subst in Hi as [Hi|Hi]; [left; by apply elem_In|]. right. cbn in Hi. destruct Hi as [<-|[]]. set_solver.
    - right. cbn in Hi. destruct Hi as [<-|[]]. set_solver. }
  apply (topo_spawn c p (Proc [n0] (FSplit x y fr k0) nx) [k1; k2] [c1; c2] (p ++ [S (S (nx + 2))]) fw
           (subst y c2 (subst x c1 k0))); try done.
  - intros kk Hkk. apply elem_of_cons in Hkk as [->|Hkk]; [exact Hkc1|]. apply elem_of_list_singleton in Hkk as ->. exact Hkc2.
  - apply child_ne.
  - intros kk o Hkk Ho. apply elem_of_cons in Hkk as [->|Hkk]; [by apply Hfro1|]. apply elem_of_list_singleton in Hkk as ->. by apply Hfro2.
  - intros i Hi. apply Hfw in Hi as ->. cbn [pr_body0 form_chans]. unfold name_chans. rewrite Efr. set_solver.
  - intros i Hi. destruct (Hpb i Hi) as [H|H]; [left|by right]. cbn [pr_body0 form_chans]. set_solver.
  - intros i Hi Hi'. apply Hfw in Hi as ->. destruct (Hpb kfr Hi') as [H|H].
    + unfold aff in Haff. simpl in Haff. rewrite Forall_forall in Haff. apply elem_In in H.
      destruct (proj1 chans_path_mut k0 None kfr H) as (pk & Hpk & Hk).
      assert (Hnd : NoDup (uname None fr ++ rmv [x; y] pk)) by (apply Haff; apply in_map_iff; eauto).
      unfold uname in Hnd. rewrite Efr in Hnd. simpl in Hnd. inversion Hnd as [|? ? Hnin _]; subst. apply Hnin. by apply rmv_chan.
    + (* the forwarded channel is old, the two new ones are fresh *)
      assert (is_Some (Δ !! kfr)) as [tt Htt] by (destruct Hch as (t' & H0 & _); eauto).
      apply elem_of_cons in H as [E|H].
      * apply (proj1 (eq_None_not_Some _) HkΔ1). fold k1. rewrite <- E. eauto.
      * apply elem_of_list_singleton in H. apply (proj1 (eq_None_not_Some _) HkΔ2). fold k2. rewrite <- H. eauto.
Qed.
End StepExt.

(* ------------------------------------------------------------------ the request of a droppable forward (GC)
   `topo_send` of TopoStep.v excludes the GC request, because the message provides nothing: the
   provider channel of the droppable forward is left without a provider.  That is harmless exactly
   when nobody refers to it — which is how `drop` creates it (drop_child_unref below) and what every
   step keeps (unref_rewrite: a step never adds a reference to an old, unreferenced channel). *)
Section SendGC.
Variable D : tenv.
Lemma topo_send_gc c p pp k m st :
  Topo c -> LinCfg c -> procs c !! p = Some pp -> pr_provs pp <> [] ->
  action_of Async D pp = ASend k m ->
  (m_rule m <> RGC \/ forall j o2, j ∈ cids_of (pr_provs pp) -> obj_in c o2 -> j ∉ refs o2) ->
  chans c !! k = Some st -> ch_closed st = false -> ch_buf st = None ->
  Topo (del_proc (put_msg c k st (Some m)) p) /\ LinCfg (del_proc (put_msg c k st (Some m)) p).
Proof.
  intros Ht Hl Hp Hne Ha Hgc Hk Hcl Hb.
  destruct (send_objs D pp k m Hne Ha) as (Hrefs & Hprov & Hprov' & Hlin).
  set (c' := del_proc (put_msg c k st (Some m)) p).
  assert (Hobj' : forall o', obj_in c' o' ->
            match o' with
            | OProc r rr => r <> p /\ procs c !! r = Some rr
            | OMsg k' m' => (k' = k /\ m' = m) \/ (k' <> k /\ obj_in c (OMsg k' m'))
            end).
  { intros [r rr|k' m']; unfold c', del_proc, put_msg; cbn.
    - intros H. apply lookup_delete_Some in H as [Hn H]. split; [congruence|done].
    - intros (st' & H & Hbuf). apply lookup_insert_Some in H as [[<- <-]|[Hne' H]]; [left; cbn in Hbuf; split; congruence|].
      right. split; [done|]. by exists st'. }
  split.
  - apply (topo_rewrite c c' [OProc p pp] [OMsg k m] (fun _ => False)); try done.
    + intros o Ho. apply elem_of_list_singleton in Ho as ->. exact Hp.
    + intros [r rr|k' m'] Ho.
      * destruct (decide (r = p)) as [->|Hn]; [left|right].
        -- cbn in Ho. rewrite Hp in Ho. injection Ho as <-. by apply elem_of_list_singleton.
        -- intros H. apply elem_of_list_singleton in H. congruence.
      * right. intros H. apply elem_of_list_singleton in H. discriminate.
    + intros o' Ho'. specialize (Hobj' o' Ho'). destruct o' as [r rr|k' m'].
      * destruct Hobj' as [Hn H]. left. split; [exact H|]. intros Hx. apply elem_of_list_singleton in Hx. congruence.
      * destruct Hobj' as [[-> ->]|[Hn H]]; [right; by apply elem_of_list_singleton|].
        left. split; [exact H|]. intros Hx. apply elem_of_list_singleton in Hx. discriminate.
    + intros [r rr|k' m'] Ho Hx.
      * cbn in Ho |- *. rewrite lookup_delete_ne; [exact Ho|]. intros <-. apply Hx. apply elem_of_list_singleton.
        rewrite Hp in Ho. by injection Ho as <-.
      * destruct Ho as (st' & H & Hbuf). exists st'. cbn. split; [|done]. rewrite lookup_insert_ne; [done|].
        intros <-. rewrite Hk in H. injection H as <-. congruence.
    + intros o' Ho'. apply elem_of_list_singleton in Ho' as ->. eexists. cbn. split; [apply lookup_insert|done].
    + intros o' j Ho' Hj. apply elem_of_list_singleton in Ho' as ->. left. exists (OProc p pp).
      split; [by apply elem_of_list_singleton|]. cbn. by apply Hprov.
    + intros o' j Ho' Hj. apply elem_of_list_singleton in Ho' as ->. left. exists (OProc p pp).
      split; [by apply elem_of_list_singleton|]. cbn. by apply Hrefs.
    + intros o1 o2 j H1 H2 _ _. apply elem_of_list_singleton in H1, H2. congruence.
    + intros o1 o2 j H1 H2 _ _. apply elem_of_list_singleton in H1, H2. congruence.
    + intros o j Ho Hj. apply elem_of_list_singleton in Ho as ->. cbn in Hj. destruct Hgc as [Hgc|Hunref].
      * left. exists (OMsg k m). split; [by apply elem_of_list_singleton|]. by apply Hprov'.
      * right. split.
        -- intros o2 Ho2 Hj2. destruct (Hunref j o2 Hj Ho2 Hj2).
        -- intros o' Ho' Hj'. apply elem_of_list_singleton in Ho' as ->. apply Hrefs in Hj'.
           exact (Hunref j (OProc p pp) Hj Hp Hj').
    + intros k' st' Hk' Hcl'. left. cbn in Hk'. apply lookup_insert_Some in Hk' as [[<- <-]|[Hn Hk']]; [cbn in Hcl'; congruence|].
      exists st'. done.
    + intros rk M Hr. exists rk, M. eapply rank_ok_same_dom; [| |exact Hr].
      * intros k' Hk'. cbn in Hk'. apply lookup_insert_is_Some in Hk' as [<-|[_ H]]; [by eexists|done].
      * intros o' k1 j Ho' Hk1 Hj. specialize (Hobj' o' Ho'). destruct Hr as [_ Hr]. destruct o' as [r rr|k' m'].
        -- destruct Hobj' as [_ H]. eapply (Hr (OProc r rr)); eauto.
        -- destruct Hobj' as [[-> ->]|[_ H]]; [|eapply (Hr (OMsg k' m')); eauto].
           eapply (Hr (OProc p pp)); [exact Hp|by apply Hprov|by apply Hrefs].
  - split.
    + intros r rr Hr. cbn in Hr. apply lookup_delete_Some in Hr as [_ Hr]. exact (lc_procs c Hl r rr Hr).
    + intros k' st' m' Hk' Hb'. cbn in Hk'. apply lookup_insert_Some in Hk' as [[<- <-]|[_ Hk']].
      * cbn in Hb'. injection Hb' as <-. apply Hlin. exact (lc_procs c Hl p pp Hp).
      * exact (lc_msgs c Hl k' st' m' Hk' Hb').
Qed.

End SendGC.

(* ------------------------------------------------------------------ the provider of the droppable forward made by `drop` is referenced by nobody *)
Section DropUnref.
Variable D : tenv.
Variable F : list fundef.
Variable teq : sty -> sty -> Prop.
Hypothesis Hteq : teq_laws D teq.

Theorem drop_child_unref Δ c p n0 cl k0 nx md c' :
  cfg_typed D F teq Δ c -> ns_ok c ->
  procs c !! p = Some (Proc [n0] (FDrop cl k0) nx) -> is_np md = false ->
  step md D F c (Run p) = SStep c' ->
  (exists cn, procs c' !! (p ++ [(S nx + 1)%nat]) = Some (Proc [cn] (FFwd (mkName (ident cl) true (pol cl) (nty cl) None) cl true) 0) /\
              chan cn = Some (p ++ [nx])) /\
  forall o', obj_in c' o' -> p ++ [nx] ∉ refs o'.
Proof.
  intros Hc Hns Hp Hnp Hs.
  destruct (ct_procs D F teq Δ c Hc p _ Hp) as (s & rs & Hne & Hprovs & Hty). cbn [pr_provs pr_body0] in *.
  inversion Hty as [| | | | | | | | | | | | ? ? ? ? c0 k' T Hcl Hk0| | | | | | |]; subst.
  destruct Hcl as (Hself & _ & Hch). destruct (chan cl) as [kcl|] eqn:Ecl; [|destruct Hch as [_ (t' & H0 & _)]; by rewrite lookup_empty in H0].
  cbn [step] in Hs. rewrite Hp in Hs. unfold action_of in Hs. cbn [pr_body0] in Hs. rewrite Hself in Hs.
  unfold internal, multi in Hs. cbn [pr_provs length] in Hs. cbn in Hs. unfold internal_effect in Hs. cbn [pr_body0] in Hs.
  rewrite Hnp in Hs. unfold droppable_fwd, fresh_chan in Hs. cbn [pr_next pr_provs pr_body0 eff_step chan set_body] in Hs.
  injection Hs as <-. unfold set_body. cbn [pr_provs pr_body0 pr_next]. rewrite apply_spawn_effect. cbn [length].
  destruct (fresh_facts D F teq Δ c p n0 _ nx Hc Hns Hp) as [Hfr Hkp].
  destruct (Hfr nx (le_n _)) as (HkΔ & Hkc & _ & Hfro).
  split.
  - exists (mkName (ident cl) false (pol cl) (nty cl) (Some (p ++ [nx]))). cbn [procs]. split; [|reflexivity]. rewrite lookup_insert_ne by (apply not_eq_sym, child_ne). apply lookup_insert.
  - intros [r rr|k' m'] Ho'; cbn in Ho'.
    + apply lookup_insert_Some in Ho' as [[<- <-]|[Hn Ho']].
      * cbn. intros Hk. destruct (Hfro (OProc p _) Hp) as [_ H]. apply H. cbn. set_solver.
      * apply lookup_insert_Some in Ho' as [[<- <-]|[Hn' Ho']].
        -- cbn. unfold name_chans. simpl. rewrite Ecl. intros Hk. apply elem_of_list_singleton in Hk.
           destruct Hch as (t' & H0 & _). apply (proj1 (eq_None_not_Some _) HkΔ). rewrite Hk. eauto.
        -- by destruct (Hfro (OProc r rr) Ho').
    + destruct Ho' as (st' & H & Hbuf). apply lookup_insert_Some in H as [[_ <-]|[_ H]]; [discriminate|].
      assert (Ho : obj_in c (OMsg k' m')) by (exists st'; done). by destruct (Hfro _ Ho).
Qed.
End DropUnref.

(* a rewriting step never adds a reference to an old channel: an unreferenced channel that is not
   fresh for the step stays unreferenced (the side conditions are those of TopoStep.topo_rewrite) *)
Lemma unref_rewrite (c c' : config) (X Y : list obj) (fresh : cid -> Prop) j :
  (forall o', obj_in c' o' -> (obj_in c o' /\ o' ∉ X) \/ o' ∈ Y) ->
  (forall o' k, o' ∈ Y -> k ∈ refs o' -> (exists o, o ∈ X /\ k ∈ refs o) \/ fresh k) ->
  (forall o, o ∈ X -> obj_in c o) -> ~ fresh j ->
  (forall o, obj_in c o -> j ∉ refs o) -> forall o', obj_in c' o' -> j ∉ refs o'.
Proof.
  intros Hin' Hrefs HX Hnf Hun o' Ho' Hj. destruct (Hin' o' Ho') as [[Ho _]|Hy].
  - exact (Hun o' Ho Hj).
  - destruct (Hrefs o' j Hy Hj) as [(o & Hox & Hjo)|Hf]; [|contradiction]. exact (Hun o (HX o Hox) Hjo).
Qed.
