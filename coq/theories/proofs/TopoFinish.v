(* TopoFinish.v — Topo is preserved when a process receives a message and ENDS, leaving one droppable
   forward per client channel it still held (Runtime.droppable_fwds):
     * the receipt of a GC request by a process that is not a forward (handleNegativeDropRequest);
     * a droppable positive forward receiving a message (the message is dropped, and so are the
       channels it carries).
   Both are instances of `topo_finish_fwds`: the process and the message disappear, each listed
   client channel gets a new droppable forward on a fresh channel.  What the process provided must
   be referenced by nobody else (for a GC request: the channel of the request itself; for the
   droppable forward: its own provider, see TopoStepExt.drop_child_unref). *)
From stdpp Require Import gmap strings.
Require Import Grits.Base Grits.ModeDefs Grits.Modes Grits.STypes Grits.Forms Grits.Subst Grits.TcDeps Grits.Expand
               Grits.Runtime Grits.RuntimeFootprint Grits.spec.RtTyping Grits.spec.Topo.
Require Import Grits.proofs.RtSubst Grits.proofs.StepErrors Grits.proofs.RtSafety Grits.proofs.TopoLin
               Grits.proofs.RuntimeFacts Grits.proofs.TopoStep.

(* ------------------------------------------------------------------ spawned processes, by index *)
Lemma spawned_lookup_iff self next ss q v :
  spawned self next ss !! q = Some v <-> exists i s, ss !! i = Some s /\ q = self ++ [(next + i)%nat] /\ v = mk_spawned s.
Proof.
  revert next. induction ss as [|s r IH]; intros next.
  - unfold spawned. cbn. rewrite lookup_empty. split; [discriminate|]. intros (i & s & H & _). destruct i; discriminate.
  - rewrite spawned_cons. rewrite lookup_union_Some_raw. rewrite IH. split.
    + intros [(i & s' & Hs' & -> & ->)|[Hn H]].
      * exists (S i), s'. split; [done|]. split; [|done]. f_equal. f_equal. lia.
      * apply lookup_singleton_Some in H as [<- <-]. exists 0%nat, s. split; [done|]. split; [|done]. by rewrite Nat.add_0_r.
    + intros (i & s' & Hs' & -> & ->). destruct i as [|i]; simpl in Hs'.
      * injection Hs' as ->. right. rewrite Nat.add_0_r. split; [|apply lookup_singleton].
        destruct (spawned self (S next) r !! (self ++ [next])) eqn:E; [|done].
        apply spawned_lookup_Some in E as (n & E & Hn & _). apply app_inv_head in E. injection E as E. exfalso. lia.
      * left. exists i, s'. split; [done|]. split; [|done]. f_equal. f_equal. lia.
Qed.

(* ------------------------------------------------------------------ droppable_fwds, explicitly *)
Definition dname (self : pid) (nx i : nat) (cl : name) : name :=
  mkName (ident cl) false (pol cl) (nty cl) (Some (self ++ [(nx + i)%nat])).
Definition dfwd (cl : name) : form := FFwd (mkName (ident cl) true (pol cl) (nty cl) None) cl true.
Definition dspawn (self : pid) (nx i : nat) (cl : name) : spawn := Spawn [dname self nx i cl] (dfwd cl).

Lemma droppable_fwds_eq self : forall cls p,
  droppable_fwds self p cls =
  (imap (dspawn self (pr_next p)) cls, imap (fun i _ => self ++ [(pr_next p + i)%nat]) cls,
   Proc (pr_provs p) (pr_body0 p) (pr_next p + length cls)).
Proof.
  induction cls as [|cl r IH]; intros p; cbn [droppable_fwds].
  - destruct p as [a b n0]. cbn. by rewrite Nat.add_0_r.
  - unfold droppable_fwd, fresh_chan. cbn [chan]. rewrite IH. cbn [pr_next pr_provs pr_body0 length].
    rewrite !imap_cons. f_equal; [f_equal|f_equal; lia].
    + f_equal; [unfold dspawn, dname; by rewrite Nat.add_0_r|].
      apply imap_ext. intros i x _. unfold dspawn, dname. cbn. replace (S (pr_next p + i)) with (pr_next p + S i)%nat by lia. reflexivity.
    + f_equal; [by rewrite Nat.add_0_r|]. apply imap_ext. intros i x _. cbn. replace (S (pr_next p + i)) with (pr_next p + S i)%nat by lia. reflexivity.
Qed.

Lemma nodup_flat_map_idx' {A B} (f : A -> list B) l : NoDup (flat_map f l) ->
  forall i j a b x, l !! i = Some a -> l !! j = Some b -> In x (f a) -> In x (f b) -> i = j.
Proof.
  induction l as [|c l IH]; intros Hnd i j a b x Hi Hj Ha Hb; [destruct i; discriminate|].
  simpl in Hnd. apply NoDup_app_inv in Hnd as (_ & Hnd & Hdj).
  assert (Hin : forall k d, l !! k = Some d -> In x (f d) -> In x (flat_map f l)).
  { intros k d Hk Hd. apply in_flat_map. exists d. split; [|done]. apply elem_of_list_In. eapply elem_of_list_lookup_2; eauto. }
  destruct i as [|i], j as [|j]; simpl in Hi, Hj; auto.
  - injection Hi as ->. destruct (Hdj x Ha (Hin j b Hj Hb)).
  - injection Hj as ->. destruct (Hdj x Hb (Hin i a Hi Ha)).
  - f_equal. eapply IH; eauto.
Qed.

(* ------------------------------------------------------------------ the rewriting: process and message out, droppable forwards in *)
Section Finish.
Variables (c : config) (p : pid) (pp : proc) (k : cid) (st : chan_st) (m : msg) (cls : list name).
Notation nx := (pr_next pp).
Notation n := (length cls).
Definition kn (i : nat) : cid := p ++ [(nx + i)%nat].
Definition wpid (i : nat) : pid := p ++ [(nx + n + i)%nat].
Definition wproc (i : nat) (cl : name) : proc := Proc [dname p nx i cl] (dfwd cl) 0.
Definition after_finish : config :=
  let '(ss, kns, _) := droppable_fwds p pp cls in
  apply_effect (put_msg c k st None) p pp (Eff Finish ss kns [] []).

Hypothesis Ht : Topo c.
Hypothesis Hp : procs c !! p = Some pp.
Hypothesis Hk : chans c !! k = Some st.
Hypothesis Hb : ch_buf st = Some m.
Hypothesis Hopen : ch_closed st = false.
Hypothesis Hfc : forall i, (i < n)%nat -> chans c !! kn i = None /\ forall o, obj_in c o -> kn i ∉ provides o /\ kn i ∉ refs o.
Hypothesis Hfp : forall i, (i < n)%nat -> procs c !! wpid i = None.
Hypothesis Hnd : NoDup (flat_map name_chans cls).
Hypothesis Hsub : forall j, In j (flat_map name_chans cls) -> j ∈ refs (OProc p pp) \/ j ∈ refs (OMsg k m).
Hypothesis Hdang : forall j, j ∈ provides (OProc p pp) \/ j ∈ provides (OMsg k m) ->
  (forall o2, obj_in c o2 -> j ∈ refs o2 -> o2 = OProc p pp \/ o2 = OMsg k m) /\ ~ In j (flat_map name_chans cls).

Let X : list obj := [OProc p pp; OMsg k m].
Let Y : list obj := imap (fun i cl => OProc (wpid i) (wproc i cl)) cls.
Let kns : list cid := imap (fun i (_ : name) => kn i) cls.
Let ss : list spawn := imap (dspawn p nx) cls.

Lemma after_finish_eq :
  after_finish = Cfg (delete p (spawned p (nx + n) ss ∪ procs c))
                     (new_all kns (<[k := Chan None (ch_closed st)]> (chans c))) (out c).
Proof.
  unfold after_finish. rewrite droppable_fwds_eq. rewrite apply_effect_eq.
  cbn [e_close e_newch e_spawn e_after e_out close_all foldr new_out rev map app].
  unfold procs_after, eff_next0, eff_base. cbn [e_after e_newch e_spawn procs chans out put_msg].
  rewrite imap_length. reflexivity.
Qed.

Lemma in_Y o : o ∈ Y <-> exists i cl, cls !! i = Some cl /\ o = OProc (wpid i) (wproc i cl).
Proof. unfold Y. rewrite elem_of_lookup_imap. split; intros (i & cl & H1 & H2); eauto. Qed.
Lemma in_kns j : j ∈ kns <-> exists i, (i < n)%nat /\ j = kn i.
Proof.
  unfold kns. rewrite elem_of_lookup_imap. split.
  - intros (i & cl & -> & H). exists i. split; [by apply lookup_lt_Some in H|done].
  - intros (i & Hi & ->). destruct (lookup_lt_is_Some_2 cls i Hi) as [cl Hcl]. eauto.
Qed.
Lemma wpid_ne i : wpid i <> p.
Proof. unfold wpid. intros E. apply (f_equal length) in E. rewrite app_length in E. cbn in E. lia. Qed.
Lemma kn_inj i j : kn i = kn j -> i = j.
Proof. unfold kn. intros E. apply app_inv_head in E. injection E as E. lia. Qed.
Lemma wpid_inj i j : wpid i = wpid j -> i = j.
Proof. unfold wpid. intros E. apply app_inv_head in E. injection E as E. lia. Qed.

Lemma spawned_Y q v : spawned p (nx + n) ss !! q = Some v <-> exists i cl, cls !! i = Some cl /\ q = wpid i /\ v = wproc i cl.
Proof.
  rewrite spawned_lookup_iff. unfold ss. split.
  - intros (i & s & Hs & -> & ->). rewrite list_lookup_imap in Hs. destruct (cls !! i) as [cl|] eqn:E; [|discriminate].
    injection Hs as <-. exists i, cl. done.
  - intros (i & cl & Hcl & -> & ->). exists i, (dspawn p nx i cl). rewrite list_lookup_imap, Hcl. done.
Qed.

Lemma wproc_provides i cl : provides (OProc (wpid i) (wproc i cl)) = [kn i].
Proof. reflexivity. Qed.
Lemma wproc_refs i cl : refs (OProc (wpid i) (wproc i cl)) = name_chans cl.
Proof. cbn. unfold name_chans at 1. reflexivity. Qed.

Theorem topo_finish_fwds : Topo after_finish.
Proof.
  rewrite after_finish_eq.
  set (c' := Cfg (delete p (spawned p (nx + n) ss ∪ procs c)) (new_all kns (<[k := Chan None (ch_closed st)]> (chans c))) (out c)).
  assert (Hmsg : obj_in c (OMsg k m)) by (exists st; done).
  assert (Hold_not_spawned : forall q v, procs c !! q = Some v -> spawned p (nx + n) ss !! q = None).
  { intros q v Hq. destruct (spawned p (nx + n) ss !! q) eqn:E; [|done]. apply spawned_Y in E as (i & cl & Hcl & -> & _).
    rewrite (Hfp i) in Hq; [discriminate|]. by apply lookup_lt_Some in Hcl. }
  assert (Hold_not_kn : forall j, is_Some (chans c !! j) -> j ∉ kns).
  { intros j [x Hj] Hin. apply in_kns in Hin as (i & Hi & ->). destruct (Hfc i Hi) as [H0 _]. rewrite H0 in Hj. discriminate. }
  assert (Hobj' : forall o', obj_in c' o' -> (obj_in c o' /\ o' ∉ X) \/ o' ∈ Y).
  { intros [q v|k' m'] Ho'; unfold c' in Ho'; cbn in Ho'.
    - apply lookup_delete_Some in Ho' as [Hne Ho']. apply lookup_union_Some_raw in Ho' as [Ho'|[_ Ho']].
      + right. apply in_Y. apply spawned_Y in Ho' as (i & cl & ? & -> & ->). eauto.
      + left. split; [exact Ho'|]. unfold X. intros Hx. apply elem_of_cons in Hx as [Hx|Hx]; [congruence|].
        apply elem_of_list_singleton in Hx. discriminate.
    - destruct Ho' as (st' & H & Hbuf). rewrite new_all_lookup in H. destruct (decide (k' ∈ kns)); [injection H as <-; discriminate|].
      apply lookup_insert_Some in H as [[<- <-]|[Hne H]]; [discriminate|]. left. split; [by exists st'|].
      unfold X. intros Hx. apply elem_of_cons in Hx as [Hx|Hx]; [discriminate|]. apply elem_of_list_singleton in Hx. congruence. }
  apply (topo_rewrite c c' X Y (fun j => j ∈ kns)); try done.
  - intros o Ho. unfold X in Ho. apply elem_of_cons in Ho as [->|Ho]; [exact Hp|]. by apply elem_of_list_singleton in Ho as ->.
  - intros [r rr|k' m'] Ho; unfold X.
    + destruct (decide (r = p)) as [->|Hne]; [left|right].
      * cbn in Ho. rewrite Hp in Ho. injection Ho as <-. set_solver.
      * intros Hx. apply elem_of_cons in Hx as [Hx|Hx]; [congruence|]. apply elem_of_list_singleton in Hx. discriminate.
    + destruct (decide (k' = k)) as [->|Hne]; [left|right].
      * destruct Ho as (st' & H & Hbuf). rewrite Hk in H. injection H as <-. rewrite Hb in Hbuf. injection Hbuf as <-. set_solver.
      * intros Hx. apply elem_of_cons in Hx as [Hx|Hx]; [discriminate|]. apply elem_of_list_singleton in Hx. congruence.
  - intros [r rr|k' m'] Ho Hx; unfold c'; cbn.
    + cbn in Ho. assert (r <> p) by (intros ->; apply Hx; rewrite Hp in Ho; injection Ho as <-; unfold X; set_solver).
      rewrite lookup_delete_ne by done. rewrite lookup_union_r; [exact Ho|]. eapply Hold_not_spawned; eauto.
    + destruct Ho as (st' & H & Hbuf). assert (k' <> k).
      { intros ->. apply Hx. rewrite Hk in H. injection H as <-. rewrite Hb in Hbuf. injection Hbuf as <-. unfold X. set_solver. }
      exists st'. split; [|done]. rewrite new_all_lookup. rewrite decide_False by (apply Hold_not_kn; eauto).
      by rewrite lookup_insert_ne.
  - intros o' Ho'. apply in_Y in Ho' as (i & cl & Hcl & ->). unfold c'. cbn.
    rewrite lookup_delete_ne by (apply not_eq_sym, wpid_ne). apply lookup_union_Some_raw. left. apply spawned_Y. eauto.
  - intros o' j Ho' Hj. apply in_Y in Ho' as (i & cl & Hcl & ->). rewrite wproc_provides in Hj.
    apply elem_of_list_singleton in Hj as ->. right. apply in_kns. exists i. split; [by apply lookup_lt_Some in Hcl|done].
  - intros o' j Ho' Hj. apply in_Y in Ho' as (i & cl & Hcl & ->). rewrite wproc_refs in Hj. left.
    assert (Hin : In j (flat_map name_chans cls)).
    { apply in_flat_map. exists cl. split; [apply elem_In; eapply elem_of_list_lookup_2; eauto|by apply elem_In]. }
    destruct (Hsub j Hin) as [H|H]; [exists (OProc p pp)|exists (OMsg k m)]; (split; [unfold X; set_solver|done]).
  - intros o1 o2 j H1 H2 Hj1 Hj2. apply in_Y in H1 as (i1 & cl1 & Hcl1 & ->). apply in_Y in H2 as (i2 & cl2 & Hcl2 & ->).
    rewrite wproc_provides in Hj1, Hj2. apply elem_of_list_singleton in Hj1, Hj2. subst j. apply kn_inj in Hj2 as ->.
    rewrite Hcl1 in Hcl2. by injection Hcl2 as ->.
  - intros o1 o2 j H1 H2 Hj1 Hj2. apply in_Y in H1 as (i1 & cl1 & Hcl1 & ->). apply in_Y in H2 as (i2 & cl2 & Hcl2 & ->).
    rewrite wproc_refs in Hj1, Hj2. apply elem_In in Hj1, Hj2.
    pose proof (nodup_flat_map_idx' name_chans cls Hnd i1 i2 cl1 cl2 j Hcl1 Hcl2 Hj1 Hj2) as ->.
    rewrite Hcl1 in Hcl2. by injection Hcl2 as ->.
  - intros j o Hj Ho. apply in_kns in Hj as (i & Hi & ->). by apply (Hfc i Hi).
  - intros j Hj. apply in_kns in Hj as (i & Hi & ->). by apply (Hfc i Hi).
  - intros o j Ho Hj. right. assert (Hor : j ∈ provides (OProc p pp) \/ j ∈ provides (OMsg k m)).
    { unfold X in Ho. apply elem_of_cons in Ho as [->|Ho]; [by left|]. apply elem_of_list_singleton in Ho as ->. by right. }
    destruct (Hdang j Hor) as [H1 H2]. split.
    + intros o2 Ho2 Hj2. destruct (H1 o2 Ho2 Hj2) as [-> | ->]; unfold X; set_solver.
    + intros o' Ho' Hj'. apply in_Y in Ho' as (i & cl & Hcl & ->). rewrite wproc_refs in Hj'. apply H2.
      apply in_flat_map. exists cl. split; [apply elem_In; eapply elem_of_list_lookup_2; eauto|by apply elem_In].
  - intros o' j Ho' Hj Hf. exfalso. apply in_Y in Ho' as (i & cl & Hcl & ->). rewrite wproc_refs in Hj.
    assert (Hin : In j (flat_map name_chans cls)).
    { apply in_flat_map. exists cl. split; [apply elem_In; eapply elem_of_list_lookup_2; eauto|by apply elem_In]. }
    apply in_kns in Hf as (i' & Hi' & ->). destruct (Hfc i' Hi') as [_ Hno].
    destruct (Hsub _ Hin) as [H|H]; [by destruct (Hno (OProc p pp) Hp)|by destruct (Hno (OMsg k m) Hmsg)].
  - intros k' st' Hk' Hcl'. unfold c' in Hk'. cbn in Hk'. rewrite new_all_lookup in Hk'.
    destruct (decide (k' ∈ kns)); [injection Hk' as <-; discriminate|].
    apply lookup_insert_Some in Hk' as [[<- <-]|[Hne Hk']]; [cbn in Hcl'; congruence|]. left. exists st'. done.
  - intros rk M [Hbd Hr]. exists (fun j => if decide (j ∈ kns) then 0%nat else S (rk j)), (S M). split.
    + intros j Hj. destruct (decide (j ∈ kns)); [lia|]. unfold c' in Hj. cbn in Hj. rewrite new_all_lookup in Hj.
      rewrite decide_False in Hj by done. apply lookup_insert_is_Some in Hj as [<-|[_ Hj]]; [|specialize (Hbd j Hj); lia].
      assert (is_Some (chans c !! k)) as Hs by eauto. specialize (Hbd k Hs). lia.
    + intros o' k1 j Ho' Hk1 Hj. destruct (Hobj' o' Ho') as [[Ho _]|Hy].
      * rewrite decide_False. 2: { intros Hin. apply in_kns in Hin as (i & Hi & ->). by destruct (Hfc i Hi) as [_ Hno]; destruct (Hno o' Ho). }
        rewrite decide_False. 2: { intros Hin. apply in_kns in Hin as (i & Hi & ->). by destruct (Hfc i Hi) as [_ Hno]; destruct (Hno o' Ho). }
        specialize (Hr o' k1 j Ho Hk1 Hj). lia.
      * apply in_Y in Hy as (i & cl & Hcl & ->). rewrite wproc_provides in Hk1. rewrite wproc_refs in Hj.
        apply elem_of_list_singleton in Hk1 as ->. rewrite decide_True by (apply in_kns; exists i; split; [by apply lookup_lt_Some in Hcl|done]).
        rewrite decide_False; [lia|]. intros Hin. apply in_kns in Hin as (i' & Hi' & ->). destruct (Hfc i' Hi') as [_ Hno].
        assert (Hin : In (kn i') (flat_map name_chans cls)).
        { apply in_flat_map. exists cl. split; [apply elem_In; eapply elem_of_list_lookup_2; eauto|by apply elem_In]. }
        destruct (Hsub _ Hin) as [H|H]; [by destruct (Hno (OProc p pp) Hp)|by destruct (Hno (OMsg k m) Hmsg)].
Qed.
End Finish.

(* ------------------------------------------------------------------ instances *)
Section Instances.
Variable D : tenv.
Variable F : list fundef.
Variable teq : sty -> sty -> Prop.
Hypothesis Hteq : teq_laws D teq.

Lemma fresh_above Δ c p pp :
  cfg_typed D F teq Δ c -> ns_ok c -> procs c !! p = Some pp ->
  forall j, (pr_next pp <= j)%nat ->
    chans c !! (p ++ [j]) = None /\ procs c !! (p ++ [j]) = None /\
    forall o, obj_in c o -> p ++ [j] ∉ provides o /\ p ++ [j] ∉ refs o.
Proof.
  intros Hc Hns Hp j Hj.
  assert (HkΔ : Δ !! (p ++ [j]) = None) by (apply (ct_fresh D F teq Δ c Hc p _ j [] Hp); lia).
  split; [|split].
  - destruct (chans c !! (p ++ [j])) eqn:E; [|done]. exfalso.
    eapply (ns_ok_not_fresh_cid c p _ (p ++ [j]) j Hns Hp); [by eexists|lia|done].
  - destruct (procs c !! (p ++ [j])) eqn:E; [|done]. exfalso.
    eapply (ns_ok_not_fresh_pid c p _ (p ++ [j]) j Hns Hp); [by eexists|lia|done].
  - intros o Ho. split; intros Hk.
    + apply (proj1 (eq_None_not_Some _) HkΔ). exact (obj_chans_typed D F teq Δ c o _ Hc Ho (or_introl Hk)).
    + apply (proj1 (eq_None_not_Some _) HkΔ). exact (obj_chans_typed D F teq Δ c o _ Hc Ho (or_intror Hk)).
Qed.

(* the channels a positive message carries *)
Definition carried (m : msg) : list name :=
  (if initialized (m_c1 m) then [m_c1 m] else []) ++ (if initialized (m_c2 m) then [m_c2 m] else []).

Lemma carried_init m cl : In cl (carried m) -> exists kc, chan cl = Some kc.
Proof.
  unfold carried, initialized. intros H. apply in_app_iff in H as [H|H].
  - destruct (chan (m_c1 m)) eqn:E; [|destruct H]. destruct H as [<-|[]]. eauto.
  - destruct (chan (m_c2 m)) eqn:E; [|destruct H]. destruct H as [<-|[]]. eauto.
Qed.

Lemma carried_chans m : flat_map name_chans (carried m) = name_chans (m_c1 m) ++ name_chans (m_c2 m).
Proof.
  unfold carried, initialized, name_chans. destruct (chan (m_c1 m)) eqn:E1, (chan (m_c2 m)) eqn:E2; simpl; by rewrite ?E1, ?E2.
Qed.

Lemma pos_msg_refs Δ k m : msg_typed D teq Δ k m -> is_pos_rule (m_rule m) = true ->
  name_chans (m_c1 m) ++ name_chans (m_c2 m) = refs (OMsg k m) /\ provides (OMsg k m) = [k].
Proof.
  intros (T & HT & Hm) Hpos. unfold refs, provides. destruct (m_rule m); try discriminate.
  - done.
  - destruct Hm as (? & _ & H1 & H2). unfold name_chans. by rewrite H1, H2.
  - destruct Hm as (? & ? & ? & _ & _ & H2). unfold name_chans at 2. rewrite H2. by rewrite app_nil_r.
  - destruct Hm as (? & ? & ? & _ & _ & _ & H2). unfold name_chans at 2. rewrite H2. by rewrite app_nil_r.
Qed.

(* a droppable positive forward receives a message: the message is dropped *)
Theorem topo_dropfwd_recv Δ c p pp to from k st m e :
  cfg_typed D F teq Δ c -> Topo c -> LinCfg c -> ns_ok c -> procs c !! p = Some pp ->
  pr_body0 pp = FFwd to from true -> chan from = Some k ->
  chans c !! k = Some st -> ch_buf st = Some m -> ch_closed st = false -> is_pos_rule (m_rule m) = true ->
  (forall j o2, j ∈ cids_of (pr_provs pp) -> obj_in c o2 -> j ∉ refs o2) ->
  on_message p pp m = EOk e -> Topo (apply_effect (put_msg c k st None) p pp e).
Proof.
  intros Hc Ht Hl Hns Hp Hbody Hfrom Hk Hb Hopen Hpos Hunref He.
  pose proof (ct_msgs D F teq Δ c Hc k st m Hk Hb) as Hmt.
  destruct (pos_msg_refs Δ k m Hmt Hpos) as [Hrefs Hprov].
  assert (Hmsg : obj_in c (OMsg k m)) by (exists st; done).
  unfold on_message in He. rewrite Hbody in He. cbn [negb] in He. rewrite !andb_false_r in He.
  fold (carried m) in He. destruct (droppable_fwds p pp (carried m)) as [[ss cs] p2] eqn:Ed. injection He as <-.
  pose proof (topo_finish_fwds c p pp k st m (carried m)) as Hfin. unfold after_finish in Hfin. rewrite Ed in Hfin.
  assert (Hkrefs : k ∈ refs (OProc p pp)).
  { cbn. rewrite Hbody. simpl. unfold name_chans at 2. rewrite Hfrom. set_solver. }
  apply Hfin; try done.
  - intros i Hi. destruct (fresh_above Δ c p pp Hc Hns Hp (pr_next pp + i) ltac:(lia)) as (H1 & _ & H3). done.
  - intros i Hi. destruct (fresh_above Δ c p pp Hc Hns Hp (pr_next pp + length (carried m) + i) ltac:(lia)) as (_ & H2 & _). done.
  - rewrite carried_chans, Hrefs. exact (lc_msgs c Hl k st m Hk Hb).
  - intros j Hj. right. rewrite carried_chans, Hrefs in Hj. by apply elem_In.
  - intros j [Hj|Hj].
    + split; [intros o2 Ho2 Hj2; destruct (Hunref j o2 Hj Ho2 Hj2)|].
      rewrite carried_chans, Hrefs. intros Hin. apply elem_In in Hin. exact (Hunref j (OMsg k m) Hj Hmsg Hin).
    + rewrite Hprov in Hj. apply elem_of_list_singleton in Hj as ->. split.
      * intros o2 Ho2 Hj2. left. eapply (topo_ref_unique c Ht); eauto.
      * rewrite carried_chans, Hrefs. intros Hin. apply elem_In in Hin.
        eapply (topo_ne c (OMsg k m) k k); eauto. rewrite Hprov. set_solver.
Qed.
End Instances.

(* ------------------------------------------------------------------ free names: their channels occur in the term, without repetition *)
Notation chs l := (flat_map name_chans l).

Lemma in_append_if_not_self x n l : In x (append_if_not_self n l) -> x = n \/ In x l.
Proof. unfold append_if_not_self. destruct (is_self n); [tauto|]. rewrite in_app_iff. simpl. intros [H|[<-|[]]]; auto. Qed.
Lemma in_remove_bound x l b : In x (remove_bound l b) -> In x l.
Proof. unfold remove_bound. rewrite filter_In. tauto. Qed.
Lemma in_merge_names x : forall b a, In x (merge_names a b) -> In x a \/ In x b.
Proof.
  induction b as [|n r IH]; intros a; simpl; [tauto|]. intros H. apply IH in H as [H|H]; [|tauto].
  destruct (name_exists a n); [tauto|]. apply in_app_iff in H as [H|[<-|[]]]; tauto.
Qed.

Lemma free_names_chans_mut :
  (forall f x k, In x (free_names f) -> In k (name_chans x) -> In k (form_chans f)) /\
  (forall b acc x k, In x (free_names_brs acc b) -> In k (name_chans x) -> (In x acc \/ In k (brs_chans b))).
Proof.
  apply form_branches_ind; simpl; intros;
    repeat match goal with
    | H : In _ (append_if_not_self _ _) |- _ => apply in_append_if_not_self in H as [->|H]
    | H : In _ (merge_names _ _) |- _ => apply in_merge_names in H as [H|H]
    | H : In _ (remove_bound _ _) |- _ => apply in_remove_bound in H
    | H : In _ [] |- _ => destruct H
    end; rewrite ?in_app_iff; eauto 6.
  - (* FCase *) destruct (H _ _ _ H0 H1) as [H2|H2]; [|tauto]. apply in_append_if_not_self in H2 as [->|[]]. tauto.
  - (* FCall *)
    assert (Hf : forall l acc, In x (fold_left (fun acc n => append_if_not_self n acc) l acc) -> In x acc \/ In x l).
    { induction l as [|a l IH]; simpl; [tauto|]. intros acc Hx. apply IH in Hx as [Hx|Hx]; [|tauto].
      apply in_append_if_not_self in Hx as [->|Hx]; tauto. }
    apply Hf in H as [[]|H]. apply in_flat_map. eauto.
  - (* BrCons *) destruct (H0 _ _ _ H1 H2) as [H3|H3]; [|tauto]. apply in_merge_names in H3 as [H3|H3]; [tauto|].
    apply in_remove_bound in H3. right. left. eauto.
Qed.
Lemma free_names_chans f x k : In x (free_names f) -> In k (name_chans x) -> In k (form_chans f).
Proof. apply free_names_chans_mut. Qed.

Lemma NoDup_app_intro' {A} (l1 l2 : list A) : NoDup l1 -> NoDup l2 -> (forall x, In x l1 -> In x l2 -> False) -> NoDup (l1 ++ l2).
Proof.
  induction l1 as [|a r IH]; simpl; intros N1 N2 Dj; auto. inversion N1; subst. constructor.
  - rewrite in_app_iff. intros [H|H]; [tauto|]. apply (Dj a); auto.
  - apply IH; auto. intros x Hx Hr. apply (Dj x); auto.
Qed.

Lemma chs_app (a b : list name) : chs (a ++ b) = chs a ++ chs b.
Proof. apply flat_map_app. Qed.

Lemma merge_names_nodup : forall b a, NoDup (chs a) -> NoDup (chs (merge_names a b)).
Proof.
  induction b as [|n r IH]; intros a Ha; simpl; [exact Ha|]. apply IH.
  destruct (name_exists a n) eqn:E; [exact Ha|]. rewrite chs_app. simpl. rewrite app_nil_r.
  unfold name_chans at 2. destruct (chan n) as [k|] eqn:En; [|by rewrite app_nil_r].
  apply NoDup_app_intro'; [exact Ha|repeat constructor; simpl; tauto|].
  intros j Hj [<-|[]]. apply in_flat_map in Hj as (x & Hx & Hjx). unfold name_chans in Hjx.
  destruct (chan x) as [kx|] eqn:Ex; [|destruct Hjx]. destruct Hjx as [->|[]].
  assert (name_exists a n = true); [|congruence]. unfold name_exists. apply existsb_exists. exists x. split; [done|].
  unfold name_equal, initialized. rewrite Ex, En. simpl. unfold cid_eqb. destruct (list_eq_dec Nat.eq_dec k k); done.
Qed.

Lemma free_names_brs_nodup : forall b acc, NoDup (chs acc) -> NoDup (chs (free_names_brs acc b)).
Proof. induction b as [|l p k r IH]; intros acc Ha; simpl; [exact Ha|]. apply IH. by apply merge_names_nodup. Qed.

Definition recv_form (f : form) : Prop :=
  match f with FRecv _ _ _ _ | FCase _ _ | FWait _ _ | FShift _ _ _ => True | _ => False end.

Lemma small_nodup n : NoDup (chs (append_if_not_self n [])).
Proof.
  unfold append_if_not_self. destruct (is_self n); simpl; [constructor|]. rewrite app_nil_r. unfold name_chans.
  destruct (chan n); repeat constructor; simpl; tauto.
Qed.

Lemma free_names_nodup_recv f : recv_form f -> NoDup (chs (free_names f)).
Proof.
  destruct f; simpl; try done; intros _.
  - apply merge_names_nodup, small_nodup.
  - apply free_names_brs_nodup, small_nodup.
  - apply merge_names_nodup, small_nodup.
  - apply merge_names_nodup, small_nodup.
Qed.

Section GcRecv.
Variable D : tenv.
Variable F : list fundef.
Variable teq : sty -> sty -> Prop.
Hypothesis Hteq : teq_laws D teq.

(* the receipt of a GC request by a process waiting on its provider channel (handleNegativeDropRequest):
   the process ends; every free name of its body gets a droppable forward *)
Theorem topo_gc_recv Δ c p pp k st m e :
  cfg_typed D F teq Δ c -> Topo c -> ns_ok c -> procs c !! p = Some pp ->
  recv_form (pr_body0 pp) -> cids_of (pr_provs pp) = [k] ->
  chans c !! k = Some st -> ch_buf st = Some m -> ch_closed st = false -> m_rule m = RGC ->
  on_message p pp m = EOk e -> Topo (apply_effect (put_msg c k st None) p pp e).
Proof.
  intros Hc Ht Hns Hp Hform Hprov Hk Hb Hopen Hgc He.
  assert (Hmsg : obj_in c (OMsg k m)) by (exists st; done).
  assert (Hnf : match pr_body0 pp with FFwd _ _ _ => true | _ => false end = false) by (destruct (pr_body0 pp); done).
  unfold on_message in He. rewrite Hgc, Hnf in He. cbn [rule_eqb andb negb] in He.
  destruct (droppable_fwds p pp (free_names (pr_body0 pp))) as [[ss cs] p2] eqn:Ed. injection He as <-.
  pose proof (topo_finish_fwds c p pp k st m (free_names (pr_body0 pp))) as Hfin. unfold after_finish in Hfin. rewrite Ed in Hfin.
  assert (Hmr : refs (OMsg k m) = [k]) by (cbn; by rewrite Hgc).
  assert (Hmp : provides (OMsg k m) = []) by (cbn; by rewrite Hgc).
  apply Hfin; try done.
  - intros i Hi. destruct (fresh_above D F teq Δ c p pp Hc Hns Hp (pr_next pp + i) ltac:(lia)) as (H1 & _ & H3). done.
  - intros i Hi. destruct (fresh_above D F teq Δ c p pp Hc Hns Hp (pr_next pp + length (free_names (pr_body0 pp)) + i) ltac:(lia)) as (_ & H2 & _). done.
  - by apply free_names_nodup_recv.
  - intros j Hj. left. apply in_flat_map in Hj as (x & Hx & Hjx). cbn. apply elem_In. eapply free_names_chans; eauto.
  - intros j [Hj|Hj]; [|rewrite Hmp in Hj; by apply elem_of_nil in Hj].
    cbn in Hj. rewrite Hprov in Hj. apply elem_of_list_singleton in Hj as ->. split.
    + intros o2 Ho2 Hj2. right. eapply (topo_ref_unique c Ht); eauto. rewrite Hmr. set_solver.
    + intros Hin. apply in_flat_map in Hin as (x & Hx & Hjx).
      assert (Hkr : k ∈ refs (OProc p pp)) by (cbn; apply elem_In; eapply free_names_chans; eauto).
      eapply (topo_ne c (OProc p pp) k k); eauto. cbn. rewrite Hprov. set_solver.
Qed.
End GcRecv.
