(* RtInit.v — the initial configuration of a statically typed program is typed (`initial_typed`).
   Fragment: every process declares exactly one provider name.
   `static_typed` is what the checker's annotated output must satisfy (see `tc_annotations_typed` in
   proofs/RtTheorems.v): the function table is typed once, and every process body is typed, with no
   channels, under the context that gives every top-level provider name the type of its process. *)
From stdpp Require Import gmap strings.
Require Import Grits.Base Grits.ModeDefs Grits.Modes Grits.STypes Grits.Forms Grits.Subst Grits.TcDeps Grits.Expand
               Grits.Runtime Grits.spec.RtTyping Grits.proofs.RtSubst Grits.proofs.RtEffect.

(* ------------------------------------------------------------------ the program as `init_config` sees it *)
Definition prov1 (pr : procdef) : name := hd zero_name (pr_providers pr).
Definition chname (i : nat) (n : name) : name := mkName (ident n) false None None (Some [i; 0%nat]).

Definition single_provider (p : program) : Prop :=
  Forall (fun pr => exists n, pr_providers pr = [n]) (p_procs p).

(* (declared name, its channel, the type of its process), one entry per process *)
Fixpoint tops_from (k : nat) (l : list procdef) : list (name * name * option sty) :=
  match l with
  | [] => []
  | pr :: r => (prov1 pr, chname k (prov1 pr), pr_type pr) :: tops_from (S k) r
  end.
Definition tops (p : program) : list (name * name * option sty) := tops_from 0 (p_procs p).

Fixpoint delta_of (l : list (name * name * option sty)) : gmap cid sty :=
  match l with
  | [] => ∅
  | (_, new, Some t) :: r => match chan new with Some c => <[c := t]> (delta_of r) | None => delta_of r end
  | (_, _, None) :: r => delta_of r
  end.
Definition init_delta (p : program) : gmap cid sty := delta_of (tops p).

Fixpoint top_ctx_of (l : list (name * name * option sty)) : gmap string sty :=
  match l with
  | [] => ∅
  | (old, _, Some t) :: r => <[ident old := t]> (top_ctx_of r)
  | (_, _, None) :: r => top_ctx_of r
  end.
Definition top_ctx (p : program) : gmap string sty := top_ctx_of (tops p).

Definition init_pairs (p : program) : list (name * name) :=
  concat (imap (fun i pr => init_provs i (pr_providers pr)) (p_procs p)).
Definition init_body (p : program) (pr : procdef) : form :=
  fold_left (fun b '(old, new) => subst old new b) (init_pairs p) (pr_body pr).

Section RtInit.
Variable teq : sty -> sty -> Prop.

(* a context that only mentions top-level provider names, at the type of their process *)
Definition top_sub (Γ : gmap string sty) (p : program) : Prop :=
  forall x A, Γ !! x = Some A ->
    exists pr, In pr (p_procs p) /\ ident (prov1 pr) = x /\ pr_type pr = Some A.

(* what the annotated output of the checker satisfies: the function table is typed once; every
   process declares one provider name (a binder), these names are pairwise different, and its body is
   typed, without channels, under a context of top-level provider names (the ones it uses) *)
Definition static_typed (p : program) : Prop :=
  funs_typed (p_types p) (p_funs p) teq /\
  NoDup (map (fun pr => ident (prov1 pr)) (p_procs p)) /\
  Forall (fun pr => exists t n Γ, pr_type pr = Some t /\ pr_providers pr = [n] /\ binder n /\ top_sub Γ p /\
                                  typed (p_types p) (p_funs p) teq ∅ Γ None {[ "" ]} t (pr_body pr))
         (p_procs p).

(* ------------------------------------------------------------------ list lemmas *)
Lemma init_provs_single i n : init_provs i [n] = [(n, chname i n)].
Proof. reflexivity. Qed.

Lemma init_pairs_tops_from k l :
  Forall (fun pr => exists n, pr_providers pr = [n]) l ->
  concat (imap (fun i pr => init_provs (k + i) (pr_providers pr)) l) =
  map (fun x : name * name * option sty => (fst (fst x), snd (fst x))) (tops_from k l).
Proof.
  revert k. induction l as [|pr l IH]; intros k Hs; simpl; auto.
  inversion Hs as [|? ? [n Hn] Hs']; subst.
  rewrite Nat.add_0_r. unfold prov1 at 1 2. rewrite Hn. simpl. f_equal.
  rewrite <- (IH (S k) Hs'). f_equal. apply imap_ext. intros i x _. simpl. f_equal. lia.
Qed.

Lemma init_pairs_tops p : single_provider p ->
  init_pairs p = map (fun x : name * name * option sty => (fst (fst x), snd (fst x))) (tops p).
Proof. intros Hs. apply (init_pairs_tops_from 0 (p_procs p) Hs). Qed.

Lemma fold_left_insert_lookup {X} (h : gmap pid proc -> X -> gmap pid proc) (f : X -> pid) (g : X -> proc) l m0 q v :
  (forall m x, h m x = <[f x := g x]> m) ->
  fold_left h l m0 !! q = Some v -> (exists x, In x l /\ f x = q /\ g x = v) \/ m0 !! q = Some v.
Proof.
  intros Hh. revert m0. induction l as [|a l IH]; intros m0; simpl; auto.
  intros H. apply IH in H. destruct H as [[x [H1 [H2 H3]]]|H]; [left; exists x; simpl; auto|].
  rewrite Hh in H. apply lookup_insert_Some in H. destruct H as [[<- <-]|[_ H]]; [|auto].
  left. exists a. simpl. auto.
Qed.

Definition chan_step (m : gmap cid chan_st) (x : name * name) : gmap cid chan_st :=
  let '(_, new) := x in match chan new with Some k => <[ k := empty_chan ]> m | None => m end.

Lemma fold_chan_lookup l m0 k st :
  fold_left chan_step l m0 !! k = Some st -> st = empty_chan \/ m0 !! k = Some st.
Proof.
  revert m0. induction l as [|[o nw] l IH]; intros m0; simpl; auto.
  intros H. apply IH in H. destruct H as [H|H]; auto.
  destruct (chan nw) as [c|]; auto. apply lookup_insert_Some in H. destruct H as [[_ <-]|[_ H]]; auto.
Qed.
Lemma fold_chan_is_Some l m0 k :
  (is_Some (m0 !! k) \/ exists o nw, In (o, nw) l /\ chan nw = Some k) -> is_Some (fold_left chan_step l m0 !! k).
Proof.
  revert m0. induction l as [|[o nw] l IH]; intros m0; simpl.
  - intros [H|[o [nw [[] _]]]]; auto.
  - intros H. apply IH. destruct H as [H|[o' [nw' [[Heq|Hin] Hc]]]].
    + left. destruct (chan nw) as [c|]; auto.
      destruct (decide (c = k)) as [->|Hne]; [rewrite lookup_insert; eauto|rewrite lookup_insert_ne; auto].
    + injection Heq as -> ->. left. rewrite Hc. rewrite lookup_insert. eauto.
    + right. eauto.
Qed.

(* ------------------------------------------------------------------ the parts of init_config *)
Lemma init_config_procs p q pr' : procs (init_config p) !! q = Some pr' ->
  exists i pr, p_procs p !! i = Some pr /\ q = [i] /\
    pr' = Proc (map snd (init_provs i (pr_providers pr))) (init_body p pr) (length (init_provs i (pr_providers pr))).
Proof.
  unfold init_config. cbn [procs].
  set (inits := imap (fun i pr => init_provs i (pr_providers pr)) (p_procs p)).
  intros H.
  apply (fold_left_insert_lookup _ (fun x : nat * (procdef * list (name * name)) => [fst x])
           (fun x => Proc (map snd (snd (snd x))) (init_body p (fst (snd x))) (length (snd (snd x))))) in H.
  2: { intros m [i [pr ini]]. reflexivity. }
  destruct H as [[[i [pr ini]] [Hin [<- <-]]]|H]; [|rewrite lookup_empty in H; discriminate].
  apply elem_of_list_In in Hin. apply elem_of_lookup_imap in Hin. destruct Hin as [i' [x [Heq Hx]]].
  injection Heq as <- <-. destruct (lookup_combine_Some _ _ _ _ _ Hx) as [H1 H2] || idtac.
  simpl. exists i, pr.
  assert (Hpr : p_procs p !! i = Some pr /\ inits !! i = Some ini).
  { clear -Hx. revert Hx. generalize inits. generalize (p_procs p). intros l1. revert i.
    induction l1 as [|a l1 IH]; intros i l2 Hx; destruct l2 as [|b l2]; try (destruct i; discriminate).
    destruct i as [|i]; simpl in *; [injection Hx as -> ->; auto|]. apply IH; auto. }
  destruct Hpr as [Hp Hi]. split; auto. split; auto.
  unfold inits in Hi. rewrite list_lookup_imap, Hp in Hi. simpl in Hi. injection Hi as <-. reflexivity.
Qed.

Lemma init_config_chans p : chans (init_config p) = fold_left chan_step (init_pairs p) ∅.
Proof. reflexivity. Qed.

Lemma init_buffers_empty p : buffers_empty (init_config p).
Proof.
  intros k st Hk. rewrite init_config_chans in Hk. apply fold_chan_lookup in Hk.
  destruct Hk as [->|Hk]; [reflexivity|rewrite lookup_empty in Hk; discriminate].
Qed.

(* ------------------------------------------------------------------ lookups in the initial typing *)
Lemma tops_from_lookup k l i x : tops_from k l !! i = Some x ->
  exists pr, l !! i = Some pr /\ x = (prov1 pr, chname (k + i) (prov1 pr), pr_type pr).
Proof.
  revert k i. induction l as [|pr l IH]; intros k i; simpl; [destruct i; discriminate|].
  destruct i as [|i]; simpl.
  - intros [= <-]. exists pr. rewrite Nat.add_0_r. auto.
  - intros H. apply IH in H. destruct H as [pr' [H1 ->]]. exists pr'. split; auto.
    replace (k + S i)%nat with (S k + i)%nat by lia. reflexivity.
Qed.

Lemma delta_of_elem l c t : delta_of l !! c = Some t ->
  exists old new, In (old, new, Some t) l /\ chan new = Some c.
Proof.
  induction l as [|[[old new] [t'|]] l IH]; simpl.
  - rewrite lookup_empty. discriminate.
  - destruct (chan new) as [c'|] eqn:Ec.
    + intros H. apply lookup_insert_Some in H. destruct H as [[<- <-]|[_ H]]; [eauto|].
      destruct (IH H) as [o [nw [H1 H2]]]. eauto.
    + intros H. destruct (IH H) as [o [nw [H1 H2]]]. eauto.
  - intros H. destruct (IH H) as [o [nw [H1 H2]]]. eauto.
Qed.

Lemma delta_of_tops_elem k l c t : delta_of (tops_from k l) !! c = Some t ->
  exists i pr, l !! i = Some pr /\ c = [(k + i)%nat; 0%nat] /\ pr_type pr = Some t.
Proof.
  intros H. apply delta_of_elem in H. destruct H as [old [new [Hin Hc]]].
  apply elem_of_list_In in Hin. apply elem_of_list_lookup_1 in Hin. destruct Hin as [i Hi].
  apply tops_from_lookup in Hi. destruct Hi as [pr [Hpr Heq]]. injection Heq as -> -> Ht.
  simpl in Hc. injection Hc as <-. eauto.
Qed.

Lemma delta_of_tops_lookup k l i pr t :
  l !! i = Some pr -> pr_type pr = Some t -> delta_of (tops_from k l) !! [(k + i)%nat; 0%nat] = Some t.
Proof.
  revert k i. induction l as [|a l IH]; intros k i; [destruct i; discriminate|].
  destruct i as [|i]; simpl.
  - intros [= ->] Ht. rewrite Ht. rewrite Nat.add_0_r. apply lookup_insert.
  - intros Hl Ht. specialize (IH (S k) i Hl Ht). replace (k + S i)%nat with (S k + i)%nat by lia.
    destruct (pr_type a); [|exact IH]. rewrite lookup_insert_ne; [exact IH|]. intros [= E]. lia.
Qed.

Lemma init_delta_lookup p i pr t :
  p_procs p !! i = Some pr -> pr_type pr = Some t -> init_delta p !! [i; 0%nat] = Some t.
Proof. intros H1 H2. apply (delta_of_tops_lookup 0 (p_procs p) i pr t H1 H2). Qed.

Lemma init_delta_elem p c t : init_delta p !! c = Some t ->
  exists i pr, p_procs p !! i = Some pr /\ c = [i; 0%nat] /\ pr_type pr = Some t.
Proof. intros H. apply (delta_of_tops_elem 0) in H. exact H. Qed.

(* ------------------------------------------------------------------ the bodies after the initial substitution *)
Lemma fold_subst_typed D F Δ rs s : forall (l : list (name * name * option sty)) Γ b,
  teq_laws D teq ->
  NoDup (map (fun x : name * name * option sty => ident (fst (fst x))) l) ->
  Forall (fun x : name * name * option sty =>
            binder (fst (fst x)) /\ ident (fst (fst x)) ∉ rs /\
            forall t, snd x = Some t -> is_chan_of teq Δ (snd (fst x)) t) l ->
  (forall x A, Γ !! x = Some A -> exists old new, In (old, new, Some A) l /\ ident old = x) ->
  typed D F teq Δ Γ None rs s b ->
  typed D F teq Δ ∅ None rs s
        (fold_left (fun b '(old, new) => subst old new b)
                   (map (fun x : name * name * option sty => (fst (fst x), snd (fst x))) l) b).
Proof.
  intros l Γ b Hlaws. revert Γ b. induction l as [|[[old new] ot] l IH]; intros Γ b Hnd Hall HP Hty; simpl.
  - assert (Γ = ∅) as <-; [|exact Hty].
    apply map_empty. intros x. destruct (Γ !! x) as [A|] eqn:E; auto.
    destruct (HP x A E) as [o [nw [[] _]]].
  - inversion Hall as [|? ? [Hb [Hrs Hc]] Hall']; subst. simpl in *.
    inversion Hnd as [|? ? Hnin Hnd']; subst.
    destruct (Γ !! ident old) as [A|] eqn:E.
    + (* the name is used by this body *)
      assert (Hot : ot = Some A).
      { destruct (HP _ _ E) as [o [nw [[Heq|Hin] Hid]]]; [congruence|].
        exfalso. apply Hnin. apply in_map_iff.
        exists (o, nw, Some A). simpl. auto. }
      apply (IH (delete (ident old) Γ)); auto.
      * intros x A' Hx. apply lookup_delete_Some in Hx. destruct Hx as [Hne Hx].
        destruct (HP x A' Hx) as [o [nw [[Heq|Hin] Hid]]]; [injection Heq as -> -> ->; contradiction|eauto].
      * eapply typed_subst; eauto; try apply Hb; try discriminate.
        rewrite insert_delete; auto.
    + (* the name does not occur *)
      rewrite (subst_not_free D F teq Hlaws Δ Γ None rs s b old new); auto; try apply Hb; try discriminate.
      apply (IH Γ); auto.
      intros x A' Hx. destruct (HP x A' Hx) as [o [nw [[Heq|Hin] Hid]]]; [|eauto].
      injection Heq as -> -> ->. congruence.
Qed.

Lemma tops_from_lookup_2 k l i pr : l !! i = Some pr ->
  tops_from k l !! i = Some (prov1 pr, chname (k + i) (prov1 pr), pr_type pr).
Proof.
  revert k i. induction l as [|a l IH]; intros k i; [destruct i; discriminate|].
  destruct i as [|i]; simpl.
  - intros [= ->]. rewrite Nat.add_0_r. reflexivity.
  - intros H. rewrite (IH (S k) i H). replace (k + S i)%nat with (S k + i)%nat by lia. reflexivity.
Qed.

Lemma tops_from_idents k l :
  map (fun x : name * name * option sty => ident (fst (fst x))) (tops_from k l) =
  map (fun pr => ident (prov1 pr)) l.
Proof. revert k. induction l as [|a l IH]; intros k; simpl; [reflexivity|]. rewrite IH. reflexivity. Qed.

Theorem initial_typed p :
  teq_laws (p_types p) teq -> static_typed p ->
  cfg_typed (p_types p) (p_funs p) teq (init_delta p) (init_config p).
Proof.
  intros Hlaws [HF [Hnd Hprocs]]. rewrite Forall_forall in Hprocs.
  assert (Hs : single_provider p).
  { unfold single_provider. rewrite Forall_forall. intros pr Hin.
    destruct (Hprocs pr Hin) as [t [n [Γ [_ [Hn _]]]]]. eauto. }
  assert (Hat : forall i pr, p_procs p !! i = Some pr ->
             exists t n Γ, pr_type pr = Some t /\ pr_providers pr = [n] /\ binder n /\ top_sub Γ p /\
               typed (p_types p) (p_funs p) teq ∅ Γ None {[ "" ]} t (pr_body pr)).
  { intros i pr Hi. apply Hprocs. apply elem_of_list_In. eapply elem_of_list_lookup_2; eauto. }
  assert (Htops_ident : map (fun x : name * name * option sty => ident (fst (fst x))) (tops p) =
                        map (fun pr => ident (prov1 pr)) (p_procs p)).
  { apply tops_from_idents. }
  split.
  - (* processes *)
    intros q pr' Hq. apply init_config_procs in Hq. destruct Hq as [i [pr [Hi [-> ->]]]].
    destruct (Hat i pr Hi) as [t [n [Γ [Ht [Hn [Hb [Hsub Hty]]]]]]]. rewrite Hn. simpl.
    exists t, {[ "" ]}. simpl. split; [discriminate|]. split.
    + constructor; [|constructor].
      exists [i; 0%nat], t. split; auto. split; [eapply init_delta_lookup; eauto|apply (teq_refl _ _ Hlaws)].
    + unfold init_body. rewrite (init_pairs_tops p Hs).
      apply (fold_subst_typed _ _ _ _ _ (tops p) Γ); auto.
      * rewrite Htops_ident. exact Hnd.
      * rewrite Forall_forall. intros x Hx. apply elem_of_list_In in Hx. apply elem_of_list_lookup_1 in Hx.
        destruct Hx as [j Hj]. apply tops_from_lookup in Hj. destruct Hj as [pr' [Hj ->]]. simpl.
        destruct (Hat j pr' Hj) as [t' [n' [Γ' [Ht' [Hn' [Hb' _]]]]]].
        unfold prov1. rewrite Hn'. simpl. split; auto. split; [destruct Hb' as [_ Hb']; set_solver|].
        intros t'' Ht''. rewrite Ht' in Ht''. injection Ht'' as <-.
        split; auto. exists [j; 0%nat], t'. split; auto.
        split; [eapply init_delta_lookup; eauto|apply (teq_refl _ _ Hlaws)].
      * intros x A Hx. destruct (Hsub x A Hx) as [pr' [Hin [Hid HA]]].
        apply elem_of_list_In in Hin. apply elem_of_list_lookup_1 in Hin. destruct Hin as [j Hj].
        exists (prov1 pr'), (chname j (prov1 pr')). split; auto.
        rewrite <- HA. apply elem_of_list_In. eapply elem_of_list_lookup_2.
        apply (tops_from_lookup_2 0 (p_procs p) j pr' Hj).
      * eapply typed_weaken; [apply map_empty_subseteq|exact Hty].
  - (* messages: all buffers are empty *)
    intros k st m Hk Hb. rewrite init_config_chans in Hk. apply fold_chan_lookup in Hk.
    destruct Hk as [->|Hk]; [discriminate|rewrite lookup_empty in Hk; discriminate].
  - (* domain *)
    intros k [t Hk]. apply init_delta_elem in Hk. destruct Hk as [i [pr [Hi [-> Ht]]]].
    rewrite init_config_chans. apply fold_chan_is_Some. right.
    exists (prov1 pr), (chname i (prov1 pr)). split; [|reflexivity].
    rewrite (init_pairs_tops p Hs). apply in_map_iff.
    exists (prov1 pr, chname i (prov1 pr), pr_type pr). split; auto.
    apply elem_of_list_In. eapply elem_of_list_lookup_2. apply (tops_from_lookup_2 0 (p_procs p) i pr Hi).
  - (* namespaces *)
    intros q pq m l Hq Hm. apply init_config_procs in Hq. destruct Hq as [i [pr [Hi [-> ->]]]].
    destruct (Hat i pr Hi) as [t [n [Γ [Ht [Hn _]]]]]. rewrite Hn in Hm. simpl in Hm. split.
    + destruct (init_delta p !! ([i] ++ m :: l)) eqn:E; auto. exfalso.
      apply init_delta_elem in E. destruct E as [i' [pr' [_ [E _]]]]. simpl in E. injection E as _ E _. lia.
    + destruct (procs (init_config p) !! ([i] ++ m :: l)) eqn:E; auto. exfalso.
      apply init_config_procs in E. destruct E as [i' [pr' [_ [E _]]]]. discriminate.
Qed.

End RtInit.
