(* RtInit.v — the initial configuration of a statically typed program is typed (`initial_typed`).
   `static_typed` is what the checker's annotated output must satisfy (see `tc_annotations_typed` in
   proofs/RtTheorems.v; decided per program by proofs/RtStaticCheck.v): the function table is typed
   once, the provider names of the processes are binders and pairwise different, and every process
   body is typed, with no channels, under a context of top-level provider names at the type of their
   process.  A process may declare several provider names: it then starts with several providers
   (channels [i; 0], [i; 1], ...) and duplicates itself first. *)
From stdpp Require Import gmap strings.
Require Import Grits.Base Grits.ModeDefs Grits.Modes Grits.STypes Grits.Forms Grits.Subst Grits.TcDeps Grits.Expand
               Grits.Runtime Grits.spec.RtTyping Grits.proofs.RtSubst Grits.proofs.RtEffect.

(* ------------------------------------------------------------------ the program as `init_config` sees it *)
Definition chname (i j : nat) (n : name) : name := mkName (ident n) false None None (Some [i; j]).

Fixpoint row_from (i j : nat) (provs : list name) : list (name * name) :=
  match provs with
  | [] => []
  | n :: r => (n, chname i j n) :: row_from i (S j) r
  end.

(* (declared name, its channel, the type of its process), one entry per provider name *)
Fixpoint tops_from (k : nat) (l : list procdef) : list (name * name * option sty) :=
  match l with
  | [] => []
  | pr :: r => map (fun x : name * name => (fst x, snd x, pr_type pr)) (row_from k 0 (pr_providers pr)) ++ tops_from (S k) r
  end.
Definition tops (p : program) : list (name * name * option sty) := tops_from 0 (p_procs p).

Fixpoint delta_of (l : list (name * name * option sty)) : gmap cid sty :=
  match l with
  | [] => ∅
  | (_, new, Some t) :: r => match chan new with Some c => <[c := t]> (delta_of r) | None => delta_of r end
  | (_, _, None) :: r => delta_of r
  end.
Definition init_delta (p : program) : gmap cid sty := delta_of (tops p).

Definition init_pairs (p : program) : list (name * name) :=
  concat (imap (fun i pr => init_provs i (pr_providers pr)) (p_procs p)).
Definition init_body (p : program) (pr : procdef) : form :=
  fold_left (fun b '(old, new) => subst old new b) (init_pairs p) (pr_body pr).

Definition all_providers (p : program) : list name := concat (map pr_providers (p_procs p)).

Section RtInit.
Variable teq : sty -> sty -> Prop.

(* a context that only mentions top-level provider names, at the type of their process *)
Definition top_sub (Γ : gmap string sty) (p : program) : Prop :=
  forall x A, Γ !! x = Some A ->
    exists pr n, In pr (p_procs p) /\ In n (pr_providers pr) /\ ident n = x /\ pr_type pr = Some A.

Definition static_typed (p : program) : Prop :=
  funs_typed (p_types p) (p_funs p) teq /\
  NoDup (map ident (all_providers p)) /\
  Forall (fun pr => exists t Γ, pr_type pr = Some t /\ pr_providers pr <> [] /\ Forall binder (pr_providers pr) /\
                                top_sub Γ p /\
                                typed (p_types p) (p_funs p) teq ∅ Γ None {[ "" ]} t (pr_body pr))
         (p_procs p).

(* ------------------------------------------------------------------ list lemmas *)
Lemma imap_row i j0 provs :
  imap (fun j old => (old, chname i (j0 + j) old)) provs = row_from i j0 provs.
Proof.
  revert j0. induction provs as [|n r IH]; intros j0; simpl; auto.
  rewrite Nat.add_0_r. f_equal. rewrite <- (IH (S j0)). apply imap_ext. intros j x _. simpl.
  replace (j0 + S j)%nat with (S j0 + j)%nat by lia. reflexivity.
Qed.

Lemma init_provs_row i provs : init_provs i provs = row_from i 0 provs.
Proof. rewrite <- imap_row. reflexivity. Qed.

Lemma row_from_length i j0 provs : length (row_from i j0 provs) = length provs.
Proof. revert j0. induction provs; intros j0; simpl; auto. Qed.

Lemma row_from_lookup i j0 provs j n : provs !! j = Some n ->
  row_from i j0 provs !! j = Some (n, chname i (j0 + j) n).
Proof.
  revert j0 j. induction provs as [|a r IH]; intros j0 [|j]; simpl; try discriminate.
  - intros [= ->]. rewrite Nat.add_0_r. reflexivity.
  - intros H. rewrite (IH (S j0) j H). replace (j0 + S j)%nat with (S j0 + j)%nat by lia. reflexivity.
Qed.

Lemma row_from_elem i j0 provs x : In x (row_from i j0 provs) ->
  exists j n, provs !! j = Some n /\ x = (n, chname i (j0 + j) n).
Proof.
  revert j0. induction provs as [|a r IH]; intros j0; simpl; [tauto|].
  intros [<-|H].
  - exists 0%nat, a. rewrite Nat.add_0_r. auto.
  - destruct (IH (S j0) H) as [j [n [H1 ->]]]. exists (S j), n. split; auto.
    replace (j0 + S j)%nat with (S j0 + j)%nat by lia. reflexivity.
Qed.

Lemma init_pairs_tops_from k l :
  concat (imap (fun i pr => init_provs (k + i) (pr_providers pr)) l) =
  map (fun x : name * name * option sty => (fst (fst x), snd (fst x))) (tops_from k l).
Proof.
  revert k. induction l as [|pr l IH]; intros k; simpl; auto.
  rewrite Nat.add_0_r, map_app, map_map, init_provs_row. simpl.
  rewrite (map_ext _ (fun x => x)) by (intros [a b]; reflexivity). rewrite map_id. f_equal.
  rewrite <- (IH (S k)). f_equal. apply imap_ext. intros i x _. simpl. f_equal. lia.
Qed.

Lemma init_pairs_tops p :
  init_pairs p = map (fun x : name * name * option sty => (fst (fst x), snd (fst x))) (tops p).
Proof. apply (init_pairs_tops_from 0 (p_procs p)). Qed.

Lemma tops_from_elem k l x : In x (tops_from k l) ->
  exists i pr j n, l !! i = Some pr /\ pr_providers pr !! j = Some n /\ x = (n, chname (k + i) j n, pr_type pr).
Proof.
  revert k. induction l as [|pr l IH]; intros k; simpl; [tauto|].
  intros H. apply in_app_or in H. destruct H as [H|H].
  - apply in_map_iff in H. destruct H as [[a b] [<- H]]. apply row_from_elem in H.
    destruct H as [j [n [H1 [= -> ->]]]]. exists 0%nat, pr, j, n. rewrite Nat.add_0_r. auto.
  - destruct (IH (S k) H) as [i [pr' [j [n [H1 [H2 ->]]]]]]. exists (S i), pr', j, n. split; auto. split; auto.
    replace (k + S i)%nat with (S k + i)%nat by lia. reflexivity.
Qed.

Lemma tops_from_elem_2 k l i pr j n : l !! i = Some pr -> pr_providers pr !! j = Some n ->
  In (n, chname (k + i) j n, pr_type pr) (tops_from k l).
Proof.
  revert k i. induction l as [|a l IH]; intros k [|i]; simpl; try discriminate.
  - intros [= ->] Hj. apply in_or_app. left. apply in_map_iff. exists (n, chname k j n). rewrite Nat.add_0_r. split; auto.
    apply elem_of_list_In. eapply elem_of_list_lookup_2. apply (row_from_lookup k 0 _ j n Hj).
  - intros Hi Hj. apply in_or_app. right. replace (k + S i)%nat with (S k + i)%nat by lia. apply IH; auto.
Qed.

Lemma row_from_idents i j0 provs : map (fun x : name * name => ident (fst x)) (row_from i j0 provs) = map ident provs.
Proof. revert j0. induction provs as [|n r IH]; intros j0; simpl; [reflexivity|]. rewrite IH. reflexivity. Qed.

Lemma tops_from_idents k l :
  map (fun x : name * name * option sty => ident (fst (fst x))) (tops_from k l) =
  map ident (concat (map pr_providers l)).
Proof.
  revert k. induction l as [|a l IH]; intros k; simpl; [reflexivity|].
  rewrite !map_app, map_map, IH. f_equal. simpl. apply row_from_idents.
Qed.

Lemma fold_left_insert_lookup {X} (h : gmap pid proc -> X -> gmap pid proc) (f : X -> pid) (g : X -> proc) l m0 q v :
  (forall m x, h m x = <[f x := g x]> m) ->
  fold_left h l m0 !! q = Some v -> (exists x, In x l /\ f x = q /\ g x = v) \/ m0 !! q = Some v.
Proof.
  intros Hh. revert m0. induction l as [|a l IH]; intros m0; simpl; auto.
  intros H. apply IH in H. destruct H as [[x [H1 [H2 H3]]]|H]; [left; exists x; simpl; auto|].
  rewrite Hh in H. apply lookup_insert_Some in H. destruct H as [[<- <-]|[_ H]]; [|auto].
  left. exists a. simpl. auto.
Qed.

Definition chan_step (m : gmap cid chan_st) (x : name * name) : gmap cid chan_st :=
  let '(_, new) := x in match chan new with Some k => <[ k := empty_chan ]> m | None => m end.

Lemma fold_chan_lookup l m0 k st :
  fold_left chan_step l m0 !! k = Some st -> st = empty_chan \/ m0 !! k = Some st.
Proof.
  revert m0. induction l as [|[o nw] l IH]; intros m0; simpl; auto.
  intros H. apply IH in H. destruct H as [H|H]; auto.
  destruct (chan nw) as [c|]; auto. apply lookup_insert_Some in H. destruct H as [[_ <-]|[_ H]]; auto.
Qed.
Lemma fold_chan_is_Some l m0 k :
  (is_Some (m0 !! k) \/ exists o nw, In (o, nw) l /\ chan nw = Some k) -> is_Some (fold_left chan_step l m0 !! k).
Proof.
  revert m0. induction l as [|[o nw] l IH]; intros m0; simpl.
  - intros [H|[o [nw [[] _]]]]; auto.
  - intros H. apply IH. destruct H as [H|[o' [nw' [[Heq|Hin] Hc]]]].
    + left. destruct (chan nw) as [c|]; auto.
      destruct (decide (c = k)) as [->|Hne]; [rewrite lookup_insert; eauto|rewrite lookup_insert_ne; auto].
    + injection Heq as -> ->. left. rewrite Hc. rewrite lookup_insert. eauto.
    + right. eauto.
Qed.

(* ------------------------------------------------------------------ the parts of init_config *)
Lemma init_config_procs p q pr' : procs (init_config p) !! q = Some pr' ->
  exists i pr, p_procs p !! i = Some pr /\ q = [i] /\
    pr' = Proc (map snd (init_provs i (pr_providers pr))) (init_body p pr) (length (init_provs i (pr_providers pr))).
Proof.
  unfold init_config. cbn [procs].
  set (inits := imap (fun i pr => init_provs i (pr_providers pr)) (p_procs p)).
  intros H.
  apply (fold_left_insert_lookup _ (fun x : nat * (procdef * list (name * name)) => [fst x])
           (fun x => Proc (map snd (snd (snd x))) (init_body p (fst (snd x))) (length (snd (snd x))))) in H.
  2: { intros m [i [pr ini]]. reflexivity. }
  destruct H as [[[i [pr ini]] [Hin [<- <-]]]|H]; [|rewrite lookup_empty in H; discriminate].
  apply elem_of_list_In in Hin. apply elem_of_lookup_imap in Hin. destruct Hin as [i' [x [Heq Hx]]].
  injection Heq as <- <-.
  simpl. exists i, pr.
  assert (Hpr : p_procs p !! i = Some pr /\ inits !! i = Some ini).
  { clear -Hx. revert Hx. generalize inits. generalize (p_procs p). intros l1. revert i.
    induction l1 as [|a l1 IH]; intros i l2 Hx; destruct l2 as [|b l2]; try (destruct i; discriminate).
    destruct i as [|i]; simpl in *; [injection Hx as -> ->; auto|]. apply IH; auto. }
  destruct Hpr as [Hp Hi]. split; auto. split; auto.
  unfold inits in Hi. rewrite list_lookup_imap, Hp in Hi. simpl in Hi. injection Hi as <-. reflexivity.
Qed.

Lemma init_config_chans p : chans (init_config p) = fold_left chan_step (init_pairs p) ∅.
Proof. reflexivity. Qed.

Lemma init_buffers_empty p : buffers_empty (init_config p).
Proof.
  intros k st Hk. rewrite init_config_chans in Hk. apply fold_chan_lookup in Hk.
  destruct Hk as [->|Hk]; [reflexivity|rewrite lookup_empty in Hk; discriminate].
Qed.

(* ------------------------------------------------------------------ lookups in the initial typing *)
Lemma delta_of_elem l c t : delta_of l !! c = Some t ->
  exists old new, In (old, new, Some t) l /\ chan new = Some c.
Proof.
  induction l as [|[[old new] [t'|]] l IH]; simpl.
  - rewrite lookup_empty. discriminate.
  - destruct (chan new) as [c'|] eqn:Ec.
    + intros H. apply lookup_insert_Some in H. destruct H as [[<- <-]|[_ H]]; [eauto|].
      destruct (IH H) as [o [nw [H1 H2]]]. eauto.
    + intros H. destruct (IH H) as [o [nw [H1 H2]]]. eauto.
  - intros H. destruct (IH H) as [o [nw [H1 H2]]]. eauto.
Qed.

Lemma delta_of_app l1 l2 c :
  delta_of (l1 ++ l2) !! c = match delta_of l1 !! c with Some t => Some t | None => delta_of l2 !! c end.
Proof.
  induction l1 as [|[[old new] [t|]] l1 IH]; simpl.
  - rewrite lookup_empty. reflexivity.
  - destruct (chan new) as [c'|]; auto.
    destruct (decide (c' = c)) as [->|Hne]; [rewrite !lookup_insert; reflexivity|].
    rewrite !lookup_insert_ne by auto. exact IH.
  - exact IH.
Qed.

Lemma delta_of_row i t : forall provs j0 j n, provs !! j = Some n ->
  delta_of (map (fun x : name * name => (fst x, snd x, Some t)) (row_from i j0 provs)) !! ([i; (j0 + j)%nat] : cid) = Some t.
Proof.
  induction provs as [|a r IH]; intros j0 [|j] n; simpl; try discriminate.
  - intros _. rewrite Nat.add_0_r. apply lookup_insert.
  - intros H. rewrite lookup_insert_ne by (intros [= E]; lia).
    replace (j0 + S j)%nat with (S j0 + j)%nat by lia. eapply IH; eauto.
Qed.

Lemma delta_of_tops_elem k l c t : delta_of (tops_from k l) !! c = Some t ->
  exists i pr j n, l !! i = Some pr /\ pr_providers pr !! j = Some n /\ c = [(k + i)%nat; j] /\ pr_type pr = Some t.
Proof.
  intros H. apply delta_of_elem in H. destruct H as [old [new [Hin Hc]]].
  apply tops_from_elem in Hin. destruct Hin as [i [pr [j [n [Hi [Hj Heq]]]]]]. injection Heq as -> -> Ht.
  simpl in Hc. injection Hc as <-. exists i, pr, j, n. auto.
Qed.

Lemma delta_of_tops_lookup k l i pr j n t :
  l !! i = Some pr -> pr_providers pr !! j = Some n -> pr_type pr = Some t ->
  delta_of (tops_from k l) !! [(k + i)%nat; j] = Some t.
Proof.
  revert k i. induction l as [|a l IH]; intros k [|i]; simpl; try discriminate.
  - intros [= ->] Hj Ht. rewrite delta_of_app, Ht, Nat.add_0_r.
    pose proof (delta_of_row k t (pr_providers pr) 0 j n Hj) as Hr. simpl in Hr. rewrite Hr. reflexivity.
  - intros Hi Hj Ht. rewrite delta_of_app.
    destruct (delta_of (map (fun x : name * name => (fst x, snd x, pr_type a)) (row_from k 0 (pr_providers a)))
                       !! ([(k + S i)%nat; j] : cid)) as [t'|] eqn:E.
    + exfalso. apply delta_of_elem in E. destruct E as [old [new [Hin Hc]]].
      apply in_map_iff in Hin. destruct Hin as [[x y] [Heq Hin]]. injection Heq as -> -> _.
      apply row_from_elem in Hin. destruct Hin as [j' [n' [_ [= -> ->]]]]. simpl in Hc. injection Hc as Hc _. lia.
    + replace (k + S i)%nat with (S k + i)%nat by lia. eapply IH; eauto.
Qed.

Lemma init_delta_lookup p i pr j n t :
  p_procs p !! i = Some pr -> pr_providers pr !! j = Some n -> pr_type pr = Some t ->
  init_delta p !! [i; j] = Some t.
Proof. intros H1 H2 H3. apply (delta_of_tops_lookup 0 (p_procs p) i pr j n t H1 H2 H3). Qed.

Lemma init_delta_elem p c t : init_delta p !! c = Some t ->
  exists i pr j n, p_procs p !! i = Some pr /\ pr_providers pr !! j = Some n /\ c = [i; j] /\ pr_type pr = Some t.
Proof. intros H. apply (delta_of_tops_elem 0) in H. exact H. Qed.

(* ------------------------------------------------------------------ the bodies after the initial substitution *)
Lemma fold_subst_typed D F Δ rs s : forall (l : list (name * name * option sty)) Γ b,
  teq_laws D teq ->
  NoDup (map (fun x : name * name * option sty => ident (fst (fst x))) l) ->
  Forall (fun x : name * name * option sty =>
            binder (fst (fst x)) /\ ident (fst (fst x)) ∉ rs /\
            forall t, snd x = Some t -> is_chan_of teq Δ (snd (fst x)) t) l ->
  (forall x A, Γ !! x = Some A -> exists old new, In (old, new, Some A) l /\ ident old = x) ->
  typed D F teq Δ Γ None rs s b ->
  typed D F teq Δ ∅ None rs s
        (fold_left (fun b '(old, new) => subst old new b)
                   (map (fun x : name * name * option sty => (fst (fst x), snd (fst x))) l) b).
Proof.
  intros l Γ b Hlaws. revert Γ b. induction l as [|[[old new] ot] l IH]; intros Γ b Hnd Hall HP Hty; simpl.
  - assert (Γ = ∅) as <-; [|exact Hty].
    apply map_empty. intros x. destruct (Γ !! x) as [A|] eqn:E; auto.
    destruct (HP x A E) as [o [nw [[] _]]].
  - inversion Hall as [|? ? [Hb [Hrs Hc]] Hall']; subst. simpl in *.
    inversion Hnd as [|? ? Hnin Hnd']; subst.
    destruct (Γ !! ident old) as [A|] eqn:E.
    + (* the name is used by this body *)
      assert (Hot : ot = Some A).
      { destruct (HP _ _ E) as [o [nw [[Heq|Hin] Hid]]]; [congruence|].
        exfalso. apply Hnin. apply in_map_iff.
        exists (o, nw, Some A). simpl. auto. }
      apply (IH (delete (ident old) Γ)); auto.
      * intros x A' Hx. apply lookup_delete_Some in Hx. destruct Hx as [Hne Hx].
        destruct (HP x A' Hx) as [o [nw [[Heq|Hin] Hid]]]; [injection Heq as -> -> ->; contradiction|eauto].
      * eapply typed_subst; eauto; try apply Hb; try discriminate.
        rewrite insert_delete; auto.
    + (* the name does not occur *)
      rewrite (subst_not_free D F teq Hlaws Δ Γ None rs s b old new); auto; try apply Hb; try discriminate.
      apply (IH Γ); auto.
      intros x A' Hx. destruct (HP x A' Hx) as [o [nw [[Heq|Hin] Hid]]]; [|eauto].
      injection Heq as -> -> ->. congruence.
Qed.

Theorem initial_typed p :
  teq_laws (p_types p) teq -> static_typed p ->
  cfg_typed (p_types p) (p_funs p) teq (init_delta p) (init_config p).
Proof.
  intros Hlaws [HF [Hnd Hprocs]]. rewrite Forall_forall in Hprocs.
  assert (Hat : forall i pr, p_procs p !! i = Some pr ->
             exists t Γ, pr_type pr = Some t /\ pr_providers pr <> [] /\ Forall binder (pr_providers pr) /\
               top_sub Γ p /\ typed (p_types p) (p_funs p) teq ∅ Γ None {[ "" ]} t (pr_body pr)).
  { intros i pr Hi. apply Hprocs. apply elem_of_list_In. eapply elem_of_list_lookup_2; eauto. }
  split.
  - (* processes *)
    intros q pr' Hq. apply init_config_procs in Hq. destruct Hq as [i [pr [Hi [-> ->]]]].
    destruct (Hat i pr Hi) as [t [Γ [Ht [Hne [Hb [Hsub Hty]]]]]]. rewrite init_provs_row.
    exists t, {[ "" ]}. simpl. split.
    { destruct (pr_providers pr); [contradiction|discriminate]. }
    split.
    + rewrite Forall_forall. intros x Hx. apply in_map_iff in Hx. destruct Hx as [[a b] [<- Hx]].
      apply row_from_elem in Hx. destruct Hx as [j [n [Hj [= -> ->]]]]. simpl.
      exists [i; j], t. split; auto. split; [eapply init_delta_lookup; eauto|apply (teq_refl _ _ Hlaws)].
    + unfold init_body. rewrite (init_pairs_tops p).
      apply (fold_subst_typed _ _ _ _ _ (tops p) Γ); auto.
      * unfold tops. rewrite tops_from_idents. exact Hnd.
      * rewrite Forall_forall. intros x Hx. apply tops_from_elem in Hx.
        destruct Hx as [i' [pr' [j [n [Hi' [Hj ->]]]]]]. simpl.
        destruct (Hat i' pr' Hi') as [t' [Γ' [Ht' [_ [Hb' _]]]]].
        rewrite Forall_forall in Hb'.
        assert (Hbn : binder n) by (apply Hb'; apply elem_of_list_In; eapply elem_of_list_lookup_2; eauto).
        split; auto. split; [destruct Hbn as [_ Hbn]; set_solver|].
        intros t'' Ht''. rewrite Ht' in Ht''. injection Ht'' as <-.
        split; auto. exists [i'; j], t'. split; auto.
        split; [eapply init_delta_lookup; eauto|apply (teq_refl _ _ Hlaws)].
      * intros x A Hx. destruct (Hsub x A Hx) as [pr' [n [Hin [Hn [Hid HA]]]]].
        apply elem_of_list_In in Hin. apply elem_of_list_lookup_1 in Hin. destruct Hin as [i' Hi'].
        apply elem_of_list_In in Hn. apply elem_of_list_lookup_1 in Hn. destruct Hn as [j Hj].
        exists n, (chname i' j n). split; auto.
        rewrite <- HA. apply (tops_from_elem_2 0 (p_procs p) i' pr' j n Hi' Hj).
      * eapply typed_weaken; [apply map_empty_subseteq|exact Hty].
  - (* messages: all buffers are empty *)
    intros k st m Hk Hb. rewrite init_config_chans in Hk. apply fold_chan_lookup in Hk.
    destruct Hk as [->|Hk]; [discriminate|rewrite lookup_empty in Hk; discriminate].
  - (* domain *)
    intros k [t Hk]. apply init_delta_elem in Hk. destruct Hk as [i [pr [j [n [Hi [Hj [-> Ht]]]]]]].
    rewrite init_config_chans. apply fold_chan_is_Some. right.
    exists n, (chname i j n). split; [|reflexivity].
    rewrite (init_pairs_tops p). apply in_map_iff.
    exists (n, chname i j n, pr_type pr). split; auto.
    apply (tops_from_elem_2 0 (p_procs p) i pr j n Hi Hj).
  - (* namespaces *)
    intros q pq m l Hq Hm. apply init_config_procs in Hq. destruct Hq as [i [pr [Hi [-> ->]]]].
    simpl in Hm. rewrite init_provs_row, row_from_length in Hm. split.
    + destruct (init_delta p !! ([i] ++ m :: l)) eqn:E; auto. exfalso.
      apply init_delta_elem in E. destruct E as [i' [pr' [j [n [Hi' [Hj [E _]]]]]]]. simpl in E.
      injection E as -> -> _. rewrite Hi in Hi'. injection Hi' as <-.
      apply lookup_lt_Some in Hj. lia.
    + destruct (procs (init_config p) !! ([i] ++ m :: l)) eqn:E; auto. exfalso.
      apply init_config_procs in E. destruct E as [i' [pr' [_ [E _]]]]. discriminate.
Qed.

End RtInit.
