(* proofs/AlphaRun.v — C14, general alpha-equivalence, assembled: DUP and the call transition, one step of
   the interpreter for configurations related pointwise by `AlphaStep.prelA` (same pids, same providers
   and counters up to identifiers of channels, bodies `aeq []` after erasure), in the three modes and for
   every choice (`step_relA`), and lock-step runs (`run_relA`).  Function tables are related by `frelA`:
   same name, type and explicit provider name; parameters are pairwise related binders; erased bodies are
   `aeq` under the stack of parameters.  The structure is that of RenameAlpha.v (per-declaration injective
   maps); typed configurations are brought to the erased form by the `*_T` lemmas of RenameSimT.v. *)
From stdpp Require Import pmap gmap strings.
Require Import Grits.Base Grits.ModeDefs Grits.Modes Grits.STypes Grits.Forms Grits.Subst Grits.TcDeps Grits.Expand.
Require Import Grits.Runtime Grits.spec.RtTyping Grits.proofs.RtSubst Grits.proofs.RtSafety
               Grits.proofs.RenameRun Grits.proofs.RenameSimT Grits.proofs.RenameAlpha.
Require Import Grits.spec.Alpha Grits.spec.AlphaEq Grits.proofs.AlphaSubst Grits.proofs.AlphaFree Grits.proofs.AlphaStep.

(* ---------------------------------------------------------------- the relations see erased results only *)
Lemma prelA_np' p p' : prelA (np' p) (np' p') <-> prelA p p'.
Proof. unfold prelA, np'. cbn [pr_provs pr_body0 pr_next]. rewrite !map_nn'_idem, !(proj1 nf'_idem). reflexivity. Qed.
Lemma srelA_nspawn' s0 s0' : srelA (nspawn' s0) (nspawn' s0') <-> srelA s0 s0'.
Proof. unfold srelA, nspawn'. cbn [sp_provs sp_body]. rewrite !map_nn'_idem, !(proj1 nf'_idem). reflexivity. Qed.
Lemma rrelA_neres x x' : rrelA (neres' x) (neres' x') <-> rrelA x x'.
Proof.
  destruct x as [e|w], x' as [e'|w']; cbn [neres' rrelA]; try reflexivity.
  unfold erelA, neff'. cbn [e_after e_spawn e_newch e_close e_out].
  assert (A : arelA (nafter' (e_after e)) (nafter' (e_after e')) <-> arelA (e_after e) (e_after e')).
  { destruct (e_after e), (e_after e'); cbn; try reflexivity. apply prelA_np'. }
  assert (B : Forall2 srelA (map nspawn' (e_spawn e)) (map nspawn' (e_spawn e')) <-> Forall2 srelA (e_spawn e) (e_spawn e')).
  { change (map nspawn' ?l) with (nspawn' <$> l). rewrite Forall2_fmap. split; intros H; eapply Forall2_impl; eauto; intros a b; apply srelA_nspawn'. }
  rewrite A, B. reflexivity.
Qed.

Lemma good_nonvar n : good n -> nonvar (nn' n).
Proof.
  intros Hg. assert (V : isvar n = false).
  { unfold isvar, good in *. destruct Hg as [ H | [ H | H ] ]; rewrite H; cbn; rewrite ?andb_false_r; reflexivity. }
  split; [now rewrite isvar_nn'_eq | now apply nonvar_ident_nn'].
Qed.

(* ---------------------------------------------------------------- duplication *)
Lemma Forall2_imap {A B} (R : B -> B -> Prop) : forall (l : list A) (f g : nat -> A -> B),
  (forall i x, R (f i x) (g i x)) -> Forall2 R (imap f l) (imap g l).
Proof. induction l as [|x l IH]; intros f g H; [constructor|]. rewrite !imap_cons. constructor; [apply H | apply IH; intros; apply H]. Qed.
Lemma Forall2_refl_on {A} (R : A -> A -> Prop) : forall l, (forall x, In x l -> R x x) -> Forall2 R l l.
Proof. induction l as [|x l IH]; intros H; constructor; [apply H; left; reflexivity | apply IH; intros; apply H; right; assumption]. Qed.

Definition echan (c : name) : Prop := initialized c = true /\ ident c = "".
Lemma frow_echan self base fn n : echan fn -> Forall echan (frow self base fn n).
Proof. intros [_ Hi]. unfold frow. apply List.Forall_forall. intros c Hc. apply in_map_iff in Hc. destruct Hc as (i & <- & _). split; [reflexivity | exact Hi]. Qed.
Lemma fmat_echan self n : forall fns base, Forall echan fns -> Forall (Forall echan) (fmat self base fns n).
Proof. induction fns as [|fn fns IH]; intros base H; cbn [fmat]; [constructor|]. inversion H; subst. constructor; [now apply frow_echan | now apply IH]. Qed.

Lemma subst_col_A i e : forall fns rows b b', Forall echan fns -> Forall (Forall echan) rows -> aeq e b b' ->
  aeq e (subst_col fns rows i b) (subst_col fns rows i b').
Proof.
  induction fns as [|fn fns IH]; intros [|row rows] b b' Hf Hr H; cbn [subst_col]; try exact H.
  inversion Hf as [|? ? [F1 F2] Hf']; subst. inversion Hr as [|? ? Hrow Hr']; subst. apply IH; auto.
  destruct (nth_error row i) as [c|] eqn:E; [|exact H].
  apply nth_error_In in E. rewrite List.Forall_forall in Hrow. destruct (Hrow c E) as [C1 C2].
  now apply (proj1 (aeq_subst_chan fn c F1 C1 C2)).
Qed.

Theorem dup_effect_A self q q' : pr_provs q' = pr_provs q -> pr_next q' = pr_next q ->
  aeq [] (pr_body0 q) (pr_body0 q') -> Forall echan (free_names (pr_body0 q)) ->
  rrelA (dup_effect self q) (dup_effect self q').
Proof.
  intros Ep En Hb Hfn. unfold dup_effect. rewrite Ep. destruct (length (pr_provs q) =? 1)%nat; [reflexivity|].
  rewrite <- (aeq_free_closed _ _ Hb), !fresh_matrix_spec, En.
  set (fns := free_names (pr_body0 q)) in *. set (rows := fmat self (pr_next q) fns (length (pr_provs q))).
  cbn [rrelA]. unfold erelA. cbn [e_after e_spawn e_newch e_close e_out arelA].
  split; [exact I|]. split; [|auto]. apply Forall2_app.
  - apply Forall2_imap. intros i pr. split; [reflexivity|]. cbn [sp_body]. apply aeq_nf'. apply subst_col_A; auto. now apply fmat_echan.
  - apply Forall2_refl_on. intros x Hx. apply in_map_iff in Hx. destruct Hx as ([fn row] & <- & _).
    split; [reflexivity|]. cbn [sp_body]. apply aeq_nb_refl. exact I.
Qed.

(* ---------------------------------------------------------------- what a process does next *)
Lemma action_of_A md D q q' : pr_provs q' = pr_provs q -> aeq [] (pr_body0 q) (pr_body0 q') ->
  action_of md D q' = action_of md D q.
Proof.
  intros Ep Hb. unfold action_of, send_on, recv_on, internal, self_chan, self_name_of, multi, prov0. rewrite Ep.
  destruct (pr_body0 q), (pr_body0 q'); cbn [aeq] in Hb; try contradiction;
    repeat match goal with H : _ /\ _ |- _ => destruct H end;
    repeat match goal with H : aeqn [] _ _ |- _ => apply aeqn_nil_eq in H end; subst; reflexivity.
Qed.
Lemma is_call_A q q' : aeq [] (pr_body0 q) (pr_body0 q') -> is_call (pr_body0 q') = is_call (pr_body0 q).
Proof. intros Hb. destruct (pr_body0 q), (pr_body0 q'); cbn [aeq] in Hb; try contradiction; reflexivity. Qed.

(* ---------------------------------------------------------------- function tables, calls *)
Definition frelA (fd fd' : fundef) : Prop :=
  fn_name fd' = fn_name fd /\ fn_type fd' = fn_type fd /\ fn_explicit fd' = fn_explicit fd /\
  match fn_explicit fd with Some ep => ident ep <> "" | None => True end /\
  Forall2 bnd (fn_params fd) (fn_params fd') /\
  aeq (params_env (fn_params fd) (fn_params fd')) (nf' (fn_body fd)) (nf' (fn_body fd')).

Lemma get_function_relA : forall G G', Forall2 frelA G G' -> forall fn n,
  match get_function G fn n with
  | Some fd => exists fd', get_function G' fn n = Some fd' /\ frelA fd fd'
  | None => get_function G' fn n = None
  end.
Proof.
  induction 1 as [|fd fd' l l' Hf _ IH]; intros fn n; cbn [get_function]; [reflexivity|].
  pose proof Hf as (E1 & _ & _ & _ & HB & _). rewrite E1, <- (Forall2_length _ _ _ HB).
  destruct (String.eqb (fn_name fd) fn && _); [|apply IH]. eauto.
Qed.

Lemma sub_all_A : forall ps ps', Forall2 bnd ps ps' -> forall as_ e b b', Forall nonvar as_ -> length as_ = length ps ->
  aeq (params_env ps ps' ++ e) b b' -> aeq e (sub_all ps as_ b) (sub_all ps' as_ b').
Proof.
  induction 1 as [|p p' ps ps' B _ IH]; intros [|a as_] e b b' Ha Hl H; cbn [length] in Hl; try discriminate; cbn [sub_all]; [exact H|].
  inversion Ha; subst. apply IH; auto. apply aeq_subst_top0; auto.
Qed.

Lemma aeq_subst_free0 e X c f g : chan X = None -> ident X <> "" -> nonvar c ->
  ~ In (ident X) (map fst e) -> ~ In (ident X) (map snd e) -> aeq e f g -> aeq e (subst X c f) (subst X c g).
Proof.
  intros HX NX [Hc Ic] N1 N2 H.
  pose proof (proj1 (aeq_mono e (e ++ [(ident X, ident X)]) (ext_snoc e (ident X))) f g [] H) as H'. cbn [app] in H'.
  pose proof (proj1 (aeq_subst_gen X X c [] HX HX NX NX Hc Ic) f g e true true) as G.
  cbn [msub] in G. rewrite app_nil_r in G. apply G; [split; assumption | exact H'].
Qed.

Lemma params_env_fst : forall ps ps', length ps' = length ps -> map fst (params_env ps ps') = map ident ps.
Proof. unfold params_env. induction ps as [|p ps IH]; intros [|p' ps'] H; cbn in *; try discriminate; [reflexivity|]. f_equal. apply IH. lia. Qed.
Lemma params_env_snd : forall ps ps', length ps' = length ps -> map snd (params_env ps ps') = map ident ps'.
Proof. unfold params_env. induction ps as [|p ps IH]; intros [|p' ps'] H; cbn in *; try discriminate; [reflexivity|]. f_equal. apply IH. lia. Qed.

Section RelA.
Variable D : tenv.
Variables F F' : list fundef.
Variable teq : sty -> sty -> Prop.
Hypothesis HF : funs_typed D F teq.
Hypothesis HF' : funs_typed D F' teq.
Hypothesis FR : Forall2 frelA F F'.
Local Notation typedF := (typed D F teq).
Local Notation typedF' := (typed D F' teq).

(* what fun_ok says about the parameters *)
Lemma fun_ok_params (G : list fundef) fd : fun_ok D G teq fd ->
  Forall (fun p => initialized p = false /\ ident p <> "") (fn_params fd) /\
  Forall (fun p => nos (ident p) (fn_body fd)) (fn_params fd) /\
  match fn_explicit fd with Some ep => initialized ep = false /\ chan ep = None /\ ~ In (ident ep) (map ident (fn_params fd)) | None => True end.
Proof.
  intros (tf & Etf & Hbind & Hnd & Hty' & Hbody).
  assert (Hps : Forall (fun p => initialized p = false /\ ident p <> "") (fn_params fd)).
  { rewrite List.Forall_forall in *. intros p Hp. apply binder_facts, Hbind, Hp. }
  split; [exact Hps|]. destruct (fn_explicit fd) as [ep|].
  - destruct Hbody as (Hepc & Hepn & Hb). split; [|split; [unfold initialized; now rewrite Hepc|split; [exact Hepc|]]].
    + rewrite List.Forall_forall in *. intros p Hp. eapply typed_nos; [exact Hb|].
      destruct (Hps p Hp) as [_ Hne]. intro Hin. apply elem_of_union in Hin. destruct Hin as [Hin|Hin]; apply elem_of_singleton in Hin.
      * congruence.
      * apply Hepn. rewrite <- Hin. apply elem_of_list_In, in_map, Hp.
    + intros Hin. apply Hepn. apply elem_of_list_In. exact Hin.
  - split; [|exact I]. rewrite List.Forall_forall in *. intros p Hp. eapply typed_nos; [exact Hbody|].
    destruct (Hps p Hp) as [_ Hne]. intro Hin. apply elem_of_singleton in Hin. congruence.
Qed.

(* the instantiated body depends on the erasure of the body and of the arguments only *)
Lemma erase_sub_all ps as_ b :
  Forall (fun p => initialized p = false /\ ident p <> "") ps -> Forall (fun a => uself a = false) as_ ->
  Forall (fun p => nos (ident p) b) ps ->
  nf' (sub_all ps as_ b) = nf' (sub_all ps (map nn' as_) (nf' b)).
Proof.
  intros Hps Ha Hn. symmetry. apply sub_all_T; auto; [|apply nf'_idem].
  rewrite List.Forall_forall in *. intros p Hp. split; [|auto]. apply nos_nf'. apply (Hps p Hp).
Qed.

Lemma call_relA Δ Δ' rs s rs' s' fn args pt args' pt' :
  typedF Δ ∅ None rs s (FCall fn args pt) -> typedF' Δ' ∅ None rs' s' (FCall fn args' pt') ->
  map nn' args' = map nn' args ->
  match call_body F fn args with
  | Some b => exists b', call_body F' fn args' = Some b' /\ aeq [] (nf' b) (nf' b')
  | None => call_body F' fn args' = None
  end.
Proof.
  intros Hty Hty' Ea.
  assert (Hlen : length args' = length args) by (apply (f_equal (@length _)) in Ea; now rewrite !map_length in Ea).
  pose proof (call_args_good D F teq _ _ _ _ _ _ Hty) as Hg.
  inversion Hty as [| | | | | | | | | | | | | ? ? ? ? ? ? ? fd tf0 Eg Etf0 Hteq0 Hargs | | | | | |]; subst.
  inversion Hty' as [| | | | | | | | | | | | | ? ? ? ? ? ? ? fd2 tf2 Eg2 Etf2 Hteq2 Hargs' | | | | | |]; subst.
  pose proof (get_function_relA F F' FR fn (length args)) as G. rewrite Eg in G. destruct G as (fd' & Eg' & Hfr).
  rewrite Hlen, Eg' in Eg2. inversion Eg2; subst fd2. clear Eg2.
  assert (Hok : fun_ok D F teq fd) by (pose proof HF as H; unfold funs_typed in H; rewrite List.Forall_forall in H; apply H; eapply get_function_in; eauto).
  assert (Hok' : fun_ok D F' teq fd') by (pose proof HF' as H; unfold funs_typed in H; rewrite List.Forall_forall in H; apply H; eapply get_function_in; eauto).
  destruct (fun_ok_params F fd Hok) as (Hps & Hnos & Hep). destruct (fun_ok_params F' fd' Hok') as (Hps' & Hnos' & Hep').
  destruct Hfr as (En & Et & Ee & Hepn & HB & Hbody).
  pose proof (Forall2_length _ _ _ HB) as HLp.
  assert (Hnv : forall l : list name, Forall good l -> Forall nonvar (map nn' l)).
  { intros l Hl. apply List.Forall_forall. intros a Ha. apply in_map_iff in Ha. destruct Ha as (a1 & <- & Ha1). apply good_nonvar. rewrite List.Forall_forall in Hl. auto. }
  unfold call_body. rewrite Eg, Hlen, Eg'. fold sub_all. rewrite Ee in *.
  destruct Hargs as [[Hl Ha]|(a0 & rest & -> & Hl & Hp0 & Ha)].
  - (* as many arguments as parameters *)
    assert (Hl' : length args = length (fn_params fd')) by lia.
    destruct Hargs' as [[_ Ha']|(a0' & rest' & -> & Hr' & _)]; [|cbn [length] in Hlen; lia].
    assert (R : aeq [] (nf' (sub_all (fn_params fd) args (fn_body fd))) (nf' (sub_all (fn_params fd') args' (fn_body fd')))).
    { rewrite (erase_sub_all _ args _ Hps (args_nonself teq _ _ _ _ _ Ha) Hnos), (erase_sub_all _ args' _ Hps' (args_nonself teq _ _ _ _ _ Ha') Hnos'), Ea.
      apply aeq_nf'. apply sub_all_A; auto; [rewrite map_length; exact Hl | now rewrite app_nil_r]. }
    rewrite Hl, <- HLp, !Nat.eqb_refl. destruct (fn_explicit fd); eauto.
  - (* one more: the provider is passed explicitly *)
    cbn [length] in *.
    destruct Hargs' as [[Hl' _]|(a0' & rest' & -> & Hr' & Hp0' & Ha')]; [lia|]. cbn [length map] in *.
    assert (Erest : map nn' rest' = map nn' rest) by congruence.
    inversion Hg as [|? ? _ Hgr]; subst.
    rewrite Hl, <- HLp. destruct (S (length (fn_params fd)) =? length (fn_params fd))%nat eqn:N1; [apply Nat.eqb_eq in N1; lia|].
    rewrite !Nat.eqb_refl.
    destruct (fn_explicit fd) as [ep|] eqn:Eep.
    + rewrite (prov_none _ _ Hp0), (prov_none _ _ Hp0'). destruct Hep as (Hepi & Hepc & Hepn'). destruct Hep' as (_ & _ & Hepn2).
      eexists. split; [reflexivity|].
      assert (Hnsn : forall x, x <> "" -> nsn x (new_self "")) by (intros x Hx _ E; cbn in E; congruence).
      assert (Hn1 : Forall (fun p => nos (ident p) (subst ep (new_self "") (fn_body fd))) (fn_params fd)).
      { rewrite List.Forall_forall in *. intros p Hp. apply nos_subst_var; auto. apply Hnsn, (Hps p Hp). }
      assert (Hn1' : Forall (fun p => nos (ident p) (subst ep (new_self "") (fn_body fd'))) (fn_params fd')).
      { rewrite List.Forall_forall in *. intros p Hp. apply nos_subst_var; auto. apply Hnsn, (Hps' p Hp). }
      rewrite (erase_sub_all _ rest _ Hps (args_nonself teq _ _ _ _ _ Ha) Hn1), (erase_sub_all _ rest' _ Hps' (args_nonself teq _ _ _ _ _ Ha') Hn1'), Erest.
      rewrite <- (proj1 (subst_C ep Hepi) (fn_body fd)), <- (proj1 (subst_C ep Hepi) (fn_body fd')).
      assert (Hs : aeq (params_env (fn_params fd) (fn_params fd')) (subst ep (new_self "") (nf' (fn_body fd))) (subst ep (new_self "") (nf' (fn_body fd')))).
      { apply aeq_subst_free0; auto using nonvar_new_self.
        - rewrite params_env_fst by auto. exact Hepn'.
        - rewrite params_env_snd by auto. exact Hepn2. }
      destruct (proj1 aeq_erased _ _ _ Hs) as [X1 X2]. rewrite X1, X2.
      apply aeq_nf'. apply sub_all_A; auto; [rewrite map_length; exact Hl | now rewrite app_nil_r].
    + cbn [tl]. eexists. split; [reflexivity|].
      rewrite (erase_sub_all _ rest _ Hps (args_nonself teq _ _ _ _ _ Ha) Hnos), (erase_sub_all _ rest' _ Hps' (args_nonself teq _ _ _ _ _ Ha') Hnos'), Erest.
      apply aeq_nf'. apply sub_all_A; auto; [rewrite map_length; exact Hl | now rewrite app_nil_r].
Qed.
End RelA.

(* ---------------------------------------------------------------- raw processes: through erasure *)
Lemma echan_nn' n : initialized n = true -> echan (nn' n).
Proof. intros H. split; [now rewrite nn'_initialized|]. unfold nn'. rewrite H. reflexivity. Qed.
Lemma Forall2_aeqn_nil_eq l l' : Forall2 (aeqn []) l l' -> l = l'.
Proof. induction 1 as [|a b l l' H _ IH]; [reflexivity|]. now rewrite (aeqn_nil_eq a b H), IH. Qed.
Lemma is_callA_nf' f : is_callA (nf' f) = is_call f. Proof. destruct f; reflexivity. Qed.

Lemma prelA_next p p' : prelA p p' -> pr_next p = pr_next p'.
Proof. intros (_ & E & _). now symmetry. Qed.
Lemma prelA_set_next p p' n : prelA p p' -> prelA (Proc (pr_provs p) (pr_body0 p) n) (Proc (pr_provs p') (pr_body0 p') n).
Proof. intros (E1 & _ & E3). split; [exact E1|]. split; [reflexivity | exact E3]. Qed.
Lemma srelA_proc s0 s0' : srelA s0 s0' -> prelA (Proc (sp_provs s0) (sp_body s0) 0) (Proc (sp_provs s0') (sp_body s0') 0).
Proof. intros (E1 & E2). split; [exact E1|]. split; [reflexivity | exact E2]. Qed.

Definition crelA (c c' : config) : Prop :=
  (forall q, orel prelA (procs c !! q) (procs c' !! q)) /\
  (forall k, orel chrel (chans c !! k) (chans c' !! k)) /\ out c = out c'.
Definition srrelA (x x' : sres) : Prop :=
  match x, x' with
  | SNotEnabled, SNotEnabled => True
  | SStep d, SStep d' => crelA d d'
  | SError w e, SError w' e' => w = w' /\ e = e'
  | _, _ => False
  end.

Lemma add_spawns_relA self : forall ss ss' next m m', Forall2 srelA ss ss' ->
  (forall q, orel prelA (m !! q) (m' !! q)) ->
  (forall q, orel prelA (fst (add_spawns self next ss m) !! q) (fst (add_spawns self next ss' m') !! q)) /\
  snd (add_spawns self next ss m) = snd (add_spawns self next ss' m').
Proof.
  intros ss ss' next m m' H. revert next m m'. induction H as [|s0 s0' l l' Hs _ IH]; intros next m m' Hm; cbn [add_spawns]; [auto|].
  apply IH. apply orel_insert; [exact Hm | apply srelA_proc, Hs].
Qed.

Lemma apply_effect_relA c c' self p p' e e' : crelA c c' -> erelA e e' -> pr_next p = pr_next p' ->
  crelA (apply_effect c self p e) (apply_effect c' self p' e').
Proof.
  intros (Hp & Hch & Ho) (Ha & Hs & Hn & Hcl & Hout) Hnx. unfold apply_effect.
  assert (Eb : match e_after e with Continue p1 => pr_next p1 | Finish => pr_next p end =
               match e_after e' with Continue p1 => pr_next p1 | Finish => pr_next p' end).
  { destruct (e_after e), (e_after e'); cbn in Ha; try contradiction; [apply prelA_next, Ha | exact Hnx]. }
  rewrite Eb, <- Hn.
  destruct (add_spawns_relA self _ _ (match e_after e' with Continue p1 => pr_next p1 | Finish => pr_next p' end + length (e_newch e))%nat _ _ Hs Hp) as [Hpm Hnext].
  destruct (add_spawns self _ (e_spawn e) (procs c)) as [pm next1]. destruct (add_spawns self _ (e_spawn e') (procs c')) as [pm' next1'].
  cbn [fst snd] in *. subst next1'. split; [|split]; cbn [procs chans out].
  - destruct (e_after e) as [p1|], (e_after e') as [p1'|]; cbn in Ha; try contradiction.
    + apply orel_insert; [exact Hpm | apply prelA_set_next, Ha].
    + apply orel_delete, Hpm.
  - rewrite <- Hcl. clear Hcl.
    assert (H1 : forall l k, orel chrel (foldr (fun ch m => <[ch := empty_chan]> m) (chans c) l !! k)
                                     (foldr (fun ch m => <[ch := empty_chan]> m) (chans c') l !! k)).
    { induction l as [|ch l IH]; cbn [foldr]; [exact Hch|]. apply orel_insert; [exact IH|]. split; [reflexivity | exact I]. }
    specialize (H1 (e_newch e)).
    revert H1. generalize (foldr (fun ch m => <[ch := empty_chan]> m) (chans c) (e_newch e)) (foldr (fun ch m => <[ch := empty_chan]> m) (chans c') (e_newch e)).
    intros cm cm' H1. generalize (e_close e). intros cl. induction cl as [|ch l IH]; cbn [foldr]; [exact H1|].
    pose proof (IH ch) as Hc0.
    destruct (foldr _ cm l !! ch) as [st|] eqn:E1, (foldr _ cm' l !! ch) as [st'|] eqn:E2; cbn in Hc0; try contradiction; [|exact IH].
    apply orel_insert; [exact IH|]. destruct Hc0 as [_ Hb]. split; [reflexivity | exact Hb].
  - now rewrite Ho, Hout.
Qed.

Lemma eff_step_relA c c' self p p' x x' : crelA c c' -> rrelA x x' -> pr_next p = pr_next p' ->
  srrelA (eff_step c self p x) (eff_step c' self p' x').
Proof.
  intros Hc Hx Hn. destruct x as [e|w], x' as [e'|w']; cbn in Hx; try contradiction; cbn [eff_step srrelA].
  - now apply apply_effect_relA.
  - auto.
Qed.
Lemma crelA_put c c' k st st' m m' : crelA c c' -> ch_closed st = ch_closed st' -> orel mrel m m' ->
  crelA (put_msg c k st m) (put_msg c' k st' m').
Proof.
  intros (Hp & Hch & Ho) Hcl Hm. split; [|split]; cbn [put_msg procs chans out]; auto.
  apply orel_insert; [exact Hch|]. split; [exact Hcl | exact Hm].
Qed.
Lemma crelA_del c c' q : crelA c c' -> crelA (del_proc c q) (del_proc c' q).
Proof. intros (Hp & Hch & Ho). split; [|split]; cbn [del_proc procs chans out]; auto. now apply orel_delete. Qed.

Lemma action_casesA a a' : naction' a' = naction' a ->
  match a with
  | ADup => a' = ADup | AInternal => a' = AInternal | ANever => a' = ANever
  | ARecv k => a' = ARecv k | AErr w => a' = AErr w
  | ASend k m => exists m', a' = ASend k m' /\ nm' m' = nm' m
  | ACtrl k ps => exists ps', a' = ACtrl k ps' /\ map nn' ps' = map nn' ps
  end.
Proof. destruct a, a'; cbn [naction']; intros E; try discriminate; inversion E; subst; try reflexivity; eexists; (split; [reflexivity | congruence]). Qed.

Section StepA.
Variable D : tenv.
Variables F F' : list fundef.
Variable teq : sty -> sty -> Prop.
Hypothesis HF : funs_typed D F teq.
Hypothesis HF' : funs_typed D F' teq.
Hypothesis FR : Forall2 frelA F F'.
Local Notation typedF := (typed D F teq).
Local Notation typedF' := (typed D F' teq).

Lemma on_message_relA Δ Δ' rs s rs' s' self p p' m m' :
  prelA p p' -> typedF Δ ∅ None rs s (pr_body0 p) -> typedF' Δ' ∅ None rs' s' (pr_body0 p') ->
  mok m -> mok m' -> mjf m -> nm' m' = nm' m ->
  rrelA (on_message self p m) (on_message self p' m').
Proof.
  intros (Ep & En & Hb) Hty Hty' Hm Hm' (G1 & G2 & _) Em. apply rrelA_neres.
  rewrite <- (on_message_T D F teq Δ rs s self p m Hty Hm), <- (on_message_T D F' teq Δ' rs' s' self p' m' Hty' Hm'), Em.
  apply rrelA_neres. apply on_message_A; [exact Ep | exact En | exact Hb |].
  split; cbn [nm' m_c1 m_c2]; apply good_nonvar; assumption.
Qed.

Lemma dup_effect_relA Δ Δ' rs s rs' s' self p p' :
  prelA p p' -> typedF Δ ∅ None rs s (pr_body0 p) -> typedF' Δ' ∅ None rs' s' (pr_body0 p') ->
  rrelA (dup_effect self p) (dup_effect self p').
Proof.
  intros (Ep & En & Hb) Hty Hty'. apply rrelA_neres.
  rewrite <- (dup_effect_T D F teq Δ rs s self p Hty), <- (dup_effect_T D F' teq Δ' rs' s' self p' Hty').
  apply rrelA_neres. apply dup_effect_A; [exact Ep | exact En | exact Hb |].
  cbn [np' pr_body0]. rewrite (proj1 free_names_nf'). apply List.Forall_forall. intros n Hn. apply in_map_iff in Hn. destruct Hn as (fn & <- & Hin).
  apply echan_nn'. destruct (free_names_closed D F teq _ _ _ _ _ Hty Hin) as (t & Hs & _ & Hc).
  unfold initialized. destruct (chan fn); [reflexivity|]. destruct Hc as [_ (t' & Hl & _)]. rewrite lookup_empty in Hl. discriminate.
Qed.

Lemma internal_effect_relA Δ Δ' rs s rs' s' md self p p' :
  prelA p p' -> typedF Δ ∅ None rs s (pr_body0 p) -> typedF' Δ' ∅ None rs' s' (pr_body0 p') ->
  rrelA (internal_effect md F self p) (internal_effect md F' self p').
Proof.
  intros (Ep & En & Hb) Hty Hty'.
  destruct (is_call (pr_body0 p)) eqn:Ec.
  - destruct (pr_body0 p) as [| | | | | | | | |fn args pt| | | |] eqn:Eb; try discriminate Ec.
    destruct (pr_body0 p') as [| | | | | | | | |fn' args' pt'| | | |] eqn:Eb2; cbn [nf' aeq] in Hb; try contradiction.
    destruct Hb as (<- & <- & Hargs). apply Forall2_aeqn_nil_eq in Hargs.
    pose proof (call_relA D F F' teq HF HF' FR _ _ _ _ _ _ _ _ _ _ _ Hty Hty' (eq_sym Hargs)) as Hc.
    unfold internal_effect. rewrite Eb, Eb2.
    destruct (call_body F fn args) as [b|].
    + destruct Hc as (b' & -> & Hbb). apply rrelA_cont; auto.
    + rewrite Hc. reflexivity.
  - apply rrelA_neres.
    rewrite <- (internal_effect_T D F teq HF md Δ rs s self p Hty), <- (internal_effect_T D F' teq HF' md Δ' rs' s' self p' Hty').
    apply rrelA_neres. apply internal_effect_A; [exact Ep | exact En | exact Hb |].
    cbn [np' pr_body0]. now rewrite is_callA_nf'.
Qed.

Lemma action_relA md p p' : prelA p p' -> naction' (action_of md D p') = naction' (action_of md D p).
Proof. intros (Ep & En & Hb). rewrite <- !action_of_T. apply action_of_A; [exact Ep | exact Hb]. Qed.
Lemma prelA_is_call p p' : prelA p p' -> is_call (pr_body0 p') = is_call (pr_body0 p).
Proof.
  intros (_ & _ & Hb). assert (E : is_callA (nf' (pr_body0 p')) = is_callA (nf' (pr_body0 p))).
  { destruct (nf' (pr_body0 p)), (nf' (pr_body0 p')); cbn [aeq] in Hb; try contradiction; reflexivity. }
  now rewrite !is_callA_nf' in E.
Qed.
Lemma self_chan_relA p p' : prelA p p' -> self_chan p' = self_chan p.
Proof. intros (Ep & _). unfold self_chan, prov0. now apply map_nn'_self_chan. Qed.
Lemma polls_relA md p p' : prelA p p' -> polls_control md D p' = polls_control md D p.
Proof.
  intros Hp. unfold polls_control. pose proof (action_casesA _ _ (action_relA md p p' Hp)) as Ha.
  pose proof (prelA_is_call p p' Hp) as Hcall.
  destruct (action_of md D p); try (rewrite Ha; reflexivity).
  - rewrite Ha. destruct (pr_body0 p), (pr_body0 p'); try discriminate Hcall; reflexivity.
  - destruct Ha as (m' & -> & _). reflexivity.
  - destruct Ha as (ps' & -> & _). reflexivity.
Qed.

Theorem step_relA md Δ Δ' c c' ch : cfg_typed D F teq Δ c -> cfg_typed D F' teq Δ' c' -> crelA c c' ->
  srrelA (Runtime.step md D F c ch) (Runtime.step md D F' c' ch).
Proof.
  intros [Hprocs Hmsgs _ _] [Hprocs' Hmsgs' _ _] Hcr. pose proof Hcr as (Hp & Hch & Ho).
  unfold Runtime.step. destruct ch as [self|s0 r0|f0 t0].
  - (* one process runs *)
    pose proof (Hp self) as Hps. destruct (procs c !! self) as [p|] eqn:Ep, (procs c' !! self) as [p'|] eqn:Ep'; cbn in Hps; try contradiction; [|exact I].
    destruct (proc_facts D F teq Δ p (Hprocs _ _ Ep)) as [(rs & s & Hty) Hpr].
    destruct (proc_facts D F' teq Δ' p' (Hprocs' _ _ Ep')) as [(rs' & s' & Hty') Hpr'].
    pose proof (prelA_next _ _ Hps) as Hnx.
    pose proof (action_casesA _ _ (action_relA md p p' Hps)) as Ha.
    destruct (action_of md D p) as [| |k m|k| |k provs|w] eqn:Ea.
    + rewrite Ha. apply eff_step_relA; auto. eapply dup_effect_relA; eauto.
    + rewrite Ha. apply eff_step_relA; auto. eapply internal_effect_relA; eauto.
    + destruct Ha as (m' & Ea' & Em). rewrite Ea'.
      assert (Hj : mjf m) by (eapply action_mjf; [exact Hty | exact Hpr | exact Ea]). assert (Hj' : mjf m') by (eapply action_mjf; [exact Hty' | exact Hpr' | exact Ea']).
      pose proof (Hch k) as Hk. destruct (chans c !! k) as [st|], (chans c' !! k) as [st'|]; cbn in Hk; try contradiction; [|cbn; auto].
      destruct Hk as [Hcl Hb]. rewrite <- Hcl. destruct (ch_closed st) eqn:Ecl; [cbn; auto|].
      destruct md; try (destruct (ch_buf st), (ch_buf st'); cbn in Hb; try contradiction; exact I).
      destruct (ch_buf st), (ch_buf st'); cbn in Hb; try contradiction; [exact I|].
      cbn [srrelA]. apply crelA_del. apply crelA_put; auto; [congruence|]. cbn [orel]. split; [exact Em | split; assumption].
    + rewrite Ha. pose proof (Hch k) as Hk. destruct (chans c !! k) as [st|] eqn:Ek, (chans c' !! k) as [st'|] eqn:Ek'; cbn in Hk; try contradiction; [|cbn; auto].
      destruct Hk as [Hcl Hb]. rewrite <- Hcl.
      destruct (ch_buf st) as [m|] eqn:Eb, (ch_buf st') as [m'|] eqn:Eb'; cbn in Hb; try contradiction.
      * destruct Hb as (Em & Hj & Hj'). apply eff_step_relA; auto; [apply crelA_put; auto; exact I|].
        eapply on_message_relA; eauto; eapply msg_typed_mok; eauto.
      * destruct (ch_closed st) eqn:Ecl; [|exact I]. apply eff_step_relA; auto.
        eapply on_message_relA; eauto using mok_zero, mjf_zero.
    + rewrite Ha. exact I.
    + destruct Ha as (ps' & -> & _). exact I.
    + rewrite Ha. cbn. auto.
  - (* rendezvous *)
    destruct md; [exact I| |].
    all: destruct (bool_decide (s0 = r0)); [exact I|];
      pose proof (Hp s0) as Hs; pose proof (Hp r0) as Hr;
      destruct (procs c !! s0) as [ps|] eqn:Es, (procs c' !! s0) as [ps'|] eqn:Es'; cbn in Hs; try contradiction; [|exact I];
      destruct (procs c !! r0) as [pr|] eqn:Er, (procs c' !! r0) as [pr'|] eqn:Er'; cbn in Hr; try contradiction; [|exact I];
      destruct (proc_facts D F teq Δ ps (Hprocs _ _ Es)) as [(rs1 & s1 & Hty1) Hpr1];
      destruct (proc_facts D F' teq Δ' ps' (Hprocs' _ _ Es')) as [(rs1' & s1' & Hty1') Hpr1'];
      destruct (proc_facts D F teq Δ pr (Hprocs _ _ Er)) as [(rs2 & s2 & Hty2) Hpr2];
      destruct (proc_facts D F' teq Δ' pr' (Hprocs' _ _ Er')) as [(rs2' & s2' & Hty2') Hpr2'];
      pose proof (prelA_next _ _ Hr) as Hnx;
      match goal with |- context [action_of ?mm D ps] =>
        pose proof (action_casesA _ _ (action_relA mm ps ps' Hs)) as Ha1;
        pose proof (action_casesA _ _ (action_relA mm pr pr' Hr)) as Ha2 end;
      destruct (action_of _ D ps) as [| |k m|k| |k provs|w] eqn:Ea1;
        try (rewrite Ha1; exact I); try (destruct Ha1 as (? & -> & _); exact I);
      destruct Ha1 as (m' & Ea1' & Em); rewrite Ea1';
      destruct (action_of _ D pr) as [| |k2 m2|k2| |k2 provs2|w2] eqn:Ea2;
        try (rewrite Ha2; exact I); try (destruct Ha2 as (? & -> & _); exact I);
      rewrite Ha2;
      destruct (bool_decide (k = k2)); [|exact I];
      pose proof (Hch k) as Hk; destruct (chans c !! k) as [st|], (chans c' !! k) as [st'|]; cbn in Hk; try contradiction; [|exact I];
      destruct Hk as [Hcl _]; rewrite <- Hcl; destruct (ch_closed st); [exact I|];
      assert (Hj : mjf m) by (eapply action_mjf; [exact Hty1 | exact Hpr1 | exact Ea1]);
      apply eff_step_relA; auto; [apply crelA_del; auto|];
      eapply (on_message_relA _ _ _ _ _ _ r0 pr pr' m m' Hr Hty2 Hty2');
        [eapply action_mok; [exact Hty1 | exact Hpr1 | exact Ea1]
        |eapply action_mok; [exact Hty1' | exact Hpr1' | exact Ea1']
        |exact Hj | exact Em].
  - (* control (NP) *)
    destruct (negb (is_np md) || bool_decide (f0 = t0)); [exact I|].
    pose proof (Hp f0) as Hf; pose proof (Hp t0) as Ht.
    destruct (procs c !! f0) as [pf|] eqn:Ef, (procs c' !! f0) as [pf'|] eqn:Ef'; cbn in Hf; try contradiction; [|exact I].
    destruct (procs c !! t0) as [pt|] eqn:Et, (procs c' !! t0) as [pt'|] eqn:Et'; cbn in Ht; try contradiction; [|exact I].
    pose proof (prelA_next _ _ Ht) as Hnx.
    pose proof (action_casesA _ _ (action_relA md pf pf' Hf)) as Ha.
    rewrite (self_chan_relA pt pt' Ht), (polls_relA md pt pt' Ht).
    destruct (action_of md D pf) as [| |k m|k| |k provs|w] eqn:Ea; try (rewrite Ha; exact I); try (destruct Ha as (? & -> & _); exact I).
    destruct Ha as (ps' & -> & Eps).
    destruct (self_chan pt) as [k'|]; [|exact I].
    destruct (bool_decide (k = k') && polls_control md D pt); [|exact I].
    cbn [srrelA]. apply apply_effect_relA; auto; [apply crelA_del; auto|].
    pose proof Ht as (Ept2 & Ent & Hbt).
    unfold erelA. cbn [e_after e_spawn e_newch e_close e_out arelA]. repeat split; auto.
    + unfold set_provs_body. cbn [pr_provs pr_body0 pr_next].
      assert (Etl : map nn' (tl (pr_provs pt')) = map nn' (tl (pr_provs pt))).
      { destruct (pr_provs pt), (pr_provs pt'); cbn in Ept2 |- *; try discriminate; [reflexivity|]. congruence. }
      now rewrite !map_app, Eps, Etl.
    + unfold cids_of. destruct (pr_provs pt) as [|a l], (pr_provs pt') as [|a' l']; cbn in Ept2 |- *; try discriminate; [reflexivity|].
      assert (E1 : nn' a' = nn' a) by congruence. rewrite <- (nn'_chan a'), E1, nn'_chan. reflexivity.
Qed.

(* ---------------------------------------------------------------- runs *)
Lemma pids_relA c c' : crelA c c' -> pids c' = pids c.
Proof.
  intros (Hp & _ & _). unfold pids.
  assert (E : (fun _ => tt) <$> procs c' = (fun _ => tt) <$> procs c).
  { apply map_eq. intros q. rewrite !lookup_fmap. specialize (Hp q).
    destruct (procs c !! q), (procs c' !! q); cbn in *; try contradiction; reflexivity. }
  apply (f_equal (fun m => map fst (map_to_list m))) in E. rewrite !gmap_to_list_fmap in E.
  change (prod_map id (fun _ : proc => tt) <$> ?l) with (map (prod_map id (fun _ : proc => tt)) l) in E.
  rewrite !map_map in E. exact E.
Qed.

Lemma enabled_relA md Δ Δ' c c' : cfg_typed D F teq Δ c -> cfg_typed D F' teq Δ' c' -> crelA c c' ->
  enabled md D F' c' = enabled md D F c.
Proof.
  intros H1 H2 Hc. unfold enabled, candidates. rewrite (pids_relA c c' Hc). apply filter_ext. intros ch.
  pose proof (step_relA md Δ Δ' c c' ch H1 H2 Hc) as Hs.
  destruct (Runtime.step md D F c ch), (Runtime.step md D F' c' ch); cbn in Hs; try contradiction; reflexivity.
Qed.

Section RunsA.
Variable md : exec_mode.
Variables I I' : config -> Prop.
Hypothesis I_typed : forall c, I c -> exists Δ, cfg_typed D F teq Δ c.
Hypothesis I_step : forall c ch d, I c -> Runtime.step md D F c ch = SStep d -> I d.
Hypothesis I'_typed : forall c, I' c -> exists Δ, cfg_typed D F' teq Δ c.
Hypothesis I'_step : forall c ch d, I' c -> Runtime.step md D F' c ch = SStep d -> I' d.

Theorem run_relA pick : forall fuel c c', I c -> I' c' -> crelA c c' ->
  kind_of (exec_run fuel pick md D F' c') = kind_of (exec_run fuel pick md D F c) /\
  crelA (final_cfg (exec_run fuel pick md D F c)) (final_cfg (exec_run fuel pick md D F' c')).
Proof.
  induction fuel as [|fuel IH]; intros c c' Hi Hi' Hc; cbn [exec_run]; [split; [reflexivity | exact Hc]|].
  destruct (I_typed c Hi) as [Δ Ht]. destruct (I'_typed c' Hi') as [Δ' Ht'].
  rewrite (enabled_relA md Δ Δ' c c' Ht Ht' Hc).
  destruct (enabled md D F c) as [|e0 es]; [split; [reflexivity | exact Hc]|].
  set (ch := nth (pick (S fuel) (S (length es)) mod S (length es)) (e0 :: es) e0).
  pose proof (step_relA md Δ Δ' c c' ch Ht Ht' Hc) as Hs.
  destruct (Runtime.step md D F c ch) as [|d|w e] eqn:E1, (Runtime.step md D F' c' ch) as [|d'|w' e'] eqn:E2; cbn in Hs; try contradiction.
  - split; [reflexivity | exact Hc].
  - apply IH; eauto.
  - destruct Hs as [-> ->]. split; [reflexivity | exact Hc].
Qed.

Corollary run_relA_labels pick fuel c c' : I c -> I' c' -> crelA c c' ->
  kind_of (exec_run fuel pick md D F' c') = kind_of (exec_run fuel pick md D F c) /\
  labels (final_cfg (exec_run fuel pick md D F' c')) = labels (final_cfg (exec_run fuel pick md D F c)) /\
  pids (final_cfg (exec_run fuel pick md D F' c')) = pids (final_cfg (exec_run fuel pick md D F c)).
Proof.
  intros Hi Hi' Hc. destruct (run_relA pick fuel c c' Hi Hi' Hc) as [H1 H2]. split; [exact H1|]. split.
  - unfold labels. destruct H2 as (_ & _ & Ho). now rewrite Ho.
  - now apply pids_relA.
Qed.
End RunsA.
End StepA.
