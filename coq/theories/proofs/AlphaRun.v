(* proofs/AlphaRun.v — C14, general alpha-equivalence, assembled: DUP and the call transition, one step of
   the interpreter for configurations related pointwise by `AlphaStep.prelA` (same pids, same providers
   and counters up to identifiers of channels, bodies `aeq []` after erasure), in the three modes and for
   every choice (`step_relA`), and lock-step runs (`run_relA`).  Function tables are related by `frelA`:
   same name, type and explicit provider name; parameters are pairwise related binders; erased bodies are
   `aeq` under the stack of parameters.  The structure is that of RenameAlpha.v (per-declaration injective
   maps); typed configurations are brought to the erased form by the `*_T` lemmas of RenameSimT.v. *)
From stdpp Require Import pmap gmap strings.
Require Import Grits.Base Grits.ModeDefs Grits.Modes Grits.STypes Grits.Forms Grits.Subst Grits.TcDeps Grits.Expand.
Require Import Grits.Runtime Grits.spec.RtTyping Grits.proofs.RtSubst Grits.proofs.RtSafety
               Grits.proofs.RenameRun Grits.proofs.RenameSimT Grits.proofs.RenameAlpha.
Require Import Grits.spec.Alpha Grits.spec.AlphaEq Grits.proofs.AlphaSubst Grits.proofs.AlphaFree Grits.proofs.AlphaStep.

(* ---------------------------------------------------------------- the relations see erased results only *)
Lemma prelA_np' p p' : prelA (np' p) (np' p') <-> prelA p p'.
Proof. unfold prelA, np'. cbn [pr_provs pr_body0 pr_next]. rewrite !map_nn'_idem, !(proj1 nf'_idem). reflexivity. Qed.
Lemma srelA_nspawn' s0 s0' : srelA (nspawn' s0) (nspawn' s0') <-> srelA s0 s0'.
Proof. unfold srelA, nspawn'. cbn [sp_provs sp_body]. rewrite !map_nn'_idem, !(proj1 nf'_idem). reflexivity. Qed.
Lemma rrelA_neres x x' : rrelA (neres' x) (neres' x') <-> rrelA x x'.
Proof.
  destruct x as [e|w], x' as [e'|w']; cbn [neres' rrelA]; try reflexivity.
  unfold erelA, neff'. cbn [e_after e_spawn e_newch e_close e_out].
  assert (A : arelA (nafter' (e_after e)) (nafter' (e_after e')) <-> arelA (e_after e) (e_after e')).
  { destruct (e_after e), (e_after e'); cbn; try reflexivity. apply prelA_np'. }
  assert (B : Forall2 srelA (map nspawn' (e_spawn e)) (map nspawn' (e_spawn e')) <-> Forall2 srelA (e_spawn e) (e_spawn e')).
  { change (map nspawn' ?l) with (nspawn' <$> l). rewrite Forall2_fmap. split; intros H; eapply Forall2_impl; eauto; intros a b; apply srelA_nspawn'. }
  rewrite A, B. reflexivity.
Qed.

Lemma good_nonvar n : good n -> nonvar (nn' n).
Proof.
  intros Hg. assert (V : isvar n = false).
  { unfold isvar, good in *. destruct Hg as [ H | [ H | H ] ]; rewrite H; cbn; rewrite ?andb_false_r; reflexivity. }
  split; [now rewrite isvar_nn'_eq | now apply nonvar_ident_nn'].
Qed.

(* ---------------------------------------------------------------- duplication *)
Lemma Forall2_imap {A B} (R : B -> B -> Prop) : forall (l : list A) (f g : nat -> A -> B),
  (forall i x, R (f i x) (g i x)) -> Forall2 R (imap f l) (imap g l).
Proof. induction l as [|x l IH]; intros f g H; [constructor|]. rewrite !imap_cons. constructor; [apply H | apply IH; intros; apply H]. Qed.
Lemma Forall2_refl_on {A} (R : A -> A -> Prop) : forall l, (forall x, In x l -> R x x) -> Forall2 R l l.
Proof. induction l as [|x l IH]; intros H; constructor; [apply H; left; reflexivity | apply IH; intros; apply H; right; assumption]. Qed.

Definition echan (c : name) : Prop := initialized c = true /\ ident c = "".
Lemma frow_echan self base fn n : echan fn -> Forall echan (frow self base fn n).
Proof. intros [_ Hi]. unfold frow. apply List.Forall_forall. intros c Hc. apply in_map_iff in Hc. destruct Hc as (i & <- & _). split; [reflexivity | exact Hi]. Qed.
Lemma fmat_echan self n : forall fns base, Forall echan fns -> Forall (Forall echan) (fmat self base fns n).
Proof. induction fns as [|fn fns IH]; intros base H; cbn [fmat]; [constructor|]. inversion H; subst. constructor; [now apply frow_echan | now apply IH]. Qed.

Lemma subst_col_A i e : forall fns rows b b', Forall echan fns -> Forall (Forall echan) rows -> aeq e b b' ->
  aeq e (subst_col fns rows i b) (subst_col fns rows i b').
Proof.
  induction fns as [|fn fns IH]; intros [|row rows] b b' Hf Hr H; cbn [subst_col]; try exact H.
  inversion Hf as [|? ? [F1 F2] Hf']; subst. inversion Hr as [|? ? Hrow Hr']; subst. apply IH; auto.
  destruct (nth_error row i) as [c|] eqn:E; [|exact H].
  apply nth_error_In in E. rewrite List.Forall_forall in Hrow. destruct (Hrow c E) as [C1 C2].
  now apply (proj1 (aeq_subst_chan fn c F1 C1 C2)).
Qed.

Theorem dup_effect_A self q q' : pr_provs q' = pr_provs q -> pr_next q' = pr_next q ->
  aeq [] (pr_body0 q) (pr_body0 q') -> Forall echan (free_names (pr_body0 q)) ->
  rrelA (dup_effect self q) (dup_effect self q').
Proof.
  intros Ep En Hb Hfn. unfold dup_effect. rewrite Ep. destruct (length (pr_provs q) =? 1)%nat; [reflexivity|].
  rewrite <- (aeq_free_closed _ _ Hb), !fresh_matrix_spec, En.
  set (fns := free_names (pr_body0 q)) in *. set (rows := fmat self (pr_next q) fns (length (pr_provs q))).
  cbn [rrelA]. unfold erelA. cbn [e_after e_spawn e_newch e_close e_out arelA].
  split; [exact I|]. split; [|auto]. apply Forall2_app.
  - apply Forall2_imap. intros i pr. split; [reflexivity|]. cbn [sp_body]. apply aeq_nf'. apply subst_col_A; auto. now apply fmat_echan.
  - apply Forall2_refl_on. intros x Hx. apply in_map_iff in Hx. destruct Hx as ([fn row] & <- & _).
    split; [reflexivity|]. cbn [sp_body]. apply aeq_nb_refl. exact I.
Qed.

(* ---------------------------------------------------------------- what a process does next *)
Lemma action_of_A md D q q' : pr_provs q' = pr_provs q -> aeq [] (pr_body0 q) (pr_body0 q') ->
  action_of md D q' = action_of md D q.
Proof.
  intros Ep Hb. unfold action_of, send_on, recv_on, internal, self_chan, self_name_of, multi, prov0. rewrite Ep.
  destruct (pr_body0 q), (pr_body0 q'); cbn [aeq] in Hb; try contradiction;
    repeat match goal with H : _ /\ _ |- _ => destruct H end;
    repeat match goal with H : aeqn [] _ _ |- _ => apply aeqn_nil_eq in H end; subst; reflexivity.
Qed.
Lemma is_call_A q q' : aeq [] (pr_body0 q) (pr_body0 q') -> is_call (pr_body0 q') = is_call (pr_body0 q).
Proof. intros Hb. destruct (pr_body0 q), (pr_body0 q'); cbn [aeq] in Hb; try contradiction; reflexivity. Qed.
