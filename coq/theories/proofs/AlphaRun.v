(* proofs/AlphaRun.v — C14, general alpha-equivalence, assembled: DUP and the call transition, one step of
   the interpreter for configurations related pointwise by `AlphaStep.prelA` (same pids, same providers
   and counters up to identifiers of channels, bodies `aeq []` after erasure), in the three modes and for
   every choice (`step_relA`), and lock-step runs (`run_relA`).  Function tables are related by `frelA`:
   same name, type and explicit provider name; parameters are pairwise related binders; erased bodies are
   `aeq` under the stack of parameters.  The structure is that of RenameAlpha.v (per-declaration injective
   maps); typed configurations are brought to the erased form by the `*_T` lemmas of RenameSimT.v. *)
From stdpp Require Import pmap gmap strings.
Require Import Grits.Base Grits.ModeDefs Grits.Modes Grits.STypes Grits.Forms Grits.Subst Grits.TcDeps Grits.Expand.
Require Import Grits.Runtime Grits.spec.RtTyping Grits.proofs.RtSubst Grits.proofs.RtSafety
               Grits.proofs.RenameRun Grits.proofs.RenameSimT Grits.proofs.RenameAlpha.
Require Import Grits.spec.Alpha Grits.spec.AlphaEq Grits.proofs.AlphaSubst Grits.proofs.AlphaFree Grits.proofs.AlphaStep.

(* ---------------------------------------------------------------- the relations see erased results only *)
Lemma prelA_np' p p' : prelA (np' p) (np' p') <-> prelA p p'.
Proof. unfold prelA, np'. cbn [pr_provs pr_body0 pr_next]. rewrite !map_nn'_idem, !(proj1 nf'_idem). reflexivity. Qed.
Lemma srelA_nspawn' s0 s0' : srelA (nspawn' s0) (nspawn' s0') <-> srelA s0 s0'.
Proof. unfold srelA, nspawn'. cbn [sp_provs sp_body]. rewrite !map_nn'_idem, !(proj1 nf'_idem). reflexivity. Qed.
Lemma rrelA_neres x x' : rrelA (neres' x) (neres' x') <-> rrelA x x'.
Proof.
  destruct x as [e|w], x' as [e'|w']; cbn [neres' rrelA]; try reflexivity.
  unfold erelA, neff'. cbn [e_after e_spawn e_newch e_close e_out].
  assert (A : arelA (nafter' (e_after e)) (nafter' (e_after e')) <-> arelA (e_after e) (e_after e')).
  { destruct (e_after e), (e_after e'); cbn; try reflexivity. apply prelA_np'. }
  assert (B : Forall2 srelA (map nspawn' (e_spawn e)) (map nspawn' (e_spawn e')) <-> Forall2 srelA (e_spawn e) (e_spawn e')).
  { change (map nspawn' ?l) with (nspawn' <$> l). rewrite Forall2_fmap. split; intros H; eapply Forall2_impl; eauto; intros a b; apply srelA_nspawn'. }
  rewrite A, B. reflexivity.
Qed.

Lemma good_nonvar n : good n -> nonvar (nn' n).
Proof.
  intros Hg. assert (V : isvar n = false).
  { unfold isvar, good in *. destruct Hg as [ H | [ H | H ] ]; rewrite H; cbn; rewrite ?andb_false_r; reflexivity. }
  split; [now rewrite isvar_nn'_eq | now apply nonvar_ident_nn'].
Qed.

(* ---------------------------------------------------------------- duplication *)
Lemma Forall2_imap {A B} (R : B -> B -> Prop) : forall (l : list A) (f g : nat -> A -> B),
  (forall i x, R (f i x) (g i x)) -> Forall2 R (imap f l) (imap g l).
Proof. induction l as [|x l IH]; intros f g H; [constructor|]. rewrite !imap_cons. constructor; [apply H | apply IH; intros; apply H]. Qed.
Lemma Forall2_refl_on {A} (R : A -> A -> Prop) : forall l, (forall x, In x l -> R x x) -> Forall2 R l l.
Proof. induction l as [|x l IH]; intros H; constructor; [apply H; left; reflexivity | apply IH; intros; apply H; right; assumption]. Qed.

Definition echan (c : name) : Prop := initialized c = true /\ ident c = "".
Lemma frow_echan self base fn n : echan fn -> Forall echan (frow self base fn n).
Proof. intros [_ Hi]. unfold frow. apply List.Forall_forall. intros c Hc. apply in_map_iff in Hc. destruct Hc as (i & <- & _). split; [reflexivity | exact Hi]. Qed.
Lemma fmat_echan self n : forall fns base, Forall echan fns -> Forall (Forall echan) (fmat self base fns n).
Proof. induction fns as [|fn fns IH]; intros base H; cbn [fmat]; [constructor|]. inversion H; subst. constructor; [now apply frow_echan | now apply IH]. Qed.

Lemma subst_col_A i e : forall fns rows b b', Forall echan fns -> Forall (Forall echan) rows -> aeq e b b' ->
  aeq e (subst_col fns rows i b) (subst_col fns rows i b').
Proof.
  induction fns as [|fn fns IH]; intros [|row rows] b b' Hf Hr H; cbn [subst_col]; try exact H.
  inversion Hf as [|? ? [F1 F2] Hf']; subst. inversion Hr as [|? ? Hrow Hr']; subst. apply IH; auto.
  destruct (nth_error row i) as [c|] eqn:E; [|exact H].
  apply nth_error_In in E. rewrite List.Forall_forall in Hrow. destruct (Hrow c E) as [C1 C2].
  now apply (proj1 (aeq_subst_chan fn c F1 C1 C2)).
Qed.

Theorem dup_effect_A self q q' : pr_provs q' = pr_provs q -> pr_next q' = pr_next q ->
  aeq [] (pr_body0 q) (pr_body0 q') -> Forall echan (free_names (pr_body0 q)) ->
  rrelA (dup_effect self q) (dup_effect self q').
Proof.
  intros Ep En Hb Hfn. unfold dup_effect. rewrite Ep. destruct (length (pr_provs q) =? 1)%nat; [reflexivity|].
  rewrite <- (aeq_free_closed _ _ Hb), !fresh_matrix_spec, En.
  set (fns := free_names (pr_body0 q)) in *. set (rows := fmat self (pr_next q) fns (length (pr_provs q))).
  cbn [rrelA]. unfold erelA. cbn [e_after e_spawn e_newch e_close e_out arelA].
  split; [exact I|]. split; [|auto]. apply Forall2_app.
  - apply Forall2_imap. intros i pr. split; [reflexivity|]. cbn [sp_body]. apply aeq_nf'. apply subst_col_A; auto. now apply fmat_echan.
  - apply Forall2_refl_on. intros x Hx. apply in_map_iff in Hx. destruct Hx as ([fn row] & <- & _).
    split; [reflexivity|]. cbn [sp_body]. apply aeq_nb_refl. exact I.
Qed.

(* ---------------------------------------------------------------- what a process does next *)
Lemma action_of_A md D q q' : pr_provs q' = pr_provs q -> aeq [] (pr_body0 q) (pr_body0 q') ->
  action_of md D q' = action_of md D q.
Proof.
  intros Ep Hb. unfold action_of, send_on, recv_on, internal, self_chan, self_name_of, multi, prov0. rewrite Ep.
  destruct (pr_body0 q), (pr_body0 q'); cbn [aeq] in Hb; try contradiction;
    repeat match goal with H : _ /\ _ |- _ => destruct H end;
    repeat match goal with H : aeqn [] _ _ |- _ => apply aeqn_nil_eq in H end; subst; reflexivity.
Qed.
Lemma is_call_A q q' : aeq [] (pr_body0 q) (pr_body0 q') -> is_call (pr_body0 q') = is_call (pr_body0 q).
Proof. intros Hb. destruct (pr_body0 q), (pr_body0 q'); cbn [aeq] in Hb; try contradiction; reflexivity. Qed.

(* ---------------------------------------------------------------- function tables, calls *)
Definition frelA (fd fd' : fundef) : Prop :=
  fn_name fd' = fn_name fd /\ fn_type fd' = fn_type fd /\ fn_explicit fd' = fn_explicit fd /\
  match fn_explicit fd with Some ep => ident ep <> "" | None => True end /\
  Forall2 bnd (fn_params fd) (fn_params fd') /\
  aeq (params_env (fn_params fd) (fn_params fd')) (nf' (fn_body fd)) (nf' (fn_body fd')).

Lemma get_function_relA : forall G G', Forall2 frelA G G' -> forall fn n,
  match get_function G fn n with
  | Some fd => exists fd', get_function G' fn n = Some fd' /\ frelA fd fd'
  | None => get_function G' fn n = None
  end.
Proof.
  induction 1 as [|fd fd' l l' Hf _ IH]; intros fn n; cbn [get_function]; [reflexivity|].
  pose proof Hf as (E1 & _ & _ & _ & HB & _). rewrite E1, <- (Forall2_length _ _ _ HB).
  destruct (String.eqb (fn_name fd) fn && _); [|apply IH]. eauto.
Qed.

Lemma sub_all_A : forall ps ps', Forall2 bnd ps ps' -> forall as_ e b b', Forall nonvar as_ -> length as_ = length ps ->
  aeq (params_env ps ps' ++ e) b b' -> aeq e (sub_all ps as_ b) (sub_all ps' as_ b').
Proof.
  induction 1 as [|p p' ps ps' B _ IH]; intros [|a as_] e b b' Ha Hl H; cbn [length] in Hl; try discriminate; cbn [sub_all]; [exact H|].
  inversion Ha; subst. apply IH; auto. apply aeq_subst_top0; auto.
Qed.

Lemma aeq_subst_free0 e X c f g : chan X = None -> ident X <> "" -> nonvar c ->
  ~ In (ident X) (map fst e) -> ~ In (ident X) (map snd e) -> aeq e f g -> aeq e (subst X c f) (subst X c g).
Proof.
  intros HX NX [Hc Ic] N1 N2 H.
  pose proof (proj1 (aeq_mono e (e ++ [(ident X, ident X)]) (ext_snoc e (ident X))) f g [] H) as H'. cbn [app] in H'.
  pose proof (proj1 (aeq_subst_gen X X c [] HX HX NX NX Hc Ic) f g e true true) as G.
  cbn [msub] in G. rewrite app_nil_r in G. apply G; [split; assumption | exact H'].
Qed.

Lemma params_env_fst : forall ps ps', length ps' = length ps -> map fst (params_env ps ps') = map ident ps.
Proof. unfold params_env. induction ps as [|p ps IH]; intros [|p' ps'] H; cbn in *; try discriminate; [reflexivity|]. f_equal. apply IH. lia. Qed.
Lemma params_env_snd : forall ps ps', length ps' = length ps -> map snd (params_env ps ps') = map ident ps'.
Proof. unfold params_env. induction ps as [|p ps IH]; intros [|p' ps'] H; cbn in *; try discriminate; [reflexivity|]. f_equal. apply IH. lia. Qed.

Section RelA.
Variable D : tenv.
Variables F F' : list fundef.
Variable teq : sty -> sty -> Prop.
Hypothesis HF : funs_typed D F teq.
Hypothesis HF' : funs_typed D F' teq.
Hypothesis FR : Forall2 frelA F F'.
Local Notation typedF := (typed D F teq).
Local Notation typedF' := (typed D F' teq).

(* what fun_ok says about the parameters *)
Lemma fun_ok_params (G : list fundef) fd : fun_ok D G teq fd ->
  Forall (fun p => initialized p = false /\ ident p <> "") (fn_params fd) /\
  Forall (fun p => nos (ident p) (fn_body fd)) (fn_params fd) /\
  match fn_explicit fd with Some ep => initialized ep = false /\ chan ep = None /\ ~ In (ident ep) (map ident (fn_params fd)) | None => True end.
Proof.
  intros (tf & Etf & Hbind & Hnd & Hty' & Hbody).
  assert (Hps : Forall (fun p => initialized p = false /\ ident p <> "") (fn_params fd)).
  { rewrite List.Forall_forall in *. intros p Hp. apply binder_facts, Hbind, Hp. }
  split; [exact Hps|]. destruct (fn_explicit fd) as [ep|].
  - destruct Hbody as (Hepc & Hepn & Hb). split; [|split; [unfold initialized; now rewrite Hepc|split; [exact Hepc|]]].
    + rewrite List.Forall_forall in *. intros p Hp. eapply typed_nos; [exact Hb|].
      destruct (Hps p Hp) as [_ Hne]. intro Hin. apply elem_of_union in Hin. destruct Hin as [Hin|Hin]; apply elem_of_singleton in Hin.
      * congruence.
      * apply Hepn. rewrite <- Hin. apply elem_of_list_In, in_map, Hp.
    + intros Hin. apply Hepn. apply elem_of_list_In. exact Hin.
  - split; [|exact I]. rewrite List.Forall_forall in *. intros p Hp. eapply typed_nos; [exact Hbody|].
    destruct (Hps p Hp) as [_ Hne]. intro Hin. apply elem_of_singleton in Hin. congruence.
Qed.

(* the instantiated body depends on the erasure of the body and of the arguments only *)
Lemma erase_sub_all ps as_ b :
  Forall (fun p => initialized p = false /\ ident p <> "") ps -> Forall (fun a => uself a = false) as_ ->
  Forall (fun p => nos (ident p) b) ps ->
  nf' (sub_all ps as_ b) = nf' (sub_all ps (map nn' as_) (nf' b)).
Proof.
  intros Hps Ha Hn. symmetry. apply sub_all_T; auto; [|apply nf'_idem].
  rewrite List.Forall_forall in *. intros p Hp. split; [|auto]. apply nos_nf'. apply (Hps p Hp).
Qed.

Lemma call_relA Δ Δ' rs s rs' s' fn args pt args' pt' :
  typedF Δ ∅ None rs s (FCall fn args pt) -> typedF' Δ' ∅ None rs' s' (FCall fn args' pt') ->
  map nn' args' = map nn' args ->
  match call_body F fn args with
  | Some b => exists b', call_body F' fn args' = Some b' /\ aeq [] (nf' b) (nf' b')
  | None => call_body F' fn args' = None
  end.
Proof.
  intros Hty Hty' Ea.
  assert (Hlen : length args' = length args) by (apply (f_equal (@length _)) in Ea; now rewrite !map_length in Ea).
  pose proof (call_args_good D F teq _ _ _ _ _ _ Hty) as Hg.
  inversion Hty as [| | | | | | | | | | | | | ? ? ? ? ? ? ? fd tf0 Eg Etf0 Hteq0 Hargs | | | | | |]; subst.
  inversion Hty' as [| | | | | | | | | | | | | ? ? ? ? ? ? ? fd2 tf2 Eg2 Etf2 Hteq2 Hargs' | | | | | |]; subst.
  pose proof (get_function_relA F F' FR fn (length args)) as G. rewrite Eg in G. destruct G as (fd' & Eg' & Hfr).
  rewrite Hlen, Eg' in Eg2. inversion Eg2; subst fd2. clear Eg2.
  assert (Hok : fun_ok D F teq fd) by (pose proof HF as H; unfold funs_typed in H; rewrite List.Forall_forall in H; apply H; eapply get_function_in; eauto).
  assert (Hok' : fun_ok D F' teq fd') by (pose proof HF' as H; unfold funs_typed in H; rewrite List.Forall_forall in H; apply H; eapply get_function_in; eauto).
  destruct (fun_ok_params F fd Hok) as (Hps & Hnos & Hep). destruct (fun_ok_params F' fd' Hok') as (Hps' & Hnos' & Hep').
  destruct Hfr as (En & Et & Ee & Hepn & HB & Hbody).
  pose proof (Forall2_length _ _ _ HB) as HLp.
  assert (Hnv : forall l : list name, Forall good l -> Forall nonvar (map nn' l)).
  { intros l Hl. apply List.Forall_forall. intros a Ha. apply in_map_iff in Ha. destruct Ha as (a1 & <- & Ha1). apply good_nonvar. rewrite List.Forall_forall in Hl. auto. }
  unfold call_body. rewrite Eg, Hlen, Eg'. fold sub_all. rewrite Ee in *.
  destruct Hargs as [[Hl Ha]|(a0 & rest & -> & Hl & Hp0 & Ha)].
  - (* as many arguments as parameters *)
    assert (Hl' : length args = length (fn_params fd')) by lia.
    destruct Hargs' as [[_ Ha']|(a0' & rest' & -> & Hr' & _)]; [|cbn [length] in Hlen; lia].
    assert (R : aeq [] (nf' (sub_all (fn_params fd) args (fn_body fd))) (nf' (sub_all (fn_params fd') args' (fn_body fd')))).
    { rewrite (erase_sub_all _ args _ Hps (args_nonself teq _ _ _ _ _ Ha) Hnos), (erase_sub_all _ args' _ Hps' (args_nonself teq _ _ _ _ _ Ha') Hnos'), Ea.
      apply aeq_nf'. apply sub_all_A; auto; [rewrite map_length; exact Hl | now rewrite app_nil_r]. }
    rewrite Hl, <- HLp, !Nat.eqb_refl. destruct (fn_explicit fd); eauto.
  - (* one more: the provider is passed explicitly *)
    cbn [length] in *.
    destruct Hargs' as [[Hl' _]|(a0' & rest' & -> & Hr' & Hp0' & Ha')]; [lia|]. cbn [length map] in *.
    assert (Erest : map nn' rest' = map nn' rest) by congruence.
    inversion Hg as [|? ? _ Hgr]; subst.
    rewrite Hl, <- HLp. destruct (S (length (fn_params fd)) =? length (fn_params fd))%nat eqn:N1; [apply Nat.eqb_eq in N1; lia|].
    rewrite !Nat.eqb_refl.
    destruct (fn_explicit fd) as [ep|] eqn:Eep.
    + rewrite (prov_none _ _ Hp0), (prov_none _ _ Hp0'). destruct Hep as (Hepi & Hepc & Hepn'). destruct Hep' as (_ & _ & Hepn2).
      eexists. split; [reflexivity|].
      assert (Hnsn : forall x, x <> "" -> nsn x (new_self "")) by (intros x Hx _ E; cbn in E; congruence).
      assert (Hn1 : Forall (fun p => nos (ident p) (subst ep (new_self "") (fn_body fd))) (fn_params fd)).
      { rewrite List.Forall_forall in *. intros p Hp. apply nos_subst_var; auto. apply Hnsn, (Hps p Hp). }
      assert (Hn1' : Forall (fun p => nos (ident p) (subst ep (new_self "") (fn_body fd'))) (fn_params fd')).
      { rewrite List.Forall_forall in *. intros p Hp. apply nos_subst_var; auto. apply Hnsn, (Hps' p Hp). }
      rewrite (erase_sub_all _ rest _ Hps (args_nonself teq _ _ _ _ _ Ha) Hn1), (erase_sub_all _ rest' _ Hps' (args_nonself teq _ _ _ _ _ Ha') Hn1'), Erest.
      rewrite <- (proj1 (subst_C ep Hepi) (fn_body fd)), <- (proj1 (subst_C ep Hepi) (fn_body fd')).
      assert (Hs : aeq (params_env (fn_params fd) (fn_params fd')) (subst ep (new_self "") (nf' (fn_body fd))) (subst ep (new_self "") (nf' (fn_body fd')))).
      { apply aeq_subst_free0; auto using nonvar_new_self.
        - rewrite params_env_fst by auto. exact Hepn'.
        - rewrite params_env_snd by auto. exact Hepn2. }
      destruct (proj1 aeq_erased _ _ _ Hs) as [X1 X2]. rewrite X1, X2.
      apply aeq_nf'. apply sub_all_A; auto; [rewrite map_length; exact Hl | now rewrite app_nil_r].
    + cbn [tl]. eexists. split; [reflexivity|].
      rewrite (erase_sub_all _ rest _ Hps (args_nonself teq _ _ _ _ _ Ha) Hnos), (erase_sub_all _ rest' _ Hps' (args_nonself teq _ _ _ _ _ Ha') Hnos'), Erest.
      apply aeq_nf'. apply sub_all_A; auto; [rewrite map_length; exact Hl | now rewrite app_nil_r].
Qed.
End RelA.
