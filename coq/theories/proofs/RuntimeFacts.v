(* RuntimeFacts.v — basic facts about the runtime model (Runtime.v): every step is the application
   of a *move* (an optional process to remove, an optional channel write, and a local effect of one
   process) that is computed from the configuration by looking only at the moving processes and at
   the channel they act on.  Frame lemmas for `apply_effect`, `add_spawns`, `fresh_chan`; the
   footprint of a step; `out` only grows; namespace hygiene `ns_ok` and its preservation. *)
From stdpp Require Import gmap strings sorting.
Require Import Grits.Base Grits.ModeDefs Grits.Modes Grits.STypes Grits.Forms Grits.Subst Grits.TcDeps Grits.Expand.
Require Import Grits.Runtime Grits.RuntimeFootprint.

(* ------------------------------------------------------------------ moves *)
Record move : Type := Move {
  mv_kill : option pid;                 (* a process that ends in this step without an effect of its own *)
  mv_put : option (cid * chan_st);      (* a channel cell that is overwritten *)
  mv_self : pid;                        (* the process whose effect is applied *)
  mv_proc : proc;                       (* its state before the step *)
  mv_eff : effect
}.

Definition kill_proc (c : config) (k : option pid) : config :=
  match k with Some s => del_proc c s | None => c end.
Definition apply_put (c : config) (put : option (cid * chan_st)) : config :=
  match put with Some (k, st) => Cfg (procs c) (<[ k := st ]> (chans c)) (out c) | None => c end.
Definition apply_move (c : config) (mv : move) : config :=
  apply_effect (apply_put (kill_proc c (mv_kill mv)) (mv_put mv)) (mv_self mv) (mv_proc mv) (mv_eff mv).

Inductive mres : Type := MNot | MErr (who : pid) (e : rt_err) | MMove (mv : move).

Definition of_eres (kill : option pid) (put : option (cid * chan_st)) (self : pid) (p : proc) (r : eres) : mres :=
  match r with EOk e => MMove (Move kill put self p e) | EErr w => MErr self w end.

Definition move_of (md : exec_mode) (D : tenv) (F : list fundef) (c : config) (ch : choice) : mres :=
  match ch with
  | Run self =>
    match procs c !! self with
    | None => MNot
    | Some p =>
      match action_of md D p with
      | ADup => of_eres None None self p (dup_effect self p)
      | AInternal => of_eres None None self p (internal_effect md F self p)
      | ACtrl _ _ => MNot
      | AErr w => MErr self w
      | ANever => MNot
      | ASend k m =>
        match chans c !! k with
        | None => MErr self "send on a channel that does not exist"
        | Some st =>
          if ch_closed st then MErr self "send on closed channel"
          else match md, ch_buf st with
               | Async, None => MMove (Move None (Some (k, Chan (Some m) (ch_closed st))) self p (no_eff Finish))
               | _, _ => MNot
               end
        end
      | ARecv k =>
        match chans c !! k with
        | None => MErr self "receive on a channel that does not exist"
        | Some st =>
          match ch_buf st with
          | Some m => of_eres None (Some (k, Chan None (ch_closed st))) self p (on_message self p m)
          | None => if ch_closed st then of_eres None None self p (on_message self p zero_msg) else MNot
          end
        end
      end
    end
  | Rendezvous s r =>
    match md with
    | Async => MNot
    | _ =>
      if bool_decide (s = r) then MNot else
      match procs c !! s, procs c !! r with
      | Some ps, Some pr =>
        match action_of md D ps, action_of md D pr with
        | ASend k m, ARecv k' =>
          if bool_decide (k = k') then
            match chans c !! k with
            | Some st => if ch_closed st then MNot else of_eres (Some s) None r pr (on_message r pr m)
            | None => MNot
            end
          else MNot
        | _, _ => MNot
        end
      | _, _ => MNot
      end
    end
  | Control f t =>
    if negb (is_np md) || bool_decide (f = t) then MNot else
    match procs c !! f, procs c !! t with
    | Some pf, Some pt =>
      match action_of md D pf, self_chan pt with
      | ACtrl k provs, Some k' =>
        if bool_decide (k = k') && polls_control md D pt then
          MMove (Move (Some f) None t pt
                   (Eff (Continue (set_provs_body pt (provs ++ List.tl (pr_provs pt)) (pr_body0 pt))) [] []
                        (cids_of (firstn 1 (pr_provs pt))) []))
        else MNot
      | _, _ => MNot
      end
    | _, _ => MNot
    end
  end.

Definition sres_of (c : config) (r : mres) : sres :=
  match r with MNot => SNotEnabled | MErr w e => SError w e | MMove mv => SStep (apply_move c mv) end.

Lemma sres_of_eres c kill put self p r :
  sres_of c (of_eres kill put self p r) = eff_step (apply_put (kill_proc c kill) put) self p r.
Proof. destruct r; reflexivity. Qed.

Lemma step_move md D F c ch : step md D F c ch = sres_of c (move_of md D F c ch).
Proof.
  destruct ch as [self|s r|f t]; cbn [step move_of].
  - destruct (procs c !! self) as [p|]; [|reflexivity].
    destruct (action_of md D p) as [| |k m|k| |k pv|w]; try reflexivity; try apply eq_sym, sres_of_eres.
    + destruct (chans c !! k) as [[buf cl]|]; [|reflexivity]. cbn [ch_closed ch_buf].
      destruct cl; [reflexivity|]. destruct md; try reflexivity.
      destruct buf; reflexivity.
    + destruct (chans c !! k) as [[buf cl]|]; [|reflexivity]. cbn [ch_closed ch_buf].
      destruct buf as [m|]; [apply eq_sym, sres_of_eres|].
      destruct cl; [apply eq_sym, sres_of_eres|reflexivity].
  - destruct md; [reflexivity| |];
      (destruct (bool_decide (s = r)); [reflexivity|];
       destruct (procs c !! s) as [ps|]; [|reflexivity];
       destruct (procs c !! r) as [pr|]; [|reflexivity];
       destruct (action_of _ D ps) as [| |k m|k| |k pv|w]; try reflexivity;
       destruct (action_of _ D pr) as [| |k' m'|k'| |k' pv'|w']; try reflexivity;
       destruct (bool_decide (k = k')); [|reflexivity];
       destruct (chans c !! k) as [st|]; [|reflexivity];
       destruct (ch_closed st); [reflexivity|]; apply eq_sym, sres_of_eres).
  - destruct (negb (is_np md) || bool_decide (f = t)); [reflexivity|].
    destruct (procs c !! f) as [pf|]; [|reflexivity].
    destruct (procs c !! t) as [pt|]; [|reflexivity].
    destruct (action_of md D pf) as [| |k m|k| |k pv|w]; try reflexivity.
    destruct (self_chan pt) as [k'|]; [|reflexivity].
    destruct (bool_decide (k = k') && polls_control md D pt); reflexivity.
Qed.

(* ------------------------------------------------------------------ add_spawns *)
Definition mk_spawned (s : spawn) : proc := Proc (sp_provs s) (sp_body s) 0.
Definition spawned (self : pid) (next : nat) (ss : list spawn) : gmap pid proc := (add_spawns self next ss ∅).1.

Lemma add_spawns_fst self next ss m : (add_spawns self next ss m).1 = spawned self next ss ∪ m.
Proof.
  unfold spawned. revert next m. induction ss as [|s r IH]; intros next m; cbn [add_spawns].
  - cbn. by rewrite (left_id_L ∅ (∪)).
  - rewrite IH. rewrite (IH _ (<[_:=_]> ∅)). rewrite insert_empty, insert_union_singleton_l.
    by rewrite (assoc_L (∪)).
Qed.
Lemma add_spawns_snd self next ss m : (add_spawns self next ss m).2 = (next + length ss)%nat.
Proof. revert next m. induction ss as [|s r IH]; intros next m; cbn [add_spawns length]; [cbn; lia|rewrite IH; lia]. Qed.

Lemma spawned_cons self next s r :
  spawned self next (s :: r) = spawned self (S next) r ∪ {[ self ++ [next] := mk_spawned s ]}.
Proof. unfold spawned at 1. cbn [add_spawns]. rewrite add_spawns_fst, insert_empty. reflexivity. Qed.

Lemma spawned_lookup_Some self next ss k v :
  spawned self next ss !! k = Some v ->
  exists n, k = self ++ [n] /\ (next <= n < next + length ss)%nat /\ pr_next v = 0%nat.
Proof.
  revert next. induction ss as [|s r IH]; intros next.
  - unfold spawned. cbn. rewrite lookup_empty. discriminate.
  - rewrite spawned_cons. intros H. apply lookup_union_Some_raw in H as [H|[_ H]].
    + destruct (IH _ H) as (n & -> & Hn & Hv). exists n. cbn [length]. split; [done|]. split; [lia|done].
    + apply lookup_singleton_Some in H as [<- <-]. exists next. cbn [length]. split; [done|]. split; [lia|done].
Qed.
Lemma spawned_lookup_None self next ss k : (forall n, k ≠ self ++ [n]) -> spawned self next ss !! k = None.
Proof.
  intros H. destruct (spawned self next ss !! k) eqn:E; [|done].
  apply spawned_lookup_Some in E as (n & -> & _). by destruct (H n).
Qed.

(* ------------------------------------------------------------------ apply_effect, explicitly *)
Definition eff_base (p : proc) (e : effect) : nat :=
  match e_after e with Continue p' => pr_next p' | Finish => pr_next p end.
Definition eff_next0 (p : proc) (e : effect) : nat := (eff_base p e + length (e_newch e))%nat.
Definition eff_next1 (p : proc) (e : effect) : nat := (eff_next0 p e + length (e_spawn e))%nat.

Definition close_st (st : chan_st) : chan_st := Chan (ch_buf st) true.
Definition new_all (l : list cid) (m : gmap cid chan_st) : gmap cid chan_st :=
  foldr (fun ch m => <[ ch := empty_chan ]> m) m l.
Definition close_all (l : list cid) (m : gmap cid chan_st) : gmap cid chan_st :=
  foldr (fun ch m => match m !! ch with Some st => <[ ch := Chan (ch_buf st) true ]> m | None => m end) m l.

Definition procs_after (self : pid) (p : proc) (e : effect) (m : gmap pid proc) : gmap pid proc :=
  let pm := spawned self (eff_next0 p e) (e_spawn e) ∪ m in
  match e_after e with
  | Continue p' => <[ self := Proc (pr_provs p') (pr_body0 p') (eff_next1 p e) ]> pm
  | Finish => delete self pm
  end.

Definition new_out (self : pid) (e : effect) : list (pid * string) := map (fun l => (self, l)) (rev (e_out e)).

Lemma apply_effect_eq c self p e :
  apply_effect c self p e =
  Cfg (procs_after self p e (procs c)) (close_all (e_close e) (new_all (e_newch e) (chans c)))
      (new_out self e ++ out c).
Proof.
  unfold apply_effect, procs_after, eff_next1, eff_next0, eff_base.
  destruct (add_spawns _ _ _ _) as [pm n1] eqn:E.
  pose proof (add_spawns_fst self (match e_after e with Continue p' => pr_next p' | Finish => pr_next p end + length (e_newch e)) (e_spawn e) (procs c)) as H1.
  pose proof (add_spawns_snd self (match e_after e with Continue p' => pr_next p' | Finish => pr_next p end + length (e_newch e)) (e_spawn e) (procs c)) as H2.
  rewrite E in H1, H2. cbn in H1, H2. subst pm n1. reflexivity.
Qed.

Lemma procs_after_lookup_ne self p e m q :
  q ≠ self -> (forall n, q ≠ self ++ [n]) -> procs_after self p e m !! q = m !! q.
Proof.
  intros H1 H2. unfold procs_after.
  destruct (e_after e); [rewrite lookup_insert_ne by done | rewrite lookup_delete_ne by done];
    rewrite lookup_union_r by (by apply spawned_lookup_None); reflexivity.
Qed.

Lemma new_all_lookup l m k : new_all l m !! k = if decide (k ∈ l) then Some empty_chan else m !! k.
Proof.
  induction l as [|a l IH]; cbn [new_all foldr].
  - rewrite decide_False by set_solver. done.
  - fold (new_all l m). destruct (decide (k = a)) as [->|Hne].
    + rewrite lookup_insert, decide_True by set_solver. done.
    + rewrite lookup_insert_ne by done. rewrite IH. destruct (decide (k ∈ l)).
      * rewrite decide_True by set_solver. done.
      * rewrite decide_False by set_solver. done.
Qed.

Lemma close_all_lookup l m k : close_all l m !! k = if decide (k ∈ l) then close_st <$> m !! k else m !! k.
Proof.
  induction l as [|a l IH]; cbn [close_all foldr].
  - rewrite decide_False by set_solver. done.
  - fold (close_all l m).
    assert (Hstep : forall m' : gmap cid chan_st,
      (match m' !! a with Some st => <[ a := Chan (ch_buf st) true ]> m' | None => m' end) !! k =
      if decide (k = a) then close_st <$> m' !! a else m' !! k).
    { intros m'. destruct (decide (k = a)) as [->|Hne].
      - destruct (m' !! a) as [st|] eqn:E; [rewrite lookup_insert; done|]. rewrite E. done.
      - destruct (m' !! a); [rewrite lookup_insert_ne by done|]; done. }
    rewrite Hstep. destruct (decide (k = a)) as [->|Hne].
    + rewrite decide_True by set_solver. rewrite IH. destruct (decide (a ∈ l)); [|done].
      destruct (m !! a) as [[b cl]|]; done.
    + rewrite IH. destruct (decide (k ∈ l)).
      * rewrite decide_True by set_solver. done.
      * rewrite decide_False by set_solver. done.
Qed.

(* the channel table after a move, pointwise *)
Definition chan_upd (put : option (cid * chan_st)) (newch close : list cid) (k : cid) (x : option chan_st) : option chan_st :=
  let x1 := match put with Some (k', st) => if decide (k = k') then Some st else x | None => x end in
  let x2 := if decide (k ∈ newch) then Some empty_chan else x1 in
  if decide (k ∈ close) then close_st <$> x2 else x2.

Definition put_chan (put : option (cid * chan_st)) : list cid := match put with Some (k, _) => [k] | None => [] end.
Definition writes (mv : move) : list cid := put_chan (mv_put mv) ++ e_newch (mv_eff mv) ++ e_close (mv_eff mv).

Lemma procs_apply_move c mv :
  procs (apply_move c mv) = procs_after (mv_self mv) (mv_proc mv) (mv_eff mv) (procs (kill_proc c (mv_kill mv))).
Proof. unfold apply_move. rewrite apply_effect_eq. cbn. destruct (mv_put mv) as [[??]|]; reflexivity. Qed.

Lemma chans_apply_move c mv k :
  chans (apply_move c mv) !! k =
  chan_upd (mv_put mv) (e_newch (mv_eff mv)) (e_close (mv_eff mv)) k (chans c !! k).
Proof.
  unfold apply_move. rewrite apply_effect_eq. cbn [chans]. rewrite close_all_lookup, new_all_lookup.
  unfold chan_upd. 
  assert (chans (apply_put (kill_proc c (mv_kill mv)) (mv_put mv)) !! k =
          match mv_put mv with Some (k', st) => if decide (k = k') then Some st else chans c !! k | None => chans c !! k end) as ->.
  { destruct (mv_put mv) as [[k' st]|]; cbn; destruct (mv_kill mv); cbn; try done;
      (destruct (decide (k = k')) as [->|]; [by rewrite lookup_insert|by rewrite lookup_insert_ne]). }
  reflexivity.
Qed.

Lemma out_apply_move c mv : out (apply_move c mv) = new_out (mv_self mv) (mv_eff mv) ++ out c.
Proof. unfold apply_move. rewrite apply_effect_eq. cbn. destruct (mv_put mv) as [[??]|], (mv_kill mv); reflexivity. Qed.

Lemma chan_upd_id put newch close k x : k ∉ put_chan put ++ newch ++ close -> chan_upd put newch close k x = x.
Proof.
  intros H. unfold chan_upd. rewrite !not_elem_of_app in H. destruct H as (H1 & H2 & H3).
  rewrite (decide_False _ _ H3), (decide_False _ _ H2).
  destruct put as [[k' st]|]; [|done]. cbn in H1. rewrite decide_False by set_solver. done.
Qed.

Lemma chans_apply_move_ne c mv k : k ∉ writes mv -> chans (apply_move c mv) !! k = chans c !! k.
Proof. intros H. rewrite chans_apply_move. by apply chan_upd_id. Qed.

(* channels are never removed *)
Lemma chan_upd_is_Some put newch close k x : is_Some x -> is_Some (chan_upd put newch close k x).
Proof.
  intros [st ->]. unfold chan_upd.
  destruct put as [[k' st']|]; repeat (case_decide; cbn); eauto.
Qed.
Lemma chans_apply_move_mono c mv k : is_Some (chans c !! k) -> is_Some (chans (apply_move c mv) !! k).
Proof. rewrite chans_apply_move. apply chan_upd_is_Some. Qed.

(* `out` only grows: the old output is a suffix of the new one *)
Lemma step_out_suffix md D F c ch c' : step md D F c ch = SStep c' -> out c `suffix_of` out c'.
Proof.
  rewrite step_move. destruct (move_of md D F c ch) as [| |mv]; try discriminate.
  intros [= <-]. rewrite out_apply_move. by eexists.
Qed.

(* ------------------------------------------------------------------ effects are well-formed *)
Definition fresh_in (self : pid) (lo hi : nat) (k : cid) : Prop :=
  exists n, k = self ++ [n] /\ (lo <= n < hi)%nat.

Lemma fresh_in_mono self lo hi lo' hi' k :
  fresh_in self lo hi k -> (lo' <= lo)%nat -> (hi <= hi')%nat -> fresh_in self lo' hi' k.
Proof. intros (n & -> & H) ??. exists n. split; [done|lia]. Qed.

Lemma droppable_fwds_spec self p cls ss cs p2 :
  droppable_fwds self p cls = (ss, cs, p2) ->
  (pr_next p <= pr_next p2)%nat /\ forall k, k ∈ cs -> fresh_in self (pr_next p) (pr_next p2) k.
Proof.
  revert p ss cs p2. induction cls as [|cl r IH]; intros p ss cs p2; cbn [droppable_fwds].
  - intros [= <- <- <-]. split; [lia|]. intros k Hk. by apply elem_of_nil in Hk.
  - unfold droppable_fwd, fresh_chan. cbn [chan].
    destruct (droppable_fwds self _ r) as [[ss' cs'] p2'] eqn:E. intros [= <- <- <-].
    apply IH in E as [Hle Hin]. cbn [pr_next] in *. split; [lia|].
    intros k Hk. apply elem_of_cons in Hk as [->|Hk].
    + exists (pr_next p). split; [done|lia].
    + eapply fresh_in_mono; [by apply Hin|lia|lia].
Qed.

Lemma fresh_row_spec self p fn n row p2 :
  fresh_row self p fn n = (row, p2) ->
  (pr_next p <= pr_next p2)%nat /\ forall k, k ∈ cids_of row -> fresh_in self (pr_next p) (pr_next p2) k.
Proof.
  revert p row p2. induction n as [|n IH]; intros p row p2; cbn [fresh_row].
  - intros [= <- <-]. split; [lia|]. intros k Hk. by apply elem_of_nil in Hk.
  - unfold fresh_chan. destruct (fresh_row self _ fn n) as [cs p2'] eqn:E. intros [= <- <-].
    apply IH in E as [Hle Hin]. cbn [pr_next] in *. split; [lia|].
    intros k Hk. cbn in Hk. apply elem_of_cons in Hk as [->|Hk].
    + exists (pr_next p). split; [done|lia].
    + eapply fresh_in_mono; [by apply Hin|lia|lia].
Qed.

Lemma fresh_matrix_spec self p fns n rows p2 :
  fresh_matrix self p fns n = (rows, p2) ->
  (pr_next p <= pr_next p2)%nat /\ forall k, k ∈ flat_map cids_of rows -> fresh_in self (pr_next p) (pr_next p2) k.
Proof.
  revert p rows p2. induction fns as [|fn r IH]; intros p rows p2; cbn [fresh_matrix].
  - intros [= <- <-]. split; [lia|]. intros k Hk. by apply elem_of_nil in Hk.
  - destruct (fresh_row self p fn n) as [row p1] eqn:E1.
    destruct (fresh_matrix self p1 r n) as [rows' p2'] eqn:E2. intros [= <- <-].
    apply fresh_row_spec in E1 as [Hle1 Hin1]. apply IH in E2 as [Hle2 Hin2]. split; [lia|].
    intros k Hk. cbn [flat_map] in Hk. apply elem_of_app in Hk as [Hk|Hk].
    + eapply fresh_in_mono; [by apply Hin1|lia|lia].
    + eapply fresh_in_mono; [by apply Hin2|lia|lia].
Qed.

Record eff_wf (self : pid) (p : proc) (e : effect) : Prop := {
  ewf_newch : forall k, k ∈ e_newch e -> exists n, k = self ++ [n] /\ (pr_next p <= n)%nat /\
                         forall p', e_after e = Continue p' -> (n < pr_next p')%nat;
  ewf_next : forall p', e_after e = Continue p' -> (pr_next p <= pr_next p')%nat;
  ewf_close : e_close e ⊆ cids_of (pr_provs p)
}.

Lemma eff_wf_no_eff self p a :
  (forall p', a = Continue p' -> (pr_next p <= pr_next p')%nat) -> eff_wf self p (no_eff a).
Proof. intros H. split; cbn; [set_solver|done|set_solver]. Qed.

Lemma eff_wf_finish self p ss cs N :
  (forall k, k ∈ cs -> fresh_in self (pr_next p) N k) -> eff_wf self p (Eff Finish ss cs [] []).
Proof.
  intros H. split; cbn; [|done|set_solver].
  intros k Hk. destruct (H k Hk) as (n & -> & Hn). exists n. split; [done|]. split; [lia|done].
Qed.

Lemma dup_effect_wf self p e : dup_effect self p = EOk e -> eff_wf self p e.
Proof.
  unfold dup_effect. destruct (length (pr_provs p) =? 1)%nat; [discriminate|].
  destruct (fresh_matrix _ _ _ _) as [rows p2] eqn:E. intros [= <-].
  apply fresh_matrix_spec in E as [_ Hin]. by eapply eff_wf_finish.
Qed.

Lemma internal_effect_wf md F self p e : internal_effect md F self p = EOk e -> eff_wf self p e.
Proof.
  unfold internal_effect. destruct (pr_body0 p) eqn:Eb; try discriminate.
  - (* FNew *) unfold fresh_chan. intros [= <-]. split; cbn; [|intros ? [= <-]; cbn; lia|set_solver].
    intros k Hk. apply elem_of_list_singleton in Hk as ->. exists (pr_next p).
    split; [done|]. split; [lia|]. intros ? [= <-]. cbn. lia.
  - (* FSplit *) unfold fresh_chan. cbn [pr_next]. intros [= <-]. split; cbn; [|intros ? [= <-]; cbn; lia|set_solver].
    intros k Hk. apply elem_of_cons in Hk as [->|Hk]; [|apply elem_of_list_singleton in Hk as ->].
    + exists (pr_next p). split; [done|]. split; [lia|]. intros ? [= <-]. cbn. lia.
    + exists (S (pr_next p)). split; [done|]. split; [lia|]. intros ? [= <-]. cbn. lia.
  - (* FCall *) destruct (call_body F f args); [|discriminate]. intros [= <-].
    apply eff_wf_no_eff. intros ? [= <-]. cbn. lia.
  - (* FDrop *) destruct (is_np md).
    + intros [= <-]. apply eff_wf_no_eff. intros ? [= <-]. cbn. lia.
    + unfold droppable_fwd, fresh_chan. cbn [chan]. intros [= <-].
      split; cbn; [|intros ? [= <-]; cbn; lia|set_solver].
      intros k Hk. apply elem_of_list_singleton in Hk as ->. exists (pr_next p).
      split; [done|]. split; [lia|]. intros ? [= <-]. cbn. lia.
  - (* FPrint *) intros [= <-]. split; cbn; [set_solver|intros ? [= <-]; cbn; lia|set_solver].
Qed.

Ltac on_msg_tac :=
  repeat match goal with
         | H : EOk _ = EOk _ |- _ => injection H as <-
         | H : EErr _ = EOk _ |- _ => discriminate H
         | H : context [let '(_, _) := ?x in _] |- _ => destruct x as [[??]?] eqn:?
         | H : context [match ?x with _ => _ end] |- _ => destruct x eqn:?
         | H : context [if ?x then _ else _] |- _ => destruct x eqn:?
         end.

Lemma on_message_wf self p m e :
  on_message self p m = EOk e -> eff_wf self p e /\ e_close e = closes_of p m.
Proof.
  unfold on_message, closes_of, is_fwd_body.
  destruct (rule_eqb (m_rule m) RFWD && negb _) eqn:E1.
  { intros [= <-]. split; [|done]. split; cbn; [set_solver|intros ? [= <-]; cbn; lia|set_solver]. }
  destruct (rule_eqb (m_rule m) RGC && negb _) eqn:E2.
  { destruct (droppable_fwds _ _ _) as [[ss cs] p2] eqn:Ed. intros [= <-]. split; [|done].
    apply droppable_fwds_spec in Ed as [_ Hin]. by eapply eff_wf_finish. }
  intros H.
  assert (Hgoal : (exists a, e = no_eff a /\ forall p', a = Continue p' -> (pr_next p <= pr_next p')%nat) \/
                  (exists ss cs N, e = Eff Finish ss cs [] [] /\ forall k, k ∈ cs -> fresh_in self (pr_next p) N k)).
  { revert H. destruct (pr_body0 p) eqn:Eb; intros H; try discriminate H.
    all: try (left; on_msg_tac; eexists; (split; [reflexivity|]); intros ? [= <-]; unfold set_body, set_provs_body; cbn; lia).
    destruct droppable.
    - right. destruct (droppable_fwds _ _ _) as [[ss cs] p2] eqn:Ed. injection H as <-.
      apply droppable_fwds_spec in Ed as [_ Hin]. eauto.
    - left; on_msg_tac; eexists; (split; [reflexivity|]); intros ? [= <-]; unfold set_body, set_provs_body; cbn; lia. }
  destruct Hgoal as [(a & -> & Ha)|(ss & cs & N & -> & Hin)].
  - split; [by apply eff_wf_no_eff|done].
  - split; [by eapply eff_wf_finish|done].
Qed.

Lemma dup_effect_close self p e : dup_effect self p = EOk e -> e_close e = [].
Proof.
  unfold dup_effect. destruct (length (pr_provs p) =? 1)%nat; [discriminate|].
  destruct (fresh_matrix _ _ _ _) as [rows p2]. by intros [= <-].
Qed.
Lemma internal_effect_close md F self p e : internal_effect md F self p = EOk e -> e_close e = [].
Proof.
  unfold internal_effect, droppable_fwd, fresh_chan.
  destruct (pr_body0 p); try discriminate; try (by intros [= <-]).
  - destruct (call_body F f args); [|discriminate]. by intros [= <-].
  - destruct (is_np md); by intros [= <-].
Qed.

(* a choice depends on the configuration only through its movers and the cells it reads *)
Lemma move_of_ext md D F c c' ch :
  (forall p, p ∈ movers ch -> procs c' !! p = procs c !! p) ->
  (forall k, k ∈ reads md D c ch -> chans c' !! k = chans c !! k) ->
  move_of md D F c' ch = move_of md D F c ch.
Proof.
  intros Hp Hc. destruct ch as [self|s r|f t]; cbn [move_of movers reads] in *.
  - rewrite Hp by set_solver. destruct (procs c !! self) as [p|]; [|done].
    destruct (action_of md D p) as [| |k m|k| |k pv|w]; try done; cbn [act_chan] in Hc;
      rewrite Hc by set_solver; done.
  - rewrite !Hp by set_solver. destruct md; [done| |];
      (destruct (bool_decide (s = r)); [done|];
       destruct (procs c !! s) as [ps|]; [|done];
       destruct (procs c !! r) as [pr|]; [|done];
       destruct (action_of _ D ps) as [| |k m|k| |k pv|w]; try done;
       destruct (action_of _ D pr) as [| |k' m'|k'| |k' pv'|w']; try done;
       cbn [act_chan] in Hc; rewrite Hc by set_solver; done).
  - rewrite !Hp by set_solver. done.
Qed.

Lemma reads_ext md D c c' ch :
  (forall p, p ∈ movers ch -> procs c' !! p = procs c !! p) -> reads md D c' ch = reads md D c ch.
Proof. intros Hp. destruct ch; cbn [reads movers] in *; try rewrite Hp by set_solver; done. Qed.

Lemma closes_ext md D c c' ch :
  (forall p, p ∈ movers ch -> procs c' !! p = procs c !! p) ->
  (forall k, k ∈ reads md D c ch -> chans c' !! k = chans c !! k) ->
  closes md D c' ch = closes md D c ch.
Proof.
  intros Hp Hc. destruct ch as [self|s r|f t]; cbn [closes movers reads] in *.
  - rewrite Hp by set_solver. destruct (procs c !! self) as [p|]; [|done].
    destruct (action_of md D p) as [| |k m|k| |k pv|w]; try done. cbn [act_chan] in Hc.
    rewrite Hc by set_solver. done.
  - rewrite !Hp by set_solver. done.
  - rewrite !Hp by set_solver. done.
Qed.

(* ------------------------------------------------------------------ the move of an enabled choice *)
Record move_wf (md : exec_mode) (D : tenv) (c : config) (ch : choice) (mv : move) : Prop := {
  mwf_self : procs c !! mv_self mv = Some (mv_proc mv);
  mwf_kill : forall s, mv_kill mv = Some s -> s ≠ mv_self mv /\ is_Some (procs c !! s);
  mwf_movers : forall q, q ∈ movers ch <-> q = mv_self mv \/ mv_kill mv = Some q;
  mwf_put : forall k, k ∈ put_chan (mv_put mv) -> k ∈ reads md D c ch;
  mwf_reads : forall k, k ∈ reads md D c ch -> is_Some (chans c !! k);
  mwf_eff : eff_wf (mv_self mv) (mv_proc mv) (mv_eff mv);
  mwf_close : e_close (mv_eff mv) = closes md D c ch
}.

Lemma move_of_wf md D F c ch mv : move_of md D F c ch = MMove mv -> move_wf md D c ch mv.
Proof.
  destruct ch as [self|s r|f t]; cbn [move_of].
  - destruct (procs c !! self) as [p|] eqn:Ep; [|discriminate].
    destruct (action_of md D p) as [| |k m|k| |k pv|w] eqn:Ea; try discriminate.
    + destruct (dup_effect self p) as [e|] eqn:Ee; [|discriminate]. intros [= <-].
      split; cbn [mv_self mv_kill mv_put mv_proc mv_eff movers reads closes put_chan]; rewrite ?Ep, ?Ea; cbn [act_chan];
        try done; try set_solver; eauto using dup_effect_wf, dup_effect_close.
    + destruct (internal_effect md F self p) as [e|] eqn:Ee; [|discriminate]. intros [= <-].
      split; cbn [mv_self mv_kill mv_put mv_proc mv_eff movers reads closes put_chan]; rewrite ?Ep, ?Ea; cbn [act_chan];
        try done; try set_solver; eauto using internal_effect_wf, internal_effect_close.
    + destruct (chans c !! k) as [[buf cl]|] eqn:Ek; [|discriminate]. cbn [ch_closed ch_buf].
      destruct cl; [discriminate|]. destruct md; try discriminate. destruct buf; [discriminate|].
      intros [= <-].
      split; cbn [mv_self mv_kill mv_put mv_proc mv_eff movers reads closes put_chan]; rewrite ?Ep, ?Ea; cbn [act_chan];
        try done; try set_solver.
      * intros k' Hk'. apply elem_of_list_singleton in Hk' as ->. by rewrite Ek.
      * apply eff_wf_no_eff. discriminate.
    + destruct (chans c !! k) as [[buf cl]|] eqn:Ek; [|discriminate]. cbn [ch_closed ch_buf].
      destruct buf as [m|].
      * destruct (on_message self p m) as [e|] eqn:Ee; [|discriminate]. intros [= <-].
        apply on_message_wf in Ee as [Hwf Hcl].
        split; cbn [mv_self mv_kill mv_put mv_proc mv_eff movers reads closes put_chan]; rewrite ?Ep, ?Ea, ?Ek; cbn [act_chan ch_buf];
          try done; try set_solver.
        intros k' Hk'. apply elem_of_list_singleton in Hk' as ->. by rewrite Ek.
      * destruct cl; [|discriminate].
        destruct (on_message self p zero_msg) as [e|] eqn:Ee; [|discriminate]. intros [= <-].
        apply on_message_wf in Ee as [Hwf Hcl].
        split; cbn [mv_self mv_kill mv_put mv_proc mv_eff movers reads closes put_chan]; rewrite ?Ep, ?Ea, ?Ek; cbn [act_chan ch_buf];
          try done; try set_solver.
        intros k' Hk'. apply elem_of_list_singleton in Hk' as ->. by rewrite Ek.
  - destruct md; [discriminate| |];
      (destruct (bool_decide (s = r)) eqn:Esr; [discriminate|]; apply bool_decide_eq_false in Esr;
       destruct (procs c !! s) as [ps|] eqn:Es; [|discriminate];
       destruct (procs c !! r) as [pr|] eqn:Er; [|discriminate];
       destruct (action_of _ D ps) as [| |k m|k| |k pv|w] eqn:Eas; try discriminate;
       destruct (action_of _ D pr) as [| |k' m'|k'| |k' pv'|w'] eqn:Ear; try discriminate;
       destruct (bool_decide (k = k')) eqn:Ekk; [|discriminate]; apply bool_decide_eq_true in Ekk; subst k';
       destruct (chans c !! k) as [st|] eqn:Ek; [|discriminate];
       destruct (ch_closed st); [discriminate|];
       destruct (on_message r pr m) as [e|] eqn:Ee; [|discriminate]; intros [= <-];
       apply on_message_wf in Ee as [Hwf Hcl];
       split; cbn [mv_self mv_kill mv_put mv_proc mv_eff movers reads closes put_chan]; rewrite ?Es, ?Er, ?Eas; cbn [act_chan];
         try done; try set_solver;
       [ intros s' [= <-]; split; [done|by rewrite Es]
       | intros k' Hk'; apply elem_of_list_singleton in Hk' as ->; by rewrite Ek ]).
  - destruct (negb (is_np md) || bool_decide (f = t)) eqn:E1; [discriminate|].
    apply orb_false_iff in E1 as [_ Eft]. apply bool_decide_eq_false in Eft.
    destruct (procs c !! f) as [pf|] eqn:Ef; [|discriminate].
    destruct (procs c !! t) as [pt|] eqn:Et; [|discriminate].
    destruct (action_of md D pf) as [| |k m|k| |k pv|w]; try discriminate.
    destruct (self_chan pt) as [k'|]; [|discriminate].
    destruct (bool_decide (k = k') && polls_control md D pt); [|discriminate]. intros [= <-].
    split; cbn [mv_self mv_kill mv_put mv_proc mv_eff movers reads closes put_chan]; rewrite ?Ef, ?Et;
      try done; try set_solver.
    + intros s' [= <-]. split; [done|by rewrite Ef].
    + split; cbn [e_newch e_after e_close]; [set_solver|intros ? [= <-]; cbn; lia|].
      intros x Hx. destruct (pr_provs pt) as [|n l]; cbn in Hx |- *; [done|].
      rewrite app_nil_r in Hx. apply elem_of_app. by left.
Qed.

(* ------------------------------------------------------------------ frame for the process table *)
Lemma procs_apply_move_ne c mv q :
  q ≠ mv_self mv -> mv_kill mv ≠ Some q -> (forall n, q ≠ mv_self mv ++ [n]) ->
  procs (apply_move c mv) !! q = procs c !! q.
Proof.
  intros H1 H2 H3. rewrite procs_apply_move, procs_after_lookup_ne by done.
  destruct (mv_kill mv) as [s|]; cbn; [|done]. rewrite lookup_delete_ne by congruence. done.
Qed.

Lemma procs_apply_move_Some c mv r rr :
  procs (apply_move c mv) !! r = Some rr ->
  (r = mv_self mv /\ (exists p', e_after (mv_eff mv) = Continue p') /\ pr_next rr = eff_next1 (mv_proc mv) (mv_eff mv)) \/
  (exists m, r = mv_self mv ++ [m] /\ (eff_next0 (mv_proc mv) (mv_eff mv) <= m < eff_next1 (mv_proc mv) (mv_eff mv))%nat /\ pr_next rr = 0%nat) \/
  (r ≠ mv_self mv /\ mv_kill mv ≠ Some r /\ procs c !! r = Some rr).
Proof.
  rewrite procs_apply_move. unfold procs_after. intros H.
  assert (Hu : r ≠ mv_self mv ->
    (spawned (mv_self mv) (eff_next0 (mv_proc mv) (mv_eff mv)) (e_spawn (mv_eff mv)) ∪ procs (kill_proc c (mv_kill mv))) !! r = Some rr ->
    (exists m, r = mv_self mv ++ [m] /\ (eff_next0 (mv_proc mv) (mv_eff mv) <= m < eff_next1 (mv_proc mv) (mv_eff mv))%nat /\ pr_next rr = 0%nat) \/
    (r ≠ mv_self mv /\ mv_kill mv ≠ Some r /\ procs c !! r = Some rr)).
  { intros Hne Hl. apply lookup_union_Some_raw in Hl as [Hl|[_ Hl]].
    - left. apply spawned_lookup_Some in Hl as (m & -> & Hm & Hz). exists m. unfold eff_next1. auto.
    - right. split; [done|]. destruct (mv_kill mv) as [s|]; cbn in Hl.
      + apply lookup_delete_Some in Hl as [Hs Hl]. split; [congruence|done].
      + done. }
  destruct (e_after (mv_eff mv)) as [p'|] eqn:Ea.
  - apply lookup_insert_Some in H as [[<- <-]|[Hne H]]; [left; cbn; eauto|right; auto].
  - apply lookup_delete_Some in H as [Hne H]. right; auto.
Qed.

Lemma chans_apply_move_Some c mv k :
  (forall k', k' ∈ put_chan (mv_put mv) -> is_Some (chans c !! k')) ->
  is_Some (chans (apply_move c mv) !! k) -> k ∈ e_newch (mv_eff mv) \/ is_Some (chans c !! k).
Proof.
  intros Hput. rewrite chans_apply_move. unfold chan_upd.
  destruct (decide (k ∈ e_newch (mv_eff mv))); [auto|]. intros H. right.
  assert (H' : is_Some (match mv_put mv with Some (k', st) => if decide (k = k') then Some st else chans c !! k | None => chans c !! k end)).
  { destruct (decide (k ∈ e_close (mv_eff mv))); [|done]. by apply fmap_is_Some in H. }
  destruct (mv_put mv) as [[k' st]|]; [|done].
  destruct (decide (k = k')) as [->|]; [|done]. apply Hput. cbn. set_solver.
Qed.

(* ------------------------------------------------------------------ namespace hygiene *)
(* no identifier in use lies in the part of p's namespace that p has not handed out yet *)
Definition older (p : pid) (N : nat) (k : list nat) : Prop := forall n rest, k = p ++ n :: rest -> (n < N)%nat.

Definition ns_ok (c : config) : Prop :=
  forall p pp, procs c !! p = Some pp ->
    (forall q, is_Some (procs c !! q) -> older p (pr_next pp) q) /\
    (forall k, is_Some (chans c !! k) -> older p (pr_next pp) k).

Lemma older_mono p N N' k : older p N k -> (N <= N')%nat -> older p N' k.
Proof. intros H ? n rest E. specialize (H n rest E). lia. Qed.
Lemma older_self p N : older p N p.
Proof. intros n rest E. apply (f_equal length) in E. rewrite app_length in E. cbn in E. lia. Qed.
Lemma older_self_snoc p N m : (m < N)%nat -> older p N (p ++ [m]).
Proof. intros ? n rest E. apply app_inv_head in E. injection E as -> _. done. Qed.
Lemma snoc_eq_app_cons {A} (a r : list A) m n rest :
  a ++ [m] = r ++ n :: rest -> (rest = [] /\ a = r /\ m = n) \/ exists rest', rest = rest' ++ [m] /\ a = r ++ n :: rest'.
Proof.
  destruct rest as [|x rest0 _] using rev_ind.
  - intros E. left. apply app_inj_tail in E as [-> ->]. auto.
  - intros E. right. exists rest0. rewrite app_comm_cons, app_assoc in E. apply app_inj_tail in E as [-> ->]. auto.
Qed.
Lemma older_snoc r N a m : r ≠ a -> older r N a -> older r N (a ++ [m]).
Proof.
  intros Hne H n rest E. apply snoc_eq_app_cons in E as [(_ & -> & _)|(rest' & -> & E)]; [done|]. by eapply H.
Qed.
Lemma older_child_parent a m N : older (a ++ [m]) N a.
Proof. intros n rest E. apply (f_equal length) in E. rewrite !app_length in E. cbn in E. lia. Qed.
Lemma older_child_sibling a m m' N : older (a ++ [m]) N (a ++ [m']).
Proof. intros n rest E. rewrite <- app_assoc in E. apply app_inv_head in E. cbn in E. by injection E. Qed.
Lemma older_child_old a M m x : older a M x -> (M <= m)%nat -> older (a ++ [m]) 0 x.
Proof. intros H Hle n rest E. rewrite <- app_assoc in E. cbn in E. specialize (H _ _ E). lia. Qed.

Lemma eff_base_ge self p e : eff_wf self p e -> (pr_next p <= eff_base p e)%nat.
Proof. intros Hwf. unfold eff_base. destruct (e_after e) eqn:E; [by apply (ewf_next _ _ _ Hwf)|lia]. Qed.

Lemma ns_ok_apply_move md D c ch mv : ns_ok c -> move_wf md D c ch mv -> ns_ok (apply_move c mv).
Proof.
  intros Hns Hwf.
  pose proof (mwf_self _ _ _ _ _ Hwf) as Hself. pose proof (mwf_eff _ _ _ _ _ Hwf) as Hewf.
  pose proof (eff_base_ge _ _ _ Hewf) as Hbase.
  destruct (Hns _ _ Hself) as [Hsp Hsc].
  set (self := mv_self mv) in *. set (pp := mv_proc mv) in *. set (e := mv_eff mv) in *.
  assert (Hputs : forall k', k' ∈ put_chan (mv_put mv) -> is_Some (chans c !! k')).
  { intros k' Hk'. apply (mwf_reads _ _ _ _ _ Hwf), (mwf_put _ _ _ _ _ Hwf), Hk'. }
  (* every identifier in use after the move, seen from an arbitrary (r, N) *)
  assert (Hall : forall r N,
     older r N self -> (forall m, (eff_next0 pp e <= m < eff_next1 pp e)%nat -> older r N (self ++ [m])) ->
     (forall k, k ∈ e_newch e -> older r N k) ->
     (forall q, is_Some (procs c !! q) -> older r N q) -> (forall k, is_Some (chans c !! k) -> older r N k) ->
     (forall q, is_Some (procs (apply_move c mv) !! q) -> older r N q) /\
     (forall k, is_Some (chans (apply_move c mv) !! k) -> older r N k)).
  { intros r N H1 H2 H3 H4 H5. split.
    - intros q [qq Hq]. apply procs_apply_move_Some in Hq as [(-> & _)|[(m & -> & Hm & _)|(_ & _ & Hq)]]; eauto.
    - intros k Hk. apply chans_apply_move_Some in Hk as [Hk|Hk]; eauto. }
  intros r rr Hr. apply procs_apply_move_Some in Hr as [(-> & (p' & Ea) & HN)|[(m & -> & Hm & HN)|(Hne & _ & Hr)]].
  - (* the acting process itself *)
    rewrite HN. apply Hall; subst self pp e.
    + apply older_self.
    + intros m Hm. apply older_self_snoc. lia.
    + intros k Hk. destruct (ewf_newch _ _ _ Hewf k Hk) as (n & -> & _ & Hn). specialize (Hn _ Ea).
      apply older_self_snoc. unfold eff_next1, eff_next0, eff_base. rewrite Ea. lia.
    + intros q Hq. eapply older_mono; [by apply Hsp|]. unfold eff_next1, eff_next0. lia.
    + intros k Hk. eapply older_mono; [by apply Hsc|]. unfold eff_next1, eff_next0. lia.
  - (* a spawned process *)
    rewrite HN. apply Hall; subst self pp e.
    + apply older_child_parent.
    + intros m' _. apply older_child_sibling.
    + intros k Hk. destruct (ewf_newch _ _ _ Hewf k Hk) as (n & -> & _). apply older_child_sibling.
    + intros q Hq. eapply older_child_old; [by apply Hsp|]. unfold eff_next0 in Hm. lia.
    + intros k Hk. eapply older_child_old; [by apply Hsc|]. unfold eff_next0 in Hm. lia.
  - (* a bystander *)
    destruct (Hns _ _ Hr) as [Hrp Hrc]. apply Hall; subst self pp e.
    + apply Hrp. by eexists.
    + intros m _. apply older_snoc; [done|]. apply Hrp. by eexists.
    + intros k Hk. destruct (ewf_newch _ _ _ Hewf k Hk) as (n & -> & _). apply older_snoc; [done|].
      apply Hrp. by eexists.
    + done.
    + done.
Qed.

Lemma ns_ok_step md D F c ch c' : ns_ok c -> step md D F c ch = SStep c' -> ns_ok c'.
Proof.
  intros Hns. rewrite step_move. destruct (move_of md D F c ch) as [| |mv] eqn:E; try discriminate.
  intros [= <-]. eapply ns_ok_apply_move; [done|]. by eapply move_of_wf.
Qed.

(* ------------------------------------------------------------------ the initial configuration *)
Lemma fold_left_inv {A B} (P : A -> Prop) (f : A -> B -> A) (l : list B) (a : A) :
  P a -> (forall a x, x ∈ l -> P a -> P (f a x)) -> P (fold_left f l a).
Proof.
  revert a. induction l as [|x l IH]; intros a Ha Hf; cbn; [done|].
  apply IH; [apply Hf; [left|done]|]. intros a' y Hy. apply Hf. by right.
Qed.

Lemma combine_lookup {A B} (l : list A) (k : list B) i a b :
  combine l k !! i = Some (a, b) -> l !! i = Some a /\ k !! i = Some b.
Proof.
  revert k i. induction l as [|x l IH]; intros [|y k] [|i]; cbn; try discriminate.
  - by intros [= -> ->].
  - apply IH.
Qed.

Lemma init_provs_elem i provs old new :
  (old, new) ∈ init_provs i provs -> exists j, (j < length provs)%nat /\ chan new = Some [i; j].
Proof.
  unfold init_provs. intros H. apply elem_of_lookup_imap in H as (j & o & [= -> ->] & Hj).
  exists j. split; [by eapply lookup_lt_Some|done].
Qed.

Lemma init_config_procs p q pp :
  procs (init_config p) !! q = Some pp ->
  exists i pr, q = [i] /\ p_procs p !! i = Some pr /\ pr_next pp = length (pr_providers pr).
Proof.
  unfold init_config. cbn [procs]. revert q pp.
  match goal with |- forall q pp, fold_left ?f ?l ?a !! q = Some pp -> _ =>
    apply (fold_left_inv (fun m : gmap pid proc => forall q pp, m !! q = Some pp ->
             exists i pr, q = [i] /\ p_procs p !! i = Some pr /\ pr_next pp = length (pr_providers pr)) f l a) end.
  - intros q pp. rewrite lookup_empty. discriminate.
  - intros m x Hx IH q pp. apply elem_of_lookup_imap in Hx as (i & [pr ini] & -> & Hi).
    apply combine_lookup in Hi as [Hpr Hini]. rewrite list_lookup_imap, Hpr in Hini. cbn in Hini.
    injection Hini as <-. intros H. apply lookup_insert_Some in H as [[<- <-]|[_ H]]; [|by apply IH].
    exists i, pr. split; [done|]. split; [done|]. cbn. unfold init_provs. by rewrite imap_length.
Qed.

Lemma init_config_chans p k :
  is_Some (chans (init_config p) !! k) ->
  exists i j pr, k = [i; j] /\ p_procs p !! i = Some pr /\ (j < length (pr_providers pr))%nat.
Proof.
  unfold init_config. cbn [chans]. revert k.
  match goal with |- forall k, is_Some (fold_left ?f ?l ?a !! k) -> _ =>
    apply (fold_left_inv (fun m : gmap cid chan_st => forall k, is_Some (m !! k) ->
             exists i j pr, k = [i; j] /\ p_procs p !! i = Some pr /\ (j < length (pr_providers pr))%nat) f l a) end.
  - intros k. rewrite lookup_empty. by intros [? ?].
  - intros m [old new] Hx IH k. apply elem_of_list_In, in_concat in Hx as (ini & Hini & Hx).
    apply elem_of_list_In in Hini. apply elem_of_list_In in Hx.
    apply elem_of_lookup_imap in Hini as (i & pr & -> & Hpr).
    apply init_provs_elem in Hx as (j & Hj & Hc). rewrite Hc.
    intros H. apply lookup_insert_is_Some in H as [<-|[_ H]]; [|by apply IH]. eauto 6.
Qed.

Lemma ns_ok_init p : ns_ok (init_config p).
Proof.
  intros q pp Hq. apply init_config_procs in Hq as (i & pr & -> & Hpr & HN). split.
  - intros q' [pp' Hq']. apply init_config_procs in Hq' as (i' & pr' & -> & _).
    intros n rest E. apply (f_equal length) in E. cbn in E. lia.
  - intros k Hk. apply init_config_chans in Hk as (i' & j & pr' & -> & Hpr' & Hj).
    intros n rest E. cbn in E. injection E as -> -> _. rewrite Hpr in Hpr'. injection Hpr' as <-. lia.
Qed.

(* ------------------------------------------------------------------ the process table after a move, pointwise *)
Definition mv_spawned (mv : move) : gmap pid proc :=
  spawned (mv_self mv) (eff_next0 (mv_proc mv) (mv_eff mv)) (e_spawn (mv_eff mv)).

Definition proc_upd (mv : move) (r : pid) (x : option proc) : option proc :=
  if decide (r = mv_self mv) then
    match e_after (mv_eff mv) with
    | Continue p' => Some (Proc (pr_provs p') (pr_body0 p') (eff_next1 (mv_proc mv) (mv_eff mv)))
    | Finish => None
    end
  else match mv_spawned mv !! r with
       | Some v => Some v
       | None => if decide (mv_kill mv = Some r) then None else x
       end.

Lemma procs_apply_move_lookup c mv r : procs (apply_move c mv) !! r = proc_upd mv r (procs c !! r).
Proof.
  rewrite procs_apply_move. unfold procs_after, proc_upd. fold (mv_spawned mv).
  assert (Hu : (mv_spawned mv ∪ procs (kill_proc c (mv_kill mv))) !! r =
               match mv_spawned mv !! r with
               | Some v => Some v
               | None => if decide (mv_kill mv = Some r) then None else procs c !! r
               end).
  { destruct (mv_spawned mv !! r) as [v|] eqn:Es; [by rewrite (lookup_union_Some_l _ _ _ _ Es)|].
    rewrite (lookup_union_r _ _ _ Es). destruct (mv_kill mv) as [s|]; cbn.
    - destruct (decide (Some s = Some r)) as [[= ->]|Hne]; [by rewrite lookup_delete|].
      rewrite lookup_delete_ne by congruence. done.
    - rewrite decide_False by done. done. }
  destruct (decide (r = mv_self mv)) as [->|Hne].
  - destruct (e_after (mv_eff mv)); [by rewrite lookup_insert|by rewrite lookup_delete].
  - destruct (e_after (mv_eff mv)); [rewrite lookup_insert_ne by done|rewrite lookup_delete_ne by done]; exact Hu.
Qed.

(* the identifiers of the process table a move touches *)
Definition touches (mv : move) (r : pid) : Prop :=
  r = mv_self mv \/ mv_kill mv = Some r \/ is_Some (mv_spawned mv !! r).

Lemma proc_upd_id mv r x : ~ touches mv r -> proc_upd mv r x = x.
Proof.
  intros H. unfold proc_upd. rewrite decide_False by (intros ->; apply H; by left).
  destruct (mv_spawned mv !! r) eqn:E; [destruct H; right; right; by eexists|].
  rewrite decide_False by (intros E'; apply H; right; by left). done.
Qed.

Lemma mv_spawned_fresh mv r : eff_wf (mv_self mv) (mv_proc mv) (mv_eff mv) ->
  is_Some (mv_spawned mv !! r) -> exists n, r = mv_self mv ++ [n] /\ (pr_next (mv_proc mv) <= n)%nat.
Proof.
  intros Hwf [v Hv]. apply spawned_lookup_Some in Hv as (n & -> & Hn & _). exists n. split; [done|].
  pose proof (eff_base_ge _ _ _ Hwf). unfold eff_next0 in Hn. lia.
Qed.

(* an identifier in use is not one the process p will hand out *)
Lemma ns_ok_not_fresh_pid c p pp q n : ns_ok c -> procs c !! p = Some pp -> is_Some (procs c !! q) ->
  (pr_next pp <= n)%nat -> q ≠ p ++ [n].
Proof. intros Hns Hp Hq Hn ->. destruct (Hns _ _ Hp) as [H _]. specialize (H _ Hq n [] eq_refl). lia. Qed.
Lemma ns_ok_not_fresh_cid c p pp k n : ns_ok c -> procs c !! p = Some pp -> is_Some (chans c !! k) ->
  (pr_next pp <= n)%nat -> k ≠ p ++ [n].
Proof. intros Hns Hp Hk Hn ->. destruct (Hns _ _ Hp) as [_ H]. specialize (H _ Hk n [] eq_refl). lia. Qed.

Lemma procs_apply_move_old md D c ch mv q :
  ns_ok c -> move_wf md D c ch mv -> is_Some (procs c !! q) -> q ∉ movers ch ->
  procs (apply_move c mv) !! q = procs c !! q.
Proof.
  intros Hns Hwf Hq Hnm. rewrite procs_apply_move_lookup. apply proc_upd_id.
  intros [->|[Hk|Hs]].
  - apply Hnm, (mwf_movers _ _ _ _ _ Hwf). by left.
  - apply Hnm, (mwf_movers _ _ _ _ _ Hwf). by right.
  - apply mv_spawned_fresh in Hs as (n & -> & Hn); [|apply (mwf_eff _ _ _ _ _ Hwf)].
    eapply ns_ok_not_fresh_pid; [done|apply (mwf_self _ _ _ _ _ Hwf)|done|done|done].
Qed.

(* the channels a move writes: within the footprint, or fresh in the acting process's namespace *)
Lemma writes_footprint md D c ch mv k : move_wf md D c ch mv -> k ∈ writes mv ->
  k ∈ footprint_ch md D c ch \/ exists n, k = mv_self mv ++ [n] /\ (pr_next (mv_proc mv) <= n)%nat.
Proof.
  intros Hwf Hk. unfold writes in Hk. rewrite !elem_of_app in Hk. destruct Hk as [Hk|[Hk|Hk]].
  - left. unfold footprint_ch. apply elem_of_app. left. by apply (mwf_put _ _ _ _ _ Hwf).
  - right. destruct (ewf_newch _ _ _ (mwf_eff _ _ _ _ _ Hwf) k Hk) as (n & -> & Hn & _). eauto.
  - left. unfold footprint_ch. apply elem_of_app. right. by rewrite <- (mwf_close _ _ _ _ _ Hwf).
Qed.

(* ------------------------------------------------------------------ frame properties of a step *)
(* A step changes `procs` only at its movers and at fresh pids of the acting process, ... *)
Theorem step_procs_frame md D F c ch c' r :
  step md D F c ch = SStep c' -> r ∉ movers ch ->
  procs c' !! r = procs c !! r \/
  exists p pp n, p ∈ movers ch /\ procs c !! p = Some pp /\ r = p ++ [n] /\ (pr_next pp <= n)%nat.
Proof.
  rewrite step_move. destruct (move_of md D F c ch) as [| |mv] eqn:E; try discriminate.
  intros [= <-] Hr. apply move_of_wf in E as Hwf. rewrite procs_apply_move_lookup.
  destruct (decide (is_Some (mv_spawned mv !! r))) as [Hs|Hs].
  - right. apply mv_spawned_fresh in Hs as (n & -> & Hn); [|apply (mwf_eff _ _ _ _ _ Hwf)].
    exists (mv_self mv), (mv_proc mv), n. split; [apply (mwf_movers _ _ _ _ _ Hwf); by left|].
    split; [apply (mwf_self _ _ _ _ _ Hwf)|done].
  - left. apply proc_upd_id. intros [->|[Hk|Hs']]; [| |done].
    + apply Hr, (mwf_movers _ _ _ _ _ Hwf). by left.
    + apply Hr, (mwf_movers _ _ _ _ _ Hwf). by right.
Qed.

(* ... and `chans` only inside its footprint (the channel it sends on / receives from and the
   providers it closes) and at fresh channels of the acting process. *)
Theorem step_chans_frame md D F c ch c' k :
  step md D F c ch = SStep c' -> k ∉ footprint_ch md D c ch ->
  chans c' !! k = chans c !! k \/
  exists p pp n, p ∈ movers ch /\ procs c !! p = Some pp /\ k = p ++ [n] /\ (pr_next pp <= n)%nat.
Proof.
  rewrite step_move. destruct (move_of md D F c ch) as [| |mv] eqn:E; try discriminate.
  intros [= <-] Hk. apply move_of_wf in E as Hwf.
  destruct (decide (k ∈ writes mv)) as [Hw|Hw]; [|left; by apply chans_apply_move_ne].
  right. destruct (writes_footprint _ _ _ _ _ _ Hwf Hw) as [?|(n & -> & Hn)]; [done|].
  exists (mv_self mv), (mv_proc mv), n. split; [apply (mwf_movers _ _ _ _ _ Hwf); by left|].
  split; [apply (mwf_self _ _ _ _ _ Hwf)|done].
Qed.

(* the channels of the footprint that an enabled choice reads exist *)
Lemma step_reads_exist md D F c ch c' k :
  step md D F c ch = SStep c' -> k ∈ reads md D c ch -> is_Some (chans c !! k).
Proof.
  rewrite step_move. destruct (move_of md D F c ch) as [| |mv] eqn:E; try discriminate.
  intros _. apply move_of_wf in E. apply (mwf_reads _ _ _ _ _ E).
Qed.

(* A step does not change what another choice would do, unless that choice acts on a channel the
   step touched. *)
Theorem step_frame_other md D F c a c1 b :
  ns_ok c -> step md D F c a = SStep c1 ->
  movers a ## movers b -> (forall q, q ∈ movers b -> is_Some (procs c !! q)) ->
  (forall k, k ∈ reads md D c b -> is_Some (chans c !! k) /\ k ∉ footprint_ch md D c a) ->
  move_of md D F c1 b = move_of md D F c b /\ reads md D c1 b = reads md D c b /\ closes md D c1 b = closes md D c b.
Proof.
  intros Hns. rewrite step_move. destruct (move_of md D F c a) as [| |mv] eqn:E; try discriminate.
  intros [= <-] Hmov Hex Hrd. apply move_of_wf in E as Hwf.
  assert (Hp : forall p, p ∈ movers b -> procs (apply_move c mv) !! p = procs c !! p).
  { intros p Hp. eapply procs_apply_move_old; [done|done|by apply Hex|set_solver]. }
  assert (Hc : forall k, k ∈ reads md D c b -> chans (apply_move c mv) !! k = chans c !! k).
  { intros k Hk. destruct (Hrd k Hk) as [Hk1 Hk2]. apply chans_apply_move_ne. intros Hw.
    destruct (writes_footprint _ _ _ _ _ _ Hwf Hw) as [?|(n & -> & Hn)]; [done|].
    eapply ns_ok_not_fresh_cid; [done|apply (mwf_self _ _ _ _ _ Hwf)|done|done|done]. }
  split; [by apply move_of_ext|]. split; [by apply reads_ext|by apply closes_ext].
Qed.
