(* DupSubst.v — what the substitutions of the DUP step do to the channels of a body.
   wfn f: names that carry a channel are not `self` names, binders carry no channel (true of every
   typed term: typed_wfn).  Under wfn:
     * substituting a channel name for a channel name removes every occurrence of the old channel
       (subst_chan_chans);
     * every channel of the term is the channel of one of its free names (chans_free_names);
   hence after Runtime.subst_col over all free names, copy i mentions only the i-th fresh channels
   (subst_col_chans, subst_col_fresh). *)
From stdpp Require Import gmap strings.
Require Import Grits.Base Grits.ModeDefs Grits.Modes Grits.STypes Grits.Forms Grits.Subst Grits.TcDeps Grits.Expand
               Grits.Runtime Grits.RuntimeFootprint Grits.spec.RtTyping Grits.spec.Topo.
Require Import Grits.proofs.RtSubst Grits.proofs.TopoLin Grits.proofs.TopoStep Grits.proofs.TopoFinish.

Definition nok (n : name) : bool := negb (is_self n && initialized n).
Definition bok (x : name) : bool := negb (initialized x).

Fixpoint wfn (f : form) : bool :=
  match f with
  | FSend a b c => nok a && nok b && nok c
  | FRecv p c fr k => bok p && bok c && nok fr && wfn k
  | FSel a _ c => nok a && nok c
  | FCase fr bs => nok fr && wfn_brs bs
  | FNew x b k => bok x && wfn b && wfn k
  | FClose c => nok c
  | FWait c k => nok c && wfn k
  | FFwd a b _ => nok a && nok b
  | FSplit x y fr k => bok x && bok y && nok fr && wfn k
  | FCall _ args _ => forallb nok args
  | FCast a c => nok a && nok c
  | FShift x fr k => bok x && nok fr && wfn k
  | FDrop c k => nok c && wfn k
  | FPrint _ k => wfn k
  end
with wfn_brs (b : branches) : bool :=
  match b with BrNil => true | BrCons _ p k r => bok p && wfn k && wfn_brs r end.

(* ------------------------------------------------------------------ a channel for a channel *)
Lemma name_subst_chans old new n kold j :
  chan old = Some kold -> In j (name_chans (name_subst old new n)) ->
  (In j (name_chans n) /\ j <> kold) \/ In j (name_chans new).
Proof.
  intros Ho. unfold name_subst, initialized. rewrite Ho. unfold name_chans at 1.
  destruct (chan n) as [kn|] eqn:En; simpl.
  - unfold cid_eqb. destruct (list_eq_dec Nat.eq_dec kn kold) as [->|Hne]; simpl.
    + intros H. right. exact H.
    + rewrite En. intros [<-|[]]. left. unfold name_chans. rewrite En. split; [by left|done].
  - rewrite En. intros [].
Qed.

Lemma bok_not_equal x old kold : bok x = true -> chan old = Some kold -> name_equal x old = false.
Proof.
  unfold bok, name_equal, initialized. intros Hx Ho. rewrite Ho. destruct (chan x); [discriminate|]. simpl.
  by rewrite andb_false_r.
Qed.

Lemma subst_chan_chans_mut old new kold :
  chan old = Some kold ->
  (forall f, wfn f = true -> forall j, In j (form_chans (subst old new f)) ->
     (In j (form_chans f) /\ j <> kold) \/ In j (name_chans new)) /\
  (forall b, wfn_brs b = true -> forall j, In j (brs_chans (subst_brs old new b)) ->
     (In j (brs_chans b) /\ j <> kold) \/ In j (name_chans new)).
Proof.
  intros Ho. assert (Hn := fun n j => name_subst_chans old new n kold j Ho).
  apply form_branches_ind; simpl; intros;
    repeat match goal with H : _ && _ = true |- _ => apply andb_true_iff in H as [? ?] end;
    repeat match goal with H : bok ?x = true |- _ => rewrite (bok_not_equal x old kold H Ho) in *; clear H end;
    simpl in *;
    repeat match goal with
           | H : In _ (_ ++ _) |- _ => apply in_app_iff in H as [H|H]
           | H : In _ (name_chans (name_subst old new _)) |- _ => apply Hn in H as [[H ?]|H]
           | H : In _ (form_chans (subst old new ?f)), IH : wfn ?f = true -> _ |- _ => apply IH in H as [[H ?]|H]; [| |assumption]
           | H : In _ (brs_chans (subst_brs old new ?f)), IH : wfn_brs ?f = true -> _ |- _ => apply IH in H as [[H ?]|H]; [| |assumption]
           end;
    rewrite ?in_app_iff; auto 6.
  (* FCall *)
  apply in_flat_map in H0 as (a & Ha & H0). apply in_map_iff in Ha as (a0 & <- & Ha0).
  apply Hn in H0 as [[H0 ?]|H0]; [left|by right]. split; [|done]. apply in_flat_map. eauto.
Qed.
Lemma subst_chan_chans old new kold f j :
  chan old = Some kold -> wfn f = true -> In j (form_chans (subst old new f)) ->
  (In j (form_chans f) /\ j <> kold) \/ In j (name_chans new).
Proof. intros Ho Hw. by apply (proj1 (subst_chan_chans_mut old new kold Ho)). Qed.

(* wfn is kept when a non-self name is substituted *)
Lemma nok_subst old new n : is_self new = false -> nok n = true -> nok (name_subst old new n) = true.
Proof.
  intros Hs Hn. unfold name_subst. destruct (initialized n && chan_eqb (chan n) (chan old)); [unfold nok; simpl; by rewrite Hs|].
  destruct (negb (initialized n) && negb (initialized old) && String.eqb (ident n) (ident old)); [unfold nok; simpl; by rewrite Hs|done].
Qed.
Lemma wfn_subst_mut old new : is_self new = false ->
  (forall f, wfn f = true -> wfn (subst old new f) = true) /\ (forall b, wfn_brs b = true -> wfn_brs (subst_brs old new b) = true).
Proof.
  intros Hs. assert (Hn := fun n => nok_subst old new n Hs).
  apply form_branches_ind; simpl; intros;
    repeat match goal with H : _ && _ = true |- _ => apply andb_true_iff in H as [? ?] end;
    repeat (apply andb_true_iff; split); auto;
    try (match goal with |- wfn (if ?b then _ else _) = true => destruct b end; auto).
  (* FCall *) rewrite forallb_forall in *. intros a Ha. apply in_map_iff in Ha as (a0 & <- & Ha0). auto.
Qed.
Lemma wfn_subst old new f : is_self new = false -> wfn f = true -> wfn (subst old new f) = true.
Proof. intros Hs. apply (proj1 (wfn_subst_mut old new Hs)). Qed.

(* ------------------------------------------------------------------ every channel of a term belongs to a free name *)
Notation chs l := (flat_map name_chans l).

Lemma chs_append n l j : In j (chs (append_if_not_self n l)) <-> In j (chs l) \/ (is_self n = false /\ In j (name_chans n)).
Proof.
  unfold append_if_not_self. destruct (is_self n); [split; [tauto|intros [?|[? _]]; [done|discriminate]]|].
  rewrite flat_map_app, in_app_iff. simpl. rewrite app_nil_r. split; intros [?|?]; tauto.
Qed.
Lemma nok_chan n j : nok n = true -> In j (name_chans n) -> is_self n = false.
Proof.
  unfold nok, initialized, name_chans. destruct (chan n); [|intros _ []]. intros H _. rewrite andb_true_r in H.
  by apply negb_true_iff in H.
Qed.

Lemma chs_merge_l : forall b a j, In j (chs a) -> In j (chs (merge_names a b)).
Proof.
  induction b as [|n r IH]; intros a j H; simpl; [done|]. apply IH. destruct (name_exists a n); [done|].
  rewrite flat_map_app, in_app_iff. by left.
Qed.
Lemma chs_merge_r : forall b a j, In j (chs b) -> In j (chs (merge_names a b)).
Proof.
  induction b as [|n r IH]; intros a j H; simpl in *; [done|]. apply in_app_iff in H as [H|H]; [|by apply IH].
  apply chs_merge_l. destruct (name_exists a n) eqn:E.
  - unfold name_exists in E. apply existsb_exists in E as (x & Hx & He). apply in_flat_map. exists x. split; [done|].
    unfold name_chans in *. destruct (chan n) as [kn|] eqn:En; [|destruct H]. destruct H as [<-|[]].
    unfold name_equal, initialized in He. rewrite En in He. destruct (chan x) as [kx|]; simpl in He.
    + unfold cid_eqb in He. destruct (list_eq_dec Nat.eq_dec kx kn) as [->|]; [by left|discriminate].
    + rewrite andb_false_r in He. discriminate.
  - rewrite flat_map_app, in_app_iff. right. simpl. by rewrite app_nil_r.
Qed.
Lemma chs_remove_bound l x j : bok x = true -> In j (chs l) -> In j (chs (remove_bound l x)).
Proof.
  intros Hx H. apply in_flat_map in H as (n & Hn & Hj). apply in_flat_map. exists n. split; [|done].
  unfold remove_bound. apply filter_In. split; [done|]. apply negb_true_iff.
  unfold name_chans in Hj. destruct (chan n) as [kn|] eqn:En; [|destruct Hj].
  unfold name_equal, initialized, bok, initialized in *. rewrite En. destruct (chan x); [discriminate|]. simpl. by rewrite andb_false_r.
Qed.

Lemma free_names_brs_acc : forall b acc j, In j (chs acc) -> In j (chs (free_names_brs acc b)).
Proof. induction b as [|l p k r IH]; intros acc j H; simpl; [done|]. apply IH. by apply chs_merge_l. Qed.

Lemma chans_free_names_mut :
  (forall f, wfn f = true -> forall j, In j (form_chans f) -> In j (chs (free_names f))) /\
  (forall b, wfn_brs b = true -> forall acc j, In j (brs_chans b) -> In j (chs (free_names_brs acc b))).
Proof.
  apply form_branches_ind; simpl; intros;
    repeat match goal with H : _ && _ = true |- _ => apply andb_true_iff in H as [? ?] end;
    repeat match goal with H : In _ (_ ++ _) |- _ => apply in_app_iff in H as [H|H] end;
    rewrite ?chs_append; simpl;
    try (match goal with Hn : nok ?n = true, Hj : In _ (name_chans ?n) |- _ => pose proof (nok_chan n _ Hn Hj) end; tauto).
  all: try (apply chs_merge_l; rewrite chs_append; simpl;
            match goal with Hn : nok ?n = true, Hj : In _ (name_chans ?n) |- _ => pose proof (nok_chan n _ Hn Hj) end; tauto).
  all: try (apply chs_merge_r; repeat apply chs_remove_bound; auto; fail).
  - (* FCase, subject *) apply free_names_brs_acc. rewrite chs_append. simpl. pose proof (nok_chan _ _ H0 H1). tauto.
  - (* FCase, branches *) auto.
  - (* FNew, body *) apply chs_merge_l, chs_merge_r. auto.
  - (* FCall *)
    assert (Hf : forall l acc, In j (chs acc) \/ (exists a, In a l /\ is_self a = false /\ In j (name_chans a)) ->
                 In j (chs (fold_left (fun acc n => append_if_not_self n acc) l acc))).
    { induction l as [|a l IH]; simpl; intros acc Hor.
      - destruct Hor as [Hacc|(a' & [] & _)]. exact Hacc.
      - apply IH. destruct Hor as [Hacc|(a' & [<-|Ha'] & Hs & Hj)].
        + left. rewrite chs_append. by left.
        + left. rewrite chs_append. right. done.
        + right. eauto. }
    apply in_flat_map in H0 as (a & Ha & Hj). apply Hf. right. exists a. split; [done|]. split; [|done].
    rewrite forallb_forall in H. eapply nok_chan; eauto.
  - (* FPrint *) auto.
  - (* BrNil *) destruct H0.
  - (* BrCons, this branch *) apply free_names_brs_acc, chs_merge_r, chs_remove_bound; auto.
  - (* BrCons, rest *) auto.
Qed.
Lemma chans_free_names f j : wfn f = true -> In j (form_chans f) -> In j (chs (free_names f)).
Proof. intros Hw. by apply (proj1 chans_free_names_mut). Qed.

(* ------------------------------------------------------------------ typed terms are wfn *)
Section Typed.
Variable D : tenv.
Variable F : list fundef.
Variable teq : sty -> sty -> Prop.

Lemma prov_nok sh rs n : prov_name sh rs n -> nok n = true.
Proof. intros [Hc _]. unfold nok, initialized. rewrite Hc. by rewrite andb_false_r. Qed.
Lemma client_nok Δ Γ sh n t : client_ty teq Δ Γ sh n t -> nok n = true.
Proof. intros [Hs _]. unfold nok. by rewrite Hs. Qed.
Lemma binder_bok x : binder x -> bok x = true.
Proof. intros [Hc _]. unfold bok, initialized. by rewrite Hc. Qed.
Lemma pbinder_bok x : pbinder x -> bok x = true.
Proof. unfold pbinder, bok, initialized. by intros ->. Qed.
Lemma args_nok Δ Γ sh args ps : args_ok teq Δ Γ sh args ps -> forallb nok args = true.
Proof.
  unfold args_ok. induction 1 as [|a q args ps (t & _ & Hc) _ IH]; simpl; [done|]. by rewrite (client_nok _ _ _ _ _ Hc), IH.
Qed.

Lemma typed_wfn_mut Δ :
  (forall Γ sh rs s f, typed D F teq Δ Γ sh rs s f -> wfn f = true) /\
  (forall Γ rs bs b, typed_brs_p D F teq Δ Γ rs bs b -> wfn_brs b = true) /\
  (forall Γ sh rs s bs b, typed_brs_c D F teq Δ Γ sh rs s bs b -> wfn_brs b = true).
Proof.
  apply typed_mutind; simpl; intros;
    repeat match goal with
           | H : prov_name _ _ ?n |- _ => apply prov_nok in H
           | H : client_ty _ _ _ _ ?n _ |- _ => apply client_nok in H
           | H : binder ?x |- _ => apply binder_bok in H
           | H : pbinder ?x |- _ => apply pbinder_bok in H
           end;
    repeat (apply andb_true_iff; split); auto.
  (* call *)
  match goal with H : _ \/ _ |- _ => destruct H as [[_ Ha]|(a0 & rest & -> & _ & Hp & Ha)] end.
  - eapply args_nok; eauto.
  - simpl. apply prov_nok in Hp. rewrite Hp. eapply args_nok; eauto.
Qed.
Lemma typed_wfn Δ Γ sh rs s f : typed D F teq Δ Γ sh rs s f -> wfn f = true.
Proof. apply (proj1 (typed_wfn_mut Δ)). Qed.
End Typed.

(* ------------------------------------------------------------------ the column substitution of DUP *)
Lemma subst_col_chans : forall fns rows b i j,
  wfn b = true ->
  Forall (fun row => exists c, nth_error row i = Some c /\ is_self c = false) rows ->
  length rows = length fns ->
  In j (form_chans (subst_col fns rows i b)) ->
  (In j (form_chans b) /\ forall fn kf, In fn fns -> chan fn = Some kf -> j <> kf) \/
  (exists f row c, rows !! f = Some row /\ nth_error row i = Some c /\ In j (name_chans c)).
Proof.
  induction fns as [|fn fr IH]; intros rows b i j Hw Hrows Hlen Hj.
  - left. split; [by destruct rows|]. intros fn kf [].
  - destruct rows as [|row rr]; [discriminate|]. simpl in Hj, Hlen. injection Hlen as Hlen.
    inversion Hrows as [|? ? (c & Hc & Hs) Hrr]; subst. rewrite Hc in Hj.
    destruct (IH rr (subst fn c b) i j (wfn_subst fn c b Hs Hw) Hrr Hlen Hj) as [[Hj1 Hne]|(f & row' & c' & Hf & Hc' & Hjc)].
    + destruct (chan fn) as [kold|] eqn:Efn.
      * destruct (subst_chan_chans fn c kold b j Efn Hw Hj1) as [[Hjb Hjk]|Hjc].
        -- left. split; [done|]. intros fn' kf [<-|Hin] Hkf; [congruence|eauto].
        -- right. exists 0%nat, row, c. done.
      * apply form_chans_subst in Hj1 as [Hjb|Hjc].
        -- left. split; [done|]. intros fn' kf [<-|Hin] Hkf; [congruence|eauto].
        -- right. exists 0%nat, row, c. done.
    + right. exists (S f), row', c'. done.
Qed.

Lemma subst_col_fresh rows b i j :
  wfn b = true ->
  Forall (fun row => exists c, nth_error row i = Some c /\ is_self c = false) rows ->
  length rows = length (free_names b) ->
  In j (form_chans (subst_col (free_names b) rows i b)) ->
  exists f row c, rows !! f = Some row /\ nth_error row i = Some c /\ In j (name_chans c).
Proof.
  intros Hw Hrows Hlen Hj. destruct (subst_col_chans _ _ _ _ _ Hw Hrows Hlen Hj) as [[Hjb Hne]|H]; [|exact H].
  exfalso. apply (chans_free_names b j Hw) in Hjb. apply in_flat_map in Hjb as (fn & Hfn & Hjf).
  unfold name_chans in Hjf. destruct (chan fn) as [kf|] eqn:E; [|destruct Hjf]. destruct Hjf as [->|[]].
  exact (Hne fn j Hfn E eq_refl).
Qed.
