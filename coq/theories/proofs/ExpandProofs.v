(* ExpandProofs.v — C12: every declaration of the statement list appears in the parsed program,
   with its kind and name, in order; nothing else does.  (expandProcesses = Expand.expand) *)
Require Import Grits.Base Grits.ModeDefs Grits.Modes Grits.STypes Grits.Forms Grits.Subst Grits.Infer
               Grits.Tokens Grits.Scan Grits.LR Grits.Actions Grits.Expand.

(* the declarations written in a statement list, by kind, in order *)
Definition stmt_types (l : list stmt) : list string :=
  flat_map (fun s => match s with SType x _ => [x] | _ => [] end) l.
Definition stmt_funs (l : list stmt) : list string :=
  flat_map (fun s => match s with SFun f => [fn_name f] | _ => [] end) l.
Definition stmt_procs (l : list stmt) : list (list name) :=
  flat_map (fun s => match s with SProc provs _ _ => [provs] | _ => [] end) l.
Definition stmt_assumed (l : list stmt) : list name :=
  flat_map (fun s => match s with SAssume ns => ns | _ => [] end) l.
Definition stmt_execs (l : list stmt) : list string :=
  flat_map (fun s => match s with SExec f => [f] | _ => [] end) l.

(* the processes that the `exec f()` statements become: exec<count+1>, exec<count+2>, ... *)
Fixpoint exec_procs (count : nat) (fs : list string) : list (list name * form) :=
  match fs with
  | [] => []
  | f :: r => ([mkName ("exec" ^^ nat_to_string (S count)) true None None None], FCall f [] None) :: exec_procs (S count) r
  end.

Definition proc_sig (p : procdef) : list name * form := (pr_providers p, pr_body p).

Lemma expand_fun_name f : fn_name (expand_fun f) = fn_name f.
Proof. unfold expand_fun. destruct (fn_explicit f); reflexivity. Qed.

Lemma expand1_decls : forall l procs assumed funs tys procs' assumed' funs' tys',
  expand1 l procs assumed funs tys = POk (procs', assumed', funs', tys') ->
  map td_name tys' = map td_name tys ++ stmt_types l /\
  map fn_name funs' = map fn_name funs ++ stmt_funs l /\
  assumed' = assumed ++ stmt_assumed l /\
  map pr_providers procs' = map pr_providers procs ++ stmt_procs l.
Proof.
  induction l as [|s r IH]; intros procs assumed funs tys procs' assumed' funs' tys' H.
  - cbn in H. inversion H; subst. cbn. rewrite !app_nil_r. auto.
  - cbn [expand1] in H.
    destruct s as [provs ty body | f | x t | ns | fname].
    + assert (Hgo : forall pd, pr_providers pd = provs ->
                expand1 r (procs ++ [pd]) assumed funs tys = POk (procs', assumed', funs', tys') ->
                map td_name tys' = map td_name tys ++ stmt_types (SProc provs ty body :: r) /\
                map fn_name funs' = map fn_name funs ++ stmt_funs (SProc provs ty body :: r) /\
                assumed' = assumed ++ stmt_assumed (SProc provs ty body :: r) /\
                map pr_providers procs' = map pr_providers procs ++ stmt_procs (SProc provs ty body :: r)).
      { intros pd Hpd Hq. destruct (IH _ _ _ _ _ _ _ _ Hq) as [H1 [H2 [H3 H4]]].
        cbn. repeat split; try assumption.
        rewrite H4, map_app, <- app_assoc. cbn. rewrite Hpd. reflexivity. }
      destruct provs as [|p [|q ps]].
      * destruct (existsb _ _); [discriminate|]. eapply Hgo; [|exact H]. reflexivity.
      * eapply Hgo; [|exact H]. reflexivity.
      * destruct (existsb _ _); [discriminate|]. eapply Hgo; [|exact H]. reflexivity.
    + destruct (IH _ _ _ _ _ _ _ _ H) as [H1 [H2 [H3 H4]]]. cbn. repeat split; try assumption.
      rewrite H2, map_app, <- app_assoc. cbn. rewrite expand_fun_name. reflexivity.
    + destruct (IH _ _ _ _ _ _ _ _ H) as [H1 [H2 [H3 H4]]]. cbn. repeat split; try assumption.
      rewrite H1, map_app, <- app_assoc. reflexivity.
    + destruct (IH _ _ _ _ _ _ _ _ H) as [H1 [H2 [H3 H4]]]. cbn. repeat split; try assumption.
      rewrite H3, <- app_assoc. reflexivity.
    + destruct (IH _ _ _ _ _ _ _ _ H) as [H1 [H2 [H3 H4]]]. cbn. repeat split; assumption.
Qed.

Lemma expand_exec_decls : forall l funs count procs procs',
  expand_exec l funs count procs = POk procs' ->
  map proc_sig procs' = map proc_sig procs ++ exec_procs count (stmt_execs l).
Proof.
  induction l as [|s r IH]; intros funs count procs procs' H.
  - cbn in H. inversion H; subst. cbn. rewrite app_nil_r. reflexivity.
  - cbn [expand_exec] in H. destruct s as [provs ty body | f | x t | ns | fname];
      try (rewrite (IH _ _ _ _ H); reflexivity).
    destruct (get_function funs fname 0) as [fd|]; [|discriminate].
    rewrite (IH _ _ _ _ H). rewrite map_app, <- app_assoc. reflexivity.
Qed.

Lemma infer_defs_names : forall D0 l r, infer_defs D0 l = Ok r -> map td_name r = map td_name l.
Proof.
  induction l as [|d l IH]; intros r H; cbn [infer_defs] in H.
  - inversion H; subst. reflexivity.
  - destruct (infer (infer_fuel D0 (td_body d)) D0 (td_body d) []) as [[m u]| |]; cbn [obind] in H; try discriminate.
    destruct (infer_defs D0 l) as [r'| |] eqn:E; cbn [obind] in H; try discriminate. inversion H; subst.
    cbn [map td_name]. f_equal. exact (IH r' eq_refl).
Qed.

Lemma set_modality_names tys tys' : set_modality_typedefs tys = Ok tys' -> map td_name tys' = map td_name tys.
Proof.
  unfold set_modality_typedefs. intros H.
  destruct (infer_defs tys tys) as [D1| |] eqn:E; cbn [obind] in H; try discriminate. inversion H; subst.
  rewrite map_map. cbn [td_name]. apply infer_defs_names in E. exact E.
Qed.

(* C12: the parsed program has exactly the declarations of the statement list: same count, kinds,
   names and order per kind; each `exec f()` statement becomes the process exec<i> calling f *)
Theorem decls_preserved_expand : forall l p, expand l = POk p ->
  map td_name (p_types p) = stmt_types l /\
  map fn_name (p_funs p) = stmt_funs l /\
  p_assumed p = stmt_assumed l /\
  map pr_providers (p_procs p) = stmt_procs l ++ map fst (exec_procs 0 (stmt_execs l)) /\
  skipn (length (stmt_procs l)) (map proc_sig (p_procs p)) = exec_procs 0 (stmt_execs l).
Proof.
  intros l p H. unfold expand in H.
  destruct (expand1 l [] [] [] []) as [[[[procs assumed] funs] tys]| | |] eqn:E1; try discriminate.
  destruct (expand_exec l funs 0 procs) as [procs'| | |] eqn:E2; try discriminate.
  destruct (set_modality_typedefs tys) as [tys'| |] eqn:E3; try discriminate.
  inversion H; subst p. cbn [p_types p_funs p_assumed p_procs].
  destruct (expand1_decls _ _ _ _ _ _ _ _ _ E1) as [H1 [H2 [H3 H4]]]. cbn in H1, H2, H3, H4.
  pose proof (expand_exec_decls _ _ _ _ _ E2) as H5.
  split; [rewrite (set_modality_names _ _ E3); exact H1|]. split; [exact H2|]. split; [exact H3|].
  assert (Hfst : forall ps, map fst (map proc_sig ps) = map pr_providers ps) by (intros; rewrite map_map; reflexivity).
  split.
  - rewrite <- Hfst, H5, map_app, Hfst, H4. reflexivity.
  - rewrite H5. replace (length (stmt_procs l)) with (length (map proc_sig procs)) by (rewrite <- H4, !map_length; reflexivity).
    rewrite skipn_app, skipn_all, Nat.sub_diag. reflexivity.
Qed.

(* every statement is of exactly one kind: the counts add up *)
Lemma stmt_partition l :
  length l = (length (stmt_types l) + length (stmt_funs l) + length (stmt_procs l) + length (stmt_execs l) +
              length (filter (fun s => match s with SAssume _ => true | _ => false end) l))%nat.
Proof.
  induction l as [|s r IH]; [reflexivity|].
  unfold stmt_types, stmt_funs, stmt_procs, stmt_execs in *.
  destruct s; cbn [flat_map filter app length] in *; lia.
Qed.

Theorem decls_preserved : forall s p, parse_string s = POk p ->
  exists l, parse_statements s = POk l /\
    map td_name (p_types p) = stmt_types l /\
    map fn_name (p_funs p) = stmt_funs l /\
    p_assumed p = stmt_assumed l /\
    map pr_providers (p_procs p) = stmt_procs l ++ map fst (exec_procs 0 (stmt_execs l)) /\
    (length (p_types p) + length (p_funs p) + length (p_procs p) +
     length (filter (fun s => match s with SAssume _ => true | _ => false end) l) = length l)%nat.
Proof.
  intros s p H. unfold parse_string in H.
  destruct (parse_statements s) as [l| | |] eqn:Hp; try discriminate.
  exists l. split; [reflexivity|].
  destruct (decls_preserved_expand l p H) as [H1 [H2 [H3 [H4 H5]]]].
  repeat split; try assumption.
  rewrite (stmt_partition l).
  rewrite <- (map_length td_name (p_types p)), H1, <- (map_length fn_name (p_funs p)), H2,
          <- (map_length pr_providers (p_procs p)), H4, app_length, map_length.
  assert (He : forall n fs, length (exec_procs n fs) = length fs) by (intros n fs; revert n; induction fs; intros; cbn; auto).
  rewrite He. lia.
Qed.
