(* EqualProofs.v — C08 assembled, stated for TcDeps.eq_ty / TcDeps.equal_type (the functions the
   typechecker model calls), through the bridge to Equal.eq_ty. *)
Require Import Grits.Base Grits.ModeDefs Grits.Modes Grits.STypes Grits.Infer Grits.Print Grits.Equal Grits.EqualWF.
Require Grits.TcDeps.
Require Import Grits.spec.TypEq Grits.proofs.TypEqFacts Grits.proofs.EqualWFFacts Grits.proofs.EqualBridge
               Grits.proofs.EqualSound Grits.proofs.EqualComplete Grits.proofs.EqualTerm Grits.proofs.PrintProofs.

Definition run (D : tenv) (s t : sty) : res :=
  TcDeps.eq_ty (TcDeps.eq_fuel D s t) D (S (tsize s + tsize t)) s t [].

Lemma run_bridge D s t : run D s t = eq_ty (eq_fuel D s t) D (S (tsize s + tsize t)) s t [].
Proof. unfold run. rewrite eq_ty_bridge. reflexivity. Qed.

(* EqualType returns, for EVERY environment and pair of types *)
Theorem equal_terminates D s t : exists b M, run D s t = Ok (b, M).
Proof. rewrite run_bridge. apply eq_ty_terminates. Qed.

Theorem equal_terminates_ge D s t K : TcDeps.eq_fuel D s t <= K ->
  exists b M, TcDeps.eq_ty K D (S (tsize s + tsize t)) s t [] = Ok (b, M).
Proof. intros HK. rewrite eq_ty_bridge. apply eq_ty_terminates_ge. exact HK. Qed.

(* soundness and completeness for ANY fuel: whenever a run returns, its answer is right *)
Theorem eq_ty_sound_any D k n s t M :
  wf_env D = true -> wf_ty D s = true -> wf_ty D t = true ->
  TcDeps.eq_ty k D n s t [] = Ok (true, M) -> Bisim D s t.
Proof. intros HD Ws Wt H. rewrite eq_ty_bridge in H. eapply eq_ty_sound; eauto. apply key_injective. Qed.

Theorem eq_ty_complete_any D k n s t M0 b M :
  wf_env D = true -> wf_ty D s = true -> wf_ty D t = true ->
  Bisim D s t -> TcDeps.eq_ty k D n s t M0 = Ok (b, M) -> b = true.
Proof. intros HD Ws Wt Hb H. rewrite eq_ty_bridge in H. exact (eq_ty_complete D HD _ _ _ _ _ _ _ Ws Wt Hb H). Qed.

Theorem equal_sound D s t M :
  wf_env D = true -> wf_ty D s = true -> wf_ty D t = true ->
  run D s t = Ok (true, M) -> Bisim D s t.
Proof.
  intros HD Ws Wt H. rewrite run_bridge in H.
  eapply eq_ty_sound; eauto. apply key_injective.
Qed.

Theorem equal_complete D s t :
  wf_env D = true -> wf_ty D s = true -> wf_ty D t = true ->
  Bisim D s t -> exists M, run D s t = Ok (true, M).
Proof.
  intros HD Ws Wt Hb. destruct (equal_terminates D s t) as [b [M E]]. exists M.
  pose proof E as E'. rewrite run_bridge in E'.
  rewrite (eq_ty_complete D HD _ _ _ _ _ _ _ Ws Wt Hb E') in E. exact E.
Qed.

Lemma equal_type_run D s t :
  TcDeps.equal_type D s t = match run D s t with Ok (b, _) => Ok b | Panic w => Panic w | Hang w => Hang w end.
Proof. unfold TcDeps.equal_type, run. destruct (TcDeps.eq_ty _ _ _ _ _ _) as [[b M]| |]; reflexivity. Qed.

(* the verdict of EqualType is exactly bisimilarity *)
Theorem equal_type_iff D s t :
  wf_env D = true -> wf_ty D s = true -> wf_ty D t = true ->
  (TcDeps.equal_type D s t = Ok true <-> Bisim D s t) /\
  (TcDeps.equal_type D s t = Ok false <-> ~ Bisim D s t).
Proof.
  intros HD Ws Wt. rewrite equal_type_run.
  destruct (equal_terminates D s t) as [b [M E]]. rewrite E. destruct b.
  - assert (Hb : Bisim D s t) by (eapply equal_sound; eauto).
    split; split; intros; try reflexivity; try assumption; [discriminate | contradiction].
  - assert (Hn : ~ Bisim D s t).
    { intros Hb. destruct (equal_complete D s t HD Ws Wt Hb) as [M' E']. congruence. }
    split; split; intros; try reflexivity; try assumption; [discriminate | contradiction].
Qed.

Corollary equal_true_iff D s t :
  wf_env D = true -> wf_ty D s = true -> wf_ty D t = true -> (TcDeps.equal_type D s t = Ok true <-> Bisim D s t).
Proof. intros. apply equal_type_iff; assumption. Qed.

Theorem equal_type_total D s t : exists b, TcDeps.equal_type D s t = Ok b.
Proof. rewrite equal_type_run. destruct (equal_terminates D s t) as [b [M E]]. rewrite E. eauto. Qed.

Section Laws.
Variable D : tenv.
Hypothesis HD : wf_env D = true.

Theorem equal_refl t : wf_ty D t = true -> TcDeps.equal_type D t t = Ok true.
Proof.
  intros Wt. apply (equal_true_iff D t t HD Wt Wt). apply (Bisim_refl D (WT D)); [apply WT_productive; exact HD | exact Wt].
Qed.

Theorem equal_sym s t : wf_ty D s = true -> wf_ty D t = true ->
  TcDeps.equal_type D s t = TcDeps.equal_type D t s.
Proof.
  intros Ws Wt. destruct (equal_type_total D s t) as [b E]. destruct (equal_type_total D t s) as [b' E'].
  rewrite E, E'. f_equal. destruct b, b'; try reflexivity.
  - apply (proj1 (equal_true_iff D s t HD Ws Wt)) in E. apply Bisim_sym in E.
    apply (proj2 (equal_true_iff D t s HD Wt Ws)) in E. congruence.
  - apply (proj1 (equal_true_iff D t s HD Wt Ws)) in E'. apply Bisim_sym in E'.
    apply (proj2 (equal_true_iff D s t HD Ws Wt)) in E'. congruence.
Qed.

Theorem equal_trans s u t : wf_ty D s = true -> wf_ty D u = true -> wf_ty D t = true ->
  TcDeps.equal_type D s u = Ok true -> TcDeps.equal_type D u t = Ok true -> TcDeps.equal_type D s t = Ok true.
Proof.
  intros Ws Wu Wt H1 H2. apply (proj1 (equal_true_iff D s u HD Ws Wu)) in H1. apply (proj1 (equal_true_iff D u t HD Wu Wt)) in H2.
  apply (proj2 (equal_true_iff D s t HD Ws Wt)). eapply Bisim_trans; eauto.
Qed.

(* a name and the body of its definition (one-step unfolding, aliases) *)
Theorem equal_unfold x m d : wf_ty D (TName x m) = true -> tlookup D x = Some d ->
  TcDeps.equal_type D (TName x m) (td_body d) = Ok true.
Proof.
  intros Wn Hl. assert (Wb : WT D (td_body d)) by (eapply WT_lookup; eauto).
  apply (proj2 (equal_true_iff D _ _ HD Wn Wb)). eapply (Bisim_unfold D (WT D)); eauto. apply WT_productive; exact HD.
Qed.

(* the order of the branches of a choice is irrelevant *)
Lemma brs_perm_sim bs cs : (forall l, find_br l bs = find_br l cs) -> (forall c, In_br c bs -> WT D c) ->
  brs_sim (Bisim D) bs cs.
Proof.
  intros Hp Wb. split.
  - intros l. rewrite Hp. tauto.
  - intros l a a' E1 E2. rewrite Hp in E1. rewrite E1 in E2. inversion E2; subst.
    apply (Bisim_refl D (WT D)); [apply WT_productive; exact HD|]. apply Wb. rewrite <- Hp in E1. eapply find_br_In; eauto.
Qed.

Theorem equal_branch_order_plus bs cs m : (forall l, find_br l bs = find_br l cs) ->
  wf_ty D (TPlus bs m) = true -> wf_ty D (TPlus cs m) = true ->
  TcDeps.equal_type D (TPlus bs m) (TPlus cs m) = Ok true.
Proof.
  intros Hp Ws Wt. apply (proj2 (equal_true_iff D _ _ HD Ws Wt)).
  eapply Bisim_intro; [constructor; reflexivity | constructor; reflexivity |].
  constructor. apply brs_perm_sim; [exact Hp|]. intros c Hc. eapply WT_child; [exact Ws | exact Hc].
Qed.
Theorem equal_branch_order_with bs cs m : (forall l, find_br l bs = find_br l cs) ->
  wf_ty D (TWith bs m) = true -> wf_ty D (TWith cs m) = true ->
  TcDeps.equal_type D (TWith bs m) (TWith cs m) = Ok true.
Proof.
  intros Hp Ws Wt. apply (proj2 (equal_true_iff D _ _ HD Ws Wt)).
  eapply Bisim_intro; [constructor; reflexivity | constructor; reflexivity |].
  constructor. apply brs_perm_sim; [exact Hp|]. intros c Hc. eapply WT_child; [exact Ws | exact Hc].
Qed.
End Laws.

(* ---------- examples, by computation ---------- *)
Definition exD : tenv :=
  [ {| td_name := "Ev"; td_body := TPlus (BCons "z" (TUnit Rep) (BCons "s" (TName "Od" Rep) BNil)) Rep; td_mode := Rep |};
    {| td_name := "Od"; td_body := TPlus (BCons "s" (TName "Ev" Rep) BNil) Rep; td_mode := Rep |};
    {| td_name := "Ev2"; td_body := TPlus (BCons "s" (TName "Od2" Rep) (BCons "z" (TUnit Rep) BNil)) Rep; td_mode := Rep |};
    {| td_name := "Od2"; td_body := TPlus (BCons "s" (TPlus (BCons "z" (TUnit Rep) (BCons "s" (TName "Od2" Rep) BNil)) Rep) BNil) Rep; td_mode := Rep |};
    {| td_name := "Al"; td_body := TName "Ev" Rep; td_mode := Rep |};
    {| td_name := "L"; td_body := TTensor (TUnit Lin) (TName "L" Lin) Lin; td_mode := Lin |};
    {| td_name := "A"; td_body := TTensor (TUnit Aff) (TName "A" Aff) Aff; td_mode := Aff |} ].

Example ex_wf : wf_env exD = true. Proof. vm_compute. reflexivity. Qed.
(* two renamed, differently unrolled and permuted recursive definitions are equal *)
Example ex_renamed : TcDeps.equal_type exD (TName "Ev" Rep) (TName "Ev2" Rep) = Ok true. Proof. vm_compute. reflexivity. Qed.
Example ex_alias : TcDeps.equal_type exD (TName "Al" Rep) (TPlus (BCons "s" (TName "Od2" Rep) (BCons "z" (TUnit Rep) BNil)) Rep) = Ok true.
Proof. vm_compute. reflexivity. Qed.
(* near misses *)
Example ex_miss_parity : TcDeps.equal_type exD (TName "Ev" Rep) (TName "Od2" Rep) = Ok false. Proof. vm_compute. reflexivity. Qed.
Example ex_miss_mode : TcDeps.equal_type exD (TName "L" Lin) (TName "A" Aff) = Ok false. Proof. vm_compute. reflexivity. Qed.
Example ex_miss_shift : TcDeps.equal_type exD (TUp Lin Rep (TName "L" Lin)) (TUp Aff Rep (TName "A" Aff)) = Ok false.
Proof. vm_compute. reflexivity. Qed.
(* left- vs right-nested tensor (F10: these used to print, and hence memoise, identically) *)
Example ex_nesting :
  TcDeps.equal_type exD (TTensor (TTensor (TUnit Rep) (TUnit Rep) Rep) (TUnit Rep) Rep)
                        (TTensor (TUnit Rep) (TTensor (TUnit Rep) (TUnit Rep) Rep) Rep) = Ok false.
Proof. vm_compute. reflexivity. Qed.
