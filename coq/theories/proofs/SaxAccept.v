(* SaxAccept.v — C04, results half, with `init_linear` DERIVED from acceptance (a8: proofs/InitAccept.v,
   DeterminismAccept.init_linear_parsed).  The premises left are: the text parses, the program is
   accepted, it is closed (in_fragment p': no assumed names), and the computable condition
   `core_src_b p` on the SOURCE program (no drop / split / droppable forward, one provider name per
   process, no empty case) — nothing about the annotated program p' beyond closedness, nothing about
   configurations or runs. *)
From stdpp Require Import gmap strings.
Require Import Grits.Base Grits.Forms Grits.Expand Grits.Tc Grits.TcTop Grits.Runtime.
Require Import Grits.proofs.RtTheorems Grits.proofs.RtStaticCheck Grits.proofs.InitAccept Grits.proofs.DeterminismAccept.
Require Import Grits.spec.Sax Grits.proofs.Causality Grits.proofs.SaxRefine Grits.proofs.SaxTyped.

Theorem prints_admitted_core md txt p p' :
  is_np md = false ->
  parse_string txt = POk p -> typecheck p = Accept p' -> in_fragment p' -> core_src_b p = true ->
  forall fuel pick, exists C',
    sax_steps (p_funs p') false (sax_init p')
      (labels (res_config (exec_run fuel pick md (p_types p') (p_funs p') (init_config p')))) C'.
Proof.
  intros Hnp Hp Ha Hf Hc.
  exact (prints_admitted_parsed_md md txt p p' Hnp Hp Ha Hf (init_linear_parsed txt p p' Hp Ha Hf Hc)).
Qed.

Corollary prints_admitted_core_async txt p p' :
  parse_string txt = POk p -> typecheck p = Accept p' -> in_fragment p' -> core_src_b p = true ->
  forall fuel pick, exists C',
    sax_steps (p_funs p') false (sax_init p')
      (labels (res_config (exec_run fuel pick Async (p_types p') (p_funs p') (init_config p')))) C'.
Proof. exact (prints_admitted_core Async txt p p' eq_refl). Qed.

(* exactly these premises, as one computable verdict on the program text *)
Definition c04_core_text (txt : string) : bool :=
  match parse_string txt with
  | POk p =>
    match typecheck p with
    | Accept p' => in_fragment_b p' && core_src_b p
    | _ => false
    end
  | _ => false
  end.

Theorem prints_admitted_core_text txt : c04_core_text txt = true ->
  exists p p', parse_string txt = POk p /\ typecheck p = Accept p' /\
  forall md, is_np md = false -> forall fuel pick, exists C',
    sax_steps (p_funs p') false (sax_init p')
      (labels (res_config (exec_run fuel pick md (p_types p') (p_funs p') (init_config p')))) C'.
Proof.
  unfold c04_core_text. destruct (parse_string txt) as [p| | |] eqn:Hp; try discriminate.
  destruct (typecheck p) as [p'| | |] eqn:Ha; try discriminate.
  intros [Hf Hc]%andb_prop. exists p, p'. split; [done|]. split; [done|]. intros md Hnp.
  apply (prints_admitted_core md txt p p' Hnp Hp Ha); [by apply in_fragment_b_sound|done].
Qed.
