(* LRInvariant.v — a generic invariant principle for the goyacc driver of LR.v over the current
   tables, for ANY semantic-value algebra V:
     let G : symbol -> V -> Prop.  If every token's value satisfies G at the token's terminal, and
     every semantic action maps arguments satisfying G at the symbols of the production's right-hand
     side (recovered from the tables, gen/LRCert.tRhs, checked) to a result satisfying G at its
     left-hand side, then the value returned on acceptance satisfies G at the start symbol.
   (Induction on the driver's fuel; invariant: every stack entry above the bottom satisfies G at the
   accessing symbol of its state.) *)
Require Import Grits.Base Grits.Tokens Grits.gen.LRTables Grits.gen.LRCert Grits.LR
               Grits.proofs.LRCheck Grits.proofs.LRProof Grits.proofs.LRCertInst
               Grits.proofs.LRSound Grits.proofs.LRSoundInst.
Local Open Scope Z_scope.

Section Invariant.
Variable V : Type.
Variable tok_val : tk * string -> V.
Variable reduce_action : Z -> list V -> option V.
Variable G : Z -> V -> Prop.

Local Notation step := (step V tok_val reduce_action).
Local Notation run := (run V tok_val reduce_action).
Local Notation path stk := (is_path tE (map fst stk)).

Definition grhs (p : Z) : list Z := rhs tRhs p.

Hypothesis Hred : forall p vals nv, 0 < p < lenZ tR2 -> Forall2 G (grhs p) vals ->
  reduce_action p vals = Some nv -> G (lhs p) nv.

Definition entry_ok (sv : Z * V) : Prop := G (chk (fst sv)) (snd sv).
Definition stack_ok (stk : list (Z * V)) : Prop :=
  exists upper v0, stk = upper ++ [(0, v0)] /\ Forall entry_ok upper.
Definition input_ok (inp : list (tk * string)) : Prop := Forall (fun tv => G (tokz tv) (tok_val tv)) inp.

Lemma Forall_firstn' {A} (P : A -> Prop) l k : Forall P l -> Forall P (firstn k l).
Proof. revert l; induction k; intros l H; cbn; [constructor|]. destruct l; [constructor|]. inversion H; subst. constructor; auto. Qed.
Lemma Forall_skipn' {A} (P : A -> Prop) l k : Forall P l -> Forall P (skipn k l).
Proof. revert l; induction k; intros l H; cbn; [exact H|]. destruct l; [constructor|]. inversion H; subst. auto. Qed.

Lemma entries_Forall2 l : Forall entry_ok l -> Forall2 G (map chk (rev (map fst l))) (rev (map snd l)).
Proof.
  intros H. rewrite <- !map_rev. apply Forall_rev in H. induction H as [|sv r Hsv _ IH]; cbn; constructor; auto.
Qed.

Lemma step_inv stk inp :
  path stk -> stack_ok stk -> input_ok inp ->
  match step stk inp with
  | StCont _ stk' inp' => stack_ok stk' /\ input_ok inp'
  | StAccept _ v => G START v
  | _ => True
  end.
Proof.
  intros Hp [upper [v0 [Hstk Hty]]] Hin. unfold LR.step.
  destruct stk as [|[st v] rest]; [exact I|].
  assert (Hst : in_states st = true) by (eapply (is_path_top_in_states tE wIn wTop certC cert_ok); exact Hp).
  destruct (sound_at tE tRhs sound_ok st (lookahead inp) Hst (lookahead_in inp)) as [Hpos Hs].
  destruct (check_state_at tE wIn wTop certC cert_ok st (lookahead inp) Hst (lookahead_in inp)) as [_ Hck].
  destruct (action st (lookahead inp)) as [t | p | | ] eqn:Hact.
  - (* shift *)
    destruct inp as [|a inp0]; [exact I|]. inversion Hin as [|? ? Ha Hin0]; subst. split; [|exact Hin0].
    exists ((t, tok_val a) :: upper), v0. split; [rewrite Hstk; reflexivity|].
    constructor; [|exact Hty]. unfold entry_ok. cbn [fst snd]. rewrite Hs. destruct a as [k lx]. exact Ha.
  - (* reduce *)
    destruct Hs as [Hppos Hs]. destruct Hck as [Hrl _].
    assert (Hprange : 0 < p < lenZ tR2).
    { unfold rlen_ok in Hrl. destruct (nth_c tR2 p) as [k0|] eqn:En; [|discriminate].
      apply nth_c_Some in En. lia. }
    set (k := rlen p) in *.
    destruct (skipn k ((st, v) :: rest)) as [|[s0 w0] below] eqn:Hsk; [exact I|].
    destruct (reduce_action p (rev (map snd (firstn k ((st, v) :: rest))))) as [nv|] eqn:Hra; [|exact I].
    assert (HskZ : skipn k (map fst ((st, v) :: rest)) = s0 :: map fst below) by (rewrite skipn_map, Hsk; reflexivity).
    assert (Hlen : (k < length (map fst ((st, v) :: rest)))%nat).
    { assert (Hl : (length (s0 :: map fst below) = length (map fst ((st, v) :: rest)) - k)%nat) by (rewrite <- HskZ; apply skipn_length).
      cbn [length] in *. lia. }
    pose proof (bpaths_complete tE k st (map fst rest) Hp Hlen) as Hinp.
    destruct (Hs _ Hinp) as [Hrhs Hgoto].
    change (st :: map fst rest) with (map fst ((st, v) :: rest)) in Hrhs, Hgoto.
    assert (Hpth : firstn (S k) (map fst ((st, v) :: rest)) = firstn k (map fst ((st, v) :: rest)) ++ [s0])
      by (eapply firstn_snoc; exact HskZ).
    rewrite Hpth in Hgoto. rewrite rev_app_distr in Hgoto. cbn [rev app] in Hgoto.
    unfold syms_of in Hrhs. rewrite firstn_firstn in Hrhs. replace (Nat.min k (S k)) with k in Hrhs by lia.
    assert (Hku : (k <= length upper)%nat).
    { rewrite map_length in Hlen. rewrite Hstk, app_length in Hlen. cbn in Hlen. lia. }
    assert (Hf : firstn k ((st, v) :: rest) = firstn k upper).
    { rewrite Hstk. rewrite firstn_app. replace (k - length upper)%nat with 0%nat by lia. cbn. apply app_nil_r. }
    assert (Hs2 : skipn k ((st, v) :: rest) = skipn k upper ++ [(0, v0)]).
    { rewrite Hstk. rewrite skipn_app. replace (k - length upper)%nat with 0%nat by lia. reflexivity. }
    pose proof (entries_Forall2 (firstn k upper) (Forall_firstn' _ _ k Hty)) as Hsh.
    rewrite <- Hf in Hsh. rewrite <- (firstn_map fst) in Hsh. rewrite Hrhs in Hsh.
    pose proof (Hred p _ nv Hprange Hsh Hra) as Hnv.
    split; [|exact Hin].
    rewrite Hsk in Hs2.
    exists ((goto s0 p, nv) :: skipn k upper), v0. split; [cbn [app]; rewrite <- Hs2; reflexivity|].
    constructor; [|apply Forall_skipn'; exact Hty].
    unfold entry_ok. cbn [fst snd]. rewrite Hgoto. exact Hnv.
  - exact I.
  - (* accept *)
    destruct Hs as [Hchk Hpaths].
    destruct rest as [|[s w] rest'].
    + exfalso. cbn in Hp. subst st. exact (chk0 tE tRhs sound_ok Hchk).
    + destruct upper as [|u1 upper'].
      * cbn in Hstk. inversion Hstk.
      * cbn in Hstk. inversion Hstk; subst u1. inversion Hty as [|? ? Hu _]; subst.
        unfold entry_ok in Hu. cbn [fst snd] in Hu. rewrite Hchk in Hu. exact Hu.
Qed.

Theorem run_inv : forall fuel stk inp v,
  path stk -> stack_ok stk -> input_ok inp -> run fuel stk inp = LRAccept v -> G START v.
Proof.
  induction fuel as [|f IH]; intros stk inp v Hp Hok Hin Hrun; [discriminate|].
  cbn [LR.run] in Hrun. pose proof (step_inv stk inp Hp Hok Hin) as Hs.
  destruct (step stk inp) as [v1 | | q | stk' inp'] eqn:Hstep; try discriminate.
  - inversion Hrun; subst. exact Hs.
  - destruct Hs as [Hok' Hin'].
    eapply IH; [| exact Hok' | exact Hin' | exact Hrun].
    exact (step_path tE wIn wTop certC cert_ok V tok_val reduce_action _ _ _ _ Hp Hstep).
Qed.

Corollary parse_inv : forall fuel v0 toks v,
  input_ok toks -> run fuel [(0, v0)] toks = LRAccept v -> G START v.
Proof.
  intros fuel v0 toks v Hin Hrun. eapply (run_inv fuel [(0, v0)] toks v); [reflexivity | | exact Hin | exact Hrun].
  exists [], v0. split; [reflexivity | constructor].
Qed.
End Invariant.
