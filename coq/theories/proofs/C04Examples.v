(* C04Examples.v — non-vacuity of C04's theorems on a concrete accepted program that uses every rule
   of the linear fragment except the shifts: cut, call, ⊗, ⊸, ⊕, &, 1, a positive forward (n2), a
   negative forward (f), print.  Everything is computed from the program TEXT by the model pipeline
   (parse_string, typecheck, init_config, exec_trace / exec_checked). *)
From stdpp Require Import gmap strings.
Require Import Grits.Base Grits.Forms Grits.Subst Grits.Expand Grits.Tc Grits.TcTop Grits.Runtime.
Require Import Grits.spec.Sax Grits.proofs.Causality Grits.proofs.SaxRefine.

Definition nl : string := String (Ascii.ascii_of_nat 10) "".
Definition ex_text : string :=
  "type nat = +{zero : 1, succ : nat}" ^^ nl ^^
  "type srv = &{ping : 1, echo : 1 -* 1}" ^^ nl ^^
  "let count(n : nat) : 1 = case n ( zero<c> => print zero; wait c; close self | succ<c> => print succ; count(c))" ^^ nl ^^
  "prc[s] : srv = case self ( ping<k> => print pinged; close self | echo<k> => <x, k2> <- recv self; wait x; print echoed; close self )" ^^ nl ^^
  "prc[f] : srv = fwd self s" ^^ nl ^^
  "prc[z] : 1 * nat = u : 1 <- new close self; t : 1 <- new close self; n0 : nat <- new self.zero<t>; n1 : nat <- new self.succ<n0>; n2 : nat <- new fwd self n1; send self<u, n2>" ^^ nl ^^
  "prc[c] : 1 = <y, k> <- recv z; r : 1 -* 1 <- new f.echo<self>; r2 : 1 <- new send r<y, self>; wait r2; print done; d <- new count(k); wait d; close self" ^^ nl.

Definition ex_prog : option program :=
  match parse_string ex_text with
  | POk p => match typecheck p with Accept p' => Some p' | _ => None end
  | _ => None
  end.
Definition pick0 : nat -> nat -> nat := fun _ _ => 0%nat.
(* another schedule: the last enabled choice *)
Definition pick_last : nat -> nat -> nat := fun _ n => pred n.

(* ---------------------------------------------------------------- the refinement is exercised *)
Definition checked_labels (pick : nat -> nat -> nat) : option (list string) :=
  match ex_prog with
  | Some p' =>
    match exec_checked 400 pick (p_types p') (p_funs p') (init_config p') with
    | Some (RQuiescent c) => Some (labels c)
    | _ => None
    end
  | None => None
  end.

Lemma ex_accepted_linear : exists p', ex_prog = Some p' /\ linear_program p' = true.
Proof. vm_compute. eexists. split; reflexivity. Qed.

Lemma ex_checked_run : checked_labels pick0 = Some ["echoed"; "done"; "succ"; "zero"].
Proof. vm_compute. reflexivity. Qed.
Lemma ex_checked_run_other_schedule : checked_labels pick_last = Some ["echoed"; "done"; "succ"; "zero"].
Proof. vm_compute. reflexivity. Qed.

(* hence (prints_admitted_checked_init) the reference semantics prints the same labels, from the
   program's own SAX initial configuration, using the linear rules only *)
Definition ex_single_b : bool := match ex_prog with Some p' => single_cfg_b (init_config p') | None => false end.
Lemma ex_single : ex_single_b = true.
Proof. vm_compute. reflexivity. Qed.

Lemma ex_sax_admits : exists p' C',
  ex_prog = Some p' /\
  sax_steps (p_funs p') false (sax_init p') ["echoed"; "done"; "succ"; "zero"] C'.
Proof.
  pose proof ex_checked_run as H. unfold checked_labels in H.
  pose proof ex_single as Hsg. unfold ex_single_b in Hsg.
  destruct ex_prog as [p'|]; [|done]. exists p'.
  destruct (exec_checked 400 pick0 (p_types p') (p_funs p') (init_config p')) as [r|] eqn:Hr; [|done].
  destruct r as [c| |]; try done. simplify_eq.
  destruct (prints_admitted_checked_init _ _ _ _ Hsg Hr) as (_ & Hs).
  exists (α c). split; [done|]. cbn [res_config] in Hs. by rewrite H in Hs.
Qed.

(* the rules of Sax.v fire by themselves: print, then the axiom `close self` is a message *)
Lemma ex_sax_direct : sax_steps [] false [SProc [0%nat] (FPrint "x" (FClose self_name))] ["x"] [SMsgP [0%nat] VUnit].
Proof.
  change ["x"] with (["x"] ++ []). eapply sax_trans; [|by apply sax_refl].
  exists [SProc [0%nat] (FPrint "x" (FClose self_name))], [obj [0%nat] (FClose self_name)], [].
  split_and!; [done|done|]. left. apply s_print.
Qed.

(* ---------------------------------------------------------------- the causal order is not empty *)
Definition ex_trace : list event :=
  Eval vm_compute in
    match ex_prog with
    | Some p' => snd (exec_trace 400 pick0 Async (p_types p') (p_funs p') (init_config p') [])
    | None => []
    end.

Definition recv_matched (tr : list event) (i : nat) (e : event) : bool :=
  match ev_recv e with
  | Some k => existsb (fun ej => match ev_send ej with Some k' => cid_eqb k k' | None => false end) (firstn i tr)
  | None => true
  end.
(* 37 events, 11 of them receives, each after a send on its channel; 4 prints *)
Lemma ex_trace_shape :
  length ex_trace = 37%nat /\
  length (filter (fun e => is_some (ev_recv e)) ex_trace) = 11%nat /\
  forallb (fun '(i, e) => recv_matched ex_trace i e) (imap (fun i e => (i, e)) ex_trace) = true /\
  concat (map ev_labels ex_trace) = ["echoed"; "done"; "succ"; "zero"].
Proof. vm_compute. repeat split; reflexivity. Qed.

(* `echoed` (event 21, process [0]) happens before `done` (event 24, process [3]):
   [0] prints, then sends on 3.4 (event 22); [3] receives on 3.4 (event 23), then prints *)
Lemma ex_hb_print_edge : hb ex_trace 21 24.
Proof.
  eapply tc_l; [|eapply tc_l; [|apply tc_once]].
  - eapply (hb_prog ex_trace 21 22 [0%nat]); [reflexivity|reflexivity|lia| |]; vm_compute; set_solver.
  - eapply (hb_comm ex_trace 22 23 [3; 4]%nat); [reflexivity|reflexivity|lia|reflexivity|reflexivity|].
    intros j' e' Hj'. lia.
  - eapply (hb_prog ex_trace 23 24 [3%nat]); [reflexivity|reflexivity|lia| |]; vm_compute; set_solver.
Qed.
