(* NPDeterminism.v — determinism of the non-polarized mode for contraction-free configurations: every
   peak closes with a balanced join (np_balanced: equal choices, independent choices by the diamond,
   the conflict shapes by NPJoinA / NPJoinBC), hence uniform termination (Balanced.uniform_balanced_bounded)
   and the agreement of all runs of the interpreter on completion and on the printed multiset. *)
From stdpp Require Import gmap strings sorting.
Require Import Grits.Base Grits.ModeDefs Grits.Modes Grits.STypes Grits.Forms Grits.Subst Grits.TcDeps Grits.Expand
               Grits.Runtime Grits.RuntimeFootprint Grits.spec.RtTyping Grits.spec.Topo.
Require Import Grits.proofs.RtSubst Grits.proofs.StepErrors Grits.proofs.RtSafety Grits.proofs.RtSafetyNP Grits.proofs.TopoLin Grits.proofs.RuntimeFacts
               Grits.proofs.Diamond Grits.proofs.Determinism Grits.proofs.AsyncSync Grits.proofs.TopoStep Grits.proofs.InvAll Grits.proofs.InvNP
               Grits.proofs.NPCfree Grits.proofs.NPJoin Grits.proofs.Balanced Grits.proofs.NPJoinA Grits.proofs.NPJoinBC Grits.proofs.NPConfluence.

Section NPDet.
Variable D : tenv.
Variable F : list fundef.
Variable teq : sty -> sty -> Prop.
Hypothesis Hteq : teq_laws D teq.
Hypothesis HF : funs_typed D F teq.
Hypothesis HFa : funs_aff F.
Hypothesis HFn : nofd_funs F.
Hypothesis HFc : cfree_funs F.
Notation JN := (JN D F teq).
Notation stpN := (stp NP D F).
Notation runN := (bsteps stpN).

Lemma prov_chan Δ c p pp n : cfg_typed D F teq Δ c -> procs c !! p = Some pp -> pr_provs pp = [n] -> exists kf, chan n = Some kf.
Proof.
  intros Hc Hp Hn. destruct (ct_procs D F teq Δ c Hc p pp Hp) as (s & rs & _ & Hprovs & _). rewrite Hn in Hprovs.
  apply Forall_inv in Hprovs. destruct Hprovs as (c0 & t' & Hc0 & _). eauto.
Qed.

(* Control f t / Rendezvous s t: t receives on a client channel *)
Theorem join_ctl_rdv_recv c f t s c1 c2 N :
  JN c -> step NP D F c (Control f t) = SStep c2 -> step NP D F c (Rendezvous s t) = SStep c1 ->
  ((forall m c', runN m c1 c' -> (m <= N)%nat) \/ (forall m c', runN m c2 c' -> (m <= N)%nat)) ->
  exists k' d, runN k' c1 d /\ runN k' c2 d.
Proof.
  intros HJ H2 H1 Hbound. pose proof HJ as (HI & Hb & Hcf). pose proof HI as [[Δ Hc] Ht _ Hns _ _ _].
  destruct (ctl_of_step D F c f t c2 Hcf H2) as (nf & k & pt & Hr & -> & Hpt & Hpoll).
  pose proof (ctl_fire D F c f t nf k pt Hr Hpt Hpoll) as Hfire.
  pose proof Hr as (Hft & pf & pt' & n0 & Hf & Hpt' & Eaf & Hn0 & Hk). rewrite Hpt in Hpt'. injection Hpt' as <-.
  revert H1. cbn [step]. destruct (bool_decide (s = t)) eqn:Est; [done|]. apply bool_decide_eq_false in Est.
  destruct (procs c !! s) as [ps|] eqn:Hs; [|done]. rewrite Hpt.
  destruct (action_of NP D ps) as [| |k2 m|k0| |k0 pv|w] eqn:Eas; try done.
  destruct (action_of NP D pt) as [| |k0 m'|k2'| |k0 pv'|w'] eqn:Ear; try done.
  destruct (bool_decide (k2 = k2')) eqn:Ekk; [|done]. apply bool_decide_eq_true in Ekk. subst k2'.
  destruct (chans c !! k2) as [st|] eqn:Hch; [|done]. destruct (ch_closed st) eqn:Hcl; [done|].
  destruct (on_message t pt m) as [e|] eqn:He; [|done]. cbn [eff_step]. intros [= <-].
  pose proof (np_action_async D ps _ Eas I) as Eas'. pose proof (np_act_nonfwd D ps _ Eas I) as Hnfs.
  destruct (nonfwd_send_rule D ps k2 m Eas' Hnfs) as [Hfw Hgc].
  assert (Hsf : s <> f) by (intros ->; rewrite Hs in Hf; injection Hf as <-; congruence).
  assert (Hk2 : k2 <> k).
  { intros ->. destruct (np_actor_own D c s ps k Hs (or_intror (ex_intro _ m Eas'))) as [H|H].
    - apply Est. assert (E : OProc s ps = OProc t pt); [|by injection E]. eapply (topo_prov_unique c Ht _ _ k); eauto. cbn. rewrite Hn0. cbn. rewrite Hk. set_solver.
    - apply Hsf. assert (E : OProc s ps = OProc f pf); [|by injection E]. eapply (topo_ref_unique c Ht _ _ k); eauto.
      destruct (ctrl_inv D pf k [nf] Eaf) as (to & from & d & Hbody & Hfrom & _). cbn. rewrite Hbody. simpl. unfold name_chans at 2. rewrite Hfrom. set_solver. }
  destruct (ctrl_inv D pf k [nf] Eaf) as (_ & _ & _ & _ & _ & Hpfp). destruct (prov_chan Δ c f pf nf Hc Hf (eq_sym Hpfp)) as [kf Hkf].
  destruct pt as [provs body nx]. cbn in Hn0. subst provs.
  destruct (ctl_rdv_recv_commute D F c f t nf k n0 body nx s ps k2 m st e Hns Hr Hpt Hs Est Eas Ear Hk2 Hch Hcl He Hfw Hgc (ex_intro _ kf Hkf)) as (Hs1 & Hs2 & Hr1).
  eapply (join_generic D F teq Hteq HF HFa HFn HFc c f t t nf k (Rendezvous s t)); eauto.
Qed.

(* Control f t / Rendezvous t r: t sends itself as continuation; the control message then goes to r *)
Theorem join_ctl_rdv_send c f t r c1 c2 N :
  JN c -> step NP D F c (Control f t) = SStep c2 -> step NP D F c (Rendezvous t r) = SStep c1 ->
  ((forall m c', runN m c1 c' -> (m <= N)%nat) \/ (forall m c', runN m c2 c' -> (m <= N)%nat)) ->
  exists k' d, runN k' c1 d /\ runN k' c2 d.
Proof.
  intros HJ H2 H1 Hbound. pose proof HJ as (HI & Hb & Hcf). pose proof HI as [[Δ Hc] Ht _ Hns _ _ _].
  destruct (ctl_of_step D F c f t c2 Hcf H2) as (nf & k & pt & Hr & -> & Hpt & Hpoll).
  pose proof (ctl_fire D F c f t nf k pt Hr Hpt Hpoll) as Hfire.
  pose proof Hr as (Hft & pf & pt' & n0 & Hf & Hpt' & Eaf & Hn0 & Hk). rewrite Hpt in Hpt'. injection Hpt' as <-.
  pose proof H1 as H1'. revert H1. cbn [step]. destruct (bool_decide (t = r)) eqn:Etr; [done|]. apply bool_decide_eq_false in Etr.
  rewrite Hpt. destruct (procs c !! r) as [pr|] eqn:Hpr; [|done].
  destruct (action_of NP D pt) as [| |k2 m|k0| |k0 pv|w] eqn:Eas; try done.
  destruct (action_of NP D pr) as [| |k0 m'|k2'| |k0 pv'|w'] eqn:Ear; try done.
  destruct (bool_decide (k2 = k2')) eqn:Ekk; [|done]. apply bool_decide_eq_true in Ekk. subst k2'.
  destruct (chans c !! k2) as [st|] eqn:Hch; [|done]. destruct (ch_closed st) eqn:Hcl; [done|].
  destruct (on_message r pr m) as [e|] eqn:He; [|done]. cbn [eff_step]. intros [= <-].
  pose proof (np_action_async D pr _ Ear I) as Ear'. pose proof (np_act_nonfwd D pr _ Ear I) as Hnfr.
  assert (Hrf : f <> r) by (intros ->; rewrite Hf in Hpr; injection Hpr as <-; congruence).
  assert (Hk2 : k2 <> k).
  { intros ->. destruct (np_actor_own D c r pr k Hpr (or_introl Ear')) as [H|H].
    - apply Etr. assert (E : OProc t pt = OProc r pr); [|by injection E]. eapply (topo_prov_unique c Ht _ _ k); eauto. cbn. rewrite Hn0. cbn. rewrite Hk. set_solver.
    - apply Hrf. assert (E : OProc f pf = OProc r pr); [|by injection E]. eapply (topo_ref_unique c Ht _ _ k); eauto.
      destruct (ctrl_inv D pf k [nf] Eaf) as (to & from & d & Hbody & Hfrom & _). cbn. rewrite Hbody. simpl. unfold name_chans at 2. rewrite Hfrom. set_solver. }
  destruct (ctrl_inv D pf k [nf] Eaf) as (_ & _ & _ & _ & _ & Hpfp). destruct (prov_chan Δ c f pf nf Hc Hf (eq_sym Hpfp)) as [kf Hkf].
  destruct pt as [provs body nx]. cbn in Hn0. subst provs.
  destruct (send_client_provs D n0 nf k kf body nx k2 m Hk Hkf Hk2 Eas) as (M & HM & -> & Eas2).
  destruct (recv_self_generic r pr M n0 e HM Hnfr He) as (B & -> & Hall).
  set (c1 := apply_effect (del_proc c t) r pr (eff_with [n0] B (pr_next pr) [] [] [])) in *.
  assert (Hs2 : step NP D F (ctl nf k f t c) (Rendezvous t r) = SStep (ctl nf k f r c1)).
  { assert (Hl1 : procs (ctl nf k f t c) !! t = Some (Proc [nf] body nx)) by (unfold ctl; rewrite Hpt; cbn; apply lookup_insert).
    assert (Hl2 : procs (ctl nf k f t c) !! r = Some pr) by (unfold ctl; rewrite Hpt; cbn; rewrite lookup_insert_ne by done; by rewrite lookup_delete_ne).
    assert (Hl3 : chans (ctl nf k f t c) !! k2 = Some st).
    { unfold ctl. rewrite Hpt. cbn [chans]. rewrite close_all_lookup. rewrite decide_False; [done|]. intros H. apply elem_of_list_singleton in H. done. }
    cbn [step]. rewrite bool_decide_eq_false_2 by done. rewrite Hl1, Hl2, Eas2, Ear. rewrite bool_decide_eq_true_2 by done. rewrite Hl3, Hcl, (Hall nf). cbn [eff_step]. f_equal.
    symmetry. unfold c1. eapply ctl_send_commute; eauto. }
  assert (Hr1 : CtlReady D c1 f r nf k).
  { split; [done|]. unfold c1. rewrite apply_effect_eq. unfold eff_with, procs_after. cbn [e_after procs e_spawn e_newch del_proc].
    exists pf, (Proc [n0] B (eff_next1 pr (Eff (Continue (Proc [n0] B (pr_next pr))) [] [] [] []))), n0.
    split; [|split; [apply lookup_insert|done]].
    rewrite lookup_insert_ne by done. unfold spawned. cbn. rewrite (left_id_L ∅ (∪)). by rewrite lookup_delete_ne. }
  eapply (join_generic D F teq Hteq HF HFa HFn HFc c f t r nf k (Rendezvous t r)); eauto.
Qed.
End NPDet.
