(* NPDeterminism.v — determinism of the non-polarized mode for contraction-free configurations: every
   peak closes with a balanced join (np_balanced: equal choices, independent choices by the diamond,
   the conflict shapes by NPJoinA / NPJoinBC), hence uniform termination (Balanced.uniform_balanced_bounded)
   and the agreement of all runs of the interpreter on completion and on the printed multiset. *)
From stdpp Require Import gmap strings sorting.
Require Import Grits.Base Grits.ModeDefs Grits.Modes Grits.STypes Grits.Forms Grits.Subst Grits.TcDeps Grits.Expand
               Grits.Runtime Grits.RuntimeFootprint Grits.spec.RtTyping Grits.spec.Topo.
Require Import Grits.proofs.RtSubst Grits.proofs.StepErrors Grits.proofs.RtSafety Grits.proofs.RtSafetyNP Grits.proofs.TopoLin Grits.proofs.RuntimeFacts
               Grits.proofs.Diamond Grits.proofs.Determinism Grits.proofs.AsyncSync Grits.proofs.TopoStep Grits.proofs.InvAll Grits.proofs.InvNP
               Grits.proofs.NPCfree Grits.proofs.NPJoin Grits.proofs.Balanced Grits.proofs.NPJoinA Grits.proofs.NPJoinBC Grits.proofs.NPConfluence.

Section NPDet.
Variable D : tenv.
Variable F : list fundef.
Variable teq : sty -> sty -> Prop.
Hypothesis Hteq : teq_laws D teq.
Hypothesis HF : funs_typed D F teq.
Hypothesis HFa : funs_aff F.
Hypothesis HFn : nofd_funs F.
Hypothesis HFc : cfree_funs F.
Notation JN := (JN D F teq).
Notation stpN := (stp NP D F).
Notation runN := (bsteps stpN).

Lemma prov_chan Δ c p pp n : cfg_typed D F teq Δ c -> procs c !! p = Some pp -> pr_provs pp = [n] -> exists kf, chan n = Some kf.
Proof.
  intros Hc Hp Hn. destruct (ct_procs D F teq Δ c Hc p pp Hp) as (s & rs & _ & Hprovs & _). rewrite Hn in Hprovs.
  apply Forall_inv in Hprovs. destruct Hprovs as (c0 & t' & Hc0 & _). eauto.
Qed.

(* Control f t / Rendezvous s t: t receives on a client channel *)
Theorem join_ctl_rdv_recv c f t s c1 c2 N :
  JN c -> step NP D F c (Control f t) = SStep c2 -> step NP D F c (Rendezvous s t) = SStep c1 ->
  ((forall m c', runN m c1 c' -> (m <= N)%nat) \/ (forall m c', runN m c2 c' -> (m <= N)%nat)) ->
  exists k' d, runN k' c1 d /\ runN k' c2 d.
Proof.
  intros HJ H2 H1 Hbound. pose proof HJ as (HI & Hb & Hcf). pose proof HI as [[Δ Hc] Ht _ Hns _ _ _].
  destruct (ctl_of_step D F c f t c2 Hcf H2) as (nf & k & pt & Hr & -> & Hpt & Hpoll).
  pose proof (ctl_fire D F c f t nf k pt Hr Hpt Hpoll) as Hfire.
  pose proof Hr as (Hft & pf & pt' & n0 & Hf & Hpt' & Eaf & Hn0 & Hk). rewrite Hpt in Hpt'. injection Hpt' as <-.
  revert H1. cbn [step]. destruct (bool_decide (s = t)) eqn:Est; [done|]. apply bool_decide_eq_false in Est.
  destruct (procs c !! s) as [ps|] eqn:Hs; [|done]. rewrite Hpt.
  destruct (action_of NP D ps) as [| |k2 m|k0| |k0 pv|w] eqn:Eas; try done.
  destruct (action_of NP D pt) as [| |k0 m'|k2'| |k0 pv'|w'] eqn:Ear; try done.
  destruct (bool_decide (k2 = k2')) eqn:Ekk; [|done]. apply bool_decide_eq_true in Ekk. subst k2'.
  destruct (chans c !! k2) as [st|] eqn:Hch; [|done]. destruct (ch_closed st) eqn:Hcl; [done|].
  destruct (on_message t pt m) as [e|] eqn:He; [|done]. cbn [eff_step]. intros [= <-].
  pose proof (np_action_async D ps _ Eas I) as Eas'. pose proof (np_act_nonfwd D ps _ Eas I) as Hnfs.
  destruct (nonfwd_send_rule D ps k2 m Eas' Hnfs) as [Hfw Hgc].
  assert (Hsf : s <> f) by (intros ->; rewrite Hs in Hf; injection Hf as <-; congruence).
  assert (Hk2 : k2 <> k).
  { intros ->. destruct (np_actor_own D c s ps k Hs (or_intror (ex_intro _ m Eas'))) as [H|H].
    - apply Est. assert (E : OProc s ps = OProc t pt); [|by injection E]. eapply (topo_prov_unique c Ht _ _ k); eauto. cbn. rewrite Hn0. cbn. rewrite Hk. set_solver.
    - apply Hsf. assert (E : OProc s ps = OProc f pf); [|by injection E]. eapply (topo_ref_unique c Ht _ _ k); eauto.
      destruct (ctrl_inv D pf k [nf] Eaf) as (to & from & d & Hbody & Hfrom & _). cbn. rewrite Hbody. simpl. unfold name_chans at 2. rewrite Hfrom. set_solver. }
  destruct (ctrl_inv D pf k [nf] Eaf) as (_ & _ & _ & _ & _ & Hpfp). destruct (prov_chan Δ c f pf nf Hc Hf (eq_sym Hpfp)) as [kf Hkf].
  destruct pt as [provs body nx]. cbn in Hn0. subst provs.
  destruct (ctl_rdv_recv_commute D F c f t nf k n0 body nx s ps k2 m st e Hns Hr Hpt Hs Est Eas Ear Hk2 Hch Hcl He Hfw Hgc (ex_intro _ kf Hkf)) as (Hs1 & Hs2 & Hr1).
  eapply (join_generic D F teq Hteq HF HFa HFn HFc c f t t nf k (Rendezvous s t)); eauto.
Qed.

(* Control f t / Rendezvous t r: t sends itself as continuation; the control message then goes to r *)
Theorem join_ctl_rdv_send c f t r c1 c2 N :
  JN c -> step NP D F c (Control f t) = SStep c2 -> step NP D F c (Rendezvous t r) = SStep c1 ->
  ((forall m c', runN m c1 c' -> (m <= N)%nat) \/ (forall m c', runN m c2 c' -> (m <= N)%nat)) ->
  exists k' d, runN k' c1 d /\ runN k' c2 d.
Proof.
  intros HJ H2 H1 Hbound. pose proof HJ as (HI & Hb & Hcf). pose proof HI as [[Δ Hc] Ht _ Hns _ _ _].
  destruct (ctl_of_step D F c f t c2 Hcf H2) as (nf & k & pt & Hr & -> & Hpt & Hpoll).
  pose proof (ctl_fire D F c f t nf k pt Hr Hpt Hpoll) as Hfire.
  pose proof Hr as (Hft & pf & pt' & n0 & Hf & Hpt' & Eaf & Hn0 & Hk). rewrite Hpt in Hpt'. injection Hpt' as <-.
  pose proof H1 as H1'. revert H1. cbn [step]. destruct (bool_decide (t = r)) eqn:Etr; [done|]. apply bool_decide_eq_false in Etr.
  rewrite Hpt. destruct (procs c !! r) as [pr|] eqn:Hpr; [|done].
  destruct (action_of NP D pt) as [| |k2 m|k0| |k0 pv|w] eqn:Eas; try done.
  destruct (action_of NP D pr) as [| |k0 m'|k2'| |k0 pv'|w'] eqn:Ear; try done.
  destruct (bool_decide (k2 = k2')) eqn:Ekk; [|done]. apply bool_decide_eq_true in Ekk. subst k2'.
  destruct (chans c !! k2) as [st|] eqn:Hch; [|done]. destruct (ch_closed st) eqn:Hcl; [done|].
  destruct (on_message r pr m) as [e|] eqn:He; [|done]. cbn [eff_step]. intros [= <-].
  pose proof (np_action_async D pr _ Ear I) as Ear'. pose proof (np_act_nonfwd D pr _ Ear I) as Hnfr.
  assert (Hrf : f <> r) by (intros ->; rewrite Hf in Hpr; injection Hpr as <-; congruence).
  assert (Hk2 : k2 <> k).
  { intros ->. destruct (np_actor_own D c r pr k Hpr (or_introl Ear')) as [H|H].
    - apply Etr. assert (E : OProc t pt = OProc r pr); [|by injection E]. eapply (topo_prov_unique c Ht _ _ k); eauto. cbn. rewrite Hn0. cbn. rewrite Hk. set_solver.
    - apply Hrf. assert (E : OProc f pf = OProc r pr); [|by injection E]. eapply (topo_ref_unique c Ht _ _ k); eauto.
      destruct (ctrl_inv D pf k [nf] Eaf) as (to & from & d & Hbody & Hfrom & _). cbn. rewrite Hbody. simpl. unfold name_chans at 2. rewrite Hfrom. set_solver. }
  destruct (ctrl_inv D pf k [nf] Eaf) as (_ & _ & _ & _ & _ & Hpfp). destruct (prov_chan Δ c f pf nf Hc Hf (eq_sym Hpfp)) as [kf Hkf].
  destruct pt as [provs body nx]. cbn in Hn0. subst provs.
  destruct (send_client_provs D n0 nf k kf body nx k2 m Hk Hkf Hk2 Eas) as (M & HM & -> & Eas2).
  destruct (recv_self_generic r pr M n0 e HM Hnfr He) as (B & -> & Hall).
  set (c1 := apply_effect (del_proc c t) r pr (eff_with [n0] B (pr_next pr) [] [] [])) in *.
  assert (Hs2 : step NP D F (ctl nf k f t c) (Rendezvous t r) = SStep (ctl nf k f r c1)).
  { assert (Hl1 : procs (ctl nf k f t c) !! t = Some (Proc [nf] body nx)) by (unfold ctl; rewrite Hpt; cbn; apply lookup_insert).
    assert (Hl2 : procs (ctl nf k f t c) !! r = Some pr) by (unfold ctl; rewrite Hpt; cbn; rewrite lookup_insert_ne by done; by rewrite lookup_delete_ne).
    assert (Hl3 : chans (ctl nf k f t c) !! k2 = Some st).
    { unfold ctl. rewrite Hpt. cbn [chans]. rewrite close_all_lookup. rewrite decide_False; [done|]. intros H. apply elem_of_list_singleton in H. done. }
    cbn [step]. rewrite bool_decide_eq_false_2 by done. rewrite Hl1, Hl2, Eas2, Ear. rewrite bool_decide_eq_true_2 by done. rewrite Hl3, Hcl, (Hall nf). cbn [eff_step]. f_equal.
    symmetry. unfold c1. eapply ctl_send_commute; eauto. }
  assert (Hr1 : CtlReady D c1 f r nf k).
  { split; [done|]. unfold c1. rewrite apply_effect_eq. unfold eff_with, procs_after. cbn [e_after procs e_spawn e_newch del_proc].
    exists pf, (Proc [n0] B (eff_next1 pr (Eff (Continue (Proc [n0] B (pr_next pr))) [] [] [] []))), n0.
    split; [|split; [apply lookup_insert|done]].
    rewrite lookup_insert_ne by done. unfold spawned. cbn. rewrite (left_id_L ∅ (∪)). by rewrite lookup_delete_ne. }
  eapply (join_generic D F teq Hteq HF HFa HFn HFc c f t r nf k (Rendezvous t r)); eauto.
Qed.

(* ------------------------------------------------------------------ every peak closes *)
Lemma conflict_join c a b ca cb N : JN c -> np_conflict a b ->
  step NP D F c a = SStep ca -> step NP D F c b = SStep cb ->
  ((forall m c', runN m cb c' -> (m <= N)%nat) \/ (forall m c', runN m ca c' -> (m <= N)%nat)) ->
  exists k d, runN k cb d /\ runN k ca d.
Proof.
  intros HJ Hcf Ha Hb Hbound. destruct Hcf as [f t|f t r|f t s|f t t'].
  - eapply join_ctl_run; eauto.
  - eapply join_ctl_rdv_send; eauto.
  - eapply join_ctl_rdv_recv; eauto.
  - destruct (join_ctl_ctl D F teq Hteq HF HFa HFn HFc c f t t' ca cb HJ Ha Hb) as (d & H1 & H2).
    exists 1%nat, d. split; (eapply bs_S; [apply stp_Some; eauto|apply bs_O]).
Qed.

Theorem np_balanced c a b c1 c2 N : JN c -> stpN c a = Some c1 -> stpN c b = Some c2 ->
  (forall m c', runN m c1 c' -> (m <= N)%nat) ->
  exists k d1 d2, runN k c1 d1 /\ runN k c2 d2 /\ cfg_equiv d1 d2.
Proof.
  intros HJ Ha Hb Hbound. apply stp_Some in Ha, Hb. pose proof HJ as (HI & Hbe & Hcf). pose proof HI as [[Δ Hc] Ht _ Hns _ _ _].
  destruct (decide (a = b)) as [->|Hab].
  { rewrite Ha in Hb. injection Hb as <-. exists 0%nat, c1, c1. split; [apply bs_O|]. split; [apply bs_O|done]. }
  destruct (np_peak_cases D F teq Hteq HF Δ c Hc Ht Hbe a b c1 c2 Hab Ha Hb) as [Hi|[Hcf'|Hcf']].
  - destruct (diamond NP D F c a b c1 c2 Hns Hi Ha Hb) as (d1 & d2 & H1 & H2 & He).
    exists 1%nat, d1, d2. split; [eapply bs_S; [by apply stp_Some|apply bs_O]|]. split; [eapply bs_S; [by apply stp_Some|apply bs_O]|done].
  - destruct (conflict_join c a b c1 c2 N HJ Hcf' Ha Hb (or_intror Hbound)) as (k & d & H1 & H2). exists k, d, d. done.
  - destruct (conflict_join c b a c2 c1 N HJ Hcf' Hb Ha (or_introl Hbound)) as (k & d & H1 & H2). exists k, d, d. done.
Qed.

(* ------------------------------------------------------------------ uniform termination and the runs of the interpreter *)
Lemma JN_stp' c a c' : JN c -> stpN c a = Some c' -> JN c'.
Proof. apply (JN_stp D F teq Hteq HF HFa HFn HFc). Qed.

Lemma nsteps_bsteps n c t : nsteps stpN n c t -> runN n c t.
Proof. induction 1; [apply bs_O|eapply bs_S; eauto]. Qed.

Theorem np_uniform n c t : JN c -> runN n c t -> bterminal stpN t ->
  forall m c', runN m c c' -> (m <= n)%nat /\ exists t', runN (n - m) c' t' /\ cfg_equiv t' t.
Proof.
  intros HJ. apply (uniform_balanced_bounded stpN cfg_equiv JN (stp_eqv NP D F) JN_stp'); [|exact HJ].
  intros c0 a b c1 c2 N HJ0 Ha Hb Hbd. eapply np_balanced; eauto.
Qed.

Lemma np_no_error c ch who e : JN c -> step NP D F c ch <> SError who e.
Proof.
  intros (HI & _). destruct HI as [[Δ Hc] Ht _ _ _ _ _]. eapply (no_error_np D F teq Hteq HF); eauto. by apply topo_closed_unused_np.
Qed.

Lemma exec_run_complete_np pick fuel : forall n c t,
  JN c -> runN n c t -> quiescent NP D F t -> (n < fuel)%nat ->
  exists t', exec_run fuel pick NP D F c = RQuiescent t' /\ cfg_equiv t' t.
Proof.
  induction fuel as [|f IH]; intros n c t HJ Hn Hq Hf; [lia|].
  assert (Ht : bterminal stpN t) by (intros a; unfold stp; by rewrite Hq). cbn [exec_run].
  destruct (enabled NP D F c) as [|e0 es] eqn:E.
  - exists c. split; [done|]. apply enabled_nil_quiescent in E.
    inversion Hn as [|n0 c0 a c1 t0 Hs _]; subst; [done|]. apply stp_Some in Hs. by rewrite E in Hs.
  - set (ch := nth _ _ _).
    assert (Hin : In ch (enabled NP D F c)).
    { rewrite E. apply nth_In. cbn [length]. apply Nat.mod_upper_bound. lia. }
    apply enabled_spec in Hin. destruct (step NP D F c ch) as [|c'|who e] eqn:Es; [done| |].
    + assert (Hs : stpN c ch = Some c') by (by apply stp_Some).
      assert (H1 : runN 1 c c') by (eapply bs_S; [exact Hs|apply bs_O]).
      destruct (np_uniform n c t HJ Hn Ht 1%nat c' H1) as [Hle (t1 & Ht1 & He1)].
      assert (Hq1 : quiescent NP D F t1) by (eapply quiescent_equiv; [|exact Hq]; by symmetry).
      destruct (IH (n - 1)%nat c' t1 (JN_stp' _ _ _ HJ Hs) Ht1 Hq1 ltac:(lia)) as (t' & Hr & He).
      exists t'. split; [done|]. by etrans.
    + by destruct (np_no_error c ch who e HJ).
Qed.

(* determinism of the non-polarized mode, for configurations *)
Theorem determinism_np_cfree_cfg c pick1 pick2 f1 f2 t1 :
  JN c -> exec_run f1 pick1 NP D F c = RQuiescent t1 -> (f1 <= f2)%nat ->
  exists t2, exec_run f2 pick2 NP D F c = RQuiescent t2 /\ cfg_equiv t2 t1 /\ labels t2 ≡ₚ labels t1.
Proof.
  intros HJ H1 Hf. apply exec_run_sound in H1 as (n & Hn & Hr & Hq). apply nsteps_bsteps in Hr.
  destruct (exec_run_complete_np pick2 f2 n c t1 HJ Hr Hq ltac:(lia)) as (t2 & H2 & He).
  exists t2. split; [done|]. split; [done|]. by apply cfg_equiv_labels.
Qed.
End NPDet.
