(* LRSoundInst.v — the soundness part of the certificate check for the CURRENT tables (vm_compute;
   own file: recompiled only when gen/LRTables.v or gen/LRCert.v change). *)
Require Import Grits.Base Grits.Tokens Grits.gen.LRTables Grits.gen.LRCert Grits.LR
               Grits.proofs.LRCheck Grits.proofs.LRSound.
Local Open Scope Z_scope.

Lemma sound_ok : check_sound tE tRhs = true.
Proof. vm_compute. reflexivity. Qed.
