(* SaxInv.v — the STRUCTURAL part of the invariant of the SAX refinement (proofs/SaxRefine.v) is
   inductive: one initialised provider per process, bodies and definitions in the linear fragment,
   well-formed buffered messages, and the freshness of what a cut allocates (all channel and process
   identifiers in use are below the per-process counters).  `ginv` collects them; it holds of the
   initial configuration of every linear program whose source mentions no channel constants, and
   every Async step preserves it — given the residue `tres` of the configuration typing that this
   development does not prove (C01: Typed + Topo): a forward request only reaches a non-forward
   process waiting on its own channel, and nobody receives from a closed empty channel.
   Result: `prints_admitted_residue`, the run-level refinement with `tres` as its only premise
   about configurations. *)
From stdpp Require Import gmap strings.
Require Import Grits.Base Grits.ModeDefs Grits.Modes Grits.STypes Grits.Forms Grits.Subst Grits.TcDeps Grits.Expand Grits.Runtime.
Require Import Grits.TcTop Grits.spec.Sax Grits.proofs.Causality Grits.proofs.SaxRefine.

(* ------------------------------------------------------------------ the fragment is closed under substitution *)
Lemma lin_subst_mut :
  (forall f old new, lin_form (subst old new f) = lin_form f) /\
  (forall bs old new, lin_brs (subst_brs old new bs) = lin_brs bs).
Proof.
  apply form_branches_ind; intros; cbn; try done.
  - destruct (_ && _); auto.
  - rewrite H. destruct (negb _); [by rewrite H0|done].
  - destruct (negb _); auto.
  - rewrite H0. destruct (negb _); [by rewrite H|done].
Qed.
Lemma lin_subst f old new : lin_form (subst old new f) = lin_form f.
Proof. apply lin_subst_mut. Qed.

Lemma lin_subst_params ps : forall args b, lin_form (subst_params ps args b) = lin_form b.
Proof. induction ps as [|p ps IH]; intros [|a args] b; cbn; try done. by rewrite IH, lin_subst. Qed.

Lemma get_function_In F fn ar fd : get_function F fn ar = Some fd -> In fd F.
Proof.
  induction F as [|d F IH]; cbn; [done|]. destruct (_ && _); [intros [= ->]; by left|]. intros H. right. auto.
Qed.

Lemma lin_unfold_call F fn args b :
  (forall fd, In fd F -> lin_form (fn_body fd) = true) -> unfold_call F fn args = Some b -> lin_form b = true.
Proof.
  intros HF. unfold unfold_call. destruct (get_function F fn (length args)) as [fd|] eqn:Hg; [|done].
  apply get_function_In in Hg. specialize (HF fd Hg).
  destruct (_ =? _)%nat; [intros [= <-]; by rewrite lin_subst_params|].
  destruct (_ =? _)%nat; [|done]. destruct args as [|a0 rest]; [done|]. intros [= <-].
  rewrite lin_subst_params. destruct (fn_explicit fd); [by rewrite lin_subst|done].
Qed.

Lemma lin_find_branch l bs y Q : lin_brs bs = true -> find_branch l bs = Some (y, Q) -> lin_form Q = true.
Proof.
  induction bs as [|l' y' k r IH]; cbn; [done|]. intros [Hk Hr]%andb_prop.
  destruct (String.eqb l' l); [intros [= <- <-]; done|auto].
Qed.

(* ------------------------------------------------------------------ channels of a substituted term *)
Lemma name_cids_subst old new n k :
  k ∈ name_cids (name_subst old new n) -> k ∈ name_cids n \/ k ∈ name_cids new.
Proof. unfold name_subst. repeat case_match; cbn; auto. Qed.

Lemma names_cids_app l1 l2 : names_cids (l1 ++ l2) = names_cids l1 ++ names_cids l2.
Proof. unfold names_cids. apply flat_map_app. Qed.

(* every name of a substituted term is a name of the term, possibly substituted *)
Definition from_names (old new : name) (l : list name) (n' : name) : Prop :=
  exists n, n ∈ l /\ (n' = n \/ n' = name_subst old new n).

Lemma from_names_mono old new l l' n' : (forall n, n ∈ l -> n ∈ l') -> from_names old new l n' -> from_names old new l' n'.
Proof. intros Hl (n & Hn & Hor). exists n. auto. Qed.
Lemma from_names_here old new l n : n ∈ l -> from_names old new l (name_subst old new n).
Proof. intros. exists n. auto. Qed.
Lemma from_names_same old new l n : n ∈ l -> from_names old new l n.
Proof. intros. exists n. auto. Qed.

Ltac mem :=
  first [ assumption | apply elem_of_list_here | (apply elem_of_list_further; mem)
        | (apply elem_of_app; first [left; mem | right; mem]) ].
Ltac mono := let n := fresh "n" in let Hn := fresh "Hn" in intros n Hn; mem.

Ltac split_in :=
  repeat match goal with
  | H : _ ∈ _ :: _ |- _ => apply elem_of_cons in H as [->|H]
  | H : _ ∈ _ ++ _ |- _ => apply elem_of_app in H as [H|H]
  | H : _ ∈ [] |- _ => by apply elem_of_nil in H
  end.

Lemma form_names_subst_mut (old new : name) :
  (forall f n', n' ∈ form_names (subst old new f) -> from_names old new (form_names f) n') /\
  (forall bs n', n' ∈ brs_names (subst_brs old new bs) -> from_names old new (brs_names bs) n').
Proof.
  apply form_branches_ind; intros; cbn in *.
  all: try (split_in; first [apply from_names_here; mem | apply from_names_same; mem]).
  - (* recv *) destruct (_ && _); split_in.
    all: try first [apply from_names_here; mem | apply from_names_same; mem].
    all: eapply from_names_mono; [|eauto]; mono.
  - (* case *) split_in; [apply from_names_here; mem|].
    eapply from_names_mono; [|eauto]; mono.
  - (* new *) split_in; [apply from_names_same; mem| |].
    + eapply from_names_mono; [|eauto]; mono.
    + destruct (negb _); (eapply from_names_mono; [|first [by eauto | by apply from_names_same]]; mono).
  - (* wait *) split_in; [apply from_names_here; mem|]. eapply from_names_mono; [|eauto]; mono.
  - (* split *) destruct (_ && _); split_in.
    all: try first [apply from_names_here; mem | apply from_names_same; mem].
    all: eapply from_names_mono; [|eauto]; mono.
  - (* call *) apply elem_of_list_In, in_map_iff in H as (n & <- & Hn). apply from_names_here. by apply elem_of_list_In.
  - (* shift *) destruct (negb _); split_in.
    all: try first [apply from_names_here; mem | apply from_names_same; mem].
    all: eapply from_names_mono; [|eauto]; mono.
  - (* drop *) split_in; [apply from_names_here; mem|]. eapply from_names_mono; [|eauto]; mono.
  - (* print *) eauto.
  - (* branches *) split_in; [apply from_names_same; mem| |].
    + destruct (negb _); (eapply from_names_mono; [|first [by eauto | by apply from_names_same]]; mono).
    + eapply from_names_mono; [|eauto]; mono.
Qed.

Lemma elem_of_flat_map {A B} (g : A -> list B) (l : list A) (k : B) :
  k ∈ flat_map g l <-> exists n, n ∈ l /\ k ∈ g n.
Proof.
  rewrite elem_of_list_In, in_flat_map. split; intros (n & Hn & Hk); exists n.
  - by rewrite !elem_of_list_In.
  - by rewrite <- !elem_of_list_In.
Qed.

Lemma form_cids_subst old new f k :
  k ∈ form_cids (subst old new f) -> k ∈ form_cids f \/ k ∈ name_cids new.
Proof.
  unfold form_cids. rewrite !elem_of_flat_map. intros (n' & Hn' & Hk).
  apply (proj1 (form_names_subst_mut old new)) in Hn' as (n & Hn & [->| ->]).
  - left. eauto.
  - apply name_cids_subst in Hk as [Hk|Hk]; [left; eauto|by right].
Qed.

Lemma form_cids_subst_params ps : forall args b k,
  k ∈ form_cids (subst_params ps args b) -> k ∈ form_cids b \/ k ∈ names_cids args.
Proof.
  induction ps as [|p ps IH]; intros [|a args] b k; cbn; auto.
  intros H. apply IH in H as [H|H].
  - apply form_cids_subst in H as [H|H]; [by left|]. right. unfold names_cids. cbn. apply elem_of_app. by left.
  - right. unfold names_cids. cbn. apply elem_of_app. by right.
Qed.

Lemma form_cids_unfold_call F fn args b k :
  (forall fd, In fd F -> form_cids (fn_body fd) = []) ->
  unfold_call F fn args = Some b -> k ∈ form_cids b -> k ∈ names_cids args.
Proof.
  intros HF. unfold unfold_call. destruct (get_function F fn (length args)) as [fd|] eqn:Hg; [|done].
  apply get_function_In in Hg. specialize (HF fd Hg).
  destruct (_ =? _)%nat.
  { intros [= <-] Hk. apply form_cids_subst_params in Hk as [Hk|Hk]; [|done]. rewrite HF in Hk. by apply elem_of_nil in Hk. }
  destruct (_ =? _)%nat; [|done]. destruct args as [|a0 rest]; [done|]. intros [= <-] Hk.
  unfold names_cids. cbn. apply elem_of_app.
  apply form_cids_subst_params in Hk as [Hk|Hk]; [|by right].
  destruct (fn_explicit fd).
  - apply form_cids_subst in Hk as [Hk|Hk].
    + rewrite HF in Hk. by apply elem_of_nil in Hk.
    + destruct (is_self a0); [by apply elem_of_nil in Hk|by left].
  - rewrite HF in Hk. by apply elem_of_nil in Hk.
Qed.

(* ------------------------------------------------------------------ the structural invariant *)
Definition proc_ok (pr : proc) : Prop :=
  (exists n a, pr_provs pr = [n] /\ chan n = Some a) /\ lin_form (pr_body0 pr) = true.
Definition proc_cids (pr : proc) : list cid := names_cids (pr_provs pr) ++ form_cids (pr_body0 pr).
Definition msg_cids (m : msg) : list cid := name_cids (m_c1 m) ++ name_cids (m_c2 m) ++ names_cids (m_provs m).

(* U: the identifiers (of processes and of channels: one namespace, one counter per process) in use *)
Record ginv (U : list nat -> Prop) (c : config) : Prop := {
  g_procs : forall q pr, procs c !! q = Some pr -> proc_ok pr /\ U q /\ (forall k, k ∈ proc_cids pr -> U k);
  g_msgs : forall k st m, chans c !! k = Some st -> ch_buf st = Some m -> msg_ok m /\ (forall x, x ∈ msg_cids m -> U x);
  g_chans : forall k, is_Some (chans c !! k) -> U k;
  g_bound : forall q pr n rest, procs c !! q = Some pr -> U (q ++ n :: rest) -> (n < pr_next pr)%nat
}.
Definition funs_ok (F : list fundef) : Prop :=
  forall fd, In fd F -> lin_form (fn_body fd) = true /\ form_cids (fn_body fd) = [].

(* the residue of the configuration typing (C01: Typed + Topo) *)
Definition tres (D : tenv) (c : config) : Prop :=
  forall self p k st, procs c !! self = Some p -> action_of Async D p = ARecv k -> chans c !! k = Some st ->
    match ch_buf st with
    | Some m => m_rule m = RFWD -> self_chan p = Some k /\ is_fwd (pr_body0 p) = false
    | None => ch_closed st = false
    end.

Lemma obj_cids_obj a P k : k ∈ obj_cids (obj a P) -> k = a \/ k ∈ form_cids P.
Proof.
  unfold obj. repeat case_match; subst; cbn; unfold form_cids; cbn; unfold name_cids.
  all: repeat match goal with H : chan _ = _ |- _ => rewrite H end.
  all: rewrite ?elem_of_cons, ?elem_of_app, ?elem_of_cons, ?elem_of_nil; intuition.
Qed.

Lemma lin_head b : lin_form b = true -> head_lin b.
Proof. destruct b; cbn; try done. by destruct droppable. Qed.

Lemma msg_obj_cids k m o x : o ∈ msg_obj k m -> x ∈ obj_cids o -> x = k \/ x ∈ msg_cids m.
Proof.
  unfold msg_obj, msg_cids. intros Ho Hx.
  repeat case_match; try (by apply elem_of_nil in Ho); apply elem_of_list_singleton in Ho as ->; cbn in Hx.
  all: unfold names_cids, name_cids in *; cbn in *.
  all: repeat match goal with H : chan _ = _ |- _ => rewrite H in * end; subst.
  all: match goal with H : m_provs _ = _ |- _ => rewrite H | _ => idtac end; cbn.
  all: repeat match goal with H : chan _ = _ |- _ => rewrite H in * end.
  all: revert Hx; rewrite ?elem_of_cons, ?elem_of_app, ?elem_of_cons, ?elem_of_nil; intuition.
Qed.

Lemma cfg_cids_alpha U c x : ginv U c -> x ∈ cfg_cids (α c) -> U x.
Proof.
  intros G. unfold cfg_cids, α. rewrite elem_of_flat_map. intros (o & Ho & Hx).
  apply elem_of_app in Ho as [Ho|Ho].
  - unfold procs_objs in Ho. apply elem_of_flat_map in Ho as ([q pr] & Hq & Ho). cbn in Ho.
    apply elem_of_map_to_list in Hq. destruct (g_procs U c G q pr Hq) as (((n & a & Hpv & Hn) & _) & _ & Hc).
    unfold proc_obj, pobj in Ho. rewrite Hpv in Ho. cbn in Ho. rewrite Hn in Ho. apply elem_of_list_singleton in Ho as ->.
    apply Hc. unfold proc_cids. rewrite Hpv. apply elem_of_app.
    apply obj_cids_obj in Hx as [->|Hx]; [left|by right].
    unfold names_cids, name_cids. cbn. rewrite Hn. apply elem_of_list_here.
  - unfold chans_objs in Ho. apply elem_of_flat_map in Ho as ([k st] & Hk & Ho). cbn in Ho.
    apply elem_of_map_to_list in Hk. unfold chan_obj in Ho. destruct (ch_buf st) as [m|] eqn:Hb; [|by apply elem_of_nil in Ho].
    destruct (msg_obj_cids _ _ _ _ Ho Hx) as [->|Hm].
    + apply (g_chans U c G). eauto.
    + by apply (g_msgs U c G k st m Hk Hb).
Qed.

Theorem ginv_Inv U D c : ginv U c -> tres D c -> Inv D c.
Proof.
  intros G T self p Hp. destruct (g_procs U c G self p Hp) as ((Hprov & Hlin) & Hself & Hc).
  split_and!; [done|by apply lin_head| |].
  - intros _. split_and!.
    + intros Hin. apply (cfg_cids_alpha U c _ G) in Hin. apply (g_bound U c G self p _ [] Hp) in Hin. lia.
    + destruct (chans c !! (self ++ [pr_next p])) eqn:Hk; [|done]. exfalso.
      assert (U (self ++ [pr_next p])) as Hu by (apply (g_chans U c G); eauto).
      apply (g_bound U c G self p _ [] Hp) in Hu. lia.
    + destruct (procs c !! (self ++ [(S (pr_next p) + 1)%nat])) as [pr|] eqn:Hq; [|done]. exfalso.
      destruct (g_procs U c G _ pr Hq) as (_ & Hu & _).
      apply (g_bound U c G self p _ [] Hp) in Hu. lia.
  - intros k st Hact Hk. specialize (T self p k st Hp Hact Hk).
    destruct (ch_buf st) as [m|] eqn:Hb; [|done]. split; [|done]. by apply (g_msgs U c G k st m Hk Hb).
Qed.

(* ------------------------------------------------------------------ what a step produces is again well formed *)
Lemma find_branch_cids l bs y Q x :
  find_branch l bs = Some (y, Q) -> x ∈ form_cids Q -> x ∈ flat_map name_cids (brs_names bs).
Proof.
  induction bs as [|l' y' k r IH]; cbn; [done|]. unfold form_cids in *.
  destruct (String.eqb l' l).
  - intros [= <- <-] Hx. rewrite flat_map_app. rewrite !elem_of_app. auto.
  - intros H Hx. rewrite flat_map_app. rewrite !elem_of_app. auto.
Qed.

(* leaves of the channel-set goals: the channel comes from the old process or from the message *)
Ltac cid_leaf HUp HUm Hx :=
  first
  [ by (cbn in Hx; apply elem_of_nil in Hx)
  | (apply HUm; unfold msg_cids, names_cids, name_cids in *; cbn in *;
     revert Hx; rewrite ?elem_of_app, ?elem_of_cons, ?elem_of_nil; tauto)
  | (apply HUp; unfold proc_cids, form_cids, names_cids in *; cbn in *;
     revert Hx; rewrite ?flat_map_app, ?elem_of_app, ?elem_of_cons, ?elem_of_nil; tauto) ].

Lemma on_message_ok (U : list nat -> Prop) self p m e :
  proc_ok p -> msg_ok m -> (forall x, x ∈ proc_cids p -> U x) -> (forall x, x ∈ msg_cids m -> U x) ->
  (m_rule m = RFWD -> is_fwd (pr_body0 p) = false) ->
  on_message self p m = EOk e ->
  exists p' cl, e = Eff (Continue p') [] [] cl [] /\ proc_ok p' /\ (forall x, x ∈ proc_cids p' -> U x) /\
                pr_next p' = pr_next p.
Proof.
  intros ((n & a & Hprov & Hn) & Hlin) Hmok HUp HUm Hfwd He.
  destruct p as [provs body next]. cbn in *. subst provs.
  unfold on_message in He. unfold msg_ok in Hmok. cbn in He.
  assert (forall y Q l bs, find_branch l bs = Some (y, Q) -> lin_brs bs = true -> lin_form Q = true) as Hbr
    by (intros; by eapply lin_find_branch).
  destruct (m_rule m) eqn:Hrule; cbn in He.
  9:{ done. }
  8:{ (* FWD *)
    specialize (Hfwd eq_refl).
    assert (match body with FFwd _ _ _ => true | _ => false end = false) as Hf by (by destruct body).
    rewrite Hf in He. cbn in He. simplify_eq.
    destruct Hmok as (n' & Hpv & [a' Hn']).
    eexists _, _. split; [reflexivity|]. unfold set_provs_body. cbn. split_and!; [| |done].
    - split; [by exists n', a'|done].
    - intros x Hx. apply elem_of_app in Hx as [Hx|Hx].
      + apply HUm. unfold msg_cids. rewrite !elem_of_app. auto.
      + apply HUp. apply elem_of_app. by right. }
  all: destruct body; cbn in He, Hlin; try discriminate.
  all: repeat match goal with
       | H : context [if ?b then _ else _] |- _ => destruct b eqn:?; try discriminate
       | H : context [match find_branch ?l ?bs with _ => _ end] |- _ => destruct (find_branch l bs) as [[? ?]|] eqn:?; try discriminate
       end.
  all: try (apply andb_prop in Hlin as [? ?]).
  all: simplify_eq.
  all: try match type of Hmok with is_Some _ => destruct Hmok as [d Hd] end.
  all: unfold no_eff, set_body, set_provs_body; cbn.
  all: eexists _, _; (split; [reflexivity|]); split_and!; try reflexivity.
  all: try (unfold proc_ok; cbn; split;
            [eexists _, _; split; [reflexivity|eassumption]
            |rewrite ?lin_subst; first [done | by eapply Hbr]]).
  all: intros z Hx; unfold proc_cids in Hx; cbn [pr_provs pr_body0] in Hx; apply elem_of_app in Hx as [Hx|Hx];
       [|repeat (apply form_cids_subst in Hx as [Hx|Hx])].
  all: try (eapply find_branch_cids in Hx; [|eassumption]).
  all: try cid_leaf HUp HUm Hx.
  all: unfold form_cids in Hx; cbn in Hx; rewrite ?elem_of_app in Hx;
       repeat match type of Hx with _ \/ _ => destruct Hx as [Hx|Hx] end; cid_leaf HUp HUm Hx.
Qed.

Lemma action_not_dup md D p n : pr_provs p = [n] -> action_of md D p <> ADup.
Proof.
  intros Hp. destruct p as [provs body next]. cbn in Hp. subst provs.
  unfold action_of, send_on, recv_on, internal. cbn. repeat case_match; done.
Qed.

Lemma send_msg_ok D p k m :
  proc_ok p -> action_of Async D p = ASend k m ->
  msg_ok m /\ (forall x, x ∈ msg_cids m -> x ∈ proc_cids p).
Proof.
  intros ((n & a & Hprov & Hn) & Hlin). destruct p as [provs body next]. cbn in *. subst provs.
  unfold action_of, send_on, recv_on, internal, self_name_of, msg_ok, msg_cids, proc_cids, form_cids, names_cids. cbn.
  destruct body; cbn in *; repeat case_match; intros ?; simplify_eq; cbn; rewrite ?Hn.
  all: split; [by eauto|].
  all: intros x; rewrite ?elem_of_app, ?elem_of_nil; unfold name_cids; cbn; rewrite ?Hn; tauto.
Qed.

(* ------------------------------------------------------------------ the three shapes of a new configuration *)
Lemma foldr_close_lookup cl : forall (cm : gmap cid chan_st) k st',
  foldr (fun ch m => match m !! ch with
                     | Some st => <[ ch := Chan (ch_buf st) true ]> m
                     | None => m
                     end) cm cl !! k = Some st' ->
  exists st, cm !! k = Some st /\ ch_buf st' = ch_buf st.
Proof.
  induction cl as [|ch cl IH]; intros cm k st'; cbn; [eauto|].
  destruct (_ !! ch) as [st1|] eqn:Hch; [|apply IH].
  intros [[<- <-]|[Hne Hk]]%lookup_insert_Some; [|by apply IH].
  apply IH in Hch as (st & Hst & Hb). eauto.
Qed.

Lemma ginv_send U c self p k st m :
  ginv U c -> procs c !! self = Some p -> chans c !! k = Some st ->
  msg_ok m -> (forall x, x ∈ msg_cids m -> U x) ->
  ginv U (del_proc (put_msg c k st (Some m)) self).
Proof.
  intros G Hp Hk Hm HUm. constructor; cbn.
  - intros q pr [_ Hq]%lookup_delete_Some. by apply (g_procs U c G).
  - intros k' st' m' [[<- <-]|[_ Hk']]%lookup_insert_Some Hb; cbn in Hb; [by simplify_eq|]. by eapply (g_msgs U c G).
  - intros k' [st' [[<- _]|[_ Hk']]%lookup_insert_Some]; apply (g_chans U c G); eauto.
  - intros q pr n rest [_ Hq]%lookup_delete_Some. by apply (g_bound U c G).
Qed.

Lemma ginv_simple U c c1 self p p' cl o :
  ginv U c -> procs c1 = procs c ->
  (forall k st, chans c1 !! k = Some st -> exists st0, chans c !! k = Some st0 /\ (ch_buf st = None \/ ch_buf st = ch_buf st0)) ->
  procs c !! self = Some p -> proc_ok p' -> (forall x, x ∈ proc_cids p' -> U x) -> (pr_next p <= pr_next p')%nat ->
  ginv U (apply_effect c1 self p (Eff (Continue p') [] [] cl o)).
Proof.
  intros G Hprocs Hch Hp Hok HU Hnext. unfold apply_effect. cbn. rewrite Hprocs. constructor; cbn.
  - intros q pr [[<- <-]|[_ Hq]]%lookup_insert_Some; [|by apply (g_procs U c G)].
    split; [exact Hok|]. split; [by destruct (g_procs U c G self p Hp) as (_ & Hs & _)|]. intros x Hx. apply HU. exact Hx.
  - intros k st m Hk Hb. apply foldr_close_lookup in Hk as (st1 & Hk1 & Hb1).
    apply Hch in Hk1 as (st0 & Hk0 & [Hnone|Hsame]); [congruence|].
    eapply (g_msgs U c G k st0 m Hk0). congruence.
  - intros k [st Hk]. apply foldr_close_lookup in Hk as (st1 & Hk1 & _).
    apply Hch in Hk1 as (st0 & Hk0 & _). apply (g_chans U c G). eauto.
  - intros q pr n rest [[<- <-]|[_ Hq]]%lookup_insert_Some Hu; cbn; [|by eapply (g_bound U c G)].
    apply (g_bound U c G self p n rest Hp) in Hu. lia.
Qed.

Lemma ginv_cut U c self n x P Q next :
  let nc := mkName (ident x) false (pol x) (nty x) (Some (self ++ [next])) in
  ginv U c -> procs c !! self = Some (Proc [n] (FNew x P Q) next) ->
  ginv (fun y => U y \/ y = self ++ [next] \/ y = self ++ [(S next + 1)%nat])
       (apply_effect c self (Proc [n] (FNew x P Q) next)
          (Eff (Continue (set_body (Proc [n] (FNew x P Q) (S next)) (subst x nc Q))) [Spawn [nc] P] (cids_of [nc]) [] [])).
Proof.
  intros nc G Hp. destruct (g_procs U c G _ _ Hp) as (((n0 & a & Hpv & Hn) & Hlin) & Hself & HUp).
  cbn in Hpv, Hlin. simplify_eq. apply andb_prop in Hlin as [HlP HlQ].
  unfold apply_effect. cbn. constructor; cbn.
  - intros q pr [[<- <-]|[Hne [[<- <-]|[Hne2 Hq]]%lookup_insert_Some]]%lookup_insert_Some.
    + split_and!; [split; [by eauto|cbn; by rewrite lin_subst]|by left|].
      intros k Hk. unfold proc_cids in Hk. cbn in Hk. apply elem_of_app in Hk as [Hk|Hk].
      * left. apply HUp. unfold proc_cids. cbn. apply elem_of_app. by left.
      * apply form_cids_subst in Hk as [Hk|Hk].
        -- left. apply HUp. unfold proc_cids, form_cids in *. cbn. rewrite !flat_map_app, !elem_of_app. auto.
        -- cbn in Hk. apply elem_of_list_singleton in Hk. auto.
    + split_and!; [split; [by exists nc, (self ++ [next])|done]|by auto|].
      intros k Hk. unfold proc_cids in Hk. cbn in Hk. apply elem_of_cons in Hk as [Hk|Hk].
      * auto.
      * left. apply HUp. unfold proc_cids, form_cids in *. cbn. rewrite !flat_map_app, !elem_of_app. auto.
    + destruct (g_procs U c G q pr Hq) as (? & ? & ?). split_and!; [done|by left|]. intros; left; auto.
  - intros k st m [[<- <-]|[_ Hk]]%lookup_insert_Some Hb; [done|].
    destruct (g_msgs U c G k st m Hk Hb) as [? HUm]. split; [done|]. intros; left; auto.
  - intros k [st [[<- _]|[_ Hk]]%lookup_insert_Some]; [by auto|]. left. apply (g_chans U c G). eauto.
  - intros q pr m rest Hq Hu.
    assert (forall y, (y = next \/ y = (S next + 1)%nat) -> q ++ m :: rest = self ++ [y] ->
              (q = self /\ m = y) \/ exists rest', self = q ++ m :: rest') as Hsnoc.
    { intros y _ Heq. apply app_cons_eq_snoc in Heq as [(-> & _ & ->)|?]; auto. }
    apply lookup_insert_Some in Hq as [[<- <-]|[Hne Hq]]; cbn.
    + destruct Hu as [Hu|[Hu|Hu]].
      * apply (g_bound U c G _ _ _ _ Hp) in Hu. cbn in Hu. lia.
      * apply app_inv_head in Hu. simplify_eq. lia.
      * apply app_inv_head in Hu. simplify_eq. lia.
    + apply lookup_insert_Some in Hq as [[<- <-]|[Hne2 Hq]]; cbn.
      * exfalso. rewrite <- app_assoc in Hu. cbn in Hu. destruct Hu as [Hu|[Hu|Hu]].
        -- apply (g_bound U c G _ _ _ _ Hp) in Hu. cbn in Hu. lia.
        -- apply app_inv_head in Hu. done.
        -- apply app_inv_head in Hu. done.
      * destruct Hu as [Hu|[Hu|Hu]]; [by eapply (g_bound U c G)| |].
        -- destruct (Hsnoc next (or_introl eq_refl) Hu) as [[-> _]|[rest' ->]]; [done|].
           eapply (g_bound U c G q pr m rest' Hq). done.
        -- destruct (Hsnoc _ (or_intror eq_refl) Hu) as [[-> _]|[rest' ->]]; [done|].
           eapply (g_bound U c G q pr m rest' Hq). done.
Qed.

(* ------------------------------------------------------------------ preservation *)
Theorem ginv_step U D F c self c' :
  ginv U c -> tres D c -> funs_ok F -> step Async D F c (Run self) = SStep c' ->
  exists U' : list nat -> Prop, (forall x, U x -> U' x) /\ ginv U' c'.
Proof.
  intros G T HF Hstep. apply step_run_async_inv in Hstep as (p & Hp & Hstep).
  destruct (g_procs U c G self p Hp) as (Hok & Hself & HUp).
  pose proof Hok as ((n & a & Hprov & Hn) & Hlin).
  destruct (action_of Async D p) as [| |k m|k| |k provs|w] eqn:Hact; try done.
  - by destruct (action_not_dup Async D p n Hprov).
  - destruct Hstep as (e & He & ->).
    destruct p as [provs body next]. cbn in Hprov, Hlin. subst provs.
    destruct body; cbn in He, Hlin; try discriminate.
    + (* cut *) simplify_eq. eexists. split; [|by apply ginv_cut]. intros y Hy. by left.
    + (* call *)
      destruct (call_body F f args) as [b|] eqn:Hcall; [|done]. simplify_eq. rewrite call_body_unfold in Hcall.
      exists U. split; [done|]. unfold no_eff. eapply ginv_simple; try done; [eauto| |].
      * split; [by eauto|]. cbn. eapply lin_unfold_call; [|done]. intros fd Hfd. by apply HF.
      * intros x Hx. unfold proc_cids in Hx. cbn in Hx. apply HUp. unfold proc_cids. cbn.
        apply elem_of_app in Hx as [Hx|Hx]; apply elem_of_app; [by left|right].
        eapply form_cids_unfold_call in Hx; [done| |done]. intros fd Hfd. by apply HF.
    + (* print *) simplify_eq. exists U. split; [done|].
      eapply ginv_simple; [exact G|done|by eauto|exact Hp| | |done].
      * split; [by eauto|done].
      * intros x Hx. apply HUp. unfold proc_cids, form_cids in *. cbn in *. exact Hx.
  - destruct Hstep as (st & Hk & Hb & ->). exists U. split; [done|].
    destruct (send_msg_ok D p k m Hok Hact) as [Hm Hc]. eapply ginv_send; eauto.
  - destruct Hstep as (st & Hk & Hstep). specialize (T self p k st Hp Hact Hk).
    destruct (ch_buf st) as [m|] eqn:Hb; [|congruence].
    destruct Hstep as (e & He & ->). destruct (g_msgs U c G k st m Hk Hb) as [Hmok HUm].
    destruct (on_message_ok U self p m e Hok Hmok HUp HUm ltac:(intros Hr; by apply T) He)
      as (p' & cl & -> & Hok' & HU' & Hnext).
    exists U. split; [done|]. eapply ginv_simple; try done; [|lia].
    intros k' st' Hk'. cbn in Hk'. apply lookup_insert_Some in Hk' as [[<- <-]|[_ Hk']]; [exists st; cbn; auto|eauto].
Qed.

(* ------------------------------------------------------------------ the initial configuration *)
Definition no_cids (p : program) : bool :=
  forallb (fun pr => match form_cids (pr_body pr) with [] => true | _ => false end) (p_procs p) &&
  forallb (fun fd => match form_cids (fn_body fd) with [] => true | _ => false end) (p_funs p).

Definition U0 (p : program) (x : list nat) : Prop :=
  exists i pr, p_procs p !! i = Some pr /\
    (x = [i] \/ exists j, (j < length (pr_providers pr))%nat /\ x = [i; j]).

Lemma funs_ok_of_program p : linear_program p = true -> no_cids p = true -> funs_ok (p_funs p).
Proof.
  unfold linear_program, no_cids. intros [_ Hl]%andb_prop [_ Hc]%andb_prop fd Hfd.
  rewrite forallb_forall in Hl, Hc. specialize (Hl fd Hfd). specialize (Hc fd Hfd). cbn in Hl, Hc.
  split; [done|]. by destruct (form_cids (fn_body fd)).
Qed.

Lemma fold_left_inv_in {A B} (P : B -> Prop) (f : B -> A -> B) (l : list A) (b : B) :
  P b -> (forall b a, In a l -> P b -> P (f b a)) -> P (fold_left f l b).
Proof.
  revert b. induction l as [|a l IH]; cbn; [auto|]. intros b Hb Hstep. apply IH.
  - apply Hstep; auto.
  - intros b' a' Hin. apply Hstep. auto.
Qed.

(* the (old, new) pairs of the top-level names: new is [i; j] for the j-th provider of process i *)
Lemma top_names_spec p on : In on (top_names p) ->
  exists i pr j, p_procs p !! i = Some pr /\ (j < length (pr_providers pr))%nat /\
                 name_cids (snd on) = [[i; j]].
Proof.
  unfold top_names. intros Hin. apply in_concat in Hin as (l & Hl & Hon).
  apply elem_of_list_In in Hl, Hon.
  apply elem_of_lookup_imap in Hl as (i & pr & -> & Hpr).
  apply elem_of_lookup_imap in Hon as (j & old & -> & Hj).
  exists i, pr, j. split_and!; [done|by eapply lookup_lt_Some|done].
Qed.

Lemma close_body_lin p b : lin_form (close_body p b) = lin_form b.
Proof.
  unfold close_body. apply (fold_left_inv (fun b' => lin_form b' = lin_form b)); [done|].
  intros b' [old new] Hb'. by rewrite lin_subst.
Qed.

Lemma close_body_cids p b x : form_cids b = [] -> x ∈ form_cids (close_body p b) -> U0 p x.
Proof.
  intros Hb. unfold close_body. revert x.
  apply (fold_left_inv_in (fun b' => forall x, x ∈ form_cids b' -> U0 p x)).
  - intros x Hx. rewrite Hb in Hx. by apply elem_of_nil in Hx.
  - intros b' [old new] Hin IH x Hx. apply form_cids_subst in Hx as [Hx|Hx]; [auto|].
    apply top_names_spec in Hin as (i & pr & j & Hpr & Hj & Hc). cbn in Hc. rewrite Hc in Hx.
    apply elem_of_list_singleton in Hx as ->. exists i, pr. split; [done|]. right. eauto.
Qed.

Lemma combine_lookup {A B} (l1 : list A) (l2 : list B) i a b :
  combine l1 l2 !! i = Some (a, b) -> l1 !! i = Some a /\ l2 !! i = Some b.
Proof.
  revert l2 i. induction l1 as [|x l1 IH]; intros [|y l2] [|i]; cbn; try done.
  - by intros [= -> ->].
  - apply IH.
Qed.

Definition init_proc_spec (p : program) (q : pid) (pr' : proc) : Prop :=
  exists i pr, p_procs p !! i = Some pr /\ q = [i] /\
    pr_provs pr' = map snd (init_provs i (pr_providers pr)) /\
    pr_body0 pr' = close_body p (pr_body pr) /\
    pr_next pr' = length (pr_providers pr).
Definition init_chan_spec (p : program) (k : cid) : Prop :=
  exists on, In on (top_names p) /\ name_cids (snd on) = [k].

Lemma init_procs_lookup p q pr' : procs (init_config p) !! q = Some pr' -> init_proc_spec p q pr'.
Proof.
  unfold init_config. cbn [procs].
  set (inits := imap (fun i pr => init_provs i (pr_providers pr)) (p_procs p)).
  set (L := imap (fun i x => (i, x)) (combine (p_procs p) inits)).
  revert q pr'.
  apply (fold_left_inv_in (fun m : gmap pid proc => forall q pr', m !! q = Some pr' -> init_proc_spec p q pr')).
  - intros q pr' H. by rewrite lookup_empty in H.
  - intros m [i [pr ini]] Hin IH q pr' [[<- <-]|[_ Hq]]%lookup_insert_Some; [|by apply IH].
    apply elem_of_list_In, elem_of_lookup_imap in Hin as (i' & y & [= <- <-] & Hy).
    apply combine_lookup in Hy as [Hpr Hini]. unfold inits in Hini. rewrite list_lookup_imap, Hpr in Hini.
    cbn in Hini. simplify_eq. exists i, pr. split_and!; try done. cbn. unfold init_provs. by rewrite imap_length.
Qed.

Lemma init_chans_lookup p k : is_Some (chans (init_config p) !! k) -> init_chan_spec p k.
Proof.
  unfold init_config. cbn [chans]. revert k.
  apply (fold_left_inv_in (fun m : gmap cid chan_st => forall k, is_Some (m !! k) -> init_chan_spec p k)).
  - intros k [x H]. by rewrite lookup_empty in H.
  - intros m [old new] Hin IH k. cbn. destruct (chan new) as [k0|] eqn:Hn; [|apply IH].
    intros [x [[<- _]|[_ Hk]]%lookup_insert_Some]; [|apply IH; eauto].
    exists (old, new). split; [exact Hin|]. unfold name_cids. cbn. by rewrite Hn.
Qed.

Theorem ginv_init p : linear_program p = true -> no_cids p = true -> ginv (U0 p) (init_config p).
Proof.
  intros Hlin Hnc. pose proof Hlin as [Hlp _]%andb_prop. pose proof Hnc as [Hcp _]%andb_prop.
  rewrite forallb_forall in Hlp, Hcp.
  constructor.
  - intros q pr' Hq. apply init_procs_lookup in Hq as (i & pr & Hpr & -> & Hpv & Hbody & Hnext).
    assert (In pr (p_procs p)) as Hin by (by eapply elem_of_list_In, elem_of_list_lookup_2).
    specialize (Hlp pr Hin). specialize (Hcp pr Hin). cbn in Hlp, Hcp.
    destruct (pr_providers pr) as [|x [|y r]] eqn:Hprov; try done. cbn in Hpv.
    split_and!.
    + split; [rewrite Hpv; by eauto|]. by rewrite Hbody, close_body_lin.
    + exists i, pr. auto.
    + intros k Hk. unfold proc_cids in Hk. rewrite Hpv, Hbody in Hk. apply elem_of_app in Hk as [Hk|Hk].
      * cbn in Hk. apply elem_of_list_singleton in Hk as ->. exists i, pr. split; [done|]. right.
        exists 0%nat. rewrite Hprov. cbn. split; [lia|done].
      * eapply close_body_cids; [|done]. by destruct (form_cids (pr_body pr)).
  - intros k st m Hk Hb. destruct (init_causal_inv p) as [Hbuf _]. specialize (Hbuf k).
    unfold buf, bufm in Hbuf. rewrite Hk in Hbuf. congruence.
  - intros k Hk. apply init_chans_lookup in Hk as (on & Hin & Hc).
    apply top_names_spec in Hin as (i & pr & j & Hpr & Hj & Hc'). rewrite Hc in Hc'. simplify_eq.
    exists i, pr. split; [done|]. right. eauto.
  - intros q pr' n rest Hq Hu. apply init_procs_lookup in Hq as (i & pr & Hpr & -> & _ & _ & ->).
    destruct Hu as (i' & pr2 & Hpr2 & [Hx|(j & Hj & Hx)]); cbn in Hx; [done|].
    simplify_eq. done.
Qed.

(* ------------------------------------------------------------------ the run-level refinement, premise = the residue only *)
Section residue.
Context (D : tenv) (F : list fundef) (c0 : config).
(* the only premise about configurations: the typing residue holds wherever the run goes *)
Context (Hres : forall tr c, steps Async D F c0 tr c -> tres D c).
Context (HF : funs_ok F).

Lemma steps_inv_steps_residue c tr c' : steps Async D F c tr c' ->
  forall U tr0, steps Async D F c0 tr0 c -> ginv U c -> inv_steps D F c c'.
Proof.
  induction 1 as [c|c ch c1 tr c2 Hstep _ IH]; intros U tr0 Hreach G; [constructor|].
  destruct (async_step_run D F c ch c1 Hstep) as [self ->].
  econstructor; [eapply (ginv_Inv U D); eauto|exact Hstep|].
  destruct (ginv_step U D F c self c1 G (Hres _ _ Hreach) HF Hstep) as (U' & _ & G').
  eapply (IH U'); [|exact G']. eapply (steps_snoc Async D F); eauto.
Qed.

Theorem refines_sax_residue U tr c : ginv U c0 -> steps Async D F c0 tr c ->
  exists ls, sax_steps F false (α c0) ls (α c) /\ labels c = labels c0 ++ ls.
Proof.
  intros G Hrun. apply (refines_sax_run D F). eapply (steps_inv_steps_residue c0 tr c Hrun U []); [constructor|done].
Qed.
End residue.

(* for an accepted program of the linear fragment whose source contains no channel constants (true of
   everything the parser produces): every run of the Async model prints a label sequence that the
   reference semantics prints from the program's own SAX initial configuration — PROVIDED the typing
   residue `tres` holds at the configurations the run visits (C01). *)
Theorem prints_admitted_residue (p : program) :
  linear_program p = true -> no_cids p = true ->
  (forall tr c, steps Async (p_types p) (p_funs p) (init_config p) tr c -> tres (p_types p) c) ->
  forall fuel pick, exists C',
    sax_steps (p_funs p) false (sax_init p)
      (labels (res_config (exec_run fuel pick Async (p_types p) (p_funs p) (init_config p)))) C'.
Proof.
  intros Hlin Hnc Hres fuel pick.
  rewrite <- (exec_trace_exec_run Async (p_types p) (p_funs p) fuel pick (init_config p) []).
  destruct (exec_trace fuel pick Async (p_types p) (p_funs p) (init_config p) []) as [r tr] eqn:Htr. cbn [fst].
  apply exec_trace_run in Htr as (es & _ & Hrun).
  destruct (refines_sax_residue _ _ _ Hres (funs_ok_of_program p Hlin Hnc) (U0 p) es _ (ginv_init p Hlin Hnc) Hrun)
    as (ls & Hs & Hl).
  exists (α (res_config r)). rewrite Hl. change (labels (init_config p)) with (@nil string). cbn.
  eapply sax_steps_perm; [symmetry; apply alpha_init|done].
  intros q pr Hq. destruct (g_procs _ _ (ginv_init p Hlin Hnc) q pr Hq) as (((n & a & Hn & _) & _) & _). eauto.
Qed.
