(* LinBridge.v — from the checker's path-counting discipline (C05, spec/Linear.v: `uses`,
   `LinearNames`) to the run-time reading used by the Topo invariant (TopoLin.v: `pnames`, `affr`).
   1. `pnames`, `affr`, `core_form`, `form_chans` do not look at type annotations (erase_form);
   2. on terms without channels and without an empty `case`, `uses sh x f` is the count of the key
      `KV x` along the paths `pnames sh f`;
   3. hence LinearNames (exactly once) implies affr (at most once, in every scope). *)
From stdpp Require Import gmap strings.
Require Import Grits.Base Grits.ModeDefs Grits.Modes Grits.STypes Grits.Forms Grits.Subst Grits.TcDeps Grits.Expand
               Grits.Runtime Grits.spec.RtTyping Grits.spec.Topo Grits.spec.Linear
               Grits.proofs.TopoLin Grits.proofs.TcShape.

(* ------------------------------------------------------------------ 1. erasure *)
Lemma uname_erase sh n : uname sh (erase_name n) = uname sh n.
Proof. reflexivity. Qed.
Lemma pdes_erase sh n : pdes sh (erase_name n) = pdes sh n.
Proof. reflexivity. Qed.
Lemma rmv_erase1 p l : rmv [erase_name p] l = rmv [p] l.
Proof. reflexivity. Qed.
Lemma rmv_erase2 p c l : rmv [erase_name p; erase_name c] l = rmv [p; c] l.
Proof. reflexivity. Qed.

Lemma pnames_erase_mut :
  (forall f sh, pnames sh (erase_form f) = pnames sh f) /\
  (forall b, pnames_bp (erase_brs b) = pnames_bp b /\ forall sh, pnames_bc sh (erase_brs b) = pnames_bc sh b).
Proof.
  apply form_branches_ind; simpl; intros;
    rewrite ?uname_erase, ?pdes_erase; auto.
  - (* FRecv *) rewrite !H. reflexivity.
  - (* FCase *) destruct H as [-> H]. by rewrite H.
  - (* FNew *) by rewrite H, H0.
  - by rewrite H.
  - by rewrite H.
  - (* FCall *) f_equal. rewrite flat_map_concat_map, map_map. by rewrite <- flat_map_concat_map.
  - by rewrite !H.
  - by rewrite H.
  - destruct H0 as [-> H0]. split; [by rewrite H|]. intros sh. by rewrite H, H0.
Qed.
Lemma pnames_erase sh f : pnames sh (erase_form f) = pnames sh f.
Proof. apply pnames_erase_mut. Qed.

Lemma affr_erase_mut :
  (forall f sh, affr sh (erase_form f) <-> affr sh f) /\
  (forall b, (affr_bp (erase_brs b) <-> affr_bp b) /\ forall sh, affr_bc sh (erase_brs b) <-> affr_bc sh b).
Proof.
  apply form_branches_ind; intros.
  all: try match goal with
    | |- affr ?sh (erase_form ?f) <-> affr ?sh ?f =>
        unfold affr at 2; fold affr affr_bp affr_bc; rewrite <- (pnames_erase sh f);
        cbn [affr erase_form]; fold erase_form erase_brs
    end.
  all: rewrite ?pdes_erase.
  all: try tauto.
  all: repeat match goal with
    | H : _ /\ _ |- _ => destruct H
    end.
  all: try (split; [|intros sh]); cbn [affr_bp affr_bc erase_brs]; fold erase_form erase_brs.
  all: repeat match goal with
    | H : forall sh, affr sh (erase_form ?k) <-> affr sh ?k |- _ => setoid_rewrite H; clear H
    | H : affr_bp (erase_brs ?b) <-> _ |- _ => rewrite H; clear H
    | H : forall sh, affr_bc sh (erase_brs ?b) <-> _ |- _ => setoid_rewrite H; clear H
    end.
  all: try tauto.
  all: try (destruct (pdes _ _); tauto).
  all: cbn [ident erase_name]; destruct (pdes _ _);
    repeat match goal with
    | H : _ /\ _ |- _ => destruct H
    | H : forall sh, _ <-> _ |- _ => rewrite H; clear H
    | H : _ <-> _ |- _ => rewrite H; clear H
    end; tauto.
Qed.
Lemma affr_erase sh f : affr sh (erase_form f) <-> affr sh f.
Proof. apply affr_erase_mut. Qed.
Lemma affr_erase_eq sh f g : erase_form f = erase_form g -> affr sh g -> affr sh f.
Proof. intros E H. apply affr_erase. rewrite E. by apply affr_erase. Qed.

Lemma core_erase_mut :
  (forall f, core_form (erase_form f) = core_form f) /\ (forall b, core_brs (erase_brs b) = core_brs b).
Proof. apply form_branches_ind; simpl; intros; congruence. Qed.
Lemma core_erase_eq f g : erase_form f = erase_form g -> core_form f = core_form g.
Proof. intros E. rewrite <- (proj1 core_erase_mut f), E. apply core_erase_mut. Qed.

(* ------------------------------------------------------------------ 2. counting keys along paths *)
Definition cnt (x : string) (l : list key) : nat := count_occ key_eq_dec l (KV x).

Lemma cnt_app x l1 l2 : cnt x (l1 ++ l2) = (cnt x l1 + cnt x l2)%nat.
Proof. apply count_occ_app. Qed.
Lemma cnt_nil x : cnt x [] = 0%nat.
Proof. reflexivity. Qed.

Lemma cnt_cons_eq x l : cnt x (KV x :: l) = S (cnt x l).
Proof. unfold cnt. by rewrite count_occ_cons_eq. Qed.
Lemma cnt_cons_ne x q l : q <> KV x -> cnt x (q :: l) = cnt x l.
Proof. unfold cnt. intros H. by rewrite count_occ_cons_neq. Qed.

Lemma cnt_uname sh x n : uninit n = true -> cnt x (uname sh n) = occ sh x n.
Proof.
  unfold uninit, uname, occ. destruct (chan n); [discriminate|]. intros _.
  destruct (prov_ref sh n); [reflexivity|].
  destruct (String.eqb (ident n) x) eqn:E'.
  - apply String.eqb_eq in E'. subst. by rewrite cnt_cons_eq.
  - apply String.eqb_neq in E'. rewrite cnt_cons_ne; [reflexivity|congruence].
Qed.

Lemma cnt_rmv bs x l : cnt x (rmv bs l) = if binds bs x then 0%nat else cnt x l.
Proof.
  unfold rmv. induction l as [|q l IH]; cbn [filter]; [by destruct (binds bs x)|].
  destruct q as [k|y].
  - rewrite !cnt_cons_ne by discriminate. exact IH.
  - destruct (decide (y = x)) as [->|Hne].
    + destruct (binds bs x) eqn:Ey; cbn [negb].
      * exact IH.
      * by rewrite !cnt_cons_eq, IH.
    + destruct (negb (binds bs y)); rewrite ?cnt_cons_ne by congruence; exact IH.
Qed.

Lemma map_cnt_app x a L : map (cnt x) (map (app a) L) = addl (cnt x a) (map (cnt x) L).
Proof. unfold addl. rewrite !map_map. apply map_ext. intros l. apply cnt_app. Qed.

Lemma map_cnt_rmv bs x L : map (cnt x) (map (rmv bs) L) = hide bs x (map (cnt x) L).
Proof.
  unfold hide, zeros. rewrite !map_map. destruct (binds bs x) eqn:E.
  - apply map_ext. intros l. by rewrite cnt_rmv, E.
  - apply map_ext. intros l. by rewrite cnt_rmv, E.
Qed.

Lemma map_cnt_app_rmv x a bs L :
  map (cnt x) (map (fun pk => a ++ rmv bs pk) L) = addl (cnt x a) (hide bs x (map (cnt x) L)).
Proof.
  rewrite <- map_cnt_rmv, <- map_cnt_app. by rewrite (map_map (rmv bs) (app a)).
Qed.

Lemma map_cnt_cross x L1 L2 : map (cnt x) (crossk L1 L2) = cross (map (cnt x) L1) (map (cnt x) L2).
Proof.
  unfold crossk, cross. induction L1 as [|a L1 IH]; simpl; [reflexivity|].
  rewrite map_app, IH. f_equal. apply map_cnt_app.
Qed.

Lemma cnt_flat_uname sh x args : forallb uninit args = true -> cnt x (flat_map (uname sh) args) = sum_occ sh x args.
Proof.
  induction args as [|a r IH]; simpl; [reflexivity|]. rewrite andb_true_iff. intros [Ha Hr].
  by rewrite cnt_app, cnt_uname, IH.
Qed.

Lemma pdes_uninit sh n : uninit n = true -> pdes sh n = prov_ref sh n.
Proof. unfold uninit, pdes, initialized. by destruct (chan n). Qed.

(* no empty case *)
Fixpoint nec (f : form) : bool :=
  match f with
  | FRecv _ _ _ k | FWait _ k | FShift _ _ k | FPrint _ k | FDrop _ k | FSplit _ _ _ k => nec k
  | FCase _ bs => match bs with BrNil => false | _ => nec_brs bs end
  | FNew _ b k => nec b && nec k
  | _ => true
  end
with nec_brs (b : branches) : bool :=
  match b with BrNil => true | BrCons _ _ k r => nec k && nec_brs r end.

Lemma ne_id (l : list (list key)) : l <> [] -> ne l = l.
Proof. by destruct l. Qed.

Lemma pnames_nonempty sh f : pnames sh f <> [].
Proof. destruct (pnames_has sh f) as [pk H]. intros E. by rewrite E in H. Qed.

Lemma uses_pnames_mut x :
  (forall f sh, uninit_form f = true -> nec f = true -> uses sh x f = map (cnt x) (pnames sh f)) /\
  (forall b, uninit_brs b = true -> nec_brs b = true ->
     uses_bp x b = map (cnt x) (pnames_bp b) /\ forall sh, uses_bc sh x b = map (cnt x) (pnames_bc sh b)).
Proof.
  apply form_branches_ind; simpl; intros;
    repeat match goal with H : _ && _ = true |- _ => apply andb_true_iff in H as [? ?] end;
    rewrite ?pdes_uninit by assumption.
  - rewrite !cnt_app, !cnt_uname by assumption. f_equal. lia.
  - destruct (prov_ref sh from).
    + rewrite map_cnt_rmv. by rewrite H.
    + rewrite map_cnt_app_rmv. by rewrite cnt_uname, H.
  - rewrite !cnt_app, !cnt_uname by assumption. f_equal; lia.
  - destruct bs as [|l p k r]; [discriminate|]. destruct (H ltac:(assumption) ltac:(assumption)) as [Hp Hc].
    destruct (prov_ref sh from).
    + rewrite ne_id; [exact Hp|]. simpl. intros E. apply app_eq_nil in E as [E _]. by apply pnames_nonempty in E.
    + rewrite ne_id; [by rewrite map_cnt_app, cnt_uname, Hc|].
      simpl. intros E. apply app_eq_nil in E as [E _]. apply map_eq_nil in E. by apply pnames_nonempty in E.
  - by rewrite map_cnt_cross, map_cnt_rmv, H, H0.
  - by rewrite cnt_uname.
  - by rewrite map_cnt_app, cnt_uname, H.
  - rewrite !cnt_app, !cnt_uname by assumption. f_equal; lia.
  - by rewrite map_cnt_app_rmv, cnt_uname, H.
  - f_equal. symmetry. by apply cnt_flat_uname.
  - rewrite !cnt_app, !cnt_uname by assumption. f_equal; lia.
  - destruct (prov_ref sh from).
    + by rewrite H.
    + by rewrite map_cnt_app_rmv, cnt_uname, H.
  - by rewrite map_cnt_app, cnt_uname, H.
  - by rewrite H.
  - auto.
  - destruct (H0 ltac:(assumption) ltac:(assumption)) as [Hp Hc]. split.
    + by rewrite map_app, H, Hp.
    + intros sh. by rewrite map_app, map_cnt_rmv, H, Hc.
Qed.

Lemma uses_pnames x sh f : uninit_form f = true -> nec f = true -> uses sh x f = map (cnt x) (pnames sh f).
Proof. apply uses_pnames_mut. Qed.

(* ------------------------------------------------------------------ 3. exactly once => at most once in every scope *)
Definition le1l (l : list nat) : Prop := Forall (fun n => (n <= 1)%nat) l.
Definition le1 (sh : option string) (f : form) : Prop := forall x, le1l (uses sh x f).

Lemma le1l_addl a l : le1l (addl a l) -> le1l l.
Proof. unfold le1l, addl. rewrite Forall_map. apply Forall_impl. intros n. simpl. lia. Qed.
Lemma le1l_once l : once l -> le1l l.
Proof. unfold once, AllEq, le1l. apply Forall_impl. intros n. lia. Qed.
Lemma le1l_app l1 l2 : le1l (l1 ++ l2) -> le1l l1 /\ le1l l2.
Proof. unfold le1l. apply Forall_app. Qed.
Lemma le1l_hide bs x l : binds bs x = false -> le1l (hide bs x l) -> le1l l.
Proof. unfold hide. by intros ->. Qed.
Lemma hide_nonempty bs x l : l <> [] -> hide bs x l <> [].
Proof. unfold hide, zeros. destruct (binds bs x); auto. by destruct l. Qed.
Lemma le1l_cross_l l1 l2 : l2 <> [] -> le1l (cross l1 l2) -> le1l l1.
Proof.
  unfold le1l, cross. intros Hne H. rewrite Forall_forall in *. intros a Ha.
  destruct l2 as [|b l2]; [done|]. apply (Nat.le_trans _ (a + b)); [lia|]. apply H.
  apply in_flat_map. exists a. split; [done|]. unfold addl. simpl. by left.
Qed.
Lemma le1l_cross_r l1 l2 : l1 <> [] -> le1l (cross l1 l2) -> le1l l2.
Proof.
  unfold le1l, cross. intros Hne H. rewrite Forall_forall in *. intros b Hb.
  destruct l1 as [|a l1]; [done|]. apply (Nat.le_trans _ (a + b)); [lia|]. apply H.
  apply in_flat_map. exists a. split; [by left|]. unfold addl. apply in_map_iff. eauto.
Qed.

Lemma uses_nonempty sh x f : uninit_form f = true -> nec f = true -> uses sh x f <> [].
Proof.
  intros Hu Hn. rewrite uses_pnames by done. intros E. apply map_eq_nil in E. by apply pnames_nonempty in E.
Qed.

Lemma uninit_no_chans_mut :
  (forall f, uninit_form f = true -> form_chans f = []) /\ (forall b, uninit_brs b = true -> brs_chans b = []).
Proof.
  assert (Hn : forall n, uninit n = true -> name_chans n = []).
  { intros n. unfold uninit, name_chans. by destruct (chan n). }
  apply form_branches_ind; simpl; intros;
    repeat match goal with H : _ && _ = true |- _ => apply andb_true_iff in H as [? ?] end;
    rewrite ?Hn by assumption; rewrite ?H, ?H0 by assumption; auto.
  (* FCall *)
  induction args as [|a r IH]; simpl in *; [done|]. apply andb_true_iff in H as [Ha Hr]. by rewrite Hn, IH.
Qed.

Lemma paths_nodup sh f : uninit_form f = true -> nec f = true -> le1 sh f -> Forall (NoDup (A:=key)) (pnames sh f).
Proof.
  intros Hu Hn Hl. rewrite Forall_forall. intros pi Hpi.
  apply (proj2 (NoDup_count_occ key_eq_dec pi)). intros [k|x].
  - rewrite (proj1 (count_occ_not_In key_eq_dec pi (KC k))); [lia|].
    intros Hin. pose proof (proj1 path_chans_mut f sh pi k Hpi Hin) as Hc.
    by rewrite (proj1 uninit_no_chans_mut f Hu) in Hc.
  - specialize (Hl x). rewrite uses_pnames in Hl by done. unfold le1l in Hl. rewrite Forall_forall in Hl.
    apply Hl. apply in_map_iff. exists pi. split; [reflexivity|done].
Qed.

Lemma binds1 p x : binds [p] x = String.eqb (ident p) x.
Proof. unfold binds. simpl. by rewrite orb_false_r. Qed.
Lemma binds2 p c x : binds [p; c] x = String.eqb (ident p) x || String.eqb (ident c) x.
Proof. unfold binds. simpl. by rewrite orb_false_r. Qed.

Lemma lin_affr_mut :
  (forall f sh, uninit_form f = true -> nec f = true -> le1 sh f -> bound_once sh f -> affr sh f) /\
  (forall b, uninit_brs b = true -> nec_brs b = true ->
     ((forall x, le1l (uses_bp x b)) -> bound_once_bp b -> affr_bp b) /\
     (forall sh, (forall x, le1l (uses_bc sh x b)) -> bound_once_bc sh b -> affr_bc sh b)).
Proof.
  apply form_branches_ind.
  all: try (intros; match goal with |- affr ?sh ?f => 
         split; [by apply paths_nodup|];
         match goal with Hu : uninit_form f = true, Hn : nec f = true, Hl : le1 sh f, Hb : bound_once sh f |- _ =>
           clear Hu; idtac end end; exact I).
  - (* FRecv *) intros p c fr k IH sh Hu Hn Hl Hb. split; [by apply paths_nodup|].
    simpl in Hu, Hn, Hb. repeat (apply andb_true_iff in Hu as [Hu ?]).
    rewrite pdes_uninit by done. unfold le1 in Hl. simpl in Hl. destruct (prov_ref sh fr).
    + destruct Hb as [Hb1 Hb2]. apply IH; auto. intros x. destruct (String.eqb (ident p) x) eqn:E.
      * apply String.eqb_eq in E as <-. by apply le1l_once.
      * apply (le1l_hide [p] x); [by rewrite binds1|apply Hl].
    + destruct Hb as (Hb1 & Hb2 & Hb3). apply IH; auto. intros x.
      destruct (String.eqb (ident p) x) eqn:E; [apply String.eqb_eq in E as <-; by apply le1l_once|].
      destruct (String.eqb (ident c) x) eqn:E'; [apply String.eqb_eq in E' as <-; by apply le1l_once|].
      apply (le1l_hide [p; c] x); [by rewrite binds2, E, E'|]. eapply le1l_addl. apply Hl.
  - (* FCase *) intros fr bs IH sh Hu Hn Hl Hb. split; [by apply paths_nodup|].
    simpl in Hu, Hn, Hb. apply andb_true_iff in Hu as [Hu Hu'].
    assert (Hn' : nec_brs bs = true) by (by destruct bs).
    destruct (IH Hu' Hn') as [IHp IHc].
    rewrite pdes_uninit by done. unfold le1 in Hl. simpl in Hl. destruct (prov_ref sh fr).
    + apply IHp; auto.
    + apply IHc; auto. intros x. eapply le1l_addl. apply Hl.
  - (* FNew *) intros y b IHb k IHk sh Hu Hn Hl Hb. split; [by apply paths_nodup|].
    simpl in Hu, Hn, Hb. apply andb_true_iff in Hu as [Hu Hu3]. apply andb_true_iff in Hu as [Hu1 Hu2].
    apply andb_true_iff in Hn as [Hn1 Hn2]. destruct Hb as (Hb1 & Hb2 & Hb3).
    unfold le1 in Hl. simpl in Hl. split.
    + apply IHb; auto. intros x. eapply le1l_cross_l; [|apply Hl]. apply hide_nonempty. by apply uses_nonempty.
    + apply IHk; auto. intros x.
      destruct (String.eqb (ident y) x) eqn:E; [apply String.eqb_eq in E as <-; by apply le1l_once|].
      apply (le1l_hide [y] x); [by rewrite binds1|]. eapply le1l_cross_r; [|apply Hl]. by apply uses_nonempty.
  - (* FWait *) intros c k IH sh Hu Hn Hl Hb. split; [by apply paths_nodup|].
    simpl in Hu, Hn, Hb. apply andb_true_iff in Hu as [Hu Hu']. apply IH; auto.
    intros x. eapply le1l_addl. apply Hl.
  - (* FSplit *) intros a b fr k IH sh Hu Hn Hl Hb. split; [by apply paths_nodup|].
    simpl in Hu, Hn, Hb. repeat (apply andb_true_iff in Hu as [Hu ?]). destruct Hb as (Hb1 & Hb2 & Hb3).
    apply IH; auto. intros x. unfold le1 in Hl. simpl in Hl.
    destruct (String.eqb (ident a) x) eqn:E; [apply String.eqb_eq in E as <-; by apply le1l_once|].
    destruct (String.eqb (ident b) x) eqn:E'; [apply String.eqb_eq in E' as <-; by apply le1l_once|].
    apply (le1l_hide [a; b] x); [by rewrite binds2, E, E'|]. eapply le1l_addl. apply Hl.
  - (* FShift *) intros y fr k IH sh Hu Hn Hl Hb. split; [by apply paths_nodup|].
    simpl in Hu, Hn, Hb. repeat (apply andb_true_iff in Hu as [Hu ?]).
    rewrite pdes_uninit by done. unfold le1 in Hl. simpl in Hl. destruct (prov_ref sh fr).
    + apply IH; auto.
    + destruct Hb as [Hb1 Hb2]. apply IH; auto. intros x.
      destruct (String.eqb (ident y) x) eqn:E; [apply String.eqb_eq in E as <-; by apply le1l_once|].
      apply (le1l_hide [y] x); [by rewrite binds1|]. eapply le1l_addl. apply Hl.
  - (* FDrop *) intros c k IH sh Hu Hn Hl Hb. split; [by apply paths_nodup|].
    simpl in Hu, Hn, Hb. apply andb_true_iff in Hu as [Hu Hu']. apply IH; auto.
    intros x. eapply le1l_addl. apply Hl.
  - (* FPrint *) intros l k IH sh Hu Hn Hl Hb. split; [by apply paths_nodup|]. apply IH; auto.
  - (* BrNil *) intros _ _. split; intros; exact I.
  - (* BrCons *) intros l p k IHk r IHr Hu Hn. simpl in Hu, Hn.
    apply andb_true_iff in Hu as [Hu Hu3]. apply andb_true_iff in Hu as [Hu1 Hu2].
    apply andb_true_iff in Hn as [Hn1 Hn2]. destruct (IHr Hu3 Hn2) as [IHp IHc]. split.
    + intros Hl [Hb1 Hb2]. simpl in Hl. split.
      * apply IHk; auto. intros x. by destruct (le1l_app _ _ (Hl x)).
      * apply IHp; auto. intros x. by destruct (le1l_app _ _ (Hl x)).
    + intros sh Hl (Hb1 & Hb2 & Hb3). simpl in Hl. split.
      * apply IHk; auto. intros x.
        destruct (String.eqb (ident p) x) eqn:E; [apply String.eqb_eq in E as <-; by apply le1l_once|].
        apply (le1l_hide [p] x); [by rewrite binds1|]. by destruct (le1l_app _ _ (Hl x)).
      * apply IHc; auto. intros x. by destruct (le1l_app _ _ (Hl x)).
Qed.

Theorem linear_affr ctx_names sh f :
  uninit_form f = true -> nec f = true -> LinearNames ctx_names sh f -> affr sh f.
Proof.
  intros Hu Hn (Ho & Hv & Hb & _). apply (proj1 lin_affr_mut); auto.
  intros x. destruct (str_mem x ctx_names) eqn:E.
  - apply le1l_once. by apply Ho.
  - specialize (Hv x E). unfold never, AllEq in Hv. unfold le1l. eapply Forall_impl; [|exact Hv]. intros n. simpl. lia.
Qed.

(* a variable on a path of a body is in the scope the checker gave the body *)
Lemma path_var_scope ctx_names sh f pi x :
  uninit_form f = true -> nec f = true -> LinearNames ctx_names sh f ->
  In pi (pnames sh f) -> In (KV x) pi -> str_mem x ctx_names = true.
Proof.
  intros Hu Hn (_ & Hv & _) Hpi Hx. destruct (str_mem x ctx_names) eqn:E; [done|]. exfalso.
  specialize (Hv x E). rewrite uses_pnames in Hv by done. unfold never, AllEq in Hv. rewrite Forall_forall in Hv.
  assert (H0 : cnt x pi = 0%nat) by (apply Hv; apply in_map_iff; eauto).
  unfold cnt in H0. by apply (count_occ_not_In key_eq_dec) in H0.
Qed.
