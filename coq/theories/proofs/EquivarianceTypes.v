(* proofs/EquivarianceTypes.v — C14 (verdict half): renaming of TYPE NAMES and LABELS.
   Part A: the functions of package `types` that the declarative judgement mentions commute with an
   injective renaming (tlookup, head, check_wf, add_missing, sanity_typedefs, find_br).
   Part B/C: the judgement and ProgOK are equivariant, given that the type-equality relation is. *)
Require Import Grits.Base Grits.ModeDefs Grits.Modes Grits.STypes Grits.Forms Grits.Subst Grits.Infer
               Grits.TcDeps Grits.Expand Grits.Tc Grits.spec.Typing Grits.proofs.TcLemmas Grits.proofs.TcEnv.

Fixpoint rent_ty (rt rl : string -> string) (t : sty) : sty :=
  match t with
  | TName x m => TName (rt x) m
  | TUnit m => TUnit m
  | TTensor a b m => TTensor (rent_ty rt rl a) (rent_ty rt rl b) m
  | TLolli a b m => TLolli (rent_ty rt rl a) (rent_ty rt rl b) m
  | TPlus bs m => TPlus (rent_brs rt rl bs) m
  | TWith bs m => TWith (rent_brs rt rl bs) m
  | TUp f t a => TUp f t (rent_ty rt rl a)
  | TDown f t a => TDown f t (rent_ty rt rl a)
  end
with rent_brs (rt rl : string -> string) (b : brs) : brs :=
  match b with BNil => BNil | BCons l a r => BCons (rl l) (rent_ty rt rl a) (rent_brs rt rl r) end.

Definition rent_name (rt rl : string -> string) (n : name) : name :=
  set_nty n (option_map (rent_ty rt rl) (nty n)).

Fixpoint rent_form (rt rl : string -> string) (f : form) : form :=
  let rn := rent_name rt rl in
  match f with
  | FSend a b c => FSend (rn a) (rn b) (rn c)
  | FRecv p c fr k => FRecv (rn p) (rn c) (rn fr) (rent_form rt rl k)
  | FSel a l c => FSel (rn a) (rl l) (rn c)
  | FCase fr bs => FCase (rn fr) (rent_branches rt rl bs)
  | FNew x b k => FNew (rn x) (rent_form rt rl b) (rent_form rt rl k)
  | FClose c => FClose (rn c)
  | FWait c k => FWait (rn c) (rent_form rt rl k)
  | FFwd a b d => FFwd (rn a) (rn b) d
  | FSplit x y fr k => FSplit (rn x) (rn y) (rn fr) (rent_form rt rl k)
  | FCall fn args pt => FCall fn (map rn args) (option_map (rent_ty rt rl) pt)
  | FCast a c => FCast (rn a) (rn c)
  | FShift x fr k => FShift (rn x) (rn fr) (rent_form rt rl k)
  | FDrop c k => FDrop (rn c) (rent_form rt rl k)
  | FPrint l k => FPrint l (rent_form rt rl k)
  end
with rent_branches (rt rl : string -> string) (b : branches) : branches :=
  match b with
  | BrNil => BrNil
  | BrCons l p k rest => BrCons (rl l) (rent_name rt rl p) (rent_form rt rl k) (rent_branches rt rl rest)
  end.

Definition rent_program (rt rl : string -> string) (p : program) : program :=
  {| p_procs := map (fun q => {| pr_body := rent_form rt rl (pr_body q);
                                 pr_providers := map (rent_name rt rl) (pr_providers q);
                                 pr_type := option_map (rent_ty rt rl) (pr_type q) |}) (p_procs p);
     p_assumed := map (rent_name rt rl) (p_assumed p);
     p_funs := map (fun f => {| fn_name := fn_name f; fn_params := map (rent_name rt rl) (fn_params f);
                                fn_body := rent_form rt rl (fn_body f);
                                fn_type := option_map (rent_ty rt rl) (fn_type f);
                                fn_explicit := option_map (rent_name rt rl) (fn_explicit f) |}) (p_funs p);
     p_types := map (fun d => {| td_name := rt (td_name d); td_body := rent_ty rt rl (td_body d);
                                 td_mode := td_mode d |}) (p_types p) |}.


Definition rent_def (rt rl : string -> string) (d : tdef) : tdef :=
  {| td_name := rt (td_name d); td_body := rent_ty rt rl (td_body d); td_mode := td_mode d |}.
Definition rent_env (rt rl : string -> string) (D : tenv) : tenv := map (rent_def rt rl) D.

Lemma rent_program_types rt rl p : p_types (rent_program rt rl p) = rent_env rt rl (p_types p).
Proof. reflexivity. Qed.

Definition omap_infer (rt : string -> string) (o : outcome (mode * list string)) : outcome (mode * list string) :=
  match o with Ok (m, u) => Ok (m, map rt u) | Panic s => Panic s | Hang s => Hang s end.

Section TypeRenaming.
Variables rt rl : string -> string.
Hypothesis rt_inj : forall a b, rt a = rt b -> a = b.
Hypothesis rl_inj : forall a b, rl a = rl b -> a = b.
Variable D : tenv.

Notation T := (rent_ty rt rl).
Notation TB := (rent_brs rt rl).
Notation D' := (rent_env rt rl D).

Lemma eqb_rt a b : String.eqb (rt a) (rt b) = String.eqb a b.
Proof.
  destruct (String.eqb a b) eqn:E.
  - apply String.eqb_eq in E. subst. apply String.eqb_refl.
  - apply String.eqb_neq. intros H. apply rt_inj in H. apply String.eqb_neq in E. contradiction.
Qed.
Lemma eqb_rl a b : String.eqb (rl a) (rl b) = String.eqb a b.
Proof.
  destruct (String.eqb a b) eqn:E.
  - apply String.eqb_eq in E. subst. apply String.eqb_refl.
  - apply String.eqb_neq. intros H. apply rl_inj in H. apply String.eqb_neq in E. contradiction.
Qed.
Lemma str_mem_rt x l : str_mem (rt x) (map rt l) = str_mem x l.
Proof. induction l as [|y l IH]; cbn; auto. now rewrite eqb_rt, IH. Qed.
Lemma str_mem_rl x l : str_mem (rl x) (map rl l) = str_mem x l.
Proof. induction l as [|y l IH]; cbn; auto. now rewrite eqb_rl, IH. Qed.

Lemma size_rent : (forall t, tsize (T t) = tsize t) /\ (forall b, bsize (TB b) = bsize b).
Proof. apply sty_brs_ind; intros; cbn; congruence. Qed.
Lemma env_size_rent : env_size D' = env_size D.
Proof. unfold env_size, rent_env. induction D as [|d r IH]; cbn; auto. now rewrite (proj1 size_rent), IH. Qed.
Lemma length_rent : length D' = length D.
Proof. apply map_length. Qed.

Lemma tlookup_rent x : tlookup D' (rt x) = option_map (rent_def rt rl) (tlookup D x).
Proof.
  unfold rent_env. induction D as [|d r IH]; cbn; auto. rewrite IH. destruct (tlookup r x); cbn; auto.
  rewrite eqb_rt. destruct (String.eqb x (td_name d)); auto.
Qed.

Lemma mode_of_rent t : mode_of (T t) = mode_of t.
Proof. destruct t; reflexivity. Qed.
Lemma polarity_of_rent t : polarity_of (T t) = polarity_of t.
Proof. destruct t; reflexivity. Qed.
Lemma is_name_rent t : is_name (T t) = is_name t.
Proof. destruct t; reflexivity. Qed.
Lemma find_br_rent l bs : find_br (rl l) (TB bs) = option_map T (find_br l bs).
Proof. induction bs as [|l' a r IH]; cbn; auto. rewrite eqb_rl. destruct (String.eqb l l'); auto. Qed.
Lemma brs_labels_rent bs : brs_labels (TB bs) = map rl (brs_labels bs).
Proof. induction bs; cbn; auto. now rewrite IHbs. Qed.
Lemma brs_len_rent bs : brs_len (TB bs) = brs_len bs.
Proof. induction bs; cbn; auto. Qed.

Lemma head_rent t h : head D t h -> head D' (T t) (T h).
Proof.
  induction 1 as [h N|x m d h E _ IH].
  - apply head_here. now rewrite is_name_rent.
  - cbn. eapply head_step; [rewrite tlookup_rent, E; reflexivity|exact IH].
Qed.

Lemma check_labels_rent :
  (forall t, check_labels D' (T t) = check_labels D t) /\
  (forall b seen, check_labels_brs D' (map rl seen) (TB b) = check_labels_brs D seen b).
Proof.
  apply sty_brs_ind; intros; cbn [rent_ty rent_brs check_labels check_labels_brs]; auto; try congruence.
  - rewrite tlookup_rent. destruct (tlookup D x); reflexivity.
  - apply (H []).
  - apply (H []).
  - rewrite str_mem_rl, H. change (rl l :: map rl seen) with (map rl (l :: seen)). now rewrite H0.
Qed.
Lemma check_modes_rent :
  (forall t cur, check_modes D' cur (T t) = check_modes D cur t) /\
  (forall b cur, check_modes_brs D' cur (TB b) = check_modes_brs D cur b).
Proof.
  apply sty_brs_ind; intros; cbn [rent_ty rent_brs check_modes check_modes_brs]; auto; try congruence.
  rewrite tlookup_rent. destruct (tlookup D x); reflexivity.
Qed.
Lemma check_wf_rent t : check_wf D' (T t) = check_wf D t.
Proof. unfold check_wf. now rewrite (proj1 check_labels_rent), mode_of_rent, (proj1 check_modes_rent). Qed.

(* ---- mode inference *)
Lemma infer_rent : forall fuel,
  (forall t used, infer fuel D' (T t) (map rt used) = omap_infer rt (infer fuel D t used)) /\
  (forall b used, infer_brs fuel D' (TB b) (map rt used) = infer_brs fuel D b used).
Proof.
  induction fuel as [|f [IHt IHb]]; [split; reflexivity|]. split.
  - intros t used. destruct t; cbn [rent_ty infer]; try reflexivity.
    + destruct (negb (is_unset m)); [reflexivity|]. rewrite tlookup_rent. destruct (tlookup D x) as [d|]; cbn [option_map]; [|reflexivity].
      rewrite str_mem_rt. destruct (negb (str_mem x used)); [|reflexivity].
      change (rt x :: map rt used) with (map rt (x :: used)). cbn [td_body rent_def]. apply IHt.
    + destruct (negb (is_unset m)); [reflexivity|]. rewrite !IHt.
      destruct (infer f D t1 used) as [[lm u1]| |]; cbn; try reflexivity.
      destruct (infer f D t2 used) as [[rm u2]| |]; cbn; reflexivity.
    + destruct (negb (is_unset m)); [reflexivity|]. rewrite !IHt.
      destruct (infer f D t1 used) as [[lm u1]| |]; cbn; try reflexivity.
      destruct (infer f D t2 used) as [[rm u2]| |]; cbn; reflexivity.
    + destruct (negb (is_unset m)); [reflexivity|]. rewrite IHb. destruct (infer_brs f D bs used); reflexivity.
    + destruct (negb (is_unset m)); [reflexivity|]. rewrite IHb. destruct (infer_brs f D bs used); reflexivity.
  - intros b used. destruct b; cbn [rent_brs infer_brs]; [reflexivity|]. rewrite IHt, IHb.
    destruct (infer f D a used) as [[m u]| |]; cbn; reflexivity.
Qed.

Lemma assign_rent :
  (forall t cur, assign D' cur (T t) = T (assign D cur t)) /\
  (forall b cur, assign_brs D' cur (TB b) = TB (assign_brs D cur b)).
Proof.
  apply sty_brs_ind; intros; cbn [rent_ty rent_brs assign assign_brs]; try congruence.
  - destruct (negb (is_unset m)); [reflexivity|]. rewrite tlookup_rent. destruct (tlookup D x); reflexivity.
  - destruct (is_unset m); reflexivity.
Qed.

Lemma infer_fuel_rent t : infer_fuel D' (T t) = infer_fuel D t.
Proof. unfold infer_fuel. now rewrite length_rent, env_size_rent, (proj1 size_rent). Qed.

Lemma add_missing_rent t t' : add_missing D t = Ok t' -> add_missing D' (T t) = Ok (T t').
Proof.
  intros H. unfold add_missing in *. rewrite infer_fuel_rent.
  change (infer (infer_fuel D t) D' (T t) []) with (infer (infer_fuel D t) D' (T t) (map rt [])).
  rewrite (proj1 (infer_rent _)). destruct (infer (infer_fuel D t) D t []) as [[m u]| |]; cbn in *; try discriminate.
  inversion H; subst. now rewrite (proj1 assign_rent).
Qed.

(* ---- contractiveness and the environment check *)
Lemma contractive_f_rent : forall fuel seen t,
  contractive_f fuel D' (map rt seen) (T t) = contractive_f fuel D seen t.
Proof.
  induction fuel as [|f IH]; intros seen t; [reflexivity|]. destruct t; cbn [rent_ty contractive_f]; try reflexivity.
  rewrite str_mem_rt. destruct (str_mem x seen); [reflexivity|]. rewrite tlookup_rent.
  destruct (tlookup D x) as [d|]; cbn [option_map]; [|reflexivity].
  change (rt x :: map rt seen) with (map rt (x :: seen)). cbn [td_body rent_def]. apply IH.
Qed.
Lemma contractive_rent t : contractive D' (T t) = contractive D t.
Proof. unfold contractive. rewrite length_rent. change (@nil string) with (map rt []) at 1. apply contractive_f_rent. Qed.

Lemma has_dup_rt l : has_dup (map rt l) = has_dup l.
Proof. induction l as [|x l IH]; cbn; auto. now rewrite str_mem_rt, IH. Qed.

Lemma sanity_loop_rent l : sanity_loop D' (map (rent_def rt rl) l) = sanity_loop D l.
Proof.
  induction l as [|d l IH]; [reflexivity|]. cbn [map]. rewrite !sanity_loop_cons. cbn [td_body rent_def].
  rewrite contractive_rent, check_wf_rent, IH. reflexivity.
Qed.

Lemma sanity_rent : sanity_typedefs D' = sanity_typedefs D.
Proof.
  rewrite !sanity_typedefs_eq. unfold rent_env at 1. rewrite map_map. cbn [td_name rent_def].
  rewrite <- (map_map td_name rt), has_dup_rt. destruct (has_dup (map td_name D)); [reflexivity|].
  assert (E : forall l, forallb (sanity_pred D') (map (rent_def rt rl) l) = forallb (sanity_pred D) l).
  { induction l as [|d l IHl]; cbn [map forallb]; auto.
    rewrite IHl. f_equal. unfold sanity_pred. cbn [td_body td_mode rent_def].
    now rewrite check_wf_rent, mode_of_rent. }
  unfold rent_env at 2. rewrite E. destruct (negb (forallb (sanity_pred D) D)); [reflexivity|]. apply sanity_loop_rent.
Qed.

(* ---------------------------------------------------------------- names, contexts, forms *)
Notation rn := (rent_name rt rl).
Notation ro := (option_map (rent_name rt rl)).
Definition rentc (g : ctx) : ctx := map (fun kv => (fst kv, option_map T (snd kv))) g.
Definition rent_sig (s : fsig) : fsig :=
  {| fs_name := fs_name s; fs_params := map rn (fs_params s); fs_type := option_map T (fs_type s) |}.

Lemma name_equal_rent a b : name_equal (rn a) (rn b) = name_equal a b.
Proof. reflexivity. Qed.
Lemma is_provider_rent n sh : is_provider (rn n) (ro sh) = is_provider n sh.
Proof. destruct sh; reflexivity. Qed.

Lemma alookup_rentc x g : alookup x (rentc g) = option_map (option_map T) (alookup x g).
Proof. unfold rentc. induction g as [|[k v] g IH]; cbn; auto. destruct (String.eqb x k); auto. Qed.
Lemma aremove_rentc x g : aremove x (rentc g) = rentc (aremove x g).
Proof. unfold rentc. induction g as [|[k v] g IH]; cbn; auto. destruct (String.eqb x k); cbn; now rewrite IH. Qed.
Lemma aset_rentc x v g : aset x (option_map T v) (rentc g) = rentc (aset x v g).
Proof.
  unfold aset. change (rentc ((x, v) :: aremove x g)) with ((x, option_map T v) :: rentc (aremove x g)).
  now rewrite aremove_rentc.
Qed.

Lemma has_rent g n t : has g n t -> has (rentc g) (rn n) (T t).
Proof. intros [S L]. split; auto. cbn. rewrite alookup_rentc, L. reflexivity. Qed.
Lemma fresh_rent g n : fresh g n -> fresh (rentc g) (rn n).
Proof. unfold fresh, ctx_has, amem. cbn. rewrite alookup_rentc. destruct (alookup (ident n) g); auto. Qed.
Lemma ctx_has_rent g x : ctx_has (rentc g) x = ctx_has g x.
Proof. unfold ctx_has, amem. rewrite alookup_rentc. destruct (alookup x g); auto. Qed.
Lemma without_rent g n : without (rentc g) (rn n) = rentc (without g n).
Proof. unfold without. cbn. apply aremove_rentc. Qed.
Lemma bind_rent g n t : bind (rentc g) (rn n) (T t) = rentc (bind g n t).
Proof. unfold bind. cbn. apply (aset_rentc (ident n) (Some t)). Qed.
Lemma rentc_nil g : g = [] -> rentc g = [].
Proof. now intros ->. Qed.
Lemma as_provider_rent n t : as_provider (rn n) (T t) = ro (as_provider n t).
Proof. reflexivity. Qed.
Lemma pol_ok_rent n h : pol_ok n h -> pol_ok (rn n) (T h).
Proof. unfold pol_ok. cbn. now rewrite polarity_of_rent. Qed.
Lemma ctx_ge_rent g m : ctx_ge g m -> ctx_ge (rentc g) m.
Proof.
  intros G x t Hin. unfold rentc in Hin. apply in_map_iff in Hin. destruct Hin as [[k v] [E Hin]].
  cbn in E. inversion E; subst. destruct v as [v|]; [|discriminate]. cbn in H1. inversion H1; subst.
  rewrite mode_of_rent. eapply G; eauto.
Qed.

(* free names *)
Lemma append_rent n l : append_if_not_self (rn n) (map rn l) = map rn (append_if_not_self n l).
Proof. unfold append_if_not_self. cbn. destruct (is_self n); auto. now rewrite map_app. Qed.
Lemma remove_bound_rent l b : remove_bound (map rn l) (rn b) = map rn (remove_bound l b).
Proof.
  unfold remove_bound. induction l as [|x l IH]; cbn [map filter]; auto.
  rewrite name_equal_rent. destruct (name_equal x b); cbn; now rewrite IH.
Qed.
Lemma name_exists_rent l c : name_exists (map rn l) (rn c) = name_exists l c.
Proof. unfold name_exists. induction l as [|x l IH]; cbn [map existsb]; auto. now rewrite name_equal_rent, IH. Qed.
Lemma merge_rent : forall b a, merge_names (map rn a) (map rn b) = map rn (merge_names a b).
Proof.
  induction b as [|n b IH]; intros a; cbn [map merge_names]; auto.
  rewrite name_exists_rent. destruct (name_exists a n); [apply IH|].
  rewrite <- IH. now rewrite map_app.
Qed.
Lemma fold_append_rent : forall args acc,
  fold_left (fun acc n => append_if_not_self n acc) (map rn args) (map rn acc) =
  map rn (fold_left (fun acc n => append_if_not_self n acc) args acc).
Proof. induction args as [|a args IH]; intros acc; cbn [map fold_left]; auto. rewrite append_rent. apply IH. Qed.

Lemma free_names_rent_all :
  (forall f, free_names (rent_form rt rl f) = map rn (free_names f)) /\
  (forall b acc, free_names_brs (map rn acc) (rent_branches rt rl b) = map rn (free_names_brs acc b)).
Proof.
  apply form_branches_ind; intros; cbn [rent_form rent_branches free_names free_names_brs].
  - change (@nil name) with (map rn []). now rewrite !append_rent.
  - rewrite H, !remove_bound_rent. change (@nil name) with (map rn []) at 1. now rewrite append_rent, merge_rent.
  - change (@nil name) with (map rn []). now rewrite !append_rent.
  - change (@nil name) with (map rn []) at 1. rewrite append_rent. apply H.
  - rewrite H, H0, remove_bound_rent. change (@nil name) with (map rn []) at 1. now rewrite !merge_rent.
  - change (@nil name) with (map rn []). now rewrite !append_rent.
  - rewrite H. change (@nil name) with (map rn []) at 1. now rewrite append_rent, merge_rent.
  - change (@nil name) with (map rn []). now rewrite !append_rent.
  - rewrite H, !remove_bound_rent. change (@nil name) with (map rn []) at 1. now rewrite append_rent, merge_rent.
  - change (@nil name) with (map rn []) at 1. apply fold_append_rent.
  - change (@nil name) with (map rn []). now rewrite !append_rent.
  - rewrite H, remove_bound_rent. change (@nil name) with (map rn []) at 1. now rewrite append_rent, merge_rent.
  - rewrite H. change (@nil name) with (map rn []) at 1. now rewrite append_rent, merge_rent.
  - apply H.
  - reflexivity.
  - rewrite H, remove_bound_rent, merge_rent. apply H0.
Qed.
Lemma free_names_rent f : free_names (rent_form rt rl f) = map rn (free_names f).
Proof. apply free_names_rent_all. Qed.
Lemma name_in_names_rent x l : name_in_names (rn x) (map rn l) = name_in_names x l.
Proof. unfold name_in_names. induction l as [|y l IH]; cbn [map existsb]; auto. now rewrite name_equal_rent, IH. Qed.
Lemma has_continuation_rent f : has_continuation (rent_form rt rl f) = has_continuation f.
Proof. destruct f; reflexivity. Qed.
Lemma not_call_rent f : (forall fn args o, f <> FCall fn args o) -> forall fn args o, rent_form rt rl f <> FCall fn args o.
Proof. intros N fn args o. destruct f; cbn; try discriminate. exfalso. eapply N; eauto. Qed.
Lemma br_labels_rent b : br_labels (rent_branches rt rl b) = map rl (br_labels b).
Proof. induction b; cbn; auto. now rewrite IHb. Qed.

Lemma NoDup_rl l : NoDup l -> NoDup (map rl l).
Proof.
  induction 1 as [|x l Hx N IH]; cbn; constructor; auto.
  intros Hin. apply in_map_iff in Hin. destruct Hin as [y [E Hy]]. apply rl_inj in E. now subst.
Qed.

(* ---------------------------------------------------------------- the judgement *)
Section Judgement.
Variable teq : tenv -> sty -> sty -> Prop.
Hypothesis teq_rent : forall s t, teq D s t -> teq D' (T s) (T t).
Variable Sg : sigma.
Notation Sg' := (map rent_sig Sg).

Lemma sig_lookup_rent fn : sig_lookup Sg' fn = option_map rent_sig (sig_lookup Sg fn).
Proof.
  induction Sg as [|s S IH]; cbn; auto. rewrite IH. destruct (sig_lookup S fn); cbn; auto.
  destruct (String.eqb fn (fs_name s)); auto.
Qed.

Lemma split_ctx_rent g ns acc gl gr : split_ctx D g ns acc gl gr ->
  split_ctx D' (rentc g) (map rn ns) (rentc acc) (rentc gl) (rentc gr).
Proof.
  induction 1 as [g acc|g n ns acc gl gr S SP IH|g n ns acc gl gr t h Ha Hh SP IH]; cbn [map].
  - constructor.
  - apply split_self; auto.
  - eapply split_take; eauto using has_rent, head_rent. now rewrite without_rent, bind_rent.
Qed.

Lemma typed_args_rent g args params g' : TypedArgs teq D g args params g' ->
  TypedArgs teq D' (rentc g) (map rn args) (map rn params) (rentc g').
Proof.
  induction 1 as [g|g a ar p pr g' ta tp ha Ha Np Te Hh Po TA IH]; cbn [map]; [constructor|].
  eapply args_cons with (ta := T ta) (tp := T tp) (ha := T ha); eauto using has_rent, head_rent, pol_ok_rent.
  - cbn. now rewrite Np.
  - now rewrite without_rent.
Qed.

Lemma find_br_rent_some l bs a : find_br l bs = Some a -> find_br (rl l) (TB bs) = Some (T a).
Proof. intros H. now rewrite find_br_rent, H. Qed.
Lemma is_provider_rent_eq n sh b : is_provider n sh = b -> is_provider (rn n) (ro sh) = b.
Proof. now rewrite is_provider_rent. Qed.
Lemma name_equal_rent_eq a b c : name_equal a b = c -> name_equal (rn a) (rn b) = c.
Proof. auto. Qed.
Lemma check_wf_rent_true t : check_wf D t = true -> check_wf D' (T t) = true.
Proof. now rewrite check_wf_rent. Qed.
Lemma incl_labels_rent bs b : incl (brs_labels bs) (br_labels b) ->
  incl (brs_labels (TB bs)) (br_labels (rent_branches rt rl b)).
Proof. intros I. rewrite brs_labels_rent, br_labels_rent. now apply incl_map. Qed.
Lemma nodup_labels_rent b : NoDup (br_labels b) -> NoDup (br_labels (rent_branches rt rl b)).
Proof. intros N. rewrite br_labels_rent. now apply NoDup_rl. Qed.

Hint Resolve has_rent fresh_rent is_provider_rent_eq name_equal_rent_eq pol_ok_rent rentc_nil ctx_ge_rent
     head_rent teq_rent find_br_rent_some check_wf_rent_true incl_labels_rent nodup_labels_rent add_missing_rent : rent.

(* lift the type-level premises of a rule (heads of connectives become syntactic again after cbn) *)
Ltac lift := repeat match goal with
  | H : head D _ _ |- _ => apply head_rent in H; cbn [rent_ty rent_brs] in H
  | H : teq D _ _ |- _ => apply teq_rent in H; cbn [rent_ty rent_brs] in H
  | H : pol_ok ?n _ |- _ => lazymatch n with rent_name _ _ _ => fail | _ => apply pol_ok_rent in H; cbn [rent_ty rent_brs] in H end
  end.
Ltac rw_rent := rewrite ?without_rent, ?bind_rent, ?as_provider_rent, ?mode_of_rent, ?polarity_of_rent.
Ltac bindT := repeat match goal with
  | |- context [bind ?g (rent_name rt rl ?n) (TUnit ?m)] => change (TUnit m) with (T (TUnit m))
  end.

Theorem typed_rent_all :
  (forall g sh A f, Typed teq D Sg g sh A f -> Typed teq D' Sg' (rentc g) (ro sh) (T A) (rent_form rt rl f)) /\
  (forall g bs b, TypedBrsR teq D Sg g bs b -> TypedBrsR teq D' Sg' (rentc g) (TB bs) (rent_branches rt rl b)) /\
  (forall g sh A bs b, TypedBrsL teq D Sg g sh A bs b ->
     TypedBrsL teq D' Sg' (rentc g) (ro sh) (T A) (TB bs) (rent_branches rt rl b)).
Proof.
  apply Typed_mutind; intros; cbn [rent_form rent_branches]; lift.
  - eapply T_TensorR; rw_rent; eauto with rent.
  - eapply T_TensorL; rw_rent; eauto with rent.
  - eapply T_LolliR; rw_rent; eauto with rent.
  - eapply T_LolliL; rw_rent; eauto with rent.
  - eapply T_PlusR; rw_rent; eauto with rent.
  - eapply T_PlusL; rw_rent; eauto with rent.
  - eapply T_WithR; rw_rent; eauto with rent.
  - eapply T_WithL; rw_rent; eauto with rent.
  - change (@nil (string * option sty)) with (rentc []). eapply T_OneR; eauto with rent.
  - eapply T_OneL; rw_rent; eauto with rent.
  - eapply T_DownR with (hc := T hc); rw_rent; eauto with rent.
  - eapply T_DownL; rw_rent; eauto with rent.
  - eapply T_UpR; rw_rent; eauto with rent.
  - eapply T_UpL with (hA := T hA); rw_rent; eauto with rent.
  - eapply T_Id with (hf := T hf) (hA := T hA); rw_rent; eauto with rent.
  - eapply T_CutCall with (gl := rentc gl) (gr := rentc gr) (sg := rent_sig sg) (ft := T ft) (hft := T hft);
      rw_rent; eauto with rent.
    + cbn [ident rent_name set_nty]. rewrite ctx_has_rent.
      change (FCall fn (map rn args) (option_map T o)) with (rent_form rt rl (FCall fn args o)).
      rewrite free_names_rent, name_in_names_rent. assumption.
    + change (@nil (string * option sty)) with (rentc []). now apply split_ctx_rent.
    + rewrite sig_lookup_rent. match goal with E : sig_lookup Sg fn = Some _ |- _ => now rewrite E end.
    + cbn. match goal with E : fs_type sg = Some _ |- _ => now rewrite E end.
    + intros xt Nx. cbn in Nx. destruct (nty x) as [xt0|] eqn:N0; [|discriminate]. cbn in Nx. inversion Nx; subst xt.
      match goal with AN : forall xt, Some xt0 = Some xt -> _ |- _ => destruct (AN _ eq_refl) as [xt1 [AM [Wx Te]]] end.
      exists (T xt1). repeat split; eauto with rent.
  - eapply T_CutAx with (gl := rentc gl) (gr := rentc gr) (xt := T xt) (xt1 := T xt1) (h := T h);
      rw_rent; eauto with rent.
    + now rewrite has_continuation_rent.
    + now apply not_call_rent.
    + cbn [ident rent_name set_nty]. rewrite ctx_has_rent, free_names_rent, name_in_names_rent. assumption.
    + rewrite free_names_rent. change (@nil (string * option sty)) with (rentc []). now apply split_ctx_rent.
    + cbn. match goal with E : nty x = Some _ |- _ => now rewrite E end.
  - eapply T_Call with (sg := rent_sig sg) (ft := T ft); eauto with rent.
    + rewrite sig_lookup_rent. match goal with E : sig_lookup Sg fn = Some _ |- _ => now rewrite E end.
    + cbn. now rewrite !map_length.
    + cbn. match goal with E : fs_type sg = Some _ |- _ => now rewrite E end.
    + cbn. change (@nil (string * option sty)) with (rentc []). now apply typed_args_rent.
  - cbn [map]. eapply T_CallSelf with (sg := rent_sig sg) (ft := T ft); eauto with rent.
    + rewrite sig_lookup_rent. match goal with E : sig_lookup Sg fn = Some _ |- _ => now rewrite E end.
    + cbn. now rewrite !map_length.
    + cbn. match goal with E : fs_type sg = Some _ |- _ => now rewrite E end.
    + cbn. change (@nil (string * option sty)) with (rentc []). now apply typed_args_rent.
  - eapply T_Drop with (tc := T tc) (hc := T hc); rw_rent; eauto with rent.
  - eapply T_Split with (tf := T tf) (hf := T hf); rw_rent; eauto with rent.
  - eapply T_Print; eauto.
  - constructor.
  - eapply brsR_cons with (bt := T bt) (hbt := T hbt); rw_rent; eauto with rent.
  - constructor.
  - eapply brsL_cons with (bt := T bt) (hbt := T hbt); rw_rent; eauto with rent.
Qed.
End Judgement.
(* ---------------------------------------------------------------- programs *)
Definition rent_fun (f : fundef) : fundef :=
  {| fn_name := fn_name f; fn_params := map rn (fn_params f); fn_body := rent_form rt rl (fn_body f);
     fn_type := option_map T (fn_type f); fn_explicit := ro (fn_explicit f) |}.
Definition rent_proc (q : procdef) : procdef :=
  {| pr_body := rent_form rt rl (pr_body q); pr_providers := map rn (pr_providers q);
     pr_type := option_map T (pr_type q) |}.

Lemma rent_program_eq p : rent_program rt rl p =
  {| p_procs := map rent_proc (p_procs p); p_assumed := map rn (p_assumed p);
     p_funs := map rent_fun (p_funs p); p_types := rent_env rt rl (p_types p) |}.
Proof. reflexivity. Qed.

Lemma Forall2_map2 {A B} (R : A -> A -> Prop) (S : B -> B -> Prop) (f : A -> B) l l' :
  (forall a a', R a a' -> S (f a) (f a')) -> Forall2 R l l' -> Forall2 S (map f l) (map f l').
Proof. intros H. induction 1; cbn; constructor; auto. Qed.
Lemma Forall_map_intro2 {A B} (P : A -> Prop) (Q : B -> Prop) (f : A -> B) l :
  (forall a, P a -> Q (f a)) -> Forall P l -> Forall Q (map f l).
Proof. intros H. induction 1; cbn; constructor; auto. Qed.

Lemma elab_name_rent n n' : elab_name D n n' -> elab_name D' (rn n) (rn n').
Proof.
  intros [t [t' [E1 [E2 ->]]]]. exists (T t), (T t'). repeat split.
  - cbn. now rewrite E1.
  - now apply add_missing_rent.
Qed.
Lemma elab_fun_rent f f' : elab_fun D f f' -> elab_fun D' (rent_fun f) (rent_fun f').
Proof.
  intros [t [t' [ps' [E1 [E2 [E3 ->]]]]]]. exists (T t), (T t'), (map rn ps'). repeat split.
  - cbn. now rewrite E1.
  - now apply add_missing_rent.
  - eapply Forall2_map2; eauto using elab_name_rent.
Qed.
Lemma elab_proc_rent q q' : elab_proc D q q' -> elab_proc D' (rent_proc q) (rent_proc q').
Proof.
  intros [t [t' [E1 [E2 ->]]]]. exists (T t), (T t'). repeat split.
  - cbn. now rewrite E1.
  - now apply add_missing_rent.
Qed.

Lemma typed_name_ok_rent n : typed_name_ok D n -> typed_name_ok D' (rn n).
Proof. intros [t [Nt Wt]]. exists (T t). split; [cbn; now rewrite Nt|now rewrite check_wf_rent]. Qed.

Lemma ctx_of_names_rent ns : ctx_of_names (map rn ns) = rentc (ctx_of_names ns).
Proof.
  unfold ctx_of_names. change (@nil (string * option sty)) with (rentc []) at 1. generalize (@nil (string * option sty)).
  induction ns as [|n ns IH]; intros acc; cbn [map fold_left]; auto.
  cbn [ident nty rent_name set_nty]. rewrite aset_rentc. apply IH.
Qed.

Lemma idents_rent (l : list name) : map ident (map rn l) = map ident l.
Proof. rewrite map_map. reflexivity. Qed.

Lemma proc_uses_rent q : proc_uses (rent_proc q) = map rn (proc_uses q).
Proof.
  unfold proc_uses. cbn [pr_body pr_providers rent_proc]. rewrite free_names_rent, idents_rent.
  induction (free_names (pr_body q)) as [|n l IH]; cbn [map filter]; auto.
  cbn [ident rent_name set_nty]. destruct (str_mem (ident n) (map ident (pr_providers q))); cbn; now rewrite IH.
Qed.
Lemma all_providers_rent ps : all_providers (map rent_proc ps) = all_providers ps.
Proof.
  unfold all_providers. induction ps as [|q ps IH]; cbn [map flat_map]; auto.
  rewrite IH. cbn [pr_providers rent_proc]. now rewrite idents_rent.
Qed.
Lemma uses_rent ps : flat_map (fun q => map ident (proc_uses q)) (map rent_proc ps) =
                     flat_map (fun q => map ident (proc_uses q)) ps.
Proof.
  induction ps as [|q ps IH]; cbn [map flat_map]; auto. rewrite IH, proc_uses_rent. now rewrite idents_rent.
Qed.

Lemma provider_index_rent ps x : provider_index (map rent_proc ps) x = provider_index ps x.
Proof.
  unfold provider_index. generalize 0 (@None nat). induction ps as [|q ps IH]; intros n o; cbn [map]; auto.
  cbn [pr_providers rent_proc]. rewrite idents_rent. apply IH.
Qed.
Lemma proc_deps_rent ps q : proc_deps (map rent_proc ps) (rent_proc q) = proc_deps ps q.
Proof.
  unfold proc_deps. rewrite proc_uses_rent. induction (proc_uses q) as [|fn l IH]; cbn [map flat_map]; auto.
  change (ident (rn fn)) with (ident fn). now rewrite provider_index_rent, IH.
Qed.
Lemma deps_acyclic_rent ps : deps_acyclic (map rent_proc ps) = deps_acyclic ps.
Proof.
  unfold deps_acyclic. rewrite map_length, map_map.
  assert (E : map (fun x => proc_deps (map rent_proc ps) (rent_proc x)) ps = map (proc_deps ps) ps)
    by (apply map_ext; intros; apply proc_deps_rent).
  now rewrite E.
Qed.

Definition rent_tn (m : list (string * name)) : list (string * name) := map (fun kv => (fst kv, rn (snd kv))) m.
Lemma alookup_rent_tn x m : alookup x (rent_tn m) = option_map rn (alookup x m).
Proof. unfold rent_tn. induction m as [|[k v] m IH]; cbn; auto. destruct (String.eqb x k); auto. Qed.
Lemma aremove_rent_tn x m : aremove x (rent_tn m) = rent_tn (aremove x m).
Proof. unfold rent_tn. induction m as [|[k v] m IH]; cbn; auto. destruct (String.eqb x k); cbn; now rewrite IH. Qed.
Lemma aset_rent_tn x v m : aset x (rn v) (rent_tn m) = rent_tn (aset x v m).
Proof.
  unfold aset. change (rent_tn ((x, v) :: aremove x m)) with ((x, rn v) :: rent_tn (aremove x m)).
  now rewrite aremove_rent_tn.
Qed.

Lemma top_names_rent ps assumed : top_names (map rent_proc ps) (map rn assumed) = rent_tn (top_names ps assumed).
Proof.
  unfold top_names.
  assert (P : flat_map (fun q => map (fun n => (ident n, set_nty n (pr_type q))) (pr_providers q)) (map rent_proc ps)
            = rent_tn (flat_map (fun q => map (fun n => (ident n, set_nty n (pr_type q))) (pr_providers q)) ps)).
  { unfold rent_tn. induction ps as [|q ps IH]; cbn [map flat_map]; auto. rewrite IH, map_app.
    cbn [pr_providers pr_type rent_proc]. rewrite !map_map. reflexivity. }
  rewrite P. clear P.
  assert (F1 : forall (l : list (string * name)) acc,
            fold_left (fun m kv => aset (fst kv) (snd kv) m) (rent_tn l) (rent_tn acc) =
            rent_tn (fold_left (fun m kv => aset (fst kv) (snd kv) m) l acc)).
  { induction l as [|[k v] l IH]; intros acc; cbn [fold_left]; auto.
    change (rent_tn ((k, v) :: l)) with ((k, rn v) :: rent_tn l). cbn [fold_left fst snd].
    rewrite aset_rent_tn. apply IH. }
  assert (F2 : forall (l : list name) acc,
            fold_left (fun m a => aset (ident a) a m) (map rn l) (rent_tn acc) =
            rent_tn (fold_left (fun m a => aset (ident a) a m) l acc)).
  { induction l as [|a l IH]; intros acc; cbn [map fold_left]; auto.
    change (ident (rn a)) with (ident a). rewrite aset_rent_tn. apply IH. }
  change (@nil (string * name)) with (rent_tn (@nil (string * name))) at 1.
  rewrite F1. apply F2.
Qed.

Lemma proc_ctx_rent ps assumed q :
  proc_ctx (map rent_proc ps) (map rn assumed) (rent_proc q) = rentc (proc_ctx ps assumed q).
Proof.
  unfold proc_ctx. rewrite proc_uses_rent, top_names_rent, <- ctx_of_names_rent. f_equal.
  induction (proc_uses q) as [|fn l IH]; cbn [map flat_map]; auto.
  change (ident (rn fn)) with (ident fn). rewrite alookup_rent_tn, IH.
  destruct (alookup (ident fn) (top_names ps assumed)); reflexivity.
Qed.

Lemma sig_of_rent f s : sig_of D f s -> sig_of D' (rent_fun f) (rent_sig s).
Proof.
  intros [E1 [E2 [t [h [Ft [Hh Es]]]]]]. split; [|split]; cbn; [exact E1|now rewrite E2|].
  exists (T t), (T h). repeat split; [now rewrite Ft|now apply head_rent|now rewrite Es].
Qed.

Section Prog.
Variable teq : tenv -> sty -> sty -> Prop.
Hypothesis teq_rent : forall s t, teq D s t -> teq D' (T s) (T t).

Lemma FunOK_rent Sg f : FunOK teq D Sg f -> FunOK teq D' (map rent_sig Sg) (rent_fun f).
Proof.
  intros [N Tp [t [Ft [Wt [I Ty]]]]]. constructor; cbn [fn_params fn_type fn_body rent_fun].
  - now rewrite idents_rent.
  - eapply Forall_map_intro2; eauto using typed_name_ok_rent.
  - exists (T t). repeat split.
    + now rewrite Ft.
    + now rewrite check_wf_rent.
    + intros p tp Hp Np. apply in_map_iff in Hp. destruct Hp as [m [<- Hm]]. cbn in Np.
      destruct (nty m) as [tm|] eqn:Nm; [|discriminate]. cbn in Np. inversion Np; subst tp.
      rewrite !mode_of_rent. eapply I; eauto.
    + rewrite ctx_of_names_rent. apply (proj1 (typed_rent_all teq teq_rent Sg) _ None _ _ Ty).
Qed.

Lemma ProcOK_rent Sg all assumed q : ProcOK teq D Sg all assumed q ->
  ProcOK teq D' (map rent_sig Sg) (map rent_proc all) (map rn assumed) (rent_proc q).
Proof.
  intros [[t [Pt [Wt [C Ty]]]]]. constructor. exists (T t). repeat split.
  - cbn. now rewrite Pt.
  - now rewrite check_wf_rent.
  - cbn [pr_providers rent_proc]. rewrite map_length, mode_of_rent. exact C.
  - rewrite proc_ctx_rent. apply (proj1 (typed_rent_all teq teq_rent Sg) _ None _ _ Ty).
Qed.
End Prog.
End TypeRenaming.

(* ---------------------------------------------------------------- ProgOK *)
(* the type-equality relation is invariant under the renaming (true of bisimilarity) *)
Definition teq_equivariant (teq : tenv -> sty -> sty -> Prop) (rt rl : string -> string) : Prop :=
  forall D s t, teq D s t -> teq (rent_env rt rl D) (rent_ty rt rl s) (rent_ty rt rl t).

Theorem typing_equivariant_types_inj teq rt rl p :
  (forall a b, rt a = rt b -> a = b) -> (forall a b, rl a = rl b -> a = b) -> teq_equivariant teq rt rl ->
  ProgOK teq p -> ProgOK teq (rent_program rt rl p).
Proof.
  intros Ht Hl Heq [pe [[ET [EF [EP EA]]] [SD NF [Sg [SO [FO PO]]] NA TA NP DJ U1 U2 U3 AC PN]]].
  exists (rent_program rt rl pe). split.
  - rewrite !rent_program_eq. repeat split; cbn [p_types p_funs p_procs p_assumed].
    + now rewrite ET.
    + eapply Forall2_map2; [|exact EF]. intros a a'. apply elab_fun_rent; auto.
    + eapply Forall2_map2; [|exact EP]. intros a a'. apply elab_proc_rent; auto.
    + eapply Forall2_map2; [|exact EA]. intros a a'. apply elab_name_rent; auto.
  - rewrite rent_program_eq. constructor; cbn [p_types p_funs p_procs p_assumed].
    + now rewrite sanity_rent.
    + rewrite map_map. cbn [fn_name rent_fun]. exact NF.
    + exists (map (rent_sig rt rl) Sg). repeat split.
      * clear - SO Ht Hl. induction SO; cbn; constructor; auto using sig_of_rent.
      * eapply Forall_map_intro2; [|exact FO]. intros f. apply FunOK_rent; auto.
      * eapply Forall_map_intro2; [|exact PO]. intros q. apply ProcOK_rent; auto.
    + now rewrite idents_rent.
    + eapply Forall_map_intro2; [|exact TA]. intros n. apply typed_name_ok_rent; auto.
    + now rewrite all_providers_rent.
    + rewrite all_providers_rent, idents_rent. exact DJ.
    + now rewrite uses_rent.
    + rewrite uses_rent, all_providers_rent, idents_rent. exact U2.
    + rewrite uses_rent, idents_rent. exact U3.
    + now rewrite deps_acyclic_rent.
    + intros q n Hq Hn [S E]. apply in_map_iff in Hq. destruct Hq as [q0 [<- Hq0]].
      cbn [pr_providers rent_proc] in Hn. apply in_map_iff in Hn. destruct Hn as [n0 [<- Hn0]].
      cbn in S, E. exact (PN q0 n0 Hq0 Hn0 (conj S E)).
Qed.

(* ---------------------------------------------------------------- the converse, for bijections *)
Section InverseTypes.
Variables rt rt' rl rl' : string -> string.
Hypothesis rt'_rt : forall x, rt' (rt x) = x.
Hypothesis rl'_rl : forall x, rl' (rl x) = x.

Lemma rent_ty_inv_all :
  (forall t, rent_ty rt' rl' (rent_ty rt rl t) = t) /\ (forall b, rent_brs rt' rl' (rent_brs rt rl b) = b).
Proof. apply sty_brs_ind; intros; cbn; rewrite ?rt'_rt, ?rl'_rl; congruence. Qed.
Lemma rent_oty_inv (o : option sty) : option_map (rent_ty rt' rl') (option_map (rent_ty rt rl) o) = o.
Proof. destruct o; cbn; auto. now rewrite (proj1 rent_ty_inv_all). Qed.
Lemma rent_name_inv n : rent_name rt' rl' (rent_name rt rl n) = n.
Proof. destruct n. unfold rent_name, set_nty. cbn. now rewrite rent_oty_inv. Qed.
Lemma map_rent_name_inv l : map (rent_name rt' rl') (map (rent_name rt rl) l) = l.
Proof. rewrite map_map. rewrite <- (map_id l) at 2. apply map_ext. apply rent_name_inv. Qed.
Lemma rent_form_inv_all :
  (forall f, rent_form rt' rl' (rent_form rt rl f) = f) /\ (forall b, rent_branches rt' rl' (rent_branches rt rl b) = b).
Proof.
  apply form_branches_ind; intros; cbn [rent_form rent_branches];
    rewrite ?rent_name_inv, ?map_rent_name_inv, ?rl'_rl, ?rent_oty_inv; congruence.
Qed.
Lemma rent_program_inv p : rent_program rt' rl' (rent_program rt rl p) = p.
Proof.
  destruct p as [ps asm fs ts]. unfold rent_program. cbn. f_equal.
  - rewrite map_map. rewrite <- (map_id ps) at 2. apply map_ext. intros [b pr t]. cbn.
    now rewrite (proj1 rent_form_inv_all), map_rent_name_inv, rent_oty_inv.
  - apply map_rent_name_inv.
  - rewrite map_map. rewrite <- (map_id fs) at 2. apply map_ext. intros [n ps' b t e]. cbn.
    rewrite (proj1 rent_form_inv_all), map_rent_name_inv, rent_oty_inv. f_equal. destruct e; cbn; auto. now rewrite rent_name_inv.
  - rewrite map_map. rewrite <- (map_id ts) at 2. apply map_ext. intros [n b m]. cbn.
    now rewrite (proj1 rent_ty_inv_all), rt'_rt.
Qed.
End InverseTypes.

Definition bijection_t (r r' : string -> string) : Prop := (forall x, r' (r x) = x) /\ (forall x, r (r' x) = x).
Lemma bijection_t_inj (r r' : string -> string) : (forall x, r' (r x) = x) -> forall a b, r a = r b -> a = b.
Proof. intros H a b E. rewrite <- (H a), <- (H b). now rewrite E. Qed.

Theorem typing_equivariant_types teq rt rt' rl rl' p : bijection_t rt rt' -> bijection_t rl rl' ->
  teq_equivariant teq rt rl -> teq_equivariant teq rt' rl' ->
  (ProgOK teq p <-> ProgOK teq (rent_program rt rl p)).
Proof.
  intros [A1 A2] [B1 B2] E1 E2. split.
  - apply typing_equivariant_types_inj; auto; eapply bijection_t_inj; eauto.
  - intros OK. rewrite <- (rent_program_inv rt rt' rl rl' A1 B1 p).
    apply typing_equivariant_types_inj; auto; eapply bijection_t_inj; eauto.
Qed.
