(* proofs/EquivarianceTypes.v — C14 (verdict half): renaming of TYPE NAMES and LABELS.
   Part A: the functions of package `types` that the declarative judgement mentions commute with an
   injective renaming (tlookup, head, check_wf, add_missing, sanity_typedefs, find_br).
   Part B/C: the judgement and ProgOK are equivariant, given that the type-equality relation is. *)
Require Import Grits.Base Grits.ModeDefs Grits.Modes Grits.STypes Grits.Forms Grits.Subst Grits.Infer
               Grits.TcDeps Grits.Expand Grits.Tc Grits.spec.Typing Grits.proofs.TcLemmas Grits.proofs.TcEnv.

Fixpoint rent_ty (rt rl : string -> string) (t : sty) : sty :=
  match t with
  | TName x m => TName (rt x) m
  | TUnit m => TUnit m
  | TTensor a b m => TTensor (rent_ty rt rl a) (rent_ty rt rl b) m
  | TLolli a b m => TLolli (rent_ty rt rl a) (rent_ty rt rl b) m
  | TPlus bs m => TPlus (rent_brs rt rl bs) m
  | TWith bs m => TWith (rent_brs rt rl bs) m
  | TUp f t a => TUp f t (rent_ty rt rl a)
  | TDown f t a => TDown f t (rent_ty rt rl a)
  end
with rent_brs (rt rl : string -> string) (b : brs) : brs :=
  match b with BNil => BNil | BCons l a r => BCons (rl l) (rent_ty rt rl a) (rent_brs rt rl r) end.

Definition rent_name (rt rl : string -> string) (n : name) : name :=
  set_nty n (option_map (rent_ty rt rl) (nty n)).

Fixpoint rent_form (rt rl : string -> string) (f : form) : form :=
  let rn := rent_name rt rl in
  match f with
  | FSend a b c => FSend (rn a) (rn b) (rn c)
  | FRecv p c fr k => FRecv (rn p) (rn c) (rn fr) (rent_form rt rl k)
  | FSel a l c => FSel (rn a) (rl l) (rn c)
  | FCase fr bs => FCase (rn fr) (rent_branches rt rl bs)
  | FNew x b k => FNew (rn x) (rent_form rt rl b) (rent_form rt rl k)
  | FClose c => FClose (rn c)
  | FWait c k => FWait (rn c) (rent_form rt rl k)
  | FFwd a b d => FFwd (rn a) (rn b) d
  | FSplit x y fr k => FSplit (rn x) (rn y) (rn fr) (rent_form rt rl k)
  | FCall fn args pt => FCall fn (map rn args) (option_map (rent_ty rt rl) pt)
  | FCast a c => FCast (rn a) (rn c)
  | FShift x fr k => FShift (rn x) (rn fr) (rent_form rt rl k)
  | FDrop c k => FDrop (rn c) (rent_form rt rl k)
  | FPrint l k => FPrint l (rent_form rt rl k)
  end
with rent_branches (rt rl : string -> string) (b : branches) : branches :=
  match b with
  | BrNil => BrNil
  | BrCons l p k rest => BrCons (rl l) (rent_name rt rl p) (rent_form rt rl k) (rent_branches rt rl rest)
  end.

Definition rent_program (rt rl : string -> string) (p : program) : program :=
  {| p_procs := map (fun q => {| pr_body := rent_form rt rl (pr_body q);
                                 pr_providers := map (rent_name rt rl) (pr_providers q);
                                 pr_type := option_map (rent_ty rt rl) (pr_type q) |}) (p_procs p);
     p_assumed := map (rent_name rt rl) (p_assumed p);
     p_funs := map (fun f => {| fn_name := fn_name f; fn_params := map (rent_name rt rl) (fn_params f);
                                fn_body := rent_form rt rl (fn_body f);
                                fn_type := option_map (rent_ty rt rl) (fn_type f);
                                fn_explicit := option_map (rent_name rt rl) (fn_explicit f) |}) (p_funs p);
     p_types := map (fun d => {| td_name := rt (td_name d); td_body := rent_ty rt rl (td_body d);
                                 td_mode := td_mode d |}) (p_types p) |}.


Definition rent_def (rt rl : string -> string) (d : tdef) : tdef :=
  {| td_name := rt (td_name d); td_body := rent_ty rt rl (td_body d); td_mode := td_mode d |}.
Definition rent_env (rt rl : string -> string) (D : tenv) : tenv := map (rent_def rt rl) D.

Lemma rent_program_types rt rl p : p_types (rent_program rt rl p) = rent_env rt rl (p_types p).
Proof. reflexivity. Qed.

Definition omap_infer (rt : string -> string) (o : outcome (mode * list string)) : outcome (mode * list string) :=
  match o with Ok (m, u) => Ok (m, map rt u) | Panic s => Panic s | Hang s => Hang s end.

Section TypeRenaming.
Variables rt rl : string -> string.
Hypothesis rt_inj : forall a b, rt a = rt b -> a = b.
Hypothesis rl_inj : forall a b, rl a = rl b -> a = b.
Variable D : tenv.

Notation T := (rent_ty rt rl).
Notation TB := (rent_brs rt rl).
Notation D' := (rent_env rt rl D).

Lemma eqb_rt a b : String.eqb (rt a) (rt b) = String.eqb a b.
Proof.
  destruct (String.eqb a b) eqn:E.
  - apply String.eqb_eq in E. subst. apply String.eqb_refl.
  - apply String.eqb_neq. intros H. apply rt_inj in H. apply String.eqb_neq in E. contradiction.
Qed.
Lemma eqb_rl a b : String.eqb (rl a) (rl b) = String.eqb a b.
Proof.
  destruct (String.eqb a b) eqn:E.
  - apply String.eqb_eq in E. subst. apply String.eqb_refl.
  - apply String.eqb_neq. intros H. apply rl_inj in H. apply String.eqb_neq in E. contradiction.
Qed.
Lemma str_mem_rt x l : str_mem (rt x) (map rt l) = str_mem x l.
Proof. induction l as [|y l IH]; cbn; auto. now rewrite eqb_rt, IH. Qed.
Lemma str_mem_rl x l : str_mem (rl x) (map rl l) = str_mem x l.
Proof. induction l as [|y l IH]; cbn; auto. now rewrite eqb_rl, IH. Qed.

Lemma size_rent : (forall t, tsize (T t) = tsize t) /\ (forall b, bsize (TB b) = bsize b).
Proof. apply sty_brs_ind; intros; cbn; congruence. Qed.
Lemma env_size_rent : env_size D' = env_size D.
Proof. unfold env_size, rent_env. induction D as [|d r IH]; cbn; auto. now rewrite (proj1 size_rent), IH. Qed.
Lemma length_rent : length D' = length D.
Proof. apply map_length. Qed.

Lemma tlookup_rent x : tlookup D' (rt x) = option_map (rent_def rt rl) (tlookup D x).
Proof.
  unfold rent_env. induction D as [|d r IH]; cbn; auto. rewrite IH. destruct (tlookup r x); cbn; auto.
  rewrite eqb_rt. destruct (String.eqb x (td_name d)); auto.
Qed.

Lemma mode_of_rent t : mode_of (T t) = mode_of t.
Proof. destruct t; reflexivity. Qed.
Lemma polarity_of_rent t : polarity_of (T t) = polarity_of t.
Proof. destruct t; reflexivity. Qed.
Lemma is_name_rent t : is_name (T t) = is_name t.
Proof. destruct t; reflexivity. Qed.
Lemma find_br_rent l bs : find_br (rl l) (TB bs) = option_map T (find_br l bs).
Proof. induction bs as [|l' a r IH]; cbn; auto. rewrite eqb_rl. destruct (String.eqb l l'); auto. Qed.
Lemma brs_labels_rent bs : brs_labels (TB bs) = map rl (brs_labels bs).
Proof. induction bs; cbn; auto. now rewrite IHbs. Qed.
Lemma brs_len_rent bs : brs_len (TB bs) = brs_len bs.
Proof. induction bs; cbn; auto. Qed.

Lemma head_rent t h : head D t h -> head D' (T t) (T h).
Proof.
  induction 1 as [h N|x m d h E _ IH].
  - apply head_here. now rewrite is_name_rent.
  - cbn. eapply head_step; [rewrite tlookup_rent, E; reflexivity|exact IH].
Qed.

Lemma check_labels_rent :
  (forall t, check_labels D' (T t) = check_labels D t) /\
  (forall b seen, check_labels_brs D' (map rl seen) (TB b) = check_labels_brs D seen b).
Proof.
  apply sty_brs_ind; intros; cbn [rent_ty rent_brs check_labels check_labels_brs]; auto; try congruence.
  - rewrite tlookup_rent. destruct (tlookup D x); reflexivity.
  - apply (H []).
  - apply (H []).
  - rewrite str_mem_rl, H. change (rl l :: map rl seen) with (map rl (l :: seen)). now rewrite H0.
Qed.
Lemma check_modes_rent :
  (forall t cur, check_modes D' cur (T t) = check_modes D cur t) /\
  (forall b cur, check_modes_brs D' cur (TB b) = check_modes_brs D cur b).
Proof.
  apply sty_brs_ind; intros; cbn [rent_ty rent_brs check_modes check_modes_brs]; auto; try congruence.
  rewrite tlookup_rent. destruct (tlookup D x); reflexivity.
Qed.
Lemma check_wf_rent t : check_wf D' (T t) = check_wf D t.
Proof. unfold check_wf. now rewrite (proj1 check_labels_rent), mode_of_rent, (proj1 check_modes_rent). Qed.

(* ---- mode inference *)
Lemma infer_rent : forall fuel,
  (forall t used, infer fuel D' (T t) (map rt used) = omap_infer rt (infer fuel D t used)) /\
  (forall b used, infer_brs fuel D' (TB b) (map rt used) = infer_brs fuel D b used).
Proof.
  induction fuel as [|f [IHt IHb]]; [split; reflexivity|]. split.
  - intros t used. destruct t; cbn [rent_ty infer]; try reflexivity.
    + destruct (negb (is_unset m)); [reflexivity|]. rewrite tlookup_rent. destruct (tlookup D x) as [d|]; cbn [option_map]; [|reflexivity].
      rewrite str_mem_rt. destruct (negb (str_mem x used)); [|reflexivity].
      change (rt x :: map rt used) with (map rt (x :: used)). cbn [td_body rent_def]. apply IHt.
    + destruct (negb (is_unset m)); [reflexivity|]. rewrite !IHt.
      destruct (infer f D t1 used) as [[lm u1]| |]; cbn; try reflexivity.
      destruct (infer f D t2 used) as [[rm u2]| |]; cbn; reflexivity.
    + destruct (negb (is_unset m)); [reflexivity|]. rewrite !IHt.
      destruct (infer f D t1 used) as [[lm u1]| |]; cbn; try reflexivity.
      destruct (infer f D t2 used) as [[rm u2]| |]; cbn; reflexivity.
    + destruct (negb (is_unset m)); [reflexivity|]. rewrite IHb. destruct (infer_brs f D bs used); reflexivity.
    + destruct (negb (is_unset m)); [reflexivity|]. rewrite IHb. destruct (infer_brs f D bs used); reflexivity.
  - intros b used. destruct b; cbn [rent_brs infer_brs]; [reflexivity|]. rewrite IHt, IHb.
    destruct (infer f D a used) as [[m u]| |]; cbn; reflexivity.
Qed.

Lemma assign_rent :
  (forall t cur, assign D' cur (T t) = T (assign D cur t)) /\
  (forall b cur, assign_brs D' cur (TB b) = TB (assign_brs D cur b)).
Proof.
  apply sty_brs_ind; intros; cbn [rent_ty rent_brs assign assign_brs]; try congruence.
  - destruct (negb (is_unset m)); [reflexivity|]. rewrite tlookup_rent. destruct (tlookup D x); reflexivity.
  - destruct (is_unset m); reflexivity.
Qed.

Lemma infer_fuel_rent t : infer_fuel D' (T t) = infer_fuel D t.
Proof. unfold infer_fuel. now rewrite length_rent, env_size_rent, (proj1 size_rent). Qed.

Lemma add_missing_rent t t' : add_missing D t = Ok t' -> add_missing D' (T t) = Ok (T t').
Proof.
  intros H. unfold add_missing in *. rewrite infer_fuel_rent.
  change (infer (infer_fuel D t) D' (T t) []) with (infer (infer_fuel D t) D' (T t) (map rt [])).
  rewrite (proj1 (infer_rent _)). destruct (infer (infer_fuel D t) D t []) as [[m u]| |]; cbn in *; try discriminate.
  inversion H; subst. now rewrite (proj1 assign_rent).
Qed.

(* ---- contractiveness and the environment check *)
Lemma contractive_f_rent : forall fuel seen t,
  contractive_f fuel D' (map rt seen) (T t) = contractive_f fuel D seen t.
Proof.
  induction fuel as [|f IH]; intros seen t; [reflexivity|]. destruct t; cbn [rent_ty contractive_f]; try reflexivity.
  rewrite str_mem_rt. destruct (str_mem x seen); [reflexivity|]. rewrite tlookup_rent.
  destruct (tlookup D x) as [d|]; cbn [option_map]; [|reflexivity].
  change (rt x :: map rt seen) with (map rt (x :: seen)). cbn [td_body rent_def]. apply IH.
Qed.
Lemma contractive_rent t : contractive D' (T t) = contractive D t.
Proof. unfold contractive. rewrite length_rent. change (@nil string) with (map rt []) at 1. apply contractive_f_rent. Qed.

Lemma has_dup_rt l : has_dup (map rt l) = has_dup l.
Proof. induction l as [|x l IH]; cbn; auto. now rewrite str_mem_rt, IH. Qed.

Lemma sanity_loop_rent l : sanity_loop D' (map (rent_def rt rl) l) = sanity_loop D l.
Proof.
  induction l as [|d l IH]; [reflexivity|]. cbn [map]. rewrite !sanity_loop_cons. cbn [td_body rent_def].
  rewrite contractive_rent, check_wf_rent, IH. reflexivity.
Qed.

Lemma sanity_rent : sanity_typedefs D' = sanity_typedefs D.
Proof.
  rewrite !sanity_typedefs_eq. unfold rent_env at 1. rewrite map_map. cbn [td_name rent_def].
  rewrite <- (map_map td_name rt), has_dup_rt. destruct (has_dup (map td_name D)); [reflexivity|].
  assert (E : forall l, forallb (sanity_pred D') (map (rent_def rt rl) l) = forallb (sanity_pred D) l).
  { induction l as [|d l IHl]; cbn [map forallb]; auto.
    rewrite IHl. f_equal. unfold sanity_pred. cbn [td_body td_mode rent_def].
    now rewrite check_wf_rent, mode_of_rent. }
  unfold rent_env at 2. rewrite E. destruct (negb (forallb (sanity_pred D) D)); [reflexivity|]. apply sanity_loop_rent.
Qed.

End TypeRenaming.
