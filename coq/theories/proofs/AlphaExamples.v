(* proofs/AlphaExamples.v — C14, general alpha-equivalence, non-vacuity: two binders of ONE declaration that
   share an identifier (`x <- new …; wait x; x <- new …; wait x`) against the same body with two different
   identifiers — not images of one another under any injective
   map.  Both texts go through the model of the real pipeline (parse_string, typecheck); the annotated
   bodies are related by `AlphaEq.aeq []` after erasure, and the two programs print the same. *)
From stdpp Require Import gmap strings.
Require Import Grits.Base Grits.STypes Grits.Forms Grits.Expand Grits.TcDeps Grits.TcTop Grits.Runtime.
Require Import Grits.spec.Rename Grits.proofs.RenameRun Grits.proofs.C14Main Grits.spec.Alpha Grits.spec.AlphaEq Grits.proofs.RenameSimT Grits.proofs.C14Examples.

Definition seq_text : string := "prc[a] : 1 = x : 1 <- new close self; wait x; print one; x : 1 <- new close self; wait x; print two; close self".
Definition seq_text_alpha : string := "prc[a] : 1 = y1 : 1 <- new close self; wait y1; print one; y2 : 1 <- new close self; wait y2; print two; close self".
(* providers and erased annotated body of every process of an accepted text *)
Definition tc_procs (s : string) : list (list name * form) :=
  match parsed s with
  | Some p => match typecheck p with
              | Accept p' => map (fun a => (pr_providers a, nf' (pr_body a))) (p_procs p')
              | _ => []
              end
  | None => []
  end.
Definition bodies_aeq (s t : string) : Prop :=
  tc_procs s <> [] /\ Forall2 (fun a b => fst a = fst b /\ aeq [] (snd a) (snd b)) (tc_procs s) (tc_procs t).

Ltac fin :=
  match goal with
  | |- _ /\ _ => split; fin
  | |- _ \/ _ => first [left; solve [fin] | right; solve [fin]]
  | |- True => exact I
  | |- _ = _ => reflexivity
  | |- _ <> _ => discriminate
  | |- _ -> False => let H := fresh in intro H; discriminate H
  | |- Forall2 _ _ _ => constructor; fin
  | |- _ => progress (unfold bnd, aeqn, isvar, Subst.initialized, bind; cbn); fin
  end.
Ltac ex_tac s t :=
  let v1 := eval vm_compute in (tc_procs s) in
  let v2 := eval vm_compute in (tc_procs t) in
  assert (E1 : tc_procs s = v1) by (vm_compute; reflexivity);
  assert (E2 : tc_procs t = v2) by (vm_compute; reflexivity);
  unfold bodies_aeq; rewrite E1, E2; clear E1 E2; fin.

Example seq_aeq : bodies_aeq seq_text seq_text_alpha.
Proof. ex_tac seq_text seq_text_alpha. Qed.
(* the related bodies are not syntactically equal, and the programs run alike *)
Example seq_differ : tc_procs seq_text <> tc_procs seq_text_alpha.
Proof. vm_compute. intros H. discriminate H. Qed.
Example seq_runs : run_text Async pick_first seq_text = Some (KQuiescent, ["one"; "two"]) /\
                   run_text Async pick_first seq_text_alpha = Some (KQuiescent, ["one"; "two"]).
Proof. split; vm_compute; reflexivity. Qed.

(* ---------------------------------------------------------------- the premise of C14AlphaEq.run_alpha is satisfiable *)
Require Import Grits.proofs.AlphaRun Grits.proofs.C14AlphaEq.
Definition fun_text : string := "let f(x : 1) : 1 = wait x; y : 1 <- new close self; wait y; print one; y : 1 <- new close self; wait y; print two; close self
prc[a] : 1 = x : 1 <- new close self; x : 1 <- new f(x); wait x; close self".
Definition fun_text_alpha : string := "let f(u : 1) : 1 = wait u; v1 : 1 <- new close self; wait v1; print one; v2 : 1 <- new close self; wait v2; print two; close self
prc[a] : 1 = z1 : 1 <- new close self; z2 : 1 <- new f(z1); wait z2; close self".

Definition tc_prog (s : string) : option program :=
  match parsed s with Some p => match typecheck p with Accept p' => Some p' | _ => None end | None => None end.
Definition progs_aeq (s t : string) : Prop :=
  match tc_prog s, tc_prog t with Some p', Some q' => decl_aeq p' q' | _, _ => False end.

Ltac fin2 :=
  match goal with
  | |- _ /\ _ => split; fin2
  | |- _ \/ _ => first [left; solve [fin2] | right; solve [fin2]]
  | |- True => exact I
  | |- _ = _ => reflexivity
  | |- _ <> _ => discriminate
  | |- _ -> False => let H := fresh in intro H; discriminate H
  | |- Forall2 _ _ _ => constructor; fin2
  | |- Forall _ _ => constructor; fin2
  | |- _ => progress (unfold decl_aeq, frelA, procrelA, params_env, bnd, aeqn, isvar, Subst.initialized, bind; cbn); fin2
  end.
Ltac ex_tac2 s t :=
  let v1 := eval vm_compute in (tc_prog s) in
  let v2 := eval vm_compute in (tc_prog t) in
  assert (E1 : tc_prog s = v1) by (vm_compute; reflexivity);
  assert (E2 : tc_prog t = v2) by (vm_compute; reflexivity);
  unfold progs_aeq; rewrite E1, E2; clear E1 E2; fin2.

Example seq_decl_aeq : progs_aeq seq_text seq_text_alpha.
Proof. ex_tac2 seq_text seq_text_alpha. Qed.
Example fun_decl_aeq : progs_aeq fun_text fun_text_alpha.
Proof. ex_tac2 fun_text fun_text_alpha. Qed.
Example fun_runs : run_text Sync pick_last fun_text = Some (KQuiescent, ["one"; "two"]) /\
                   run_text Sync pick_last fun_text_alpha = Some (KQuiescent, ["one"; "two"]).
Proof. split; vm_compute; reflexivity. Qed.

(* all premises of run_alpha hold of the pair of texts: lock step for EVERY fuel, oracle and mode *)
Example fun_run_alpha : forall p q p' q', parsed fun_text = Some p -> parsed fun_text_alpha = Some q ->
  typecheck p = Accept p' -> typecheck q = Accept q' -> forall md pick fuel,
  kind_of (run_program fuel pick md q') = kind_of (run_program fuel pick md p') /\
  labels (final_cfg (run_program fuel pick md q')) = labels (final_cfg (run_program fuel pick md p')) /\
  pids (final_cfg (run_program fuel pick md q')) = pids (final_cfg (run_program fuel pick md p')).
Proof.
  intros p q p' q' Hp Hq Ht Ht' md pick fuel.
  pose proof fun_decl_aeq as HA. unfold progs_aeq, tc_prog in HA. rewrite Hp, Hq, Ht, Ht' in HA.
  apply (run_alpha p q p' q' md pick fuel Ht Ht'); try exact HA.
  - vm_compute in Hp. injection Hp as <-. vm_compute in Ht. injection Ht as <-. reflexivity.
  - vm_compute in Hq. injection Hq as <-. vm_compute in Ht'. injection Ht' as <-. reflexivity.
  - vm_compute in Hp. injection Hp as <-. vm_compute. reflexivity.
  - vm_compute in Hq. injection Hq as <-. vm_compute. reflexivity.
  - vm_compute in Hp. injection Hp as <-. vm_compute. reflexivity.
  - vm_compute in Hq. injection Hq as <-. vm_compute. reflexivity.
  - vm_compute in Hp. injection Hp as <-. vm_compute. reflexivity.
  - vm_compute in Hq. injection Hq as <-. vm_compute. reflexivity.
Qed.
