(* proofs/AlphaExamples.v — C14, general alpha-equivalence, non-vacuity: two binders of ONE declaration that
   share an identifier (`x <- new …; wait x; x <- new …; wait x`) against the same body with two different
   identifiers — not images of one another under any injective
   map.  Both texts go through the model of the real pipeline (parse_string, typecheck); the annotated
   bodies are related by `AlphaEq.aeq []` after erasure, and the two programs print the same. *)
From stdpp Require Import gmap strings.
Require Import Grits.Base Grits.STypes Grits.Forms Grits.Expand Grits.TcDeps Grits.TcTop Grits.Runtime.
Require Import Grits.spec.Rename Grits.proofs.RenameRun Grits.proofs.C14Main Grits.spec.Alpha Grits.spec.AlphaEq Grits.proofs.RenameSimT Grits.proofs.C14Examples.

Definition seq_text : string := "prc[a] : 1 = x : 1 <- new close self; wait x; print one; x : 1 <- new close self; wait x; print two; close self".
Definition seq_text_alpha : string := "prc[a] : 1 = y1 : 1 <- new close self; wait y1; print one; y2 : 1 <- new close self; wait y2; print two; close self".
(* providers and erased annotated body of every process of an accepted text *)
Definition tc_procs (s : string) : list (list name * form) :=
  match parsed s with
  | Some p => match typecheck p with
              | Accept p' => map (fun a => (pr_providers a, nf' (pr_body a))) (p_procs p')
              | _ => []
              end
  | None => []
  end.
Definition bodies_aeq (s t : string) : Prop :=
  tc_procs s <> [] /\ Forall2 (fun a b => fst a = fst b /\ aeq [] (snd a) (snd b)) (tc_procs s) (tc_procs t).

Ltac fin :=
  match goal with
  | |- _ /\ _ => split; fin
  | |- _ \/ _ => first [left; solve [fin] | right; solve [fin]]
  | |- True => exact I
  | |- _ = _ => reflexivity
  | |- _ <> _ => discriminate
  | |- _ -> False => let H := fresh in intro H; discriminate H
  | |- Forall2 _ _ _ => constructor; fin
  | |- _ => progress (unfold bnd, aeqn, isvar, Subst.initialized, bind; cbn); fin
  end.
Ltac ex_tac s t :=
  let v1 := eval vm_compute in (tc_procs s) in
  let v2 := eval vm_compute in (tc_procs t) in
  assert (E1 : tc_procs s = v1) by (vm_compute; reflexivity);
  assert (E2 : tc_procs t = v2) by (vm_compute; reflexivity);
  unfold bodies_aeq; rewrite E1, E2; clear E1 E2; fin.

Example seq_aeq : bodies_aeq seq_text seq_text_alpha.
Proof. ex_tac seq_text seq_text_alpha. Qed.
(* the related bodies are not syntactically equal, and the programs run alike *)
Example seq_differ : tc_procs seq_text <> tc_procs seq_text_alpha.
Proof. vm_compute. intros H. discriminate H. Qed.
Example seq_runs : run_text Async pick_first seq_text = Some (KQuiescent, ["one"; "two"]) /\
                   run_text Async pick_first seq_text_alpha = Some (KQuiescent, ["one"; "two"]).
Proof. split; vm_compute; reflexivity. Qed.
