(* GlobalsProofs.v — C19, the syntactic half: the table of package-level variables regenerated from
   the Go source satisfies the immutability discipline, and what that gives row by row. *)
Require Import Grits.Base Grits.GlobalsDefs Grits.gen.Globals Grits.GlobalsDiscipline.

(* the five conjuncts, each by computation over the regenerated table *)
Lemma pipeline_table_immutable : table_immutable pipeline_uses = true.
Proof. vm_compute. reflexivity. Qed.
Lemma pipeline_globals_ok : forallb var_ok pipeline_globals = true.
Proof. vm_compute. reflexivity. Qed.
Lemma no_foreign_uses :
  forallb (fun u => negb (is_pipeline_pkg (u_fpkg u) && negb (is_pipeline_pkg (u_vpkg u)))) global_uses = true.
Proof. vm_compute. reflexivity. Qed.
Lemma uses_declared : forallb declared global_uses = true.
Proof. vm_compute. reflexivity. Qed.
Lemma pipeline_flags_coherent : forallb (fun g => Bool.eqb (g_pipeline g) (is_pipeline_pkg (g_pkg g))) globals = true.
Proof. vm_compute. reflexivity. Qed.

Lemma globals_immutable : globals_immutable_b = true.
Proof.
  unfold globals_immutable_b.
  rewrite pipeline_table_immutable, pipeline_globals_ok, no_foreign_uses, uses_declared, pipeline_flags_coherent.
  reflexivity.
Qed.

Lemma not_mutation_read k : is_mutation k = false -> k = URead \/ k = UIndexRead.
Proof. destruct k; cbn; intros H; try discriminate H; auto. Qed.

Lemma no_exceptions : allowed_mutations = [].
Proof. reflexivity. Qed.

Lemma allowed_false u : allowed u = false.
Proof. unfold allowed. rewrite no_exceptions. reflexivity. Qed.

(* a table that satisfies the discipline has no row through which the store could be updated after init *)
Lemma table_immutable_no_mutation tbl :
  table_immutable tbl = true ->
  forall u, In u tbl -> init_context u = false -> is_mutation (u_kind u) = false.
Proof.
  intros H u Hu Hi. unfold table_immutable in H. rewrite forallb_forall in H. specialize (H u Hu).
  unfold use_ok in H. rewrite Hi, allowed_false, !orb_false_r in H. apply negb_true_iff in H. exact H.
Qed.

(* every use, anywhere in the module, of a package-level variable of a pipeline package, outside
   func init / package-level initialisers, is a read *)
Theorem pipeline_vars_only_read u :
  In u global_uses -> is_pipeline_pkg (u_vpkg u) = true -> init_context u = false ->
  u_kind u = URead \/ u_kind u = UIndexRead.
Proof.
  intros Hu Hp Hi.
  assert (Hin : In u pipeline_uses).
  { unfold pipeline_uses, pipeline_var_uses. apply in_or_app. left. apply filter_In. split; assumption. }
  pose proof (table_immutable_no_mutation _ pipeline_table_immutable u Hin Hi) as Hm.
  exact (not_mutation_read _ Hm).
Qed.

(* functions of pipeline packages only read the package-level variables of packages outside the module *)
Theorem pipeline_fns_only_read_extern u :
  In u extern_uses -> is_pipeline_pkg (u_fpkg u) = true -> init_context u = false ->
  u_kind u = URead \/ u_kind u = UIndexRead.
Proof.
  intros Hu Hp Hi.
  assert (Hin : In u pipeline_uses).
  { unfold pipeline_uses, outside_var_uses. apply in_or_app. right. apply in_or_app. right. apply filter_In. split; assumption. }
  pose proof (table_immutable_no_mutation _ pipeline_table_immutable u Hin Hi) as Hm.
  exact (not_mutation_read _ Hm).
Qed.

(* functions of pipeline packages use no package-level variable of a module package outside the pipeline *)
Theorem pipeline_fns_use_no_foreign_var u :
  In u global_uses -> is_pipeline_pkg (u_fpkg u) = true -> is_pipeline_pkg (u_vpkg u) = true.
Proof.
  intros Hu Hp. pose proof no_foreign_uses as H.
  rewrite forallb_forall in H. specialize (H u Hu). rewrite Hp, andb_true_l in H.
  apply negb_true_iff in H. apply negb_false_iff in H. exact H.
Qed.

Theorem pipeline_vars_typed g :
  In g globals -> g_pipeline g = true -> var_ok g = true.
Proof.
  intros Hg Hp. pose proof pipeline_globals_ok as H.
  rewrite forallb_forall in H. apply H. unfold pipeline_globals. apply filter_In. split; assumption.
Qed.

(* non-vacuity: the table contains what one expects *)
Lemma table_contents :
  In (mkGvar "types" "PolarityMap" "map[Polarity]string" GMap IComposite true) globals /\
  In (mkGvar "process" "RuleString" "map[Rule]string" GMap IComposite true) globals /\
  In (mkGvar "parser" "gritsDebug" "int" GScalar ILiteral true) globals /\
  In (mkGvar "parser" "gritsErrorVerbose" "bool" GScalar IIdent true) globals /\
  (forall t, In t ["gritsExca"; "gritsAct"; "gritsPact"; "gritsPgo"; "gritsR1"; "gritsR2"; "gritsChk"; "gritsDef";
                   "gritsTok1"; "gritsTok2"; "gritsTok3"; "gritsToknames"] ->
     existsb (fun g => String.eqb (g_pkg g) "parser" && String.eqb (g_name g) t &&
                       match g_kind g with GArray => true | _ => false end) globals = true /\
     existsb (fun u => String.eqb (u_var u) t && match u_kind u with UIndexRead => true | _ => false end) global_uses = true) /\
  existsb (fun u => String.eqb (u_var u) "PolarityMap" && String.eqb (u_fn u) "Name.String" &&
                    match u_kind u with UIndexRead => true | _ => false end) global_uses = true /\
  20 <= length pipeline_globals /\ 50 <= length pipeline_uses.
Proof.
  repeat split; try (vm_compute; tauto); try (apply Nat.leb_le; vm_compute; reflexivity).
  - destruct H as [<-|[<-|[<-|[<-|[<-|[<-|[<-|[<-|[<-|[<-|[<-|[<-|[]]]]]]]]]]]]]; vm_compute; reflexivity.
  - destruct H as [<-|[<-|[<-|[<-|[<-|[<-|[<-|[<-|[<-|[<-|[<-|[<-|[]]]]]]]]]]]]]; vm_compute; reflexivity.
Qed.
