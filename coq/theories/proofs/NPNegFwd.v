(* NPNegFwd.v — the class "contraction-free, no drop, every forward at a NEGATIVE type" (nfw): the
   polarity of a forward is read from the type annotation of its client name, which substitution keeps
   (Name.Substitute copies the polarity and the type of the occurrence), so the class is a syntactic
   test on the checked program and is closed under the steps of the interpreter (nf_step_np).
   For these configurations every step of the synchronous polarized mode IS a step of the
   non-polarized mode, to the SAME configuration (sync_step_np_exact): a step without forwards is the
   same step, and the receipt of a FWD request `Rendezvous f t` is the control hand-over `Control f t`. *)
From stdpp Require Import gmap strings sorting.
Require Import Grits.Base Grits.ModeDefs Grits.Modes Grits.STypes Grits.Forms Grits.Subst Grits.TcDeps Grits.Expand
               Grits.Runtime Grits.RuntimeFootprint Grits.spec.RtTyping Grits.spec.Topo.
Require Import Grits.proofs.RtSubst Grits.proofs.StepErrors Grits.proofs.RtSafety Grits.proofs.RtSafetyNP Grits.proofs.TopoLin Grits.proofs.RuntimeFacts
               Grits.proofs.Diamond Grits.proofs.Determinism Grits.proofs.AsyncSync Grits.proofs.DeterminismTyped Grits.proofs.TopoStep Grits.proofs.InvAll Grits.proofs.InvNP
               Grits.proofs.NPCfree Grits.proofs.NPJoin Grits.proofs.Balanced Grits.proofs.NPJoinA Grits.proofs.NPConfluence Grits.proofs.NPDeterminism.

Lemma nty_name_subst old new n : nty (name_subst old new n) = nty n.
Proof. unfold name_subst. repeat case_match; reflexivity. Qed.
Lemma fwd_polarity_subst D old new n : fwd_polarity D (name_subst old new n) = fwd_polarity D n.
Proof. unfold fwd_polarity. by rewrite nty_name_subst. Qed.

Section Class.
Variable D : tenv.

Definition neg_fwd (from : name) (d : bool) : bool :=
  negb d && match fwd_polarity D from with Ok Neg => true | _ => false end.

Fixpoint nfw (f : form) : bool :=
  match f with
  | FRecv _ _ _ k | FWait _ k | FShift _ _ k | FPrint _ k => nfw k
  | FCase _ bs => nfw_brs bs
  | FNew _ b k => nfw b && nfw k
  | FSplit _ _ _ _ | FDrop _ _ => false
  | FFwd _ from d => neg_fwd from d
  | _ => true
  end
with nfw_brs (b : branches) : bool :=
  match b with BrNil => true | BrCons _ _ k r => nfw k && nfw_brs r end.

Lemma nfw_subst_mut old new :
  (forall f, nfw (subst old new f) = nfw f) /\ (forall b, nfw_brs (subst_brs old new b) = nfw_brs b).
Proof.
  apply form_branches_ind; simpl; intros; unfold neg_fwd; rewrite ?fwd_polarity_subst; auto;
    repeat match goal with |- context [if ?c then _ else _] => destruct c end; congruence.
Qed.
Lemma nfw_subst old new f : nfw (subst old new f) = nfw f.
Proof. apply nfw_subst_mut. Qed.
Lemma nfw_find l bs pay K : find_branch l bs = Some (pay, K) -> nfw_brs bs = true -> nfw K = true.
Proof.
  induction bs as [|l' p' k' r IH]; simpl; [discriminate|]. rewrite andb_true_iff. destruct (String.eqb l' l).
  - intros [= -> ->]. tauto.
  - intros H [_ H']. auto.
Qed.
Lemma nfw_sub_all : forall ps ar b, nfw (sub_all ps ar b) = nfw b.
Proof. induction ps as [|q ps IH]; intros [|a ar] b; simpl; auto. by rewrite IH, nfw_subst. Qed.
Definition nfw_funs (Fs : list fundef) : Prop := Forall (fun fd => nfw (fn_body fd) = true) Fs.
Lemma nfw_call_body Fs fn args b : nfw_funs Fs -> call_body Fs fn args = Some b -> nfw b = true.
Proof.
  intros HFc. rewrite call_body_unfold. destruct (get_function Fs fn (length args)) as [fd|] eqn:Hg; [|discriminate].
  apply get_function_In in Hg. unfold nfw_funs in HFc. rewrite Forall_forall in HFc. specialize (HFc fd Hg).
  cbn zeta. destruct (fn_explicit fd); repeat case_match; intros [= <-]; rewrite nfw_sub_all, ?nfw_subst; done.
Qed.

Lemma nfw_cfree_mut : (forall f, nfw f = true -> cfree f = true) /\ (forall b, nfw_brs b = true -> cfree_brs b = true).
Proof.
  apply form_branches_ind; simpl; intros; auto; try discriminate;
    repeat match goal with H : _ && _ = true |- _ => apply andb_true_iff in H as [? ?] end;
    rewrite ?andb_true_iff; auto.
Qed.
Lemma nfw_cfree f : nfw f = true -> cfree f = true.
Proof. apply nfw_cfree_mut. Qed.
Lemma nfw_funs_cfree Fs : nfw_funs Fs -> cfree_funs Fs.
Proof. unfold nfw_funs, cfree_funs. apply Forall_impl. intros fd. apply nfw_cfree. Qed.

Lemma nfw_not_drop f : nfw f = true -> is_drop f = false.
Proof. by destruct f. Qed.

Definition NF (c : config) : Prop :=
  forall p pp, procs c !! p = Some pp -> nfw (pr_body0 pp) = true /\ exists n, pr_provs pp = [n].
Lemma NF_CF c : NF c -> CF c.
Proof. intros H p pp Hp. destruct (H p pp Hp) as [H1 H2]. split; [by apply nfw_cfree|done]. Qed.

(* a forward of the class sends its FWD request in the polarized modes *)
Lemma nfw_fwd_action pp : nfw (pr_body0 pp) = true -> body_is_fwd (pr_body0 pp) = true ->
  match action_of Async D pp with
  | ASend k m => m = Msg RFWD zero_name zero_name (pr_provs pp) "" /\ action_of NP D pp = ACtrl k (pr_provs pp)
  | ANever | AErr _ => True
  | _ => False
  end.
Proof.
  unfold action_of. destruct (pr_body0 pp) as [| | | | | | |to from d| | | | | |]; try discriminate. simpl. unfold neg_fwd.
  intros H _. apply andb_true_iff in H as [Hd Hpol]. destruct d; [discriminate|].
  destruct (negb (is_self to)); [done|]. destruct (fwd_polarity D from) as [[]| |]; try discriminate.
  destruct (chan from); done.
Qed.

Section Steps.
Variable F : list fundef.
Hypothesis HFc : nfw_funs F.

Lemma nf_effect c0 p pp e :
  NF c0 ->
  (forall pp1, e_after e = Continue pp1 -> nfw (pr_body0 pp1) = true /\ exists n, pr_provs pp1 = [n]) ->
  (forall s, In s (e_spawn e) -> nfw (sp_body s) = true /\ exists n, sp_provs s = [n]) ->
  NF (apply_effect c0 p pp e).
Proof.
  intros Hcf Hc Hs q v Hq. pose proof (apply_effect_objs c0 p pp e (OProc q v) Hq) as [(-> & pp1 & Ea & Hp & Hb)|[(s & n & Hin & -> & ->)|[_ Ho]]].
  - rewrite Hp, Hb. by apply Hc.
  - cbn. by apply Hs.
  - exact (Hcf q v Ho).
Qed.

Lemma nf_internal p provs body nx e : nfw body = true -> internal_effect NP F p (Proc provs body nx) = EOk e ->
  (exists B nx1, e_after e = Continue (Proc provs B nx1) /\ nfw B = true) /\
  (forall s, In s (e_spawn e) -> nfw (sp_body s) = true /\ exists n, sp_provs s = [n]).
Proof.
  unfold internal_effect. cbn [pr_body0]. destruct body as [| | | |x b k0| | | | |fn args pt| | |cl k0|l k0]; try discriminate; simpl; intros Hb.
  - apply andb_true_iff in Hb as [Hb1 Hb2]. unfold fresh_chan. cbn [pr_next pr_provs pr_body0]. intros [= <-]. cbn.
    split; [eexists _, _; split; [reflexivity|by rewrite nfw_subst]|]. intros s [<-|[]]. cbn. eauto.
  - destruct (call_body F fn args) as [b|] eqn:Ecb; [|done]. intros [= <-]. cbn.
    split; [eexists _, _; split; [reflexivity|eapply nfw_call_body; eauto]|]. intros s [].
  - intros [= <-]. cbn. split; [eexists _, _; split; [reflexivity|done]|]. intros s [].
Qed.

Lemma nf_on_message p pp m e :
  on_message p pp m = EOk e -> nfw (pr_body0 pp) = true -> (exists n, pr_provs pp = [n]) -> body_is_fwd (pr_body0 pp) = false ->
  m_rule m <> RFWD -> m_rule m <> RGC ->
  exists pp1, e = Eff (Continue pp1) [] [] [] [] /\ nfw (pr_body0 pp1) = true /\ exists n, pr_provs pp1 = [n].
Proof.
  intros He Hpl Hpv Hnf Hfw Hgc. unfold on_message in He.
  destruct (rule_eqb (m_rule m) RFWD && negb _) eqn:E1.
  { apply andb_true_iff in E1 as [E1 _]. apply rule_eqb_eq in E1. contradiction. }
  destruct (rule_eqb (m_rule m) RGC && negb _) eqn:E2.
  { apply andb_true_iff in E2 as [E2 _]. apply rule_eqb_eq in E2. contradiction. }
  destruct (pr_body0 pp) as [to pay cont|pay cont from k0|to l cont|from bs|x b k0|c0|c0 k0|to from d|x y from k0|fn args pt|to cont|x from k0|c0 k0|l k0] eqn:Eb;
    try discriminate; simpl in Hpl.
  - destruct (is_self from); [destruct (rule_eqb (m_rule m) RRCV)|destruct (rule_eqb (m_rule m) RSND)]; try discriminate; injection He as <-;
      (eexists; split; [reflexivity|]); cbn; rewrite ?nfw_subst; eauto.
  - destruct (is_self from); [destruct (rule_eqb (m_rule m) RBRA)|destruct (rule_eqb (m_rule m) RSEL)]; try discriminate;
      destruct (find_branch (m_label m) bs) as [[pay K]|] eqn:Efb; try discriminate; injection He as <-;
      (eexists; split; [reflexivity|]); cbn; rewrite ?nfw_subst; (split; [eapply nfw_find; eauto|eauto]).
  - destruct (rule_eqb (m_rule m) RCLS); try discriminate; injection He as <-;
      (eexists; split; [reflexivity|]); cbn; eauto.
  - destruct (is_self from); [destruct (rule_eqb (m_rule m) RSHF)|destruct (rule_eqb (m_rule m) RCST)]; try discriminate; injection He as <-;
      (eexists; split; [reflexivity|]); cbn; rewrite ?nfw_subst; eauto.
Qed.

Theorem nf_step_np c ch c' : NF c -> bufs_empty c -> step NP D F c ch = SStep c' -> NF c'.
Proof.
  intros Hcf Hbe. destruct ch as [p|s r|f t]; cbn [step].
  - destruct (procs c !! p) as [pp|] eqn:Hp; [|done]. destruct (Hcf p pp Hp) as [Hb [n0 Hn0]].
    destruct (action_of NP D pp) as [| |k m|k| |k pv|w] eqn:Ea; try done.
    + apply np_action_async in Ea; [|done]. apply action_dup_multi in Ea. unfold multi in Ea. rewrite Hn0 in Ea. done.
    + destruct (internal_effect NP F p pp) as [e|] eqn:He; [|done]. intros [= <-]. destruct pp as [provs body nx]. cbn in Hb, Hn0. subst provs.
      destruct (nf_internal p [n0] body nx e Hb He) as ((B & nx1 & Ea' & HB) & Hsp).
      apply nf_effect; [done| |done]. intros pp1 E. rewrite Ea' in E. injection E as <-. cbn. eauto.
    + destruct (chans c !! k) as [st|]; [|done]. destruct (ch_closed st); [done|]. by destruct (ch_buf st).
    + destruct (chans c !! k) as [st|] eqn:Ek; [|done]. rewrite (Hbe _ _ Ek). destruct (ch_closed st); [|done].
      destruct (on_message p pp zero_msg) as [e|] eqn:He; [|done]. intros [= <-].
      pose proof (np_act_nonfwd D pp _ Ea I) as Hnf.
      destruct (nf_on_message p pp zero_msg e He Hb (ex_intro _ n0 Hn0) Hnf) as (pp1 & -> & H1 & H2); [discriminate|discriminate|].
      apply nf_effect; [done| |intros s0 []]. intros pp2 [= <-]. done.
  - destruct (bool_decide (s = r)); [done|]. destruct (procs c !! s) as [ps|] eqn:Hs; [|done].
    destruct (procs c !! r) as [pr|] eqn:Hr; [|done].
    destruct (action_of NP D ps) as [| |k m|k| |k pv|w] eqn:Eas; try done.
    destruct (action_of NP D pr) as [| |k' m'|k'| |k' pv'|w'] eqn:Ear; try done.
    destruct (bool_decide (k = k')); [|done]. destruct (chans c !! k) as [st|]; [|done]. destruct (ch_closed st); [done|].
    destruct (on_message r pr m) as [e|] eqn:He; [|done]. intros [= <-].
    destruct (Hcf r pr Hr) as [Hbr Hnr].
    pose proof (np_act_nonfwd D ps _ Eas I) as Hnfs. pose proof (np_act_nonfwd D pr _ Ear I) as Hnfr.
    apply np_action_async in Eas; [|done].
    destruct (nonfwd_send_rule D ps k m Eas Hnfs) as [Hfw Hgc].
    destruct (nf_on_message r pr m e He Hbr Hnr Hnfr Hfw Hgc) as (pp1 & -> & H1 & H2).
    apply nf_effect; [|intros pp2 [= <-]; done|intros s0 []].
    intros q v Hq. cbn in Hq. apply lookup_delete_Some in Hq as [_ Hq]. exact (Hcf q v Hq).
  - cbn [negb is_np orb]. destruct (bool_decide (f = t)); [done|]. destruct (procs c !! f) as [pf|] eqn:Hf; [|done].
    destruct (procs c !! t) as [pt|] eqn:Hpt; [|done]. destruct (action_of NP D pf) as [| |k m|k| |k pv|w] eqn:Ea; try done.
    destruct (self_chan pt) as [k'|]; [|done]. destruct (bool_decide (k = k') && polls_control NP D pt); [|done]. intros [= <-].
    destruct (ctrl_inv D pf k pv Ea) as (to & from & d & _ & _ & ->).
    destruct (Hcf f pf Hf) as [_ [nf Hnf]]. destruct (Hcf t pt Hpt) as [Hbt [n0 Hn0]].
    apply nf_effect; [|intros pp2 [= <-]; cbn; rewrite Hnf, Hn0; cbn; eauto|intros s0 []].
    intros q v Hq. cbn in Hq. apply lookup_delete_Some in Hq as [_ Hq]. exact (Hcf q v Hq).
Qed.
End Steps.
End Class.

(* ------------------------------------------------------------------ a synchronous step IS a non-polarized step *)
Section Exact.
Variable D : tenv.
Variable F : list fundef.
Variable teq : sty -> sty -> Prop.
Hypothesis Hteq : teq_laws D teq.
Hypothesis HF : funs_typed D F teq.
Notation JN := (JN D F teq).

Theorem sync_step_np_exact c ch c' : JN c -> NF D c -> step Sync D F c ch = SStep c' ->
  exists ch', step NP D F c ch' = SStep c'.
Proof.
  intros HJ Hnf Hs. pose proof HJ as (HI & Hbe & Hcf). pose proof HI as [[Δ Hc] Ht _ Hns _ _ _].
  destruct ch as [p|s r|f t]; [| |by cbn in Hs].
  - exists (Run p). rewrite <- Hs. cbn [step]. destruct (procs c !! p) as [pp|] eqn:Hp; [|done].
    destruct (Hnf p pp Hp) as [Hb _].
    destruct (body_is_fwd (pr_body0 pp)) eqn:Ef.
    + exfalso. revert Hs. cbn [step]. rewrite Hp, action_of_sync. pose proof (nfw_fwd_action D pp Hb Ef) as Hfa.
      destruct (action_of Async D pp) as [| |k m|k| |k pv|w]; try done.
      destruct (chans c !! k) as [st|]; [|done]. by destruct (ch_closed st).
    + rewrite (action_np_nonfwd D pp Ef), action_of_sync.
      rewrite (internal_np_nondrop F p pp (nfw_not_drop D _ Hb)), internal_effect_sync.
      by destruct (action_of Async D pp).
  - destruct (sync_rdv_enabled D F c s r c' Hs) as (Hsr & ps & pr & k & m & st & Hps & Hpr & Eas & Ear & _ & Hk & Hcl).
    rewrite action_of_sync in Eas, Ear.
    destruct (Hnf s ps Hps) as [Hbs [ns Hns']]. destruct (Hnf r pr Hpr) as [Hbr [n0 Hn0]].
    assert (Efr : body_is_fwd (pr_body0 pr) = false).
    { destruct (body_is_fwd (pr_body0 pr)) eqn:Ef; [|done]. pose proof (nfw_fwd_action D pr Hbr Ef) as H. by rewrite Ear in H. }
    assert (Ear' : action_of NP D pr = ARecv k) by (by rewrite (action_np_nonfwd D pr Efr)).
    destruct (body_is_fwd (pr_body0 ps)) eqn:Efs.
    + (* the receipt of a FWD request is the control hand-over *)
      exists (Control s r). pose proof (nfw_fwd_action D ps Hbs Efs) as H. rewrite Eas in H. destruct H as [Hm Eas'].
      assert (Hown : own_chan pr k).
      { destruct (typed_send_side D F teq Hteq HF Δ ps k m (ct_procs D F teq Δ c Hc s ps Hps) Eas) as ((T & HT & Hmt) & _).
        rewrite Hm in Hmt. cbn [m_rule] in Hmt. destruct Hmt as (Hneg & _).
        destruct (typed_recv_side D F teq Hteq HF Δ pr k (ct_procs D F teq Δ c Hc r pr Hpr) Ear) as (T' & HT' & Hside).
        rewrite HT in HT'. injection HT' as <-.
        destruct Hside as [[H _]|[_ Hpos]]; [done|]. exfalso. eapply (pol_unique D); eauto. }
      destruct Hown as (n0' & Hn0' & Hn0k). rewrite Hn0 in Hn0'. injection Hn0' as <-.
      rewrite <- Hs. cbn [step negb is_np orb]. rewrite bool_decide_eq_false_2 by done. rewrite Hps, Hpr, Eas'.
      rewrite !action_of_sync, Eas, Ear.
      assert (Hsc : self_chan pr = Some k) by (unfold self_chan, prov0; by rewrite Hn0).
      rewrite Hsc. rewrite !bool_decide_eq_true_2 by done.
      assert (Hpoll : polls_control NP D pr = true) by (unfold polls_control; by rewrite Ear').
      rewrite Hpoll, Hk, Hcl. cbn [andb]. unfold eff_step, on_message. rewrite Hm. cbn [m_rule rule_eqb m_provs].
      fold (body_is_fwd (pr_body0 pr)). rewrite Efr. cbn [negb andb]. rewrite Hn0, Hns'. reflexivity.
    + exists (Rendezvous s r). rewrite <- Hs. cbn [step]. rewrite Hps, Hpr, Ear', !action_of_sync, Eas, Ear.
      by rewrite (action_np_nonfwd D ps Efs), Eas.
Qed.
End Exact.
