(* RtTheoremsTc.v — C01 and C02 for whole runs of accepted closed programs WITHOUT the premises
   `teq_ok` and `tc_annotations_typed` of proofs/RtTheorems.v: the type agreement is fixed to
   `teq_rt` (identity or bisimilarity, proofs/RtTcBisim.v), for which `teq_laws` holds and the
   annotated output of the checker is `static_typed` (proofs/RtTcSoundTop.v).
   What remains as premises, per program:
     prog_syn_ok p, raw_ok p : two computable conditions on the parsed program (the types and the
                                  names are what the parser + expansion produce), evaluated by the
                                  check modules on every program;
     Topo on reachable configurations : the untyped linearity invariant (spec/Topo.v). *)
From stdpp Require Import gmap strings.
Require Import Grits.Base Grits.ModeDefs Grits.Modes Grits.STypes Grits.Forms Grits.Subst Grits.TcDeps Grits.Expand
               Grits.Tc Grits.TcTop Grits.spec.SynOk
               Grits.Runtime Grits.spec.RtTyping Grits.spec.Topo Grits.proofs.RtSubst Grits.proofs.RtEffect
               Grits.proofs.StepErrors Grits.proofs.RtSafety Grits.proofs.RtInit Grits.proofs.RtProgress
               Grits.proofs.RtTheorems Grits.proofs.RtSafetyNP Grits.proofs.RtStaticCheck Grits.proofs.RtTcSyn Grits.proofs.RtTcBisim
               Grits.proofs.ParseSynOk Grits.proofs.ParseRaw.

(* ------------------------------------------------------------------ one statically typed program *)
Section OneProgram.
Variable teq : sty -> sty -> Prop.
Variable p' : program.
Hypothesis Hlaws : teq_laws (p_types p') teq.
Hypothesis Hst : static_typed teq p'.
Hypothesis Htopo : forall md c, is_np md = false ->
  reachable (p_types p') (p_funs p') md (init_config p') c -> Topo c.

Let HF : funs_typed (p_types p') (p_funs p') teq := proj1 Hst.
Let Hinit : cfg_typed (p_types p') (p_funs p') teq (init_delta p') (init_config p') := initial_typed teq p' Hlaws Hst.

Lemma safety_one md : is_np md = false ->
  forall fuel pick c who e,
    exec_run fuel pick md (p_types p') (p_funs p') (init_config p') <> RError c who e.
Proof.
  intros Hnp fuel pick c who e.
  apply (exec_run_safe (p_types p') (p_funs p') teq Hlaws HF md fuel pick Hnp (init_delta p') (init_config p') Hinit).
  intros c' Hr self pr k st. eapply topo_closed_unused; [exact Hnp|exact (Htopo md c' Hnp Hr)].
Qed.

Lemma reachable_typed_one md c : is_np md = false ->
  reachable (p_types p') (p_funs p') md (init_config p') c ->
  exists Δ, init_delta p' ⊆ Δ /\ cfg_typed (p_types p') (p_funs p') teq Δ c.
Proof.
  intros Hnp Hr. induction Hr as [|c1 ch c2 Hr IH Hs].
  - exists (init_delta p'). split; auto.
  - destruct IH as [Δ [Hsub Hc]].
    assert (Hcl : closed_unused (p_types p') md c1).
    { intros self pr k st. eapply topo_closed_unused; [exact Hnp|exact (Htopo md c1 Hnp Hr)]. }
    destruct (preservation_md _ _ _ Hlaws HF md Δ c1 ch c2 Hnp Hc Hcl Hs) as [Δ' [Hsub' Hc']].
    exists Δ'. split; auto. etrans; eauto.
Qed.

Lemma progress_one fuel pick c :
  exec_run fuel pick Async (p_types p') (p_funs p') (init_config p') = RQuiescent c ->
  exists Δ : gmap cid sty,
  (forall self pr, procs c !! self = Some pr ->
     exists k st T, action_of Async (p_types p') pr = ARecv k /\ own_chan pr k /\
                    Δ !! k = Some T /\ pol_of_ty (p_types p') T Neg /\
                    chans c !! k = Some st /\ ch_buf st = None /\ ch_closed st = false) /\
  (forall k st m, chans c !! k = Some st -> ch_buf st = Some m -> is_pos_rule (m_rule m) = true) /\
  ((forall k, alive c k -> exists o, obj_in c o /\ k ∈ refs o) -> procs c = ∅).
Proof.
  intros Hrun.
  destruct (exec_run_quiescent _ _ _ Hlaws HF Async fuel pick eq_refl _ _ _ Hinit
              (fun c' Hc' => Htopo Async c' eq_refl Hc') Hrun) as [Hr [Hq [Δ Hc]]].
  exists Δ. exact (progress_partial _ _ _ Hlaws HF Δ c Hc (Htopo Async c eq_refl Hr) Hq).
Qed.

Lemma progress_sync_one fuel pick c :
  exec_run fuel pick Sync (p_types p') (p_funs p') (init_config p') = RQuiescent c ->
  (forall self pr, procs c !! self = Some pr ->
     exists k, own_chan pr k /\
       (action_of Sync (p_types p') pr = ARecv k \/
        exists m, action_of Sync (p_types p') pr = ASend k m /\ is_pos_rule (m_rule m) = true)) /\
  ((forall k, (exists self pr, procs c !! self = Some pr /\ k ∈ cids_of (pr_provs pr)) ->
              exists o, obj_in c o /\ k ∈ refs o) -> procs c = ∅).
Proof.
  intros Hrun.
  destruct (exec_run_quiescent _ _ _ Hlaws HF Sync fuel pick eq_refl _ _ _ Hinit
              (fun c' Hc' => Htopo Sync c' eq_refl Hc') Hrun) as [Hr [Hq [Δ Hc]]].
  exact (progress_sync_partial _ _ _ Hlaws HF Δ c Hc (Htopo Sync c eq_refl Hr) (sync_reachable_buffers p' c Hr) Hq).
Qed.
End OneProgram.

(* ------------------------------------------------------------------ accepted programs: the checker's annotations are a theorem *)
Definition topo_runs (p' : program) : Prop :=
  forall md c, is_np md = false -> reachable (p_types p') (p_funs p') md (init_config p') c -> Topo c.

(* the initial configuration of an accepted closed program is typed *)
Theorem initial_typed_tc p p' :
  typecheck p = Accept p' -> in_fragment p' -> prog_syn_ok p = true -> raw_ok p = true ->
  cfg_typed (p_types p') (p_funs p') (teq_rt (p_types p')) (init_delta p') (init_config p').
Proof.
  intros Ha Hf PS RS. apply initial_typed; [apply teq_rt_laws|]. apply (tc_annotations_typed_rt p p' Ha PS RS Hf).
Qed.

(* C01, closed programs, the two polarized modes: no schedule leads to a run-time error *)
Theorem safety_tc_partial p p' md :
  typecheck p = Accept p' -> in_fragment p' -> prog_syn_ok p = true -> raw_ok p = true ->
  topo_runs p' -> is_np md = false ->
  forall fuel pick c who e,
    exec_run fuel pick md (p_types p') (p_funs p') (init_config p') <> RError c who e.
Proof.
  intros Ha Hf PS RS Ht Hnp.
  exact (safety_one _ p' (teq_rt_laws _) (tc_annotations_typed_rt p p' Ha PS RS Hf) Ht md Hnp).
Qed.

(* every reachable configuration is typed *)
Theorem reachable_typed_tc p p' md c :
  typecheck p = Accept p' -> in_fragment p' -> prog_syn_ok p = true -> raw_ok p = true ->
  topo_runs p' -> is_np md = false ->
  reachable (p_types p') (p_funs p') md (init_config p') c ->
  exists Δ, init_delta p' ⊆ Δ /\ cfg_typed (p_types p') (p_funs p') (teq_rt (p_types p')) Δ c.
Proof.
  intros Ha Hf PS RS Ht Hnp.
  exact (reachable_typed_one _ p' (teq_rt_laws _) (tc_annotations_typed_rt p p' Ha PS RS Hf) Ht md c Hnp).
Qed.

(* C02, asynchronous mode: what is left when a run ends in quiescence *)
Theorem progress_run_tc_partial p p' :
  typecheck p = Accept p' -> in_fragment p' -> prog_syn_ok p = true -> raw_ok p = true ->
  topo_runs p' ->
  forall fuel pick c,
    exec_run fuel pick Async (p_types p') (p_funs p') (init_config p') = RQuiescent c ->
    exists Δ : gmap cid sty,
    (forall self pr, procs c !! self = Some pr ->
       exists k st T, action_of Async (p_types p') pr = ARecv k /\ own_chan pr k /\
                      Δ !! k = Some T /\ pol_of_ty (p_types p') T Neg /\
                      chans c !! k = Some st /\ ch_buf st = None /\ ch_closed st = false) /\
    (forall k st m, chans c !! k = Some st -> ch_buf st = Some m -> is_pos_rule (m_rule m) = true) /\
    ((forall k, alive c k -> exists o, obj_in c o /\ k ∈ refs o) -> procs c = ∅).
Proof.
  intros Ha Hf PS RS Ht.
  exact (progress_one _ p' (teq_rt_laws _) (tc_annotations_typed_rt p p' Ha PS RS Hf) Ht).
Qed.

(* C02, synchronous mode *)
Theorem progress_sync_run_tc_partial p p' :
  typecheck p = Accept p' -> in_fragment p' -> prog_syn_ok p = true -> raw_ok p = true ->
  topo_runs p' ->
  forall fuel pick c,
    exec_run fuel pick Sync (p_types p') (p_funs p') (init_config p') = RQuiescent c ->
    (forall self pr, procs c !! self = Some pr ->
       exists k, own_chan pr k /\
         (action_of Sync (p_types p') pr = ARecv k \/
          exists m, action_of Sync (p_types p') pr = ASend k m /\ is_pos_rule (m_rule m) = true)) /\
    ((forall k, (exists self pr, procs c !! self = Some pr /\ k ∈ cids_of (pr_provs pr)) ->
                exists o, obj_in c o /\ k ∈ refs o) -> procs c = ∅).
Proof.
  intros Ha Hf PS RS Ht.
  exact (progress_sync_one _ p' (teq_rt_laws _) (tc_annotations_typed_rt p p' Ha PS RS Hf) Ht).
Qed.

(* ------------------------------------------------------------------ programs that come out of the parser: prog_syn_ok and raw_ok
   are theorems (proofs/ParseSynOk.v, proofs/ParseRaw.v) *)
Theorem tc_annotations_typed_parsed txt p p' :
  parse_string txt = POk p -> typecheck p = Accept p' -> in_fragment p' ->
  static_typed (teq_rt (p_types p')) p'.
Proof. intros Hp Ha Hf. exact (tc_annotations_typed_rt p p' Ha (parse_syn_ok _ _ Hp) (parse_raw_ok _ _ Hp) Hf). Qed.

Theorem safety_parsed_partial txt p p' md :
  parse_string txt = POk p -> typecheck p = Accept p' -> in_fragment p' ->
  topo_runs p' -> is_np md = false ->
  forall fuel pick c who e,
    exec_run fuel pick md (p_types p') (p_funs p') (init_config p') <> RError c who e.
Proof. intros Hp Ha Hf. exact (safety_tc_partial p p' md Ha Hf (parse_syn_ok _ _ Hp) (parse_raw_ok _ _ Hp)). Qed.

Theorem progress_run_parsed_partial txt p p' :
  parse_string txt = POk p -> typecheck p = Accept p' -> in_fragment p' ->
  topo_runs p' ->
  forall fuel pick c,
    exec_run fuel pick Async (p_types p') (p_funs p') (init_config p') = RQuiescent c ->
    exists Δ : gmap cid sty,
    (forall self pr, procs c !! self = Some pr ->
       exists k st T, action_of Async (p_types p') pr = ARecv k /\ own_chan pr k /\
                      Δ !! k = Some T /\ pol_of_ty (p_types p') T Neg /\
                      chans c !! k = Some st /\ ch_buf st = None /\ ch_closed st = false) /\
    (forall k st m, chans c !! k = Some st -> ch_buf st = Some m -> is_pos_rule (m_rule m) = true) /\
    ((forall k, alive c k -> exists o, obj_in c o /\ k ∈ refs o) -> procs c = ∅).
Proof. intros Hp Ha Hf. exact (progress_run_tc_partial p p' Ha Hf (parse_syn_ok _ _ Hp) (parse_raw_ok _ _ Hp)). Qed.

Theorem progress_sync_run_parsed_partial txt p p' :
  parse_string txt = POk p -> typecheck p = Accept p' -> in_fragment p' ->
  topo_runs p' ->
  forall fuel pick c,
    exec_run fuel pick Sync (p_types p') (p_funs p') (init_config p') = RQuiescent c ->
    (forall self pr, procs c !! self = Some pr ->
       exists k, own_chan pr k /\
         (action_of Sync (p_types p') pr = ARecv k \/
          exists m, action_of Sync (p_types p') pr = ASend k m /\ is_pos_rule (m_rule m) = true)) /\
    ((forall k, (exists self pr, procs c !! self = Some pr /\ k ∈ cids_of (pr_provs pr)) ->
                exists o, obj_in c o /\ k ∈ refs o) -> procs c = ∅).
Proof. intros Hp Ha Hf. exact (progress_sync_run_tc_partial p p' Ha Hf (parse_syn_ok _ _ Hp) (parse_raw_ok _ _ Hp)). Qed.

(* ------------------------------------------------------------------ the non-polarized mode (the CLI's --sync): proofs/RtSafetyNP.v *)
Definition topo_runs_np (p' : program) : Prop :=
  forall c, reachable (p_types p') (p_funs p') NP (init_config p') c -> Topo c.

Theorem safety_np_tc_partial p p' :
  typecheck p = Accept p' -> in_fragment p' -> prog_syn_ok p = true -> raw_ok p = true ->
  topo_runs_np p' ->
  forall fuel pick c who e,
    exec_run fuel pick NP (p_types p') (p_funs p') (init_config p') <> RError c who e.
Proof.
  intros Ha Hf PS RS Ht fuel pick c who e.
  pose proof (tc_annotations_typed_rt p p' Ha PS RS Hf) as Hst.
  apply (exec_run_safe_np (p_types p') (p_funs p') (teq_rt (p_types p')) (teq_rt_laws _) (proj1 Hst) fuel pick
           (init_delta p') (init_config p') (initial_typed _ p' (teq_rt_laws _) Hst)).
  intros c' Hr. apply topo_closed_unused_np. apply Ht. exact Hr.
Qed.

Theorem safety_np_parsed_partial txt p p' :
  parse_string txt = POk p -> typecheck p = Accept p' -> in_fragment p' -> topo_runs_np p' ->
  forall fuel pick c who e,
    exec_run fuel pick NP (p_types p') (p_funs p') (init_config p') <> RError c who e.
Proof. intros Hp Ha Hf. exact (safety_np_tc_partial p p' Ha Hf (parse_syn_ok _ _ Hp) (parse_raw_ok _ _ Hp)). Qed.

(* the statement aimed at (`safety_statement` of proofs/RtTheorems.v: the three modes), for parsed
   programs, with Topo on the reachable configurations as the only premise *)
Theorem safety_all_modes_parsed_partial txt p p' md :
  parse_string txt = POk p -> typecheck p = Accept p' -> in_fragment p' ->
  (forall c, reachable (p_types p') (p_funs p') md (init_config p') c -> Topo c) ->
  forall fuel pick c who e,
    exec_run fuel pick md (p_types p') (p_funs p') (init_config p') <> RError c who e.
Proof.
  intros Hp Ha Hf Ht fuel pick c who e.
  pose proof (tc_annotations_typed_parsed txt p p' Hp Ha Hf) as Hst.
  destruct (is_np md) eqn:Hnp.
  - destruct md; try discriminate Hnp.
    exact (safety_np_parsed_partial txt p p' Hp Ha Hf Ht fuel pick c who e).
  - apply (exec_run_safe (p_types p') (p_funs p') (teq_rt (p_types p')) (teq_rt_laws _) (proj1 Hst) md fuel pick Hnp
             (init_delta p') (init_config p') (initial_typed _ p' (teq_rt_laws _) Hst)).
    intros c' Hr self pr k st. eapply topo_closed_unused; [exact Hnp|exact (Ht c' Hr)].
Qed.

(* ------------------------------------------------------------------ the two computable premises, as the check module evaluates them *)
Inductive syn_verdict : Type :=
  SY_ok | SY_types_not_syn | SY_names_not_syn | SY_outside_fragment | SY_rejected | SY_parse_error.
Definition syn_premises_text (txt : string) : syn_verdict :=
  match parse_string txt with
  | POk p =>
    match typecheck p with
    | Accept p' =>
      if in_fragment_b p' then
        (if prog_syn_ok p then (if raw_ok p then SY_ok else SY_names_not_syn) else SY_types_not_syn)
      else SY_outside_fragment
    | _ => SY_rejected
    end
  | _ => SY_parse_error
  end.

(* where the answer is SY_ok the annotated output of the typechecker is typed in the run-time judgement *)
Theorem syn_premises_sound txt : syn_premises_text txt = SY_ok ->
  exists p p', parse_string txt = POk p /\ typecheck p = Accept p' /\ in_fragment p' /\
               prog_syn_ok p = true /\ raw_ok p = true /\
               static_typed (teq_rt (p_types p')) p'.
Proof.
  unfold syn_premises_text. destruct (parse_string txt) as [p| | |]; try discriminate.
  destruct (typecheck p) as [p'| | |] eqn:Et; try discriminate.
  destruct (in_fragment_b p') eqn:Ef; [|discriminate]. apply in_fragment_b_sound in Ef.
  destruct (prog_syn_ok p) eqn:PS; [|discriminate]. destruct (raw_ok p) eqn:RS; [|discriminate].
  intros _. exists p, p'. split; [reflexivity|]. split; [exact Et|]. split; [exact Ef|].
  split; [exact PS|]. split; [exact RS|]. apply (tc_annotations_typed_rt p p' Et PS RS Ef).
Qed.

(* ------------------------------------------------------------------ the premises hold of the examples *)
Definition text_syn_ok (txt : string) : bool :=
  match parse_string txt with
  | POk p => prog_syn_ok p && raw_ok p
  | _ => false
  end.

Example examples_syn_ok :
  text_syn_ok example_text = true /\ text_syn_ok example_drop_text = true /\ text_syn_ok example_split_text = true.
Proof. split; [|split]; vm_compute; reflexivity. Qed.
