(* SaxTwo.v — C04, results, for declarations with ONE OR TWO provider names (`prc[a,b] : T = P`).
   spec/SaxInit2.v gives such a program its SAX initial configuration (the two copies of P and one pending
   split per free name; a pending split if P is a forward); `alpha_init2`: it IS the abstraction of the
   interpreter's initial configuration (a two-provider non-forward process is read as what its DUP step
   creates, SaxSplit.dup_objs).  With SaxSplit.refines_all_run_md (every step of every configuration whose
   provider lists have length one or two) this removes `single_decls` from prints_admitted_all. *)
From stdpp Require Import gmap strings.
Require Import Grits.Base Grits.ModeDefs Grits.Modes Grits.STypes Grits.Forms Grits.Subst Grits.TcDeps Grits.Expand
               Grits.Tc Grits.TcTop Grits.Runtime.
Require Import Grits.spec.RtTyping Grits.spec.Topo Grits.proofs.RuntimeFacts Grits.proofs.RtSafety Grits.proofs.InvAll.
Require Import Grits.spec.Sax Grits.spec.SaxInit2 Grits.proofs.Causality Grits.proofs.SaxRefine Grits.proofs.SaxInv Grits.proofs.SaxTyped
               Grits.proofs.SaxDrop Grits.proofs.SaxSplit.
Require Import Grits.spec.SynOk Grits.proofs.RtInit Grits.proofs.RtTheorems Grits.proofs.RtStaticCheck Grits.proofs.RtTcSyn
               Grits.proofs.RtTcBisim Grits.proofs.ParseSynOk Grits.proofs.ParseRaw Grits.proofs.AsyncSync
               Grits.proofs.DeterminismAll Grits.proofs.SrcAll.

Lemma col1_copy i fns : col1 [i] 2 fns = copy_names i 0 fns.
Proof. unfold col1, copy_names. apply imap_ext. intros j fn _. rewrite Nat.add_0_r. reflexivity. Qed.
Lemma col2_copy i fns : col2 [i] 2 fns = copy_names i 1 fns.
Proof. unfold col2, copy_names. apply imap_ext. intros j fn _. reflexivity. Qed.

(* the objects of one initial process *)
Lemma init_proc_objs i provs B :
  (length provs = 1 \/ length provs = 2)%nat ->
  proc_obj [i] (Proc (map snd (init_provs i provs)) B (length (init_provs i provs))) = decl_objs i (length provs) B.
Proof.
  intros Hlen. destruct provs as [|x [|y [|z r]]]; cbn in Hlen; try lia.
  - unfold proc_obj, pobj. cbn. done.
  - unfold proc_obj. cbn [init_provs imap map snd pr_provs pr_body0 length decl_objs].
    destruct (is_fwd B) eqn:Ef.
    + destruct B; try discriminate. unfold pobj. cbn. by destruct droppable.
    + destruct (dup_objs [i] (mkName (ident x) false None None (Some [i; 0%nat])) (mkName (ident y) false None None (Some [i; 1%nat]))
                  [i; 0%nat] [i; 1%nat] B 2 eq_refl eq_refl Ef) as (e & He & _ & _ & _ & _ & _ & _ & Hobjs).
      cbn in He |- *. rewrite He, Hobjs, col1_copy, col2_copy. by destruct B.
Qed.

Definition decls_le2 (p : program) : bool :=
  forallb (fun pr => match pr_providers pr with [_] | [_; _] => true | _ => false end) (p_procs p).

Lemma init_objs_aux2 (bodyf : procdef -> form) : forall (l : list procdef) (k : nat),
  forallb (fun pr => match pr_providers pr with [_] | [_; _] => true | _ => false end) l = true ->
  flat_map (fun x : nat * (procdef * list (name * name)) =>
              proc_obj [fst x] (Proc (map snd (snd (snd x))) (bodyf (fst (snd x))) (length (snd (snd x)))))
           (imap (fun i x => ((k + i)%nat, x))
                 (combine l (imap (fun i pr => init_provs (k + i) (pr_providers pr)) l))) =
  concat (imap (fun i pr => decl_objs (k + i) (length (pr_providers pr)) (bodyf pr)) l).
Proof.
  induction l as [|pr l IH]; intros k Hall; cbn; [done|]. cbn in Hall. apply andb_true_iff in Hall as [Hx Hall]. f_equal.
  - rewrite Nat.add_0_r. apply init_proc_objs. destruct (pr_providers pr) as [|x [|y [|z r]]]; try discriminate; cbn; lia.
  - etransitivity; [|etransitivity; [apply (IH (S k) Hall)|]].
    + f_equal. etransitivity; [apply imap_ext|f_equal; f_equal; apply imap_ext].
      * intros i y _. cbn. f_equal. lia.
      * intros i y _. cbn. f_equal. lia.
    + f_equal. apply imap_ext. intros i y _. cbn. by replace (S (k + i)) with (k + S i)%nat by lia.
Qed.

Theorem alpha_init2 (p : program) : decls_le2 p = true -> α (init_config p) ≡ₚ sax_init2 p.
Proof.
  intros Hall.
  unfold α. rewrite (chans_objs_empty (chans (init_config p))), app_nil_r.
  2:{ intros k st Hk. destruct (init_causal_inv p) as [Hb _]. specialize (Hb k).
      unfold buf, bufm in Hb. by rewrite Hk in Hb. }
  unfold procs_objs. rewrite (init_procs_list p). cbn zeta.
  set (inits := imap (fun i pr => init_provs i (pr_providers pr)) (p_procs p)).
  set (bodyf := fun pr : procdef => fold_left (fun b '(old, new) => subst old new b) (concat inits) (pr_body pr)).
  rewrite flat_map_concat_map, map_map, <- flat_map_concat_map. cbn [fst snd].
  exact (eq_ind _ (fun x => x ≡ₚ _) (reflexivity _) _ (eq_sym (init_objs_aux2 bodyf (p_procs p) 0 Hall))).
Qed.

Lemma decls_le2_init p : decls_le2 p = true -> SplitCfg (init_config p).
Proof.
  unfold decls_le2. rewrite forallb_forall. intros Hs. split.
  - intros q pr' Hq. apply init_procs_lookup in Hq as (i & pr & Hpr & -> & Hpv & _).
    assert (In pr (p_procs p)) as Hin by (by eapply elem_of_list_In, elem_of_list_lookup_2).
    specialize (Hs pr Hin). cbn in Hs. rewrite Hpv. destruct (pr_providers pr) as [|x [|y [|z r]]]; try done; cbn; eauto.
  - intros k st m Hk Hb. pose proof (bufs_empty_init p k st Hk). congruence.
Qed.

(* C04, results, EVERY parsed accepted closed program whose declarations have one or two provider names — drop,
   split, all connectives —, both polarized modes *)
Theorem prints_admitted_all2 md txt p p' :
  is_np md = false ->
  parse_string txt = POk p -> typecheck p = Accept p' -> in_fragment p' -> decls_le2 p' = true ->
  forall fuel pick, exists C',
    sax_steps (p_funs p') true (sax_init2 p')
      (labels (res_config (exec_run fuel pick md (p_types p') (p_funs p') (init_config p')))) C'.
Proof.
  intros Hnp Hp Ha Hf Hsd fuel pick.
  pose proof (parse_syn_ok _ _ Hp) as PS. pose proof (parse_raw_ok _ _ Hp) as RS.
  destruct (init_invx p p' Ha Hf PS RS (all_src_parsed txt p p' Hp Ha)) as (HFa & HFn & HI).
  pose proof (tc_annotations_typed_rt p p' Ha PS RS Hf) as Hst.
  pose proof (decls_le2_init p' Hsd) as Hsc.
  rewrite <- (exec_trace_exec_run md (p_types p') (p_funs p') fuel pick (init_config p') []).
  destruct (exec_trace fuel pick md (p_types p') (p_funs p') (init_config p') []) as [r tr] eqn:Htr. cbn [fst].
  apply exec_trace_run in Htr as (es & _ & Hrun).
  destruct (refines_all_run_md _ _ _ (teq_rt_laws _) (proj1 Hst) HFa HFn md _ _ _ Hnp HI Hsc
              (fun _ => bufs_empty_init p') Hrun) as (ls & Hs & Hl).
  exists (α (res_config r)). rewrite Hl. change (labels (init_config p')) with (@nil string). cbn.
  eapply sax_steps_perm; [symmetry; by apply alpha_init2|done].
Qed.

Definition c04_all2_text (txt : string) : bool :=
  match parse_string txt with
  | POk p => match typecheck p with Accept p' => in_fragment_b p' && decls_le2 p' | _ => false end
  | _ => false
  end.

Theorem prints_admitted_all2_text txt : c04_all2_text txt = true ->
  exists p p', parse_string txt = POk p /\ typecheck p = Accept p' /\
  forall md, is_np md = false -> forall fuel pick, exists C',
    sax_steps (p_funs p') true (sax_init2 p')
      (labels (res_config (exec_run fuel pick md (p_types p') (p_funs p') (init_config p')))) C'.
Proof.
  unfold c04_all2_text. destruct (parse_string txt) as [p| | |] eqn:Hp; try discriminate.
  destruct (typecheck p) as [p'| | |] eqn:Ha; try discriminate.
  intros [Hf Hc]%andb_prop. exists p, p'. split; [done|]. split; [done|]. intros md Hnp.
  apply (prints_admitted_all2 md txt p p' Hnp Hp Ha); [by apply in_fragment_b_sound|done].
Qed.

Theorem results_unique_admitted_all2 md txt p p' pick1 f1 t1 :
  is_np md = false ->
  parse_string txt = POk p -> typecheck p = Accept p' -> in_fragment p' -> decls_le2 p' = true ->
  exec_run f1 pick1 md (p_types p') (p_funs p') (init_config p') = RQuiescent t1 ->
  (exists C', sax_steps (p_funs p') true (sax_init2 p') (labels t1) C') /\
  (forall pick2 f2, (f1 <= f2)%nat ->
     exists t2, exec_run f2 pick2 md (p_types p') (p_funs p') (init_config p') = RQuiescent t2 /\ labels t2 ≡ₚ labels t1).
Proof.
  intros Hnp Hp Ha Hf Hsd Hrun. split.
  - destruct (prints_admitted_all2 md txt p p' Hnp Hp Ha Hf Hsd f1 pick1) as [C' HC]. rewrite Hrun in HC. eauto.
  - intros pick2 f2 Hle.
    destruct (determinism_all txt p p' md pick1 pick2 f1 f2 t1 Hp Ha Hf (all_src_parsed txt p p' Hp Ha) Hnp Hrun Hle)
      as (t2 & H2 & _ & Hperm). eauto.
Qed.

(* non-vacuity: two-name declarations (the second one from corpus/run/f18_multiprovider_call.grits) *)
Definition example_two_text : string :=
"prc[a, b] : 1 = print made; close self
prc[c] : 1 = wait a; wait b; print done; close self".
Definition example_two_call_text : string :=
"type N = 1 -* 1
let g(w : N) : 1 = u : 1 <- new close self; r : 1 <- new send w<u, self>; wait r; close self
prc[z] : N = <x,y> <- recv self; wait x; close self
prc[a, b] : 1 = g(z)
prc[c] : 1 = wait a; wait b; print done; close self".
