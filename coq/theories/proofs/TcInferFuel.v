(* proofs/TcInferFuel.v — AddMissingModalities always returns: infer_fuel suffices for inferModality
   (discharges the premise add_missing_total_stmt of C09).  Measure: (number of definition names not
   yet in usedLabels) * (1 + size of the environment) + size of the type at hand. *)
Require Import Grits.Base Grits.ModeDefs Grits.Modes Grits.STypes Grits.Infer Grits.proofs.TcEnv.

Definition unused (D : tenv) (used : list string) : nat :=
  length (filter (fun y => negb (str_mem y used)) (map td_name D)).

Lemma filter_len_le : forall {X} (f : X -> bool) l, (length (filter f l) <= length l)%nat.
Proof. induction l as [|x l IH]; cbn; [lia|]. destruct (f x); cbn; lia. Qed.

Lemma unused_le : forall D used, (unused D used <= length D)%nat.
Proof. intros. unfold unused. rewrite <- (map_length td_name D). apply filter_len_le. Qed.

Lemma filter_mono : forall (l : list string) used x,
  (length (filter (fun y => negb (str_mem y (x :: used))) l) <= length (filter (fun y => negb (str_mem y used)) l))%nat.
Proof.
  induction l as [|z l IH]; intros used x; simpl; [lia|]. specialize (IH used x). simpl in IH.
  destruct (String.eqb z x); simpl; destruct (str_mem z used); simpl; lia.
Qed.

Lemma filter_shrinks : forall (l : list string) used x, In x l -> str_mem x used = false ->
  (length (filter (fun y => negb (str_mem y (x :: used))) l) < length (filter (fun y => negb (str_mem y used)) l))%nat.
Proof.
  induction l as [|y l IH]; intros used x Hin Hx; [destruct Hin|].
  pose proof (filter_mono l used x) as Hle. simpl in Hle. simpl. destruct Hin as [E|Hin].
  - subst y. rewrite String.eqb_refl, Hx. simpl. lia.
  - specialize (IH used x Hin Hx). simpl in IH.
    destruct (String.eqb y x); simpl; destruct (str_mem y used); simpl; lia.
Qed.

Lemma tlookup_size : forall D x d, tlookup D x = Some d -> (tsize (td_body d) <= env_size D)%nat.
Proof.
  intros D x d H. destruct (tlookup_some _ _ _ H) as [Hin _]. clear H.
  induction D as [|e D IH]; [destruct Hin|].
  change (env_size (e :: D)) with (tsize (td_body e) + env_size D)%nat.
  destruct Hin as [E|Hin]; [subst; lia | specialize (IH Hin); lia].
Qed.

Lemma tsize_pos : forall t, (1 <= tsize t)%nat.
Proof. destruct t; cbn; lia. Qed.

Lemma infer_enough : forall fuel D,
  (forall t used, (unused D used * S (env_size D) + tsize t < fuel)%nat -> exists r, infer fuel D t used = Ok r) /\
  (forall b used, (unused D used * S (env_size D) + bsize b < fuel)%nat -> exists r, infer_brs fuel D b used = Ok r).
Proof.
  induction fuel as [|f IH]; intros D; [split; intros; lia|].
  destruct (IH D) as [IHt IHb]. split.
  - intros t used Hf. destruct t; cbn [infer].
    + (* name *) destruct (negb (is_unset m)); [eexists; reflexivity|].
      destruct (tlookup D x) as [d|] eqn:El; [|eexists; reflexivity].
      destruct (negb (str_mem x used)) eqn:Eu; [|eexists; reflexivity].
      apply IHt. apply Bool.negb_true_iff in Eu.
      destruct (tlookup_some _ _ _ El) as [Hin Hn].
      assert (Hs : (unused D (x :: used) < unused D used)%nat).
      { unfold unused. apply filter_shrinks; auto. rewrite <- Hn. apply in_map; auto. }
      pose proof (tlookup_size _ _ _ El). cbn [tsize] in Hf. nia.
    + eexists; reflexivity.
    + (* tensor *) destruct (negb (is_unset m)); [eexists; reflexivity|]. cbn [tsize] in Hf.
      destruct (IHt t1 used) as [[lm u1] E1]; [lia|]. rewrite E1. cbn [obind].
      destruct (IHt t2 used) as [[rm u2] E2]; [lia|]. rewrite E2. cbn [obind]. eexists; reflexivity.
    + (* lolli *) destruct (negb (is_unset m)); [eexists; reflexivity|]. cbn [tsize] in Hf.
      destruct (IHt t1 used) as [[lm u1] E1]; [lia|]. rewrite E1. cbn [obind].
      destruct (IHt t2 used) as [[rm u2] E2]; [lia|]. rewrite E2. cbn [obind]. eexists; reflexivity.
    + (* plus *) destruct (negb (is_unset m)); [eexists; reflexivity|]. cbn [tsize] in Hf.
      destruct (IHb bs used) as [r E]; [lia|]. rewrite E. cbn [obind]. eexists; reflexivity.
    + (* with *) destruct (negb (is_unset m)); [eexists; reflexivity|]. cbn [tsize] in Hf.
      destruct (IHb bs used) as [r E]; [lia|]. rewrite E. cbn [obind]. eexists; reflexivity.
    + eexists; reflexivity.
    + eexists; reflexivity.
  - intros b used Hf. destruct b as [|l a r]; cbn [infer_brs]; [eexists; reflexivity|]. cbn [bsize] in Hf.
    destruct (IHt a used) as [[m u] E1]; [lia|]. rewrite E1. cbn [obind].
    destruct (IHb r used) as [rest E2]; [lia|]. rewrite E2. cbn [obind]. eexists; reflexivity.
Qed.

Theorem infer_fuel_enough : forall D t, exists r, infer (infer_fuel D t) D t [] = Ok r.
Proof.
  intros D t. apply (proj1 (infer_enough (infer_fuel D t) D)).
  unfold infer_fuel. pose proof (unused_le D []). pose proof (tsize_pos t). nia.
Qed.

Theorem add_missing_total : forall D t, exists t', add_missing D t = Ok t'.
Proof.
  intros D t. unfold add_missing. destruct (infer_fuel_enough D t) as [[m u] E]. rewrite E. cbn [obind].
  eexists; reflexivity.
Qed.
