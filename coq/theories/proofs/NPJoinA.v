(* NPJoinA.v — the peak  Control f t / Run t  of the non-polarized mode closes with balanced joins, for
   typed contraction-free forest configurations: after the internal step of t, t is run until it polls
   its control channel again (it cannot stay at calls forever when the runs are bounded), then the
   control message is delivered; on the other side the same steps of t are taken after the control
   message (ctl_run_commute). *)
From stdpp Require Import gmap strings.
Require Import Grits.Base Grits.ModeDefs Grits.Modes Grits.STypes Grits.Forms Grits.Subst Grits.TcDeps Grits.Expand
               Grits.Runtime Grits.RuntimeFootprint Grits.spec.RtTyping Grits.spec.Topo.
Require Import Grits.proofs.RtSubst Grits.proofs.StepErrors Grits.proofs.RtSafety Grits.proofs.RtSafetyNP Grits.proofs.TopoLin Grits.proofs.RuntimeFacts
               Grits.proofs.Diamond Grits.proofs.Determinism Grits.proofs.AsyncSync Grits.proofs.TopoStep Grits.proofs.InvAll Grits.proofs.InvNP
               Grits.proofs.NPCfree Grits.proofs.NPJoin Grits.proofs.Balanced.

Section JoinA.
Variable D : tenv.
Variable F : list fundef.
Variable teq : sty -> sty -> Prop.
Hypothesis Hteq : teq_laws D teq.
Hypothesis HF : funs_typed D F teq.
Hypothesis HFa : funs_aff F.
Hypothesis HFn : nofd_funs F.
Hypothesis HFc : cfree_funs F.

Notation stpN := (stp NP D F).
Notation runN := (bsteps stpN).

(* the invariant of the non-polarized runs of contraction-free programs *)
Definition JN (c : config) : Prop := InvX D F teq c /\ bufs_empty c /\ CF c.

Lemma JN_step c ch c' : JN c -> step NP D F c ch = SStep c' -> JN c'.
Proof.
  intros (HI & Hb & Hcf) Hs. destruct (invx_step_np D F teq Hteq HF HFa HFn c ch c' HI Hb Hs) as [H1 H2].
  split; [done|]. split; [done|]. eapply cf_step_np; eauto.
Qed.
Lemma JN_stp c a c' : JN c -> stpN c a = Some c' -> JN c'.
Proof. intros HJ H. apply stp_Some in H. eapply JN_step; eauto. Qed.

(* a typed process with one provider that does not poll is at an internal step, which is enabled *)
Lemma not_polls_run c t pt : JN c -> procs c !! t = Some pt -> polls_control NP D pt = false ->
  action_of NP D pt = AInternal /\ exists e, internal_effect NP F t pt = EOk e.
Proof.
  intros (HI & Hb & Hcf) Hpt Hpoll. destruct HI as [[Δ Hc] _ _ _ _ _ _].
  pose proof (typed_action_np D F teq Hteq HF Δ pt (ct_procs D F teq Δ c Hc t pt Hpt)) as Hv.
  pose proof (ns_fresh_free Δ c t pt (ct_fresh D F teq Δ c Hc) Hpt) as Hfree.
  destruct (Hcf t pt Hpt) as [_ [n0 Hn0]].
  unfold polls_control in Hpoll. destruct (action_of NP D pt) as [| |k m|k| |k pv|w] eqn:Ea; try discriminate; simpl in Hv; try contradiction.
  - apply np_action_async in Ea; [|done]. apply action_dup_multi in Ea. unfold multi in Ea. rewrite Hn0 in Ea. done.
  - split; [done|]. destruct (Hv t Hfree) as (e & Δ' & He & _). eauto.
Qed.

Lemma ready_chan c f t nf k : JN c -> CtlReady D c f t nf k -> is_Some (chans c !! k).
Proof.
  intros (HI & _) (_ & pf & pt & n0 & _ & Hpt & _ & Hn0 & Hk). destruct HI as [[Δ Hc] _ _ _ _ _ _].
  destruct (ct_procs D F teq Δ c Hc t pt Hpt) as (s & rs & _ & Hprovs & _). rewrite Hn0 in Hprovs.
  apply Forall_inv in Hprovs. destruct Hprovs as (c0 & t' & Hc0 & Ht' & _). rewrite Hk in Hc0. injection Hc0 as <-.
  apply (ct_dom D F teq Δ c Hc). eauto.
Qed.

(* run t until it polls: the same steps on both sides of the formal control message *)
Lemma chain f t nf k : forall N c, JN c -> CtlReady D c f t nf k ->
  ((forall m c', runN m c c' -> (m <= N)%nat) \/ (forall m c', runN m (ctl nf k f t c) c' -> (m <= N)%nat)) ->
  exists m d pt, runN m c d /\ runN m (ctl nf k f t c) (ctl nf k f t d) /\
    JN d /\ CtlReady D d f t nf k /\ procs d !! t = Some pt /\ polls_control NP D pt = true.
Proof.
  induction N as [|N IH]; intros c HJ Hr Hbound.
  all: destruct Hr as (Hft & pf & pt & n0 & Hf & Hpt & Eaf & Hn0 & Hk).
  all: assert (Hr : CtlReady D c f t nf k) by (split; [done|]; exists pf, pt, n0; done).
  all: destruct (polls_control NP D pt) eqn:Hpoll; [exists 0%nat, c, pt; split; [apply bs_O|]; split; [apply bs_O|]; split; [exact HJ|]; split; [exact Hr|]; split; done|].
  all: destruct (not_polls_run c t pt HJ Hpt Hpoll) as [Ea [e He]].
  all: destruct pt as [provs body nx]; cbn in Hn0; subst provs.
  all: destruct HJ as (HI & Hb & Hcf); pose proof (ix_ns _ _ _ _ HI) as Hns.
  all: destruct (ctl_run_commute D F c f t nf k n0 body nx e Hns Hr (ready_chan c f t nf k (conj HI (conj Hb Hcf)) Hr) Hpt Ea He) as (Hs1 & Hs2 & Hr1).
  all: set (c1 := apply_effect c t (Proc [n0] body nx) e) in *.
  - exfalso. destruct Hbound as [Hbd|Hbd].
    + assert (H : runN 1 c c1) by (eapply bs_S; [by apply stp_Some|apply bs_O]). specialize (Hbd _ _ H). lia.
    + assert (H : runN 1 (ctl nf k f t c) (ctl nf k f t c1)) by (eapply bs_S; [by apply stp_Some|apply bs_O]). specialize (Hbd _ _ H). lia.
  - assert (HJ1 : JN c1) by (eapply JN_step; [exact (conj HI (conj Hb Hcf))|exact Hs1]).
    destruct (IH c1 HJ1 Hr1) as (m & d & ptd & H1 & H2 & HJd & Hrd & Hptd & Hpd).
    { destruct Hbound as [Hbd|Hbd]; [left|right]; intros m0 c' Hm.
      - assert (H : runN (S m0) c c') by (econstructor; [by apply stp_Some|exact Hm]). specialize (Hbd _ _ H). lia.
      - assert (H : runN (S m0) (ctl nf k f t c) c') by (econstructor; [by apply stp_Some|exact Hm]). specialize (Hbd _ _ H). lia. }
    exists (S m), d, ptd. split; [econstructor; [by apply stp_Some|exact H1]|]. split; [econstructor; [by apply stp_Some|exact H2]|]. done.
Qed.

(* the balanced join of the peak *)
Theorem join_ctl_run c f t c1 c2 N :
  JN c -> step NP D F c (Control f t) = SStep c2 -> step NP D F c (Run t) = SStep c1 ->
  ((forall m c', runN m c1 c' -> (m <= N)%nat) \/ (forall m c', runN m c2 c' -> (m <= N)%nat)) ->
  exists k d, runN k c1 d /\ runN k c2 d.
Proof.
  intros HJ Hc2 Hc1 Hbound. pose proof HJ as (HI & Hb & Hcf). pose proof (ix_ns _ _ _ _ HI) as Hns.
  (* the control message is ready *)
  assert (Hready : exists nf k, CtlReady D c f t nf k /\ c2 = ctl nf k f t c).
  { revert Hc2. cbn [step negb is_np orb]. destruct (bool_decide (f = t)) eqn:Eft; [done|]. apply bool_decide_eq_false in Eft.
    destruct (procs c !! f) as [pf|] eqn:Hf; [|done]. destruct (procs c !! t) as [pt|] eqn:Hpt; [|done].
    destruct (action_of NP D pf) as [| |k m|k| |k provs|w] eqn:Ea; try done.
    destruct (self_chan pt) as [k'|] eqn:Esc; [|done].
    destruct (bool_decide (k = k')) eqn:Ek; [|done]. apply bool_decide_eq_true in Ek. subst k'.
    destruct (polls_control NP D pt) eqn:Hpoll; [|done]. cbn [andb]. intros Hs.
    destruct (ctrl_inv D pf k provs Ea) as (to & from & d & _ & _ & ->).
    destruct (Hcf f pf Hf) as [_ [nf Hnf]]. destruct (Hcf t pt Hpt) as [_ [n0 Hn0]].
    assert (Hk : chan n0 = Some k) by (unfold self_chan, prov0 in Esc; rewrite Hn0 in Esc; exact Esc).
    exists nf, k. rewrite Hnf in Ea.
    assert (Hr : CtlReady D c f t nf k) by (split; [done|]; exists pf, pt, n0; done).
    split; [exact Hr|]. pose proof (ctl_fire D F c f t nf k pt Hr Hpt Hpoll) as Hs'.
    cbn [step negb is_np orb] in Hs'. rewrite bool_decide_eq_false_2 in Hs' by done. rewrite Hf, Hpt in Hs'. rewrite Hnf in Hs.
    rewrite Ea, Esc in Hs'. rewrite bool_decide_eq_true_2 in Hs' by done. rewrite Hpoll in Hs'. cbn [andb] in Hs'. congruence. }
  destruct Hready as (nf & k & Hr & ->).
  (* the step of t is internal *)
  destruct Hr as (Hft & pf & pt & n0 & Hf & Hpt & Eaf & Hn0 & Hk).
  assert (Hr : CtlReady D c f t nf k) by (split; [done|]; exists pf, pt, n0; done).
  assert (Hint : action_of NP D pt = AInternal /\ exists e, internal_effect NP F t pt = EOk e /\ c1 = apply_effect c t pt e).
  { revert Hc1. cbn [step]. rewrite Hpt. destruct (action_of NP D pt) as [| |k0 m|k0| |k0 pv|w] eqn:Ea; try done.
    - apply np_action_async in Ea; [|done]. apply action_dup_multi in Ea. unfold multi in Ea. rewrite Hn0 in Ea. done.
    - destruct (internal_effect NP F t pt) as [e|]; [|done]. intros [= <-]. eauto.
    - destruct (chans c !! k0) as [st|]; [|done]. destruct (ch_closed st); [done|]. by destruct (ch_buf st).
    - destruct (chans c !! k0) as [st|] eqn:Ek0; [|done]. rewrite (Hb _ _ Ek0).
      assert (Hcu : closed_unused D NP c) by (apply topo_closed_unused_np; apply HI).
      rewrite (Hcu t pt k0 st Hpt (or_introl Ea) Ek0). done. }
  destruct Hint as (Ea & e & He & ->). destruct pt as [provs body nx]. cbn in Hn0. subst provs.
  destruct (ctl_run_commute D F c f t nf k n0 body nx e Hns Hr (ready_chan c f t nf k HJ Hr) Hpt Ea He) as (Hs1 & Hs2 & Hr1).
  set (c1 := apply_effect c t (Proc [n0] body nx) e) in *.
  assert (HJ1 : JN c1) by (eapply JN_step; eauto).
  destruct (chain f t nf k N c1 HJ1 Hr1) as (m & d & ptd & H1 & H2 & HJd & Hrd & Hptd & Hpd).
  { destruct Hbound as [Hbd|Hbd]; [by left|right]. intros m0 c' Hm.
    assert (H : runN (S m0) (ctl nf k f t c) c') by (econstructor; [by apply stp_Some|exact Hm]). specialize (Hbd _ _ H). lia. }
  exists (S m), (ctl nf k f t d). split.
  - replace (S m) with (m + 1)%nat by lia. eapply bsteps_trans; [exact H1|]. eapply bs_S; [|apply bs_O].
    apply stp_Some. eapply ctl_fire; eauto.
  - econstructor; [by apply stp_Some|exact H2].
Qed.
End JoinA.
