(* SaxRefine.v — C04, results half: the asynchronous polarized interpreter model refines the reference
   SAX semantics (spec/Sax.v) on the LINEAR CONNECTIVE FRAGMENT
   {1, ⊗, ⊸, ⊕, &, ↓, ↑, cut, id (both forward protocols), call, print}.

   * `α : config -> sconfig` reads a runtime configuration as a SAX configuration: every process is the
     object its body is (`obj`: a process about to send an axiom IS the message), every buffered
     message is the msg object it stands for (RCV/BRA/SHF messages carry the sender's provider channel
     as the continuation the message provides), a pending FWD request is the forward object.
   * `refines_sax`: under the local invariant `Inv`, one step of the model in Async mode is matched by
     ZERO OR ONE step of Sax.v (linear rules only) between the abstractions, emitting the same labels.
     Zero: a send (the message was already there as an object), an active forward posting its request.
   * `refines_sax_run` / `prints_admitted_partial`: along every run on which `Inv` holds, the labels
     printed by the model are printed, in the same order, by an execution of Sax.v from the program's
     SAX initial configuration (`alpha_init`).  `Inv` is a PREDICATE with a boolean checker (`inv_b`,
     `inv_b_sound`).  `prints_admitted_partial` takes its preservation by steps as a Section
     hypothesis; proofs/SaxInv.v proves the structural part of it inductive and reduces the premise to
     the residue of C01's configuration typing (`prints_admitted_residue`);
     `prints_admitted_checked` replaces the premise by running the checker along the run (no
     hypothesis; used for the non-vacuity examples in props/C04.v and by the check on every program). *)
From stdpp Require Import gmap strings.
Require Import Grits.Base Grits.ModeDefs Grits.Modes Grits.STypes Grits.Forms Grits.Subst Grits.TcDeps Grits.Expand Grits.Runtime.
Require Import Grits.TcTop Grits.spec.Sax Grits.proofs.Causality.

(* ------------------------------------------------------------------ the abstraction *)
(* the object a provider list + body stands for, when no identifier of the process is needed: one
   provider — the term itself; two providers and a forward — the pending contraction split(c1,c2,b)
   (the interpreter's `split` spawns exactly this process) *)
Definition pobj (provs : list name) (body : form) : list sobj :=
  match provs with
  | [n] => match chan n with Some a => [obj a body] | None => [] end
  | [n1; n2] =>
    match body with
    | FFwd _ from false =>
      match chan n1, chan n2, chan from with Some c1, Some c2, Some b => [SSplit c1 c2 b] | _, _, _ => [] end
    | _ => []
    end
  | _ => []
  end.
Definition spawn_objs (ss : list spawn) : list sobj := flat_map (fun s => pobj (sp_provs s) (sp_body s)) ss.
(* a process with two providers that is not a forward has adopted a contraction request and will
   duplicate itself as its very next step (DUP, administrative): it is read as the copies that step
   creates — their fresh channel names are determined by the process identifier and its counter *)
Definition proc_obj (q : pid) (pr : proc) : list sobj :=
  match pr_provs pr with
  | [n1; n2] =>
    match pr_body0 pr with
    | FFwd _ _ _ => pobj (pr_provs pr) (pr_body0 pr)
    | _ => match dup_effect q pr with EOk e => spawn_objs (e_spawn e) | EErr _ => [] end
    end
  | _ => pobj (pr_provs pr) (pr_body0 pr)
  end.
Definition msg_obj (k : cid) (m : msg) : list sobj :=
  match m_rule m with
  | RSND => [SMsgP k (VPair (m_c1 m) (m_c2 m))]
  | RSEL => [SMsgP k (VLab (m_label m) (m_c1 m))]
  | RCLS => [SMsgP k VUnit]
  | RCST => [SMsgP k (VShift (m_c1 m))]
  | RRCV => match chan (m_c2 m) with Some d => [SMsgN k (NPair (m_c1 m) d)] | None => [] end
  | RBRA => match chan (m_c1 m) with Some d => [SMsgN k (NLab (m_label m) d)] | None => [] end
  | RSHF => match chan (m_c1 m) with Some d => [SMsgN k (NShift d)] | None => [] end
  | RFWD => match m_provs m with
            | [n] => match chan n with Some a => [SFwd a k] | None => [] end
            | [n1; n2] => match chan n1, chan n2 with Some c1, Some c2 => [SSplit c1 c2 k] | _, _ => [] end
            | _ => []
            end
  | RGC => [SDrop k]
  end.
Definition chan_obj (k : cid) (st : chan_st) : list sobj :=
  match ch_buf st with Some m => msg_obj k m | None => [] end.

Definition procs_objs (pm : gmap pid proc) : list sobj := flat_map (fun x => proc_obj (fst x) (snd x)) (map_to_list pm).
Definition chans_objs (cm : gmap cid chan_st) : list sobj := flat_map (fun x => chan_obj (fst x) (snd x)) (map_to_list cm).
Definition α (c : config) : sconfig := procs_objs (procs c) ++ chans_objs (chans c).

(* ------------------------------------------------------------------ the object lists under table updates *)
Lemma procs_objs_lookup pm q pr : pm !! q = Some pr -> procs_objs pm ≡ₚ proc_obj q pr ++ procs_objs (delete q pm).
Proof. intros H. unfold procs_objs. by rewrite <- (map_to_list_delete pm q pr H). Qed.

Lemma procs_objs_insert pm q pr : procs_objs (<[q := pr]> pm) ≡ₚ proc_obj q pr ++ procs_objs (delete q pm).
Proof.
  unfold procs_objs. rewrite <- insert_delete_insert.
  rewrite map_to_list_insert by apply lookup_delete. done.
Qed.

Lemma procs_objs_insert_fresh pm q pr : pm !! q = None -> procs_objs (<[q := pr]> pm) ≡ₚ proc_obj q pr ++ procs_objs pm.
Proof. intros H. unfold procs_objs. by rewrite map_to_list_insert. Qed.

Lemma chans_objs_lookup cm k st : cm !! k = Some st -> chans_objs cm ≡ₚ chan_obj k st ++ chans_objs (delete k cm).
Proof. intros H. unfold chans_objs. by rewrite <- (map_to_list_delete cm k st H). Qed.

Lemma chans_objs_insert cm k st : chans_objs (<[k := st]> cm) ≡ₚ chan_obj k st ++ chans_objs (delete k cm).
Proof.
  unfold chans_objs. rewrite <- insert_delete_insert.
  rewrite map_to_list_insert by apply lookup_delete. done.
Qed.

Lemma chans_objs_new cm k : cm !! k = None -> chans_objs (<[k := empty_chan]> cm) ≡ₚ chans_objs cm.
Proof. intros H. rewrite chans_objs_insert. cbn. by rewrite delete_notin. Qed.

Lemma chans_objs_close l : forall cm,
  chans_objs (foldr (fun ch m => match m !! ch with
                                 | Some st => <[ ch := Chan (ch_buf st) true ]> m
                                 | None => m
                                 end) cm l) ≡ₚ chans_objs cm.
Proof.
  induction l as [|k l IH]; intros cm; cbn; [done|].
  destruct (_ !! k) as [st|] eqn:Hk; [|apply IH].
  rewrite chans_objs_insert. rewrite <- (IH cm). rewrite (chans_objs_lookup _ k st Hk). done.
Qed.

(* an effect that spawns nothing and creates no channel: the acting process is replaced *)
Lemma alpha_effect_simple c self p p' cl o :
  α (apply_effect c self p (Eff (Continue p') [] [] cl o)) ≡ₚ
  proc_obj self p' ++ procs_objs (delete self (procs c)) ++ chans_objs (chans c).
Proof.
  unfold α, apply_effect. cbn [e_after e_spawn e_newch e_close e_out add_spawns length foldr procs chans]. rewrite procs_objs_insert, chans_objs_close.
  rewrite <- app_assoc. f_equiv. destruct p' as [pv bd nx]. cbn [pr_provs pr_body0 pr_next]. by rewrite Nat.add_0_r.
Qed.

Lemma alpha_lookup c self p : procs c !! self = Some p ->
  α c ≡ₚ proc_obj self p ++ procs_objs (delete self (procs c)) ++ chans_objs (chans c).
Proof. intros H. unfold α. rewrite (procs_objs_lookup _ _ _ H). by rewrite <- app_assoc. Qed.

Lemma labels_effect c self p e : labels (apply_effect c self p e) = labels c ++ e_out e.
Proof.
  unfold labels. rewrite apply_effect_out, map_app, rev_app_distr, map_map. cbn.
  rewrite map_id, rev_involutive. done.
Qed.

(* ------------------------------------------------------------------ the local invariant *)
Section refine.
Context (D : tenv) (F : list fundef).

(* the form at the head of a body belongs to the fragment *)
Definition head_lin (b : form) : Prop :=
  match b with FDrop _ _ | FSplit _ _ _ _ | FFwd _ _ true => False | _ => True end.
(* a buffered message can be read as an object: the channels that become providers are there *)
Definition msg_ok (m : msg) : Prop :=
  match m_rule m with
  | RRCV => is_Some (chan (m_c2 m))
  | RBRA | RSHF => is_Some (chan (m_c1 m))
  | RFWD => exists n, m_provs m = [n] /\ is_Some (chan n)
  | RGC => False
  | _ => True
  end.
Definition is_fwd (b : form) : bool := match b with FFwd _ _ _ => true | _ => false end.
(* what a cut is about to allocate is new *)
Definition cut_fresh (c : config) (self : pid) (p : proc) : Prop :=
  (self ++ [pr_next p]) ∉ cfg_cids (α c) /\ chans c !! (self ++ [pr_next p]) = None /\
  procs c !! (self ++ [S (pr_next p) + 1]%nat) = None.

(* what the next step of process p needs (consequences of Typed + Topo of C01, kept local):
   one initialised provider; head form in the fragment; a cut allocates fresh identifiers; a message
   it may receive is well formed, a FWD request only reaches a process waiting on its own channel
   that is not itself a forward, and it never receives from a closed empty channel *)
Definition step_ok (c : config) (self : pid) (p : proc) : Prop :=
  (exists n a, pr_provs p = [n] /\ chan n = Some a) /\
  head_lin (pr_body0 p) /\
  ((exists x b k, pr_body0 p = FNew x b k) -> cut_fresh c self p) /\
  (forall k st, action_of Async D p = ARecv k -> chans c !! k = Some st ->
     match ch_buf st with
     | Some m => msg_ok m /\ (m_rule m = RFWD -> self_chan p = Some k /\ is_fwd (pr_body0 p) = false)
     | None => ch_closed st = false
     end).
Definition Inv (c : config) : Prop := forall self p, procs c !! self = Some p -> step_ok c self p.

(* ------------------------------------------------------------------ one SAX step between abstractions *)
(* zero or one step of the reference semantics (linear rules only) *)
Definition sax_step01 (C : sconfig) (ls : list string) (C' : sconfig) : Prop :=
  (ls = [] /\ C ≡ₚ C') \/ sax_step F false C ls C'.

Lemma sax_step01_steps C ls C' : sax_step01 C ls C' -> sax_steps F false C ls C'.
Proof.
  intros [[-> Hp]|Hs]; [by apply sax_refl|]. rewrite <- (app_nil_r ls). eapply sax_trans; [done|by apply sax_refl].
Qed.

Lemma sax_one L R Δ ls C C' :
  C ≡ₚ L ++ Δ -> C' ≡ₚ R ++ Δ -> sred_lin F Δ L ls R -> sax_step F false C ls C'.
Proof. intros HC HC' Hr. exists L, R, Δ. split_and!; try done. by left. Qed.

Lemma refine_send c self p k st m :
  procs c !! self = Some p -> chans c !! k = Some st -> ch_buf st = None -> proc_obj self p = msg_obj k m ->
  α (del_proc (put_msg c k st (Some m)) self) ≡ₚ α c.
Proof.
  intros Hp Hk Hb Ho. unfold α. cbn. rewrite chans_objs_insert, (procs_objs_lookup _ _ _ Hp), (chans_objs_lookup _ k st Hk).
  unfold chan_obj. cbn. rewrite Hb, Ho. cbn. rewrite !app_assoc. f_equiv. apply Permutation_app_comm.
Qed.

Lemma refine_recv c self p k st m p' cl L :
  procs c !! self = Some p -> chans c !! k = Some st -> ch_buf st = Some m ->
  L ≡ₚ proc_obj self p ++ msg_obj k m ->
  sred_lin F (procs_objs (delete self (procs c)) ++ chans_objs (delete k (chans c))) L [] (proc_obj self p') ->
  sax_step F false (α c) [] (α (apply_effect (put_msg c k st None) self p (Eff (Continue p') [] [] cl []))).
Proof.
  intros Hp Hk Hb HL Hr. eapply sax_one; [| |exact Hr].
  - rewrite (alpha_lookup c self p Hp), (chans_objs_lookup _ k st Hk), HL. unfold chan_obj. rewrite Hb.
    rewrite <- !app_assoc. f_equiv. rewrite !app_assoc. f_equiv. apply Permutation_app_comm.
  - rewrite alpha_effect_simple. cbn [procs chans put_msg]. rewrite chans_objs_insert. cbn. done.
Qed.

Lemma refine_internal c self p p' o :
  procs c !! self = Some p ->
  sred_lin F (procs_objs (delete self (procs c)) ++ chans_objs (chans c)) (proc_obj self p) o (proc_obj self p') ->
  sax_step F false (α c) o (α (apply_effect c self p (Eff (Continue p') [] [] [] o))).
Proof.
  intros Hp Hr. eapply sax_one; [| |exact Hr].
  - by rewrite (alpha_lookup c self p Hp).
  - by rewrite alpha_effect_simple.
Qed.

Lemma self_ne_snoc (self : pid) x : self <> self ++ [x].
Proof. intros H. apply (f_equal length) in H. rewrite app_length in H. cbn in H. lia. Qed.

Lemma step_run_async_inv c self c' : step Async D F c (Run self) = SStep c' ->
  exists p, procs c !! self = Some p /\
  match action_of Async D p with
  | ADup => exists e, dup_effect self p = EOk e /\ c' = apply_effect c self p e
  | AInternal => exists e, internal_effect Async F self p = EOk e /\ c' = apply_effect c self p e
  | ASend k m => exists st, chans c !! k = Some st /\ ch_buf st = None /\ c' = del_proc (put_msg c k st (Some m)) self
  | ARecv k => exists st, chans c !! k = Some st /\
      match ch_buf st with
      | Some m => exists e, on_message self p m = EOk e /\ c' = apply_effect (put_msg c k st None) self p e
      | None => ch_closed st = true
      end
  | _ => False
  end.
Proof.
  unfold step. intros H. destruct (procs c !! self) as [p|]; [|done]. exists p. split; [done|].
  destruct (action_of Async D p) as [| |k m|k| |k provs|w]; try done.
  - apply eff_step_inv in H as (e & He & ->). eauto.
  - apply eff_step_inv in H as (e & He & ->). eauto.
  - destruct (chans c !! k) as [st|]; [|done]. destruct (ch_closed st); [done|].
    destruct (ch_buf st) eqn:Hb; [done|]. simplify_eq. eauto.
  - destruct (chans c !! k) as [st|]; [|done]. exists st. split; [done|].
    destruct (ch_buf st) as [m|].
    + apply eff_step_inv in H as (e & He & ->). eauto.
    + by destruct (ch_closed st).
Qed.

(* call_body is the unfolding of the definition *)
Lemma call_body_unfold fn args : call_body F fn args = unfold_call F fn args.
Proof.
  unfold call_body, unfold_call. destruct (get_function F fn (length args)) as [fd|]; [|done].
  assert (forall ps as_ b,
    (fix go (ps : list name) (as_ : list name) (b : form) {struct ps} : form :=
       match ps, as_ with p :: pr, a :: ar => go pr ar (subst p a b) | _, _ => b end) ps as_ b
    = subst_params ps as_ b) as Hgo.
  { induction ps as [|p ps IH]; intros [|a as_] b; cbn; auto. }
  cbv zeta.
  destruct (fn_explicit fd) as [ep|]; destruct (length args =? length (fn_params fd))%nat eqn:E1;
    rewrite ?Hgo; try done.
  destruct (length args =? S (length (fn_params fd)))%nat eqn:E2; [|done].
  destruct args; [cbn in E2; done|]. cbn. by rewrite ?Hgo.
Qed.

(* a FWD request reaches a (non-forward) process waiting on its own channel: identity *)
Lemma refine_fwd_request c self n a body next k st m e :
  procs c !! self = Some (Proc [n] body next) -> chan n = Some a ->
  chans c !! k = Some st -> ch_buf st = Some m -> m_rule m = RFWD -> msg_ok m ->
  self_chan (Proc [n] body next) = Some k -> is_fwd body = false ->
  (forall a', obj a' body = SProc a' body) ->
  on_message self (Proc [n] body next) m = EOk e ->
  sax_step F false (α c) [] (α (apply_effect (put_msg c k st None) self (Proc [n] body next) e)).
Proof.
  intros Hp Hn Hk Hb Hrule Hok Hself Hnf Hobj He.
  unfold msg_ok in Hok. rewrite Hrule in Hok. destruct Hok as (n' & Hprovs & [a' Hn']).
  unfold self_chan in Hself. cbn in Hself. rewrite Hn in Hself. simplify_eq.
  assert (e = Eff (Continue (set_provs_body (Proc [n] body next) (m_provs m) body)) [] [] (cids_of [n]) []) as ->.
  { unfold on_message in He. rewrite Hrule in He. cbn in He.
    assert (match body with FFwd _ _ _ => true | _ => false end = false) as Hf by (by destruct body).
    rewrite Hf in He. cbn in He. by simplify_eq. }
  eapply (refine_recv c self _ k st m _ _ [SFwd a' k; SProc k body]); try done.
  - unfold proc_obj, pobj, msg_obj. cbn. rewrite Hn, Hrule, Hprovs, Hn', Hobj. apply Permutation_swap.
  - unfold proc_obj, pobj, set_provs_body. cbn. rewrite Hprovs, Hn', Hobj.
    apply (s_id F _ a' k (SProc k body)). done.
Qed.

Lemma recv_inv c self p k c' :
  step_ok c self p -> action_of Async D p = ARecv k ->
  (exists st, chans c !! k = Some st /\
     match ch_buf st with
     | Some m => exists e, on_message self p m = EOk e /\ c' = apply_effect (put_msg c k st None) self p e
     | None => ch_closed st = true
     end) ->
  exists st m e, chans c !! k = Some st /\ ch_buf st = Some m /\ on_message self p m = EOk e /\
    c' = apply_effect (put_msg c k st None) self p e /\ msg_ok m /\
    (m_rule m = RFWD -> self_chan p = Some k /\ is_fwd (pr_body0 p) = false).
Proof.
  intros (_ & _ & _ & Hrecv) Hact (st & Hk & Hst). specialize (Hrecv k st Hact Hk).
  destruct (ch_buf st) as [m|] eqn:Hb; [|congruence].
  destruct Hst as (e & He & ->). destruct Hrecv as [Hok Hfwd]. exists st, m, e. done.
Qed.

Lemma labels_put c k st m : labels (put_msg c k st m) = labels c.
Proof. done. Qed.

Lemma find_branch_lookup l bs : find_branch l bs = lookup_branch l bs.
Proof. induction bs as [|l' y k r IH]; cbn; [done|]. by rewrite IH. Qed.

Lemma refine_cut c self n a x P Q next :
  let nc := mkName (ident x) false (pol x) (nty x) (Some (self ++ [next])) in
  procs c !! self = Some (Proc [n] (FNew x P Q) next) -> chan n = Some a ->
  cut_fresh c self (Proc [n] (FNew x P Q) next) ->
  sax_step F false (α c) []
    (α (apply_effect c self (Proc [n] (FNew x P Q) next)
          (Eff (Continue (set_body (Proc [n] (FNew x P Q) (S next)) (subst x nc Q))) [Spawn [nc] P] (cids_of [nc]) [] []))).
Proof.
  intros nc Hp Hn (Hf1 & Hf2 & Hf3). cbn in Hf1, Hf2, Hf3.
  assert (α c ≡ₚ [SProc a (FNew x P Q)] ++ procs_objs (delete self (procs c)) ++ chans_objs (chans c)) as Hc.
  { rewrite (alpha_lookup c self _ Hp). unfold proc_obj, pobj. cbn. by rewrite Hn. }
  eapply (sax_one [SProc a (FNew x P Q)] [obj (self ++ [next]) P; obj a (subst x nc Q)]); [exact Hc| |].
  - unfold α, apply_effect. cbn.
    rewrite procs_objs_insert. rewrite delete_insert_ne by apply self_ne_snoc.
    rewrite procs_objs_insert_fresh by (apply lookup_delete_None; by right).
    rewrite chans_objs_new by done.
    unfold proc_obj, pobj. cbn. rewrite Hn. cbn. apply Permutation_swap.
  - apply (s_cut F _ a x P Q nc (self ++ [next])); [done|done|].
    intros Hin. apply Hf1. unfold cfg_cids in *. by rewrite Hc.
Qed.

Lemma on_message_out self p m e : on_message self p m = EOk e -> e_out e = [].
Proof. unfold on_message. intros H. repeat case_match; simplify_eq; done. Qed.

Ltac solve_send Hstep Hp Hobj :=
  destruct Hstep as (st & Hk & Hb & ->); exists []; split;
  [left; split; [done|]; symmetry; eapply refine_send; [exact Hp|exact Hk|exact Hb|rewrite Hobj; cbn; repeat (match goal with H : _ = _ |- _ => rewrite H end); done]
  |unfold labels; cbn; by rewrite app_nil_r].

(* only the acting process needs its local conditions *)
Theorem refines_sax01_at c self c' :
  (forall p, procs c !! self = Some p -> step_ok c self p) -> step Async D F c (Run self) = SStep c' ->
  exists ls, sax_step01 (α c) ls (α c') /\ labels c' = labels c ++ ls.
Proof.
  intros HInv0 Hstep. assert (HInv : forall self0 p, self0 = self -> procs c !! self0 = Some p -> step_ok c self0 p)
    by (intros ? ? -> ?; auto).
  apply step_run_async_inv in Hstep as (p & Hp & Hstep).
  destruct (HInv self p eq_refl Hp) as ((n & a & Hprov & Hn) & Hlin & Hfresh & Hrecv).
  destruct p as [provs body next]. cbn in Hprov, Hlin, Hfresh. subst provs.
  assert (proc_obj self (Proc [n] body next) = [obj a body]) as Hobj by (unfold proc_obj, pobj; cbn; by rewrite Hn).
  pose proof (HInv self _ eq_refl Hp) as Hok.
  (* common start of the receive cases: the message, the effect, the labels *)
  assert (forall k, action_of Async D (Proc [n] body next) = ARecv k ->
    exists st m e, chans c !! k = Some st /\ ch_buf st = Some m /\
      on_message self (Proc [n] body next) m = EOk e /\
      c' = apply_effect (put_msg c k st None) self (Proc [n] body next) e /\ msg_ok m /\
      (m_rule m = RFWD -> self_chan (Proc [n] body next) = Some k /\ is_fwd body = false) /\
      labels c' = labels c ++ []) as Hrcv.
  { intros k Hact. rewrite Hact in Hstep.
    destruct (recv_inv _ _ _ _ _ Hok Hact Hstep) as (st & m & e & Hk & Hb & He & -> & Hmok & Hfwd).
    exists st, m, e. split_and!; try done.
    by rewrite labels_effect, labels_put, (on_message_out _ _ _ _ He). }
  destruct body.
  - (* send *)
    cbn in Hstep. rewrite Hn in Hstep. destruct (is_self to) eqn:Hto.
    + solve_send Hstep Hp Hobj.
    + destruct (is_self cont) eqn:Hcont; cbn in Hstep; [|done].
      destruct (chan to) as [x|] eqn:Hct; [|done]. solve_send Hstep Hp Hobj.
  - (* receive *)
    destruct (is_self from) eqn:Hfrom.
    + destruct (Hrcv a) as (st & m & e & Hk & Hb & He & -> & Hmok & Hfwd & Hlab).
      { cbn. rewrite Hfrom. unfold recv_on. cbn. by rewrite Hn. }
      exists []. split; [right|exact Hlab]. clear Hstep Hrecv Hfresh Hrcv Hlab.
      destruct (m_rule m) eqn:Hrule.
      all: try (unfold on_message in He; rewrite Hrule in He; cbn in He; rewrite ?Hfrom in He; cbn in He; discriminate).
      * (* ⊸ *)
        unfold on_message in He; rewrite Hrule in He; cbn in He; rewrite ?Hfrom in He; cbn in He. simplify_eq.
        unfold msg_ok in Hmok. rewrite Hrule in Hmok. destruct Hmok as [d Hd].
        eapply (refine_recv c self _ a st m _ [] [SProc a (FRecv pay cont from body); SMsgN a (NPair (m_c1 m) d)]); try done.
        -- rewrite Hobj. unfold msg_obj. by rewrite Hrule, Hd.
        -- unfold proc_obj, pobj, set_provs_body. cbn. rewrite Hd. by apply s_lolli.
      * destruct (Hfwd eq_refl) as [Hsc Hnf]. by eapply refine_fwd_request.
      * unfold msg_ok in Hmok. by rewrite Hrule in Hmok.
    + destruct (chan from) as [b|] eqn:Hcf.
      2:{ cbn in Hstep. rewrite Hfrom in Hstep. unfold recv_on in Hstep. by rewrite Hcf in Hstep. }
      destruct (Hrcv b) as (st & m & e & Hk & Hb & He & -> & Hmok & Hfwd & Hlab).
      { cbn. rewrite Hfrom. unfold recv_on. cbn. by rewrite Hcf. }
      exists []. split; [right|exact Hlab]. clear Hstep Hrecv Hfresh Hrcv Hlab.
      destruct (m_rule m) eqn:Hrule.
      all: try (unfold on_message in He; rewrite Hrule in He; cbn in He; rewrite ?Hfrom in He; cbn in He; discriminate).
      * (* ⊗ *)
        unfold on_message in He; rewrite Hrule in He; cbn in He; rewrite ?Hfrom in He; cbn in He. simplify_eq.
        eapply (refine_recv c self _ b st m _ [] [SMsgP b (VPair (m_c1 m) (m_c2 m)); SProc a (FRecv pay cont from body)]); try done.
        -- rewrite Hobj. unfold msg_obj. rewrite Hrule. apply Permutation_swap.
        -- unfold proc_obj, pobj, set_body. cbn. rewrite Hn. by apply s_tensor.
      * destruct (Hfwd eq_refl) as [Hsc Hnf]. by eapply refine_fwd_request.
      * unfold msg_ok in Hmok. by rewrite Hrule in Hmok.
  - (* select *)
    cbn in Hstep. rewrite Hn in Hstep. destruct (is_self to) eqn:Hto.
    + solve_send Hstep Hp Hobj.
    + destruct (is_self cont) eqn:Hcont; cbn in Hstep; [|done].
      destruct (chan to) as [x|] eqn:Hct; [|done]. solve_send Hstep Hp Hobj.
  - (* case *)
    destruct (is_self from) eqn:Hfrom.
    + destruct (Hrcv a) as (st & m & e & Hk & Hb & He & -> & Hmok & Hfwd & Hlab).
      { cbn. rewrite Hfrom. unfold recv_on. cbn. by rewrite Hn. }
      exists []. split; [right|exact Hlab]. clear Hstep Hrecv Hfresh Hrcv Hlab.
      destruct (m_rule m) eqn:Hrule.
      all: try (unfold on_message in He; rewrite Hrule in He; cbn in He; rewrite ?Hfrom in He; cbn in He; discriminate).
      * (* & *)
        unfold on_message in He; rewrite Hrule in He; cbn in He; rewrite ?Hfrom in He; cbn in He.
        destruct (find_branch (m_label m) bs) as [[y Q]|] eqn:Hbr; [|done]. simplify_eq.
        unfold msg_ok in Hmok. rewrite Hrule in Hmok. destruct Hmok as [d Hd].
        eapply (refine_recv c self _ a st m _ [] [SProc a (FCase from bs); SMsgN a (NLab (m_label m) d)]); try done.
        -- rewrite Hobj. unfold msg_obj. by rewrite Hrule, Hd.
        -- unfold proc_obj, pobj, set_provs_body. cbn. rewrite Hd. eapply s_with; [done|]. by rewrite <- find_branch_lookup.
      * destruct (Hfwd eq_refl) as [Hsc Hnf]. by eapply refine_fwd_request.
      * unfold msg_ok in Hmok. by rewrite Hrule in Hmok.
    + destruct (chan from) as [b|] eqn:Hcf.
      2:{ cbn in Hstep. rewrite Hfrom in Hstep. unfold recv_on in Hstep. by rewrite Hcf in Hstep. }
      destruct (Hrcv b) as (st & m & e & Hk & Hb & He & -> & Hmok & Hfwd & Hlab).
      { cbn. rewrite Hfrom. unfold recv_on. cbn. by rewrite Hcf. }
      exists []. split; [right|exact Hlab]. clear Hstep Hrecv Hfresh Hrcv Hlab.
      destruct (m_rule m) eqn:Hrule.
      all: try (unfold on_message in He; rewrite Hrule in He; cbn in He; rewrite ?Hfrom in He; cbn in He; discriminate).
      * (* ⊕ *)
        unfold on_message in He; rewrite Hrule in He; cbn in He; rewrite ?Hfrom in He; cbn in He.
        destruct (find_branch (m_label m) bs) as [[y Q]|] eqn:Hbr; [|done]. simplify_eq.
        eapply (refine_recv c self _ b st m _ [] [SMsgP b (VLab (m_label m) (m_c1 m)); SProc a (FCase from bs)]); try done.
        -- rewrite Hobj. unfold msg_obj. rewrite Hrule. apply Permutation_swap.
        -- unfold proc_obj, pobj, set_body. cbn. rewrite Hn. eapply s_plus; [done|done|]. by rewrite <- find_branch_lookup.
      * destruct (Hfwd eq_refl) as [Hsc Hnf]. by eapply refine_fwd_request.
      * unfold msg_ok in Hmok. by rewrite Hrule in Hmok.
  - (* cut *)
    cbn in Hstep. destruct Hstep as (e & He & ->). simplify_eq.
    exists []. split; [right|by rewrite labels_effect]. eapply refine_cut; eauto.
  - (* close *)
    cbn in Hstep. rewrite Hn in Hstep. destruct (is_self c0) eqn:Hto; [|done]. solve_send Hstep Hp Hobj.
  - (* wait *)
    destruct (is_self c0) eqn:Hfrom.
    { cbn in Hstep. by rewrite Hfrom in Hstep. }
    destruct (chan c0) as [b|] eqn:Hcf.
    2:{ cbn in Hstep. rewrite Hfrom in Hstep. unfold recv_on in Hstep. by rewrite Hcf in Hstep. }
    destruct (Hrcv b) as (st & m & e & Hk & Hb & He & -> & Hmok & Hfwd & Hlab).
    { cbn. rewrite Hfrom. unfold recv_on. cbn. by rewrite Hcf. }
    exists []. split; [right|exact Hlab]. clear Hstep Hrecv Hfresh Hrcv Hlab.
    destruct (m_rule m) eqn:Hrule.
    all: try (unfold on_message in He; rewrite Hrule in He; cbn in He; discriminate).
    + (* 1 *)
      unfold on_message in He; rewrite Hrule in He; cbn in He. simplify_eq.
      eapply (refine_recv c self _ b st m _ [] [SMsgP b VUnit; SProc a (FWait c0 body)]); try done.
      * rewrite Hobj. unfold msg_obj. rewrite Hrule. apply Permutation_swap.
      * unfold proc_obj, pobj, set_body. cbn. rewrite Hn. by apply s_one.
    + destruct (Hfwd eq_refl) as [Hsc Hnf]. by eapply refine_fwd_request.
    + unfold msg_ok in Hmok. by rewrite Hrule in Hmok.
  - (* forward *)
    destruct droppable; [done|].
    destruct (is_self to) eqn:Hto.
    2:{ cbn in Hstep. by rewrite Hto in Hstep. }
    cbn in Hstep. rewrite Hto in Hstep. cbn in Hstep.
    destruct (fwd_polarity D from) as [[| |]|w|w] eqn:Hpol; try done.
    + (* positive: passive, waits for the message and becomes its sender *)
      destruct (chan from) as [b|] eqn:Hcf; [|done].
      destruct (Hrcv b) as (st & m & e & Hk & Hb & He & -> & Hmok & Hfwd & Hlab).
      { cbn. by rewrite Hto, Hpol, Hcf. }
      exists []. split; [right|exact Hlab]. clear Hstep Hrecv Hfresh Hrcv Hlab.
      destruct (m_rule m) eqn:Hrule.
      all: try (unfold on_message in He; rewrite Hrule in He; cbn in He; discriminate).
      all: try (destruct (Hfwd eq_refl) as [_ Hnf]; done).
      all: unfold on_message in He; rewrite Hrule in He; cbn in He; simplify_eq.
      all: eapply (refine_recv c self _ b st m _ [] (SFwd a b :: msg_obj b m)); try done;
        [by rewrite Hobj; cbn; rewrite Hto, Hcf| unfold msg_obj; rewrite Hrule; unfold proc_obj, pobj, set_body; cbn; rewrite Hn; cbn; rewrite Hto].
      * by apply (s_id F _ a b (SMsgP b (VPair (m_c1 m) (m_c2 m)))).
      * by apply (s_id F _ a b (SMsgP b VUnit)).
      * by apply (s_id F _ a b (SMsgP b (VShift (m_c1 m)))).
      * by apply (s_id F _ a b (SMsgP b (VLab (m_label m) (m_c1 m)))).
    + (* negative: active, posts the request *)
      destruct (chan from) as [b|] eqn:Hcf; [|done]. solve_send Hstep Hp Hobj.
  - (* split *) done.
  - (* call *)
    cbn in Hstep. destruct Hstep as (e & He & ->).
    destruct (call_body F f args) as [b|] eqn:Hcall; [|done]. simplify_eq.
    exists []. split; [right|by rewrite labels_effect]. unfold no_eff.
    eapply refine_internal; [done|]. rewrite Hobj. unfold proc_obj, pobj, set_body. cbn. rewrite Hn.
    apply s_call. by rewrite <- call_body_unfold.
  - (* cast *)
    cbn in Hstep. rewrite Hn in Hstep. destruct (is_self to) eqn:Hto.
    + solve_send Hstep Hp Hobj.
    + destruct (is_self cont) eqn:Hcont; cbn in Hstep; [|done].
      destruct (chan to) as [x|] eqn:Hct; [|done]. solve_send Hstep Hp Hobj.
  - (* shift *)
    destruct (is_self from) eqn:Hfrom.
    + destruct (Hrcv a) as (st & m & e & Hk & Hb & He & -> & Hmok & Hfwd & Hlab).
      { cbn. rewrite Hfrom. unfold recv_on. cbn. by rewrite Hn. }
      exists []. split; [right|exact Hlab]. clear Hstep Hrecv Hfresh Hrcv Hlab.
      destruct (m_rule m) eqn:Hrule.
      all: try (unfold on_message in He; rewrite Hrule in He; cbn in He; rewrite ?Hfrom in He; cbn in He; discriminate).
      * (* ↑ *)
        unfold on_message in He; rewrite Hrule in He; cbn in He; rewrite ?Hfrom in He; cbn in He. simplify_eq.
        unfold msg_ok in Hmok. rewrite Hrule in Hmok. destruct Hmok as [d Hd].
        eapply (refine_recv c self _ a st m _ [] [SProc a (FShift x from body); SMsgN a (NShift d)]); try done.
        -- rewrite Hobj. unfold msg_obj. by rewrite Hrule, Hd.
        -- unfold proc_obj, pobj, set_provs_body. cbn. rewrite Hd. by apply s_up.
      * destruct (Hfwd eq_refl) as [Hsc Hnf]. by eapply refine_fwd_request.
      * unfold msg_ok in Hmok. by rewrite Hrule in Hmok.
    + destruct (chan from) as [b|] eqn:Hcf.
      2:{ cbn in Hstep. rewrite Hfrom in Hstep. unfold recv_on in Hstep. by rewrite Hcf in Hstep. }
      destruct (Hrcv b) as (st & m & e & Hk & Hb & He & -> & Hmok & Hfwd & Hlab).
      { cbn. rewrite Hfrom. unfold recv_on. cbn. by rewrite Hcf. }
      exists []. split; [right|exact Hlab]. clear Hstep Hrecv Hfresh Hrcv Hlab.
      destruct (m_rule m) eqn:Hrule.
      all: try (unfold on_message in He; rewrite Hrule in He; cbn in He; rewrite ?Hfrom in He; cbn in He; discriminate).
      * (* ↓ *)
        unfold on_message in He; rewrite Hrule in He; cbn in He; rewrite ?Hfrom in He; cbn in He. simplify_eq.
        eapply (refine_recv c self _ b st m _ [] [SMsgP b (VShift (m_c1 m)); SProc a (FShift x from body)]); try done.
        -- rewrite Hobj. unfold msg_obj. rewrite Hrule. apply Permutation_swap.
        -- unfold proc_obj, pobj, set_body. cbn. rewrite Hn. by apply s_down.
      * destruct (Hfwd eq_refl) as [Hsc Hnf]. by eapply refine_fwd_request.
      * unfold msg_ok in Hmok. by rewrite Hrule in Hmok.
  - (* drop *) done.
  - (* print *)
    cbn in Hstep. destruct Hstep as (e & He & ->). simplify_eq.
    exists [l]. split; [right|by rewrite labels_effect].
    eapply refine_internal; [done|]. rewrite Hobj. unfold proc_obj, pobj, set_body. cbn. rewrite Hn.
    apply s_print.
Qed.

Theorem refines_sax01 c self c' : Inv c -> step Async D F c (Run self) = SStep c' ->
  exists ls, sax_step01 (α c) ls (α c') /\ labels c' = labels c ++ ls.
Proof. intros HI. apply refines_sax01_at. intros p Hp. by apply HI. Qed.

Corollary refines_sax c self c' : Inv c -> step Async D F c (Run self) = SStep c' ->
  exists ls, sax_steps F false (α c) ls (α c') /\ labels c' = labels c ++ ls.
Proof.
  intros HI Hs. destruct (refines_sax01 c self c' HI Hs) as (ls & H01 & Hl). exists ls. split; [|done].
  by apply sax_step01_steps.
Qed.
End refine.

(* ------------------------------------------------------------------ executions *)
Lemma sax_steps_app F str C l1 C' l2 C'' :
  sax_steps F str C l1 C' -> sax_steps F str C' l2 C'' -> sax_steps F str C (l1 ++ l2) C''.
Proof.
  induction 1 as [C C' Hperm|C ls C1 ls' C2 Hstep _ IH]; intros H2.
  - cbn. destruct H2 as [C2 C3 Hperm2|C2 ls C3 ls' C4 (L & R & Δ & HC & HC' & Hr) Hrest].
    + apply sax_refl. by rewrite Hperm.
    + eapply sax_trans; [|exact Hrest]. exists L, R, Δ. split_and!; try done. by rewrite Hperm.
  - rewrite <- app_assoc. eapply sax_trans; [exact Hstep|]. by apply IH.
Qed.

Lemma async_step_run D F c ch c' : step Async D F c ch = SStep c' -> exists self, ch = Run self.
Proof. destruct ch as [self|s r|f t]; [eauto|done|done]. Qed.

(* a run along which the local invariant holds at every configuration a step is taken from *)
Inductive inv_steps (D : tenv) (F : list fundef) : config -> config -> Prop :=
| inv_steps_nil c : inv_steps D F c c
| inv_steps_cons c ch c' c'' :
    Inv D c -> step Async D F c ch = SStep c' -> inv_steps D F c' c'' -> inv_steps D F c c''.

Theorem refines_sax_run D F c c' : inv_steps D F c c' ->
  exists ls, sax_steps F false (α c) ls (α c') /\ labels c' = labels c ++ ls.
Proof.
  induction 1 as [c|c ch c' c'' HI Hstep _ (ls2 & Hs2 & Hl2)].
  - exists []. split; [by apply sax_refl|by rewrite app_nil_r].
  - destruct (async_step_run D F c ch c' Hstep) as [self ->].
    destruct (refines_sax D F c self c' HI Hstep) as (ls1 & Hs1 & Hl1).
    exists (ls1 ++ ls2). split; [by eapply sax_steps_app|]. by rewrite Hl2, Hl1, app_assoc.
Qed.

(* ------------------------------------------------------------------ the initial configuration *)
Lemma sax_steps_perm F str C0 C ls C' : C0 ≡ₚ C -> sax_steps F str C ls C' -> sax_steps F str C0 ls C'.
Proof.
  intros Hp H. destruct H as [C C' Hperm|C ls C1 ls' C2 (L & R & Δ & HC & HC' & Hr) Hrest].
  - apply sax_refl. by rewrite Hp.
  - eapply sax_trans; [|exact Hrest]. exists L, R, Δ. split_and!; try done. by rewrite Hp.
Qed.

Lemma fold_left_insert_to_list {B} (f : gmap pid proc -> B -> gmap pid proc) (key : B -> pid) (val : B -> proc) :
  (forall m x, f m x = <[key x := val x]> m) ->
  forall L m0, NoDup (map key L) -> (forall x, In x L -> m0 !! key x = None) ->
  map_to_list (fold_left f L m0) ≡ₚ map (fun x => (key x, val x)) L ++ map_to_list m0.
Proof.
  intros Hf. induction L as [|a L IH]; intros m0 Hnd Hfresh; cbn; [done|].
  cbn in Hnd. apply NoDup_cons_iff in Hnd as [Hna Hnd].
  rewrite IH; [|done|].
  - rewrite Hf, map_to_list_insert by (apply Hfresh; by left). by rewrite Permutation_middle.
  - intros x Hx. rewrite Hf. rewrite lookup_insert_ne; [apply Hfresh; by right|].
    intros Heq. apply Hna. rewrite Heq. by apply in_map.
Qed.

Lemma chans_objs_empty cm : (forall k st, cm !! k = Some st -> ch_buf st = None) -> chans_objs cm = [].
Proof.
  intros H. unfold chans_objs.
  assert (forall l : list (cid * chan_st), (forall x, In x l -> ch_buf (snd x) = None) ->
            flat_map (fun x => chan_obj (fst x) (snd x)) l = []) as Hl.
  { induction l as [|x l IH]; intros Hx; cbn; [done|]. rewrite IH by (intros; apply Hx; by right).
    unfold chan_obj. by rewrite (Hx x (or_introl eq_refl)). }
  apply Hl. intros [k st] Hin. apply elem_of_list_In, elem_of_map_to_list in Hin. by eapply H.
Qed.

Lemma map_fst_imap_pair {A} (l : list A) : forall k,
  map fst (imap (fun i x => ((k + i)%nat, x)) l) = seq k (length l).
Proof.
  induction l as [|a l IH]; intros k; cbn; [done|]. rewrite Nat.add_0_r. f_equal.
  rewrite <- (IH (S k)). f_equal. apply imap_ext. intros i x _. cbn. f_equal. lia.
Qed.

Lemma combine_lookup_2 {A B} (l1 : list A) (l2 : list B) i a b :
  l1 !! i = Some a -> l2 !! i = Some b -> combine l1 l2 !! i = Some (a, b).
Proof.
  revert l2 i. induction l1 as [|x l1 IH]; intros [|y l2] [|i]; cbn; try done.
  - by intros [= ->] [= ->].
  - apply IH.
Qed.

(* the process table of the initial configuration, as a list *)
Lemma init_procs_list (p : program) :
  let inits := imap (fun i pr => init_provs i (pr_providers pr)) (p_procs p) in
  let bodyf := fun pr : procdef => fold_left (fun b '(old, new) => subst old new b) (concat inits) (pr_body pr) in
  map_to_list (procs (init_config p)) ≡ₚ
  map (fun x : nat * (procdef * list (name * name)) =>
         ([fst x], Proc (map snd (snd (snd x))) (bodyf (fst (snd x))) (length (snd (snd x)))))
      (imap (fun i x => (i, x)) (combine (p_procs p) inits)).
Proof.
  intros inits bodyf. unfold init_config. cbn [procs]. fold inits.
  rewrite (fold_left_insert_to_list _ (fun x => [fst x])
             (fun x => Proc (map snd (snd (snd x))) (bodyf (fst (snd x))) (length (snd (snd x))))).
  - by rewrite map_to_list_empty, app_nil_r.
  - by intros m [i [pr ini]].
  - rewrite <- (map_map fst (fun i : nat => [i])). apply FinFun.Injective_map_NoDup; [by intros x y [= ->]|].
    rewrite (map_fst_imap_pair _ 0). apply seq_NoDup.
  - intros x _. apply lookup_empty.
Qed.

(* one provider per process in the initial configuration = one provider name per declaration *)
Lemma init_single (p : program) :
  (forall q pr, procs (init_config p) !! q = Some pr -> exists n, pr_provs pr = [n]) ->
  Forall (fun pr => exists x, pr_providers pr = [x]) (p_procs p).
Proof.
  intros Hs. apply Forall_forall. intros pr Hin. apply elem_of_list_In, elem_of_list_lookup in Hin as [i Hi].
  pose proof (init_procs_list p) as Hl. cbn zeta in Hl.
  set (inits := imap (fun i pr => init_provs i (pr_providers pr)) (p_procs p)) in *.
  assert (combine (p_procs p) inits !! i = Some (pr, init_provs i (pr_providers pr))) as Hc.
  { apply combine_lookup_2; [done|]. unfold inits. by rewrite list_lookup_imap, Hi. }
  pose proof (elem_of_lookup_imap_2 (fun i x => (i, x)) _ _ _ Hc) as Hx.
  match type of Hl with _ ≡ₚ map ?g _ => pose proof (elem_of_list_fmap_1 g _ _ Hx) as Hy end.
  change (list_fmap _ _ ?g ?l) with (map g l) in Hy. rewrite <- Hl in Hy. cbn in Hy.
  apply elem_of_map_to_list in Hy. destruct (Hs _ _ Hy) as [n Hn]. cbn in Hn.
  apply (f_equal length) in Hn. rewrite map_length in Hn. unfold init_provs in Hn. rewrite imap_length in Hn. cbn in Hn.
  destruct (pr_providers pr) as [|x [|y r]]; try done. eauto.
Qed.

(* the process objects of the initial configuration, in declaration order *)
Lemma init_objs_aux (p : program) (bodyf : procdef -> form) : forall (l : list procdef) (k : nat),
  Forall (fun pr => exists x, pr_providers pr = [x]) l ->
  flat_map (fun x : nat * (procdef * list (name * name)) =>
              proc_obj [fst x] (Proc (map snd (snd (snd x))) (bodyf (fst (snd x))) (length (snd (snd x)))))
           (imap (fun i x => ((k + i)%nat, x))
                 (combine l (imap (fun i pr => init_provs (k + i) (pr_providers pr)) l))) =
  concat (imap (fun i pr => match pr_providers pr with
                            | [_] => [obj [(k + i)%nat; 0%nat] (bodyf pr)]
                            | _ => []
                            end) l).
Proof.
  induction l as [|pr l IH]; intros k Hall; cbn; [done|]. apply Forall_cons_iff in Hall as [[x Hx] Hall]. f_equal.
  - unfold proc_obj, pobj. cbn. rewrite Hx. cbn. done.
  - etransitivity; [|etransitivity; [apply (IH (S k) Hall)|]].
    + f_equal. etransitivity; [apply imap_ext|f_equal; f_equal; apply imap_ext].
      * intros i y _. cbn. f_equal. lia.
      * intros i y _. cbn. f_equal. lia.
    + f_equal. apply imap_ext. intros i y _. cbn. by replace (S (k + i)) with (k + S i)%nat by lia.
Qed.

(* for configurations with one provider per process (every fragment the refinement is proved for) *)
Theorem alpha_init (p : program) :
  (forall q pr, procs (init_config p) !! q = Some pr -> exists n, pr_provs pr = [n]) ->
  α (init_config p) ≡ₚ sax_init p.
Proof.
  intros Hs. pose proof (init_single p Hs) as Hall.
  unfold α. rewrite (chans_objs_empty (chans (init_config p))), app_nil_r.
  2:{ intros k st Hk. destruct (init_causal_inv p) as [Hb _]. specialize (Hb k).
      unfold buf, bufm in Hb. by rewrite Hk in Hb. }
  unfold procs_objs. rewrite (init_procs_list p). cbn zeta.
  set (inits := imap (fun i pr => init_provs i (pr_providers pr)) (p_procs p)).
  set (bodyf := fun pr : procdef => fold_left (fun b '(old, new) => subst old new b) (concat inits) (pr_body pr)).
  rewrite flat_map_concat_map, map_map, <- flat_map_concat_map. cbn [fst snd].
  exact (eq_ind _ (fun x => x ≡ₚ _) (reflexivity _) _ (eq_sym (init_objs_aux p bodyf (p_procs p) 0 Hall))).
Qed.

(* ---- with preservation of Inv as a hypothesis (it follows from Typed + Topo, C01) ---- *)
Section with_preservation.
Context (D : tenv) (F : list fundef).
Context (Inv_preserved : forall c ch c', Inv D c -> step Async D F c ch = SStep c' -> Inv D c').

Lemma steps_inv_steps c tr c' : Inv D c -> steps Async D F c tr c' -> inv_steps D F c c'.
Proof.
  intros HI Hs. induction Hs as [c|c ch c' tr c'' Hstep _ IH]; [constructor|].
  econstructor; [done|done|]. apply IH. by eapply Inv_preserved.
Qed.

(* every label sequence printed by a run of the model from p's initial configuration is printed by
   an execution of the reference semantics from the program's own SAX initial configuration *)
Theorem prints_admitted_partial (p : program) fuel pick :
  Inv D (init_config p) ->
  exists C', sax_steps F false (sax_init p)
               (labels (res_config (exec_run fuel pick Async D F (init_config p)))) C'.
Proof.
  intros HI. rewrite <- (exec_trace_exec_run Async D F fuel pick (init_config p) []).
  destruct (exec_trace fuel pick Async D F (init_config p) []) as [r tr] eqn:Htr. cbn [fst].
  apply exec_trace_run in Htr as (es & _ & Hrun).
  destruct (refines_sax_run D F _ _ (steps_inv_steps _ _ _ HI Hrun)) as (ls & Hs & Hl).
  exists (α (res_config r)). rewrite Hl. change (labels (init_config p)) with (@nil string). cbn.
  eapply sax_steps_perm; [symmetry; apply alpha_init|done].
  intros q pr Hq. destruct (HI q pr Hq) as ((n & a & Hn & _) & _). eauto.
Qed.
End with_preservation.

(* ------------------------------------------------------------------ a checker for Inv *)
Definition is_some {A} (o : option A) : bool := match o with Some _ => true | None => false end.
Definition head_lin_b (b : form) : bool :=
  match b with FDrop _ _ | FSplit _ _ _ _ | FFwd _ _ true => false | _ => true end.
Definition msg_ok_b (m : msg) : bool :=
  match m_rule m with
  | RRCV => is_some (chan (m_c2 m))
  | RBRA | RSHF => is_some (chan (m_c1 m))
  | RFWD => match m_provs m with [n] => is_some (chan n) | _ => false end
  | RGC => false
  | _ => true
  end.
Definition cut_fresh_b (c : config) (self : pid) (p : proc) : bool :=
  negb (existsb (cid_eqb (self ++ [pr_next p])) (cfg_cids (α c))) &&
  negb (is_some (chans c !! (self ++ [pr_next p]))) &&
  negb (is_some (procs c !! (self ++ [S (pr_next p) + 1]%nat))).
Definition step_ok_b (D : tenv) (c : config) (self : pid) (p : proc) : bool :=
  match pr_provs p with [n] => is_some (chan n) | _ => false end &&
  head_lin_b (pr_body0 p) &&
  match pr_body0 p with FNew _ _ _ => cut_fresh_b c self p | _ => true end &&
  match action_of Async D p with
  | ARecv k =>
    match chans c !! k with
    | Some st =>
      match ch_buf st with
      | Some m => msg_ok_b m &&
                  match m_rule m with
                  | RFWD => match self_chan p with Some k' => cid_eqb k' k | None => false end && negb (is_fwd (pr_body0 p))
                  | _ => true
                  end
      | None => negb (ch_closed st)
      end
    | None => true
    end
  | _ => true
  end.
Definition inv_b (D : tenv) (c : config) : bool :=
  forallb (fun x => step_ok_b D c (fst x) (snd x)) (map_to_list (procs c)).

Lemma cid_eqb_eq a b : cid_eqb a b = true <-> a = b.
Proof. unfold cid_eqb. destruct (list_eq_dec Nat.eq_dec a b); split; congruence. Qed.

Lemma is_some_spec {A} (o : option A) : is_some o = true <-> is_Some o.
Proof. destruct o; cbn; split; intros H; try done; eauto. by destruct H. Qed.

Lemma step_ok_b_sound D c self p : step_ok_b D c self p = true -> step_ok D c self p.
Proof.
  unfold step_ok_b. intros H. apply andb_prop in H as [H H4]. apply andb_prop in H as [H H3].
  apply andb_prop in H as [H1 H2]. split_and!.
  - destruct (pr_provs p) as [|n [|]]; try done. apply is_some_spec in H1 as [a Ha]. eauto.
  - destruct (pr_body0 p); try done. by destruct droppable.
  - intros (x & b & k & Hb). rewrite Hb in H3. unfold cut_fresh_b in H3.
    apply andb_prop in H3 as [H3 Hc]. apply andb_prop in H3 as [Ha Hb']. split_and!.
    + intros Hin. apply negb_true_iff in Ha. apply not_true_iff_false in Ha. apply Ha.
      apply existsb_exists. exists (self ++ [pr_next p]). split; [by apply elem_of_list_In|by apply cid_eqb_eq].
    + apply negb_true_iff in Hb'. by destruct (chans c !! _).
    + apply negb_true_iff in Hc. by destruct (procs c !! _).
  - intros k st Hact Hk. rewrite Hact, Hk in H4. destruct (ch_buf st) as [m|].
    + apply andb_prop in H4 as [Hm Hf]. split.
      * unfold msg_ok_b in Hm. unfold msg_ok. destruct (m_rule m); try done; try by apply is_some_spec.
        destruct (m_provs m) as [|n [|]]; try done. exists n. split; [done|by apply is_some_spec].
      * intros Hr. rewrite Hr in Hf. apply andb_prop in Hf as [Hs Hnf].
        destruct (self_chan p) as [k'|]; [|done]. apply cid_eqb_eq in Hs as ->. split; [done|].
        by apply negb_true_iff in Hnf.
    + by apply negb_true_iff in H4.
Qed.

Lemma inv_b_sound D c : inv_b D c = true -> Inv D c.
Proof.
  unfold inv_b. intros H self p Hp. rewrite forallb_forall in H.
  apply step_ok_b_sound. apply (H (self, p)). by apply elem_of_list_In, elem_of_map_to_list.
Qed.

(* the run of the model, with the invariant CHECKED at every configuration a step is taken from
   (None: the check failed somewhere) *)
Fixpoint exec_checked (fuel : nat) (pick : nat -> nat -> nat) (D : tenv) (F : list fundef) (c : config) : option run_res :=
  match fuel with
  | O => Some (ROutOfFuel c)
  | S f =>
    match enabled Async D F c with
    | [] => Some (RQuiescent c)
    | e0 :: es =>
      let n := S (length es) in
      let ch := nth (pick fuel n mod n) (e0 :: es) e0 in
      match step Async D F c ch with
      | SStep c' => if inv_b D c then exec_checked f pick D F c' else None
      | SError who w => Some (RError c who w)
      | SNotEnabled => Some (RQuiescent c)
      end
    end
  end.

(* no hypothesis: whenever the checked run succeeds it is the model's run, and its labels are
   printed by an execution of the reference semantics *)
Theorem prints_admitted_checked fuel pick D F : forall c r,
  exec_checked fuel pick D F c = Some r ->
  exec_run fuel pick Async D F c = r /\
  exists ls, sax_steps F false (α c) ls (α (res_config r)) /\ labels (res_config r) = labels c ++ ls.
Proof.
  induction fuel as [|f IH]; intros c r H; cbn in H.
  - simplify_eq. split; [done|]. exists []. split; [by apply sax_refl|by rewrite app_nil_r].
  - cbn [exec_run]. destruct (enabled Async D F c) as [|e0 es].
    { simplify_eq. split; [done|]. exists []. split; [by apply sax_refl|by rewrite app_nil_r]. }
    destruct (step Async D F c _) as [|c'|who w] eqn:Hstep.
    + simplify_eq. split; [done|]. exists []. split; [by apply sax_refl|by rewrite app_nil_r].
    + destruct (inv_b D c) eqn:HI; [|done]. apply inv_b_sound in HI.
      destruct (IH _ _ H) as (Hrun & ls2 & Hs2 & Hl2). split; [done|].
      destruct (async_step_run D F c _ c' Hstep) as [self Hch]. rewrite Hch in Hstep.
      destruct (refines_sax D F c self c' HI Hstep) as (ls1 & Hs1 & Hl1).
      exists (ls1 ++ ls2). split; [by eapply sax_steps_app|]. by rewrite Hl2, Hl1, app_assoc.
    + simplify_eq. split; [done|]. exists []. split; [by apply sax_refl|by rewrite app_nil_r].
Qed.

(* one provider per process, decided *)
Definition single_cfg_b (c : config) : bool :=
  forallb (fun x : pid * proc => match pr_provs (snd x) with [_] => true | _ => false end) (map_to_list (procs c)).
Lemma single_cfg_b_sound c : single_cfg_b c = true ->
  forall q pr, procs c !! q = Some pr -> exists n, pr_provs pr = [n].
Proof.
  unfold single_cfg_b. rewrite forallb_forall. intros H q pr Hq.
  specialize (H (q, pr)). cbn in H. destruct (pr_provs pr) as [|n [|]]; eauto; discriminate H; by apply elem_of_list_In, elem_of_map_to_list.
Qed.

(* from the initial configuration of a program: the SAX execution starts from Sax.sax_init *)
Corollary prints_admitted_checked_init fuel pick (p : program) r :
  single_cfg_b (init_config p) = true ->
  exec_checked fuel pick (p_types p) (p_funs p) (init_config p) = Some r ->
  exec_run fuel pick Async (p_types p) (p_funs p) (init_config p) = r /\
  sax_steps (p_funs p) false (sax_init p) (labels (res_config r)) (α (res_config r)).
Proof.
  intros Hsg H. destruct (prints_admitted_checked _ _ _ _ _ _ H) as (Hr & ls & Hs & Hl). split; [done|].
  rewrite Hl. change (labels (init_config p)) with (@nil string). cbn.
  eapply sax_steps_perm; [symmetry; apply alpha_init; by apply single_cfg_b_sound|done].
Qed.

(* ------------------------------------------------------------------ the full statement aimed at *)
Fixpoint lin_form (f : form) : bool :=
  match f with
  | FRecv _ _ _ k | FWait _ k | FShift _ _ k | FPrint _ k => lin_form k
  | FCase _ bs => lin_brs bs
  | FNew _ b k => lin_form b && lin_form k
  | FFwd _ _ d => negb d
  | FSplit _ _ _ _ | FDrop _ _ => false
  | _ => true
  end
with lin_brs (b : branches) : bool :=
  match b with BrNil => true | BrCons _ _ k r => lin_form k && lin_brs r end.
(* a program of the linear connective fragment: no drop, no split, no multi-provider declaration *)
Definition linear_program (p : program) : bool :=
  forallb (fun pr => match pr_providers pr with [_] => lin_form (pr_body pr) | _ => false end) (p_procs p) &&
  forallb (fun fd => lin_form (fn_body fd)) (p_funs p).

(* FULL STATEMENT (not proved in this generality): for every accepted program of the linear fragment,
   every run of the Async model prints a label sequence that an execution of Sax.v from the
   program's own SAX initial configuration prints.
   Proved: `refines_sax` (one step, under Inv), `refines_sax_run`, `prints_admitted_partial`
   (with Inv's preservation as hypothesis), `prints_admitted_checked` (Inv checked along the run).
   and, in proofs/SaxInv.v, the structural part of Inv as an inductive invariant (`ginv`: one initialised
   provider, bodies and definitions in the fragment, well-formed buffered messages, identifiers below
   the per-process counters; `ginv_init`, `ginv_step`, `ginv_Inv`) and `prints_admitted_residue`.
   Missing for the full statement: the residue `SaxInv.tres` of the configuration typing at reachable
   configurations of an accepted program (a FWD request only reaches a non-forward process waiting
   on its own channel; nobody receives from a closed empty channel) — consequences of C01's Typed +
   Topo; and that parsed programs contain no channel constants (`SaxInv.no_cids`, decidable per
   program).  (α (init_config p) ≡ₚ sax_init p is proved: alpha_init.) *)
Definition prints_admitted_stmt : Prop :=
  forall p p', TcTop.typecheck p = TcTop.Accept p' -> linear_program p' = true ->
  forall fuel pick, exists C',
    sax_steps (p_funs p') false (sax_init p')
      (labels (res_config (exec_run fuel pick Async (p_types p') (p_funs p') (init_config p')))) C'.
