(* proofs/RenameKeys.v — C14: the hypothesis `Hkey` of RenameTypes.v / RenameTc.v (EqualType's PRINTED
   memo keys of renamed types collide exactly when the original keys do) holds for types whose names
   and labels are LABEL lexemes before and after the renaming, whose modes are proper and whose
   choices are non-empty — because printing is injective there up to the modes it does not print
   (C15: PrintProofs.print_injective) and the renaming is injective on types. *)
Require Import Grits.Base Grits.ModeDefs Grits.Modes Grits.STypes Grits.Infer Grits.Print Grits.Scan Grits.Equal Grits.EqualWF.
Require Grits.TcDeps.
Require Import Grits.proofs.StrLemmas Grits.proofs.EqualBridge Grits.proofs.PrintProofs
               Grits.spec.Rename Grits.proofs.RenameTypes.

Section Keys.
Variable r : renaming.
Hypothesis Ht : injective (rt r).
Hypothesis Hl : injective (rl r).
Notation rs := (rn_sty r).
Notation rb := (rn_brs r).

(* names that are lexemes and stay lexemes *)
Definition lexT (x : string) : Prop := ident_ok x = true /\ ident_ok (rt r x) = true.
Definition lexL (x : string) : Prop := ident_ok x = true /\ ident_ok (rl r x) = true.
Notation okl := (okt lexT lexL pm True).
Notation oklb := (okbrs lexT lexL pm True).

Lemma okl_facts :
  (forall t, okl t -> syn_ok t = true /\ modes_wf t = true /\ syn_ok (rs t) = true /\ modes_wf (rs t) = true) /\
  (forall b, oklb b -> syn_ok_brs b = true /\ modes_wf_brs b = true /\ syn_ok_brs (rb b) = true /\ modes_wf_brs (rb b) = true).
Proof.
  apply sty_brs_ind; intros; cbn [okt okbrs syn_ok syn_ok_brs modes_wf modes_wf_brs rn_sty rn_brs] in *; unfold pm, lexT, lexL in *;
    repeat match goal with
    | H : _ /\ _ |- _ => destruct H
    | H : ?P -> _, H' : ?P |- _ => specialize (H H')
    end;
    rewrite ?(brs_len_rn r), ?andb_true_iff, ?negb_true_iff, ?Nat.eqb_neq; repeat split; auto.
Qed.
Lemma okl_top t : okl t -> proper (mode_of t) = true.
Proof. destruct t; cbn [okt mode_of]; unfold pm; tauto. Qed.

Lemma norm_rn :
  (forall t m, norm m (rs t) = rs (norm m t)) /\ (forall b m, norm_brs m (rb b) = rb (norm_brs m b)).
Proof. apply sty_brs_ind; intros; cbn [norm norm_brs rn_sty rn_brs]; rewrite ?H, ?H0; reflexivity. Qed.

Lemma rn_sty_inj :
  (forall s t, rs s = rs t -> s = t) /\ (forall b c, rb b = rb c -> b = c).
Proof.
  apply sty_brs_ind; intros; match goal with H : _ = rn_sty r ?t |- _ => destruct t | H : _ = rn_brs r ?c |- _ => destruct c end;
    cbn [rn_sty rn_brs] in *; try discriminate;
    match goal with H : _ = _ |- _ => inversion H; subst end; f_equal; auto.
Qed.

(* what a key determines *)
Lemma key_parts s t s' t' :
  syn_ok s = true -> modes_wf s = true -> proper (mode_of s) = true ->
  syn_ok t = true -> modes_wf t = true -> proper (mode_of t) = true ->
  syn_ok s' = true -> modes_wf s' = true -> proper (mode_of s') = true ->
  syn_ok t' = true -> modes_wf t' = true -> proper (mode_of t') = true ->
  memo_key s t = memo_key s' t' ->
  print_type s = print_type s' /\ mode_of s = mode_of s' /\ print_type t = print_type t' /\ mode_of t = mode_of t'.
Proof.
  intros S1 S2 S3 T1 T2 T3 S1' S2' S3' T1' T2' T3' Hk. unfold memo_key in Hk.
  destruct (mode_nb _ S3) as [Ns Ls]. destruct (mode_nb _ S3') as [Ns' Ls'].
  destruct (mode_nb _ T3) as [Nt Lt]. destruct (mode_nb _ T3') as [Nt' Lt'].
  rewrite <- (app_assoc_s (print_type s)), <- (app_assoc_s (print_type s')) in Hk.
  apply split_bar in Hk; [| rewrite all_chars_app, (proj1 print_nb s S1 S2), Ns; reflexivity
                           | rewrite all_chars_app, (proj1 print_nb s' S1' S2'), Ns'; reflexivity].
  destruct Hk as [H1 H2].
  apply app_inj_len_r in H1; [|congruence]. apply app_inj_len_r in H2; [|congruence].
  destruct H1 as [P1 M1]. destruct H2 as [P2 M2].
  apply mode_short_inj in M1; auto. apply mode_short_inj in M2; auto.
Qed.

Lemma print_norm t m : print_type (norm m t) = print_type t.
Proof. apply (proj1 norm_facts t m). Qed.

Theorem key_faithful_lex : forall s t s' t', okl s -> okl t -> okl s' -> okl t' ->
  (TcDeps.eq_key (rs s) (rs t) = TcDeps.eq_key (rs s') (rs t') <-> TcDeps.eq_key s t = TcDeps.eq_key s' t').
Proof.
  intros s t s' t' Hs Ht0 Hs' Ht'. rewrite !key_agree.
  destruct (proj1 okl_facts s Hs) as (A1 & A2 & A3 & A4). destruct (proj1 okl_facts t Ht0) as (B1 & B2 & B3 & B4).
  destruct (proj1 okl_facts s' Hs') as (A1' & A2' & A3' & A4'). destruct (proj1 okl_facts t' Ht') as (B1' & B2' & B3' & B4').
  pose proof (okl_top _ Hs) as As. pose proof (okl_top _ Ht0) as Bs.
  pose proof (okl_top _ Hs') as As'. pose proof (okl_top _ Ht') as Bs'.
  split; intros Hk.
  - (* renamed keys equal -> original keys equal *)
    apply key_parts in Hk; rewrite ?(mode_of_rn r); auto.
    destruct Hk as (P1 & M1 & P2 & M2). rewrite !(mode_of_rn r) in M1, M2.
    apply (print_injective _ _ Rep A3 A4 A3' A4') in P1. apply (print_injective _ _ Rep B3 B4 B3' B4') in P2.
    rewrite !(proj1 norm_rn) in P1, P2. apply (proj1 rn_sty_inj) in P1. apply (proj1 rn_sty_inj) in P2.
    unfold memo_key. rewrite <- (print_norm s Rep), <- (print_norm s' Rep), <- (print_norm t Rep), <- (print_norm t' Rep).
    now rewrite P1, P2, M1, M2.
  - apply key_parts in Hk; auto.
    destruct Hk as (P1 & M1 & P2 & M2).
    apply (print_injective _ _ Rep A1 A2 A1' A2') in P1. apply (print_injective _ _ Rep B1 B2 B1' B2') in P2.
    unfold memo_key. rewrite !(mode_of_rn r).
    rewrite <- (print_norm (rs s) Rep), <- (print_norm (rs s') Rep), <- (print_norm (rs t) Rep), <- (print_norm (rs t') Rep).
    rewrite !(proj1 norm_rn). now rewrite P1, P2, M1, M2.
Qed.
End Keys.
