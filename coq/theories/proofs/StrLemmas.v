(* StrLemmas.v — elementary facts about string concatenation. *)
Require Import Grits.Base.

Lemma app_assoc_s (a b c : string) : (a ^^ b) ^^ c = a ^^ (b ^^ c).
Proof. induction a; cbn; [reflexivity | rewrite IHa; reflexivity]. Qed.
Lemma app_nil_r_s (a : string) : a ^^ "" = a.
Proof. induction a; cbn; [reflexivity | rewrite IHa; reflexivity]. Qed.
Lemma app_length_s (a b : string) : String.length (a ^^ b) = String.length a + String.length b.
Proof. induction a; cbn; [reflexivity | rewrite IHa; reflexivity]. Qed.
Lemma app_inv_head_s (a b c : string) : a ^^ b = a ^^ c -> b = c.
Proof. induction a; cbn; intros H; [exact H | inversion H; auto]. Qed.
(* equal-length prefixes split uniquely *)
Lemma app_inj_len (a a' b b' : string) :
  String.length a = String.length a' -> a ^^ b = a' ^^ b' -> a = a' /\ b = b'.
Proof.
  revert a'. induction a as [|c a IH]; intros [|c' a'] Hl H; cbn in *; try discriminate.
  - auto.
  - inversion H; subst. destruct (IH a') as [-> ->]; auto.
Qed.
Lemma app_inj_len_r (a a' b b' : string) :
  String.length b = String.length b' -> a ^^ b = a' ^^ b' -> a = a' /\ b = b'.
Proof.
  intros Hl H. apply app_inj_len; [|exact H].
  apply (f_equal String.length) in H. rewrite !app_length_s in H. lia.
Qed.
