(* proofs/TypingSoundTop.v — C07, soundness at the level of programs:
   typecheck p = Accept p'  ->  ProgOK p. *)
Require Import Grits.Base Grits.ModeDefs Grits.Modes Grits.STypes Grits.Forms Grits.Subst Grits.Infer
               Grits.TcDeps Grits.Expand Grits.Tc Grits.TcTop Grits.spec.Typing Grits.proofs.TcLemmas
               Grits.proofs.TcUnfold Grits.proofs.UseMap Grits.proofs.TypingSound.

Definition has_ty (n : name) : bool := match nty n with Some _ => true | None => false end.

Definition fun_sig_ok (D : tenv) (f : fundef) : Prop :=
  NoDup (map ident (fn_params f)) /\ Forall (typed_name_ok D) (fn_params f) /\
  exists t, fn_type f = Some t /\ check_wf D t = true /\
    (forall p tp, In p (fn_params f) -> nty p = Some tp -> down (mode_of tp) (mode_of t) = true).

Definition proc_sig_ok (D : tenv) (p : procdef) : Prop :=
  exists t, pr_type p = Some t /\ check_wf D t = true /\
    ((1 < length (pr_providers p))%nat -> contr (mode_of t) = true).

Definition uses_of (ps : list procdef) : list string := flat_map (fun p => map ident (proc_uses p)) ps.

(* ---------------------------------------------------------------- elaboration of names *)
Lemma elab_name_facts D n n' : elab_name D n n' -> ident n' = ident n /\ exists t', nty n' = Some t'.
Proof. intros [t [t' [E1 [E2 ->]]]]. cbn. eauto. Qed.
Lemma elab_names_idents D ns ns' : Forall2 (elab_name D) ns ns' -> map ident ns' = map ident ns.
Proof. induction 1 as [|n n' r r' E _ IH]; cbn; auto. destruct (elab_name_facts _ _ _ E) as [-> _]. now rewrite IH. Qed.

Lemma amn_sound D : forall ns ns', forallb has_ty ns = true -> add_missing_names D ns = TOk ns' ->
  Forall2 (elab_name D) ns ns'.
Proof.
  induction ns as [|n r IH]; intros ns' T H; cbn [add_missing_names] in H.
  - inversion H. constructor.
  - cbn in T. apply andb_true_iff in T. destruct T as [Tn Tr].
    step H. step H. inversion H; subst. constructor; auto.
    unfold has_ty in Tn. destruct (nty n) as [t|] eqn:Nn; [|discriminate Tn].
    cbn in E. destruct (add_missing D t) as [t'| |] eqn:AM; cbn in E; try discriminate E.
    inversion E; subst. exists t, t'. auto.
Qed.

Lemma types_of_wf D ns : forallb (check_wf D) (types_of ns) = true ->
  (forall n, In n ns -> exists t, nty n = Some t) -> Forall (typed_name_ok D) ns.
Proof.
  intros F T. apply Forall_forall. intros n Hn. destruct (T _ Hn) as [t Nt]. exists t. split; auto.
  rewrite forallb_forall in F. apply F. unfold types_of. apply in_flat_map. exists n. split; auto.
  rewrite Nt. now left.
Qed.
Lemma elab_names_typed D ns ns' : Forall2 (elab_name D) ns ns' -> forall n, In n ns' -> exists t, nty n = Some t.
Proof.
  induction 1 as [|n n' r r' E _ IH]; cbn; [tauto|]. intros m [<-|H]; auto.
  destruct (elab_name_facts _ _ _ E) as [_ T]. exact T.
Qed.

Lemma indep_all_list l h : indep_all l (Some h) = TOk tt ->
  forall t, In (Some t) l -> down (mode_of t) (mode_of h) = true.
Proof.
  induction l as [|x r IH]; cbn [indep_all]; intros H t Hin; [destruct Hin|].
  step H. destruct Hin as [->|Hin]; [now apply indep_one_sound|auto].
Qed.

(* ---------------------------------------------------------------- functions *)
Lemma elab_funs_names D fs fs' : Forall2 (elab_fun D) fs fs' -> map fn_name fs' = map fn_name fs.
Proof.
  induction 1 as [|f f' r r' E _ IH]; cbn; auto.
  destruct E as [t [t' [ps' [_ [_ [_ ->]]]]]]. cbn. now rewrite IH.
Qed.

Lemma prelim_funs_sound D : forall fs seen fs', prelim_funs D fs seen = TOk fs' ->
  Forall2 (elab_fun D) fs fs' /\ Forall (fun_sig_ok D) fs' /\
  NoDup (map fn_name fs) /\ (forall x, In x (map fn_name fs) -> ~ In x seen).
Proof.
  induction fs as [|f r IH]; intros seen fs' H; cbn [prelim_funs] in H.
  - inversion H. repeat split; cbn; auto; try constructor; try tauto.
  - step H. apply negb_true_iff, str_mem_false in G.
    step H. destruct (fn_type f) as [t|] eqn:Ft; [|discriminate G0]. clear G0.
    step H. step H. unfold all_names_unique in G1. apply negb_true_iff, has_dup_NoDup in G1.
    step H. cbn in E. destruct (add_missing D t) as [t'| |] eqn:AM; cbn in E; try discriminate E.
    inversion E; subst a. clear E.
    step H. rename a into ps'. pose proof (amn_sound _ _ _ G0 E) as EN.
    step H. cbn in G2. apply andb_true_iff in G2. destruct G2 as [Wt Wps].
    step H. step H. inversion H; subst fs'. clear H.
    destruct (IH _ _ E1) as [F2 [FS [ND DJ]]].
    pose proof (types_of_wf _ _ Wps (elab_names_typed _ _ _ EN)) as TP.
    repeat split.
    + constructor; auto. exists t, t', ps'. auto.
    + constructor; auto. repeat split; cbn.
      * now rewrite (elab_names_idents _ _ _ EN).
      * exact TP.
      * exists t'. repeat split; auto. intros p tp Hp Np.
        apply (indep_all_list _ _ E0). rewrite <- Np. now apply in_map.
    + cbn. constructor; auto. intros Hin. apply (DJ _ Hin). now left.
    + cbn. intros x [<-|Hin]; auto. intros Hs. apply (DJ _ Hin). now right.
Qed.

(* ---------------------------------------------------------------- signatures *)
Lemma sig_lookup_In Sg fn sg : sig_lookup Sg fn = Some sg -> In sg Sg.
Proof.
  induction Sg as [|e r IH]; cbn; [discriminate|].
  destruct (sig_lookup r fn) eqn:E.
  - intros H. inversion H; subst. right. auto.
  - destruct (String.eqb fn (fs_name e)); [|discriminate]. intros H. inversion H. now left.
Qed.

Lemma make_sigma_sound D (HD : wf_env D) : forall fs Sg, Forall (fun_sig_ok D) fs -> make_sigma D fs = TOk Sg ->
  Forall2 (sig_of D) fs Sg.
Proof.
  induction fs as [|f r IH]; intros Sg FS H; cbn [make_sigma] in H.
  - inversion H. constructor.
  - inversion FS as [|f0 r0 [_ [_ [t [Ft [Wt _]]]]] FSr]; subst.
    rewrite Ft in H. unf HD H Wt. step H. inversion H; subst. constructor; auto.
    repeat split; cbn; auto. exists t, h. auto.
Qed.

Lemma Forall2_In_r {A B} (R : A -> B -> Prop) l1 l2 y : Forall2 R l1 l2 -> In y l2 -> exists x, In x l1 /\ R x y.
Proof.
  induction 1 as [|a b r r' Rab _ IH]; cbn; [tauto|]. intros [<-|H]; [eauto|].
  destruct (IH H) as [x [Hx Rx]]. eauto.
Qed.

Lemma sigma_wf D (HD : wf_env D) fs Sg : Forall (fun_sig_ok D) fs -> Forall2 (sig_of D) fs Sg -> wf_sigma D Sg.
Proof.
  intros FS F2 fn sg SL. apply sig_lookup_In in SL.
  destruct (Forall2_In_r _ _ _ _ F2 SL) as [f [Hf [_ [Ep [t [h [Ft [Hh Es]]]]]]]].
  rewrite Forall_forall in FS. destruct (FS _ Hf) as [_ [Tp [t0 [Ft0 [Wt _]]]]].
  rewrite Ft in Ft0. inversion Ft0; subst t0. split.
  - exists h. split; auto. eapply head_wf; eauto.
  - now rewrite Ep.
Qed.

(* ---------------------------------------------------------------- contexts of declarations *)
Lemma make_ctx_wf D ns : Forall (typed_name_ok D) ns -> wf_ctx D (make_ctx ns).
Proof.
  unfold make_ctx. assert (G : forall acc, wf_ctx D acc -> Forall (typed_name_ok D) ns ->
    wf_ctx D (fold_left (fun g n => aset (ident n) (nty n) g) ns acc)).
  { induction ns as [|n r IH]; cbn; intros acc Wa F; auto.
    inversion F as [|n0 r0 [t [Nt Wt]] Fr]; subst. apply IH; auto. rewrite Nt. now apply wf_ctx_set. }
  intros F. apply G; auto. constructor.
Qed.

(* ---------------------------------------------------------------- processes: preliminary checks *)
Lemma nodup_app {A} (l1 l2 : list A) : NoDup l1 -> NoDup l2 -> (forall x, In x l1 -> ~ In x l2) -> NoDup (l1 ++ l2).
Proof.
  induction l1 as [|a r IH]; cbn; intros N1 N2 Dj; auto. inversion N1; subst.
  constructor.
  - rewrite in_app_iff. intros [H|H]; [tauto|]. apply (Dj a); cbn; auto.
  - apply IH; [assumption|assumption|]. intros x Hx. apply Dj. now right.
Qed.
Lemma nodup_app_inv {A} (l1 l2 : list A) : NoDup (l1 ++ l2) -> NoDup l1 /\ NoDup l2 /\ (forall x, In x l1 -> ~ In x l2).
Proof.
  induction l1 as [|a r IH]; cbn; intros N.
  - repeat split; auto. constructor.
  - inversion N as [|a0 l0 Na Nr]; subst. destruct (IH Nr) as [N1 [N2 Dj]]. rewrite in_app_iff in Na.
    repeat split; auto.
    + constructor; tauto.
    + intros x [<-|Hx]; [tauto|auto].
Qed.

Lemma providers_unique_spec : forall ps seen, providers_unique ps seen = true <->
  NoDup (all_providers ps) /\ (forall x, In x (all_providers ps) -> ~ In x seen).
Proof.
  induction ps as [|p r IH]; intros seen; cbn [providers_unique all_providers flat_map].
  - split; auto. intros _. split; [constructor|intros x []].
  - fold (all_providers r). rewrite !andb_true_iff, IH. unfold all_names_unique.
    rewrite negb_true_iff, has_dup_NoDup, negb_true_iff.
    assert (EX : existsb (fun n => str_mem (ident n) seen) (pr_providers p) = false <->
                 forall x, In x (map ident (pr_providers p)) -> ~ In x seen).
    { split.
      - intros E x Hx. apply in_map_iff in Hx. destruct Hx as [n [<- Hn]].
        apply str_mem_false. destruct (str_mem (ident n) seen) eqn:M; auto.
        assert (existsb (fun n => str_mem (ident n) seen) (pr_providers p) = true)
          by (apply existsb_exists; eauto). congruence.
      - intros Hf. destruct (existsb _ (pr_providers p)) eqn:E; auto.
        apply existsb_exists in E. destruct E as [n [Hn M]]. apply str_mem_In in M.
        exfalso. apply (Hf (ident n)); auto. now apply in_map. }
    rewrite EX. split.
    + intros [[N1 D1] [N2 D2]]. split.
      * apply nodup_app; auto. intros x Hx Hr. apply (D2 _ Hr). apply in_app_iff. now left.
      * intros x Hx. apply in_app_iff in Hx. destruct Hx as [Hx|Hx]; auto.
        intros Hs. apply (D2 _ Hx). apply in_app_iff. now right.
    + intros [N Dj]. apply nodup_app_inv in N. destruct N as [N1 [N2 D12]]. repeat split; auto.
      * intros x Hx. apply Dj. apply in_app_iff. now left.
      * intros x Hx Hs. apply in_app_iff in Hs. destruct Hs as [Hs|Hs].
        -- exact (D12 _ Hs Hx).
        -- apply (Dj x); auto. apply in_app_iff. now right.
Qed.

Lemma prelim_procs_types_sound D : forall ps A P ps' A', prelim_procs_types D ps A P = TOk (ps', A') ->
  Forall2 (elab_proc D) ps ps' /\ Forall (proc_sig_ok D) ps' /\
  exists P', uses_ok A P A' P' (uses_of ps') /\ (NoDup (map fst A) -> NoDup (map fst A')).
Proof.
  induction ps as [|p r IH]; intros A P ps' A' H; cbn [prelim_procs_types] in H.
  - inversion H; subst. repeat split; auto. exists P. split; auto. apply uses_ok_nil.
  - step H. destruct (pr_type p) as [t|] eqn:Pt; [|discriminate G]. clear G.
    step H. cbn in E. destruct (add_missing D t) as [t'| |] eqn:AM; cbn in E; try discriminate E.
    inversion E; subst a. clear E.
    step H. cbn in G. rewrite andb_true_r in G.
    step H. step H. destruct a as [A1 P1]. step H. destruct a as [r' A2]. inversion H; subst. clear H.
    destruct (IH _ _ _ _ E0) as [F2 [PS [P' [U ND]]]].
    repeat split.
    + constructor; auto. exists t, t'. auto.
    + constructor; auto. exists t'. repeat split; auto. cbn. intros L.
      apply negb_true_iff in G0. apply Nat.ltb_lt in L. rewrite L in G0. cbn in G0.
      now apply negb_false_iff in G0.
    + exists P'. split.
      * unfold uses_of. cbn [flat_map]. eapply uses_ok_app; [|exact U].
        apply use_free_names_sound. exact E.
      * intros N. apply ND. eapply use_free_names_nodup; eauto.
Qed.

Lemma elab_procs_providers D ps ps' : Forall2 (elab_proc D) ps ps' -> all_providers ps' = all_providers ps.
Proof.
  induction 1 as [|p p' r r' E _ IH]; cbn; auto.
  destruct E as [t [t' [_ [_ ->]]]]. cbn. unfold all_providers in IH. now rewrite IH.
Qed.

(* acyclicity only looks at bodies and provider names *)
Definition same_shape (p p' : procdef) : Prop := pr_body p' = pr_body p /\ pr_providers p' = pr_providers p.
Lemma elab_proc_shape D p p' : elab_proc D p p' -> same_shape p p'.
Proof. intros [t [t' [_ [_ ->]]]]. split; reflexivity. Qed.

Lemma provider_index_shape ps ps' x : Forall2 same_shape ps ps' -> Typing.provider_index ps' x = Typing.provider_index ps x.
Proof.
  unfold Typing.provider_index. generalize 0 (@None nat).
  intros n o F. revert n o. induction F as [|p p' r r' [_ Ep] _ IH]; intros n o; auto.
  rewrite Ep. apply IH.
Qed.
Lemma deps_shape ps ps' : Forall2 same_shape ps ps' -> map (proc_deps ps') ps' = map (proc_deps ps) ps.
Proof.
  intros F. assert (G : forall l l', Forall2 same_shape l l' -> map (proc_deps ps') l' = map (proc_deps ps) l).
  { induction 1 as [|p p' r r' [Eb Ep] _ IH]; cbn; auto. rewrite IH. f_equal.
    unfold proc_deps, Typing.proc_uses. rewrite Eb, Ep.
    apply flat_map_ext. intros fn. now rewrite (provider_index_shape _ _ _ F). }
  now apply G.
Qed.
Lemma deps_acyclic_shape ps ps' : Forall2 same_shape ps ps' -> deps_acyclic ps' = deps_acyclic ps.
Proof.
  intros F. unfold deps_acyclic. rewrite (deps_shape _ _ F).
  assert (L : length ps' = length ps) by (clear - F; induction F; cbn; auto). now rewrite L.
Qed.
Lemma elab_procs_shape D ps ps' : Forall2 (elab_proc D) ps ps' -> Forall2 same_shape ps ps'.
Proof. induction 1; constructor; eauto using elab_proc_shape. Qed.
Lemma procs_acyclic_eq ps : procs_acyclic ps = deps_acyclic ps.
Proof. reflexivity. Qed.

Lemma providers_not_self_spec ps : providers_not_self ps = true <-> providers_named ps.
Proof.
  unfold providers_not_self, providers_named. rewrite forallb_forall. split.
  - intros H p n Hp Hn [S E]. specialize (H p Hp). rewrite forallb_forall in H. specialize (H n Hn).
    rewrite S, E in H. discriminate.
  - intros H p Hp. apply forallb_forall. intros n Hn. apply negb_true_iff.
    destruct (is_self n) eqn:S; auto. destruct (String.eqb (ident n) "") eqn:E; auto.
    apply String.eqb_eq in E. exfalso. apply (H p n Hp Hn). auto.
Qed.
Lemma providers_named_shape ps ps' : Forall2 same_shape ps ps' -> providers_named ps -> providers_named ps'.
Proof.
  intros F H p' n Hp' Hn. destruct (Forall2_In_r _ _ _ _ F Hp') as [p [Hp [_ Ep]]]. rewrite Ep in Hn. eapply H; eauto.
Qed.

Lemma existsb_false_forall {A} (f : A -> bool) l : existsb f l = false <-> forall x, In x l -> f x = false.
Proof.
  split.
  - intros E x Hx. destruct (f x) eqn:F; auto.
    assert (existsb f l = true) by (apply existsb_exists; eauto). congruence.
  - intros H. destruct (existsb f l) eqn:E; auto. apply existsb_exists in E. destruct E as [x [Hx F]].
    rewrite (H _ Hx) in F. discriminate.
Qed.

Record procs_prelim_ok (D : tenv) (ps : list procdef) (assumed : list name) : Prop := {
  pp_sigs : Forall (proc_sig_ok D) ps;
  pp_assumed_unique : NoDup (map ident assumed);
  pp_assumed_typed : Forall (typed_name_ok D) assumed;
  pp_providers_unique : NoDup (all_providers ps);
  pp_disjoint : forall x, In x (all_providers ps) -> ~ In x (map ident assumed);
  pp_uses_once : NoDup (uses_of ps);
  pp_uses_defined : forall x, In x (uses_of ps) -> In x (map ident assumed) \/ In x (all_providers ps);
  pp_assumed_used : forall x, In x (map ident assumed) -> In x (uses_of ps);
  pp_acyclic : deps_acyclic ps = true;
  pp_named : providers_named ps
}.

Lemma prelim_procs_sound D ps0 as0 ps assumed : prelim_procs D ps0 as0 = TOk (ps, assumed) ->
  Forall2 (elab_proc D) ps0 ps /\ Forall2 (elab_name D) as0 assumed /\ procs_prelim_ok D ps assumed.
Proof.
  unfold prelim_procs. intros H.
  step H. unfold all_names_unique in G. apply negb_true_iff, has_dup_NoDup in G.
  step H. step H. rename a into as1. pose proof (amn_sound _ _ _ G0 E) as EN.
  step H. pose proof (types_of_wf _ _ G1 (elab_names_typed _ _ _ EN)) as TA.
  step H. apply providers_unique_spec in G2. destruct G2 as [NP _].
  step H. apply negb_true_iff in G2. rewrite existsb_false_forall in G2.
  step H. destruct a as [ps1 rem]. step H. apply negb_true_iff in G3. step H. rename G4 into AC. step H. rename G4 into PN.
  inversion H; subst. clear H.
  destruct (prelim_procs_types_sound _ _ _ _ _ _ E0) as [F2 [PS [P' [U ND]]]].
  pose proof (elab_names_idents _ _ _ EN) as EI.
  pose proof (elab_procs_providers _ _ _ F2) as EP.
  assert (A0 : map (fun n : name => (ident n, true)) assumed = map (fun x => (x, true)) (map ident assumed))
    by (now rewrite map_map).
  rewrite A0 in U, ND. fold (all_providers ps0) in U, G2.
  assert (NDA : NoDup (map fst (map (fun x : string => (x, true)) (map ident assumed)))).
  { rewrite map_map. cbn. rewrite map_id. now rewrite EI. }
  specialize (ND NDA).
  destruct U as [UN [UA [UB [UC UD]]]].
  split; auto. split; auto. constructor; auto.
  - now rewrite EI.
  - now rewrite EP.
  - rewrite EP, EI. intros x Hx Ha. apply G2 in Hx. apply str_mem_false in Hx. auto.
  - intros x Hx. destruct (UA _ Hx) as [Av|[_ Av]].
    + left. destruct (in_dec string_dec x (map ident assumed)) as [I|I]; auto.
      rewrite (alookup_const_notin _ _ I) in Av. discriminate.
    + right. rewrite EP. destruct (in_dec string_dec x (all_providers ps0)) as [I|I]; auto.
      rewrite (alookup_const_notin _ _ I) in Av. discriminate.
  - intros x Hx. destruct (in_dec string_dec x (uses_of ps)) as [I|I]; auto. exfalso.
    destruct (UC _ I) as [EA _]. rewrite (alookup_const_in _ _ Hx) in EA.
    apply alookup_In in EA. rewrite existsb_false_forall in G3. apply G3 in EA. discriminate.
  - rewrite (deps_acyclic_shape _ _ (elab_procs_shape _ _ _ F2)). rewrite <- procs_acyclic_eq. exact AC.
  - apply (providers_named_shape _ _ (elab_procs_shape _ _ _ F2)). now apply providers_not_self_spec.
Qed.

(* ---------------------------------------------------------------- the context of a process *)
Lemma available_names_typed D ps assumed : Forall (proc_sig_ok D) ps -> Forall (typed_name_ok D) assumed ->
  Forall (fun kv => typed_name_ok D (snd kv)) (available_names ps assumed).
Proof.
  intros PS TA. unfold available_names.
  assert (G1 : forall (l : list (string * name)) acc, Forall (fun kv => typed_name_ok D (snd kv)) l ->
               Forall (fun kv => typed_name_ok D (snd kv)) acc ->
               Forall (fun kv => typed_name_ok D (snd kv)) (fold_left (fun m kv => aset (fst kv) (snd kv) m) l acc)).
  { induction l as [|kv r IH]; cbn; intros acc Fl Fa; auto. inversion Fl; subst.
    apply IH; auto. apply aset_Forall; auto. }
  assert (G2 : forall (l : list name) acc, Forall (typed_name_ok D) l ->
               Forall (fun kv => typed_name_ok D (snd kv)) acc ->
               Forall (fun kv => typed_name_ok D (snd kv)) (fold_left (fun m a => aset (ident a) a m) l acc)).
  { induction l as [|a r IH]; cbn; intros acc Fl Fa; auto. inversion Fl; subst.
    apply IH; auto. apply aset_Forall; auto. }
  apply G2; auto. apply G1; [|constructor].
  apply Forall_forall. intros kv Hkv. apply in_flat_map in Hkv. destruct Hkv as [p [Hp Hkv]].
  apply in_map_iff in Hkv. destruct Hkv as [n [<- Hn]]. cbn.
  rewrite Forall_forall in PS. destruct (PS _ Hp) as [t [Pt [Wt _]]]. exists t. auto.
Qed.

Lemma free_name_types_typed D p ps assumed : Forall (proc_sig_ok D) ps -> Forall (typed_name_ok D) assumed ->
  Forall (typed_name_ok D) (free_name_types p ps assumed).
Proof.
  intros PS TA. pose proof (available_names_typed _ _ _ PS TA) as AV.
  unfold free_name_types. apply Forall_forall. intros n Hn. apply in_flat_map in Hn.
  destruct Hn as [fn [_ Hn]]. destruct (alookup (ident fn) (available_names ps assumed)) as [m|] eqn:E; [|destruct Hn].
  destruct Hn as [<-|[]]. apply alookup_In in E. rewrite Forall_forall in AV. apply (AV _ E).
Qed.

Section WithTeq.
Variable teq : tenv -> sty -> sty -> Prop.
Hypothesis equal_sound : forall D, sanity_typedefs D = Ok true -> forall s t,
  check_wf D s = true -> check_wf D t = true -> equal_type D s t = Ok true -> teq D s t.

Lemma tc_funs_sound D Sg (SD : sanity_typedefs D = Ok true) (HSg : wf_sigma D Sg) : forall fs fs',
  Forall (fun_sig_ok D) fs -> tc_funs D Sg fs = TOk fs' -> Forall (FunOK teq D Sg) fs.
Proof.
  pose proof (sanity_wf_env _ SD) as HD.
  induction fs as [|f r IH]; intros fs' FS H; cbn [tc_funs] in H; [constructor|].
  inversion FS as [|f0 r0 [ND [Tp [t [Ft [Wt In_]]]]] FSr]; subst.
  step H. step H. constructor; eauto.
  constructor; auto. exists t. repeat split; auto.
  rewrite Ft in E.
  eapply (tc_form_sound teq D Sg HD (equal_sound D SD) HSg); eauto. now apply make_ctx_wf.
Qed.

Lemma tc_procs_sound D Sg (SD : sanity_typedefs D = Ok true) (HSg : wf_sigma D Sg) all assumed :
  Forall (proc_sig_ok D) all -> Forall (typed_name_ok D) assumed ->
  forall ps ps', Forall (proc_sig_ok D) ps -> tc_procs D Sg all assumed ps = TOk ps' ->
  Forall (ProcOK teq D Sg all assumed) ps.
Proof.
  intros PA TA. pose proof (sanity_wf_env _ SD) as HD.
  induction ps as [|p r IH]; intros ps' PS H; cbn [tc_procs] in H; [constructor|].
  inversion PS as [|p0 r0 [t [Pt [Wt Ct]]] PSr]; subst.
  step H. step H. constructor; eauto.
  constructor. exists t. repeat split; auto.
  rewrite Pt in E.
  eapply (tc_form_sound teq D Sg HD (equal_sound D SD) HSg); eauto.
  apply make_ctx_wf. now apply free_name_types_typed.
Qed.

Theorem tc_program_sound p p' : tc_program p = TOk p' -> ProgOK teq p.
Proof.
  unfold tc_program. intros H.
  step H. step H. subst a. rename E into SD. pose proof (sanity_wf_env _ SD) as HD.
  step H. rename a into fs. step H. destruct a as [ps assumed]. step H. rename a into Sg.
  step H. step H. inversion H; subst p'. clear H.
  destruct (prelim_funs_sound _ _ _ _ E) as [EF [FS [NF _]]].
  destruct (prelim_procs_sound _ _ _ _ _ E0) as [EP [EA PP]].
  pose proof (make_sigma_sound _ HD _ _ FS E1) as SO.
  pose proof (sigma_wf _ HD _ _ FS SO) as WS.
  exists {| p_procs := ps; p_assumed := assumed; p_funs := fs; p_types := p_types p |}.
  split; [repeat split; auto|].
  destruct PP. constructor; cbn; auto.
  - now rewrite (elab_funs_names _ _ _ EF).
  - exists Sg. repeat split; auto.
    + eapply tc_funs_sound; eauto.
    + eapply tc_procs_sound; eauto.
Qed.

Theorem tc_sound p p' : typecheck p = Accept p' -> ProgOK teq p.
Proof.
  unfold typecheck. destruct (tc_program p) eqn:E; try discriminate. intros _. eapply tc_program_sound; eauto.
Qed.
End WithTeq.
