(* TopoDup.v — Topo is preserved by the DUP step (performDUPrule): a process with n > 1 providers ends;
   it leaves n copies of itself, the i-th providing the i-th provider and referring to the i-th fresh
   channel of every free name, and for every free name a forward that provides the n fresh channels
   of that name and refers to the name.
   Part 1 (`topo_dup_rewrite`): the rewriting argument, for ANY bodies `cb i` of the copies whose
   channels are among the i-th fresh channels (premise Hcb), any list `fns` of names whose channels
   occur in the body without repetition.  Part 2 instantiates it with Runtime.dup_effect. *)
From stdpp Require Import gmap strings.
Require Import Grits.Base Grits.ModeDefs Grits.Modes Grits.STypes Grits.Forms Grits.Subst Grits.TcDeps Grits.Expand
               Grits.Runtime Grits.RuntimeFootprint Grits.spec.RtTyping Grits.spec.Topo.
Require Import Grits.proofs.RtSubst Grits.proofs.StepErrors Grits.proofs.RtSafety Grits.proofs.TopoLin
               Grits.proofs.RuntimeFacts Grits.proofs.TopoStep Grits.proofs.TopoFinish.

Section Dup.
Variables (c : config) (p : pid) (pp : proc) (fns : list name) (cb : nat -> form) (kp : nat -> cid).
Notation nx := (pr_next pp).
Notation provs := (pr_provs pp).
Notation n := (length provs).
Notation F := (length fns).

Definition dkn (f i : nat) : cid := p ++ [(nx + (n * f + i))%nat].
Definition drow (f : nat) (fn : name) : list name :=
  map (fun i => mkName (ident fn) false (pol fn) (nty fn) (Some (dkn f i))) (seq 0 n).
Definition dfw (fn : name) : form := FFwd (mkName (ident fn) true None (nty fn) None) fn false.
Definition dss : list spawn :=
  imap (fun i pr => Spawn [pr] (cb i)) provs ++ imap (fun f fn => Spawn (drow f fn) (dfw fn)) fns.
Definition dkns : list cid := flat_map (fun f => map (dkn f) (seq 0 n)) (seq 0 F).
Definition dpid (j : nat) : pid := p ++ [(nx + length dkns + j)%nat].
Definition after_dup : config := apply_effect c p pp (Eff Finish dss dkns [] []).

Hypothesis Ht : Topo c.
Hypothesis Hp : procs c !! p = Some pp.
Hypothesis Hkp : forall i pr, provs !! i = Some pr -> chan pr = Some (kp i).
Hypothesis Hkp_e : forall i, (i < n)%nat -> is_Some (chans c !! kp i).
Hypothesis Hkp_inj : forall i i', (i < n)%nat -> (i' < n)%nat -> kp i = kp i' -> i = i'.
Hypothesis Hfresh : forall a, (nx <= a)%nat ->
  chans c !! (p ++ [a]) = None /\ procs c !! (p ++ [a]) = None /\
  forall o, obj_in c o -> p ++ [a] ∉ provides o /\ p ++ [a] ∉ refs o.
Hypothesis Hcb : forall i, (i < n)%nat -> forall j, j ∈ form_chans (cb i) -> exists f, (f < F)%nat /\ j = dkn f i.
Hypothesis Hfn_sub : forall fn j, In fn fns -> In j (name_chans fn) -> j ∈ form_chans (pr_body0 pp).
Hypothesis Hfn_nd : NoDup (flat_map name_chans fns).

Let X : list obj := [OProc p pp].
Let Y : list obj := imap (fun j s => OProc (dpid j) (mk_spawned s)) dss.

Lemma after_dup_eq :
  after_dup = Cfg (delete p (spawned p (nx + length dkns) dss ∪ procs c)) (new_all dkns (chans c)) (out c).
Proof.
  unfold after_dup. rewrite apply_effect_eq.
  cbn [e_close e_newch e_spawn e_after e_out close_all foldr new_out rev map app].
  unfold procs_after, eff_next0, eff_base. cbn [e_after e_newch e_spawn]. reflexivity.
Qed.

Lemma dkn_inj f i f' i' : (i < n)%nat -> (i' < n)%nat -> dkn f i = dkn f' i' -> f = f' /\ i = i'.
Proof.
  unfold dkn. intros Hi Hi' E. apply app_inv_head in E. injection E as E.
  apply (Nat.div_mod_unique n f f' i i' Hi Hi'). lia.
Qed.

Lemma in_dkns j : j ∈ dkns <-> exists f i, (f < F)%nat /\ (i < n)%nat /\ j = dkn f i.
Proof.
  unfold dkns. rewrite elem_In, in_flat_map. split.
  - intros (f & Hf & Hj). apply in_seq in Hf. apply in_map_iff in Hj as (i & <- & Hi). apply in_seq in Hi.
    exists f, i. split; [lia|]. split; [lia|done].
  - intros (f & i & Hf & Hi & ->). exists f. split; [apply in_seq; lia|]. apply in_map_iff. exists i. split; [done|apply in_seq; lia].
Qed.

Lemma dkn_fresh f i : chans c !! dkn f i = None /\ forall o, obj_in c o -> dkn f i ∉ provides o /\ dkn f i ∉ refs o.
Proof. unfold dkn. destruct (Hfresh (nx + (n * f + i)) ltac:(lia)) as (H1 & _ & H3). done. Qed.

Lemma dpid_ne j : dpid j <> p.
Proof. unfold dpid. intros E. apply (f_equal length) in E. rewrite app_length in E. cbn in E. lia. Qed.
Lemma dpid_inj i j : dpid i = dpid j -> i = j.
Proof. unfold dpid. intros E. apply app_inv_head in E. injection E as E. lia. Qed.

Lemma in_Y o : o ∈ Y <-> exists j s, dss !! j = Some s /\ o = OProc (dpid j) (mk_spawned s).
Proof. unfold Y. rewrite elem_of_lookup_imap. split; intros (j & s & H1 & H2); eauto. Qed.

Lemma spawned_Y q v : spawned p (nx + length dkns) dss !! q = Some v <-> OProc q v ∈ Y.
Proof.
  rewrite spawned_lookup_iff, in_Y. split.
  - intros (j & s & Hs & -> & ->). exists j, s. done.
  - intros (j & s & Hs & E). injection E as -> ->. exists j, s. done.
Qed.

(* the two kinds of new objects *)
Lemma Y_cases o : o ∈ Y ->
  (exists i pr, provs !! i = Some pr /\ o = OProc (dpid i) (Proc [pr] (cb i) 0)) \/
  (exists f fn, fns !! f = Some fn /\ o = OProc (dpid (n + f)) (Proc (drow f fn) (dfw fn) 0)).
Proof.
  intros Ho. apply in_Y in Ho as (j & s & Hs & ->). unfold dss in Hs. apply lookup_app_Some in Hs as [Hs|[Hge Hs]].
  - left. rewrite list_lookup_imap in Hs. destruct (provs !! j) as [pr|] eqn:E; [|discriminate]. injection Hs as <-. eauto.
  - right. rewrite imap_length in Hge, Hs. rewrite list_lookup_imap in Hs. destruct (fns !! (j - n)) as [fn|] eqn:E; [|discriminate].
    injection Hs as <-. exists (j - n)%nat, fn. split; [done|]. replace (n + (j - n))%nat with j by lia. done.
Qed.
Lemma Y_copy i pr : provs !! i = Some pr -> OProc (dpid i) (Proc [pr] (cb i) 0) ∈ Y.
Proof.
  intros H. apply in_Y. exists i, (Spawn [pr] (cb i)). split; [|done]. unfold dss. apply lookup_app_Some. left.
  by rewrite list_lookup_imap, H.
Qed.
Lemma Y_fwd f fn : fns !! f = Some fn -> OProc (dpid (n + f)) (Proc (drow f fn) (dfw fn) 0) ∈ Y.
Proof.
  intros H. apply in_Y. exists (n + f)%nat, (Spawn (drow f fn) (dfw fn)). split; [|done]. unfold dss. apply lookup_app_Some. right.
  rewrite imap_length. split; [lia|]. replace (n + f - n)%nat with f by lia. by rewrite list_lookup_imap, H.
Qed.

Lemma copy_provides i pr : provs !! i = Some pr -> provides (OProc (dpid i) (Proc [pr] (cb i) 0)) = [kp i].
Proof. intros H. cbn. by rewrite (Hkp i pr H). Qed.
Lemma fwd_provides f fn j : j ∈ provides (OProc (dpid (n + f)) (Proc (drow f fn) (dfw fn) 0)) <-> exists i, (i < n)%nat /\ j = dkn f i.
Proof.
  cbn. unfold cids_of, drow. rewrite elem_In, in_flat_map. split.
  - intros (x & Hx & Hj). apply in_map_iff in Hx as (i & <- & Hi). apply in_seq in Hi. cbn in Hj. destruct Hj as [<-|[]].
    exists i. split; [lia|done].
  - intros (i & Hi & ->). eexists. split; [apply in_map_iff; exists i; split; [reflexivity|apply in_seq; lia]|]. cbn. by left.
Qed.
Lemma fwd_refs f fn : refs (OProc (dpid (n + f)) (Proc (drow f fn) (dfw fn) 0)) = name_chans fn.
Proof. cbn. unfold name_chans at 1. reflexivity. Qed.

Lemma kp_provided i : (i < n)%nat -> kp i ∈ provides (OProc p pp).
Proof.
  intros Hi. destruct (lookup_lt_is_Some_2 provs i Hi) as [pr Hpr]. cbn. unfold cids_of. apply elem_In. apply in_flat_map.
  exists pr. split; [apply elem_In; eapply elem_of_list_lookup_2; eauto|]. rewrite (Hkp i pr Hpr). by left.
Qed.
Lemma provided_kp j : j ∈ provides (OProc p pp) -> exists i pr, provs !! i = Some pr /\ j = kp i.
Proof.
  cbn. unfold cids_of. rewrite elem_In, in_flat_map. intros (pr & Hpr & Hj). apply elem_In, elem_of_list_lookup_1 in Hpr as [i Hi].
  rewrite (Hkp i pr Hi) in Hj. destruct Hj as [<-|[]]. eauto.
Qed.

(* the rank of the fresh channels: just above the provider of the same column *)
Definition pairs : list (nat * nat) := flat_map (fun f => map (fun i => (f, i)) (seq 0 n)) (seq 0 F).
Definition col (j : cid) : option nat :=
  match find (fun fi : nat * nat => bool_decide (j = dkn fi.1 fi.2)) pairs with Some (_, i) => Some i | None => None end.
Lemma in_pairs f i : In (f, i) pairs <-> (f < F)%nat /\ (i < n)%nat.
Proof.
  unfold pairs. rewrite in_flat_map. split.
  - intros (f' & Hf & H). apply in_seq in Hf. apply in_map_iff in H as (i' & E & Hi). injection E as -> ->. apply in_seq in Hi. lia.
  - intros [Hf Hi]. exists f. split; [apply in_seq; lia|]. apply in_map_iff. exists i. split; [done|apply in_seq; lia].
Qed.
Lemma col_fresh f i : (f < F)%nat -> (i < n)%nat -> col (dkn f i) = Some i.
Proof.
  intros Hf Hi. unfold col. destruct (find _ pairs) as [[f' i']|] eqn:E.
  - apply find_some in E as [Hin Hd]. apply in_pairs in Hin as [Hf' Hi']. apply bool_decide_eq_true in Hd. cbn in Hd.
    apply dkn_inj in Hd as [_ ->]; done.
  - exfalso. pose proof (find_none _ _ E (f, i) (proj2 (in_pairs f i) (conj Hf Hi))) as H. cbn in H.
    apply bool_decide_eq_false in H. done.
Qed.
Lemma col_old j : j ∉ dkns -> col j = None.
Proof.
  intros Hj. unfold col. destruct (find _ pairs) as [[f' i']|] eqn:E; [|done].
  apply find_some in E as [Hin Hd]. apply in_pairs in Hin as [Hf' Hi']. apply bool_decide_eq_true in Hd. cbn in Hd.
  exfalso. apply Hj. apply in_dkns. eauto.
Qed.

Theorem topo_dup_rewrite : Topo after_dup.
Proof.
  rewrite after_dup_eq.
  set (c' := Cfg (delete p (spawned p (nx + length dkns) dss ∪ procs c)) (new_all dkns (chans c)) (out c)).
  assert (Hold_not_spawned : forall q v, procs c !! q = Some v -> spawned p (nx + length dkns) dss !! q = None).
  { intros q v Hq. destruct (spawned p (nx + length dkns) dss !! q) eqn:E; [|done]. apply spawned_lookup_Some in E as (a & -> & Ha & _).
    destruct (Hfresh a ltac:(lia)) as (_ & H2 & _). exfalso. apply (proj1 (eq_None_not_Some _) H2). eauto. }
  assert (Hold_not_kn : forall j, is_Some (chans c !! j) -> j ∉ dkns).
  { intros j [x Hj] Hin. apply in_dkns in Hin as (f & i & _ & _ & ->). destruct (dkn_fresh f i) as [H0 _]. apply (proj1 (eq_None_not_Some _) H0). eauto. }
  assert (Hobj_old : forall o, obj_in c o -> forall j, j ∈ provides o \/ j ∈ refs o -> j ∉ dkns).
  { intros o Ho j Hj Hin. apply in_dkns in Hin as (f & i & _ & _ & ->). destruct (dkn_fresh f i) as [_ H0]. destruct (H0 o Ho). tauto. }
  assert (Hobj' : forall o', obj_in c' o' -> (obj_in c o' /\ o' ∉ X) \/ o' ∈ Y).
  { intros [q v|k' m'] Ho'; unfold c' in Ho'; cbn in Ho'.
    - apply lookup_delete_Some in Ho' as [Hne Ho']. apply lookup_union_Some_raw in Ho' as [Ho'|[_ Ho']].
      + right. by apply spawned_Y.
      + left. split; [exact Ho'|]. unfold X. intros Hx. apply elem_of_list_singleton in Hx. congruence.
    - destruct Ho' as (st' & H & Hbuf). rewrite new_all_lookup in H. destruct (decide (k' ∈ dkns)); [injection H as <-; discriminate|].
      left. split; [by exists st'|]. unfold X. intros Hx. apply elem_of_list_singleton in Hx. discriminate. }
  apply (topo_rewrite c c' X Y (fun j => j ∈ dkns)); try done.
  - intros o Ho. unfold X in Ho. by apply elem_of_list_singleton in Ho as ->.
  - intros [r rr|k' m'] Ho; unfold X.
    + destruct (decide (r = p)) as [->|Hne]; [left|right].
      * cbn in Ho. rewrite Hp in Ho. injection Ho as <-. set_solver.
      * intros Hx. apply elem_of_list_singleton in Hx. congruence.
    + right. intros Hx. apply elem_of_list_singleton in Hx. discriminate.
  - intros [r rr|k' m'] Ho Hx; unfold c'; cbn.
    + cbn in Ho. assert (r <> p) by (intros ->; apply Hx; rewrite Hp in Ho; injection Ho as <-; unfold X; set_solver).
      rewrite lookup_delete_ne by done. rewrite lookup_union_r; [exact Ho|]. eapply Hold_not_spawned; eauto.
    + destruct Ho as (st' & H & Hbuf). exists st'. split; [|done]. rewrite new_all_lookup. rewrite decide_False by (apply Hold_not_kn; eauto). done.
  - intros [q v|k' m'] Ho'; [|apply in_Y in Ho' as (? & ? & _ & ?); discriminate]. unfold c'. cbn.
    pose proof Ho' as Hs. apply spawned_Y in Hs. apply in_Y in Ho' as (j & s & _ & E). injection E as -> _.
    rewrite lookup_delete_ne by (apply not_eq_sym, dpid_ne). apply lookup_union_Some_raw. by left.
  - (* provides of the new objects *)
    intros o' j Ho' Hj. destruct (Y_cases o' Ho') as [(i & pr & Hpr & ->)|(f & fn & Hfn & ->)].
    + rewrite (copy_provides i pr Hpr) in Hj. apply elem_of_list_singleton in Hj as ->. left. exists (OProc p pp).
      split; [unfold X; set_solver|]. apply kp_provided. by apply lookup_lt_Some in Hpr.
    + apply fwd_provides in Hj as (i & Hi & ->). right. apply in_dkns. exists f, i. split; [by apply lookup_lt_Some in Hfn|done].
  - (* refs of the new objects *)
    intros o' j Ho' Hj. destruct (Y_cases o' Ho') as [(i & pr & Hpr & ->)|(f & fn & Hfn & ->)].
    + cbn in Hj. destruct (Hcb i ltac:(by apply lookup_lt_Some in Hpr) j Hj) as (f & Hf & ->). right.
      apply in_dkns. exists f, i. split; [done|]. split; [by apply lookup_lt_Some in Hpr|done].
    + rewrite fwd_refs in Hj. left. exists (OProc p pp). split; [unfold X; set_solver|]. cbn.
      eapply Hfn_sub; [apply elem_In; eapply elem_of_list_lookup_2; eauto|by apply elem_In].
  - (* new objects provide different channels *)
    intros o1 o2 j H1 H2 Hj1 Hj2.
    destruct (Y_cases o1 H1) as [(i1 & pr1 & Hpr1 & ->)|(f1 & fn1 & Hfn1 & ->)], (Y_cases o2 H2) as [(i2 & pr2 & Hpr2 & ->)|(f2 & fn2 & Hfn2 & ->)].
    + rewrite (copy_provides _ _ Hpr1) in Hj1. rewrite (copy_provides _ _ Hpr2) in Hj2.
      apply elem_of_list_singleton in Hj1, Hj2. subst j.
      apply Hkp_inj in Hj2 as ->; [|by apply lookup_lt_Some in Hpr1|by apply lookup_lt_Some in Hpr2].
      rewrite Hpr1 in Hpr2. by injection Hpr2 as ->.
    + exfalso. rewrite (copy_provides _ _ Hpr1) in Hj1. apply elem_of_list_singleton in Hj1 as ->. apply fwd_provides in Hj2 as (i & Hi & E).
      apply (Hobj_old (OProc p pp) Hp (kp i1)); [left; apply kp_provided; by apply lookup_lt_Some in Hpr1|].
      rewrite E. apply in_dkns. exists f2, i. split; [by apply lookup_lt_Some in Hfn2|done].
    + exfalso. rewrite (copy_provides _ _ Hpr2) in Hj2. apply elem_of_list_singleton in Hj2 as ->. apply fwd_provides in Hj1 as (i & Hi & E).
      apply (Hobj_old (OProc p pp) Hp (kp i2)); [left; apply kp_provided; by apply lookup_lt_Some in Hpr2|].
      rewrite E. apply in_dkns. exists f1, i. split; [by apply lookup_lt_Some in Hfn1|done].
    + apply fwd_provides in Hj1 as (i1 & Hi1 & ->). apply fwd_provides in Hj2 as (i2 & Hi2 & E).
      apply dkn_inj in E as [-> _]; [|done..]. rewrite Hfn1 in Hfn2. by injection Hfn2 as ->.
  - (* new objects refer to different channels *)
    intros o1 o2 j H1 H2 Hj1 Hj2.
    destruct (Y_cases o1 H1) as [(i1 & pr1 & Hpr1 & ->)|(f1 & fn1 & Hfn1 & ->)], (Y_cases o2 H2) as [(i2 & pr2 & Hpr2 & ->)|(f2 & fn2 & Hfn2 & ->)].
    + cbn in Hj1, Hj2. pose proof (lookup_lt_Some _ _ _ Hpr1) as Hi1. pose proof (lookup_lt_Some _ _ _ Hpr2) as Hi2.
      destruct (Hcb i1 Hi1 j Hj1) as (f1 & Hf1 & ->). destruct (Hcb i2 Hi2 _ Hj2) as (f2 & Hf2 & E).
      apply dkn_inj in E as [_ ->]; [|done..]. rewrite Hpr1 in Hpr2. by injection Hpr2 as ->.
    + exfalso. cbn in Hj1. rewrite fwd_refs in Hj2. destruct (Hcb i1 ltac:(by apply lookup_lt_Some in Hpr1) j Hj1) as (f & Hf & ->).
      apply (Hobj_old (OProc p pp) Hp (dkn f i1)).
      * right. cbn. eapply Hfn_sub; [apply elem_In; eapply elem_of_list_lookup_2; eauto|by apply elem_In].
      * apply in_dkns. exists f, i1. split; [done|]. split; [by apply lookup_lt_Some in Hpr1|done].
    + exfalso. cbn in Hj2. rewrite fwd_refs in Hj1. destruct (Hcb i2 ltac:(by apply lookup_lt_Some in Hpr2) j Hj2) as (f & Hf & ->).
      apply (Hobj_old (OProc p pp) Hp (dkn f i2)).
      * right. cbn. eapply Hfn_sub; [apply elem_In; eapply elem_of_list_lookup_2; eauto|by apply elem_In].
      * apply in_dkns. exists f, i2. split; [done|]. split; [by apply lookup_lt_Some in Hpr2|done].
    + rewrite fwd_refs in Hj1, Hj2. apply elem_In in Hj1, Hj2.
      pose proof (nodup_flat_map_idx' name_chans fns Hfn_nd f1 f2 fn1 fn2 j Hfn1 Hfn2 Hj1 Hj2) as ->.
      rewrite Hfn1 in Hfn2. by injection Hfn2 as ->.
  - intros j o Hj Ho. apply in_dkns in Hj as (f & i & _ & _ & ->). by apply dkn_fresh.
  - intros j Hj. apply in_dkns in Hj as (f & i & _ & _ & ->). by apply dkn_fresh.
  - (* what the process provided is provided by the copies *)
    intros o j Ho Hj. unfold X in Ho. apply elem_of_list_singleton in Ho as ->. left.
    apply provided_kp in Hj as (i & pr & Hpr & ->). exists (OProc (dpid i) (Proc [pr] (cb i) 0)).
    split; [by apply Y_copy|]. rewrite (copy_provides i pr Hpr). set_solver.
  - (* a fresh channel that is referred to is provided by the forward of its row *)
    intros o' j Ho' Hj Hf. apply in_dkns in Hf as (f & i & Hf & Hi & ->).
    destruct (lookup_lt_is_Some_2 fns f Hf) as [fn Hfn]. exists (OProc (dpid (n + f)) (Proc (drow f fn) (dfw fn) 0)).
    split; [by apply Y_fwd|]. apply fwd_provides. eauto.
  - intros k' st' Hk' Hcl'. unfold c' in Hk'. cbn in Hk'. rewrite new_all_lookup in Hk'.
    destruct (decide (k' ∈ dkns)); [injection Hk' as <-; discriminate|]. left. exists st'. done.
  - (* rank *)
    intros rk M [Hbd Hr].
    exists (fun j => match col j with Some i => (2 * rk (kp i) + 1)%nat | None => (2 * rk j)%nat end), (2 * M + 1)%nat. split.
    + intros j Hj. unfold c' in Hj. cbn in Hj. rewrite new_all_lookup in Hj. destruct (decide (j ∈ dkns)) as [Hin|Hn].
      * apply in_dkns in Hin as (f & i & Hf & Hi & ->). rewrite (col_fresh f i Hf Hi).
        destruct (lookup_lt_is_Some_2 provs i Hi) as [pr Hpr].
        pose proof (Hkp_e i Hi) as Hs.
        specialize (Hbd _ Hs). lia.
      * rewrite (col_old j Hn). specialize (Hbd j Hj). lia.
    + intros o' k1 j Ho' Hk1 Hj. destruct (Hobj' o' Ho') as [[Ho _]|Hy].
      * rewrite (col_old k1) by (apply (Hobj_old o' Ho); by left). rewrite (col_old j) by (apply (Hobj_old o' Ho); by right).
        specialize (Hr o' k1 j Ho Hk1 Hj). lia.
      * destruct (Y_cases o' Hy) as [(i & pr & Hpr & ->)|(f & fn & Hfn & ->)].
        -- rewrite (copy_provides i pr Hpr) in Hk1. apply elem_of_list_singleton in Hk1 as ->. cbn in Hj.
           pose proof (lookup_lt_Some _ _ _ Hpr) as Hi. destruct (Hcb i Hi j Hj) as (f & Hf & ->).
           rewrite (col_fresh f i Hf Hi). rewrite (col_old (kp i)) by (apply (Hobj_old (OProc p pp) Hp); left; by apply kp_provided). lia.
        -- apply fwd_provides in Hk1 as (i & Hi & ->). rewrite fwd_refs in Hj.
           rewrite (col_fresh f i (lookup_lt_Some _ _ _ Hfn) Hi).
           assert (Hjr : j ∈ refs (OProc p pp)) by (cbn; eapply Hfn_sub; [apply elem_In; eapply elem_of_list_lookup_2; eauto|by apply elem_In]).
           rewrite (col_old j) by (apply (Hobj_old (OProc p pp) Hp); by right).
           assert (rk (kp i) < rk j)%nat; [|lia]. apply (Hr (OProc p pp)); [exact Hp|by apply kp_provided|exact Hjr].
Qed.
End Dup.

(* ------------------------------------------------------------------ Part 2: Runtime.dup_effect is that rewriting *)
Require Import Grits.proofs.DupSubst.

Lemma fresh_row_eq self fn : forall k p,
  fresh_row self p fn k =
  (map (fun i => mkName (ident fn) false (pol fn) (nty fn) (Some (self ++ [(pr_next p + i)%nat]))) (seq 0 k),
   Proc (pr_provs p) (pr_body0 p) (pr_next p + k)).
Proof.
  induction k as [|k IH]; intros p; cbn [fresh_row].
  - destruct p as [a b n0]. cbn. by rewrite Nat.add_0_r.
  - unfold fresh_chan. rewrite IH. cbn [pr_next pr_provs pr_body0 seq map]. rewrite Nat.add_0_r. f_equal; [|f_equal; lia].
    f_equal. rewrite <- seq_shift, map_map. apply map_ext. intros i.
    assert (E : (S (pr_next p) + i = pr_next p + S i)%nat) by lia. rewrite E. reflexivity.
Qed.

Lemma fresh_matrix_eq self n : forall fns p,
  fresh_matrix self p fns n =
  (imap (fun f fn => map (fun i => mkName (ident fn) false (pol fn) (nty fn) (Some (self ++ [(pr_next p + (n * f + i))%nat]))) (seq 0 n)) fns,
   Proc (pr_provs p) (pr_body0 p) (pr_next p + n * length fns)).
Proof.
  induction fns as [|fn r IH]; intros p; cbn [fresh_matrix].
  - destruct p as [a b n0]. cbn. f_equal. f_equal. lia.
  - rewrite fresh_row_eq, IH. cbn [pr_next pr_provs pr_body0 length]. rewrite imap_cons. f_equal; [|f_equal; lia]. f_equal.
    + apply map_ext. intros i. assert (E : (n * 0 + i = i)%nat) by lia. rewrite E. reflexivity.
    + apply imap_ext. intros f x _. cbn [compose]. apply map_ext. intros i.
      assert (E : (pr_next p + n + (n * f + i) = pr_next p + (n * S f + i))%nat) by lia. rewrite E. reflexivity.
Qed.

Lemma map_combine_imap {A B C} (g : A * B -> C) : forall (l : list A) (r : nat -> A -> B),
  map g (combine l (imap r l)) = imap (fun f x => g (x, r f x)) l.
Proof.
  induction l as [|a l IH]; intros r; [done|]. rewrite !imap_cons. cbn [combine map]. f_equal. by rewrite IH.
Qed.

Lemma cids_drow p pp f fn : cids_of (drow p pp f fn) = map (dkn p pp f) (seq 0 (length (pr_provs pp))).
Proof.
  unfold drow, cids_of. induction (seq 0 (length (pr_provs pp))) as [|i l IH]; [done|]. cbn. by rewrite IH.
Qed.
Lemma flat_cids_rows p pp : forall (l : list name) k,
  flat_map cids_of (imap (fun f => drow p pp (k + f)) l) =
  flat_map (fun f => map (dkn p pp f) (seq 0 (length (pr_provs pp)))) (seq k (length l)).
Proof.
  induction l as [|a l IH]; intros k; [reflexivity|]. rewrite imap_cons. cbn [flat_map length seq]. f_equal.
  - rewrite cids_drow. by rewrite Nat.add_0_r.
  - rewrite <- (IH (S k)). f_equal. apply imap_ext. intros f x _. cbn. f_equal. lia.
Qed.

(* ------------------------------------------------------------------ the free names of an affine body have different channels *)
Notation chs l := (flat_map name_chans l).

Lemma chs_filter_nodup l : NoDup (chs l) -> NoDup (chs (filter (fun n => negb (is_self n)) l)).
Proof.
  induction l as [|a l IH]; simpl; [done|]. intros H. apply NoDup_app_inv in H as (H1 & H2 & H3).
  destruct (negb (is_self a)); simpl; [|by apply IH]. apply NoDup_app_intro'; [done|by apply IH|].
  intros x Hx Hx'. apply (H3 x Hx). apply in_flat_map in Hx' as (y & Hy & Hxy). apply filter_In in Hy as [Hy _].
  apply in_flat_map. eauto.
Qed.

Lemma fold_append_filter : forall l acc,
  fold_left (fun acc n => append_if_not_self n acc) l acc = acc ++ filter (fun n => negb (is_self n)) l.
Proof.
  induction l as [|a l IH]; intros acc; simpl; [by rewrite app_nil_r|]. rewrite IH. unfold append_if_not_self.
  destruct (is_self a); simpl; [done|]. by rewrite <- app_assoc.
Qed.

Lemma leaf_nodup sh (ns : list name) : NoDup (flat_map (uname sh) ns) -> NoDup (chs (filter (fun n => negb (is_self n)) ns)).
Proof.
  assert (E : kcs (flat_map (uname sh) ns) = chs ns).
  { induction ns as [|a l IH]; simpl; [done|]. by rewrite kcs_app, kcs_uname, IH. }
  intros H. apply chs_filter_nodup. apply NoDup_kcs in H. by rewrite <- E.
Qed.

Lemma free_names_nodup f : affr None f -> NoDup (chs (free_names f)).
Proof.
  induction f as [a b c0|p0 c0 fr k IHk|a l c0|fr bs|x b IHb k IHk|c0|c0 k IHk|a b d|x y fr k IHk|fn args pt|a c0|x fr k IHk|c0 k IHk|l k IHk];
    intros Ha; pose proof (affr_aff _ _ Ha) as Haf; unfold aff in Haf; simpl in Haf.
  - (* FSend *) apply Forall_inv in Haf.
    assert (E : free_names (FSend a b c0) = filter (fun n => negb (is_self n)) [a; b; c0]).
    { simpl. unfold append_if_not_self. destruct (is_self a), (is_self b), (is_self c0); reflexivity. }
    rewrite E. apply (leaf_nodup None). simpl. by rewrite app_nil_r.
  - simpl. apply merge_names_nodup, small_nodup.
  - (* FSel *) apply Forall_inv in Haf.
    assert (E : free_names (FSel a l c0) = filter (fun n => negb (is_self n)) [a; c0]).
    { simpl. unfold append_if_not_self. destruct (is_self a), (is_self c0); reflexivity. }
    rewrite E. apply (leaf_nodup None). simpl. by rewrite app_nil_r.
  - simpl. apply free_names_brs_nodup, small_nodup.
  - simpl. apply merge_names_nodup, merge_names_nodup. constructor.
  - simpl. apply small_nodup.
  - simpl. apply merge_names_nodup, small_nodup.
  - (* FFwd *) apply Forall_inv in Haf.
    assert (E : free_names (FFwd a b d) = filter (fun n => negb (is_self n)) [a; b]).
    { simpl. unfold append_if_not_self. destruct (is_self a), (is_self b); reflexivity. }
    rewrite E. apply (leaf_nodup None). simpl. by rewrite app_nil_r.
  - simpl. apply merge_names_nodup, small_nodup.
  - (* FCall *) apply Forall_inv in Haf. simpl. rewrite fold_append_filter. simpl. by apply (leaf_nodup None).
  - (* FCast *) apply Forall_inv in Haf.
    assert (E : free_names (FCast a c0) = filter (fun n => negb (is_self n)) [a; c0]).
    { simpl. unfold append_if_not_self. destruct (is_self a), (is_self c0); reflexivity. }
    rewrite E. apply (leaf_nodup None). simpl. by rewrite app_nil_r.
  - simpl. apply merge_names_nodup, small_nodup.
  - simpl. apply merge_names_nodup, small_nodup.
  - (* FPrint *) simpl. apply IHk. simpl in Ha. tauto.
Qed.

Section DupStep.
Variable D : tenv.
Variable F : list fundef.
Variable teq : sty -> sty -> Prop.
Hypothesis Hteq : teq_laws D teq.

Lemma dup_effect_eq p pp : length (pr_provs pp) <> 1%nat ->
  let fns := free_names (pr_body0 pp) in
  let rows := imap (drow p pp) fns in
  dup_effect p pp = EOk (Eff Finish (dss p pp fns (fun i => subst_col fns rows i (pr_body0 pp))) (dkns p pp fns) [] []).
Proof.
  intros Hn fns rows. unfold dup_effect. destruct (length (pr_provs pp) =? 1)%nat eqn:E; [apply Nat.eqb_eq in E; done|].
  rewrite fresh_matrix_eq. fold fns.
  assert (Hrows : imap (fun f fn => map (fun i => mkName (ident fn) false (pol fn) (nty fn)
                     (Some (p ++ [(pr_next pp + (length (pr_provs pp) * f + i))%nat]))) (seq 0 (length (pr_provs pp)))) fns = rows) by reflexivity.
  rewrite Hrows. f_equal. unfold dss, dkns. f_equal.
  - f_equal. rewrite (map_combine_imap _ fns (drow p pp)). reflexivity.
  - unfold rows. exact (flat_cids_rows p pp fns 0).
Qed.

Theorem topo_dup_step Δ c p pp md c' :
  cfg_typed D F teq Δ c -> Topo c -> ns_ok c -> procs c !! p = Some pp -> affr None (pr_body0 pp) ->
  NoDup (cids_of (pr_provs pp)) -> action_of md D pp = ADup ->
  step md D F c (Run p) = SStep c' -> Topo c'.
Proof.
  intros Hc Ht Hns Hp Haff Hnd Ha Hs.
  cbn [step] in Hs. rewrite Hp, Ha in Hs.
  assert (Hn1 : length (pr_provs pp) <> 1%nat).
  { apply action_dup_multi in Ha. unfold multi in Ha. apply Nat.ltb_lt in Ha. lia. }
  rewrite (dup_effect_eq p pp Hn1) in Hs. cbn [eff_step] in Hs. injection Hs as <-.
  set (fns := free_names (pr_body0 pp)). set (rows := imap (drow p pp) fns).
  destruct (ct_procs D F teq Δ c Hc p pp Hp) as (s & rs & Hne & Hprovs & Hty).
  rewrite Forall_forall in Hprovs.
  set (kp := fun i => match pr_provs pp !! i with Some pr => match chan pr with Some k => k | None => [] end | None => [] end).
  assert (Hkp : forall i pr, pr_provs pp !! i = Some pr -> chan pr = Some (kp i) /\ is_Some (Δ !! kp i)).
  { intros i pr Hi. unfold kp. rewrite Hi. destruct (Hprovs pr) as (c0 & t' & Hc0 & Ht' & _); [apply elem_In; eapply elem_of_list_lookup_2; eauto|].
    rewrite Hc0. eauto. }
  apply (topo_dup_rewrite c p pp fns (fun i => subst_col fns rows i (pr_body0 pp)) kp); try done.
  - intros i pr Hi. by destruct (Hkp i pr Hi).
  - intros i Hi. destruct (lookup_lt_is_Some_2 _ i Hi) as [pr Hpr]. destruct (Hkp i pr Hpr) as [_ Hd]. by apply (ct_dom D F teq Δ c Hc).
  - intros i i' Hi Hi' E. destruct (lookup_lt_is_Some_2 _ i Hi) as [pr Hpr]. destruct (lookup_lt_is_Some_2 _ i' Hi') as [pr' Hpr'].
    destruct (Hkp i pr Hpr) as [H1 _]. destruct (Hkp i' pr' Hpr') as [H2 _].
    apply (nodup_flat_map_idx' (fun n : name => match chan n with Some c0 => [c0] | None => [] end) (pr_provs pp) Hnd i i' pr pr' (kp i) Hpr Hpr').
    + rewrite H1. by left.
    + rewrite H2, E. by left.
  - intros a Hle. exact (fresh_above D F teq Δ c p pp Hc Hns Hp a Hle).
  - (* the copies mention only the fresh channels of their column *)
    intros i Hi j Hj. apply elem_In in Hj.
    destruct (subst_col_fresh rows (pr_body0 pp) i j) as (f & row & c0 & Hrow & Hc0 & Hjc); try done.
    + eapply typed_wfn; eauto.
    + rewrite Forall_forall. intros row Hrow. apply elem_In, elem_of_lookup_imap in Hrow as (f & fn & -> & _).
      unfold drow. exists (mkName (ident fn) false (pol fn) (nty fn) (Some (dkn p pp f i))). split; [|reflexivity]. rewrite nth_error_map. rewrite (nth_error_nth' _ 0%nat) by (by rewrite seq_length).
      rewrite seq_nth by done. reflexivity.
    + unfold rows. by rewrite imap_length.
    + unfold rows in Hrow. rewrite list_lookup_imap in Hrow. destruct (fns !! f) as [fn|] eqn:Efn; [|discriminate]. injection Hrow as <-.
      unfold drow in Hc0. rewrite nth_error_map in Hc0. rewrite (nth_error_nth' _ 0%nat) in Hc0 by (by rewrite seq_length).
      rewrite seq_nth in Hc0 by done. cbn in Hc0. injection Hc0 as <-. cbn in Hjc. destruct Hjc as [<-|[]].
      exists f. split; [by apply lookup_lt_Some in Efn|reflexivity].
  - intros fn j Hfn Hj. apply elem_In. eapply free_names_chans; eauto.
  - by apply free_names_nodup.
Qed.
End DupStep.
