(* LRSound.v — safety direction of the LR automaton (C12): if the driver accepts, the tokens it
   consumed are a sentence of the grammar RECOVERED FROM THE TABLES:
     lhs p  = - gritsR1[p],
     rhs p  = the accessing symbols (gritsChk) of the states along a backward path of length
              gritsR2[p] from a state that reduces by p  (gen/LRCert.tRhs, untrusted; the checker
              below verifies by computation that ALL such backward paths spell exactly rhs p),
     start  = lhs 1.
   Invariant: the stack spells a sequence of symbols that derives the consumed prefix. *)
Require Import Grits.Base Grits.Tokens Grits.gen.LRTables Grits.LR Grits.spec.Grammar
               Grits.proofs.LRCheck Grits.proofs.LRProof.
Local Open Scope Z_scope.

Definition chk (s : Z) : Z := nthZ tChk s.            (* accessing symbol of a state *)
Definition lhs (p : Z) : Z := - nthZ tR1 p.
Definition START : Z := lhs 1.
(* the terminal a token denotes *)
Definition tokz (tv : tk * string) : Z := lex1 (tok_code (fst tv)).

Section Sound.
Variable E : list (Z * Z).
Variables wIn wTop : list Z.
Variable C : Z.
Variable Rhs : list (list Z).

Definition rhs (p : Z) : list Z := nth (Z.to_nat p) Rhs [].
Local Notation Der := (Der lhs rhs).
Local Notation DerSeq := (DerSeq lhs rhs).
Local Notation bpaths := (bpaths E).
Local Notation is_path := (is_path E).

Definition syms_of (pth : list Z) (k : nat) : list Z := map chk (rev (firstn k pth)).

Definition sound_state (s : Z) : bool :=
  forallb (fun tok =>
    (0 <? tok) &&
    match action s tok with
    | AShift t => chk t =? tok
    | AReduce p => (0 <? p) &&
        forallb (fun pth =>
          (if list_eq_dec Z.eq_dec (syms_of pth (rlen p)) (rhs p) then true else false) &&
          match rev pth with
          | s0 :: _ => chk (goto s0 p) =? lhs p
          | [] => false
          end) (bpaths (rlen p) s)
    | AAcc => (chk s =? START) &&
              forallb (fun pth => match pth with [_; z] => z =? 0 | _ => false end) (bpaths 1 s)
    | AErr => true
    end) look_toks.

Definition check_sound : bool :=
  forallb sound_state states &&
  forallb (fun e => negb (snd e =? 0)) E && negb (chk 0 =? START).

Hypothesis HC : check_cert E wIn wTop C = true.
Hypothesis HS : check_sound = true.

Lemma no_edge_into_0 s : inE E s 0 = true -> False.
Proof.
  pose proof HS as H. unfold check_sound in H. rewrite !andb_true_iff in H. destruct H as [[_ H] _].
  rewrite forallb_forall in H. unfold inE. rewrite existsb_exists.
  intros [[a b] [Hin Hab]]. cbn [fst snd] in Hab. apply andb_true_iff in Hab. destruct Hab as [_ Hb].
  specialize (H _ Hin). cbn [snd] in H. rewrite Hb in H. discriminate.
Qed.
Lemma chk0 : chk 0 <> START.
Proof.
  pose proof HS as H. unfold check_sound in H. rewrite !andb_true_iff in H. destruct H as [_ H].
  intro Heq. rewrite Heq, Z.eqb_refl in H. discriminate.
Qed.

Lemma sound_at st tok : in_states st = true -> In tok look_toks ->
  0 < tok /\
  match action st tok with
  | AShift t => chk t = tok
  | AReduce p => 0 < p /\ forall pth, In pth (bpaths (rlen p) st) ->
       syms_of pth (rlen p) = rhs p /\
       match rev pth with s0 :: _ => chk (goto s0 p) = lhs p | [] => False end
  | AAcc => chk st = START /\ forall pth, In pth (bpaths 1 st) -> exists a, pth = [a; 0]
  | AErr => True
  end.
Proof.
  intros Hs Ht. pose proof HS as H. unfold check_sound in H. rewrite !andb_true_iff in H.
  destruct H as [[H _] _].
  rewrite forallb_forall in H. specialize (H st (in_states_In _ Hs)).
  unfold sound_state in H. rewrite forallb_forall in H. specialize (H tok Ht).
  apply andb_true_iff in H. destruct H as [Hpos H]. apply Z.ltb_lt in Hpos. split; [exact Hpos|].
  destruct (action st tok).
  - apply Z.eqb_eq. exact H.
  - apply andb_true_iff in H. destruct H as [Hp H]. apply Z.ltb_lt in Hp. split; [exact Hp|].
    rewrite forallb_forall in H. intros pth Hin. specialize (H pth Hin).
    apply andb_true_iff in H. destruct H as [H1 H2]. split.
    + destruct (list_eq_dec Z.eq_dec (syms_of pth (rlen p)) (rhs p)); [assumption|discriminate].
    + destruct (rev pth); [discriminate|]. apply Z.eqb_eq. exact H2.
  - exact I.
  - rewrite !andb_true_iff in H. destruct H as [H2 H3].
    apply Z.eqb_eq in H2. split; [exact H2|].
    rewrite forallb_forall in H3. intros pth Hin. specialize (H3 pth Hin).
    destruct pth as [|a [|z [|? ?]]]; try discriminate. apply Z.eqb_eq in H3. subst. eauto.
Qed.

(* the stack of states, top first, together with the word it has consumed *)
Inductive StackDer : list Z -> list Z -> Prop :=
| SD_base : StackDer [0] []
| SD_push t s rest pre w : StackDer (s :: rest) pre -> Der (chk t) w -> StackDer (t :: s :: rest) (pre ++ w).

Lemma StackDer_pop : forall k stk pre s0 below,
  StackDer stk pre -> skipn k stk = s0 :: below ->
  exists pre0 ws, StackDer (s0 :: below) pre0 /\ pre = pre0 ++ ws /\
                  DerSeq (map chk (rev (firstn k stk))) ws.
Proof.
  induction k as [|k IHk]; intros stk pre s0 below Hsd Hsk.
  - cbn in Hsk. subst. exists pre, []. rewrite app_nil_r. repeat split; [assumption| constructor].
  - destruct Hsd as [| t s rest pre w Hsd Hd].
    + destruct k; discriminate.
    + cbn [skipn] in Hsk. destruct (IHk _ _ _ _ Hsd Hsk) as [pre0 [ws [H1 [H2 H3]]]].
      exists pre0, (ws ++ w). split; [exact H1|]. split; [subst; rewrite app_assoc; reflexivity|].
      change (firstn (S k) (t :: s :: rest)) with (t :: firstn k (s :: rest)).
      cbn [rev]. rewrite map_app. apply DerSeq_app; [exact H3|].
      cbn [map]. rewrite <- (app_nil_r w). constructor; [exact Hd | constructor].
Qed.

Section Values.
Variable V : Type.
Variable tok_val : tk * string -> V.
Variable reduce_action : Z -> list V -> option V.
Local Notation step := (step V tok_val reduce_action).
Local Notation run := (run V tok_val reduce_action).
Local Notation sts := (sts V).

Lemma step_sound stk inp pre :
  is_path (sts stk) -> StackDer (sts stk) pre ->
  match step stk inp with
  | StCont _ stk' inp' => exists w, StackDer (sts stk') (pre ++ map tokz w) /\ inp = w ++ inp' /\
                          Forall (fun tv => tokz tv <> tEofCode) w
  | StAccept _ _ => lookahead inp = tEofCode /\ Der START pre
  | _ => True
  end.
Proof.
  intros Hp Hsd. unfold LR.step.
  destruct stk as [|[st v] rest]; [exact I|].
  change (sts ((st, v) :: rest)) with (st :: sts rest) in *.
  assert (Hst : in_states st = true) by (eapply (is_path_top_in_states E wIn wTop C HC); exact Hp).
  destruct (sound_at st (lookahead inp) Hst (lookahead_in inp)) as [Hpos Hs].
  destruct (check_state_at E wIn wTop C HC st (lookahead inp) Hst (lookahead_in inp)) as [_ Hck].
  destruct (action st (lookahead inp)) as [t | p | | ] eqn:Hact.
  - (* shift *)
    destruct inp as [|a inp0]; [exact I|].
    exists [a]. split; [|split; [reflexivity|]].
    2: { constructor; [|constructor]. destruct a as [k lx]. exact (proj1 (proj2 Hck)). }
    change (sts ((t, tok_val a) :: (st, v) :: rest)) with (t :: st :: sts rest).
    apply SD_push; [exact Hsd|]. rewrite Hs. cbn [map]. destruct a as [k lx]. unfold lookahead, tokz. cbn [fst].
    constructor. exact Hpos.
  - (* reduce *)
    destruct Hs as [Hppos Hs].
    set (k := rlen p) in *.
    destruct (skipn k ((st, v) :: rest)) as [|[s0 v0] below] eqn:Hsk; [exact I|].
    destruct (reduce_action p (rev (map snd (firstn k ((st, v) :: rest))))) as [nv|]; [|exact I].
    assert (HskZ : skipn k (st :: sts rest) = s0 :: sts below).
    { change (st :: sts rest) with (map fst ((st, v) :: rest)). rewrite skipn_map, Hsk. reflexivity. }
    assert (Hlen : (k < length (st :: sts rest))%nat).
    { assert (Hl : (length (s0 :: sts below) = length (st :: sts rest) - k)%nat) by (rewrite <- HskZ; apply skipn_length).
      cbn [length] in *. lia. }
    pose proof (bpaths_complete E k st (sts rest) Hp Hlen) as Hin.
    destruct (Hs _ Hin) as [Hrhs Hgoto].
    assert (Hpth : firstn (S k) (st :: sts rest) = firstn k (st :: sts rest) ++ [s0])
      by (eapply firstn_snoc; exact HskZ).
    rewrite Hpth in Hgoto. rewrite rev_app_distr in Hgoto. cbn [rev app] in Hgoto.
    unfold syms_of in Hrhs. rewrite firstn_firstn in Hrhs. replace (Nat.min k (S k)) with k in Hrhs by lia.
    destruct (StackDer_pop k _ _ _ _ Hsd HskZ) as [pre0 [ws [H1 [H2 H3]]]].
    exists []. cbn [map app]. rewrite app_nil_r. split; [|split; [reflexivity | constructor]].
    change (sts ((goto s0 p, nv) :: (s0, v0) :: below)) with (goto s0 p :: s0 :: sts below).
    rewrite H2. apply SD_push; [exact H1|]. rewrite Hgoto. constructor; [exact Hppos|].
    rewrite <- Hrhs. exact H3.
  - exact I.
  - (* accept *)
    destruct Hs as [Hchk Hpaths]. split; [exact Hck|].
    destruct (sts rest) as [|s rest'] eqn:Hr.
    + cbn in Hp. subst st. exfalso. apply chk0. exact Hchk.
    + assert (Hlen : (1 < length (st :: s :: rest'))%nat) by (cbn; lia).
      pose proof (bpaths_complete E 1 st (s :: rest') Hp Hlen) as Hin.
      destruct (Hpaths _ Hin) as [a Ha]. cbn in Ha. inversion Ha; subst a s.
      inversion Hsd as [| t s1 r1 pre1 w Hsd1 Hd]; subst.
      inversion Hsd1; subst.
      * cbn. rewrite <- Hchk. exact Hd.
      * exfalso. cbn in Hp. destruct Hp as [_ [Hbad _]]. eapply no_edge_into_0; eauto.
Qed.

Theorem run_sound : forall fuel stk inp pre v,
  is_path (sts stk) -> StackDer (sts stk) pre ->
  run fuel stk inp = LRAccept v ->
  exists w rest, inp = w ++ rest /\ lookahead rest = tEofCode /\ Der START (pre ++ map tokz w) /\
                 Forall (fun tv => tokz tv <> tEofCode) w.
Proof.
  induction fuel as [|f IH]; intros stk inp pre v Hp Hsd Hrun; [discriminate|].
  cbn [LR.run] in Hrun. pose proof (step_sound stk inp pre Hp Hsd) as Hs.
  destruct (step stk inp) as [v1 | | p | stk' inp'] eqn:Hstep; try discriminate.
  - destruct Hs as [Hla Hd]. exists [], inp. cbn [map app]. rewrite app_nil_r. auto.
  - destruct Hs as [w [Hsd' [Heq Hne]]].
    pose proof (step_path E wIn wTop C HC V tok_val reduce_action _ _ _ _ Hp Hstep) as Hp'.
    destruct (IH _ _ _ _ Hp' Hsd' Hrun) as [w' [rest [H1 [H2 [H3 H4]]]]].
    exists (w ++ w'), rest. split; [subst; rewrite app_assoc; reflexivity|]. split; [exact H2|].
    split; [rewrite map_app, app_assoc; exact H3 | apply Forall_app; split; assumption].
Qed.

(* acceptance implies: the tokens consumed (everything in front of the `$end` lookahead on which
   the accept action was taken) are a sentence of the recovered grammar *)
Corollary lr_sound fuel (v0 v : V) toks :
  run fuel [(0, v0)] toks = LRAccept v ->
  exists w rest, toks = w ++ rest /\ lookahead rest = tEofCode /\ Der START (map tokz w) /\
                 Forall (fun tv => tokz tv <> tEofCode) w.
Proof.
  intros Hr. eapply (run_sound fuel [(0, v0)] toks [] v) in Hr; [exact Hr | reflexivity | constructor].
Qed.
End Values.
End Sound.
