(* proofs/AlphaStep.v — C14, general alpha-equivalence (A2, the transitions of one process): two processes
   whose bodies are alpha-equivalent up to channels (`AlphaEq.aeq []` on the erased bodies), with the
   same providers and the same counter, react to the same message (`on_message_A`: receive, case, wait,
   shift, the forward request, the drop request, the positive forwards) and perform the same internal
   transition (`internal_effect_A`: cut, drop, split, print) with RELATED effects: related continuations,
   related spawned processes, the same new and closed channels, the same printed labels. *)
From stdpp Require Import gmap strings.
Require Import Grits.Base Grits.ModeDefs Grits.STypes Grits.Forms Grits.Subst Grits.Runtime.
Require Import Grits.spec.Alpha Grits.spec.AlphaEq Grits.proofs.RenameSimT Grits.proofs.AlphaSubst Grits.proofs.AlphaFree.

(* ---------------------------------------------------------------- relations *)
Definition prelA (p p' : proc) : Prop :=
  map nn' (pr_provs p') = map nn' (pr_provs p) /\ pr_next p' = pr_next p /\ aeq [] (nf' (pr_body0 p)) (nf' (pr_body0 p')).
Definition srelA (s0 s0' : spawn) : Prop :=
  map nn' (sp_provs s0') = map nn' (sp_provs s0) /\ aeq [] (nf' (sp_body s0)) (nf' (sp_body s0')).
Definition arelA (a a' : after) : Prop :=
  match a, a' with Continue p, Continue p' => prelA p p' | Finish, Finish => True | _, _ => False end.
Definition erelA (e e' : effect) : Prop :=
  arelA (e_after e) (e_after e') /\ Forall2 srelA (e_spawn e) (e_spawn e') /\
  e_newch e = e_newch e' /\ e_close e = e_close e' /\ e_out e = e_out e'.
Definition rrelA (x x' : Runtime.eres) : Prop :=
  match x, x' with EOk e, EOk e' => erelA e e' | EErr w, EErr w' => w = w' | _, _ => False end.

Definition nonvar (c : name) : Prop := isvar c = false /\ ident c = "".
Definition mgood (m : msg) : Prop := nonvar (m_c1 m) /\ nonvar (m_c2 m).

(* ---------------------------------------------------------------- small facts *)
Lemma aeqn_nil_refl a : aeqn [] (nn' a) (nn' a).
Proof.
  unfold aeqn. destruct (isvar (nn' a)) eqn:E; [cbn; auto|]. split; [reflexivity|].
  rewrite isvar_nn'_eq in E. now apply nonvar_ident_nn'.
Qed.

Definition nobind (f : form) : Prop :=
  match f with FSend _ _ _ | FSel _ _ _ | FClose _ | FFwd _ _ _ | FCast _ _ => True | _ => False end.
Lemma aeq_nb_refl f : nobind f -> aeq [] (nf' f) (nf' f).
Proof. destruct f; cbn [nobind nf' aeq]; try contradiction; intros _; repeat split; apply aeqn_nil_refl. Qed.

Lemma aeq_nf' e f g : aeq e f g -> aeq e (nf' f) (nf' g).
Proof. intros H. destruct (proj1 aeq_erased _ _ _ H) as [E1 E2]. now rewrite E1, E2. Qed.

Lemma dfw_srelA self n cl : srelA (dfw self n cl) (dfw self n cl).
Proof. split; [reflexivity|]. unfold dfw. cbn [sp_body]. apply aeq_nb_refl. exact I. Qed.
Lemma dfws_srelA self : forall cls n, Forall2 srelA (fst (dfws self n cls)) (fst (dfws self n cls)).
Proof. induction cls as [|cl cls IH]; intros n; cbn [dfws fst]; constructor; auto using dfw_srelA. Qed.

Lemma rrelA_cont q q' b b' : map nn' (pr_provs q') = map nn' (pr_provs q) -> pr_next q' = pr_next q -> aeq [] (nf' b) (nf' b') ->
  rrelA (EOk (no_eff (Continue (set_body q b)))) (EOk (no_eff (Continue (set_body q' b')))).
Proof. intros Ep En Hb. cbn. unfold erelA. cbn. repeat split; auto. Qed.
Lemma rrelA_cont_provs q q' ps b b' : pr_next q' = pr_next q -> aeq [] (nf' b) (nf' b') ->
  rrelA (EOk (no_eff (Continue (set_provs_body q ps b)))) (EOk (no_eff (Continue (set_provs_body q' ps b')))).
Proof. intros En Hb. cbn. unfold erelA. cbn. repeat split; auto. Qed.

(* instantiating the top entry by an erased non-variable *)
Lemma aeq_subst_top0 e X Y c k k' : bnd X Y -> nonvar c ->
  aeq ((ident X, ident Y) :: e) k k' -> aeq e (subst X c k) (subst Y c k').
Proof.
  intros (B1 & B2 & _ & _ & B5 & B6) [Hc Ic] H.
  apply (proj1 (aeq_subst_gen X Y c e B1 B2 B5 B6 Hc Ic) k k' [] true true); [split; cbn; auto | exact H].
Qed.
Lemma aeq_subst_two e X Y X2 Y2 c1 c2 k k' : bnd X Y -> bnd X2 Y2 -> nonvar c1 -> nonvar c2 ->
  aeq (bind X Y (bind X2 Y2 e)) k k' ->
  aeq e (nf' (subst X2 c2 (subst X c1 k))) (nf' (subst Y2 c2 (subst Y c1 k'))).
Proof. intros B B2 H1 H2 H. apply aeq_nf'. apply aeq_subst_top0; auto. apply aeq_subst_top0; auto. Qed.
Lemma nonvar_new_self : nonvar (new_self ""). Proof. split; reflexivity. Qed.

Lemma find_branch_A e l : forall bs bs', aeq_brs e bs bs' ->
  match find_branch l bs, find_branch l bs' with
  | Some (p, k), Some (p', k') => bnd p p' /\ aeq (bind p p' e) k k'
  | None, None => True
  | _, _ => False
  end.
Proof.
  induction bs as [|l1 p k r IH]; intros [|l2 p' k' r']; cbn [aeq_brs find_branch]; try contradiction; [auto|].
  intros (<- & B & Hk & Hr). destruct (String.eqb l1 l); [auto | apply IH, Hr].
Qed.

(* ---------------------------------------------------------------- receiving *)
Theorem on_message_A self q q' m : pr_provs q' = pr_provs q -> pr_next q' = pr_next q ->
  aeq [] (pr_body0 q) (pr_body0 q') -> mgood m ->
  rrelA (on_message self q m) (on_message self q' m).
Proof.
  intros Ep En Hb [M1 M2]. unfold on_message. cbv zeta.
  assert (Epn : map nn' (pr_provs q') = map nn' (pr_provs q)) by now rewrite Ep.
  assert (Ef : match pr_body0 q' with FFwd _ _ _ => true | _ => false end = match pr_body0 q with FFwd _ _ _ => true | _ => false end).
  { destruct (pr_body0 q), (pr_body0 q'); cbn [aeq] in Hb; try contradiction; reflexivity. }
  rewrite Ef.
  destruct (rule_eqb (m_rule m) RFWD && negb match pr_body0 q with FFwd _ _ _ => true | _ => false end).
  { rewrite Ep. cbn. unfold erelA. cbn. repeat split; auto. now apply aeq_nf'. }
  destruct (rule_eqb (m_rule m) RGC && negb match pr_body0 q with FFwd _ _ _ => true | _ => false end).
  { rewrite !droppable_fwds_spec, En, <- (aeq_free_closed _ _ Hb). cbn. unfold erelA. cbn. repeat split; auto. apply dfws_srelA. }
  destruct (pr_body0 q) eqn:Eq, (pr_body0 q') eqn:Eq'; cbn [aeq] in Hb; try contradiction; try reflexivity.
  - (* recv *) destruct Hb as (Bp & Bc & Hfr & Hk). apply aeqn_nil_eq in Hfr. subst from0.
    destruct (is_self from).
    + destruct (rule_eqb (m_rule m) RRCV); [|reflexivity]. apply rrelA_cont_provs; auto.
      apply aeq_subst_two; auto using nonvar_new_self.
    + destruct (rule_eqb (m_rule m) RSND); [|reflexivity]. apply rrelA_cont; auto.
      apply aeq_subst_two; auto.
  - (* case *) destruct Hb as (Hfr & Hbs). apply aeqn_nil_eq in Hfr. subst from0.
    pose proof (find_branch_A [] (m_label m) _ _ Hbs) as Hf.
    destruct (is_self from).
    + destruct (rule_eqb (m_rule m) RBRA); [|reflexivity].
      destruct (find_branch (m_label m) bs) as [[p k]|], (find_branch (m_label m) bs0) as [[p' k']|]; try contradiction; [|reflexivity].
      destruct Hf as [B Hk]. apply rrelA_cont_provs; auto. apply aeq_nf', aeq_subst_top0; auto using nonvar_new_self.
    + destruct (rule_eqb (m_rule m) RSEL); [|reflexivity].
      destruct (find_branch (m_label m) bs) as [[p k]|], (find_branch (m_label m) bs0) as [[p' k']|]; try contradiction; [|reflexivity].
      destruct Hf as [B Hk]. apply rrelA_cont; auto. apply aeq_nf', aeq_subst_top0; auto.
  - (* wait *) destruct Hb as (_ & Hk). destruct (rule_eqb (m_rule m) RCLS); [|reflexivity]. apply rrelA_cont; auto. now apply aeq_nf'.
  - (* fwd *) destruct Hb as (<- & Ha & Hb'). apply aeqn_nil_eq in Ha. apply aeqn_nil_eq in Hb'. subst.
    destruct droppable.
    + rewrite !droppable_fwds_spec, En. cbn. unfold erelA. cbn. repeat split; auto. apply dfws_srelA.
    + destruct (m_rule m); try reflexivity; try (apply rrelA_cont; auto; apply aeq_nb_refl; exact I).
      destruct (m_provs m); [reflexivity|]. apply rrelA_cont_provs; auto. apply aeq_nb_refl; exact I.
  - (* shift *) destruct Hb as (B & Hfr & Hk). apply aeqn_nil_eq in Hfr. subst from0.
    destruct (is_self from).
    + destruct (rule_eqb (m_rule m) RSHF); [|reflexivity]. apply rrelA_cont_provs; auto. apply aeq_nf', aeq_subst_top0; auto using nonvar_new_self.
    + destruct (rule_eqb (m_rule m) RCST); [|reflexivity]. apply rrelA_cont; auto. apply aeq_nf', aeq_subst_top0; auto.
Qed.

(* ---------------------------------------------------------------- internal transitions: cut, drop, split, print *)
Definition is_callA (f : form) : bool := match f with FCall _ _ _ => true | _ => false end.

(* two fresh channels (identifiers of the binders: not erased) *)
Lemma aeq_subst_two_raw e X Y X2 Y2 c1 c2 c1' c2' k k' : bnd X Y -> bnd X2 Y2 ->
  isvar c1 = false -> isvar c2 = false -> uself c1 = false -> uself c1' = false ->
  nn' c1' = nn' c1 -> nn' c2' = nn' c2 ->
  aeq (bind X Y (bind X2 Y2 e)) k k' ->
  aeq e (nf' (subst X2 c2 (subst X c1 k))) (nf' (subst Y2 c2' (subst Y c1' k'))).
Proof.
  intros B B2 V1 V2 U1 U1' E1 E2 H.
  destruct (proj1 aeq_erased _ _ _ H) as [Ek Ek'].
  pose proof B2 as (Bx & By & _ & _ & Nx & Ny).
  assert (Ix : initialized X2 = false) by (unfold initialized; now rewrite Bx).
  assert (Iy : initialized Y2 = false) by (unfold initialized; now rewrite By).
  assert (L : nf' (subst X2 (nn' c2) (subst X (nn' c1) k)) = nf' (subst X2 c2 (subst X c1 k))).
  { apply subst_B_congr; auto using nn'_idem.
    - apply nos_subst; [now rewrite uself_nn'|]. rewrite <- Ek. now apply nos_nf'.
    - apply nos_subst; [exact U1|]. rewrite <- Ek. now apply nos_nf'.
    - apply (proj1 (subst_D X c1)). }
  assert (R : nf' (subst Y2 (nn' c2') (subst Y (nn' c1') k')) = nf' (subst Y2 c2' (subst Y c1' k'))).
  { apply subst_B_congr; auto using nn'_idem.
    - apply nos_subst; [now rewrite uself_nn'|]. rewrite <- Ek'. now apply nos_nf'.
    - apply nos_subst; [exact U1'|]. rewrite <- Ek'. now apply nos_nf'.
    - apply (proj1 (subst_D Y c1')). }
  rewrite <- L, <- R, E1, E2.
  apply aeq_subst_two; auto; split; auto using nonvar_ident_nn'; now rewrite isvar_nn'_eq.
Qed.

Theorem internal_effect_A md F F' self q q' : pr_provs q' = pr_provs q -> pr_next q' = pr_next q ->
  aeq [] (pr_body0 q) (pr_body0 q') -> is_callA (pr_body0 q) = false ->
  rrelA (internal_effect md F self q) (internal_effect md F' self q').
Proof.
  intros Ep En Hb Hc. unfold internal_effect.
  assert (Epn : map nn' (pr_provs q') = map nn' (pr_provs q)) by now rewrite Ep.
  destruct (pr_body0 q) eqn:Eq, (pr_body0 q') eqn:Eq'; cbn [aeq] in Hb; try contradiction; try reflexivity; try discriminate Hc.
  - (* new *) destruct Hb as (B & Hbody & Hk). pose proof B as (B1 & B2 & B3 & B4 & B5 & B6).
    unfold fresh_chan. rewrite Ep, En, B3, B4. cbn [rrelA]. unfold erelA. cbn [e_after e_spawn e_newch e_close e_out arelA].
    split; [|split; [|split; [|split]]]; try reflexivity.
    + unfold prelA, set_body. cbn [pr_provs pr_body0 pr_next]. split; [reflexivity|]. split; [reflexivity|].
      apply aeq_subst_top; [exact B | reflexivity | reflexivity | exact Hk].
    + constructor; [|constructor]. split; [reflexivity|]. cbn [sp_body]. now apply aeq_nf'.
  - (* split *) destruct Hb as (Bx & By & Hfr & Hk). apply aeqn_nil_eq in Hfr. subst from0.
    unfold fresh_chan. rewrite Ep, En. cbn [pr_next pr_provs pr_body0 rrelA]. unfold erelA. cbn [e_after e_spawn e_newch e_close e_out arelA].
    split; [|split; [|split; [|split]]]; try reflexivity.
    + unfold prelA, set_body. cbn [pr_provs pr_body0 pr_next]. split; [reflexivity|]. split; [reflexivity|].
      apply aeq_subst_two_raw; auto.
    + constructor; [|constructor]. split; [reflexivity|]. cbn [sp_body]. apply aeq_nb_refl. exact I.
  - (* drop *) destruct Hb as (Hn & Hk). apply aeqn_nil_eq in Hn. subst c0.
    destruct (is_np md); [apply rrelA_cont; auto; now apply aeq_nf'|].
    unfold droppable_fwd, fresh_chan. rewrite Ep, En. cbn [chan rrelA]. unfold erelA. cbn [e_after e_spawn e_newch e_close e_out arelA].
    split; [|split; [|split; [|split]]]; try reflexivity.
    + unfold prelA, set_body. cbn [pr_provs pr_body0 pr_next]. split; [reflexivity|]. split; [reflexivity|]. now apply aeq_nf'.
    + constructor; [|constructor]. split; [reflexivity|]. cbn [sp_body]. apply aeq_nb_refl. exact I.
  - (* print *) destruct Hb as (<- & Hk). cbn [rrelA]. unfold erelA. cbn [e_after e_spawn e_newch e_close e_out arelA].
    split; [|split; [|split; [|split]]]; try reflexivity; [|constructor].
    unfold prelA, set_body. cbn [pr_provs pr_body0 pr_next]. split; [exact Epn|]. split; [exact En|]. now apply aeq_nf'.
Qed.
