(* RtSubst.v — structural lemmas of the run-time typing (spec/RtTyping.v): weakening of the channel
   typing and of the set of self identifiers, conversion of the provided type, and the two
   substitution lemmas for `Subst.subst` — a channel for a variable (`typed_subst`), and a self name
   for the identifier that names the provider (`typed_subst_prov`). *)
From stdpp Require Import gmap strings.
Require Import Grits.Base Grits.ModeDefs Grits.Modes Grits.STypes Grits.Forms Grits.Subst Grits.TcDeps Grits.Expand
               Grits.Runtime Grits.spec.RtTyping.

Section RtSubst.
Variable D : tenv.
Variable F : list fundef.
Variable teq : sty -> sty -> Prop.
Hypothesis Hteq : teq_laws D teq.

Local Notation typed := (typed D F teq).
Local Notation typed_brs_p := (typed_brs_p D F teq).
Local Notation typed_brs_c := (typed_brs_c D F teq).
Local Notation client_ty := (client_ty teq).
Local Notation args_ok := (args_ok teq).
Local Notation whd := (whd D).

Let teq_r := teq_refl D teq Hteq.
Let teq_s := teq_sym D teq Hteq.
Let teq_t := teq_trans D teq Hteq.

(* ------------------------------------------------------------------ whd *)
Lemma whd_nonname t u : whd t u -> is_name u = false.
Proof. induction 1; auto. Qed.

Lemma whd_det t u v : whd t u -> whd t v -> u = v.
Proof.
  intros H. revert v. induction H as [t Ht|x m d u Hd Hu IH]; intros v Hv.
  - inversion Hv; subst; auto. discriminate.
  - inversion Hv; subst.
    + discriminate.
    + match goal with H1 : tlookup D x = Some ?d1 |- _ => rewrite Hd in H1; injection H1 as <- end. auto.
Qed.

Lemma whd_idem t u : whd t u -> whd u u.
Proof. intros H. constructor. eapply whd_nonname; eauto. Qed.

(* ------------------------------------------------------------------ weakening of Δ *)
Lemma client_ty_weaken Δ Δ' Γ sh n t : Δ ⊆ Δ' -> client_ty Δ Γ sh n t -> client_ty Δ' Γ sh n t.
Proof.
  intros Hs [H1 [Ha H2]]. split; auto. split; auto. destruct (chan n); auto.
  destruct H2 as [t' [H2 H3]]. exists t'. split; auto. eapply lookup_weaken; eauto.
Qed.

Lemma args_ok_weaken Δ Δ' Γ sh args ps : Δ ⊆ Δ' -> args_ok Δ Γ sh args ps -> args_ok Δ' Γ sh args ps.
Proof.
  intros Hs H. induction H as [|a p args ps [t [H1 H2]] H IH]; constructor; auto.
  exists t. split; auto. eapply client_ty_weaken; eauto.
Qed.

Lemma typed_weaken_mut Δ Δ' : Δ ⊆ Δ' ->
  (forall Γ sh rs s f, typed Δ Γ sh rs s f -> typed Δ' Γ sh rs s f) /\
  (forall Γ rs bs b, typed_brs_p Δ Γ rs bs b -> typed_brs_p Δ' Γ rs bs b) /\
  (forall Γ sh rs s bs b, typed_brs_c Δ Γ sh rs s bs b -> typed_brs_c Δ' Γ sh rs s bs b).
Proof.
  intros Hs. apply typed_mutind; intros; try (econstructor; eauto using client_ty_weaken; fail).
  eapply T_Call; eauto.
  match goal with H : _ \/ _ |- _ => destruct H as [[? ?]|[a0 [rest [? [? [? ?]]]]]] end.
  - left. split; auto. eapply args_ok_weaken; eauto.
  - right. exists a0, rest. split; [auto|]. split; [auto|]. split; [auto|]. eapply args_ok_weaken; eauto.
Qed.

Lemma typed_weaken Δ Δ' Γ sh rs s f : Δ ⊆ Δ' -> typed Δ Γ sh rs s f -> typed Δ' Γ sh rs s f.
Proof. intros Hs. apply (typed_weaken_mut Δ Δ' Hs). Qed.

Lemma prov_ty_weaken Δ Δ' n t : Δ ⊆ Δ' -> prov_ty teq Δ n t -> prov_ty teq Δ' n t.
Proof. intros Hs [c [t' [H1 [H2 H3]]]]. exists c, t'. repeat split; auto. eapply lookup_weaken; eauto. Qed.

Lemma msg_typed_weaken Δ Δ' k m : Δ ⊆ Δ' -> msg_typed D teq Δ k m -> msg_typed D teq Δ' k m.
Proof.
  intros Hs [T [HT H]]. exists T. split; [eapply lookup_weaken; eauto|].
  unfold chan_ty in *.
  destruct (m_rule m); repeat match goal with
                              | H : exists _, _ |- _ => destruct H
                              | H : _ /\ _ |- _ => destruct H
                              end; eauto 12 using client_ty_weaken, prov_ty_weaken.
  split; auto. split; auto.
  match goal with H : Forall _ (m_provs m) |- _ => eapply Forall_impl; [|exact H] end.
  intros q Hq. eapply prov_ty_weaken; eauto.
Qed.

Lemma proc_typed_weaken Δ Δ' p : Δ ⊆ Δ' -> proc_typed D F teq Δ p -> proc_typed D F teq Δ' p.
Proof.
  intros Hs [s [rs [H1 [H2 H3]]]]. exists s, rs. split; auto. split.
  - eapply Forall_impl; [|exact H2]. intros n Hn. eapply prov_ty_weaken; eauto.
  - eapply typed_weaken; eauto.
Qed.

(* ------------------------------------------------------------------ weakening of the self identifiers *)
Lemma prov_name_rs sh rs rs' n : rs ⊆ rs' -> prov_name sh rs n -> prov_name sh rs' n.
Proof.
  intros Hs [H1 H2]. split; auto.
  destruct H2 as [[H2 H3]|H2]; [left; split; auto; set_solver | right; auto].
Qed.

Lemma typed_rs_mut Δ :
  (forall Γ sh rs s f, typed Δ Γ sh rs s f -> forall rs', rs ⊆ rs' -> typed Δ Γ sh rs' s f) /\
  (forall Γ rs bs b, typed_brs_p Δ Γ rs bs b -> forall rs', rs ⊆ rs' -> typed_brs_p Δ Γ rs' bs b) /\
  (forall Γ sh rs s bs b, typed_brs_c Δ Γ sh rs s bs b -> forall rs', rs ⊆ rs' -> typed_brs_c Δ Γ sh rs' s bs b).
Proof.
  apply typed_mutind; intros;
    try (econstructor; eauto using prov_name_rs;
         match goal with IH : forall rs', _ ⊆ rs' -> _ |- _ => apply IH; set_solver end; fail).
  eapply T_Call; eauto.
  match goal with H : _ \/ _ |- _ => destruct H as [[? ?]|[a0 [rest [? [? [? ?]]]]]] end; [left; auto|].
  right. exists a0, rest. split; [auto|]. split; [auto|]. split; eauto using prov_name_rs.
Qed.

Lemma typed_rs Δ Γ sh rs rs' s f : rs ⊆ rs' -> typed Δ Γ sh rs s f -> typed Δ Γ sh rs' s f.
Proof. intros Hs H. eapply (typed_rs_mut Δ); eauto. Qed.

(* ------------------------------------------------------------------ names under substitution *)
Lemma name_subst_old_var old new n : chan old = None ->
  name_subst old new n =
    if negb (initialized n) && String.eqb (ident n) (ident old)
    then mkName (ident new) (is_self new) (pol n) (nty n) (chan new) else n.
Proof.
  intros Ho. unfold name_subst, initialized. rewrite Ho. destruct (chan n); simpl; auto.
Qed.

Lemma name_equal_binder x old : chan x = None -> chan old = None ->
  name_equal x old = String.eqb (ident x) (ident old).
Proof.
  intros Hx Ho. unfold name_equal, initialized. rewrite Hx, Ho. simpl. rewrite andb_true_r. auto.
Qed.

(* the substituted name: a channel *)
Definition is_chan_of (Δ : gmap cid sty) (new : name) (A : sty) : Prop :=
  is_self new = false /\ exists c T, chan new = Some c /\ Δ !! c = Some T /\ teq T A.

Lemma client_ty_subst Δ Γ sh old new x A n t :
  chan old = None -> ident old = x -> is_chan_of Δ new A -> sh <> Some x ->
  client_ty Δ (<[x := A]> Γ) sh n t -> client_ty Δ Γ sh (name_subst old new n) t.
Proof.
  intros Ho Hx [Hn [c [T [Hc [HT HA]]]]] Hsh [H1 [Ha H2]]. rewrite name_subst_old_var by auto.
  unfold initialized. destruct (chan n) as [d|] eqn:Ed; simpl.
  - split; auto. split; auto. rewrite Ed. auto.
  - destruct H2 as [H2 [t' [H3 H4]]]. rewrite Hx.
    destruct (String.eqb (ident n) x) eqn:E.
    + apply String.eqb_eq in E. rewrite E in H3. rewrite lookup_insert in H3. injection H3 as <-.
      split; simpl; auto. split; [exact Ha|]. rewrite Hc. exists T. split; eauto.
    + apply String.eqb_neq in E. rewrite lookup_insert_ne in H3 by auto.
      split; auto. split; auto. rewrite Ed. split; eauto.
Qed.

Lemma prov_name_subst sh rs old new x n :
  chan old = None -> ident old = x -> sh <> Some x -> x ∉ rs ->
  prov_name sh rs n -> name_subst old new n = n.
Proof.
  intros Ho Hx Hsh Hrs [H1 H2]. rewrite name_subst_old_var by auto. unfold initialized. rewrite H1. simpl.
  rewrite Hx. destruct (String.eqb (ident n) x) eqn:E; auto. apply String.eqb_eq in E. subst x.
  destruct H2 as [[_ H2]|[_ H2]]; [exfalso; apply Hrs; rewrite <- E; exact H2|congruence].
Qed.

Lemma args_ok_subst Δ Γ sh old new x A args ps :
  chan old = None -> ident old = x -> is_chan_of Δ new A -> sh <> Some x ->
  args_ok Δ (<[x := A]> Γ) sh args ps -> args_ok Δ Γ sh (map (name_subst old new) args) ps.
Proof.
  intros Ho Hx Hn Hsh H. induction H as [|a p args ps [t [H1 H2]] H IH]; simpl; constructor; auto.
  exists t. split; auto. eapply client_ty_subst; eauto.
Qed.

Lemma binder_eqb x old : pbinder x -> chan old = None ->
  name_equal x old = String.eqb (ident x) (ident old).
Proof. intros Hx Ho. apply name_equal_binder; auto. Qed.

(* finite-map identities for the binders that rebind the provider *)
Lemma ins_del_ins (Γ : gmap string sty) p c a b : <[p := a]> (delete c (<[p := b]> Γ)) = <[p := a]> (delete c Γ).
Proof.
  apply map_eq. intros i. destruct (decide (i = p)) as [->|Hp]; [rewrite !lookup_insert; auto|].
  rewrite !lookup_insert_ne by auto. destruct (decide (i = c)) as [->|Hc]; [rewrite !lookup_delete; auto|].
  rewrite !lookup_delete_ne by auto. rewrite lookup_insert_ne by auto. auto.
Qed.
Lemma del_ins_same (Γ : gmap string sty) c b : delete c (<[c := b]> Γ) = delete c Γ.
Proof. apply delete_insert_delete. Qed.
Lemma del_ins_ne (Γ : gmap string sty) c x b : c <> x -> delete c (<[x := b]> Γ) = <[x := b]> (delete c Γ).
Proof. intros H. apply delete_insert_ne. auto. Qed.
Lemma lookup_del_none (Γ : gmap string sty) c y : Γ !! y = None -> delete c Γ !! y = None.
Proof. intros H. apply lookup_delete_None. auto. Qed.

(* ------------------------------------------------------------------ a channel for a variable *)
Lemma typed_subst_mut Δ old new x A :
  chan old = None -> ident old = x -> is_chan_of Δ new A ->
  (forall Γ' sh rs s f, typed Δ Γ' sh rs s f ->
     forall Γ, Γ' = <[x := A]> Γ -> sh <> Some x -> x ∉ rs -> typed Δ Γ sh rs s (subst old new f)) /\
  (forall Γ' rs bs b, typed_brs_p Δ Γ' rs bs b ->
     forall Γ, Γ' = <[x := A]> Γ -> x ∉ rs -> typed_brs_p Δ Γ rs bs (subst_brs old new b)) /\
  (forall Γ' sh rs s bs b, typed_brs_c Δ Γ' sh rs s bs b ->
     forall Γ, Γ' = <[x := A]> Γ -> sh <> Some x -> x ∉ rs -> typed_brs_c Δ Γ sh rs s bs (subst_brs old new b)).
Proof.
  intros Ho Hx Hn.
  assert (Hcl : forall Γ sh n t, sh <> Some x -> client_ty Δ (<[x := A]> Γ) sh n t ->
                                 client_ty Δ Γ sh (name_subst old new n) t)
    by (intros; eapply client_ty_subst; eauto).
  assert (Hpr : forall sh rs n, sh <> Some x -> x ∉ rs -> prov_name sh rs n -> prov_name sh rs (name_subst old new n))
    by (intros sh rs n ? ? Hp; rewrite (prov_name_subst sh rs old new x n) by auto; exact Hp).
  apply typed_mutind.
  - (* SendP *) intros; subst; simpl. eapply T_SendP; eauto.
  - (* SendC *) intros; subst; simpl. eapply T_SendC; eauto.
  - (* RecvP *) intros Γ' sh rs s pay cont from k A0 B m Hp Hw Hbp Hbc Hne Hk IH Γ -> Hsh Hrs; simpl.
    rewrite (binder_eqb pay old), (binder_eqb cont old) by auto. rewrite Hx.
    eapply T_RecvP; eauto.
    destruct (String.eqb (ident pay) x) eqn:E1; simpl.
    { apply String.eqb_eq in E1. rewrite E1 in Hk |- *. rewrite ins_del_ins in Hk. exact Hk. }
    apply String.eqb_neq in E1.
    destruct (String.eqb (ident cont) x) eqn:E2; simpl.
    { apply String.eqb_eq in E2. rewrite E2 in Hk |- *. rewrite del_ins_same in Hk. exact Hk. }
    apply String.eqb_neq in E2.
    apply IH; [|congruence|set_solver].
    rewrite del_ins_ne by auto. apply insert_commute; auto.
  - (* RecvC *) intros Γ' sh rs s pay cont from k T A0 B m Hc Hw Hbp Hbc Hne Hs1 Hs2 Hk IH Γ -> Hsh Hrs; simpl.
    rewrite (binder_eqb pay old), (binder_eqb cont old) by auto. rewrite Hx.
    eapply T_RecvC; eauto.
    destruct (String.eqb (ident pay) x) eqn:E1; simpl.
    { apply String.eqb_eq in E1. rewrite E1 in Hk. rewrite insert_insert in Hk. rewrite E1. exact Hk. }
    apply String.eqb_neq in E1.
    destruct (String.eqb (ident cont) x) eqn:E2; simpl.
    { apply String.eqb_eq in E2. rewrite E2 in Hk.
      rewrite (insert_commute _ (ident pay) x) in Hk by auto. rewrite insert_insert in Hk. rewrite E2. exact Hk. }
    apply String.eqb_neq in E2.
    apply IH; [|auto|set_solver].
    rewrite (insert_commute _ (ident pay) x) by auto. rewrite (insert_commute _ (ident cont) x) by auto. reflexivity.
  - (* SelP *) intros; subst; simpl. eapply T_SelP; eauto.
  - (* SelC *) intros; subst; simpl. eapply T_SelC; eauto.
  - (* CaseP *) intros Γ' sh rs s from b bs m Hp Hw Hcov Hb IH Γ -> Hsh Hrs; simpl.
    eapply T_CaseP; eauto.
    intros l a Hl. specialize (Hcov l a Hl). clear -Hcov.
    induction b as [|l' p k r IHb]; simpl in *; auto. destruct (String.eqb l' l); try discriminate; auto.
  - (* CaseC *) intros Γ' sh rs s from b T bs m Hc Hw Hcov Hb IH Γ -> Hsh Hrs; simpl.
    eapply T_CaseC; eauto.
    intros l a Hl. specialize (Hcov l a Hl). clear -Hcov.
    induction b as [|l' p k r IHb]; simpl in *; auto. destruct (String.eqb l' l); try discriminate; auto.
  - (* New *) intros Γ' sh rs s y body k A0 Hb Hs1 Hbody IHb Hk IHk Γ -> Hsh Hrs; simpl.
    rewrite (binder_eqb y old) by auto. rewrite Hx.
    eapply T_New; [exact Hb | exact Hs1 | apply IHb; auto; discriminate | ].
    destruct (String.eqb (ident y) x) eqn:E1; simpl.
    { apply String.eqb_eq in E1. rewrite E1 in Hk. rewrite insert_insert in Hk. rewrite E1. exact Hk. }
    apply String.eqb_neq in E1. apply IHk; [apply insert_commute; auto|auto|set_solver].
  - (* Close *) intros; subst; simpl. eapply T_Close; eauto.
  - (* Wait *) intros; subst; simpl. eapply T_Wait; eauto.
  - (* Fwd *) intros; subst; simpl. eapply T_Fwd; eauto.
  - (* Drop *) intros; subst; simpl. eapply T_Drop; eauto.
  - (* Call *) intros Γ' sh rs s fn args pt fd tf Hg Hf Ht Hargs Γ -> Hsh Hrs; simpl.
    eapply T_Call; eauto; rewrite ?map_length; eauto.
    destruct Hargs as [[Hl Ha]|[a0 [rest [-> [Hl [Hp Ha]]]]]].
    + left. split; auto. eapply args_ok_subst; eauto.
    + right. exists (name_subst old new a0), (map (name_subst old new) rest). simpl.
      rewrite map_length. split; [auto|]. split; [auto|]. split; [auto|]. eapply args_ok_subst; eauto.
  - (* CastP *) intros; subst; simpl. eapply T_CastP; eauto.
  - (* CastC *) intros; subst; simpl. eapply T_CastC; eauto.
  - (* ShiftP *) intros Γ' sh rs s y from k fm tm A0 Hp Hw Hb Hk IH Γ -> Hsh Hrs; simpl.
    rewrite (binder_eqb y old) by auto. rewrite Hx.
    eapply T_ShiftP; eauto.
    destruct (String.eqb (ident y) x) eqn:E1; simpl.
    { apply String.eqb_eq in E1. rewrite E1 in Hk |- *. rewrite del_ins_same in Hk. exact Hk. }
    apply String.eqb_neq in E1. apply IH; [apply del_ins_ne; auto|congruence|set_solver].
  - (* ShiftC *) intros Γ' sh rs s y from k T fm tm A0 Hc Hw Hb Hs1 Hk IH Γ -> Hsh Hrs; simpl.
    rewrite (binder_eqb y old) by auto. rewrite Hx.
    eapply T_ShiftC; eauto.
    destruct (String.eqb (ident y) x) eqn:E1; simpl.
    { apply String.eqb_eq in E1. rewrite E1 in Hk. rewrite insert_insert in Hk. rewrite E1. exact Hk. }
    apply String.eqb_neq in E1. apply IH; [apply insert_commute; auto|auto|set_solver].
  - (* Split *) intros Γ' sh rs s x0 y from k T Hc Hbx Hby Hne Hs1 Hs2 Hk IH Γ -> Hsh Hrs; simpl.
    rewrite (binder_eqb x0 old), (binder_eqb y old) by auto. rewrite Hx.
    eapply T_Split; eauto.
    destruct (String.eqb (ident x0) x) eqn:E1; simpl.
    { apply String.eqb_eq in E1. rewrite E1 in Hk. rewrite insert_insert in Hk. rewrite E1. exact Hk. }
    apply String.eqb_neq in E1.
    destruct (String.eqb (ident y) x) eqn:E2; simpl.
    { apply String.eqb_eq in E2. rewrite E2 in Hk.
      rewrite (insert_commute _ (ident x0) x) in Hk by auto. rewrite insert_insert in Hk. rewrite E2. exact Hk. }
    apply String.eqb_neq in E2.
    apply IH; [|auto|set_solver].
    rewrite (insert_commute _ (ident x0) x) by auto. rewrite (insert_commute _ (ident y) x) by auto. reflexivity.
  - (* Print *) intros; subst; simpl. eapply T_Print; eauto.
  - (* brs_p nil *) intros; simpl. constructor.
  - (* brs_p cons *) intros Γ' rs bs l pay k r A0 Hf Hb Hk IHk Hr IHr Γ -> Hrs; simpl.
    rewrite (binder_eqb pay old) by auto. rewrite Hx.
    eapply TBP_cons; eauto.
    destruct (String.eqb (ident pay) x) eqn:E1; simpl.
    { apply String.eqb_eq in E1. rewrite E1 in Hk |- *. rewrite del_ins_same in Hk. exact Hk. }
    apply String.eqb_neq in E1. apply IHk; [apply del_ins_ne; auto|congruence|set_solver].
  - (* brs_c nil *) intros; simpl. constructor.
  - (* brs_c cons *) intros Γ' sh rs s bs l pay k r A0 Hf Hb Hs1 Hk IHk Hr IHr Γ -> Hsh Hrs; simpl.
    rewrite (binder_eqb pay old) by auto. rewrite Hx.
    eapply TBC_cons; eauto.
    destruct (String.eqb (ident pay) x) eqn:E1; simpl.
    { apply String.eqb_eq in E1. rewrite E1 in Hk. rewrite insert_insert in Hk. rewrite E1. exact Hk. }
    apply String.eqb_neq in E1. apply IHk; [apply insert_commute; auto|auto|set_solver].
Qed.

Lemma typed_subst Δ Γ sh rs s f old new A :
  chan old = None -> is_chan_of Δ new A -> sh <> Some (ident old) -> ident old ∉ rs ->
  typed Δ (<[ident old := A]> Γ) sh rs s f -> typed Δ Γ sh rs s (subst old new f).
Proof. intros Ho Hn Hsh Hrs H. eapply (typed_subst_mut Δ old new (ident old) A); eauto. Qed.

(* ------------------------------------------------------------------ a self name for the identifier naming the provider
   (fires with the binder of a receive / case / shift on self, and with an explicit provider at a call) *)
Definition unshadow (y : string) (sh : option string) : option string :=
  if decide (sh = Some y) then None else sh.

Lemma unshadow_ne y sh z : sh <> Some z -> unshadow y sh <> Some z.
Proof. unfold unshadow. destruct (decide (sh = Some y)); try discriminate; auto. Qed.
Lemma unshadow_other y sh : sh <> Some y -> unshadow y sh = sh.
Proof. unfold unshadow. destruct (decide (sh = Some y)); try contradiction; auto. Qed.

Lemma prov_name_subst_prov sh rs old y n :
  chan old = None -> ident old = y ->
  prov_name sh rs n -> prov_name (unshadow y sh) (rs ∪ {[""]}) (name_subst old (new_self "") n).
Proof.
  intros Ho Hy [H1 H2]. rewrite name_subst_old_var by auto. unfold initialized. rewrite H1. simpl. rewrite Hy.
  destruct (String.eqb (ident n) y) eqn:E.
  - split; simpl; auto. left. split; auto. set_solver.
  - apply String.eqb_neq in E. split; auto. destruct H2 as [[H2 H3]|[H2 H3]].
    + left. split; auto. set_solver.
    + right. split; auto. rewrite unshadow_other; auto. congruence.
Qed.

Lemma client_ty_subst_prov Δ Γ sh old y n t :
  chan old = None -> ident old = y -> Γ !! y = None ->
  client_ty Δ Γ sh n t -> client_ty Δ Γ (unshadow y sh) (name_subst old (new_self "") n) t.
Proof.
  intros Ho Hy Hfr [H1 [Ha H2]]. rewrite name_subst_old_var by auto. unfold initialized.
  destruct (chan n) as [d|] eqn:Ed; simpl.
  - split; auto. split; auto. rewrite Ed. auto.
  - destruct H2 as [H2 [t' [H3 H4]]]. rewrite Hy.
    destruct (String.eqb (ident n) y) eqn:E.
    + apply String.eqb_eq in E. rewrite E in H3. congruence.
    + split; auto. split; auto. rewrite Ed. split; eauto using unshadow_ne.
Qed.

Lemma args_ok_subst_prov Δ Γ sh old y args ps :
  chan old = None -> ident old = y -> Γ !! y = None ->
  args_ok Δ Γ sh args ps -> args_ok Δ Γ (unshadow y sh) (map (name_subst old (new_self "")) args) ps.
Proof.
  intros Ho Hy Hfr H. induction H as [|a p args ps [t [H1 H2]] H IH]; simpl; constructor; auto.
  exists t. split; auto. eapply client_ty_subst_prov; eauto.
Qed.

Lemma covers_subst bs old new b : covers bs b -> covers bs (subst_brs old new b).
Proof.
  intros Hcov l a Hl. specialize (Hcov l a Hl). clear -Hcov.
  induction b as [|l' p k r IHb]; simpl in *; auto. destruct (String.eqb l' l); try discriminate; auto.
Qed.

Lemma typed_subst_prov_mut Δ old y :
  chan old = None -> ident old = y ->
  (forall Γ sh rs s f, typed Δ Γ sh rs s f -> Γ !! y = None ->
     typed Δ Γ (unshadow y sh) (rs ∪ {[""]}) s (subst old (new_self "") f)) /\
  (forall Γ rs bs b, typed_brs_p Δ Γ rs bs b -> Γ !! y = None ->
     typed_brs_p Δ Γ (rs ∪ {[""]}) bs (subst_brs old (new_self "") b)) /\
  (forall Γ sh rs s bs b, typed_brs_c Δ Γ sh rs s bs b -> Γ !! y = None ->
     typed_brs_c Δ Γ (unshadow y sh) (rs ∪ {[""]}) s bs (subst_brs old (new_self "") b)).
Proof.
  intros Ho Hy.
  assert (Hcl : forall Γ sh n t, Γ !! y = None -> client_ty Δ Γ sh n t ->
                                 client_ty Δ Γ (unshadow y sh) (name_subst old (new_self "") n) t)
    by (intros; eapply client_ty_subst_prov; eauto).
  assert (Hpr : forall sh rs n, prov_name sh rs n ->
                                prov_name (unshadow y sh) (rs ∪ {[""]}) (name_subst old (new_self "") n))
    by (intros; eapply prov_name_subst_prov; eauto).
  apply typed_mutind.
  - (* SendP *) intros; simpl. eapply T_SendP; eauto.
  - (* SendC *) intros; simpl. eapply T_SendC; eauto.
  - (* RecvP *) intros Γ sh rs s pay cont from k A0 B m Hp Hw Hbp Hbc Hne Hk IH Hfr; simpl.
    rewrite (binder_eqb pay old), (binder_eqb cont old) by auto. rewrite Hy.
    destruct Hbp as [Hbp1 Hbp2].
    eapply T_RecvP; eauto; try (split; auto).
    destruct (String.eqb (ident pay) y) eqn:E1; simpl.
    { eapply typed_rs; [|exact Hk]. set_solver. }
    destruct (String.eqb (ident cont) y) eqn:E2; simpl.
    { eapply typed_rs; [|exact Hk]. set_solver. }
    apply String.eqb_neq in E1. apply String.eqb_neq in E2.
    eapply typed_rs; [|rewrite <- (unshadow_other y (Some (ident cont))) by congruence; apply IH].
    + set_solver.
    + rewrite lookup_insert_ne by auto. apply lookup_del_none; auto.
  - (* RecvC *) intros Γ sh rs s pay cont from k T A0 B m Hc Hw Hbp Hbc Hne Hs1 Hs2 Hk IH Hfr; simpl.
    rewrite (binder_eqb pay old), (binder_eqb cont old) by auto. rewrite Hy.
    destruct Hbp as [Hbp1 Hbp2]. destruct Hbc as [Hbc1 Hbc2].
    eapply T_RecvC; eauto using unshadow_ne; try (split; auto).
    destruct (String.eqb (ident pay) y) eqn:E1; simpl.
    { apply String.eqb_eq in E1. rewrite unshadow_other by congruence. eapply typed_rs; [|exact Hk]. set_solver. }
    destruct (String.eqb (ident cont) y) eqn:E2; simpl.
    { apply String.eqb_eq in E2. rewrite unshadow_other by congruence. eapply typed_rs; [|exact Hk]. set_solver. }
    apply String.eqb_neq in E1. apply String.eqb_neq in E2.
    eapply typed_rs; [|apply IH].
    + set_solver.
    + rewrite !lookup_insert_ne; auto.
  - (* SelP *) intros; simpl. eapply T_SelP; eauto.
  - (* SelC *) intros; simpl. eapply T_SelC; eauto.
  - (* CaseP *) intros Γ sh rs s from b bs m Hp Hw Hcov Hb IH Hfr; simpl.
    eapply T_CaseP; eauto using covers_subst.
  - (* CaseC *) intros Γ sh rs s from b T bs m Hc Hw Hcov Hb IH Hfr; simpl.
    eapply T_CaseC; eauto using covers_subst.
  - (* New *) intros Γ sh rs s x body k A0 Hb Hs1 Hbody IHb Hk IHk Hfr; simpl.
    rewrite (binder_eqb x old) by auto. rewrite Hy. destruct Hb as [Hb1 Hb2].
    eapply T_New; [split; auto | eauto using unshadow_ne | apply (IHb Hfr) | ].
    destruct (String.eqb (ident x) y) eqn:E1; simpl.
    { apply String.eqb_eq in E1. rewrite unshadow_other by congruence. eapply typed_rs; [|exact Hk]. set_solver. }
    apply String.eqb_neq in E1.
    eapply typed_rs; [|apply IHk].
    + set_solver.
    + rewrite lookup_insert_ne; auto.
  - (* Close *) intros; simpl. eapply T_Close; eauto.
  - (* Wait *) intros; simpl. eapply T_Wait; eauto.
  - (* Fwd *) intros; simpl. eapply T_Fwd; eauto.
  - (* Drop *) intros; simpl. eapply T_Drop; eauto.
  - (* Call *) intros Γ sh rs s fn args pt fd tf Hg Hf Ht Hargs Hfr; simpl.
    eapply T_Call; eauto; rewrite ?map_length; eauto.
    destruct Hargs as [[Hl Ha]|[a0 [rest [-> [Hl [Hp Ha]]]]]].
    + left. split; auto. eapply args_ok_subst_prov; eauto.
    + right. exists (name_subst old (new_self "") a0), (map (name_subst old (new_self "")) rest). simpl.
      rewrite map_length. split; [auto|]. split; [auto|]. split; [auto|]. eapply args_ok_subst_prov; eauto.
  - (* CastP *) intros; simpl. eapply T_CastP; eauto.
  - (* CastC *) intros; simpl. eapply T_CastC; eauto.
  - (* ShiftP *) intros Γ sh rs s x from k fm tm A0 Hp Hw Hb Hk IH Hfr; simpl.
    rewrite (binder_eqb x old) by auto. rewrite Hy.
    eapply T_ShiftP; eauto.
    destruct (String.eqb (ident x) y) eqn:E1; simpl.
    { eapply typed_rs; [|exact Hk]. set_solver. }
    apply String.eqb_neq in E1.
    eapply typed_rs; [|rewrite <- (unshadow_other y (Some (ident x))) by congruence; apply IH; apply lookup_del_none; auto].
    set_solver.
  - (* ShiftC *) intros Γ sh rs s x from k T fm tm A0 Hc Hw Hb Hs1 Hk IH Hfr; simpl.
    rewrite (binder_eqb x old) by auto. rewrite Hy. destruct Hb as [Hb1 Hb2].
    eapply T_ShiftC; eauto using unshadow_ne; try (split; auto).
    destruct (String.eqb (ident x) y) eqn:E1; simpl.
    { apply String.eqb_eq in E1. rewrite unshadow_other by congruence. eapply typed_rs; [|exact Hk]. set_solver. }
    apply String.eqb_neq in E1.
    eapply typed_rs; [|apply IH].
    + set_solver.
    + rewrite lookup_insert_ne; auto.
  - (* Split *) intros Γ sh rs s x y0 from k T Hc Hbx Hby Hne Hs1 Hs2 Hk IH Hfr; simpl.
    rewrite (binder_eqb x old), (binder_eqb y0 old) by auto. rewrite Hy.
    destruct Hbx as [Hbx1 Hbx2]. destruct Hby as [Hby1 Hby2].
    eapply T_Split; eauto using unshadow_ne; try (split; auto).
    destruct (String.eqb (ident x) y) eqn:E1; simpl.
    { apply String.eqb_eq in E1. rewrite unshadow_other by congruence. eapply typed_rs; [|exact Hk]. set_solver. }
    destruct (String.eqb (ident y0) y) eqn:E2; simpl.
    { apply String.eqb_eq in E2. rewrite unshadow_other by congruence. eapply typed_rs; [|exact Hk]. set_solver. }
    apply String.eqb_neq in E1. apply String.eqb_neq in E2.
    eapply typed_rs; [|apply IH].
    + set_solver.
    + rewrite !lookup_insert_ne; auto.
  - (* Print *) intros; simpl. eapply T_Print; eauto.
  - (* brs_p nil *) intros; simpl. constructor.
  - (* brs_p cons *) intros Γ rs bs l pay k r A0 Hf Hb Hk IHk Hr IHr Hfr; simpl.
    rewrite (binder_eqb pay old) by auto. rewrite Hy.
    eapply TBP_cons; eauto.
    destruct (String.eqb (ident pay) y) eqn:E1; simpl.
    { eapply typed_rs; [|exact Hk]. set_solver. }
    apply String.eqb_neq in E1.
    eapply typed_rs; [|rewrite <- (unshadow_other y (Some (ident pay))) by congruence; apply IHk; apply lookup_del_none; auto].
    set_solver.
  - (* brs_c nil *) intros; simpl. constructor.
  - (* brs_c cons *) intros Γ sh rs s bs l pay k r A0 Hf Hb Hs1 Hk IHk Hr IHr Hfr; simpl.
    rewrite (binder_eqb pay old) by auto. rewrite Hy. destruct Hb as [Hb1 Hb2].
    eapply TBC_cons; eauto using unshadow_ne; try (split; auto).
    destruct (String.eqb (ident pay) y) eqn:E1; simpl.
    { apply String.eqb_eq in E1. rewrite unshadow_other by congruence. eapply typed_rs; [|exact Hk]. set_solver. }
    apply String.eqb_neq in E1.
    eapply typed_rs; [|apply IHk].
    + set_solver.
    + rewrite lookup_insert_ne; auto.
Qed.

(* the binder of a receive / case / shift on self fires *)
Lemma typed_subst_shadow Δ Γ rs s f old :
  chan old = None -> Γ !! ident old = None ->
  typed Δ Γ (Some (ident old)) rs s f -> typed Δ Γ None (rs ∪ {[""]}) s (subst old (new_self "") f).
Proof.
  intros Ho Hfr H. pose proof (proj1 (typed_subst_prov_mut Δ old (ident old) Ho eq_refl) _ _ _ _ _ H Hfr) as H'.
  unfold unshadow in H'. rewrite decide_True in H' by auto. exact H'.
Qed.

(* the explicit provider of a function is instantiated at a call *)
Lemma typed_subst_explicit Δ Γ rs s f old :
  chan old = None -> Γ !! ident old = None ->
  typed Δ Γ None rs s f -> typed Δ Γ None (rs ∪ {[""]}) s (subst old (new_self "") f).
Proof.
  intros Ho Hfr H. exact (proj1 (typed_subst_prov_mut Δ old (ident old) Ho eq_refl) _ _ _ _ _ H Hfr).
Qed.

(* ------------------------------------------------------------------ a name that is not free is not touched *)
Lemma client_ty_subst_id Δ Γ sh old new x n t :
  chan old = None -> ident old = x -> Γ !! x = None ->
  client_ty Δ Γ sh n t -> name_subst old new n = n.
Proof.
  intros Ho Hx Hfr [H1 [_ H2]]. rewrite name_subst_old_var by auto. unfold initialized.
  destruct (chan n) as [d|]; simpl; auto.
  destruct H2 as [_ [t' [H3 _]]]. rewrite Hx.
  destruct (String.eqb (ident n) x) eqn:E; auto. apply String.eqb_eq in E. rewrite E in H3. congruence.
Qed.

Lemma args_ok_subst_id Δ Γ sh old new x args ps :
  chan old = None -> ident old = x -> Γ !! x = None ->
  args_ok Δ Γ sh args ps -> map (name_subst old new) args = args.
Proof.
  intros Ho Hx Hfr H. induction H as [|a p args ps [t [H1 H2]] H IH]; simpl; auto.
  rewrite IH. erewrite client_ty_subst_id; eauto.
Qed.

Lemma subst_id_mut Δ old new x :
  chan old = None -> ident old = x ->
  (forall Γ sh rs s f, typed Δ Γ sh rs s f -> Γ !! x = None -> sh <> Some x -> x ∉ rs -> subst old new f = f) /\
  (forall Γ rs bs b, typed_brs_p Δ Γ rs bs b -> Γ !! x = None -> x ∉ rs -> subst_brs old new b = b) /\
  (forall Γ sh rs s bs b, typed_brs_c Δ Γ sh rs s bs b -> Γ !! x = None -> sh <> Some x -> x ∉ rs ->
     subst_brs old new b = b).
Proof.
  intros Ho Hx.
  assert (Hcl : forall Γ sh n t, Γ !! x = None -> client_ty Δ Γ sh n t -> name_subst old new n = n)
    by (intros; eapply client_ty_subst_id; eauto).
  assert (Hpr : forall sh rs n, sh <> Some x -> x ∉ rs -> prov_name sh rs n -> name_subst old new n = n)
    by (intros; eapply prov_name_subst; eauto).
  apply typed_mutind; intros; simpl;
    repeat match goal with
           | H : binder ?b |- context [name_equal ?b old] => rewrite (binder_eqb b old) by auto
           | H : pbinder ?b |- context [name_equal ?b old] => rewrite (binder_eqb b old) by auto
           end; rewrite ?Hx;
    repeat match goal with
           | H : prov_name ?sh ?rs ?n |- context [name_subst old new ?n] => rewrite (Hpr sh rs n) by assumption
           | H : RtTyping.client_ty _ _ ?G ?sh ?n ?t |- context [name_subst old new ?n] =>
             rewrite (Hcl G sh n t) by assumption
           end.
  - (* SendP *) reflexivity.
  - (* SendC *) reflexivity.
  - (* RecvP *) f_equal.
    destruct (String.eqb (ident pay) x) eqn:E1; simpl; auto.
    destruct (String.eqb (ident cont) x) eqn:E2; simpl; auto.
    apply String.eqb_neq in E1. apply String.eqb_neq in E2.
    match goal with IH : _ -> _ -> _ -> subst old new k = k |- _ => apply IH end;
      [rewrite lookup_insert_ne by auto; apply lookup_del_none; auto | congruence | set_solver].
  - (* RecvC *) f_equal.
    destruct (String.eqb (ident pay) x) eqn:E1; simpl; auto.
    destruct (String.eqb (ident cont) x) eqn:E2; simpl; auto.
    apply String.eqb_neq in E1. apply String.eqb_neq in E2.
    match goal with IH : _ -> _ -> _ -> subst old new k = k |- _ => apply IH end;
      [rewrite !lookup_insert_ne; auto | auto | set_solver].
  - (* SelP *) reflexivity.
  - (* SelC *) reflexivity.
  - (* CaseP *) f_equal. eauto.
  - (* CaseC *) f_equal. eauto.
  - (* New *)
    match goal with IHb : _ -> _ -> _ -> subst old new body = body |- _ => rewrite IHb by (auto; discriminate) end.
    f_equal. destruct (String.eqb (ident x0) x) eqn:E1; simpl; auto. apply String.eqb_neq in E1.
    match goal with IH : _ -> _ -> _ -> subst old new k = k |- _ => apply IH end;
      [rewrite lookup_insert_ne; auto | auto | set_solver].
  - (* Close *) reflexivity.
  - (* Wait *) f_equal. eauto.
  - (* Fwd *) reflexivity.
  - (* Drop *) f_equal. eauto.
  - (* Call *)
    match goal with H : _ \/ _ |- _ => destruct H as [[? Ha]|[a0 [rest [-> [? [Hp Ha]]]]]] end.
    + erewrite args_ok_subst_id; eauto.
    + simpl. rewrite (Hpr sh rs a0) by assumption. erewrite args_ok_subst_id; eauto.
  - (* CastP *) reflexivity.
  - (* CastC *) reflexivity.
  - (* ShiftP *) f_equal.
    destruct (String.eqb (ident x0) x) eqn:E1; simpl; auto. apply String.eqb_neq in E1.
    match goal with IH : _ -> _ -> _ -> subst old new k = k |- _ => apply IH end;
      [apply lookup_del_none; auto | congruence | set_solver].
  - (* ShiftC *) f_equal.
    destruct (String.eqb (ident x0) x) eqn:E1; simpl; auto. apply String.eqb_neq in E1.
    match goal with IH : _ -> _ -> _ -> subst old new k = k |- _ => apply IH end;
      [rewrite lookup_insert_ne; auto | auto | set_solver].
  - (* Split *) f_equal.
    destruct (String.eqb (ident x0) x) eqn:E1; simpl; auto.
    destruct (String.eqb (ident y) x) eqn:E2; simpl; auto.
    apply String.eqb_neq in E1. apply String.eqb_neq in E2.
    match goal with IH : _ -> _ -> _ -> subst old new k = k |- _ => apply IH end;
      [rewrite !lookup_insert_ne; auto | auto | set_solver].
  - (* Print *) f_equal. eauto.
  - reflexivity.
  - (* brs_p cons *) f_equal; [|eauto].
    destruct (String.eqb (ident pay) x) eqn:E1; simpl; auto. apply String.eqb_neq in E1.
    match goal with IH : _ -> _ -> _ -> subst old new k = k |- _ => apply IH end;
      [apply lookup_del_none; auto | congruence | set_solver].
  - reflexivity.
  - (* brs_c cons *) f_equal; [|eauto].
    destruct (String.eqb (ident pay) x) eqn:E1; simpl; auto. apply String.eqb_neq in E1.
    match goal with IH : _ -> _ -> _ -> subst old new k = k |- _ => apply IH end;
      [rewrite lookup_insert_ne; auto | auto | set_solver].
Qed.

Lemma subst_not_free Δ Γ sh rs s f old new :
  chan old = None -> Γ !! ident old = None -> sh <> Some (ident old) -> ident old ∉ rs ->
  typed Δ Γ sh rs s f -> subst old new f = f.
Proof. intros Ho Hfr Hsh Hrs H. eapply (subst_id_mut Δ old new (ident old)); eauto. Qed.

(* ------------------------------------------------------------------ a channel for a channel (the copies made by DUP) *)
Lemma cid_eqb_eq a b : cid_eqb a b = true <-> a = b.
Proof. unfold cid_eqb. destruct (list_eq_dec Nat.eq_dec a b); split; auto; discriminate. Qed.

Lemma name_subst_old_chan old new n d : chan old = Some d ->
  name_subst old new n =
    if match chan n with Some c => cid_eqb c d | None => false end
    then mkName (if String.eqb (ident new) "" then ident n else ident new) (is_self new) (pol n) (nty n) (chan new)
    else n.
Proof.
  intros Ho. unfold name_subst, initialized. rewrite Ho. destruct (chan n) as [c|]; simpl; auto.
Qed.

Lemma name_equal_binder_chan x old d : chan x = None -> chan old = Some d -> name_equal x old = false.
Proof. intros Hx Ho. unfold name_equal, initialized. rewrite Hx, Ho. simpl. apply andb_false_r. Qed.

(* the new channel has the type of the old one *)
Definition same_type (Δ : gmap cid sty) (d e : cid) : Prop :=
  forall T, Δ !! d = Some T -> exists T', Δ !! e = Some T' /\ teq T' T.

Lemma client_ty_subst_chan Δ Γ sh old new d e n t :
  chan old = Some d -> is_self new = false -> chan new = Some e -> same_type Δ d e ->
  client_ty Δ Γ sh n t -> client_ty Δ Γ sh (name_subst old new n) t.
Proof.
  intros Ho Hn He Hsame [H1 [Ha H2]]. rewrite (name_subst_old_chan old new n d Ho).
  destruct (chan n) as [c|] eqn:Ec; [|split; auto; split; auto; rewrite Ec; auto].
  destruct (cid_eqb c d) eqn:E; [|split; auto; split; auto; rewrite Ec; auto].
  apply cid_eqb_eq in E. subst c. destruct H2 as [t' [H2 H3]].
  destruct (Hsame t' H2) as [T' [HT' Hteq']].
  split; auto. split; [exact Ha|]. simpl. rewrite He. exists T'. split; eauto.
Qed.

Lemma prov_name_subst_chan sh rs old new d n : chan old = Some d -> prov_name sh rs n -> name_subst old new n = n.
Proof. intros Ho [H1 _]. rewrite (name_subst_old_chan old new n d Ho). rewrite H1. reflexivity. Qed.

Lemma args_ok_subst_chan Δ Γ sh old new d e args ps :
  chan old = Some d -> is_self new = false -> chan new = Some e -> same_type Δ d e ->
  args_ok Δ Γ sh args ps -> args_ok Δ Γ sh (map (name_subst old new) args) ps.
Proof.
  intros Ho Hn He Hsame H. induction H as [|a p args ps [t [H1 H2]] H IH]; simpl; constructor; auto.
  exists t. split; auto. eapply client_ty_subst_chan; eauto.
Qed.

Lemma typed_subst_chan_mut Δ old new d e :
  chan old = Some d -> is_self new = false -> chan new = Some e -> same_type Δ d e ->
  (forall Γ sh rs s f, typed Δ Γ sh rs s f -> typed Δ Γ sh rs s (subst old new f)) /\
  (forall Γ rs bs b, typed_brs_p Δ Γ rs bs b -> typed_brs_p Δ Γ rs bs (subst_brs old new b)) /\
  (forall Γ sh rs s bs b, typed_brs_c Δ Γ sh rs s bs b -> typed_brs_c Δ Γ sh rs s bs (subst_brs old new b)).
Proof.
  intros Ho Hn He Hsame.
  assert (Hcl : forall Γ sh n t, client_ty Δ Γ sh n t -> client_ty Δ Γ sh (name_subst old new n) t)
    by (intros; eapply client_ty_subst_chan; eauto).
  assert (Hpr : forall sh rs n, prov_name sh rs n -> prov_name sh rs (name_subst old new n))
    by (intros sh rs n Hp; rewrite (prov_name_subst_chan sh rs old new d n) by auto; exact Hp).
  assert (Hbe : forall x, pbinder x -> name_equal x old = false)
    by (intros x Hx; eapply name_equal_binder_chan; eauto).
  apply typed_mutind; intros; simpl;
    repeat match goal with
           | H : binder ?b |- context [name_equal ?b old] => rewrite (Hbe b (binder_pbinder b H))
           | H : pbinder ?b |- context [name_equal ?b old] => rewrite (Hbe b H)
           end; simpl;
    try (econstructor; eauto using covers_subst; fail).
  (* Call *)
  eapply T_Call; eauto; rewrite ?map_length; eauto.
  match goal with H : _ \/ _ |- _ => destruct H as [[Hl Ha]|[a0 [rest [-> [Hl [Hp Ha]]]]]] end.
  - left. split; auto. eapply args_ok_subst_chan; eauto.
  - right. exists (name_subst old new a0), (map (name_subst old new) rest). simpl.
    rewrite map_length. split; [auto|]. split; [auto|]. split; [auto|]. eapply args_ok_subst_chan; eauto.
Qed.

Lemma typed_subst_chan Δ Γ sh rs s f old new d e :
  chan old = Some d -> is_self new = false -> chan new = Some e -> same_type Δ d e ->
  typed Δ Γ sh rs s f -> typed Δ Γ sh rs s (subst old new f).
Proof. intros Ho Hn He Hs H. eapply (typed_subst_chan_mut Δ old new d e); eauto. Qed.

End RtSubst.
