(* SaxNP.v — C04 (results agree with the SAX semantics) in the NON-POLARIZED mode (Runtime.NP, the CLI's --sync).
   1. plain programs (no forward, no drop, no split in any body, one provider name per process —
      DeterminismNP.plain_src_b on the SOURCE): the NP run under any oracle IS the synchronous run under
      that oracle (DeterminismNP.np_run_sync), so the labels of every NP run are printed by an execution of
      spec/Sax.v from the program's own SAX configuration (SaxSplit.prints_admitted_all at md := Sync).
      plain_src_b implies single_decls of the accepted program (typecheck keeps the provider lists). *)
From stdpp Require Import gmap strings sorting.
Require Import Grits.Base Grits.ModeDefs Grits.Modes Grits.STypes Grits.Forms Grits.Subst Grits.TcDeps Grits.Expand
               Grits.Tc Grits.TcTop Grits.Runtime Grits.spec.Sax.
Require Import Grits.proofs.TcShape Grits.proofs.TcShapeTop Grits.proofs.PlainNP Grits.proofs.DeterminismNP
               Grits.proofs.RtTheorems Grits.proofs.RtStaticCheck Grits.proofs.SrcAll Grits.proofs.Causality
               Grits.proofs.DeterminismAll Grits.proofs.SaxRefine Grits.proofs.SaxSplit.

Lemma plain_src_single_decls p p' : typecheck p = Accept p' -> plain_src_b p = true -> single_decls p' = true.
Proof.
  intros Ha Hpl. destruct (typecheck_erase p p' Ha) as (_ & Sp & _).
  unfold plain_src_b in Hpl. apply andb_true_iff in Hpl as [_ Hpp]. rewrite forallb_forall in Hpp.
  unfold single_decls. rewrite forallb_forall. intros pd' Hin'.
  destruct (TypingSoundTop.Forall2_In_r _ _ _ _ Sp Hin') as (pd & Hin & _ & Epv).
  specialize (Hpp pd Hin). apply andb_true_iff in Hpp as [_ H2]. by rewrite Epv.
Qed.

(* C04, results, NP mode, plain programs: premises = parses, accepted, closed, plain_src_b on the source *)
Theorem prints_admitted_np_plain txt p p' :
  parse_string txt = POk p -> typecheck p = Accept p' -> in_fragment p' -> plain_src_b p = true ->
  forall fuel pick, exists C',
    sax_steps (p_funs p') true (sax_init p')
      (labels (res_config (exec_run fuel pick NP (p_types p') (p_funs p') (init_config p')))) C'.
Proof.
  intros Hp Ha Hf Hpl fuel pick. rewrite (np_run_sync p p' fuel pick Ha Hpl).
  exact (prints_admitted_all Sync txt p p' eq_refl Hp Ha Hf (plain_src_single_decls p p' Ha Hpl) fuel pick).
Qed.

(* all three modes at once for plain programs *)
Theorem prints_admitted_plain_modes md txt p p' :
  parse_string txt = POk p -> typecheck p = Accept p' -> in_fragment p' -> plain_src_b p = true ->
  forall fuel pick, exists C',
    sax_steps (p_funs p') true (sax_init p')
      (labels (res_config (exec_run fuel pick md (p_types p') (p_funs p') (init_config p')))) C'.
Proof.
  intros Hp Ha Hf Hpl. destruct md.
  - exact (prints_admitted_all Async txt p p' eq_refl Hp Ha Hf (plain_src_single_decls p p' Ha Hpl)).
  - exact (prints_admitted_all Sync txt p p' eq_refl Hp Ha Hf (plain_src_single_decls p p' Ha Hpl)).
  - exact (prints_admitted_np_plain txt p p' Hp Ha Hf Hpl).
Qed.

(* the first sentence of C04 for plain programs in the NP mode: admitted by Sax.v, and every NP schedule
   prints the same multiset (DeterminismNP.determinism_np_plain; all_src_b is a theorem for parsed programs) *)
Theorem results_unique_admitted_np_plain txt p p' pick1 f1 t1 :
  parse_string txt = POk p -> typecheck p = Accept p' -> in_fragment p' -> plain_src_b p = true ->
  exec_run f1 pick1 NP (p_types p') (p_funs p') (init_config p') = RQuiescent t1 ->
  (exists C', sax_steps (p_funs p') true (sax_init p') (labels t1) C') /\
  (forall pick2 f2, (f1 <= f2)%nat ->
     exists t2, exec_run f2 pick2 NP (p_types p') (p_funs p') (init_config p') = RQuiescent t2 /\ labels t2 ≡ₚ labels t1).
Proof.
  intros Hp Ha Hf Hpl Hrun. split.
  - destruct (prints_admitted_np_plain txt p p' Hp Ha Hf Hpl f1 pick1) as [C' HC]. rewrite Hrun in HC. eauto.
  - intros pick2 f2 Hle.
    assert (np_src_b p = true) as Hsrc.
    { unfold np_src_b. by rewrite (SrcAll.all_src_parsed txt p p' Hp Ha), Hpl. }
    destruct (determinism_np_plain txt p p' pick1 pick2 f1 f2 t1 Hp Ha Hf Hsrc Hrun Hle) as (t2 & H2 & _ & Hperm). eauto.
Qed.

(* the premises as one computable verdict on the text (driver `c04np`) *)
Definition c04_np_plain_text (txt : string) : bool :=
  match parse_string txt with
  | POk p => match typecheck p with Accept p' => in_fragment_b p' && plain_src_b p | _ => false end
  | _ => false
  end.

Theorem prints_admitted_np_plain_text txt : c04_np_plain_text txt = true ->
  exists p p', parse_string txt = POk p /\ typecheck p = Accept p' /\
  forall md fuel pick, exists C',
    sax_steps (p_funs p') true (sax_init p')
      (labels (res_config (exec_run fuel pick md (p_types p') (p_funs p') (init_config p')))) C'.
Proof.
  unfold c04_np_plain_text. destruct (parse_string txt) as [p| | |] eqn:Hp; try discriminate.
  destruct (typecheck p) as [p'| | |] eqn:Ha; try discriminate.
  intros [Hf Hc]%andb_prop. exists p, p'. split; [done|]. split; [done|]. intros md.
  apply (prints_admitted_plain_modes md txt p p' Hp Ha); [by apply in_fragment_b_sound|done].
Qed.
