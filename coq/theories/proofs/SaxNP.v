(* SaxNP.v — C04 (results agree with the SAX semantics) in the NON-POLARIZED mode (Runtime.NP, the CLI's --sync).
   1. plain programs (no forward, no drop, no split in any body, one provider name per process —
      DeterminismNP.plain_src_b on the SOURCE): the NP run under any oracle IS the synchronous run under
      that oracle (DeterminismNP.np_run_sync), so the labels of every NP run are printed by an execution of
      spec/Sax.v from the program's own SAX configuration (SaxSplit.prints_admitted_all at md := Sync).
      plain_src_b implies single_decls of the accepted program (typecheck keeps the provider lists). *)
From stdpp Require Import gmap strings sorting.
Require Import Grits.Base Grits.ModeDefs Grits.Modes Grits.STypes Grits.Forms Grits.Subst Grits.TcDeps Grits.Expand
               Grits.Tc Grits.TcTop Grits.Runtime Grits.spec.Sax.
Require Import Grits.proofs.TcShape Grits.proofs.TcShapeTop Grits.proofs.PlainNP Grits.proofs.DeterminismNP
               Grits.proofs.RtTheorems Grits.proofs.RtStaticCheck Grits.proofs.SrcAll Grits.proofs.Causality
               Grits.proofs.DeterminismAll Grits.proofs.SaxRefine Grits.proofs.SaxSplit.

Lemma plain_src_single_decls p p' : typecheck p = Accept p' -> plain_src_b p = true -> single_decls p' = true.
Proof.
  intros Ha Hpl. destruct (typecheck_erase p p' Ha) as (_ & Sp & _).
  unfold plain_src_b in Hpl. apply andb_true_iff in Hpl as [_ Hpp]. rewrite forallb_forall in Hpp.
  unfold single_decls. rewrite forallb_forall. intros pd' Hin'.
  destruct (TypingSoundTop.Forall2_In_r _ _ _ _ Sp Hin') as (pd & Hin & _ & Epv).
  specialize (Hpp pd Hin). apply andb_true_iff in Hpp as [_ H2]. by rewrite Epv.
Qed.

(* C04, results, NP mode, plain programs: premises = parses, accepted, closed, plain_src_b on the source *)
Theorem prints_admitted_np_plain txt p p' :
  parse_string txt = POk p -> typecheck p = Accept p' -> in_fragment p' -> plain_src_b p = true ->
  forall fuel pick, exists C',
    sax_steps (p_funs p') true (sax_init p')
      (labels (res_config (exec_run fuel pick NP (p_types p') (p_funs p') (init_config p')))) C'.
Proof.
  intros Hp Ha Hf Hpl fuel pick. rewrite (np_run_sync p p' fuel pick Ha Hpl).
  exact (prints_admitted_all Sync txt p p' eq_refl Hp Ha Hf (plain_src_single_decls p p' Ha Hpl) fuel pick).
Qed.

(* all three modes at once for plain programs *)
Theorem prints_admitted_plain_modes md txt p p' :
  parse_string txt = POk p -> typecheck p = Accept p' -> in_fragment p' -> plain_src_b p = true ->
  forall fuel pick, exists C',
    sax_steps (p_funs p') true (sax_init p')
      (labels (res_config (exec_run fuel pick md (p_types p') (p_funs p') (init_config p')))) C'.
Proof.
  intros Hp Ha Hf Hpl. destruct md.
  - exact (prints_admitted_all Async txt p p' eq_refl Hp Ha Hf (plain_src_single_decls p p' Ha Hpl)).
  - exact (prints_admitted_all Sync txt p p' eq_refl Hp Ha Hf (plain_src_single_decls p p' Ha Hpl)).
  - exact (prints_admitted_np_plain txt p p' Hp Ha Hf Hpl).
Qed.

(* the first sentence of C04 for plain programs in the NP mode: admitted by Sax.v, and every NP schedule
   prints the same multiset (DeterminismNP.determinism_np_plain; all_src_b is a theorem for parsed programs) *)
Theorem results_unique_admitted_np_plain txt p p' pick1 f1 t1 :
  parse_string txt = POk p -> typecheck p = Accept p' -> in_fragment p' -> plain_src_b p = true ->
  exec_run f1 pick1 NP (p_types p') (p_funs p') (init_config p') = RQuiescent t1 ->
  (exists C', sax_steps (p_funs p') true (sax_init p') (labels t1) C') /\
  (forall pick2 f2, (f1 <= f2)%nat ->
     exists t2, exec_run f2 pick2 NP (p_types p') (p_funs p') (init_config p') = RQuiescent t2 /\ labels t2 ≡ₚ labels t1).
Proof.
  intros Hp Ha Hf Hpl Hrun. split.
  - destruct (prints_admitted_np_plain txt p p' Hp Ha Hf Hpl f1 pick1) as [C' HC]. rewrite Hrun in HC. eauto.
  - intros pick2 f2 Hle.
    assert (np_src_b p = true) as Hsrc.
    { unfold np_src_b. by rewrite (SrcAll.all_src_parsed txt p p' Hp Ha), Hpl. }
    destruct (determinism_np_plain txt p p' pick1 pick2 f1 f2 t1 Hp Ha Hf Hsrc Hrun Hle) as (t2 & H2 & _ & Hperm). eauto.
Qed.

(* the premises as one computable verdict on the text (driver `c04np`) *)
Definition c04_np_plain_text (txt : string) : bool :=
  match parse_string txt with
  | POk p => match typecheck p with Accept p' => in_fragment_b p' && plain_src_b p | _ => false end
  | _ => false
  end.

Theorem prints_admitted_np_plain_text txt : c04_np_plain_text txt = true ->
  exists p p', parse_string txt = POk p /\ typecheck p = Accept p' /\
  forall md fuel pick, exists C',
    sax_steps (p_funs p') true (sax_init p')
      (labels (res_config (exec_run fuel pick md (p_types p') (p_funs p') (init_config p')))) C'.
Proof.
  unfold c04_np_plain_text. destruct (parse_string txt) as [p| | |] eqn:Hp; try discriminate.
  destruct (typecheck p) as [p'| | |] eqn:Ha; try discriminate.
  intros [Hf Hc]%andb_prop. exists p, p'. split; [done|]. split; [done|]. intros md.
  apply (prints_admitted_plain_modes md txt p p' Hp Ha); [by apply in_fragment_b_sound|done].
Qed.

(* ------------------------------------------------------------------ 2. NP with FORWARDS.
   Class: no drop, no split, no droppable forward in any body, one provider per process (`fwf`; forwards allowed).
   In NP a forward `fwd self b` offers its providers on the control channel of b and the provider of b adopts
   them (Control f t): this is Sax's rule id (provider renaming), with no FWD message in between.  Every other
   NP step of this class is an asynchronous step (Run) or two of them (Rendezvous: np_rdv_async), which
   SaxSplit.refines_all_step reads as zero or one step of Sax.v. *)
Require Import Grits.RuntimeFootprint Grits.spec.RtTyping Grits.spec.Topo Grits.proofs.StepErrors Grits.proofs.RtSafety
               Grits.proofs.RtSafetyNP Grits.proofs.RuntimeFacts Grits.proofs.AsyncSync Grits.proofs.TopoStep
               Grits.proofs.InvAll Grits.proofs.InvNP Grits.proofs.NPCfree.

Fixpoint fwf (f : form) : bool :=
  match f with
  | FRecv _ _ _ k | FWait _ k | FShift _ _ k | FPrint _ k => fwf k
  | FCase _ bs => fwf_brs bs
  | FNew _ b k => fwf b && fwf k
  | FFwd _ _ d => negb d
  | FSplit _ _ _ _ | FDrop _ _ => false
  | _ => true
  end
with fwf_brs (b : branches) : bool :=
  match b with BrNil => true | BrCons _ _ k r => fwf k && fwf_brs r end.

Lemma fwf_subst_mut old new :
  (forall f, fwf (subst old new f) = fwf f) /\ (forall b, fwf_brs (subst_brs old new b) = fwf_brs b).
Proof.
  apply form_branches_ind; simpl; intros; auto;
    repeat match goal with |- context [if ?c then _ else _] => destruct c end; congruence.
Qed.
Lemma fwf_subst old new f : fwf (subst old new f) = fwf f.
Proof. apply fwf_subst_mut. Qed.
Lemma fwf_find l bs pay K : find_branch l bs = Some (pay, K) -> fwf_brs bs = true -> fwf K = true.
Proof.
  induction bs as [|l' p' k' r IH]; simpl; [discriminate|]. rewrite andb_true_iff. destruct (String.eqb l' l).
  - intros [= -> ->]. tauto.
  - intros H [_ H']. auto.
Qed.
Lemma fwf_sub_all : forall ps ar b, fwf (sub_all ps ar b) = fwf b.
Proof. induction ps as [|q ps IH]; intros [|a ar] b; simpl; auto. by rewrite IH, fwf_subst. Qed.
Definition fwf_funs (Fs : list fundef) : Prop := Forall (fun fd => fwf (fn_body fd) = true) Fs.
Lemma fwf_call_body Fs fn args b : fwf_funs Fs -> call_body Fs fn args = Some b -> fwf b = true.
Proof.
  intros HFc. rewrite call_body_unfold. destruct (get_function Fs fn (length args)) as [fd|] eqn:Hg; [|discriminate].
  apply get_function_In in Hg. unfold fwf_funs in HFc. rewrite Forall_forall in HFc. specialize (HFc fd Hg).
  cbn zeta. destruct (fn_explicit fd); repeat case_match; intros [= <-]; rewrite fwf_sub_all, ?fwf_subst; done.
Qed.

Definition FwCfg (c : config) : Prop :=
  forall p pp, procs c !! p = Some pp -> fwf (pr_body0 pp) = true /\ exists n, pr_provs pp = [n].

Lemma fwf_not_drop f : fwf f = true -> is_drop f = false.
Proof. by destruct f. Qed.

Section FwClass.
Variable D : tenv.
Variable F : list fundef.
Hypothesis HFc : fwf_funs F.

Lemma fw_effect c0 p pp e :
  FwCfg c0 ->
  (forall pp1, e_after e = Continue pp1 -> fwf (pr_body0 pp1) = true /\ exists n, pr_provs pp1 = [n]) ->
  (forall s, In s (e_spawn e) -> fwf (sp_body s) = true /\ exists n, sp_provs s = [n]) ->
  FwCfg (apply_effect c0 p pp e).
Proof.
  intros Hcf Hc Hs q v Hq. pose proof (apply_effect_objs c0 p pp e (OProc q v) Hq) as [(-> & pp1 & Ea & Hp & Hb)|[(s & n & Hin & -> & ->)|[_ Ho]]].
  - rewrite Hp, Hb. by apply Hc.
  - cbn. by apply Hs.
  - exact (Hcf q v Ho).
Qed.

Lemma fw_internal p provs body nx e : fwf body = true -> internal_effect NP F p (Proc provs body nx) = EOk e ->
  (exists B nx1, e_after e = Continue (Proc provs B nx1) /\ fwf B = true) /\
  (forall s, In s (e_spawn e) -> fwf (sp_body s) = true /\ exists n, sp_provs s = [n]) /\ e_close e = [].
Proof.
  unfold internal_effect. cbn [pr_body0]. destruct body as [| | | |x b k0| | | | |fn args pt| | |cl k0|l k0]; try discriminate; simpl; intros Hb.
  - apply andb_true_iff in Hb as [Hb1 Hb2]. unfold fresh_chan. cbn [pr_next pr_provs pr_body0]. intros [= <-]. cbn.
    split; [eexists _, _; split; [reflexivity|by rewrite fwf_subst]|]. split; [|done]. intros s [<-|[]]. cbn. eauto.
  - destruct (call_body F fn args) as [b|] eqn:Ecb; [|done]. intros [= <-]. cbn.
    split; [eexists _, _; split; [reflexivity|eapply fwf_call_body; eauto]|]. split; [intros s []|done].
  - intros [= <-]. cbn. split; [eexists _, _; split; [reflexivity|done]|]. split; [intros s []|done].
Qed.

Lemma fw_on_message p pp m e :
  on_message p pp m = EOk e -> fwf (pr_body0 pp) = true -> (exists n, pr_provs pp = [n]) -> body_is_fwd (pr_body0 pp) = false ->
  m_rule m <> RFWD -> m_rule m <> RGC ->
  exists pp1, e = Eff (Continue pp1) [] [] [] [] /\ fwf (pr_body0 pp1) = true /\ exists n, pr_provs pp1 = [n].
Proof.
  intros He Hpl Hpv Hnf Hfw Hgc. unfold on_message in He.
  destruct (rule_eqb (m_rule m) RFWD && negb _) eqn:E1.
  { apply andb_true_iff in E1 as [E1 _]. apply rule_eqb_eq in E1. contradiction. }
  destruct (rule_eqb (m_rule m) RGC && negb _) eqn:E2.
  { apply andb_true_iff in E2 as [E2 _]. apply rule_eqb_eq in E2. contradiction. }
  destruct (pr_body0 pp) as [to pay cont|pay cont from k0|to l cont|from bs|x b k0|c0|c0 k0|to from d|x y from k0|fn args pt|to cont|x from k0|c0 k0|l k0] eqn:Eb;
    try discriminate; simpl in Hpl.
  - destruct (is_self from); [destruct (rule_eqb (m_rule m) RRCV)|destruct (rule_eqb (m_rule m) RSND)]; try discriminate; injection He as <-;
      (eexists; split; [reflexivity|]); cbn; rewrite ?fwf_subst; eauto.
  - destruct (is_self from); [destruct (rule_eqb (m_rule m) RBRA)|destruct (rule_eqb (m_rule m) RSEL)]; try discriminate;
      destruct (find_branch (m_label m) bs) as [[pay K]|] eqn:Efb; try discriminate; injection He as <-;
      (eexists; split; [reflexivity|]); cbn; rewrite ?fwf_subst; (split; [eapply fwf_find; eauto|eauto]).
  - destruct (rule_eqb (m_rule m) RCLS); try discriminate; injection He as <-;
      (eexists; split; [reflexivity|]); cbn; eauto.
  - destruct (is_self from); [destruct (rule_eqb (m_rule m) RSHF)|destruct (rule_eqb (m_rule m) RCST)]; try discriminate; injection He as <-;
      (eexists; split; [reflexivity|]); cbn; rewrite ?fwf_subst; eauto.
Qed.

Theorem fw_step_np c ch c' : FwCfg c -> bufs_empty c -> step NP D F c ch = SStep c' -> FwCfg c'.
Proof.
  intros Hcf Hbe. destruct ch as [p|s r|f t]; cbn [step].
  - destruct (procs c !! p) as [pp|] eqn:Hp; [|done]. destruct (Hcf p pp Hp) as [Hb [n0 Hn0]].
    destruct (action_of NP D pp) as [| |k m|k| |k pv|w] eqn:Ea; try done.
    + apply np_action_async in Ea; [|done]. apply action_dup_multi in Ea. unfold multi in Ea. rewrite Hn0 in Ea. done.
    + destruct (internal_effect NP F p pp) as [e|] eqn:He; [|done]. intros [= <-]. destruct pp as [provs body nx]. cbn in Hb, Hn0. subst provs.
      destruct (fw_internal p [n0] body nx e Hb He) as ((B & nx1 & Ea' & HB) & Hsp & _).
      apply fw_effect; [done| |done]. intros pp1 E. rewrite Ea' in E. injection E as <-. cbn. eauto.
    + destruct (chans c !! k) as [st|]; [|done]. destruct (ch_closed st); [done|]. by destruct (ch_buf st).
    + destruct (chans c !! k) as [st|] eqn:Ek; [|done]. rewrite (Hbe _ _ Ek). destruct (ch_closed st); [|done].
      destruct (on_message p pp zero_msg) as [e|] eqn:He; [|done]. intros [= <-].
      pose proof (NPCfree.np_act_nonfwd D pp _ Ea I) as Hnf.
      destruct (fw_on_message p pp zero_msg e He Hb (ex_intro _ n0 Hn0) Hnf) as (pp1 & -> & H1 & H2); [discriminate|discriminate|].
      apply fw_effect; [done| |intros s0 []]. intros pp2 [= <-]. done.
  - destruct (bool_decide (s = r)); [done|]. destruct (procs c !! s) as [ps|] eqn:Hs; [|done].
    destruct (procs c !! r) as [pr|] eqn:Hr; [|done].
    destruct (action_of NP D ps) as [| |k m|k| |k pv|w] eqn:Eas; try done.
    destruct (action_of NP D pr) as [| |k' m'|k'| |k' pv'|w'] eqn:Ear; try done.
    destruct (bool_decide (k = k')); [|done]. destruct (chans c !! k) as [st|]; [|done]. destruct (ch_closed st); [done|].
    destruct (on_message r pr m) as [e|] eqn:He; [|done]. intros [= <-].
    destruct (Hcf r pr Hr) as [Hbr Hnr].
    pose proof (NPCfree.np_act_nonfwd D ps _ Eas I) as Hnfs. pose proof (NPCfree.np_act_nonfwd D pr _ Ear I) as Hnfr.
    apply np_action_async in Eas; [|done].
    destruct (NPCfree.nonfwd_send_rule D ps k m Eas Hnfs) as [Hfw Hgc].
    destruct (fw_on_message r pr m e He Hbr Hnr Hnfr Hfw Hgc) as (pp1 & -> & H1 & H2).
    apply fw_effect; [|intros pp2 [= <-]; done|intros s0 []].
    intros q v Hq. cbn in Hq. apply lookup_delete_Some in Hq as [_ Hq]. exact (Hcf q v Hq).
  - cbn [negb is_np orb]. destruct (bool_decide (f = t)); [done|]. destruct (procs c !! f) as [pf|] eqn:Hf; [|done].
    destruct (procs c !! t) as [pt|] eqn:Hpt; [|done]. destruct (action_of NP D pf) as [| |k m|k| |k pv|w] eqn:Ea; try done.
    destruct (self_chan pt) as [k'|]; [|done]. destruct (bool_decide (k = k') && polls_control NP D pt); [|done]. intros [= <-].
    destruct (ctrl_inv D pf k pv Ea) as (to & from & d & _ & _ & ->).
    destruct (Hcf f pf Hf) as [_ [nf Hnf]]. destruct (Hcf t pt Hpt) as [Hbt [n0 Hn0]].
    apply fw_effect; [|intros pp2 [= <-]; cbn; rewrite Hnf, Hn0; cbn; eauto|intros s0 []].
    intros q v Hq. cbn in Hq. apply lookup_delete_Some in Hq as [_ Hq]. exact (Hcf q v Hq).
Qed.
End FwClass.

(* ------------------------------------------------------------------ the objects of Sax.v under provider renaming *)
Lemma provides_obj k P : match P with FFwd _ _ true => False | _ => True end -> Sax.provides (Sax.obj k P) = Some k.
Proof.
  destruct P; simpl; try done; intros H;
    repeat match goal with |- context [if ?c then _ else _] => destruct c end;
    repeat match goal with |- context [match chan ?x with _ => _ end] => destruct (chan x) end; try done.
Qed.
Lemma reprovide_obj a k P : Sax.reprovide a (Sax.obj k P) = Sax.obj a P.
Proof.
  destruct P; simpl; try done;
    repeat match goal with |- context [if ?c then _ else _] => destruct c end;
    repeat match goal with |- context [match chan ?x with _ => _ end] => destruct (chan x) end; try done.
Qed.

Lemma fwcfg_splitcfg c : FwCfg c -> bufs_empty c -> SplitCfg c.
Proof.
  intros Hfw Hbe. split.
  - intros q pp Hq. left. by apply (Hfw q pp).
  - intros k st m Hk Hb. pose proof (Hbe k st Hk). congruence.
Qed.

Section np_refine.
Variable D : tenv.
Variable F : list fundef.
Variable teq : sty -> sty -> Prop.
Hypothesis Hteq : teq_laws D teq.
Hypothesis HF : funs_typed D F teq.
Hypothesis HFa : TopoStep.funs_aff F.
Hypothesis HFn : nofd_funs F.
Hypothesis HFc : fwf_funs F.

(* a Run step of the mode, in this class, is the asynchronous step *)
Lemma np_run_async c p c' : FwCfg c -> step NP D F c (Run p) = SStep c' -> step Async D F c (Run p) = SStep c'.
Proof.
  intros Hfw. cbn [step]. destruct (procs c !! p) as [pp|] eqn:Hp; [|done]. destruct (Hfw p pp Hp) as [Hb _].
  destruct (action_of NP D pp) as [| |k m|k| |k pv|w] eqn:Ea; try done.
  - apply np_action_async in Ea; [|done]. by rewrite Ea.
  - apply np_action_async in Ea; [|done]. rewrite Ea. by rewrite (internal_np_nondrop F p pp (fwf_not_drop _ Hb)).
  - destruct (chans c !! k) as [st|]; [|done]. destruct (ch_closed st); [done|]. by destruct (ch_buf st).
  - apply np_action_async in Ea; [|done]. by rewrite Ea.
Qed.

(* Control f t is the rule id of Sax.v: the provider of b re-provides a *)
Lemma refines_control c f t c' :
  InvX D F teq c -> bufs_empty c -> FwCfg c -> step NP D F c (Control f t) = SStep c' ->
  sax_step F true (α c) [] (α c') /\ labels c' = labels c.
Proof.
  intros [[Δ Hc] Ht Hl Hns Hpv Hd Hnf] Hbe Hfw. cbn [step negb is_np orb].
  destruct (bool_decide (f = t)) eqn:Eft; [done|]. apply bool_decide_eq_false in Eft.
  destruct (procs c !! f) as [pf|] eqn:Hf; [|done]. destruct (procs c !! t) as [pt|] eqn:Hpt; [|done].
  destruct (action_of NP D pf) as [| |k m|k| |k provs|w] eqn:Ea; try done.
  destruct (self_chan pt) as [k'|] eqn:Esc; [|done].
  destruct (bool_decide (k = k')) eqn:Ek; [|done]. apply bool_decide_eq_true in Ek. subst k'.
  destruct (polls_control NP D pt); [|done]. cbn [andb]. intros [= <-].
  destruct (ctrl_inv D pf k provs Ea) as (to & from & d & Hbody & Hfrom & ->).
  assert (is_self to = true) as Hto.
  { unfold action_of in Ea. rewrite Hbody in Ea. destruct (is_self to); [done|discriminate]. }
  destruct (Hfw f pf Hf) as [Hbf [na Hna]]. rewrite Hbody in Hbf. cbn in Hbf. apply negb_true_iff in Hbf. subst d.
  destruct (Hfw t pt Hpt) as [Hbt [n0 Hn0]].
  destruct (ct_procs _ _ _ _ _ Hc f pf Hf) as (sf & rsf & _ & Hprovf & _).
  rewrite Hna in Hprovf. apply Forall_cons_iff in Hprovf as [(a & t' & Hca & _) _].
  unfold self_chan, prov0 in Esc. rewrite Hn0 in Esc. cbn in Esc.
  split.
  2:{ rewrite labels_effect. cbn. by rewrite app_nil_r. }
  exists [SFwd a k; Sax.obj k (pr_body0 pt)], [Sax.obj a (pr_body0 pt)],
         (procs_objs (delete t (delete f (procs c))) ++ chans_objs (chans c)).
  split; [|split].
  - rewrite (alpha_lookup c f pf Hf).
    rewrite (procs_objs_lookup (delete f (procs c)) t pt) by (by rewrite lookup_delete_ne).
    unfold proc_obj. rewrite Hna, Hn0. unfold pobj. rewrite Hca, Esc, Hbody. cbn [Sax.obj]. rewrite Hto, Hfrom.
    cbn. done.
  - rewrite alpha_effect_simple. cbn [del_proc procs chans]. unfold proc_obj, set_provs_body. cbn [pr_provs pr_body0].
    rewrite Hna, Hn0. cbn [tl app]. unfold pobj. rewrite Hca. done.
  - left. rewrite <- (reprovide_obj a k (pr_body0 pt)). apply s_id. apply provides_obj.
    destruct (pr_body0 pt); try done. cbn in Hbt. by destruct droppable.
Qed.

(* one step of the mode: zero, one or two steps of Sax.v (structural rules are never used by this class,
   but the reading of the configurations is SaxSplit's, so `str` = true) *)
Theorem refines_np_step c ch c' :
  InvX D F teq c -> bufs_empty c -> FwCfg c -> step NP D F c ch = SStep c' ->
  exists ls, sax_steps F true (α c) ls (α c') /\ labels c' = labels c ++ ls.
Proof.
  intros HI Hbe Hfw Hs. pose proof (fwcfg_splitcfg c Hfw Hbe) as Hsc.
  destruct ch as [p|s r|f t].
  - apply (np_run_async c p c' Hfw) in Hs.
    exact (proj1 (refines_all_step_md D F teq Hteq HF HFa HFn Async c (Run p) c' eq_refl HI Hsc (fun E => ltac:(discriminate E)) Hs)).
  - destruct (np_rdv_async D F c s r c' Hbe Hs) as (c1 & H1 & H2).
    destruct (refines_all_step_md D F teq Hteq HF HFa HFn Async c (Run s) c1 eq_refl HI Hsc (fun E => ltac:(discriminate E)) H1)
      as [(l1 & Hs1 & Hl1) Hsc1].
    pose proof (invx_step_async D F teq Hteq HF HFa HFn c (Run s) c1 HI H1) as HI1.
    destruct (refines_all_step_md D F teq Hteq HF HFa HFn Async c1 (Run r) c' eq_refl HI1 Hsc1 (fun E => ltac:(discriminate E)) H2)
      as [(l2 & Hs2 & Hl2) _].
    exists (l1 ++ l2). split; [by eapply sax_steps_app|]. by rewrite Hl2, Hl1, app_assoc.
  - destruct (refines_control c f t c' HI Hbe Hfw Hs) as [H1 H2]. exists []. split.
    + rewrite <- (app_nil_r []). eapply sax_trans; [exact H1|]. by apply sax_refl.
    + by rewrite app_nil_r.
Qed.

Theorem refines_np_run c tr c' :
  InvX D F teq c -> bufs_empty c -> FwCfg c -> steps NP D F c tr c' ->
  exists ls, sax_steps F true (α c) ls (α c') /\ labels c' = labels c ++ ls.
Proof.
  intros HI Hbe Hfw Hs. induction Hs as [c|c ch c1 tr c2 Hstep _ IH].
  - exists []. split; [by apply sax_refl|by rewrite app_nil_r].
  - destruct (refines_np_step c ch c1 HI Hbe Hfw Hstep) as (l1 & Hs1 & Hl1).
    destruct (invx_step_np D F teq Hteq HF HFa HFn c ch c1 HI Hbe Hstep) as [HI1 Hbe1].
    pose proof (fw_step_np D F HFc c ch c1 Hfw Hbe Hstep) as Hfw1.
    destruct (IH HI1 Hbe1 Hfw1) as (l2 & Hs2 & Hl2).
    exists (l1 ++ l2). split; [by eapply sax_steps_app|]. by rewrite Hl2, Hl1, app_assoc.
Qed.
End np_refine.

(* ------------------------------------------------------------------ programs *)
Require Import Grits.spec.SynOk Grits.proofs.RtInit Grits.proofs.RtTcSyn Grits.proofs.RtTcBisim Grits.proofs.ParseSynOk
               Grits.proofs.ParseRaw Grits.proofs.RtTheoremsTc Grits.proofs.InitForest Grits.proofs.InitAccept
               Grits.proofs.DeterminismNPCfree.

Lemma fwf_erase_mut :
  (forall f, fwf (erase_form f) = fwf f) /\ (forall b, fwf_brs (erase_brs b) = fwf_brs b).
Proof. apply form_branches_ind; simpl; intros; congruence. Qed.
Lemma fwf_erase_eq f g : erase_form f = erase_form g -> fwf f = fwf g.
Proof. intros E. rewrite <- (proj1 fwf_erase_mut f), E. apply fwf_erase_mut. Qed.
Lemma fold_sub_fwf l : forall b, fwf (fold_sub l b) = fwf b.
Proof.
  induction l as [|[[old new] ot] l IH]; intros b; [reflexivity|].
  change (fold_sub ((old, new, ot) :: l) b) with (fold_sub l (subst old new b)). by rewrite IH, fwf_subst.
Qed.
Lemma fwf_cfree_mut :
  (forall f, fwf f = true -> cfree f = true) /\ (forall b, fwf_brs b = true -> cfree_brs b = true).
Proof.
  apply form_branches_ind; simpl; intros; auto; try discriminate;
    repeat match goal with H : _ && _ = true |- _ => apply andb_true_iff in H as [? ?] end;
    rewrite ?andb_true_iff; auto.
Qed.

(* the source test: no drop, no split (forwards allowed) in any body; one provider name per process *)
Definition fwf_src_b (p : program) : bool :=
  forallb (fun fd => fwf (fn_body fd)) (p_funs p) &&
  forallb (fun pd => fwf (pr_body pd) && match pr_providers pd with [_] => true | _ => false end) (p_procs p).

Lemma fwf_src_cfree p : fwf_src_b p = true -> cfree_src_b p = true.
Proof.
  unfold fwf_src_b, cfree_src_b. rewrite !andb_true_iff, !forallb_forall. intros [H1 H2]. split.
  - intros fd Hin. apply fwf_cfree_mut. by apply H1.
  - intros pd Hin. specialize (H2 pd Hin). apply andb_true_iff in H2 as [Ha Hb]. rewrite Hb, andb_true_r. by apply fwf_cfree_mut.
Qed.

Lemma init_fw p p' : typecheck p = Accept p' -> fwf_src_b p = true ->
  fwf_funs (p_funs p') /\ FwCfg (init_config p').
Proof.
  intros Ha Hpl. destruct (typecheck_erase p p' Ha) as (Sf & Sp & _).
  unfold fwf_src_b in Hpl. apply andb_true_iff in Hpl as [Hpf Hpp]. rewrite forallb_forall in Hpf, Hpp. split.
  - unfold fwf_funs. rewrite Forall_forall. intros fd' Hfd'.
    destruct (TypingSoundTop.Forall2_In_r _ _ _ _ Sf Hfd') as (fd & Hfd & E). rewrite (fwf_erase_eq _ _ E). by apply Hpf.
  - intros q pq Hq. apply RtInit.init_config_procs in Hq. destruct Hq as (i & pr' & Hi & _ & ->). cbn.
    destruct (Forall2_lookup_both _ _ _ _ _ Sp Hi) as (pd & Hpd & E & Epv).
    assert (Hin : In pd (p_procs p)) by (apply elem_of_list_In; eapply elem_of_list_lookup_2; eauto).
    specialize (Hpp pd Hin). apply andb_true_iff in Hpp as [H1 H2]. split.
    + unfold init_body. rewrite (init_pairs_tops p').
      change (fold_left _ (map _ (tops p')) (pr_body pr')) with (fold_sub (tops p') (pr_body pr')).
      by rewrite fold_sub_fwf, (fwf_erase_eq _ _ E).
    + rewrite Epv. destruct (pr_providers pd) as [|n [|]]; try discriminate. simpl. eauto.
Qed.

(* C04, results, NP mode, programs WITH FORWARDS (no drop, no split, one provider name per process): the labels
   of every run of the non-polarized mode are printed by an execution of spec/Sax.v from the program's own
   SAX configuration *)
Theorem prints_admitted_np_fwd txt p p' :
  parse_string txt = POk p -> typecheck p = Accept p' -> in_fragment p' -> fwf_src_b p = true ->
  forall fuel pick, exists C',
    sax_steps (p_funs p') true (sax_init p')
      (labels (res_config (exec_run fuel pick NP (p_types p') (p_funs p') (init_config p')))) C'.
Proof.
  intros Hp Ha Hf Hsrc fuel pick.
  pose proof (parse_syn_ok _ _ Hp) as PS. pose proof (parse_raw_ok _ _ Hp) as RS.
  destruct (init_invx p p' Ha Hf PS RS (all_src_parsed txt p p' Hp Ha)) as (HFa & HFn & HI).
  pose proof (tc_annotations_typed_rt p p' Ha PS RS Hf) as Hst.
  destruct (init_fw p p' Ha Hsrc) as [HFc Hfw].
  rewrite <- (exec_trace_exec_run NP (p_types p') (p_funs p') fuel pick (init_config p') []).
  destruct (exec_trace fuel pick NP (p_types p') (p_funs p') (init_config p') []) as [r tr] eqn:Htr. cbn [fst].
  apply exec_trace_run in Htr as (es & _ & Hrun).
  destruct (refines_np_run _ _ _ (teq_rt_laws _) (proj1 Hst) HFa HFn HFc _ _ _ HI (bufs_empty_init p') Hfw Hrun) as (ls & Hs & Hl).
  exists (α (res_config r)). rewrite Hl. change (labels (init_config p')) with (@nil string). cbn.
  eapply sax_steps_perm; [symmetry; apply alpha_init; intros q pr Hq; by apply (Hfw q pr)|done].
Qed.

(* ... and every NP schedule that completes prints the same multiset (DeterminismNPCfree.determinism_np_cfree) *)
Theorem results_unique_admitted_np_fwd txt p p' pick1 f1 t1 :
  parse_string txt = POk p -> typecheck p = Accept p' -> in_fragment p' -> fwf_src_b p = true ->
  exec_run f1 pick1 NP (p_types p') (p_funs p') (init_config p') = RQuiescent t1 ->
  (exists C', sax_steps (p_funs p') true (sax_init p') (labels t1) C') /\
  (forall pick2 f2, (f1 <= f2)%nat ->
     exists t2, exec_run f2 pick2 NP (p_types p') (p_funs p') (init_config p') = RQuiescent t2 /\ labels t2 ≡ₚ labels t1).
Proof.
  intros Hp Ha Hf Hsrc Hrun. split.
  - destruct (prints_admitted_np_fwd txt p p' Hp Ha Hf Hsrc f1 pick1) as [C' HC]. rewrite Hrun in HC. eauto.
  - intros pick2 f2 Hle.
    destruct (determinism_np_cfree txt p p' pick1 pick2 f1 f2 t1 Hp Ha Hf (fwf_src_cfree p Hsrc) Hrun Hle) as (t2 & H2 & _ & Hperm). eauto.
Qed.

(* all three modes: fwf_src_b implies single_decls of the accepted program *)
Lemma fwf_src_single_decls p p' : typecheck p = Accept p' -> fwf_src_b p = true -> single_decls p' = true.
Proof.
  intros Ha Hpl. destruct (typecheck_erase p p' Ha) as (_ & Sp & _).
  unfold fwf_src_b in Hpl. apply andb_true_iff in Hpl as [_ Hpp]. rewrite forallb_forall in Hpp.
  unfold single_decls. rewrite forallb_forall. intros pd' Hin'.
  destruct (TypingSoundTop.Forall2_In_r _ _ _ _ Sp Hin') as (pd & Hin & _ & Epv).
  specialize (Hpp pd Hin). apply andb_true_iff in Hpp as [_ H2]. by rewrite Epv.
Qed.

Definition c04_np_fwd_text (txt : string) : bool :=
  match parse_string txt with
  | POk p => match typecheck p with Accept p' => in_fragment_b p' && fwf_src_b p | _ => false end
  | _ => false
  end.

Theorem prints_admitted_np_fwd_text txt : c04_np_fwd_text txt = true ->
  exists p p', parse_string txt = POk p /\ typecheck p = Accept p' /\
  forall md fuel pick, exists C',
    sax_steps (p_funs p') true (sax_init p')
      (labels (res_config (exec_run fuel pick md (p_types p') (p_funs p') (init_config p')))) C'.
Proof.
  unfold c04_np_fwd_text. destruct (parse_string txt) as [p| | |] eqn:Hp; try discriminate.
  destruct (typecheck p) as [p'| | |] eqn:Ha; try discriminate.
  intros [Hf Hc]%andb_prop. apply in_fragment_b_sound in Hf. exists p, p'. split; [done|]. split; [done|]. intros md.
  destruct md.
  - exact (prints_admitted_all Async txt p p' eq_refl Hp Ha Hf (fwf_src_single_decls p p' Ha Hc)).
  - exact (prints_admitted_all Sync txt p p' eq_refl Hp Ha Hf (fwf_src_single_decls p p' Ha Hc)).
  - exact (prints_admitted_np_fwd txt p p' Hp Ha Hf Hc).
Qed.

(* ------------------------------------------------------------------ the full statement for the contraction-free class, and what is proved of it.
   FULL: cfree_src_b (no split, one provider name per process; forwards AND drop allowed).
   PROVED (prints_admitted_np_cfree_partial): the same with fwf_src_b = cfree_src_b + no `drop` in any body.
   MISSING: `drop x; k` in NP continues as k and reclaims nothing, so the step is s_drop whose pending request drop(x)
   never fires (refines_np_drop below): the Sax configuration is α c plus such requests, and carrying them through the
   later steps (sax_step_frame below) needs the invariant "the channel of every such request still occurs in α c"
   (its provider is never reclaimed and nobody else refers to it: Topo + affinity), which is not proved here. *)
Definition prints_admitted_np_cfree_stmt : Prop := forall txt p p',
  parse_string txt = POk p -> typecheck p = Accept p' -> in_fragment p' -> cfree_src_b p = true ->
  forall fuel pick, exists C',
    sax_steps (p_funs p') true (sax_init p')
      (labels (res_config (exec_run fuel pick NP (p_types p') (p_funs p') (init_config p')))) C'.

Definition nodrop_src_b (p : program) : bool := fwf_src_b p.
Theorem prints_admitted_np_cfree_partial : forall txt p p',
  parse_string txt = POk p -> typecheck p = Accept p' -> in_fragment p' -> cfree_src_b p = true -> nodrop_src_b p = true ->
  forall fuel pick, exists C',
    sax_steps (p_funs p') true (sax_init p')
      (labels (res_config (exec_run fuel pick NP (p_types p') (p_funs p') (init_config p')))) C'.
Proof. intros txt p p' Hp Ha Hf _ Hnd. exact (prints_admitted_np_fwd txt p p' Hp Ha Hf Hnd). Qed.

(* garbage that mentions only channels of the configuration does not disturb a step *)
Lemma sax_step_frame F str C ls C' G :
  (forall z, z ∈ cfg_cids G -> z ∈ cfg_cids C) ->
  sax_step F str C ls C' -> sax_step F str (C ++ G) ls (C' ++ G).
Proof.
  intros HG (L & R & Δ & HC & HC' & Hred). exists L, R, (Δ ++ G). split; [by rewrite HC, app_assoc|]. split; [by rewrite HC', app_assoc|].
  assert (Hcids : forall o z, z ∉ cfg_cids (o :: Δ) -> C ≡ₚ [o] ++ Δ -> z ∉ cfg_cids (o :: Δ ++ G)).
  { intros o z Hz HCo Hin. unfold cfg_cids in Hin. cbn in Hin. rewrite flat_map_app in Hin.
    rewrite app_assoc in Hin. apply elem_of_app in Hin as [Hin|Hin]; [by apply Hz|].
    apply Hz. specialize (HG z Hin). unfold cfg_cids in HG. rewrite HCo in HG. exact HG. }
  destruct Hred as [Hlin|[Hstr Hs]].
  - left. destruct Hlin; by econstructor; eauto.
  - right. split; [done|]. destruct Hs; try (by econstructor; eauto).
    eapply s_copy; eauto. intros z Hz Hin.
    match goal with H : forall z, z ∈ names_cids _ -> _ |- _ => apply (H z Hz) end.
    assert (z ∈ cfg_cids (SSplit c1 c2 b :: Sax.obj b P :: Δ) \/ z ∈ cfg_cids G) as [Hin1|HinG].
    { unfold cfg_cids in Hin |- *. cbn in Hin |- *. rewrite flat_map_app in Hin. set_solver. }
    + exact Hin1.
    + specialize (HG z HinG). unfold cfg_cids in HG |- *. rewrite HC in HG. exact HG.
Qed.

Require Import Grits.proofs.SaxDrop.
(* `drop x; k` in the non-polarized mode: the process goes on and nothing is reclaimed — the rule s_drop of Sax.v whose
   pending request drop(x) stays behind (it never fires: the provider of x keeps running, as it may in Sax.v) *)
Lemma refines_np_drop D F teq Δ c p n0 a x k nx c' :
  cfg_typed D F teq Δ c -> procs c !! p = Some (Proc [n0] (FDrop x k) nx) -> chan n0 = Some a ->
  step NP D F c (Run p) = SStep c' ->
  exists b, chan x = Some b /\ sax_step F true (α c) [] (α c' ++ [SDrop b]) /\ labels c' = labels c.
Proof.
  intros Hc Hp Hn Hs.
  destruct (ct_procs _ _ _ _ _ Hc p _ Hp) as (s & rs & _ & _ & Hty). cbn in Hty.
  inversion Hty as [| | | | | | | | | | | |? ? ? ? ? ? T Hcl Hk| | | | | | |]; subst.
  destruct (chan_ty_init teq Δ x T Hcl) as [b Hb]. destruct Hcl as (Hxs & _).
  cbn [step] in Hs. rewrite Hp in Hs.
  assert (action_of NP D (Proc [n0] (FDrop x k) nx) = AInternal) as Ea by (unfold action_of; cbn [pr_body0]; rewrite Hxs; reflexivity).
  assert (internal_effect NP F p (Proc [n0] (FDrop x k) nx) = EOk (no_eff (Continue (set_body (Proc [n0] (FDrop x k) nx) k)))) as Ei by reflexivity.
  rewrite Ea, Ei in Hs. cbn [eff_step] in Hs. injection Hs as <-.
  exists b. split; [done|]. split; [|rewrite labels_effect; cbn; by rewrite app_nil_r].
  exists [SProc a (FDrop x k)], [Sax.obj a k; SDrop b], (procs_objs (delete p (procs c)) ++ chans_objs (chans c)).
  split; [|split].
  - rewrite (alpha_lookup c p _ Hp). unfold proc_obj, pobj. cbn. by rewrite Hn.
  - unfold no_eff. rewrite alpha_effect_simple. unfold proc_obj, pobj, set_body. cbn. rewrite Hn. cbn.
    apply perm_skip. symmetry. apply Permutation_cons_append.
  - right. split; [done|]. by apply s_drop.
Qed.
